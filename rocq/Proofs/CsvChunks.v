(* C08: the CSV splitter's decisions do not depend on how the input arrives.
   - stability: a record or header row decided before EOF is decided identically when more
     data follows (and at EOF);
   - a "need more data" answer leaves the splitter's state unchanged;
   - hence bufio.Scanner's loop, seen as "buffered bytes + chunks still to come", delivers for
     every chunking exactly the records of the reader run over the whole input. *)
From Verif Require Import Lib.Base Lib.Utf8 Model.Csv Proofs.CsvBase Proofs.CsvFuel
  Proofs.CsvAccount Proofs.CsvRoundtrip.
From Coq Require Import ZifyBool.

(* ---- more data behind a complete line -------------------------------------- *)

Lemma cut_nl_more data l d more : cut_nl data = Some (l, d) -> cut_nl (data ++ more) = Some (l, d ++ more).
Proof.
  intros H. destruct (cut_nl_some_inv _ _ _ H) as (u & -> & Hu & ->).
  rewrite <- !app_assoc. rewrite cut_nl_app by exact Hu. cbn [app]. rewrite cut_nl_nl. reflexivity.
Qed.

Lemma read_line_false data l d inc : read_line data false = Some (l, d, inc) ->
  cut_nl data = Some (l, d) /\ inc = 0.
Proof.
  unfold read_line. destruct (cut_nl data) as [[l0 d0]|]; [|discriminate].
  intros H. injection H as <- <- <-. auto.
Qed.

Lemma read_line_more data l d more e : cut_nl data = Some (l, d) ->
  read_line (data ++ more) e = Some (l, d ++ more, 0).
Proof. intros H. unfold read_line. rewrite (cut_nl_more _ _ _ more H). reflexivity. Qed.

Section Stable.
Variable c : csv_cfg.

Lemma parse_stable : forall f,
  (forall line data adv done cr adv' fields cr' more e',
     parse_field c false f line data adv done cr = PDone adv' fields cr' ->
     parse_field c e' f line (data ++ more) adv done cr = PDone adv' fields cr') /\
  (forall line data adv cur done cr adv' fields cr' more e',
     parse_quoted c false f line data adv cur done cr = PDone adv' fields cr' ->
     parse_quoted c e' f line (data ++ more) adv cur done cr = PDone adv' fields cr').
Proof.
  induction f as [|f [IHf IHq]]; split; intros until e'; intros H; try discriminate.
  - rewrite parse_field_S in *. destruct (starts_quote line); [apply IHq; exact H|].
    destruct (cut_sub (sep_bytes c) line) as [[field rest]|]; [apply IHf; exact H | exact H].
  - rewrite parse_quoted_S in *. destruct (cut_byte 34 line) as [[pre line1]|].
    + cbv zeta in *. destruct (next_rune line1 =? 34); [apply IHq; exact H|].
      destruct (next_rune line1 =? c_sep c); [apply IHf; exact H|].
      destruct (len_newline line1 =? zlen line1); [exact H | apply IHq; exact H].
    + destruct line as [|x line]; [exact H|]. cbv zeta in *.
      destruct (read_line data false) as [[[l d] inc]|] eqn:R; [|discriminate].
      apply read_line_false in R as [R ->]. rewrite (read_line_more _ _ _ more e' R).
      apply IHq. exact H.
Qed.

Lemma skip_stable : forall f data adv skip line data' adv' skip' more e',
  skip_lines c false f data adv skip = SkLine line data' adv' skip' ->
  skip_lines c e' f (data ++ more) adv skip = SkLine line (data' ++ more) adv' skip'.
Proof.
  induction f as [|f IH]; intros until e'; intros H; [discriminate|].
  rewrite skip_lines_S in *. destruct (read_line data false) as [[[l d] inc]|] eqn:R; [|discriminate].
  apply read_line_false in R as [R ->]. rewrite (read_line_more _ _ _ more e' R). cbv zeta in *.
  destruct (zlen l =? 0); [discriminate|].
  destruct (negb (c_comment c =? 0) && (next_rune l =? c_comment c)); [apply IH; exact H|].
  destruct (zlen l =? len_newline l); [apply IH; exact H|].
  injection H as <- <- <- <-. reflexivity.
Qed.

End Stable.

Lemma skip_line_nonempty c e : forall f data adv skip line data' adv' skip',
  skip_lines c e f data adv skip = SkLine line data' adv' skip' -> 0 < zlen line.
Proof.
  induction f as [|f IH]; intros until skip'; intros H; [discriminate|].
  rewrite skip_lines_S in H. destruct (read_line data e) as [[[l d] inc]|]; [|discriminate]. cbv zeta in H.
  destruct (Z.eqb_spec (zlen l) 0); [discriminate|]. pose proof (zlen_nonneg l).
  destruct (negb (c_comment c =? 0) && (next_rune l =? c_comment c)); [eapply IH; exact H|].
  destruct (zlen l =? len_newline l); [eapply IH; exact H|].
  injection H as <- _ _ _. lia.
Qed.

Lemma prefix_of_app_false p d more : prefix_of p (d ++ more) = false -> prefix_of p d = false.
Proof.
  intros H. destruct (prefix_of p d) eqn:E; [|reflexivity].
  apply prefix_of_inv in E as [t ->]. rewrite <- app_assoc, prefix_of_app in H. discriminate.
Qed.

Lemma zdrop_app_le {A} k (l m : list A) : 0 <= k <= zlen l -> zdrop k (l ++ m) = zdrop k l ++ m.
Proof.
  intros H. unfold zdrop. rewrite skipn_app.
  replace (Z.to_nat k - length l)%nat with 0%nat by (unfold zlen in H; lia). reflexivity.
Qed.

Lemma length_zdrop {A} k (l : list A) : 0 <= k <= zlen l -> length (zdrop k l) = (length l - Z.to_nat k)%nat.
Proof. intros H. unfold zdrop. apply skipn_length. Qed.

(* the BOM a call skips, what it then reads, and where its advance starts *)
Definition isbom (s : csv_st) (data : bytes) : bool := negb (st_noBOM s) && prefix_of bom data.
Definition bdy (s : csv_st) (data : bytes) : bytes := if isbom s data then zdrop 3 data else data.
Definition a0 (s : csv_st) (data : bytes) : Z := if isbom s data then 3 else 0.

Lemma bdy_split s data : data = (if isbom s data then bom else []) ++ bdy s data.
Proof.
  unfold bdy. destruct (isbom s data) eqn:B; [|reflexivity]. unfold isbom in B.
  apply andb_true_iff in B as [_ B]. apply prefix_of_inv in B as [t ->].
  change 3 with (zlen bom). rewrite zdrop_app_len. reflexivity.
Qed.

Lemma bdy_len s data : a0 s data + zlen (bdy s data) = zlen data /\ 0 <= a0 s data <= 3.
Proof.
  pose proof (bdy_split s data) as H. unfold a0. destruct (isbom s data).
  - split; [|lia]. rewrite H at 2. zl. cbn. lia.
  - cbn [app] in H. rewrite <- H. lia.
Qed.

(* one call, unfolded *)
Lemma scan_unfold c s data stale nz e :
  scan c s data stale nz e =
    if e && (zlen (bdy s data) =? 0) then (s, ONeed)
    else
      match skip_lines c e (S (length (bdy s data))) (bdy s data) (a0 s data) (a0 s data) with
      | SkNeed => (s, ONeed)
      | SkFuel => (s, OFuel)
      | SkLine line data2 adv skip =>
          match parse_field c e (S (length (bdy s data))) line data2 adv [] false with
          | PNeed => (s, ONeed)
          | PFuel => (s, OFuel)
          | PDone adv fields cr =>
              if (st_row s =? 0) && c_header c
              then (mkSt true (st_row s + 1), OHeader adv fields)
              else
                match slice_cap (data ++ stale) nz skip adv with
                | Ok tok =>
                    let tok := ztake (zlen tok - len_newline tok) tok in
                    let tok := if cr then remove_cr tok else tok in
                    (mkSt true (st_row s + 1), ORecord adv tok fields)
                | _ => (mkSt true (st_row s + 1), OPanic)
                end
          end
      end.
Proof. reflexivity. Qed.

(* "need more data" does not touch the splitter's state *)
Lemma scan_need_state c s data stale nz e s' :
  scan c s data stale nz e = (s', ONeed) -> s' = s.
Proof.
  rewrite scan_unfold.
  destruct (e && (zlen (bdy s data) =? 0)); [intros H; injection H as <-; reflexivity|].
  destruct (skip_lines c e (S (length (bdy s data))) (bdy s data) (a0 s data) (a0 s data)) as [| |line data2 adv skip];
    try (intros H; injection H as <-; reflexivity); try discriminate.
  destruct (parse_field c e (S (length (bdy s data))) line data2 adv [] false) as [|adv' fields cr|];
    try (intros H; injection H as <-; reflexivity); try discriminate.
  destruct ((st_row s =? 0) && c_header c); [discriminate|].
  destruct (slice_cap (data ++ stale) nz skip adv'); discriminate.
Qed.

(* a row decided before EOF *)
Definition decided (o : scan_out) : Prop :=
  match o with ORecord _ _ _ | OHeader _ _ => True | _ => False end.

Definition out_adv (o : scan_out) : Z :=
  match o with ORecord adv _ _ | OHeader adv _ => adv | _ => 0 end.

(* more data cannot turn the beginning of the data into a BOM once a row was decided: a
   proper prefix of the BOM holds no complete line *)
Lemma isbom_stable c s data stale nz more :
  decided (snd (scan c s data stale nz false)) -> isbom s (data ++ more) = isbom s data.
Proof.
  intros Hd. unfold isbom. destruct (st_noBOM s) eqn:Nb; [reflexivity|]. cbn [negb andb].
  destruct (prefix_of bom data) eqn:B.
  - apply prefix_of_inv in B as [t ->]. rewrite <- app_assoc. apply prefix_of_app.
  - destruct (prefix_of bom (data ++ more)) eqn:B2; [|reflexivity]. exfalso.
    destruct (prefix_of_split _ _ _ B2) as [E | (p2 & E & _ & _)]; [congruence|].
    assert (H10 : nob 10 data).
    { assert (Hb : nob 10 bom) by (repeat constructor; lia). rewrite E in Hb. apply nob_app in Hb as [Hb _]. exact Hb. }
    rewrite scan_unfold in Hd. unfold bdy, a0, isbom in Hd. rewrite Nb, B in Hd. cbn [negb andb] in Hd.
    rewrite skip_lines_S in Hd. unfold read_line in Hd. rewrite (cut_nl_none _ H10) in Hd. exact Hd.
Qed.

(* Stability: whatever arrives later (and whatever the buffer holds behind the data), the
   call returns the same advance, token, fields and state. *)
Theorem scan_stable c s data stale nz more stale' nz' e' :
  valid_sep (c_sep c) -> 0 <= nz -> 0 <= nz' ->
  decided (snd (scan c s data stale nz false)) ->
  scan c s (data ++ more) stale' nz' e' = scan c s data stale nz false.
Proof.
  intros Hv Hnz Hnz' Hd.
  pose proof (isbom_stable c s data stale nz more Hd) as Hib.
  pose proof (bdy_len s data) as [HBA HA].
  assert (HB : bdy s (data ++ more) = bdy s data ++ more).
  { unfold bdy. rewrite Hib. destruct (isbom s data) eqn:B; [|reflexivity].
    rewrite zdrop_app_le; [reflexivity|]. unfold a0 in HBA. rewrite B in HBA. pose proof (zlen_nonneg (bdy s data)). lia. }
  assert (HA' : a0 s (data ++ more) = a0 s data) by (unfold a0; rewrite Hib; reflexivity).
  rewrite (scan_unfold c s (data ++ more)). rewrite (scan_unfold c s data) in *. rewrite HB, HA'.
  set (B := bdy s data) in *. set (A := a0 s data) in *. cbn [andb] in *.
  destruct (skip_lines c false (S (length B)) B A A) as [| |line data2 adv skip] eqn:Sk;
    try (cbn in Hd; contradiction).
  pose proof (skip_line_nonempty _ _ _ _ _ _ _ _ _ _ Sk) as Hline.
  pose proof (skip_acct c false _ _ _ _ _ _ _ _ Sk) as (_ & Sa & S1 & S2).
  assert (Hdne : zlen (B ++ more) =? 0 = false).
  { zl. pose proof (zlen_nonneg more). pose proof (zlen_nonneg data2). lia. }
  rewrite Hdne, andb_false_r.
  assert (Hlen : (S (length B) <= S (length (B ++ more)))%nat) by (rewrite app_length; lia).
  rewrite (skip_lines_mono c e' (S (length B)) (B ++ more) A A (SkLine line (data2 ++ more) adv skip));
    [| apply skip_stable; exact Sk | discriminate | exact Hlen].
  destruct (parse_field c false (S (length B)) line data2 adv [] false) as [|adv' fields cr|] eqn:P;
    try (cbn in Hd; contradiction).
  rewrite (parse_field_mono c e' (S (length B)) (S (length (B ++ more))) line (data2 ++ more) adv [] false
             (PDone adv' fields cr));
    [| apply (proj1 (parse_stable c _)); exact P | discriminate | exact Hlen].
  destruct ((st_row s =? 0) && c_header c); [reflexivity|].
  destruct (proj1 (parse_acct c false Hv _) _ _ _ _ _ _ _ _ P) as (dF & [pre Ps] & Pa).
  assert (zlen dF <= zlen data2) by (rewrite Ps; zl; pose proof (zlen_nonneg pre); lia).
  pose proof (zlen_nonneg dF).
  rewrite <- app_assoc. rewrite !slice_cap_inside by lia. reflexivity.
Qed.

(* ---- what only the call at EOF can decide reaches the end of the data -------- *)

Section EofAll.
Variable c : csv_cfg.
Hypothesis Hsep : valid_sep (c_sep c).

Lemma parse_eof_all : forall f,
  (forall line data adv done cr adv' fields cr',
     parse_field c true f line data adv done cr = PDone adv' fields cr' ->
     parse_field c false f line data adv done cr = PNeed ->
     adv' = adv + zlen line + zlen data) /\
  (forall line data adv cur done cr adv' fields cr',
     parse_quoted c true f line data adv cur done cr = PDone adv' fields cr' ->
     parse_quoted c false f line data adv cur done cr = PNeed ->
     adv' = adv + zlen line + zlen data).
Proof.
  induction f as [|f [IHf IHq]]; split; intros until cr'; intros H N; try discriminate.
  - rewrite parse_field_S in *. destruct (starts_quote line) eqn:Q.
    + destruct (starts_quote_inv _ Q) as [t ->]. rewrite zdrop_1_cons in *.
      rewrite (IHq _ _ _ _ _ _ _ _ _ H N). zl. lia.
    + destruct (cut_sub (sep_bytes c) line) as [[field rest]|] eqn:E; [|discriminate].
      apply cut_sub_some_inv in E. subst line. rewrite (IHf _ _ _ _ _ _ _ _ H N).
      rewrite (sep_len_zlen c Hsep). zl. lia.
  - rewrite parse_quoted_S in *. destruct (cut_byte 34 line) as [[pre line1]|] eqn:E.
    + apply cut_byte_some_inv in E as [-> _]. cbv zeta in *.
      destruct (Z.eqb_spec (next_rune line1) 34) as [R34|_].
      { destruct (decode_prefix line1 34 R34 eq_refl ltac:(discriminate)) as [t ->].
        change (encode_rune 34 ++ t) with (34 :: t) in *. rewrite zdrop_1_cons in *.
        rewrite (IHq _ _ _ _ _ _ _ _ _ H N). zl. lia. }
      destruct (Z.eqb_spec (next_rune line1) (c_sep c)) as [Rs|_].
      { destruct (sep_valid_rune c Hsep) as [V1 V2].
        destruct (decode_prefix line1 _ Rs V1 V2) as [t ->]. fold (sep_bytes c) in *.
        rewrite (sep_len_zlen c Hsep), zdrop_app_len in *.
        rewrite (IHf _ _ _ _ _ _ _ _ H N). zl. lia. }
      destruct (len_newline line1 =? zlen line1); [discriminate|].
      rewrite (IHq _ _ _ _ _ _ _ _ _ H N). zl. lia.
    + destruct line as [|x line]; [discriminate|]. cbv zeta in *.
      unfold read_line in *. destruct (cut_nl data) as [[l d]|] eqn:R.
      * rewrite (IHq _ _ _ _ _ _ _ _ _ H N).
        destruct (cut_nl_some_inv _ _ _ R) as (u & _ & _ & ->). zl. lia.
      * (* only the EOF call sees the unterminated last line: it then consumes everything *)
        destruct (last_is 13 data) eqn:L.
        -- destruct (proj2 (parse_acct c true Hsep _) _ _ _ _ _ _ _ _ _ H) as (dF & Hs & Ha).
           apply suffix_of_nil in Hs. subst dF.
           pose proof (zlen_removelast data (last_is_nonempty _ _ L)). rewrite zlen_nil in Ha. lia.
        -- destruct (proj2 (parse_acct c true Hsep _) _ _ _ _ _ _ _ _ _ H) as (dF & Hs & Ha).
           apply suffix_of_nil in Hs. subst dF. rewrite zlen_nil in Ha. lia.
Qed.

Lemma skip_eof_all : forall f data adv skip line d adv1 skip1,
  skip_lines c true f data adv skip = SkLine line d adv1 skip1 ->
  skip_lines c false f data adv skip = SkNeed -> d = [].
Proof.
  induction f as [|f IH]; intros until skip1; intros H N; [discriminate|].
  rewrite skip_lines_S in *. unfold read_line in *. destruct (cut_nl data) as [[l d0]|] eqn:R.
  - cbv zeta in *. destruct (zlen l =? 0); [discriminate|].
    destruct (negb (c_comment c =? 0) && (next_rune l =? c_comment c)); [eapply IH; eassumption|].
    destruct (zlen l =? len_newline l); [eapply IH; eassumption | discriminate].
  - assert (G : forall l inc, (let adv := adv + inc in
               if zlen l =? 0 then SkNeed
               else if negb (c_comment c =? 0) && (next_rune l =? c_comment c)
                    then skip_lines c true f [] (adv + zlen l) (skip + zlen l)
                    else if zlen l =? len_newline l
                         then skip_lines c true f [] (adv + zlen l) (skip + zlen l)
                         else SkLine l [] adv skip) = SkLine line d adv1 skip1 -> d = []).
    { intros l inc G. cbv zeta in G. destruct (zlen l =? 0); [discriminate|].
      destruct (negb (c_comment c =? 0) && (next_rune l =? c_comment c)).
      { apply (skip_acct c true) in G as ([p Hp] & _). symmetry in Hp. apply app_eq_nil in Hp as [_ Hp]. exact Hp. }
      destruct (zlen l =? len_newline l).
      { apply (skip_acct c true) in G as ([p Hp] & _). symmetry in Hp. apply app_eq_nil in Hp as [_ Hp]. exact Hp. }
      injection G as _ <- _ _. reflexivity. }
    destruct (last_is 13 data); eapply G; exact H.
Qed.

(* a row that the call before EOF could not decide and the call at EOF does decide extends
   to the end of the data *)
Lemma scan_eof_all s data stale nz stale' nz' s' o :
  snd (scan c s data stale nz false) = ONeed ->
  scan c s data stale' nz' true = (s', o) -> decided o -> out_adv o = zlen data.
Proof.
  rewrite !scan_unfold. pose proof (bdy_len s data) as [HBA HA].
  set (B := bdy s data) in *. set (A := a0 s data) in *. cbn [andb].
  destruct (zlen B =? 0) eqn:Z0.
  { intros _ H. injection H as _ <-. contradiction. }
  cbn [andb].
  destruct (skip_lines c true (S (length B)) B A A) as [| |line d adv1 skip1] eqn:SkT;
    try (intros _ H; injection H as _ <-; contradiction).
  pose proof (skip_acct c true _ _ _ _ _ _ _ _ SkT) as (_ & Sa & _).
  destruct (parse_field c true (S (length B)) line d adv1 [] false) as [|adv' fields cr|] eqn:PT;
    try (intros _ H; injection H as _ <-; contradiction).
  destruct (skip_lines c false (S (length B)) B A A) as [| |line0 d0 adv0 skip0] eqn:SkF.
  - (* the non-EOF call ran out of complete lines while skipping *)
    intros _ H Hd. pose proof (skip_eof_all _ _ _ _ _ _ _ _ SkT SkF) as ->.
    destruct (proj1 (parse_acct c true Hsep _) _ _ _ _ _ _ _ _ PT) as (dF & Hs & Pa).
    apply suffix_of_nil in Hs. subst dF. rewrite zlen_nil in *.
    assert (adv' = zlen data) by lia.
    destruct ((st_row s =? 0) && c_header c); [injection H as _ <-; exact H0|].
    destruct (slice_cap (data ++ stale') nz' skip1 adv'); injection H as _ <-; try contradiction. exact H0.
  - intros H; cbn in H; discriminate.
  - (* same first line in both calls; the non-EOF call ran out inside a quoted field *)
    pose proof (skip_stable c _ _ _ _ _ _ _ _ [] true SkF) as SkT'. rewrite !app_nil_r in SkT'.
    rewrite SkT in SkT'. injection SkT' as <- <- <- <-.
    destruct (parse_field c false (S (length B)) line d adv1 [] false) as [|a b cc|] eqn:PF.
    + intros _ H Hd. pose proof (proj1 (parse_eof_all _) _ _ _ _ _ _ _ _ PT PF) as Ha.
      assert (adv' = zlen data) by lia.
      destruct ((st_row s =? 0) && c_header c); [injection H as _ <-; exact H0|].
      destruct (slice_cap (data ++ stale') nz' skip1 adv'); injection H as _ <-; try contradiction. exact H0.
    + destruct ((st_row s =? 0) && c_header c); [intros H; cbn in H; discriminate|].
      destruct (slice_cap (data ++ stale) nz skip1 a); intros H; cbn in H; discriminate.
    + intros H; cbn in H; discriminate.
Qed.

End EofAll.

(* ---- facts about a decided row ------------------------------------------------ *)

Definition is_header (o : scan_out) : Prop := match o with OHeader _ _ => True | _ => False end.

Lemma scan_decided_facts c s data stale nz e s' o : valid_sep (c_sep c) ->
  scan c s data stale nz e = (s', o) -> decided o ->
  1 <= out_adv o <= zlen data /\ st_noBOM s' = true /\ st_row s' = st_row s + 1 /\
  (is_header o -> st_row s = 0 /\ c_header c = true) /\ (o <> ONeed).
Proof.
  intros Hv. rewrite scan_unfold. pose proof (bdy_len s data) as [HBA HA].
  set (B := bdy s data) in *. set (A := a0 s data) in *.
  destruct (e && (zlen B =? 0)); [intros H; injection H as _ <-; contradiction|].
  destruct (skip_lines c e (S (length B)) B A A) as [| |line d adv1 skip1] eqn:Sk;
    try (intros H; injection H as _ <-; contradiction).
  pose proof (skip_line_nonempty _ _ _ _ _ _ _ _ _ _ Sk) as Hline.
  pose proof (skip_acct c e _ _ _ _ _ _ _ _ Sk) as (_ & Sa & S1 & S2).
  destruct (parse_field c e (S (length B)) line d adv1 [] false) as [|adv' fields cr|] eqn:P;
    try (intros H; injection H as _ <-; contradiction).
  destruct (proj1 (parse_acct c e Hv _) _ _ _ _ _ _ _ _ P) as (dF & [pre Ps] & Pa).
  assert (Hle : zlen dF <= zlen d) by (rewrite Ps; zl; pose proof (zlen_nonneg pre); lia).
  pose proof (zlen_nonneg dF) as HdF. pose proof (zlen_nonneg d) as Hdd.
  destruct ((st_row s =? 0) && c_header c) eqn:Hh.
  - intros E _. injection E as <- <-. cbn. repeat split; try lia; try discriminate.
  - destruct (slice_cap (data ++ stale) nz skip1 adv'); intros E Hd; injection E as <- <-; try contradiction.
    cbn. repeat split; try lia; try discriminate; contradiction.
Qed.

(* ---- bufio.Scanner's loop, abstractly ----------------------------------------- *)

Lemma read_all_nil f c s : read_all f c s [] = [].
Proof.
  destruct f as [|f]; [reflexivity|]. cbn [read_all]. unfold scan. cbn [prefix_of bom].
  rewrite andb_false_r. reflexivity.
Qed.

Section ChunkIndependence.
Variable c : csv_cfg.
Hypothesis Hsep : valid_sep (c_sep c).

Lemma arun_read_all : forall f1 s pend chunks eof,
  0 <= st_row s ->
  (eof = true -> chunks = []) ->
  (eof = true -> st_row s = 0 -> pend <> [] -> snd (scan c s pend [] 0 false) = ONeed) ->
  (msr pend chunks eof < f1)%nat ->
  forall f2, (length (pend ++ concat chunks) < f2)%nat ->
  arun f1 c s pend chunks eof = read_all f2 c s (pend ++ concat chunks).
Proof.
  induction f1 as [|f IH]; intros s pend chunks eof Hrow Heof Hprev Hm f2 Hf2; [lia|].
  (* reading once more: both sides keep talking about the same whole input *)
  assert (Hmore : forall s1 pend1, eof = false ->
            0 <= st_row s1 ->
            (chunks = [] -> st_row s1 = 0 -> pend1 <> [] -> snd (scan c s1 pend1 [] 0 false) = ONeed) ->
            (length pend1 <= length pend)%nat ->
            forall f3, (length (pend1 ++ concat chunks) < f3)%nat ->
            match chunks with
            | [] => arun f c s1 pend1 [] true
            | ch :: rest => arun f c s1 (pend1 ++ ch) rest false
            end = read_all f3 c s1 (pend1 ++ concat chunks)).
  { intros s1 pend1 -> Hrow1 Hprev1 Hlen f3 Hf3. unfold msr in Hm.
    destruct chunks as [|ch rest].
    - apply IH; auto. unfold msr. cbn [concat length] in *. lia.
    - cbn [concat] in *. rewrite app_assoc in *. apply IH; auto; try discriminate.
      unfold msr. cbn [length] in *. rewrite !app_length in *. lia. }
  cbn [arun]. destruct eof.
  - (* after EOF: the same call on both sides *)
    rewrite (Heof eq_refl) in *. cbn [concat] in *. rewrite app_nil_r in *. rewrite orb_true_r.
    destruct f2 as [|f2]; [lia|]. cbn [read_all].
    destruct (scan c s pend [] 0 true) as [s' o] eqn:Sc.
    destruct o as [|adv names|adv tok fields| |]; try reflexivity.
    + (* a header row decided only at EOF reaches the end of the input *)
      destruct (scan_decided_facts c s pend [] 0 true s' _ Hsep Sc I) as (Ha & _ & _ & Hh & _).
      destruct (Hh I) as [Hr0 _]. cbn [out_adv] in Ha.
      assert (Hne : pend <> []) by (intros ->; cbn in Ha; lia).
      pose proof (scan_eof_all c Hsep s pend [] 0 [] 0 s' _ (Hprev eq_refl Hr0 Hne) Sc I) as Hall.
      cbn [out_adv] in Hall. rewrite Hall. rewrite zdrop_all by lia. rewrite read_all_nil. reflexivity.
    + destruct (scan_decided_facts c s pend [] 0 true s' _ Hsep Sc I) as (Ha & Hnb & Hr & _ & _).
      cbn [out_adv] in Ha. f_equal.
      pose proof (IH s' (zdrop adv pend) [] true) as IH'. cbn [concat] in IH'. rewrite app_nil_r in IH'.
      apply IH'; auto.
      * lia.
      * intros _ Hr0. lia.
      * unfold msr in *. cbn [concat length] in *. rewrite length_zdrop by lia. unfold zlen in *. lia.
      * rewrite length_zdrop by lia. unfold zlen in *. lia.
  - (* before EOF *)
    rewrite orb_false_r. destruct (nonempty pend) eqn:Hne.
    2:{ destruct pend; [|discriminate]. apply Hmore; auto; try (intros _ _ Hc; congruence). }
    destruct (scan c s pend [] 0 false) as [s' o] eqn:Sc.
    pose proof (scan_accounting c s pend [] 0 false Hsep ltac:(lia)) as Hacc. rewrite Sc in Hacc. cbn [snd] in Hacc.
    pose proof (scan_never_fuel c s pend [] 0 false) as Hnf. rewrite Sc in Hnf. cbn [snd] in Hnf.
    destruct o as [|adv names|adv tok fields| |].
    + (* need more data: the state is unchanged, read on *)
      pose proof (scan_need_state _ _ _ _ _ _ _ Sc) as ->.
      apply Hmore; auto. intros _ _ _. rewrite Sc. reflexivity.
    + (* header row *)
      destruct (scan_decided_facts c s pend [] 0 false s' _ Hsep Sc I) as (Ha & Hnb & Hr & Hh & _).
      cbn [out_adv] in Ha. destruct (Hh I) as [Hr0 _].
      destruct f2 as [|f2]; [lia|]. cbn [read_all].
      rewrite (scan_stable c s pend [] 0 (concat chunks) [] 0 true Hsep ltac:(lia) ltac:(lia))
        by (rewrite Sc; exact I).
      rewrite Sc. f_equal. rewrite zdrop_app_le by lia. apply Hmore; auto.
      * lia.
      * intros _ Hr1. lia.
      * rewrite length_zdrop by lia. unfold zlen in *. lia.
      * rewrite app_length in *. rewrite length_zdrop by lia. unfold zlen in *. lia.
    + (* record *)
      destruct (scan_decided_facts c s pend [] 0 false s' _ Hsep Sc I) as (Ha & Hnb & Hr & _ & _).
      cbn [out_adv] in Ha.
      destruct f2 as [|f2]; [lia|]. cbn [read_all].
      rewrite (scan_stable c s pend [] 0 (concat chunks) [] 0 true Hsep ltac:(lia) ltac:(lia))
        by (rewrite Sc; exact I).
      rewrite Sc. f_equal. rewrite zdrop_app_le by lia. apply IH.
      * lia.
      * discriminate.
      * discriminate.
      * unfold msr in *. rewrite length_zdrop by lia. unfold zlen in *. lia.
      * rewrite app_length in *. rewrite length_zdrop by lia. unfold zlen in *. lia.
    + contradiction.
    + congruence.
Qed.

(* Chunk independence: however the reader cuts the input into reads, the Scanner loop delivers
   the records (fields, $0, header names) of the reader run over the whole input. *)
Theorem csv_chunk_independent chunks :
  arun (S (msr [] chunks false)) c (mkSt false 0) [] chunks false = read_file c (concat chunks).
Proof.
  unfold read_file.
  pose proof (arun_read_all (S (msr [] chunks false)) (mkSt false 0) [] chunks false) as H.
  cbn [app] in H. apply H; try discriminate.
  - cbn. lia.
  - lia.
Qed.

End ChunkIndependence.
