(* C14, layer (a): obligations over the GENERATED table Gen/InterpFields.v (which function of package interp
   writes which field of struct interp) and the committed classification Model/Reuse.roles.
   Everything here is finite and decided by computation; a field added to the struct, a reset line removed,
   a new writer, a changed right-hand side changes the generated table and breaks one of these statements. *)
From Coq Require Import String List ZArith Bool.
From Verif Require Import Lib.Base Gen.InterpFields Model.Reuse.
Import ListNotations.
Open Scope string_scope.

(* fields certainly (re)assigned by a function on every path that does not return an error *)
Definition must_fields (l : list write) : list field := map w_field (filter w_must l).

Definition resetRand_fields : list field :=
  must_fields fn_ResetRand ++ map fst (filter (fun p => pair_mem p mutating_methods) methods_ResetRand).

(* written while a program runs, or by setExecuteConfig and what it calls (the Vars loop) *)
Definition mutable (f : field) : bool := mem f run_mutable || mem f may_setExecuteConfig.

Definition writers_of (f : field) : list string :=
  map fst (filter (fun p => String.eqb (w_field (snd p)) f) writes_elsewhere).

Definition reset_ok (f : field) : bool :=
  match role_of f with
  | Some RunState =>
      negb (mutable f) || mem f (must_fields fn_resetCore) || mem f (must_fields fn_setExecuteConfig)
  | Some VarState => mem f (must_fields fn_resetVars)
  | Some RandState => mem f resetRand_fields
  | Some ConfigSet =>
      mem f (must_fields fn_setExecuteConfig) ||
      (mem f (must_fields fn_Execute) && mem f (must_fields fn_ExecuteContext))
  | Some CtxState => mem f (must_fields fn_ExecuteContext)
  | Some ProgramConst => mem f const_fields && mem f (must_fields fn_newInterp)
  | Some ConfigOnce =>
      negb (mem f run_mutable) && forallb (String.eqb "initNativeFuncs") (writers_of f) &&
      mem "initNativeFuncs" calls_setExecuteConfig && mem f nil_tested
  | Some LineShadow =>
      (* written by setLine only (which also sets the record), and resetCore empties the record *)
      forallb (String.eqb "setLine") (writers_of f) && mem "setLine" (writers_of "line") &&
      mem "line" (must_fields fn_resetCore) && mem "haveFields" (must_fields fn_resetCore) &&
      mem "fields" (must_fields fn_resetCore) && mem "reparseCSV" (must_fields fn_resetCore)
  | Some Cache | Some Scratch => true
  | None => false
  end.

Definition unreset_fields : list field := filter (fun f => negb (reset_ok f)) all_fields.

(* side conditions that give the table its meaning *)
Definition table_wf : bool :=
  (* every struct field is classified, nothing else is *)
  forallb (fun f => mem f (map fst roles)) all_fields && forallb (fun f => mem f all_fields) (map fst roles) &&
  (* every field type is one the model knows the zero value of *)
  forallb (fun ft => match zero_of_type (mkEnv VNil VNil VNil VNil false) (snd ft) with Some _ => true | None => false end)
          struct_fields &&
  (* every function that writes a field is reachable from executeAll or setExecuteConfig *)
  match other_writers with [] => true | _ => false end &&
  (* every method called on a field value is classified as mutating or not *)
  forallb (fun t => pair_mem (snd (fst t), snd t) mutating_methods || pair_mem (snd (fst t), snd t) pure_methods)
          field_methods &&
  (* Execute and ExecuteContext: resetCore, then setExecuteConfig, then executeAll *)
  forallb (fun l => match l with
                    | ["resetCore"; "setExecuteConfig"; "executeAll"] => true
                    | _ => false
                    end) [calls_Execute; calls_ExecuteContext].

Definition reset_complete : Prop := table_wf = true /\ unreset_fields = [].

Lemma table_wf_holds : table_wf = true.
Proof. vm_compute. reflexivity. Qed.

(* every mutable RunState field is certainly assigned by resetCore or setExecuteConfig, every variable by
   resetVars, the random state by ResetRand, every ConfigSet field by setExecuteConfig or the prologue, the
   context fields by ExecuteContext, constants are written by newInterp only, nativeFuncs by initNativeFuncs
   only; no field is unclassified *)
Lemma reset_complete_holds : reset_complete.
Proof. split; vm_compute; reflexivity. Qed.

(* the three fields that used to leak (F-C14-1, F-C14-2, repaired) are written during a run and are now
   assigned by resetCore *)
Lemma formerly_leaking_reset :
  forallb (fun f => mem f may_run && mem f (must_fields fn_resetCore)) ["fieldNames"; "fieldIndexes"; "reparseCSV"] = true.
Proof. vm_compute. reflexivity. Qed.

(* ---------- the per-Interpreter caches survive resetCore by design: their entries must be functions of the key alone ----------
   formatCache is filled by parseFmtTypes, regexCache by compileRegex.  Neither filler (nor anything it calls)
   may mention a field of struct interp other than its own cache and the program constants: in particular
   nothing that setExecuteConfig, the prologue or a run writes (Chars, modes, CONVFMT ...), otherwise an entry made
   under one Config would be reused under another. *)
Definition cache_fillers : list (field * list field) :=
  [ ("formatCache", refs_parseFmtTypes); ("regexCache", refs_compileRegex) ].
Definition caches_config_independent : bool :=
  forallb (fun cf => has_role Cache (fst cf) && mem (fst cf) (snd cf) &&
                     forallb (fun f => String.eqb f (fst cf) || mem f const_fields) (snd cf)) cache_fillers &&
  (* the only writers of the two caches are their fillers *)
  forallb (String.eqb "parseFmtTypes") (writers_of "formatCache") &&
  forallb (String.eqb "compileRegex") (writers_of "regexCache").

Lemma caches_config_independent_holds : caches_config_independent = true.
Proof. vm_compute. reflexivity. Qed.

(* ---------- the hand-written model agrees with the generated table ---------- *)

(* the model value of a Go right-hand side that is a constant *)
Definition rhs_val (k : wkind) (rhs : string) : option val :=
  match k with
  | ClearMap => Some VNil
  | Whole =>
      if String.eqb rhs "nil" then Some VNil
      else if String.eqb rhs "0" then Some (VI 0)
      else if String.eqb rhs "false" then Some (VB false)
      else if String.eqb rhs """""" then Some (VS [])
      else if String.eqb rhs "num(0)" then Some v_num0
      else if String.eqb rhs "null()" then Some v_null
      else if String.eqb rhs "p.localArrays[:0]" then Some VNil
      else if String.eqb rhs """%.6g""" then Some (VS b_fmt6g)
      else if String.eqb rhs """ """ then Some (VS b_space)
      else if String.eqb rhs """\n""" then Some (VS b_nl)
      else if String.eqb rhs """\x1c""" then Some (VS b_subsep)
      else if String.eqb rhs "1.0" then Some (VF one_bits)
      else None
  | _ => None
  end.

Fixpoint binds_match (ws : list write) (bs : list (field * val)) : bool :=
  match ws, bs with
  | [], [] => true
  | w :: ws', (f, v) :: bs' =>
      String.eqb (w_field w) f && w_must w &&
      match rhs_val (w_kind w) (w_rhs w) with Some v' => val_eqb v v' | None => false end &&
      binds_match ws' bs'
  | _, _ => false
  end.

Definition dedup (l : list string) : list string :=
  fold_right (fun x acc => if mem x acc then acc else x :: acc) [] l.
Definition set_eqb (a b : list string) : bool := subset a b && subset b a.

Definition step_targets (l : list step) : list field :=
  flat_map (fun st => match st with SSet f _ _ => [f] | SInitOnce f _ => [f] | _ => [] end) l.

(* newInterp: the constant right-hand sides, and the whole-field writes in order *)
Definition newInterp_whole : list write := filter (fun w => match w_kind w with Whole => true | _ => false end) fn_newInterp.
Definition newInterp_consts_match : bool :=
  forallb (fun w => match rhs_val Whole (w_rhs w), alookup (w_field w) (newInterp_binds (mkEnv VNil VNil VNil VNil false)
                                                  (mkPc VNil VNil VNil VNil VNil VNil VNil)) with
                    | Some v, Some v' => val_eqb v v'
                    | None, Some _ => true
                    | _, None => false
                    end) newInterp_whole.

Definition kind_eqb (a b : wkind) : bool :=
  match a, b with
  | Whole, Whole | Elem, Elem | Sub, Sub | Addr, Addr | Delete, Delete | ClearMap, ClearMap
  | FillElems, FillElems | ClearElemMaps, ClearElemMaps => true
  | _, _ => false
  end.
(* w is the write (field, kind, rhs) and certainly executed; rhs "*" = any *)
Definition is_write (w : write) (f : string) (k : wkind) (rhs : string) : bool :=
  String.eqb (w_field w) f && kind_eqb (w_kind w) k && (String.eqb rhs "*" || String.eqb (w_rhs w) rhs) && w_must w.
Fixpoint strs_eqb (a b : list string) : bool :=
  match a, b with
  | [], [] => true
  | x :: a', y :: b' => String.eqb x y && strs_eqb a' b'
  | _, _ => false
  end.
Definition env0 := mkEnv VNil VNil VNil VNil false.
Definition pc0 := mkPc VNil VNil VNil VNil VNil VNil VNil.

Definition model_matches_table : bool :=
  binds_match fn_resetCore resetCore_binds &&
  (match fn_resetVars with
   | w1 :: w2 :: rest => is_write w1 "globals" FillElems "null()" && is_write w2 "arrays" ClearElemMaps "*" &&
                         binds_match rest resetVars_binds
   | _ => false
   end) &&
  (match fn_ResetRand, methods_ResetRand with
   | [w], [(f, m)] => is_write w "randSeed" Whole "1.0" && String.eqb f "random" && String.eqb m "Seed"
   | _, _ => false
   end) &&
  (match fn_Execute with [w] => is_write w "checkCtx" Whole "false" | _ => false end) &&
  (match fn_ExecuteContext with
   | [w1; w2; w3; w4] => is_write w1 "checkCtx" Whole "*" && is_write w2 "ctx" Whole "ctx" &&
                         is_write w3 "ctxDone" Whole "ctx.Done()" && is_write w4 "ctxOps" Whole "0"
   | _ => false
   end) &&
  strs_eqb (map w_field newInterp_whole) (map fst (newInterp_binds env0 pc0)) &&
  newInterp_consts_match &&
  set_eqb (dedup (map w_field fn_setExecuteConfig) ++ ["arrays"; "nativeFuncs"])
          (dedup (step_targets setExecuteConfig_steps)) &&
  forallb (fun w => w_must w || match w_kind w with Sub => true | _ => false end) fn_setExecuteConfig &&
  subset ["setArrayValue"; "setVarByName"; "initNativeFuncs"; "validateCSVInputConfig"; "validateCSVOutputConfig"]
         calls_setExecuteConfig.

(* the bindings of the hand-written resetCore / resetVars / ResetRand / prologue / newInterp / setExecuteConfig
   are, field by field and constant by constant, the writes the translator found in the Go functions *)
Lemma model_matches_table_holds : model_matches_table = true.
Proof. vm_compute. reflexivity. Qed.
