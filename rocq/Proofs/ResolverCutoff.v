(* C16: the former iteration cut-off (repaired, finding F-C16-1).  A forwarding
   chain f0 -> f1 -> ... -> f100 whose array is known only at the caller is
   satisfiable; the resolver with the constant limit 100 it had rejected it with
   "too many iterations"; the resolver as it is now accepts it. *)
From Verif Require Import Lib.Base Model.Resolver Proofs.Resolver Proofs.ResolverSound Proofs.ResolverExact Proofs.ResolverLoop.
From Coq Require Import Permutation.
Open Scope Z_scope.

(* ---------- the executable oracles are permutations ------------------------------ *)

Lemma rotate_perm {A} n (l : list A) : Permutation (rotate n l) l.
Proof.
  revert l. induction n as [|n IH]; intros l; cbn [rotate]; [apply Permutation_refl|].
  destruct l as [|x r]; [apply Permutation_refl|].
  eapply Permutation_trans; [apply IH|]. apply Permutation_sym. apply Permutation_cons_append.
Qed.

Lemma seed_oracle_perm seed : perm_oracle (seed_oracle seed).
Proof.
  intros k l. unfold seed_oracle.
  eapply Permutation_trans; [apply rotate_perm|].
  destruct (Nat.odd _); [apply Permutation_sym; apply Permutation_rev | apply Permutation_refl].
Qed.

(* ---------- deciding [solution] for a given assignment ---------------------------- *)

Definition holds_b (rho : assignment) (c : constr) : bool :=
  match c with
  | CIs k TArray => rho k
  | CIs k TScalar => negb (rho k)
  | CIs k TUnknown => true
  | CEq k1 k2 => Bool.eqb (rho k1) (rho k2)
  | CNotArr k => negb (rho k)
  end.

Lemma holds_b_holds rho c : holds_b rho c = true -> holds rho c.
Proof.
  destruct c as [k [| |]|k1 k2|k]; cbn [holds_b holds]; intros H.
  - exact I.
  - apply negb_true_iff. exact H.
  - exact H.
  - apply eqb_prop. exact H.
  - apply negb_true_iff. exact H.
Qed.

Lemma solution_b P rho : forallb (holds_b rho) (constraints P) = true -> solution P rho.
Proof. intros H c Hc. apply holds_b_holds. rewrite forallb_forall in H. apply H. exact Hc. Qed.

(* ---------- the chain ----------------------------------------------------------------- *)

Definition dec (i : Z) : list Z :=
  if i <? 10 then [48 + i]
  else if i <? 100 then [48 + i / 10; 48 + i mod 10]
  else [48 + i / 100; 48 + (i / 10) mod 10; 48 + i mod 10].
Definition chain_fname (i : Z) : name := 102 :: dec i.          (* "f<i>" *)
Definition n_a : name := [97].                                  (* "a" *)
Definition n_x : name := [120].                                 (* "x" *)

(* function f<i>(a) { f<i+1>(a) }   ...   function f<n-1>(a) { }
   BEGIN { x["k"] = x["k"] "a"; f0(x) } *)
Definition chain_prog (n : nat) : program :=
  {| p_natives := [];
     p_funcs := map (fun i : nat =>
                       {| f_name := chain_fname (Z.of_nat i); f_params := [n_a];
                          f_body := if (S i <? n)%nat
                                    then [Call (chain_fname (Z.of_nat (S i))) [ArgVar n_a]]
                                    else [] |}) (seq 0 n);
     p_main := [Use n_x TArray; Use n_x TArray; Call (chain_fname 0) [ArgVar n_x]] |}.

(* every variable and parameter an array, except the special variables *)
Definition chain_rho : assignment := fun k => negb (special (snd k)).

Lemma chain_wf : wf (chain_prog 101) = true.
Proof. vm_compute. reflexivity. Qed.

Lemma chain_sat : sat (chain_prog 101).
Proof. exists chain_rho. apply solution_b. vm_compute. reflexivity. Qed.

(* before the repair: the constant 100 *)
Lemma chain_rejected_by_constant_limit : resolve_cut cutoff (seed_oracle 0) (chain_prog 101) = RErr ETooManyIter.
Proof. vm_compute. reflexivity. Qed.

Lemma chain_100_accepted_by_constant_limit : exists F, resolve_cut cutoff (seed_oracle 0) (chain_prog 100) = ROk F.
Proof. eexists. vm_compute. reflexivity. Qed.

(* no constant is large enough for every program: exactness fails for every constant limit *)
Definition constant_limit_exactness (cut : nat) : Prop :=
  forall pi P, perm_oracle pi -> wf P = true -> ((exists F, resolve_cut cut pi P = ROk F) <-> sat P).

Lemma constant_limit_100_refuted : ~ constant_limit_exactness cutoff.
Proof.
  intros H. destruct (H (seed_oracle 0) (chain_prog 101) (seed_oracle_perm 0) chain_wf) as [_ H2].
  destruct (H2 chain_sat) as [F HF]. rewrite chain_rejected_by_constant_limit in HF. discriminate.
Qed.

(* now: the same programs under the resolver as it is *)
Lemma chain_accepted : exists F, resolve (seed_oracle 0) (chain_prog 101) = ROk F.
Proof. eexists. vm_compute. reflexivity. Qed.

Lemma chain_accepted_impl : exists F, resolve_impl (chain_prog 101) = ROk F.
Proof. eexists. vm_compute. reflexivity. Qed.
