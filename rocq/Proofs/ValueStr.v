(* C05: number to string.  The integer special case of value.str is taken exactly
   for the integral doubles in [-2^63, 2^63), and then prints the exact decimal
   integer; every other finite number goes through the format. *)
From Verif Require Import Lib.Base Lib.Dyadic Lib.Utf8 Model.Value.

(* ------------------------------------------------------------------ *)
(* v.n == float64(int64(v.n))                                          *)
(* ------------------------------------------------------------------ *)

Lemma pow2_pos k : 0 <= k -> 0 < 2 ^ k.
Proof. intro H. apply Z.pow_pos_nonneg; lia. Qed.

Lemma fin_cmp_eq_int m e t :
  fin_cmp m e t 0 = Eq <-> (if 0 <=? e then m * 2 ^ e = t else m = t * 2 ^ (- e)).
Proof.
  unfold fin_cmp. rewrite Z.compare_eq_iff.
  destruct (0 <=? e) eqn:E.
  - apply Z.leb_le in E. rewrite Z.min_r by lia. rewrite Z.sub_0_r, Z.sub_diag, Z.pow_0_r, Z.mul_1_r. reflexivity.
  - apply Z.leb_gt in E. rewrite Z.min_l by lia. rewrite Z.sub_diag, Z.pow_0_r, Z.mul_1_r.
    replace (0 - e) with (- e) by lia. reflexivity.
Qed.

Lemma int_path_iff m e :
  int_path (FFin m e) = true <-> is_integral m e = true /\ in_i64 (ftrunc m e) = true.
Proof.
  unfold int_path, feq, f2i64.
  set (t := ftrunc m e).
  assert (Hcmp : forall u, (match fin_cmp m e u 0 with Eq => true | _ => false end) = true <-> fin_cmp m e u 0 = Eq).
  { intro u. destruct (fin_cmp m e u 0); split; congruence. }
  rewrite Hcmp, fin_cmp_eq_int.
  unfold is_integral, ftrunc in *.
  destruct (0 <=? e) eqn:E.
  - (* e >= 0: x is the integer m * 2^e *)
    subst t. destruct (in_i64 (m * 2 ^ e)) eqn:R.
    + split; [intros _; split; reflexivity | intros _; reflexivity].
    + split; [|intros [_ H]; discriminate].
      intro H. exfalso. rewrite H in R. vm_compute in R. discriminate.
  - (* e < 0: x = m / 2^(-e) *)
    apply Z.leb_gt in E.
    pose proof (pow2_pos (- e) ltac:(lia)) as Hd. set (d := 2 ^ (- e)) in *.
    pose proof (Z.quot_rem' m d) as Hqr.
    destruct (in_i64 t) eqn:R; subst t.
    + split.
      * intro H. split; [|reflexivity]. apply Z.eqb_eq. lia.
      * intros [H _]. apply Z.eqb_eq in H. lia.
    + split; [|intros [_ H]; discriminate].
      intro H. exfalso.
      assert (Z.quot m d = - two63) as Hq.
      { rewrite H. rewrite Z.quot_mul by lia. reflexivity. }
      rewrite Hq in R. vm_compute in R. discriminate.
Qed.

(* the branch value.str takes, for every finite double *)
Lemma num_to_str_finite fmt m e :
  num_to_str fmt (FFin m e) =
    if is_integral m e && in_i64 (ftrunc m e) then Ok (format_int (ftrunc m e))
    else format_float fmt m e.
Proof.
  cbn [num_to_str].
  destruct (int_path (FFin m e)) eqn:P.
  - apply int_path_iff in P as [H1 H2]. rewrite H1, H2. cbn [andb f2i64]. rewrite H2. reflexivity.
  - destruct (is_integral m e && in_i64 (ftrunc m e)) eqn:Q; [|reflexivity].
    apply andb_true_iff in Q. apply int_path_iff in Q. congruence.
Qed.

(* ------------------------------------------------------------------ *)
(* format_int prints the exact decimal integer                         *)
(* ------------------------------------------------------------------ *)

(* the integer a string of decimal digit characters denotes *)
Definition dec_chars_value (s : bytes) : Z := fold_left (fun a c => a * 10 + (c - 48)) s 0.

(* optional '-' then digits *)
Definition int_text_value (s : bytes) : Z :=
  match s with
  | c :: t => if c =? 45 then - dec_chars_value t else dec_chars_value s
  | [] => 0
  end.

Fixpoint value_rev (l : list Z) : Z :=
  match l with [] => 0 | d :: t => d + 10 * value_rev t end.

Lemma digs_rev_value fuel n :
  0 <= n < 2 ^ Z.of_nat fuel -> value_rev (digs_rev fuel n) = n.
Proof.
  revert n; induction fuel as [|f IH]; intros n Hn.
  - change (2 ^ Z.of_nat 0) with 1 in Hn. cbn [digs_rev value_rev]. lia.
  - cbn [digs_rev]. destruct (n <? 10) eqn:E.
    + cbn [value_rev]. lia.
    + apply Z.ltb_ge in E. cbn [value_rev]. rewrite IH.
      * pose proof (Z.div_mod n 10 ltac:(lia)). lia.
      * split; [apply Z.div_pos; lia|].
        rewrite Nat2Z.inj_succ, Z.pow_succ_r in Hn by lia.
        apply Z.div_lt_upper_bound; lia.
Qed.

Lemma digs_rev_digits fuel n : 0 <= n -> Forall (fun d => 0 <= d <= 9) (digs_rev fuel n).
Proof.
  revert n; induction fuel as [|f IH]; intros n Hn; cbn [digs_rev]; [constructor|].
  destruct (n <? 10) eqn:E.
  - apply Z.ltb_lt in E. repeat constructor; lia.
  - constructor.
    + pose proof (Z.mod_pos_bound n 10). lia.
    + apply IH. apply Z.div_pos; lia.
Qed.

Lemma fold_left_dec_app l a :
  fold_left (fun a c => a * 10 + (c - 48)) (map (fun x => 48 + x) l) a =
  fold_left (fun a d => a * 10 + d) l a.
Proof. revert a; induction l as [|d l IH]; intro a; cbn [map fold_left]; [reflexivity|]. rewrite IH. f_equal. lia. Qed.

Lemma fold_left_rev_value l : fold_left (fun a d => a * 10 + d) (rev l) 0 = value_rev l.
Proof.
  induction l as [|d l IH]; cbn [rev value_rev]; [reflexivity|].
  rewrite fold_left_app. cbn [fold_left]. rewrite IH. lia.
Qed.

Lemma ndigits_value n : 0 <= n -> dec_chars_value (digit_chars (ndigits n)) = n.
Proof.
  intro Hn. unfold dec_chars_value, digit_chars, ndigits.
  rewrite fold_left_dec_app, fold_left_rev_value. apply digs_rev_value.
  split; [lia|].
  destruct (Z.eq_dec n 0) as [->|Hnz]; [cbn; lia|].
  rewrite Nat2Z.inj_succ, Z2Nat.id by apply Z.log2_nonneg.
  apply Z.log2_spec. lia.
Qed.

Lemma ndigits_head_not_minus n :
  0 <= n -> match digit_chars (ndigits n) with c :: _ => c =? 45 | [] => false end = false.
Proof.
  intro Hn.
  - pose proof (digs_rev_digits (S (Z.to_nat (Z.log2 n))) n Hn) as HF.
    unfold ndigits, digit_chars. apply Forall_rev in HF.
    destruct (rev (digs_rev (S (Z.to_nat (Z.log2 n))) n)) as [|d t]; [reflexivity|].
    cbn [map]. inversion HF as [|? ? Hd _]. apply Z.eqb_neq. lia.
Qed.

Lemma format_int_exact z : int_text_value (format_int z) = z.
Proof.
  unfold format_int. destruct (z <? 0) eqn:E.
  - apply Z.ltb_lt in E. cbn [int_text_value]. rewrite Z.eqb_refl. rewrite ndigits_value by lia. lia.
  - apply Z.ltb_ge in E. unfold int_text_value.
    pose proof (ndigits_head_not_minus z E) as Hh.
    destruct (digit_chars (ndigits z)) as [|c t] eqn:D.
    + pose proof (ndigits_value z E) as Hv. rewrite D in Hv. cbn in Hv. lia.
    + rewrite Hh. rewrite <- D. apply ndigits_value. exact E.
Qed.

(* no leading zero except for 0 itself, digits only: the text is the canonical numeral *)
Lemma digs_rev_last_nonzero fuel n :
  0 < n < 2 ^ Z.of_nat fuel -> exists d t, rev (digs_rev fuel n) = d :: t /\ 1 <= d <= 9.
Proof.
  revert n; induction fuel as [|f IH]; intros n Hn.
  - change (2 ^ Z.of_nat 0) with 1 in Hn. lia.
  - cbn [digs_rev]. destruct (n <? 10) eqn:E.
    + apply Z.ltb_lt in E. exists n, []. split; [reflexivity|lia].
    + apply Z.ltb_ge in E. cbn [rev].
      destruct (IH (n / 10)) as [d [t [Hr Hd]]].
      * split; [apply Z.div_str_pos; lia|].
        rewrite Nat2Z.inj_succ, Z.pow_succ_r in Hn by lia.
        apply Z.div_lt_upper_bound; lia.
      * rewrite Hr. exists d, (t ++ [n mod 10]). split; [reflexivity|exact Hd].
Qed.

Lemma format_int_canonical z :
  exists sg d t, format_int z = sg ++ (48 + d) :: digit_chars t /\
    (sg = [] \/ sg = [45] /\ z < 0) /\ 0 <= d <= 9 /\ Forall (fun x => 0 <= x <= 9) t /\
    (d = 0 -> t = [] /\ z = 0).
Proof.
  assert (Hpos : forall n, 0 <= n -> exists d t, ndigits n = d :: t /\ 0 <= d <= 9 /\
             Forall (fun x => 0 <= x <= 9) t /\ (d = 0 -> t = [] /\ n = 0)).
  { intros n Hn. destruct (Z.eq_dec n 0) as [->|Hnz].
    - exists 0, []. repeat split; try lia; constructor.
    - unfold ndigits.
      destruct (digs_rev_last_nonzero (S (Z.to_nat (Z.log2 n))) n) as [d [t [Hr Hd]]].
      { split; [lia|]. rewrite Nat2Z.inj_succ, Z2Nat.id by apply Z.log2_nonneg. apply Z.log2_spec. lia. }
      pose proof (digs_rev_digits (S (Z.to_nat (Z.log2 n))) n Hn) as HF. apply Forall_rev in HF.
      rewrite Hr in HF. inversion HF; subst.
      exists d, t. repeat split; try lia; try assumption. }
  unfold format_int. destruct (z <? 0) eqn:E.
  - apply Z.ltb_lt in E. destruct (Hpos (- z)) as [d [t [Hn [Hd [Ht H0]]]]]; [lia|].
    exists [45], d, t. rewrite Hn. cbn [digit_chars map app].
    split; [reflexivity|]. split; [right; split; [reflexivity|exact E]|].
    split; [exact Hd|]. split; [exact Ht|].
    intro H. destruct (H0 H) as [_ Hz]. lia.
  - apply Z.ltb_ge in E. destruct (Hpos z E) as [d [t [Hn [Hd [Ht H0]]]]].
    exists [], d, t. rewrite Hn. cbn [digit_chars map app].
    split; [reflexivity|]. split; [left; reflexivity|].
    split; [exact Hd|]. split; [exact Ht|exact H0].
Qed.
