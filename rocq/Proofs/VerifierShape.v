(* C02: the verifier does not look at constants.  Two code lists that differ only in the
   operands of Num / Str / Regex / FieldByNameStr get the same verdict; in particular the code
   decoded from the words of Model/Encode.v (constants = table indexes, Proofs/Decode.v) passes
   the check exactly when the code that was encoded passes it. *)
From Coq Require Import ZifyBool.
From Verif Require Import Lib.Base Model.Ast Model.Instr Model.Compiler Model.Encode Model.Verifier Model.Decode
  Proofs.CodeAt Proofs.Decode.

Definition shape (i : instr) : instr :=
  match i with
  | INum _ => INum 0
  | IStr _ => IStr []
  | IFieldByNameStr _ => IFieldByNameStr []
  | IRegex _ => IRegex []
  | _ => i
  end.

Lemma isize_shape i : isize (shape i) = isize i.
Proof. destruct i; reflexivity. Qed.

Lemma flow_shape cx i : flow_of cx (shape i) = flow_of cx i.
Proof. destruct i; reflexivity. Qed.

Lemma csize_shape C : csize (map shape C) = csize C.
Proof. induction C as [|i C IH]; cbn [map csize]; [reflexivity|]. rewrite isize_shape, IH. reflexivity. Qed.

Lemma fetch_shape C : forall ip, fetch (map shape C) ip = option_map shape (fetch C ip).
Proof.
  induction C as [|i C IH]; intros ip; cbn [map fetch]; [reflexivity|].
  rewrite isize_shape. destruct (ip =? 0); [reflexivity|]. destruct (ip <? isize i); [reflexivity|]. apply IH.
Qed.

Lemma is_target_shape C ip : is_target (map shape C) ip = is_target C ip.
Proof.
  unfold is_target. rewrite csize_shape, fetch_shape. destruct (fetch C ip); reflexivity.
Qed.

Lemma boundaries_shape C : forall b,
  boundaries (map shape C) b = map (fun p => (fst p, shape (snd p))) (boundaries C b).
Proof.
  induction C as [|i C IH]; intros b; cbn [map boundaries]; [reflexivity|].
  rewrite isize_shape, IH. reflexivity.
Qed.

Lemma drop_words_shape C : forall n, drop_words (map shape C) n = option_map (map shape) (drop_words C n).
Proof.
  induction C as [|i C IH]; intros n; cbn [map drop_words].
  - destruct (n =? 0); reflexivity.
  - rewrite isize_shape. destruct (n =? 0); [reflexivity|]. destruct (n <? isize i); [reflexivity|]. apply IH.
Qed.

Lemma take_words_shape C : forall n, take_words (map shape C) n = option_map (map shape) (take_words C n).
Proof.
  induction C as [|i C IH]; intros n; cbn [map take_words].
  - destruct (n =? 0); reflexivity.
  - rewrite isize_shape. destruct (n =? 0); [reflexivity|]. destruct (n <? isize i); [reflexivity|].
    rewrite IH. destruct (take_words C (n - isize i)); reflexivity.
Qed.

Lemma sub_code_shape C a n : sub_code (map shape C) a n = option_map (map shape) (sub_code C a n).
Proof.
  unfold sub_code. rewrite drop_words_shape. destruct (drop_words C a) as [d|]; cbn [option_map]; [|reflexivity].
  apply take_words_shape.
Qed.

Lemma infer_go_shape FT cx C : forall ip cur pend,
  infer_go FT cx (map shape C) ip cur pend = infer_go FT cx C ip cur pend.
Proof.
  induction C as [|i C IH]; intros ip cur pend; cbn [map infer_go]; [reflexivity|].
  rewrite isize_shape, flow_shape.
  destruct (match cur with Some d => Some d | None => look pend ip end); [|apply IH].
  destruct (flow_of cx i); try (f_equal; apply IH).
  destruct (nth_z FT fi); f_equal; apply IH.
Qed.

Lemma tgt_shape C a ip d : tgt (map shape C) a ip d = tgt C a ip d.
Proof. unfold tgt. rewrite is_target_shape. reflexivity. Qed.

Lemma forallb_map' {A B} (f : B -> bool) (g : A -> B) (l : list A) : forallb f (map g l) = forallb (fun x => f (g x)) l.
Proof. induction l as [|x l IH]; cbn [map forallb]; [reflexivity|]. rewrite IH. reflexivity. Qed.

Lemma forallb_ext' {A} (f g : A -> bool) (l : list A) : (forall x, f x = g x) -> forallb f l = forallb g l.
Proof. intros H. induction l as [|x l IH]; cbn [forallb]; [reflexivity|]. rewrite H, IH. reflexivity. Qed.

Section Inv.
  Variable FT : ftable.
  Variable chk : vctx -> Z -> code -> bool.
  Hypothesis Hchk : forall cx d body, chk cx d (map shape body) = chk cx d body.

  Lemma local_ok_shape cx a C ip i d :
    local_ok FT chk cx a (map shape C) ip (shape i) d = local_ok FT chk cx a C ip i d.
  Proof.
    unfold local_ok. rewrite flow_shape, isize_shape.
    destruct (flow_of cx i); rewrite ?tgt_shape; try reflexivity.
    2: { destruct (nth_z FT fi); rewrite ?tgt_shape; reflexivity. }
    rewrite sub_code_shape. destruct (sub_code C (ip + isize i) off) as [body|]; cbn [option_map]; [|reflexivity].
    rewrite Hchk. reflexivity.
  Qed.

  Lemma check_ann_shape cx a C d0 dend :
    check_ann FT chk cx a (map shape C) d0 dend = check_ann FT chk cx a C d0 dend.
  Proof.
    unfold check_ann. rewrite csize_shape, boundaries_shape. f_equal. f_equal.
    rewrite forallb_map'. apply forallb_ext'. intros [ip i]. cbn [fst snd].
    destruct (look a ip); [apply local_ok_shape|reflexivity].
  Qed.
End Inv.

Lemma check_seg_shape : forall fuel FT cx d0 dend C,
  check_seg fuel FT cx d0 dend (map shape C) = check_seg fuel FT cx d0 dend C.
Proof.
  induction fuel as [|f IH]; intros FT cx d0 dend C; cbn [check_seg]; [reflexivity|].
  unfold infer. rewrite infer_go_shape. apply check_ann_shape.
  intros cx' d body. apply IH.
Qed.

Theorem check_code_same_shape FT nl inf d0 dend a b :
  map shape a = map shape b ->
  check_code FT nl inf d0 dend a = check_code FT nl inf d0 dend b.
Proof.
  intros H. unfold check_code.
  assert (Hl : length a = length b).
  { apply (f_equal (@length instr)) in H. rewrite !map_length in H. exact H. }
  rewrite <- (check_seg_shape _ _ _ _ _ a), <- (check_seg_shape _ _ _ _ _ b), H, Hl. reflexivity.
Qed.

(* ---- the decoded form of encoded code ---- *)

Lemma shape_abs p i : shape (abs_instr p i) = shape i.
Proof. destruct i; reflexivity. Qed.

Lemma shape_abs_code : forall c p, map shape (abs_code p c) = map shape c.
Proof.
  induction c as [|i c IH]; intros p; cbn [abs_code map]; [reflexivity|].
  rewrite shape_abs, IH. reflexivity.
Qed.

(* the code decoded from the compiler model's words passes the check iff the model's code does *)
Theorem check_decoded_iff_encoded FT nl inf d0 dend p c :
  forallb scopes_encodable c = true ->
  exists c', decode (fst (enc_code p c)) = Some c' /\
             check_code FT nl inf d0 dend c' = check_code FT nl inf d0 dend c.
Proof.
  intros H. exists (abs_code p c). split; [apply decode_enc_code; exact H|].
  apply check_code_same_shape. apply shape_abs_code.
Qed.
