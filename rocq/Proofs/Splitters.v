(* Proofs about bufio.ScanLines, byteSplitter and regexSplitter: closed forms (no slice ever
   panics), well-behavedness, stability (hence chunk independence), losslessness. *)
From Verif Require Import Lib.Base Model.Scanner Model.Splitters Proofs.Scanner.

(* ---------- lists ---------- *)

Lemma ztake_app_le {A} n (a b : list A) : n <= zlen a -> ztake n (a ++ b) = ztake n a.
Proof.
  unfold ztake, zlen; intros H. rewrite firstn_app.
  replace (Z.to_nat n - length a)%nat with O by lia. cbn [firstn]. apply app_nil_r.
Qed.

Lemma ztake_zlen_app {A} (a b : list A) : ztake (zlen a) (a ++ b) = a.
Proof.
  unfold ztake, zlen. rewrite Nat2Z.id, firstn_app, Nat.sub_diag, firstn_all. cbn. apply app_nil_r.
Qed.

Lemma zdrop_zlen_app {A} (a b : list A) : zdrop (zlen a) (a ++ b) = b.
Proof.
  unfold zdrop, zlen. rewrite Nat2Z.id, skipn_app, Nat.sub_diag, skipn_all. reflexivity.
Qed.

Lemma zdrop_succ_app {A} (a : list A) x (b : list A) : zdrop (zlen a + 1) (a ++ x :: b) = b.
Proof.
  rewrite zdrop_zdrop by (try apply zlen_nonneg; lia). rewrite zdrop_zlen_app. reflexivity.
Qed.

Lemma ztake_all_eq {A} (l : list A) : ztake (zlen l) l = l.
Proof. apply ztake_all. lia. Qed.

Lemma slice_ok {A} (s : list A) lo hi : 0 <= lo -> lo <= hi -> hi <= zlen s ->
  slice s lo hi = Ok (ztake (hi - lo) (zdrop lo s)).
Proof.
  intros H1 H2 H3. unfold slice.
  replace (0 <=? lo) with true by (symmetry; apply Z.leb_le; lia).
  replace (lo <=? hi) with true by (symmetry; apply Z.leb_le; lia).
  replace (hi <=? zlen s) with true by (symmetry; apply Z.leb_le; lia).
  reflexivity.
Qed.

Lemma slice_prefix {A} (s : list A) hi : 0 <= hi <= zlen s -> slice s 0 hi = Ok (ztake hi s).
Proof. intros H. rewrite slice_ok by lia. rewrite Z.sub_0_r. reflexivity. Qed.

Lemma index_last {A} (a : list A) x : index (a ++ [x]) (zlen (a ++ [x]) - 1) = Ok x.
Proof.
  unfold index. rewrite zlen_app. change (zlen [x]) with 1.
  pose proof (zlen_nonneg a).
  replace (0 <=? zlen a + 1 - 1) with true by (symmetry; apply Z.leb_le; lia).
  replace (zlen a + 1 - 1 <? zlen a + 1) with true by (symmetry; apply Z.ltb_lt; lia).
  cbn [andb]. replace (zlen a + 1 - 1) with (zlen a) by lia. unfold zlen. rewrite Nat2Z.id.
  rewrite nth_error_app2 by lia. rewrite Nat.sub_diag. reflexivity.
Qed.

(* ---------- dropCR / dropLF ---------- *)

(* remove one trailing c *)
Fixpoint strip_last (c : Z) (d : bytes) : bytes :=
  match d with
  | [] => []
  | x :: d' => match d' with
               | [] => if x =? c then [] else [x]
               | _ => x :: strip_last c d'
               end
  end.

Lemma strip_last_snoc c a x : strip_last c (a ++ [x]) = if x =? c then a else a ++ [x].
Proof.
  induction a as [|y a IH]; [cbn; destruct (x =? c); reflexivity|].
  cbn [app strip_last]. destruct (a ++ [x]) eqn:E; [destruct a; discriminate|].
  rewrite IH. destruct (x =? c); reflexivity.
Qed.

Lemma drop_last_ok c d : drop_last c d = Ok (strip_last c d).
Proof.
  destruct d as [|x0 d0]; [reflexivity|].
  destruct (@exists_last _ (x0 :: d0)) as (a & x & E); [discriminate|]. rewrite E. clear E.
  - unfold drop_last.
    assert (0 < zlen (a ++ [x])) by (rewrite zlen_app; change (zlen [x]) with 1; pose proof (zlen_nonneg a); lia).
    replace (0 <? zlen (a ++ [x])) with true by (symmetry; apply Z.ltb_lt; lia).
    rewrite index_last. cbn [rbind]. rewrite strip_last_snoc.
    destruct (x =? c); [|reflexivity].
    rewrite slice_prefix by lia. f_equal.
    rewrite zlen_app. change (zlen [x]) with 1. replace (zlen a + 1 - 1) with (zlen a) by lia.
    apply ztake_zlen_app.
Qed.

(* ---------- bytes.IndexByte ---------- *)

Lemma index_byte_from_found c pre post i : ~ In c pre ->
  index_byte_from c (pre ++ c :: post) i = i + zlen pre.
Proof.
  revert i; induction pre as [|x pre IH]; intros i Hn.
  - cbn [app index_byte_from]. rewrite Z.eqb_refl. rewrite zlen_nil. lia.
  - cbn [app index_byte_from]. destruct (x =? c) eqn:E.
    + apply Z.eqb_eq in E. exfalso. apply Hn. left. exact E.
    + rewrite IH by (intro; apply Hn; right; assumption). rewrite zlen_cons. lia.
Qed.

Lemma index_byte_from_none c d i : ~ In c d -> index_byte_from c d i = -1.
Proof.
  revert i; induction d as [|x d IH]; intros i Hn; [reflexivity|].
  cbn [index_byte_from]. destruct (x =? c) eqn:E.
  - apply Z.eqb_eq in E. exfalso. apply Hn. left. exact E.
  - apply IH. intro; apply Hn; right; assumption.
Qed.

Lemma index_byte_found c pre post : ~ In c pre -> index_byte c (pre ++ c :: post) = zlen pre.
Proof. intros H. unfold index_byte. rewrite index_byte_from_found by exact H. lia. Qed.

Lemma index_byte_none c d : ~ In c d -> index_byte c d = -1.
Proof. apply index_byte_from_none. Qed.

(* first occurrence *)
Lemma first_occurrence (c : Z) (d : bytes) :
  ~ In c d \/ exists pre post, d = pre ++ c :: post /\ ~ In c pre.
Proof.
  induction d as [|x d IH]; [left; intros []|].
  destruct (Z.eq_dec x c) as [->|Hne].
  - right. exists [], d. split; [reflexivity|intros []].
  - destruct IH as [Hn|(pre & post & -> & Hn)].
    + left. intros [H|H]; [congruence|exact (Hn H)].
    + right. exists (x :: pre), post. split; [reflexivity|].
      intros [H|H]; [congruence|exact (Hn H)].
Qed.

Lemma nonnil_zlen {A} (d : list A) : d <> [] -> 0 < zlen d.
Proof. destruct d; [congruence|]. intros _. rewrite zlen_cons. pose proof (zlen_nonneg d). lia. Qed.

Lemma zlen_eqb_0 {A} (d : list A) : (zlen d =? 0) = nilb d.
Proof. destruct d; [reflexivity|]. rewrite zlen_cons. pose proof (zlen_nonneg d). cbn [nilb]. apply Z.eqb_neq. lia. Qed.

(* ---------- closed forms ---------- *)

Lemma byte_scan_found sep pre post e : ~ In sep pre ->
  byte_scan sep (pre ++ sep :: post) e = Ok (zlen pre + 1, Some pre, None).
Proof.
  intros Hn. unfold byte_scan. rewrite zlen_eqb_0.
  replace (nilb (pre ++ sep :: post)) with false by (destruct pre; reflexivity).
  rewrite andb_false_r. rewrite index_byte_found by exact Hn.
  pose proof (zlen_nonneg pre).
  replace (0 <=? zlen pre) with true by (symmetry; apply Z.leb_le; lia).
  rewrite slice_prefix by (rewrite zlen_app; pose proof (zlen_nonneg (sep :: post)); lia).
  cbn [rbind]. rewrite ztake_zlen_app. reflexivity.
Qed.

Lemma byte_scan_none sep d e : ~ In sep d ->
  byte_scan sep d e = Ok (if e && negb (nilb d) then (zlen d, Some d, None) else (0, None, None)).
Proof.
  intros Hn. unfold byte_scan. rewrite zlen_eqb_0.
  destruct e, (nilb d) eqn:E; cbn [andb negb]; try reflexivity;
    rewrite index_byte_none by exact Hn; reflexivity.
Qed.

Lemma scan_lines_found pre post e : ~ In 10 pre ->
  scan_lines (pre ++ 10 :: post) e = Ok (zlen pre + 1, Some (strip_last 13 pre), None).
Proof.
  intros Hn. unfold scan_lines. rewrite zlen_eqb_0.
  replace (nilb (pre ++ 10 :: post)) with false by (destruct pre; reflexivity).
  rewrite andb_false_r. rewrite index_byte_found by exact Hn.
  pose proof (zlen_nonneg pre).
  replace (0 <=? zlen pre) with true by (symmetry; apply Z.leb_le; lia).
  rewrite slice_prefix by (rewrite zlen_app; pose proof (zlen_nonneg (10 :: post)); lia).
  cbn [rbind]. rewrite ztake_zlen_app. unfold drop_cr. rewrite drop_last_ok. reflexivity.
Qed.

Lemma scan_lines_none d e : ~ In 10 d ->
  scan_lines d e = Ok (if e && negb (nilb d) then (zlen d, Some (strip_last 13 d), None) else (0, None, None)).
Proof.
  intros Hn. unfold scan_lines. rewrite zlen_eqb_0.
  destruct e, (nilb d) eqn:E; cbn [andb negb]; try reflexivity;
    rewrite index_byte_none by exact Hn; try reflexivity.
  cbn. unfold drop_cr. rewrite drop_last_ok. reflexivity.
Qed.

(* ---------- a family covering both: "token = f(text before the first sep)" ---------- *)

Section SepSplit.
  Variable sep : Z.
  Variable f : bytes -> bytes.      (* identity for byteSplitter, dropCR for ScanLines *)
  Variable rs : bytes.
  Variable sc : rawfn.
  Hypothesis sc_found : forall pre post e, ~ In sep pre ->
    sc (pre ++ sep :: post) e = Ok (zlen pre + 1, Some (f pre), None).
  Hypothesis sc_none : forall d e, ~ In sep d ->
    sc d e = Ok (if e && negb (nilb d) then (zlen d, Some (f d), None) else (0, None, None)).

  Let sp := to_split rs sc.

  Lemma sep_found st pre post e : ~ In sep pre ->
    sp st (pre ++ sep :: post) e = SOk (zlen pre + 1) (Some (f pre, rs)) st.
  Proof. intros H. unfold sp, to_split. rewrite sc_found by exact H. reflexivity. Qed.

  Lemma sep_none st d e : ~ In sep d ->
    sp st d e = if e && negb (nilb d) then SOk (zlen d) (Some (f d, rs)) st else SOk 0 None st.
  Proof.
    intros H. unfold sp, to_split. rewrite sc_none by exact H.
    destruct (e && negb (nilb d)); reflexivity.
  Qed.

  Lemma sep_wb : wb unit record sp.
  Proof.
    split.
    - intros st d e. destruct (first_occurrence sep d) as [Hn|(pre & post & -> & Hn)].
      + rewrite sep_none by exact Hn. destruct (e && negb (nilb d)) eqn:E.
        * apply andb_true_iff in E as [_ E]. apply negb_true_iff, nilb_false in E.
          pose proof (nonnil_zlen d E).
          exists (zlen d), (Some (f d, rs)), st. split; [reflexivity|]. split; [lia|]. intros _. lia.
        * exists 0, None, st. pose proof (zlen_nonneg d). split; [reflexivity|]. split; [lia|]. congruence.
      + rewrite sep_found by exact Hn. exists (zlen pre + 1), (Some (f pre, rs)), st.
        split; [reflexivity|]. rewrite zlen_app, zlen_cons.
        pose proof (zlen_nonneg pre). pose proof (zlen_nonneg post). split; [lia|]. intros _. lia.
    - intros st. rewrite sep_none by (intros []). reflexivity.
  Qed.

  Lemma sep_stable : stable unit record sp.
  Proof.
    apply stable_simple; [exact sep_wb| |].
    - intros st d adv t st' Hs d'.
      destruct (first_occurrence sep d) as [Hn|(pre & post & -> & Hn)].
      + rewrite sep_none in Hs by exact Hn. cbn [andb] in Hs. discriminate.
      + rewrite sep_found in Hs by exact Hn. rewrite <- app_assoc. cbn [app].
        rewrite sep_found by exact Hn. exact Hs.
    - intros st d adv st' Hs.
      destruct (first_occurrence sep d) as [Hn|(pre & post & -> & Hn)].
      + rewrite sep_none in Hs by exact Hn. cbn [andb] in Hs. injection Hs as <- <-. split; reflexivity.
      + rewrite sep_found in Hs by exact Hn. discriminate.
  Qed.

  (* the records of the whole input *)
  Definition sep_records (data : bytes) : list bytes :=
    map fst (fst (reference unit record sp tt data)).

  Lemma sep_records_nil : sep_records [] = [].
  Proof.
    unfold sep_records, reference, finish. rewrite (drainF_wb _ _ _ sep_wb).
    rewrite sep_none by (intros []). reflexivity.
  Qed.

  Lemma sep_records_found pre post : ~ In sep pre ->
    sep_records (pre ++ sep :: post) = f pre :: sep_records post.
  Proof.
    intros Hn. unfold sep_records, reference, finish. rewrite (drainF_wb _ _ _ sep_wb).
    rewrite sep_found by exact Hn. rewrite zdrop_succ_app.
    destruct tt. cbn [tcons fst snd map]. reflexivity.
  Qed.

  Lemma sep_records_none d : ~ In sep d -> d <> [] -> sep_records d = [f d].
  Proof.
    intros Hn Hd. unfold sep_records, reference, finish. rewrite (drainF_wb _ _ _ sep_wb).
    rewrite sep_none by exact Hn. apply nilb_false in Hd. rewrite Hd. cbn [andb negb].
    rewrite zdrop_all by lia. destruct tt. cbn [tcons fst snd map].
    rewrite (drainF_wb _ _ _ sep_wb). rewrite sep_none by (intros []). reflexivity.
  Qed.

  (* induction principle following the records *)
  Lemma sep_ind (P : bytes -> Prop) :
    P [] ->
    (forall pre post, ~ In sep pre -> P post -> P (pre ++ sep :: post)) ->
    (forall d, ~ In sep d -> d <> [] -> P d) ->
    forall d, P d.
  Proof.
    intros H0 H1 H2 d. remember (length d) as n eqn:Hn. revert d Hn.
    induction n as [n IH] using lt_wf_ind. intros d Hn.
    destruct (first_occurrence sep d) as [Hno|(pre & post & -> & Hno)].
    - destruct d as [|x d]; [exact H0|]. apply H2; [exact Hno|discriminate].
    - apply H1; [exact Hno|]. apply (IH (length post)); [|reflexivity].
      subst n. rewrite app_length. cbn [length]. lia.
  Qed.
End SepSplit.

(* ---------- joining records ---------- *)

Fixpoint join (sep : bytes) (l : list bytes) : bytes :=
  match l with
  | [] => []
  | r :: l' => match l' with [] => r | _ => r ++ sep ++ join sep l' end
  end.

Definition byte_split (sep : Z) : splitfn unit record := to_split [sep] (byte_scan sep).
Definition lines_split : splitfn unit record := to_split [10] scan_lines.

Definition byte_records (sep : Z) : bytes -> list bytes := sep_records [sep] (byte_scan sep).
Definition lines_records : bytes -> list bytes := sep_records [10] scan_lines.

Lemma byte_stable sep : stable unit record (byte_split sep).
Proof. exact (sep_stable sep (fun x => x) [sep] (byte_scan sep) (byte_scan_found sep) (byte_scan_none sep)). Qed.

Lemma lines_stable : stable unit record lines_split.
Proof. exact (sep_stable 10 (strip_last 13) [10] scan_lines scan_lines_found scan_lines_none). Qed.

Lemma byte_records_nil sep : byte_records sep [] = [].
Proof. exact (sep_records_nil sep (fun x => x) [sep] (byte_scan sep) (byte_scan_found sep) (byte_scan_none sep)). Qed.
Lemma byte_records_found sep pre post : ~ In sep pre ->
  byte_records sep (pre ++ sep :: post) = pre :: byte_records sep post.
Proof. exact (sep_records_found sep (fun x => x) [sep] (byte_scan sep) (byte_scan_found sep) (byte_scan_none sep) pre post). Qed.
Lemma byte_records_none sep d : ~ In sep d -> d <> [] -> byte_records sep d = [d].
Proof. exact (sep_records_none sep (fun x => x) [sep] (byte_scan sep) (byte_scan_found sep) (byte_scan_none sep) d). Qed.

Lemma lines_records_nil : lines_records [] = [].
Proof. exact (sep_records_nil 10 (strip_last 13) [10] scan_lines scan_lines_found scan_lines_none). Qed.
Lemma lines_records_found pre post : ~ In 10 pre ->
  lines_records (pre ++ 10 :: post) = strip_last 13 pre :: lines_records post.
Proof. exact (sep_records_found 10 (strip_last 13) [10] scan_lines scan_lines_found scan_lines_none pre post). Qed.
Lemma lines_records_none d : ~ In 10 d -> d <> [] -> lines_records d = [strip_last 13 d].
Proof. exact (sep_records_none 10 (strip_last 13) [10] scan_lines scan_lines_found scan_lines_none d). Qed.

(* single-byte RS: the records joined by RS give back the input, up to one final RS; no record
   contains RS; there is no record iff the input is empty *)
Theorem byte_join sep data :
  let recs := byte_records sep data in
  (data = join [sep] recs \/ data = join [sep] recs ++ [sep]) /\
  Forall (fun r => ~ In sep r) recs /\
  (recs = [] <-> data = []).
Proof.
  cbn zeta. pattern data. apply (sep_ind sep); clear data.
  - rewrite byte_records_nil.
    split; [left; reflexivity|]. split; [constructor|]. split; reflexivity.
  - intros pre post Hn (IH1 & IH2 & IH3).
    rewrite byte_records_found by exact Hn.
    split; [|split; [constructor; assumption|split; [discriminate|intros H; destruct pre; discriminate]]].
    cbn [join]. destruct (byte_records sep post) as [|r recs] eqn:E.
    + assert (post = []) by (apply IH3; reflexivity). subst post. right. reflexivity.
    + destruct IH1 as [IH1|IH1].
      * left. rewrite IH1 at 1. reflexivity.
      * right. rewrite IH1 at 1. rewrite <- !app_assoc. reflexivity.
  - intros d Hn Hd. rewrite byte_records_none by assumption.
    split; [left; reflexivity|]. split; [repeat constructor; exact Hn|]. split; [discriminate|congruence].
Qed.

(* RS = "\n": the records are the "\n"-separated pieces with one trailing CR dropped *)
Theorem lines_spec data : lines_records data = map (strip_last 13) (byte_records 10 data).
Proof.
  pattern data. apply (sep_ind 10); clear data.
  - rewrite lines_records_nil, byte_records_nil. reflexivity.
  - intros pre post Hn IH.
    rewrite lines_records_found, byte_records_found by exact Hn. cbn [map]. rewrite IH. reflexivity.
  - intros d Hn Hd. rewrite lines_records_none, byte_records_none by assumption. reflexivity.
Qed.

(* ---------- regexSplitter ---------- *)

Section RegexSplit.
  Variable find : bytes -> option (Z * Z).
  Variable rs : bytes.
  (* FindIndex returns offsets inside the text *)
  Hypothesis find_bounds : forall d s e, find d = Some (s, e) -> 0 <= s /\ s <= e /\ e <= zlen d.

  Let sp := to_split rs (regex_scan find).

  Lemma regex_found st d e s en : find d = Some (s, en) -> s <> en ->
    sp st d e = SOk en (Some (ztake s d, ztake (en - s) (zdrop s d))) st.
  Proof.
    intros Hf Hne. destruct (find_bounds _ _ _ Hf) as (H1 & H2 & H3).
    unfold sp, to_split, regex_scan. rewrite zlen_eqb_0.
    assert (d <> []) by (intros ->; rewrite zlen_nil in H3; lia).
    replace (nilb d) with false by (symmetry; apply nilb_false; assumption).
    rewrite andb_false_r. rewrite Hf.
    replace (s =? en) with false by (symmetry; apply Z.eqb_neq; exact Hne). cbn [negb].
    rewrite slice_ok by lia. rewrite slice_prefix by lia. reflexivity.
  Qed.

  Lemma regex_nomatch st d e :
    (find d = None \/ exists s, find d = Some (s, s)) ->
    sp st d e = if e && negb (nilb d) then SOk (zlen d) (Some (d, [])) st else SOk 0 None st.
  Proof.
    intros Hf. unfold sp, to_split, regex_scan. rewrite zlen_eqb_0.
    destruct e, (nilb d) eqn:E; cbn [andb negb]; try reflexivity;
      destruct Hf as [->|(s & ->)]; try rewrite Z.eqb_refl; reflexivity.
  Qed.

  Lemma find_cases d :
    (exists s en, find d = Some (s, en) /\ s <> en) \/ (find d = None \/ exists s, find d = Some (s, s)).
  Proof.
    destruct (find d) as [[s en]|] eqn:E; [|right; left; reflexivity].
    destruct (Z.eq_dec s en) as [->|Hne]; [right; right; exists en; reflexivity|].
    left. exists s, en. split; [reflexivity|exact Hne].
  Qed.

  Lemma regex_wb : wb unit record sp.
  Proof.
    split.
    - intros st d e. destruct (find_cases d) as [(s & en & Hf & Hne)|Hf].
      + rewrite (regex_found st d e s en Hf Hne). destruct (find_bounds _ _ _ Hf) as (H1 & H2 & H3).
        eexists _, _, _. split; [reflexivity|]. split; [lia|]. intros _. lia.
      + rewrite regex_nomatch by exact Hf. destruct (e && negb (nilb d)) eqn:E.
        * apply andb_true_iff in E as [_ E]. apply negb_true_iff, nilb_false in E.
          pose proof (nonnil_zlen d E).
          eexists _, _, _. split; [reflexivity|]. split; [lia|]. intros _. lia.
        * pose proof (zlen_nonneg d). eexists _, _, _. split; [reflexivity|]. split; [lia|]. congruence.
    - intros st. destruct (find_cases []) as [(s & en & Hf & Hne)|Hf].
      + destruct (find_bounds _ _ _ Hf) as (H1 & H2 & H3). rewrite zlen_nil in H3. lia.
      + rewrite regex_nomatch by exact Hf. reflexivity.
  Qed.

  (* regex RS: for EVERY delivery, record ++ RT concatenated in order is the input *)
  Lemma regex_consuming : consuming unit record sp (fun t => fst t ++ snd t).
  Proof.
    split; [exact regex_wb| |].
    - intros st d e adv t st' Hs. destruct (find_cases d) as [(s & en & Hf & Hne)|Hf].
      + rewrite (regex_found st d e s en Hf Hne) in Hs. injection Hs as <- <- <-.
        destruct (find_bounds _ _ _ Hf) as (H1 & H2 & H3). cbn [fst snd].
        rewrite <- (ztake_zdrop s (ztake en d)). f_equal.
        * unfold ztake. rewrite firstn_firstn. f_equal. lia.
        * unfold ztake, zdrop. rewrite skipn_firstn_comm. f_equal. lia.
      + rewrite regex_nomatch in Hs by exact Hf. destruct (e && negb (nilb d)); [|discriminate].
        injection Hs as <- <- <-. cbn [fst snd]. rewrite app_nil_r. apply ztake_all_eq.
    - intros st d e adv st' Hs. destruct (find_cases d) as [(s & en & Hf & Hne)|Hf].
      + rewrite (regex_found st d e s en Hf Hne) in Hs. discriminate.
      + rewrite regex_nomatch in Hs by exact Hf. destruct (e && negb (nilb d)) eqn:E; [discriminate|].
        injection Hs as <- <-. split; [reflexivity|]. intros ->. cbn [andb] in E.
        apply negb_false_iff, nilb_true in E. exact E.
  Qed.

  (* a non-empty match, once found, is the match whatever data follows *)
  Definition match_final : Prop :=
    forall d d' s en, find d = Some (s, en) -> s <> en -> find (d ++ d') = Some (s, en).

  Lemma regex_stable : match_final -> stable unit record sp.
  Proof.
    intros MF. apply stable_simple; [exact regex_wb| |].
    - intros st d adv t st' Hs d'. destruct (find_cases d) as [(s & en & Hf & Hne)|Hf].
      + rewrite (regex_found st d false s en Hf Hne) in Hs. injection Hs as <- <- <-.
        destruct (find_bounds _ _ _ Hf) as (H1 & H2 & H3).
        rewrite (regex_found st (d ++ d') true s en (MF _ _ _ _ Hf Hne) Hne).
        rewrite ztake_app_le by lia. rewrite zdrop_app_le by lia.
        rewrite ztake_app_le; [reflexivity|]. rewrite zlen_zdrop by lia. lia.
      + rewrite regex_nomatch in Hs by exact Hf. cbn [andb] in Hs. discriminate.
    - intros st d adv st' Hs. destruct (find_cases d) as [(s & en & Hf & Hne)|Hf].
      + rewrite (regex_found st d false s en Hf Hne) in Hs. discriminate.
      + rewrite regex_nomatch in Hs by exact Hf. cbn [andb] in Hs. injection Hs as <- <-. split; reflexivity.
  Qed.
End RegexSplit.
