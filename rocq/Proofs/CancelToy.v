(* C15: the decoder of Model/CancelToy.v answers only with code whose encoding (Model/Encode.v,
   the encoder that C01 compares word for word with the Go compiler's output) is its input. *)
From Verif Require Import Lib.Base Model.Ast Model.Instr Model.Compiler Model.Encode Model.CancelToy.

Lemma zlist_eqb_eq : forall a b, zlist_eqb a b = true -> a = b.
Proof.
  induction a as [|x a IH]; intros [|y b] H; cbn in H; try discriminate; [reflexivity|].
  apply andb_prop in H. destruct H as [H1 H2]. apply Z.eqb_eq in H1. subst y. f_equal. apply IH. exact H2.
Qed.

Theorem decode_code_sound pl ws c : decode_code pl ws = Some c -> fst (enc_code pl c) = ws.
Proof.
  unfold decode_code. destruct (decode_words (S (length ws)) pl ws) as [c0|]; [|discriminate].
  destruct (zlist_eqb (fst (enc_code pl c0)) ws) eqn:E; [|discriminate].
  intros H. inversion H; subst. apply zlist_eqb_eq. exact E.
Qed.
