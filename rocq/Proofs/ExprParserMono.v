(* C04 — fuel monotonicity of the parser model: once a call returns anything other than PFuel,
   every larger fuel returns the same thing.  Consequently theorems can speak about
   "some fuel" / "all sufficiently large fuel" interchangeably. *)
From Verif Require Import Lib.Base Model.ExprAst Model.ExprParser.

Definition le_res {A} (a b : pres A) : Prop := a = PFuel \/ a = b.

Lemma le_res_refl {A} (a : pres A) : le_res a a.
Proof. right; reflexivity. Qed.

Lemma le_res_fuel {A} (b : pres A) : le_res PFuel b.
Proof. left; reflexivity. Qed.

Lemma pbind_mono {A B} (c c' : pres A) (k k' : A -> pres B) :
  le_res c c' -> (forall a, le_res (k a) (k' a)) -> le_res (pbind c k) (pbind c' k').
Proof.
  intros [-> | ->] Hk; [left; reflexivity|].
  destruct c'; cbn [pbind]; auto using le_res_refl.
Qed.

Definition mono_at (n : nat) : Prop :=
  forall m, (n <= m)%nat ->
  (forall l pc pend ts, le_res (p_lv n l pc pend ts) (p_lv m l pc pend ts)) /\
  (forall l pc e ts, le_res (after n l pc e ts) (after m l pc e ts)) /\
  (forall l pc ts, le_res (regex_str n l pc ts) (regex_str m l pc ts)) /\
  (forall pend ts, le_res (primary n pend ts) (primary m pend ts)) /\
  (forall ts, le_res (opt_lvalue n ts) (opt_lvalue m ts)) /\
  (forall pc first ts, le_res (exprlist n pc first ts) (exprlist m pc first ts)) /\
  (forall first ts, le_res (ucall_args n first ts) (ucall_args m first ts)) /\
  (forall ts, le_res (sprintf_args n ts) (sprintf_args m ts)) /\
  (forall f ts, le_res (builtin n f ts) (builtin m f ts)).

Ltac mono_tac IH :=
  repeat first
    [ apply le_res_refl
    | apply IH
    | apply pbind_mono; [ | intros ? ]
    | match goal with
      | |- le_res (match ?x with _ => _ end) _ => destruct x
      | |- le_res (if ?x then _ else _) _ => destruct x
      | |- le_res (let '(_, _) := ?x in _) _ => destruct x
      end ].

Lemma mono : forall n, mono_at n.
Proof.
  induction n as [|n IH]; intros m Hm.
  - repeat split; intros; apply le_res_fuel.
  - destruct m as [|m]; [lia|].
    assert (Hnm : (n <= m)%nat) by lia.
    destruct (IH m Hnm) as (I1 & I2 & I3 & I4 & I5 & I6 & I7 & I8 & I9).
    repeat split; intros.
    + cbn [p_lv]. mono_tac I1; try apply I2; try apply I4.
    + cbn [after]. mono_tac I1; try apply I2; try apply I3.
    + cbn [regex_str]. mono_tac I1.
    + cbn [primary]. mono_tac I1; try apply I4; try apply I5; try apply I6; try apply I7; try apply I9.
    + cbn [opt_lvalue]. mono_tac I1; try apply I4; try apply I6.
    + cbn [exprlist]. mono_tac I1; try apply I6.
    + cbn [ucall_args]. mono_tac I1; try apply I7.
    + cbn [sprintf_args]. mono_tac I1; try apply I8.
    + cbn [builtin]. mono_tac I1; try apply I3; try apply I8.
Qed.
