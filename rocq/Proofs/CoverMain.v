(* C18 proofs, part 4: the theorems about a whole annotated program.
   transparency, exact counts (count mode), set mode, and their failure for the two action
   shapes the pinned tree gets wrong. *)
From Verif Require Import Lib.Base Model.Cover Proofs.CoverBase Proofs.CoverStruct Proofs.CoverSim.

Section Bridge.
Context {E : Type}.
Variable files : ftable.
Variable mode : cmode.
Variable okp : option Z -> pos -> Prop.

Lemma lists_bridge (ls' ls : list (list (cstmt E))) :
  Forall2 (list_rel mode) ls' ls ->
  (forall x, In x (concat (map tagged ls')) -> okt okp x) ->
  Forall2 (lrel E mode okp) ls' ls.
Proof.
  induction 1 as [|l' l t' t (R1 & R2 & _) _ IH]; intros Hok; [constructor|].
  cbn [map concat] in Hok. constructor.
  - split; [exact R1|]. split; [exact R2|]. apply Forall_forall. intros x Hx. apply Hok. apply in_or_app. left. exact Hx.
  - apply IH. intros x Hx. apply Hok. apply in_or_app. right. exact Hx.
Qed.

Lemma actions_bridge (la' la : list (action E)) :
  Forall2 (action_rel mode) la' la ->
  (forall x, In x (concat (map (fun a => tagged_body (a_body a)) la')) -> okt okp x) ->
  Forall2 (arel E mode okp) la' la.
Proof.
  induction 1 as [|a' a t' t [Hp Hb] _ IH]; intros Hok; [constructor|].
  cbn [map concat] in Hok. constructor.
  - split; [exact Hp|]. unfold body_rel in Hb. unfold body_prel.
    destruct (a_body a) as [l|] eqn:Ea, (a_body a') as [l'|] eqn:Ea'; try contradiction; [|exact I].
    destruct Hb as (_ & He & Hs). split; [|split; reflexivity].
    split; [exact He|]. split; [exact Hs|]. apply Forall_forall. intros x Hx. apply Hok.
    apply in_or_app. left. exact Hx.
  - apply IH. intros x Hx. apply Hok. apply in_or_app. right. exact Hx.
Qed.

Lemma end_empty_bridge (ls' ls : list (list (cstmt E))) :
  Forall2 (list_rel mode) ls' ls -> end_is_empty ls' = end_is_empty ls.
Proof. destruct 1; reflexivity. Qed.

Theorem bridge (P A : program E) (B : list block) :
  ann_ok files mode P A B ->
  (forall x, In x (tagged_prog A) -> okt okp x) ->
  prel E mode okp A P /\ Forall2 (lrel E mode okp) (p_funcs A) (p_funcs P).
Proof.
  intros [Hb Ha He Hf _ _ _] Hok.
  unfold tagged_prog in Hok.
  assert (Hok1 : forall x, In x (concat (map tagged (p_begin A))) -> okt okp x)
    by (intros x Hx; apply Hok; apply in_or_app; left; exact Hx).
  assert (Hok2 : forall x, In x (concat (map (fun a => tagged_body (a_body a)) (p_actions A))) -> okt okp x)
    by (intros x Hx; apply Hok; apply in_or_app; right; apply in_or_app; left; exact Hx).
  assert (Hok3 : forall x, In x (concat (map tagged (p_end A))) -> okt okp x)
    by (intros x Hx; apply Hok; apply in_or_app; right; apply in_or_app; right; apply in_or_app; left; exact Hx).
  assert (Hok4 : forall x, In x (concat (map tagged (p_funcs A))) -> okt okp x)
    by (intros x Hx; apply Hok; apply in_or_app; right; apply in_or_app; right; apply in_or_app; right; exact Hx).
  split; [constructor|].
  - apply lists_bridge; assumption.
  - apply actions_bridge; assumption.
  - apply lists_bridge; assumption.
  - apply end_empty_bridge; assumption.
  - apply lists_bridge; assumption.
Qed.

End Bridge.

(* ---- facts about marks and the ghost count ---- *)
Lemma marks_in (T : list (option Z * pos)) i p : In (i, p) (marks_of T) <-> In (Some i, p) T.
Proof.
  induction T as [|[[j|] q] T IH]; cbn [marks_of In].
  - tauto.
  - rewrite IH. split; intros [H|H]; auto; left; congruence.
  - rewrite IH. split; [intros H; right; exact H|intros [H|H]; [discriminate H|exact H]].
Qed.

Lemma nodup_snd_tag (T : list (option Z * pos)) a b p :
  NoDup (map snd T) -> In (a, p) T -> In (b, p) T -> a = b.
Proof.
  induction T as [|[c q] T IH]; cbn [map In]; intros Hn Ha Hb; [contradiction|].
  inversion Hn as [|? ? Hq Hn']; subst.
  destruct Ha as [Ha|Ha], Hb as [Hb|Hb].
  - congruence.
  - exfalso. apply Hq. inversion Ha; subst. apply (in_map snd) in Hb. exact Hb.
  - exfalso. apply Hq. inversion Hb; subst. apply (in_map snd) in Ha. exact Ha.
  - apply IH; assumption.
Qed.

Lemma nodup_fst_mark (M : list (Z * pos)) i p q :
  NoDup (map fst M) -> In (i, p) M -> In (i, q) M -> p = q.
Proof.
  induction M as [|[j r] M IH]; cbn [map In]; intros Hn Ha Hb; [contradiction|].
  inversion Hn as [|? ? Hq Hn']; subst.
  destruct Ha as [Ha|Ha], Hb as [Hb|Hb].
  - congruence.
  - exfalso. apply Hq. inversion Ha; subst. apply (in_map fst) in Hb. exact Hb.
  - exfalso. apply Hq. inversion Hb; subst. apply (in_map fst) in Ha. exact Ha.
  - apply IH; assumption.
Qed.

Lemma pos_eqb_eq a b : pos_eqb a b = true <-> a = b.
Proof.
  destruct a as [l1 c1], b as [l2 c2]. unfold pos_eqb. cbn [pline pcol].
  rewrite andb_true_iff, !Z.eqb_eq. split; [intros [-> ->]; reflexivity|intros H; inversion H; auto].
Qed.

Lemma began_cons_same p tr : began p (p :: tr) = 1 + began p tr.
Proof. cbn [began]. destruct (pos_eqb p p) eqn:H; [reflexivity|]. exfalso. assert (pos_eqb p p = true) by (apply pos_eqb_eq; reflexivity). congruence. Qed.

Lemma began_cons_other p q tr : q <> p -> began p (q :: tr) = began p tr.
Proof. intros Hne. cbn [began]. destruct (pos_eqb q p) eqn:H; [apply pos_eqb_eq in H; contradiction|lia]. Qed.

Lemma began_nonneg p tr : 0 <= began p tr.
Proof. induction tr as [|q t IH]; cbn [began]; [lia|]. destruct (pos_eqb q p); lia. Qed.

Section Main.
Variables (E U K V I : Type).
Variable ev_start : E -> U -> estep U K V.
Variable ev_resume : K -> U -> V -> estep U K V.
Variable truthy : V -> bool.
Variable nil_v : V.
Variable forin_init : E -> U -> I.
Variable forin_next : E -> I -> U -> option (I * U).
Variable next_record : U -> nrec U V.
Variable print_record : U -> U * option V.
Variable skip_file : U -> U.
Variable files : ftable.

(* run of a whole program: [fns] is the function table the calls refer to *)
Definition run (X : Type) (bump : cmode -> Z -> X -> X) (n : nat) (p : program E) (q : st U X) : st U X * outcome V :=
  exec_prog E U K V I X ev_start ev_resume truthy nil_v forin_init forin_next bump (p_funcs p)
    next_record print_record skip_file n p q.

(* the generic statement: an invariant between __COVER and the trace carried through the run
   of the annotated program, in lock step with the plain run of the original program *)
Lemma annotated_run (XA XB : Type) (bumpA : cmode -> Z -> XA -> XA) (bumpB : cmode -> Z -> XB -> XB)
  (mode : cmode) (J : XA -> list pos -> Prop) (JP : Z -> XA -> list pos -> Prop) (P : program E) :
  let A := fst (annotate files mode P) in
  let okp := fun t p => In (t, p) (tagged_prog A) in
  nocov_prog P = true ->
  (forall i x tr, J x tr -> JP i (bumpA mode i x) tr) ->
  (forall i p x tr, JP i x tr -> okp (Some i) p -> J x (p :: tr)) ->
  (forall p x tr, J x tr -> okp None p -> J x (p :: tr)) ->
  forall n u x xb tr, J x tr ->
  rrel U V XA XB J JP (run XA bumpA n A (mkst U XA u x tr)) (run XB bumpB n P (mkst U XB u xb tr)).
Proof.
  intros A okp Hn Hc Hh Hp n u x xb tr HJ.
  pose proof (annotate_ok files mode P Hn) as Hok. fold A in Hok.
  destruct (bridge files mode okp P A _ Hok) as [Hprel Hfun].
  { intros [t p] Hx. exact Hx. }
  unfold run. eapply exec_prog_sim; try eassumption.
  split; [reflexivity|]. split; [reflexivity|exact HJ].
Qed.

(* ---- transparency ---- *)
Theorem transparent (XA XB : Type) (bumpA : cmode -> Z -> XA -> XA) (bumpB : cmode -> Z -> XB -> XB)
  (mode : cmode) (P : program E) :
  nocov_prog P = true ->
  forall n u x xb tr,
  let rA := run XA bumpA n (fst (annotate files mode P)) (mkst U XA u x tr) in
  let rP := run XB bumpB n P (mkst U XB u xb tr) in
  snd rA = snd rP
  /\ (snd rA <> OFuel V -> s_u _ _ (fst rA) = s_u _ _ (fst rP) /\ s_tr _ _ (fst rA) = s_tr _ _ (fst rP)).
Proof.
  intros Hn n u x xb tr.
  pose proof (annotated_run XA XB bumpA bumpB mode (fun _ _ => True) (fun _ _ _ => True) P Hn
                (fun _ _ _ _ => Logic.I) (fun _ _ _ _ _ _ => Logic.I) (fun _ _ _ _ _ => Logic.I) n u x xb tr Logic.I) as [H1 H2].
  cbn zeta. split; [exact H1|]. intros Hne. destruct (H2 Hne) as (Hu & Ht & _). split; assumption.
Qed.

(* ---- exact counts ---- *)
Lemma cover_get_bump m k x i :
  cover_get (cover_bump m k x) i =
  if i =? k then (match m with MCount => cover_get x k + 1 | MSet => 1 end) else cover_get x i.
Proof. unfold cover_get, cover_bump. destruct (i =? k); reflexivity. Qed.

(* the facts about the tagged list of the annotated program that the count proofs use *)
Lemma tags_facts mode (P : program E) :
  nocov_prog P = true -> NoDup (map snd (tagged_prog P)) ->
  let A := fst (annotate files mode P) in
  let B := snd (annotate files mode P) in
  let T := tagged_prog A in
  NoDup (map snd T) /\ NoDup (map fst (marks_of T))
  /\ (forall i b, 1 <= i -> nth_error B (Z.to_nat (i - 1)) = Some b ->
        exists p, In (Some i, p) T /\ link files b p)
  /\ sum_num B = nstmts_prog P.
Proof.
  intros Hn Hnd A B T.
  pose proof (annotate_ok files mode P Hn) as Hok. fold A B in Hok.
  destruct Hok as [_ _ _ _ [_ Hrange Hnod Hall Hlink] Hsum Htags]. fold T in Hrange, Hnod, Hall, Hlink, Htags.
  split; [rewrite Htags; exact Hnd|]. split; [exact Hnod|]. split; [|exact Hsum].
  intros i b Hi Hb.
  assert (Hlt : i <= zlen B).
  { assert (Hs : (Z.to_nat (i - 1) < length B)%nat) by (apply nth_error_Some; congruence). unfold zlen. lia. }
  assert (Hin : In i (map fst (marks_of T))) by (apply Hall; rewrite zlen_nil; lia).
  apply in_map_iff in Hin as ([i' p] & Hi' & Hin). cbn in Hi'. subst i'.
  exists p. split; [apply marks_in; exact Hin|].
  destruct (Hlink i p Hin) as (_ & b' & Hb' & Hl). congruence.
Qed.

Theorem count_exact (XB : Type) (bumpB : cmode -> Z -> XB -> XB) (P : program E) :
  nocov_prog P = true -> NoDup (map snd (tagged_prog P)) ->
  let A := fst (annotate files MCount P) in
  let B := snd (annotate files MCount P) in
  forall n u xb,
  let rA := run cover_array cover_bump n A (mkst U cover_array u cover_empty []) in
  let rP := run XB bumpB n P (mkst U XB u xb []) in
  snd rA <> OFuel V ->
  forall i b, 1 <= i -> nth_error B (Z.to_nat (i - 1)) = Some b ->
  exists p, In (Some i, p) (tagged_prog A) /\ link files b p
            /\ cover_get (s_x _ _ (fst rA)) i = began p (s_tr _ _ (fst rP)).
Proof.
  intros Hn Hnd A B n u xb rA rP Hfuel i b Hi Hb.
  destruct (tags_facts MCount P Hn Hnd) as (HndT & HndM & Hblocks & _). fold A B in HndT, HndM, Hblocks.
  set (T := tagged_prog A) in *.
  set (J := fun (x : cover_array) (tr : list pos) => forall i p, In (Some i, p) T -> cover_get x i = began p tr).
  set (JP := fun (k : Z) (x : cover_array) (tr : list pos) =>
               forall i p, In (Some i, p) T -> cover_get x i = began p tr + (if i =? k then 1 else 0)).
  assert (Hsim : rrel U V cover_array XB J JP rA rP).
  { apply (annotated_run cover_array XB cover_bump bumpB MCount J JP P Hn).
    - intros k x tr HJ j p Hin. rewrite cover_get_bump. destruct (j =? k) eqn:Hjk.
      + apply Z.eqb_eq in Hjk. subst j. rewrite (HJ k p Hin). lia.
      + rewrite (HJ j p Hin). lia.
    - intros k p x tr HJP Hk j q Hin. fold A T in Hk. rewrite (HJP j q Hin). destruct (j =? k) eqn:Hjk.
      + apply Z.eqb_eq in Hjk. subst j.
        assert (q = p) by exact (nodup_fst_mark _ k q p HndM (proj2 (marks_in T k q) Hin) (proj2 (marks_in T k p) Hk)).
        subst q. rewrite began_cons_same. lia.
      + rewrite began_cons_other; [lia|]. intros Heq. subst q.
        assert (Some k = Some j) by (eapply nodup_snd_tag; eassumption).
        apply Z.eqb_neq in Hjk. congruence.
    - intros p x tr HJ Hk j q Hin. fold A T in Hk. rewrite (HJ j q Hin).
      rewrite began_cons_other; [reflexivity|]. intros Heq. subst q.
      assert (None = Some j) by (eapply nodup_snd_tag; eassumption). discriminate.
    - intros j p _. reflexivity. }
  destruct Hsim as [_ Hst]. destruct (Hst Hfuel) as (_ & Htr & HJ).
  destruct (Hblocks i b Hi Hb) as (p & Hin & Hl).
  exists p. split; [exact Hin|]. split; [exact Hl|]. rewrite <- Htr. apply HJ. exact Hin.
Qed.

Theorem set_exact (XB : Type) (bumpB : cmode -> Z -> XB -> XB) (P : program E) :
  nocov_prog P = true -> NoDup (map snd (tagged_prog P)) ->
  let A := fst (annotate files MSet P) in
  let B := snd (annotate files MSet P) in
  forall n u xb,
  let rA := run cover_array cover_bump n A (mkst U cover_array u cover_empty []) in
  let rP := run XB bumpB n P (mkst U XB u xb []) in
  snd rA <> OFuel V ->
  forall i b, 1 <= i -> nth_error B (Z.to_nat (i - 1)) = Some b ->
  exists p, In (Some i, p) (tagged_prog A) /\ link files b p
            /\ cover_get (s_x _ _ (fst rA)) i = (if 0 <? began p (s_tr _ _ (fst rP)) then 1 else 0).
Proof.
  intros Hn Hnd A B n u xb rA rP Hfuel i b Hi Hb.
  destruct (tags_facts MSet P Hn Hnd) as (HndT & HndM & Hblocks & _). fold A B in HndT, HndM, Hblocks.
  set (T := tagged_prog A) in *.
  set (J := fun (x : cover_array) (tr : list pos) =>
              forall i p, In (Some i, p) T -> cover_get x i = (if 0 <? began p tr then 1 else 0)).
  set (JP := fun (k : Z) (x : cover_array) (tr : list pos) =>
               forall i p, In (Some i, p) T -> cover_get x i = if i =? k then 1 else (if 0 <? began p tr then 1 else 0)).
  assert (Hsim : rrel U V cover_array XB J JP rA rP).
  { apply (annotated_run cover_array XB cover_bump bumpB MSet J JP P Hn).
    - intros k x tr HJ j p Hin. rewrite cover_get_bump. destruct (j =? k); [reflexivity|apply HJ; exact Hin].
    - intros k p x tr HJP Hk j q Hin. fold A T in Hk. rewrite (HJP j q Hin). destruct (j =? k) eqn:Hjk.
      + apply Z.eqb_eq in Hjk. subst j.
        assert (q = p) by exact (nodup_fst_mark _ k q p HndM (proj2 (marks_in T k q) Hin) (proj2 (marks_in T k p) Hk)).
        subst q. rewrite began_cons_same. pose proof (began_nonneg p tr).
        destruct (0 <? 1 + began p tr) eqn:Hlt; [reflexivity|apply Z.ltb_ge in Hlt; lia].
      + rewrite began_cons_other; [reflexivity|]. intros Heq. subst q.
        assert (Some k = Some j) by (eapply nodup_snd_tag; eassumption).
        apply Z.eqb_neq in Hjk. congruence.
    - intros p x tr HJ Hk j q Hin. fold A T in Hk. rewrite (HJ j q Hin).
      rewrite began_cons_other; [reflexivity|]. intros Heq. subst q.
      assert (None = Some j) by (eapply nodup_snd_tag; eassumption). discriminate.
    - intros j p _. reflexivity. }
  destruct Hsim as [_ Hst]. destruct (Hst Hfuel) as (_ & Htr & HJ).
  destruct (Hblocks i b Hi Hb) as (p & Hin & Hl).
  exists p. split; [exact Hin|]. split; [exact Hl|]. rewrite <- Htr. apply HJ. exact Hin.
Qed.

End Main.

(* ---- the full statement (no guard on the shape of action bodies or END blocks) ---- *)
Definition transparent_full_statement : Prop :=
  forall (E U K V I : Type) (ev_start : E -> U -> estep U K V) (ev_resume : K -> U -> V -> estep U K V)
    (truthy : V -> bool) (nil_v : V) (forin_init : E -> U -> I) (forin_next : E -> I -> U -> option (I * U))
    (next_record : U -> nrec U V) (print_record : U -> U * option V) (skip_file : U -> U)
    (files : ftable) (XA XB : Type) (bumpA : cmode -> Z -> XA -> XA) (bumpB : cmode -> Z -> XB -> XB)
    (mode : cmode) (P : program E),
  nocov_prog P = true ->
  forall n u x xb tr,
  let rA := run E U K V I ev_start ev_resume truthy nil_v forin_init forin_next next_record print_record skip_file
              XA bumpA n (fst (annotate files mode P)) (mkst U XA u x tr) in
  let rP := run E U K V I ev_start ev_resume truthy nil_v forin_init forin_next next_record print_record skip_file
              XB bumpB n P (mkst U XB u xb tr) in
  snd rA = snd rP
  /\ (snd rA <> OFuel V -> s_u _ _ (fst rA) = s_u _ _ (fst rP) /\ s_tr _ _ (fst rA) = s_tr _ _ (fst rP)).

Theorem transparent_full : transparent_full_statement.
Proof.
  unfold transparent_full_statement. intros. apply transparent. assumption.
Qed.

(* a toy interpreter: the state is (records left to read, lines printed so far) *)
Module Toy.
Definition U : Type := nat * nat.
Definition ev_start (_ : unit) (u : U) : estep U unit unit := EDone U unit unit u (inl tt).
Definition ev_resume (_ : unit) (u : U) (_ : unit) : estep U unit unit := EDone U unit unit u (inl tt).
Definition next_record (u : U) : nrec U unit :=
  match fst u with O => NEof U unit u | S r => NRec U unit (r, snd u) end.
Definition print_record (u : U) : U * option unit := ((fst u, S (snd u)), None).
Definition run_toy (X : Type) (bump : cmode -> Z -> X -> X) (p : program unit) (x : X) : st U X * outcome unit :=
  run unit U unit unit unit ev_start ev_resume (fun _ => true) tt (fun _ _ => tt) (fun _ _ _ => None)
      next_record print_record (fun u => u) X bump 5 p (mkst U X (2%nat, 0%nat) x []).
(* { }  : an action with an empty body *)
Definition prog_empty_action : program unit := mkprogram [] [mkaction [] (Some [])] [] [].
(* { { } } : an action whose body is one empty block *)
Definition prog_block_action : program unit :=
  mkprogram [] [mkaction [] (Some [SBlock (mkpos 1 3) (mkpos 1 7) []])] [] [].
(* END { { } } with no rules: the input is read (records left goes from 2 to 0) *)
Definition prog_end_blocks : program unit :=
  mkprogram [] [] [[SBlock (mkpos 1 7) (mkpos 1 11) []]] [].
End Toy.

(* formerly F-C18-1 (fixed): {} prints nothing plainly and nothing when annotated (the body
   stays a present, empty list; before the fix it came back nil and every record was printed) *)
Lemma toy_empty_action :
  snd (Toy.run_toy unit (fun _ _ x => x) Toy.prog_empty_action tt) = ONormal unit /\
  s_u _ _ (fst (Toy.run_toy unit (fun _ _ x => x) Toy.prog_empty_action tt)) = (0%nat, 0%nat) /\
  s_u _ _ (fst (Toy.run_toy cover_array cover_bump (fst (annotate [] MSet Toy.prog_empty_action)) cover_empty)) = (0%nat, 0%nat)
  /\ p_actions (fst (annotate [] MSet Toy.prog_empty_action)) = [mkaction [] (Some [])].
Proof. vm_compute. repeat split. Qed.

(* formerly F-C18-3 (fixed in the compiler): { { } } gets a Nop and prints nothing, plainly and annotated *)
Lemma toy_block_action :
  s_u _ _ (fst (Toy.run_toy unit (fun _ _ x => x) Toy.prog_block_action tt)) = (0%nat, 0%nat) /\
  s_u _ _ (fst (Toy.run_toy cover_array cover_bump (fst (annotate [] MSet Toy.prog_block_action)) cover_empty)) = (0%nat, 0%nat).
Proof. vm_compute. repeat split. Qed.

Lemma toy_end_blocks :
  s_u _ _ (fst (Toy.run_toy unit (fun _ _ x => x) Toy.prog_end_blocks tt)) = (0%nat, 0%nat) /\
  s_u _ _ (fst (Toy.run_toy cover_array cover_bump (fst (annotate [] MSet Toy.prog_end_blocks)) cover_empty)) = (0%nat, 0%nat).
Proof. vm_compute. repeat split. Qed.
