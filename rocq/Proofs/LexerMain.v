(* C03 proofs, part 4: the statements about scan_all (totality, positions), the refutation of
   the unguarded statement on the pinned tree, and showSourceLine. *)
From Verif Require Import Lib.Base Lib.Utf8 Model.Lexer Proofs.LexerPos Proofs.LexerScan Proofs.LexerTokens.
From Coq Require Import ZifyBool.
Open Scope Z_scope.

(* ---- the claim about one reported token ------------------------------------------------- *)
(* a token that is not ILLEGAL is reported at the line/column of the offset where it starts;
   an ILLEGAL token is reported at the line/column of some offset 0..len of the source *)
Definition token_claim (src : bytes) (t : token) : Prop :=
  (tkind t <> T_ILLEGAL -> tpos t = pos_of_offset src (tstart t) /\ 0 <= tstart t <= zlen src) /\
  (tkind t = T_ILLEGAL -> exists k, 0 <= k <= zlen src /\ tpos t = pos_of_offset src k).

(* the guard: no earlier un-read crossed a line end (tbad), and, for ILLEGAL, next() was not
   called again after the end of input had been loaded (tover) *)
Definition token_guard (t : token) : Prop :=
  tbad t = false /\ (tkind t = T_ILLEGAL -> tover t = false).

Lemma tok_ok_claim src t : tok_ok src t -> token_guard t -> token_claim src t.
Proof.
  intros Hok (Hb & Ho). destruct (Hok Hb) as (H1 & H2). split; [exact H1|].
  intros Hk. apply H2; auto.
Qed.

Lemma new_lexer_norm src c s :
  src = c :: s -> okr (fun l => NormInv src l /\ xl l = false) (new_lexer src).
Proof.
  intros ->. unfold new_lexer, next. cbn [offset ch npos lpos hadSpace lastTok xl over].
  assert (Hlen : zlen (c :: s) >= 1) by (rewrite zlen_cons; pose proof (zlen_nonneg s); lia).
  replace (0 >=? zlen (c :: s)) with false by lia.
  assert (Hi : index (c :: s) 0 = Ok c).
  { unfold index. replace ((0 <=? 0) && (0 <? zlen (c :: s))) with true by lia. reflexivity. }
  rewrite Hi. cbn [of_res lbind]. apply okr_ret. split; [|reflexivity].
  split; [|intros H; discriminate H].
  split; [|split].
  - split; cbn [offset ch]; [lia|]. symmetry. apply getch_index. exact Hi.
  - cbn [offset]. lia.
  - intros _. unfold Norm. cbn [offset lpos npos ch]. splits; [lia|reflexivity|reflexivity].
Qed.

Theorem scan_all_spec src ds :
  okr (fun os => all_ok src os /\ ends_final os /\ first_bad os false /\ explained src False os /\ over_ok src os)
      (scan_all src ds).
Proof.
  destruct src as [|c s] eqn:Esrc.
  - (* the empty source: one EOF token at 1:1 *)
    cbv [scan_all new_lexer next lbind lex_fuel length scan_loop Scan scan set_had_space skip_ws
         offset ch lpos npos hadSpace lastTok xl over zlen Z.of_nat Z.geb Z.compare Z.eqb orb andb negb
         tok_at is_final tkind fst snd set_last_tok T_EOF T_ILLEGAL Pos.eqb Z.gtb].
    apply okr_ret. splits.
    + constructor; [|constructor]. intros _. cbn. split.
      * intros _. split; [reflexivity|lia].
      * intros H; discriminate H.
    + eexists [], _. splits; [reflexivity|reflexivity|constructor].
    + reflexivity.
    + cbn. split; [intros H; discriminate H|exact I].
    + constructor; [intros H; discriminate H|constructor].
  - rewrite <- Esrc. unfold scan_all.
    eapply okr_bind; [apply (new_lexer_norm src c s Esrc)|].
    intros l (Hn & Hx).
    eapply okr_weaken; [apply (scan_loop_spec src _ ds l Hn (lex_fuel_enough src l Hn))|].
    intros os (H1 & H2 & H3 & H4 & H5). rewrite Hx in H3. splits; try assumption.
    apply (explained_weaken src os (xl l = true)); [rewrite Hx; intros K; discriminate K|exact H4].
Qed.

(* totality: the model lexer never panics, never runs out of fuel, and stops at EOF or ILLEGAL *)
Theorem lexer_total src ds : exists os, scan_all src ds = LOk os /\ ends_final os.
Proof.
  destruct (scan_all_spec src ds) as (os & E & _ & H & _). eauto.
Qed.

Theorem lexer_positions_guarded src ds os :
  scan_all src ds = LOk os ->
  forall o, In o os -> token_guard (otok o) -> token_claim src (otok o).
Proof.
  intros E o Hin Hg. destruct (scan_all_spec src ds) as (os' & E' & Hall & _).
  rewrite E in E'. injection E' as <-.
  unfold all_ok in Hall. rewrite Forall_forall in Hall.
  apply tok_ok_claim; auto.
Qed.

(* the first token is never affected: the guard is not vacuous *)
Theorem first_token_unaffected src ds os :
  scan_all src ds = LOk os -> exists o rest, os = o :: rest /\ tbad (otok o) = false.
Proof.
  intros E. destruct (scan_all_spec src ds) as (os' & E' & _ & _ & Hf & _ & _).
  rewrite E in E'. injection E' as <-. destruct os as [|o rest]; [contradiction|]. eauto.
Qed.

(* ---- what the flag tbad means in terms of the source -------------------------------------- *)
Lemma explained_split src pre : forall (S : Prop) o post,
  explained src S (pre ++ o :: post) -> tbad (otok o) = true ->
  S \/ exists n, In n pre /\ cause src (otok n).
Proof.
  induction pre as [|p pre IH]; intros S o post; cbn [app explained].
  - intros (H & _) Hb. left; auto.
  - intros (_ & H) Hb. destruct (IH _ o post H Hb) as [[HS|Hc]|(n & Hin & Hc)].
    + left; exact HS.
    + right. exists p. split; [left; reflexivity|exact Hc].
    + right. exists n. split; [right; exact Hin|exact Hc].
Qed.

(* a token is flagged only if an EARLIER token is a NUMBER directly followed, in the source, by
   e/E, an optional sign, and CR or LF *)
Theorem bad_has_cause src ds os pre o post :
  scan_all src ds = LOk os -> os = pre ++ o :: post -> tbad (otok o) = true ->
  exists n, In n pre /\ cause src (otok n).
Proof.
  intros E -> Hb. destruct (scan_all_spec src ds) as (os' & E' & _ & _ & _ & Hex & _).
  rewrite E in E'. injection E' as <-.
  destruct (explained_split src pre False o post Hex Hb) as [[]|H]. exact H.
Qed.

(* hence a purely textual guard: a source in which no e/E is followed, directly or after one
   sign, by CR or LF is lexed without any flagged token *)
Definition no_dangling_eol (src : bytes) : Prop := forall j, ~ dangling_eol src j.

Theorem no_dangling_no_bad src ds os :
  no_dangling_eol src -> scan_all src ds = LOk os -> forall o, In o os -> tbad (otok o) = false.
Proof.
  intros Hnd E o Hin. destruct (tbad (otok o)) eqn:Hb; [exfalso|reflexivity].
  destruct (in_split _ _ Hin) as (pre & post & Eos).
  destruct (bad_has_cause src ds os pre o post E Eos Hb) as (n & _ & (_ & Hd)).
  exact (Hnd _ Hd).
Qed.

Theorem lexer_positions_textual_guard src ds os :
  no_dangling_eol src -> scan_all src ds = LOk os ->
  forall o, In o os -> tkind (otok o) <> T_ILLEGAL ->
  tpos (otok o) = pos_of_offset src (tstart (otok o)) /\ 0 <= tstart (otok o) <= zlen src.
Proof.
  intros Hnd E o Hin Hk.
  destruct (lexer_positions_guarded src ds os E o Hin) as (H & _).
  - split; [eapply no_dangling_no_bad; eauto|intros; contradiction].
  - exact (H Hk).
Qed.

(* the flag tover is raised only if the last byte of the source is a backslash *)
Theorem over_has_cause src ds os :
  scan_all src ds = LOk os -> forall o, In o os -> tover (otok o) = true ->
  getch src (zlen src - 1) = 92.
Proof.
  intros E o Hin Ho. destruct (scan_all_spec src ds) as (os' & E' & _ & _ & _ & _ & Hov).
  rewrite E in E'. injection E' as <-. unfold over_ok in Hov. rewrite Forall_forall in Hov.
  exact (Hov o Hin Ho).
Qed.

(* both guards in terms of the source text only *)
Theorem lexer_positions_textual src ds os :
  no_dangling_eol src -> getch src (zlen src - 1) <> 92 -> scan_all src ds = LOk os ->
  forall o, In o os -> token_claim src (otok o).
Proof.
  intros Hnd Hbs E o Hin. apply (lexer_positions_guarded src ds os E o Hin). split.
  - eapply no_dangling_no_bad; eauto.
  - intros _. destruct (tover (otok o)) eqn:Ho; [|reflexivity].
    exfalso. apply Hbs. exact (over_has_cause src ds os E o Hin Ho).
Qed.

(* ---- the unguarded statement and its refutation on the pinned tree ---------------------- *)
Definition lexer_positions_statement : Prop :=
  forall src ds os, scan_all src ds = LOk os -> forall o, In o os -> token_claim src (otok o).

Lemma pos_pair_neq (a b c d : Z) : (a =? c) && (b =? d) = false -> (a, b) <> (c, d).
Proof. intros H E. injection E as -> ->. rewrite !Z.eqb_refl in H. discriminate. Qed.

(* source 1 e LF: NUMBER at 1:1, NAME at 1:2, then NEWLINE reported at 2:0 (true: 1:3) *)
Theorem lexer_positions_refuted : ~ lexer_positions_statement.
Proof.
  intros H.
  pose (src := [49; 101; 10]).
  destruct (scan_all src []) as [os| |] eqn:E; [|vm_compute in E; discriminate E|vm_compute in E; discriminate E].
  specialize (H src [] os E).
  vm_compute in E. injection E as <-.
  match type of H with forall o, In o (_ :: _ :: ?o3 :: _) -> _ =>
    specialize (H o3 (or_intror (or_intror (or_introl eq_refl)))) end.
  destruct H as (H & _). cbn [otok tkind tpos tstart] in H.
  destruct H as (Hp & _); [intros K; discriminate K|].
  vm_compute in Hp. discriminate Hp.
Qed.

(* source of two bytes, a double quote and a backslash: the ILLEGAL token is reported at 1:4; the source has the
   offsets 0..2, i.e. the positions 1:1 .. 1:3 *)
Theorem illegal_position_refuted :
  exists src os o, scan_all src [] = LOk os /\ In o os /\ tbad (otok o) = false /\
    tkind (otok o) = T_ILLEGAL /\ ~ (exists k, 0 <= k <= zlen src /\ tpos (otok o) = pos_of_offset src k).
Proof.
  exists [34; 92].
  destruct (scan_all [34; 92] []) as [os| |] eqn:E; [|vm_compute in E; discriminate E|vm_compute in E; discriminate E].
  exists os. vm_compute in E. injection E as <-.
  eexists. split; [reflexivity|]. split; [left; reflexivity|]. split; [reflexivity|]. split; [reflexivity|].
  cbn [otok tpos]. intros (k & Hk & Hp). change (zlen [34; 92]) with 2 in Hk.
  assert (Hcases : k = 0 \/ k = 1 \/ k = 2) by lia.
  destruct Hcases as [->|[->| ->]]; vm_compute in Hp; discriminate Hp.
Qed.

(* ---- consequences for the CLI's source-line display ---------------------------------------- *)
From Verif Require Import Proofs.LexerShow.

Theorem guarded_positions_showable src ds os :
  scan_all src ds = LOk os ->
  forall o, In o os -> token_guard (otok o) ->
  valid_pos src (tpos (otok o)) /\ exists r, show_source_line src (tpos (otok o)) = Ok r.
Proof.
  intros E o Hin Hg.
  destruct (lexer_positions_guarded src ds os E o Hin Hg) as (H1 & H2).
  assert (Hk : exists k, 0 <= k <= zlen src /\ tpos (otok o) = pos_of_offset src k).
  { destruct (Z.eq_dec (tkind (otok o)) T_ILLEGAL) as [Ek|Ek].
    - apply H2; exact Ek.
    - destruct (H1 Ek) as (Hp & Hr). eauto. }
  destruct Hk as (k & Hk & ->).
  destruct (show_source_line_ok src k Hk) as (line & Hs & Hv). split; [exact Hv|eauto].
Qed.

(* source 1 e + LF: the NEWLINE token is reported at 2:0, and showSourceLine's srcLine[:pos.Column-1]
   is a slice [:-1] *)
Theorem show_source_line_refuted :
  exists src os o, scan_all src [] = LOk os /\ In o os /\ show_source_line src (tpos (otok o)) = Panic.
Proof.
  exists [49; 101; 43; 10].
  destruct (scan_all [49; 101; 43; 10] []) as [os| |] eqn:E; [|vm_compute in E; discriminate E|vm_compute in E; discriminate E].
  exists os. vm_compute in E. injection E as <-.
  eexists. split; [reflexivity|]. split; [right; right; right; left; reflexivity|].
  vm_compute. reflexivity.
Qed.
