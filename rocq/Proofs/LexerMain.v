(* C03 proofs, part 4: the statements about scan_all (totality, positions) and showSourceLine. *)
From Verif Require Import Lib.Base Lib.Utf8 Model.Lexer Proofs.LexerPos Proofs.LexerScan Proofs.LexerTokens.
From Coq Require Import ZifyBool.
Open Scope Z_scope.

(* ---- the claim about one reported token ------------------------------------------------- *)
(* a token that is not ILLEGAL is reported at the line/column of the offset where it starts;
   an ILLEGAL token is reported at the line/column of some offset 0..len of the source *)
Definition token_claim (src : bytes) (t : token) : Prop :=
  (tkind t <> T_ILLEGAL -> tpos t = pos_of_offset src (tstart t) /\ 0 <= tstart t <= zlen src) /\
  (tkind t = T_ILLEGAL -> exists k, 0 <= k <= zlen src /\ tpos t = pos_of_offset src k).

Lemma new_lexer_norm src c s :
  src = c :: s -> okr (fun l => NormInv src l) (new_lexer src).
Proof.
  intros ->. unfold new_lexer, next. cbn [offset ch npos lpos hadSpace lastTok].
  assert (Hlen : zlen (c :: s) >= 1) by (rewrite zlen_cons; pose proof (zlen_nonneg s); lia).
  replace (0 >=? zlen (c :: s)) with false by lia.
  assert (Hi : index (c :: s) 0 = Ok c).
  { unfold index. replace ((0 <=? 0) && (0 <? zlen (c :: s))) with true by lia. reflexivity. }
  rewrite Hi. cbn [of_res lbind]. apply okr_ret.
  split.
  - split; cbn [offset ch]; [lia|]. symmetry. apply getch_index. exact Hi.
  - unfold Norm. cbn [offset lpos npos ch]. splits; [lia|reflexivity|].
    change (0 + 1) with (0 + 1). rewrite (pos_of_offset_step _ 0 c Hi). reflexivity.
Qed.

Theorem scan_all_spec src ds :
  okr (fun os => all_ok src os /\ ends_final os) (scan_all src ds).
Proof.
  destruct src as [|c s] eqn:Esrc.
  - (* the empty source: one EOF token at 1:1 *)
    cbv [scan_all new_lexer next lbind lex_fuel length scan_loop Scan scan set_had_space skip_ws
         offset ch lpos npos hadSpace lastTok zlen Z.of_nat Z.geb Z.compare Z.eqb orb andb negb
         tok_at is_final tkind fst snd set_last_tok T_EOF T_ILLEGAL Pos.eqb Z.gtb].
    apply okr_ret. split.
    + constructor; [|constructor]. cbn. split.
      * intros _. cbn [tpos tstart]. split; [reflexivity|]. change (zlen (@nil Z)) with 0. lia.
      * intros H; discriminate H.
    + eexists [], _. splits; [reflexivity|reflexivity|constructor].
  - rewrite <- Esrc. unfold scan_all.
    eapply okr_bind; [apply (new_lexer_norm src c s Esrc)|].
    intros l Hn.
    apply (scan_loop_spec src _ ds l Hn (lex_fuel_enough src l Hn)).
Qed.

(* totality: the model lexer never panics, never runs out of fuel, and stops at EOF or ILLEGAL *)
Theorem lexer_total src ds : exists os, scan_all src ds = LOk os /\ ends_final os.
Proof.
  destruct (scan_all_spec src ds) as (os & E & _ & H). eauto.
Qed.

(* every reported position is the true one *)
Theorem lexer_positions src ds os :
  scan_all src ds = LOk os -> forall o, In o os -> token_claim src (otok o).
Proof.
  intros E o Hin. destruct (scan_all_spec src ds) as (os' & E' & Hall & _).
  rewrite E in E'. injection E' as <-.
  unfold all_ok in Hall. rewrite Forall_forall in Hall. exact (Hall o Hin).
Qed.

(* ---- consequences for the CLI's source-line display ---------------------------------------- *)
From Verif Require Import Proofs.LexerShow.

Theorem reported_positions_showable src ds os :
  scan_all src ds = LOk os ->
  forall o, In o os ->
  valid_pos src (tpos (otok o)) /\ exists r, show_source_line src (tpos (otok o)) = Ok r.
Proof.
  intros E o Hin.
  destruct (lexer_positions src ds os E o Hin) as (H1 & H2).
  assert (Hk : exists k, 0 <= k <= zlen src /\ tpos (otok o) = pos_of_offset src k).
  { destruct (Z.eq_dec (tkind (otok o)) T_ILLEGAL) as [Ek|Ek].
    - apply H2; exact Ek.
    - destruct (H1 Ek) as (Hp & Hr). eauto. }
  destruct Hk as (k & Hk & ->).
  destruct (show_source_line_ok src k Hk) as (line & Hs & Hv). split; [exact Hv|eauto].
Qed.
