(* C05: where input text enters through the RECORD: the typing of a field depends only on the
   record it was read from and on what was assigned since that record arrived - never on
   earlier records.  Stated over the model of interp.go's record machinery (Model/Fields.v:
   setLine, ensureFields, getField, setField, NF assignment; p.fieldsIsTrueStr is
   [fields_true]) for ANY state the earlier history may have left behind, and joined with
   the typing rules of Model/Value.v. *)
From Verif Require Import Lib.Base Lib.Dyadic Lib.Utf8 Lib.Regex Model.Value Model.Fields Proofs.ValueCmp.

(* the AWK value getField pushes: str(text) when the flag is set, numStr(text) otherwise *)
Definition field_value (f : bytes) (is_true_str : bool) : Value.value :=
  if is_true_str then VStr f else VNumStr f.

Section AnyEngine.
Variable rx : Type.
Variable all_matches : rx -> bytes -> list (Z * Z).

Notation get_field := (get_field rx all_matches).
Notation ensure_fields := (ensure_fields rx all_matches).

Lemma index_map_const {A} (l : list A) (b : bool) j x :
  index (map (fun _ => b) l) j = Ok x -> x = b.
Proof.
  unfold index. destruct ((0 <=? j) && (j <? zlen (map (fun _ : A => b) l))); [|discriminate].
  destruct (nth_error (map (fun _ : A => b) l) (Z.to_nat j)) as [y|] eqn:E; [|discriminate].
  intro H. injection H as <-. apply nth_error_In in E. apply in_map_iff in E as [a [Ha _]]. congruence.
Qed.

(* a record arrives (main loop, plain getline: setLine(t, false)), in whatever state s the
   earlier records and assignments left the interpreter: $0 and every existing field of the
   new record are numeric-string candidates; only a position beyond NF reads as the string "" *)
Lemma fresh_record_flags (s : state rx) t k s1 f b :
  get_field (set_line rx s t false) k = Ok (s1, f, b) ->
  b = false \/ (k <> 0 /\ f = [] /\ b = true /\
                (let n := zlen (fields rx s1) in let j := if k <? 1 then n + 1 + k else k in j < 1 \/ j > n)).
Proof.
  unfold Fields.get_field.
  destruct (k =? 0) eqn:Ek.
  - intro H. injection H as _ _ <-. left. reflexivity.
  - unfold Fields.ensure_fields. cbn [have set_line].
    destruct (split_record rx all_matches _ _ _ _ _) as [fl| | |]; cbn [rbind]; try discriminate.
    cbn [fields fields_true].
    set (n := zlen fl). set (j := if k <? 1 then n + 1 + k else k).
    destruct (j <? 1) eqn:E1.
    + intro H. injection H as <- <- <-. right. apply Z.eqb_neq in Ek.
      repeat split; auto. cbn [fields]. fold n. fold j. left. lia.
    + destruct (j >? n) eqn:E2.
      * intro H. injection H as <- <- <-. right. apply Z.eqb_neq in Ek.
        repeat split; auto. cbn [fields]. fold n. fold j. right. lia.
      * destruct (index (map (fun _ => false) fl) (j - 1)) as [t0| | |] eqn:Ei; cbn [rbind]; try discriminate.
        destruct (index fl (j - 1)) as [f0| | |]; cbn [rbind]; try discriminate.
        intro H. injection H as _ _ <-. left. exact (index_map_const fl false (j - 1) t0 Ei).
Qed.

(* independence of history: two interpreters that agree on the settings the split depends on
   (FS, its regex, RS, input mode) see the same text and the same typing for every field of a
   record t, whatever records and assignments came before in either of them *)
Lemma fresh_record_independent (s s' : state rx) t k :
  fs rx s = fs rx s' -> fs_re rx s = fs_re rx s' -> rs rx s = rs rx s' -> inmode rx s = inmode rx s' ->
  match get_field (set_line rx s t false) k, get_field (set_line rx s' t false) k with
  | Ok (_, f, b), Ok (_, f', b') => f = f' /\ b = b'
  | Err m, Err m' => m = m'
  | Panic, Panic => True
  | Unmod, Unmod => True
  | _, _ => False
  end.
Proof.
  intros H1 H2 H3 H4. unfold Fields.get_field.
  destruct (k =? 0); [cbn [line line_true set_line]; split; reflexivity|].
  unfold Fields.ensure_fields. cbn [have set_line saved_fs saved_re saved_rs saved_inmode line].
  rewrite <- H1, <- H2, <- H3, <- H4.
  destruct (split_record rx all_matches _ _ _ _ _) as [fl|m| |]; cbn [rbind]; auto.
  cbn [fields fields_true].
  destruct ((if k <? 1 then zlen fl + 1 + k else k) <? 1); [split; reflexivity|].
  destruct ((if k <? 1 then zlen fl + 1 + k else k) >? zlen fl); [split; reflexivity|].
  destruct (index (map (fun _ => false) fl) _) as [t0|m| |]; cbn [rbind]; auto.
  destruct (index fl _) as [f0|m| |]; cbn [rbind]; auto.
Qed.

(* the same after "$0 = t" (setField(0, t) = setLine(t, true)): the fields are re-split and are
   numeric-string candidates again; $0 itself is a string *)
Lemma assigned_record_flags (s : state rx) t k s0 s1 f b :
  set_field rx all_matches s 0 t = Ok s0 -> get_field s0 k = Ok (s1, f, b) ->
  (k = 0 /\ b = true) \/ b = false \/ (k <> 0 /\ f = [] /\ b = true).
Proof.
  unfold Fields.set_field. cbn [Z.eqb]. intro H. injection H as <-.
  unfold Fields.get_field. destruct (k =? 0) eqn:Ek.
  - intro H. injection H as _ _ <-. left. split; [apply Z.eqb_eq; exact Ek|reflexivity].
  - unfold Fields.ensure_fields. cbn [have set_line].
    destruct (split_record rx all_matches _ _ _ _ _) as [fl| | |]; cbn [rbind]; try discriminate.
    cbn [fields fields_true]. apply Z.eqb_neq in Ek.
    destruct (_ <? 1); [intro H; injection H as _ <- <-; right; right; auto|].
    destruct (_ >? _); [intro H; injection H as _ <- <-; right; right; auto|].
    destruct (index (map (fun _ => false) fl) _) as [t0| | |] eqn:Ei; cbn [rbind]; try discriminate.
    destruct (index fl _) as [f0| | |]; cbn [rbind]; try discriminate.
    intro H. injection H as _ _ <-. right; left. exact (index_map_const fl false _ t0 Ei).
Qed.

(* joined with the typing rules: a field of a freshly read record takes part in a comparison as
   a number exactly when parseFloat accepts its text (i.e., by C05_numeric_text_accepted /
   C05_accepted_is_numeric, when it is in the AWK numeric grammar between ASCII blanks) -
   whatever came before *)
Lemma fresh_field_numeric_iff (s : state rx) t k s1 f b :
  get_field (set_line rx s t false) k = Ok (s1, f, b) ->
  (exists x, numeric_operand (field_value f b) = Some x) <-> (exists x, parse_float f = PFOk x).
Proof.
  intro H. destruct (fresh_record_flags s t k s1 f b H) as [-> | [_ [-> [-> _]]]]; unfold field_value.
  - cbn [numeric_operand]. destruct (parse_float f) as [x| |]; split; intros [y Hy]; try discriminate; eauto.
  - cbn [numeric_operand]. split; intros [y Hy]; [discriminate|]. vm_compute in Hy. discriminate.
Qed.

End AnyEngine.

(* executable glue for the correspondence check (Lib/Regex.v as the engine) *)
Definition xfield (s : xstate) (k : Z) : res (xstate * Value.value) :=
  do (s1, f, b) <- Fields.get_field re Regex.all_matches s k; Ok (s1, field_value f b).
Definition xset_field (s : xstate) (k : Z) (t : bytes) : res xstate := Fields.set_field re Regex.all_matches s k t.
Definition xset_field_self (s : xstate) (k : Z) : res xstate :=
  do (s1, f, _) <- Fields.get_field re Regex.all_matches s k; Fields.set_field re Regex.all_matches s1 k f.
Definition xset_nf (s : xstate) (n : Z) : res xstate :=
  Fields.set_nf re Regex.all_matches s (count_value n).
Definition xread (s : xstate) (t : bytes) : xstate := Fields.set_line re s t false.
Definition xset_fs1 (s : xstate) (f : bytes) : res xstate := Fields.set_fs re s f None.
