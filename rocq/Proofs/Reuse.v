(* C14, layer (b): a reused Interpreter, prepared for its next run, is in the same observable state as a new
   one -- for EVERY state the earlier runs may have left behind.

   A run (executeAll) is an ARBITRARY state transformer, constrained only by the frame computed from the
   generated table: it changes no field outside Model/Reuse.run_mutable (= Gen/InterpFields.may_run plus the
   objects changed through a method), and it never resizes `globals` or the global part of `arrays`.
   The Vars loop of setExecuteConfig is an arbitrary transformer too, constrained by a frame and by
   non-interference (its effect on a set of fields containing what it reads depends only on those fields).

   The proof is an agreement (information-flow) analysis of the step list Model/Reuse.setExecuteConfig_steps,
   proved sound once and then run by computation on the concrete tables. *)
From Coq Require Import String List ZArith Bool Lia.
From Verif Require Import Lib.Base Gen.InterpFields Model.Reuse Proofs.ReuseTable.
Import ListNotations.
Open Scope string_scope.

(* ---------- basics ---------- *)
Definition agree (A : list field) (s1 s2 : state) : Prop := forall f, In f A -> s1 f = s2 f.

Lemma upd_eq f v s : upd f v s f = v.
Proof. unfold upd. rewrite String.eqb_refl. reflexivity. Qed.

Lemma upd_neq f g v s : g <> f -> upd f v s g = s g.
Proof. intros H. unfold upd. destruct (String.eqb g f) eqn:E; [apply String.eqb_eq in E; contradiction | reflexivity]. Qed.

Lemma mem_In f l : mem f l = true <-> In f l.
Proof.
  unfold mem. rewrite existsb_exists. split.
  - intros [x [Hin Hx]]. apply String.eqb_eq in Hx. subst. exact Hin.
  - intros H. exists f. split; [exact H | apply String.eqb_refl].
Qed.

Lemma mem_false f l : mem f l = false -> ~ In f l.
Proof. intros H Hin. apply mem_In in Hin. congruence. Qed.

Lemma subset_incl a b : subset a b = true -> incl a b.
Proof.
  unfold subset. rewrite forallb_forall. intros H x Hx. apply mem_In. apply H. exact Hx.
Qed.

Lemma agree_incl A B s1 s2 : incl B A -> agree A s1 s2 -> agree B s1 s2.
Proof. intros Hi Ha f Hf. apply Ha. apply Hi. exact Hf. Qed.

Lemma agree_map A reads s1 s2 : incl reads A -> agree A s1 s2 -> map s1 reads = map s2 reads.
Proof. intros Hi Ha. apply map_ext_in. intros f Hf. apply Ha. apply Hi. exact Hf. Qed.

Lemma agree_upd A f v s1 s2 : agree A s1 s2 -> agree (f :: A) (upd f v s1) (upd f v s2).
Proof.
  intros Ha g Hg. destruct (string_dec g f) as [->|Hne].
  - rewrite !upd_eq. reflexivity.
  - rewrite !upd_neq by exact Hne. destruct Hg as [Hg|Hg]; [congruence | apply Ha; exact Hg].
Qed.

Lemma agree_upd_drop A f v1 v2 s1 s2 :
  agree A s1 s2 -> agree (remove string_dec f A) (upd f v1 s1) (upd f v2 s2).
Proof.
  intros Ha g Hg. apply in_remove in Hg. destruct Hg as [Hg Hne].
  rewrite !upd_neq by exact Hne. apply Ha. exact Hg.
Qed.

Lemma set_all_other l : forall s f, ~ In f (map fst l) -> set_all l s f = s f.
Proof.
  unfold set_all. induction l as [|[k v] r IH]; intros s f Hn; simpl in *.
  - reflexivity.
  - rewrite IH by tauto. apply upd_neq. intros ->. tauto.
Qed.

Lemma agree_set_all l : forall A s1 s2,
  agree A s1 s2 -> agree (rev (map fst l) ++ A) (set_all l s1) (set_all l s2).
Proof.
  unfold set_all. induction l as [|[k v] r IH]; intros A s1 s2 Ha; simpl.
  - exact Ha.
  - eapply agree_incl; [| apply (IH (k :: A)); apply agree_upd; exact Ha].
    intros f Hf. rewrite <- app_assoc in Hf. simpl in Hf. exact Hf.
Qed.

(* ---------- the agreement analysis of a step list ---------- *)

(* what the Vars loop (setVarByName, setSpecial, ensureFields, joinFields) reads, caches aside.
   ensureFields also looks at savedInputMode / savedCSVInputConfig (role LineShadow); they are left out: inside
   the Vars loop the record is still the empty one resetCore installed (nothing there calls setLine), and the
   empty record has no fields whatever those two say. *)
Definition SV_READS : list field :=
  [ "scalarIndexes"; "globals"; "convertFormat"; "line"; "lineIsTrueStr"; "fields"; "fieldsIsTrueStr";
    "haveFields"; "numFields"; "inputMode"; "csvInputConfig"; "outputMode"; "csvOutputConfig";
    "savedFieldSep"; "savedFieldSepRegex"; "recordSep"; "savedRecordSep"; "outputFieldSep" ].

Fixpoint flow (l : list step) (A : list field) : option (list field) :=
  match l with
  | [] => Some A
  | SSet f reads _ :: r =>
      if String.eqb f "nativeFuncs" then None
      else flow r (if subset reads A then f :: A else remove string_dec f A)
  | SCheck reads _ :: r => if subset reads A then flow r A else None
  | SInitOnce f _ :: r => if String.eqb f "nativeFuncs" then flow r (f :: A) else None
  | SVars :: r => if subset SV_READS A then flow r A else None
  end.

Fixpoint once_fn_ok (c : config) (F : val) (l : list step) : Prop :=
  match l with
  | [] => True
  | SInitOnce _ fn :: r => fn c = F /\ once_fn_ok c F r
  | _ :: r => once_fn_ok c F r
  end.

Definition once_ok (F : val) (s : state) : Prop := s "nativeFuncs" = VNil \/ s "nativeFuncs" = F.

Definition sv_noninterference (sv : setvars) : Prop :=
  forall vars A s1 s2, incl SV_READS A -> agree A s1 s2 ->
    snd (sv vars s1) = snd (sv vars s2) /\ agree A (fst (sv vars s1)) (fst (sv vars s2)).

(* running the analysis by computation: the boolean form and what it gives *)
Lemma flow_covers_b l A O :
  match flow l A with Some B => subset O B | None => false end = true ->
  exists B, flow l A = Some B /\ incl O B.
Proof.
  destruct (flow l A) as [B|]; [|discriminate]. intros H. exists B. split; [reflexivity | apply subset_incl; exact H].
Qed.

Section Flow.
  Variable sv : setvars.
  Variable e : envt.
  Variable c : config.
  Variable F : val.
  Hypothesis sv_ni : sv_noninterference sv.
  Hypothesis sv_nf : forall vars s, fst (sv vars s) "nativeFuncs" = s "nativeFuncs".

  Lemma flow_sound : forall l A B s1 s2,
    once_fn_ok c F l -> flow l A = Some B -> agree A s1 s2 -> once_ok F s1 -> once_ok F s2 ->
    snd (run_steps sv e c l s1) = snd (run_steps sv e c l s2) /\
    (snd (run_steps sv e c l s1) = None ->
     agree B (fst (run_steps sv e c l s1)) (fst (run_steps sv e c l s2))).
  Proof.
    induction l as [|st r IH]; intros A B s1 s2 Hfn Hfl Ha Ho1 Ho2.
    - simpl in *. inversion Hfl; subst. split; [reflexivity | intros _; exact Ha].
    - destruct st as [f reads fn | reads chk | f fn | ]; cbn [flow once_fn_ok run_steps] in Hfl, Hfn |- *.
      + (* SSet *)
        destruct (String.eqb f "nativeFuncs") eqn:Ef; [discriminate|].
        assert (Hne : "nativeFuncs" <> f) by (intros <-; rewrite String.eqb_refl in Ef; discriminate).
        destruct (subset reads A) eqn:Es.
        * apply subset_incl in Es. rewrite (agree_map A reads s1 s2 Es Ha).
          eapply IH; [exact Hfn | exact Hfl | apply agree_upd; exact Ha | |];
            unfold once_ok; rewrite upd_neq by exact Hne; assumption.
        * eapply IH; [exact Hfn | exact Hfl | apply agree_upd_drop; exact Ha | |];
            unfold once_ok; rewrite upd_neq by exact Hne; assumption.
      + (* SCheck *)
        destruct (subset reads A) eqn:Es; [|discriminate].
        apply subset_incl in Es. rewrite (agree_map A reads s1 s2 Es Ha).
        destruct (chk c (map s2 reads)) as [err|].
        * simpl. split; [reflexivity | discriminate].
        * eapply IH; eassumption.
      + (* SInitOnce *)
        destruct (String.eqb f "nativeFuncs") eqn:Ef; [|discriminate].
        apply String.eqb_eq in Ef. subst f. destruct Hfn as [HF Hfn].
        set (t1 := if val_is_nil (s1 "nativeFuncs") then upd "nativeFuncs" (fn c) s1 else s1).
        set (t2 := if val_is_nil (s2 "nativeFuncs") then upd "nativeFuncs" (fn c) s2 else s2).
        assert (H1 : t1 "nativeFuncs" = F).
        { unfold t1. destruct Ho1 as [Hn|Hn]; rewrite Hn.
          - simpl. rewrite upd_eq. exact HF.
          - destruct (val_is_nil F) eqn:En; [rewrite upd_eq; exact HF | exact Hn]. }
        assert (H2 : t2 "nativeFuncs" = F).
        { unfold t2. destruct Ho2 as [Hn|Hn]; rewrite Hn.
          - simpl. rewrite upd_eq. exact HF.
          - destruct (val_is_nil F) eqn:En; [rewrite upd_eq; exact HF | exact Hn]. }
        assert (Hoth1 : forall g, g <> "nativeFuncs" -> t1 g = s1 g).
        { intros g Hg. unfold t1. destruct (val_is_nil (s1 "nativeFuncs")); [apply upd_neq; exact Hg | reflexivity]. }
        assert (Hoth2 : forall g, g <> "nativeFuncs" -> t2 g = s2 g).
        { intros g Hg. unfold t2. destruct (val_is_nil (s2 "nativeFuncs")); [apply upd_neq; exact Hg | reflexivity]. }
        eapply IH; [exact Hfn | exact Hfl | | right; exact H1 | right; exact H2].
        intros g Hg. destruct (string_dec g "nativeFuncs") as [->|Hne]; [congruence|].
        rewrite Hoth1, Hoth2 by exact Hne. destruct Hg as [Hg|Hg]; [congruence | apply Ha; exact Hg].
      + (* SVars *)
        destruct (subset SV_READS A) eqn:Es; [|discriminate].
        apply subset_incl in Es.
        destruct (sv_ni (c_vars c) A s1 s2 Es Ha) as [He Hag].
        destruct (sv (c_vars c) s1) as [t1 e1] eqn:E1. destruct (sv (c_vars c) s2) as [t2 e2] eqn:E2.
        simpl in He, Hag. subst e2.
        destruct e1 as [err|].
        * simpl. split; [reflexivity | discriminate].
        * eapply IH; [exact Hfn | exact Hfl | exact Hag | |]; unfold once_ok.
          -- replace t1 with (fst (sv (c_vars c) s1)) by (rewrite E1; reflexivity). rewrite sv_nf. exact Ho1.
          -- replace t2 with (fst (sv (c_vars c) s2)) by (rewrite E2; reflexivity). rewrite sv_nf. exact Ho2.
  Qed.

  (* Execute/ExecuteContext up to executeAll, on two states that agree on A0 *)
  Lemma prepare_sound : forall en A0 B s1 s2,
    c_funcs c = F ->
    flow setExecuteConfig_steps (rev (map fst (prologue_binds en)) ++ rev (map fst resetCore_binds) ++ A0) = Some B ->
    agree A0 s1 s2 -> once_ok F s1 -> once_ok F s2 ->
    snd (m_prepare sv e en c s1) = snd (m_prepare sv e en c s2) /\
    (snd (m_prepare sv e en c s1) = None ->
     agree B (fst (m_prepare sv e en c s1)) (fst (m_prepare sv e en c s2))).
  Proof.
    intros en A0 B s1 s2 HF Hfl Ha Ho1 Ho2.
    unfold m_prepare, m_setExecuteConfig, m_prologue, m_resetCore.
    assert (Hk : forall s, once_ok F s -> once_ok F (set_all (prologue_binds en) (set_all resetCore_binds s))).
    { intros s Ho. unfold once_ok in *. rewrite !set_all_other; [exact Ho | |].
      - vm_compute. intros H. repeat (destruct H as [H|H]; [discriminate|]). exact H.
      - destruct en; vm_compute; intros H; repeat (destruct H as [H|H]; [discriminate|]); exact H. }
    eapply flow_sound.
    - simpl. repeat split; try exact I. exact HF.
    - exact Hfl.
    - apply agree_set_all. apply agree_set_all. exact Ha.
    - apply Hk. exact Ho1.
    - apply Hk. exact Ho2.
  Qed.
End Flow.

(* ---------- shapes ---------- *)
Definition vlen (v : val) : option nat :=
  match v with VNil => Some O | VL l => Some (length l) | _ => None end.
Definition same_len (a b : val) : Prop := vlen a = vlen b /\ vlen a <> None.

Lemma vlen_vlist l : vlen (vlist l) = Some (length l).
Proof. destruct l; reflexivity. Qed.

Lemma same_len_refl v : (exists l, v = vlist l) -> same_len v v.
Proof. intros [l ->]. split; [reflexivity | rewrite vlen_vlist; discriminate]. Qed.

Lemma same_len_trans a b c : same_len a b -> same_len b c -> same_len a c.
Proof. intros [H1 H2] [H3 H4]. split; congruence. Qed.

Lemma map_const_repeat {A B} (x : B) (l : list A) : map (fun _ => x) l = repeat x (length l).
Proof. induction l; simpl; congruence. Qed.

Lemma null_all_fresh g n : same_len g (vlist (repeat v_null n)) -> null_all g = vlist (repeat v_null n).
Proof.
  intros [H _]. rewrite vlen_vlist, repeat_length in H.
  destruct g as [| | | | |l| |]; simpl in H; try discriminate; injection H as H; subst n.
  - reflexivity.
  - simpl. rewrite map_const_repeat. reflexivity.
Qed.

Lemma clear_maps_fresh g n : same_len g (vlist (repeat VNil n)) -> clear_maps g = vlist (repeat VNil n).
Proof.
  intros [H _]. rewrite vlen_vlist, repeat_length in H.
  destruct g as [| | | | |l| |]; simpl in H; try discriminate; injection H as H; subst n.
  - reflexivity.
  - simpl. rewrite map_const_repeat. reflexivity.
Qed.

Lemma same_len_null_all g h : same_len g h -> same_len (null_all g) h.
Proof.
  intros [H1 H2]. destruct g as [| | | | |l| |]; try (split; assumption).
  unfold same_len, null_all. rewrite vlen_vlist, map_length. split; [exact H1 | discriminate].
Qed.

Lemma same_len_clear_maps g h : same_len g h -> same_len (clear_maps g) h.
Proof.
  intros [H1 H2]. destruct g as [| | | | |l| |]; try (split; assumption).
  unfold same_len, clear_maps. rewrite vlen_vlist, map_length. split; [exact H1 | discriminate].
Qed.

Lemma upd_nth_length n f l : length (upd_nth n f l) = length l.
Proof. revert n. induction l; intros [|n]; simpl; auto. Qed.

Lemma same_len_set_array_value idxs a h name key v : same_len a h -> same_len (set_array_value idxs a name key v) h.
Proof.
  intros [H1 H2]. destruct a as [| | | | |l| |]; try (split; assumption).
  unfold same_len, set_array_value. cbn [vlen] in *. rewrite upd_nth_length. split; [exact H1 | discriminate].
Qed.

Lemma same_len_set_args idxs args : forall i a h, same_len a h -> same_len (set_args idxs i args a) h.
Proof.
  induction args as [|x r IH]; intros i a h H; simpl; [exact H|].
  apply IH. apply same_len_set_array_value. exact H.
Qed.

Lemma same_len_set_environ idxs kvs : forall a h, same_len a h -> same_len (set_environ idxs kvs a) h.
Proof.
  induction kvs as [|[k v] r IH]; intros a h H; simpl; [exact H|].
  apply IH. apply same_len_set_array_value. exact H.
Qed.

(* ---------- what every state reachable by a history satisfies ---------- *)
Definition var_fields : list field := filter (has_role VarState) all_fields.
Definition rand_fields : list field := filter (has_role RandState) all_fields.
Definition A0 : list field := const_fields ++ var_fields ++ rand_fields.

(* side conditions on a step list under which it keeps the invariant *)
Fixpoint steps_wf (l : list step) : Prop :=
  match l with
  | [] => True
  | SSet f reads fn :: r =>
      ~ In f const_fields /\ f <> "nativeFuncs" /\ f <> "globals" /\
      (f = "arrays" -> reads = ["arrayIndexes"; "arrays"] /\
                       forall e c idxs a h, same_len a h -> same_len (fn e c [idxs; a]) h) /\
      steps_wf r
  | SInitOnce f _ :: r => f = "nativeFuncs" /\ steps_wf r
  | _ :: r => steps_wf r
  end.

Lemma setExecuteConfig_steps_wf : steps_wf setExecuteConfig_steps.
Proof.
  assert (Hc : forall f, mem f const_fields = false -> ~ In f const_fields) by (intros f H; apply mem_false; exact H).
  unfold setExecuteConfig_steps. cbn [steps_wf].
  repeat match goal with
  | |- _ /\ _ => split
  | |- True => exact I
  | |- ~ In _ const_fields => apply Hc; vm_compute; reflexivity
  | |- _ <> _ => discriminate
  | |- ?f = "arrays" -> _ => first [ intros Habs; discriminate Habs | intros _ ]
  | |- _ = _ => reflexivity
  | |- forall _ _ _ _ _, same_len _ _ -> same_len _ _ => intros; unfold arr2
  end;
  first [ apply same_len_set_array_value | apply same_len_set_args | apply same_len_set_environ ]; assumption.
Qed.

Section Reuse.
  Variable sv : setvars.          (* the Vars loop of setExecuteConfig *)
  Variable e : envt.
  Variable pc : progconst.
  Variable F : val.               (* the nativeFuncs built from Config.Funcs, the same in every run *)
  Variable I : Type.              (* whatever a run depends on: input, files, time, scheduling ... *)
  Variable run : I -> state -> state.   (* executeAll *)

  Hypothesis sv_ni : sv_noninterference sv.
  (* frame of the Vars loop: it writes only fields that setVarByName and its callees write *)
  Hypothesis sv_frame : forall vars s f, ~ In f may_setVarByName -> fst (sv vars s) f = s f.
  Hypothesis sv_globals : forall vars s h, same_len (s "globals") h -> same_len (fst (sv vars s) "globals") h.
  Hypothesis sv_arrays : forall vars s h, same_len (s "arrays") h -> same_len (fst (sv vars s) "arrays") h.
  (* frame of a run, from the generated table *)
  Hypothesis run_frame : forall i s f, ~ In f run_mutable -> run i s f = s f.
  Hypothesis run_globals : forall i s h, same_len (s "globals") h -> same_len (run i s "globals") h.
  Hypothesis run_arrays : forall i s h, same_len (s "arrays") h -> same_len (run i s "arrays") h.

  Definition fresh : state := m_newInterp e pc.

  Record Inv (g : state) : Prop := {
    inv_const : forall f, In f const_fields -> g f = fresh f;
    inv_globals : same_len (g "globals") (fresh "globals");
    inv_arrays : same_len (g "arrays") (fresh "arrays");
    inv_once : once_ok F g
  }.

  Lemma sv_nf : forall vars s, fst (sv vars s) "nativeFuncs" = s "nativeFuncs".
  Proof. intros. apply sv_frame. apply mem_false. vm_compute. reflexivity. Qed.

  Lemma fresh_globals : fresh "globals" = vlist (repeat v_null (vmap_len (pc_scalarIndexes pc))).
  Proof. reflexivity. Qed.
  Lemma fresh_arrays : fresh "arrays" = vlist (repeat VNil (vmap_len (pc_arrayIndexes pc))).
  Proof. reflexivity. Qed.

  Lemma Inv_fresh : Inv fresh.
  Proof.
    split.
    - reflexivity.
    - apply same_len_refl. eexists. apply fresh_globals.
    - apply same_len_refl. eexists. apply fresh_arrays.
    - left. reflexivity.
  Qed.

  (* a list of constant bindings that touches none of the protected fields keeps the invariant *)
  Lemma Inv_set_all l g :
    forallb (fun f => negb (mem f const_fields) && negb (mem f ["globals"; "arrays"; "nativeFuncs"])) (map fst l) = true ->
    Inv g -> Inv (set_all l g).
  Proof.
    intros Hl [Hc Hg Ha Ho].
    assert (Hn : forall f, In f const_fields \/ In f ["globals"; "arrays"; "nativeFuncs"] -> ~ In f (map fst l)).
    { intros f Hf Hin. rewrite forallb_forall in Hl. specialize (Hl f Hin).
      apply andb_true_iff in Hl. destruct Hl as [H1 H2].
      apply negb_true_iff in H1. apply negb_true_iff in H2.
      destruct Hf as [Hf|Hf]; [apply (mem_false _ _ H1 Hf) | apply (mem_false _ _ H2 Hf)]. }
    split.
    - intros f Hf. rewrite set_all_other by (apply Hn; left; exact Hf). apply Hc. exact Hf.
    - rewrite set_all_other by (apply Hn; right; simpl; tauto). exact Hg.
    - rewrite set_all_other by (apply Hn; right; simpl; tauto). exact Ha.
    - unfold once_ok. rewrite set_all_other by (apply Hn; right; simpl; tauto). exact Ho.
  Qed.

  Lemma Inv_resetCore g : Inv g -> Inv (m_resetCore g).
  Proof. apply Inv_set_all. vm_compute. reflexivity. Qed.

  Lemma Inv_resetRand g : Inv g -> Inv (m_resetRand e g).
  Proof. apply Inv_set_all. vm_compute. reflexivity. Qed.

  Lemma Inv_prologue en g : Inv g -> Inv (m_prologue en g).
  Proof. apply Inv_set_all. destruct en; vm_compute; reflexivity. Qed.

  Lemma Inv_resetVars g : Inv g -> Inv (m_resetVars g).
  Proof.
    intros [Hc Hg Ha Ho]. unfold m_resetVars.
    assert (Hk : forall f, In f const_fields \/ f = "nativeFuncs" -> ~ In f (map fst resetVars_binds) /\
                           f <> "arrays.locals" /\ f <> "arrays" /\ f <> "globals").
    { assert (Hx : forallb (fun f => negb (mem f (map fst resetVars_binds)) && negb (mem f ["arrays.locals"; "arrays"; "globals"]))
                           ("nativeFuncs" :: const_fields) = true) by (vm_compute; reflexivity).
      rewrite forallb_forall in Hx. intros f Hf.
      assert (Hin : In f ("nativeFuncs" :: const_fields)) by (destruct Hf as [Hf| ->]; simpl; auto).
      specialize (Hx f Hin). apply andb_true_iff in Hx. destruct Hx as [H1 H2].
      apply negb_true_iff in H1. apply negb_true_iff in H2.
      split; [apply mem_false; exact H1|].
      pose proof (mem_false _ _ H2) as H3. simpl in H3. repeat split; intros ->; apply H3; tauto. }
    split.
    - intros f Hf. destruct (Hk f (or_introl Hf)) as [H1 [H2 [H3 H4]]].
      rewrite set_all_other by exact H1. rewrite !upd_neq by assumption. apply Hc. exact Hf.
    - rewrite set_all_other by (vm_compute; intros H; repeat (destruct H as [H|H]; [discriminate|]); exact H).
      rewrite upd_neq by discriminate. rewrite upd_neq by discriminate. rewrite upd_eq.
      apply same_len_null_all. exact Hg.
    - rewrite set_all_other by (vm_compute; intros H; repeat (destruct H as [H|H]; [discriminate|]); exact H).
      rewrite upd_neq by discriminate. rewrite upd_eq.
      apply same_len_clear_maps. exact Ha.
    - unfold once_ok. destruct (Hk "nativeFuncs" (or_intror eq_refl)) as [H1 [H2 [H3 H4]]].
      rewrite set_all_other by exact H1. rewrite !upd_neq by assumption. exact Ho.
  Qed.

  Lemma Inv_run_steps c : c_funcs c = F -> forall l g,
    steps_wf l -> once_fn_ok c F l -> Inv g -> Inv (fst (run_steps sv e c l g)).
  Proof.
    intros HF. induction l as [|st r IH]; intros g Hwf Hfn Hinv; [exact Hinv|].
    destruct st as [f reads fn | reads chk | f fn | ]; cbn [steps_wf once_fn_ok run_steps] in Hwf, Hfn |- *.
    - destruct Hwf as [Hnc [Hnf [Hng [Harr Hwf]]]]. apply IH; [exact Hwf | exact Hfn |].
      destruct Hinv as [Hc Hg Ha Ho]. split.
      + intros h Hh. rewrite upd_neq by (intros ->; contradiction). apply Hc. exact Hh.
      + rewrite upd_neq by congruence. exact Hg.
      + destruct (string_dec f "arrays") as [->|Hne].
        * destruct (Harr eq_refl) as [-> Hlen]. rewrite upd_eq. simpl.
          apply Hlen. exact Ha.
        * rewrite upd_neq by congruence. exact Ha.
      + unfold once_ok. rewrite upd_neq by congruence. exact Ho.
    - destruct (chk c (map g reads)); [exact Hinv | apply IH; assumption].
    - destruct Hwf as [-> Hwf]. destruct Hfn as [Hfc Hfn]. apply IH; [exact Hwf | exact Hfn |].
      destruct Hinv as [Hc Hg Ha Ho].
      assert (Hnc : ~ In "nativeFuncs" const_fields) by (apply mem_false; vm_compute; reflexivity).
      destruct (val_is_nil (g "nativeFuncs")) eqn:En.
      + split.
        * intros h Hh. rewrite upd_neq by (intros ->; contradiction). apply Hc. exact Hh.
        * rewrite upd_neq by discriminate. exact Hg.
        * rewrite upd_neq by discriminate. exact Ha.
        * right. rewrite upd_eq. exact Hfc.
      + split; assumption.
    - destruct (sv (c_vars c) g) as [g' err] eqn:Es.
      assert (Hg' : Inv g').
      { replace g' with (fst (sv (c_vars c) g)) by (rewrite Es; reflexivity).
        destruct Hinv as [Hc Hg Ha Ho]. split.
        - intros h Hh. rewrite sv_frame; [apply Hc; exact Hh|].
          assert (Hx : forallb (fun f => negb (mem f may_setVarByName)) const_fields = true) by (vm_compute; reflexivity).
          rewrite forallb_forall in Hx. specialize (Hx h Hh). apply negb_true_iff in Hx. apply mem_false. exact Hx.
        - apply sv_globals. exact Hg.
        - apply sv_arrays. exact Ha.
        - unfold once_ok. rewrite sv_nf. exact Ho. }
      destruct err; [exact Hg' | apply IH; assumption].
  Qed.

  Lemma once_fn_ok_setcfg c : c_funcs c = F -> once_fn_ok c F setExecuteConfig_steps.
  Proof. intros H. simpl. repeat split; try exact I. exact H. Qed.

  Lemma Inv_prepare en c g : c_funcs c = F -> Inv g -> Inv (fst (m_prepare sv e en c g)).
  Proof.
    intros HF Hinv. unfold m_prepare, m_setExecuteConfig.
    apply Inv_run_steps; [exact HF | apply setExecuteConfig_steps_wf | apply once_fn_ok_setcfg; exact HF |].
    apply Inv_prologue. apply Inv_resetCore. exact Hinv.
  Qed.

  Lemma Inv_run i g : Inv g -> Inv (run i g).
  Proof.
    intros [Hc Hg Ha Ho]. split.
    - intros f Hf. rewrite run_frame; [apply Hc; exact Hf|].
      assert (Hx : forallb (fun f => negb (mem f run_mutable)) const_fields = true) by (vm_compute; reflexivity).
      rewrite forallb_forall in Hx. specialize (Hx f Hf). apply negb_true_iff in Hx. apply mem_false. exact Hx.
    - apply run_globals. exact Hg.
    - apply run_arrays. exact Ha.
    - unfold once_ok. rewrite run_frame; [exact Ho | apply mem_false; vm_compute; reflexivity].
  Qed.

  (* every state an Interpreter can be in: created by New, then any sequence of ResetVars, ResetRand,
     Execute/ExecuteContext calls (accepted by setExecuteConfig and run, with any outcome; or rejected) *)
  Inductive reachable : state -> Prop :=
  | R_new : reachable fresh
  | R_resetVars g : reachable g -> reachable (m_resetVars g)
  | R_resetRand g : reachable g -> reachable (m_resetRand e g)
  | R_execute g en c i : reachable g -> c_funcs c = F -> reachable (run i (fst (m_prepare sv e en c g)))
  | R_rejected g en c : reachable g -> c_funcs c = F -> reachable (fst (m_prepare sv e en c g)).

  Lemma reachable_Inv g : reachable g -> Inv g.
  Proof.
    induction 1.
    - apply Inv_fresh.
    - apply Inv_resetVars. assumption.
    - apply Inv_resetRand. assumption.
    - apply Inv_run. apply Inv_prepare; assumption.
    - apply Inv_prepare; assumption.
  Qed.

  (* ---------- the state handed to Execute: reused (with the chosen resets) vs new ---------- *)
  Definition reused (rv rr : bool) (g : state) : state :=
    opt_apply rv m_resetVars (opt_apply rr (m_resetRand e) g).

  Lemma reused_untouched rv rr g f :
    ~ In f (map fst resetVars_binds ++ ["arrays.locals"; "arrays"; "globals"; "randSeed"; "random"]) ->
    reused rv rr g f = g f.
  Proof.
    intros Hn. unfold reused, opt_apply, m_resetVars, m_resetRand.
    assert (N1 : ~ In f (map fst resetVars_binds)) by (intros X; apply Hn; apply in_or_app; left; exact X).
    assert (N2 : f <> "arrays.locals" /\ f <> "arrays" /\ f <> "globals" /\ f <> "randSeed" /\ f <> "random").
    { repeat split; intros ->; apply Hn; apply in_or_app; right; simpl; tauto. }
    destruct N2 as [Na [Nb [Nc [Nd Ne]]]].
    destruct rv, rr; try reflexivity.
    - rewrite set_all_other by exact N1. rewrite !upd_neq by assumption.
      apply set_all_other. simpl. intros [X|[X|[]]]; congruence.
    - rewrite set_all_other by exact N1. rewrite !upd_neq by assumption. reflexivity.
    - apply set_all_other. simpl. intros [X|[X|[]]]; congruence.
  Qed.

  (* program constants: untouched by the resets, equal by the invariant *)
  Lemma ia_const rv rr g : (forall f, In f const_fields -> g f = fresh f) ->
    forall f, In f const_fields -> reused rv rr g f = carry rv rr g fresh f.
  Proof.
    intros Hc f Hf.
    assert (Hx : forallb (fun f => negb (mem f (map fst resetVars_binds ++ ["arrays.locals"; "arrays"; "globals"; "randSeed"; "random"]))
                                   && negb (has_role VarState f) && negb (has_role RandState f)
                                   && negb (String.eqb f "arrays.locals")) const_fields = true)
      by (vm_compute; reflexivity).
    rewrite forallb_forall in Hx. specialize (Hx f Hf).
    apply andb_true_iff in Hx. destruct Hx as [Hx H4]. apply andb_true_iff in Hx. destruct Hx as [Hx H3].
    apply andb_true_iff in Hx. destruct Hx as [H1 H2].
    apply negb_true_iff in H1, H2, H3, H4. pose proof (mem_false _ _ H1) as Hn.
    rewrite (reused_untouched rv rr g f Hn). unfold carry. rewrite H2, H3, H4.
    destruct rv, rr; cbn [negb andb orb]; apply Hc; exact Hf.
  Qed.

  (* variables and random state: by cases on the (concrete) field, by computation *)
  Lemma ia_vars rv rr g :
    null_all (g "globals") = fresh "globals" -> clear_maps (g "arrays") = fresh "arrays" ->
    forall f, In f (var_fields ++ rand_fields) -> reused rv rr g f = carry rv rr g fresh f.
  Proof.
    intros Hgl Har f Hf.
    pose proof Hgl as Hgl'. pose proof Har as Har'. vm_compute in Hgl', Har'.
    unfold reused, opt_apply.
    destruct rv, rr;
      (vm_compute in Hf;
       repeat (destruct Hf as [<-|Hf];
               [ vm_compute; first [ reflexivity | exact Hgl' | exact Har' ] | ]);
       try contradiction).
  Qed.

  Lemma Inv_null_all g : Inv g -> null_all (g "globals") = fresh "globals".
  Proof. intros [Hc Hg Ha Ho]. rewrite fresh_globals. apply null_all_fresh. rewrite <- fresh_globals. exact Hg. Qed.
  Lemma Inv_clear_maps g : Inv g -> clear_maps (g "arrays") = fresh "arrays".
  Proof. intros [Hc Hg Ha Ho]. rewrite fresh_arrays. apply clear_maps_fresh. rewrite <- fresh_arrays. exact Ha. Qed.

  Lemma initial_agreement_pointwise rv rr g : Inv g ->
    forall f, In f (const_fields ++ (var_fields ++ rand_fields)) -> reused rv rr g f = carry rv rr g fresh f.
  Proof.
    intros HI f Hf. destruct (in_app_or _ _ f Hf) as [H|H].
    - apply ia_const; [apply (inv_const g HI) | exact H].
    - apply ia_vars; [apply Inv_null_all; exact HI | apply Inv_clear_maps; exact HI | exact H].
  Qed.

  (* Before Execute, the reused interpreter and a new one (into which the not-reset variables / random state
     have been copied) agree on: the program constants, every variable, the random state. *)
  Lemma initial_agreement rv rr g : Inv g -> agree A0 (reused rv rr g) (carry rv rr g fresh).
  Proof. intros HI. exact (initial_agreement_pointwise rv rr g HI). Qed.

  Lemma Inv_reused rv rr g : Inv g -> Inv (reused rv rr g).
  Proof.
    intros H. unfold reused, opt_apply. destruct rv, rr; auto using Inv_resetVars, Inv_resetRand.
  Qed.

  Lemma once_ok_carry rv rr g : once_ok F (carry rv rr g fresh).
  Proof. left. destruct rv, rr; reflexivity. Qed.


  (* the analysis, run on the concrete tables: every observable field ends up in the agreement set *)
  Lemma flowB_covers en : exists B,
    flow setExecuteConfig_steps (rev (map fst (prologue_binds en)) ++ rev (map fst resetCore_binds) ++ A0) = Some B /\
    incl (obs_fields en) B.
  Proof.
    destruct en as [|ck cv dv]; apply flow_covers_b; vm_compute; reflexivity.
  Qed.

  (* MAIN LEMMA.  g: any state an Interpreter can be in.  The caller optionally calls ResetVars (rv) and
     ResetRand (rr), then Execute/ExecuteContext (en) with any Config c.  Compared with: the same call on a
     NEW interpreter into which the variables (if not rv) and the random state (if not rr) of g were copied.
     Then setExecuteConfig gives the same verdict on both, and if it accepts, the two interpreters enter
     executeAll agreeing on every observable field (everything but caches and scratch). *)
  Theorem reuse_vs_new : forall rv rr g en c, reachable g -> c_funcs c = F ->
    let r := m_prepare sv e en c (reused rv rr g) in
    let f := m_prepare sv e en c (carry rv rr g fresh) in
    snd r = snd f /\ (snd r = None -> agree (obs_fields en) (fst r) (fst f)).
  Proof.
    intros rv rr g en c Hr HF r f.
    destruct (flowB_covers en) as [B [HB Hincl]].
    pose proof (reachable_Inv g Hr) as HI.
    destruct (prepare_sound sv e c F sv_ni sv_nf en A0 B (reused rv rr g) (carry rv rr g fresh) HF HB
                (initial_agreement rv rr g HI) (inv_once _ (Inv_reused rv rr g HI)) (once_ok_carry rv rr g)) as [H1 H2].
    split; [exact H1 | intros Hn; eapply agree_incl; [exact Hincl | apply H2; exact Hn]].
  Qed.

  (* ---------- New + Execute = ExecProgram (newInterp + setExecuteConfig, no resetCore) ---------- *)
  Definition not_argc : list field := filter (fun f => negb (String.eqb f "argc")) model_fields.

  (* resetCore and the Execute prologue change nothing but argc in a new interpreter *)
  Lemma resetCore_on_fresh : agree not_argc (m_prologue EExec (m_resetCore fresh)) fresh.
  Proof.
    intros f Hf. vm_compute in Hf.
    repeat (destruct Hf as [<-|Hf]; [vm_compute; reflexivity|]). contradiction.
  Qed.

  Theorem execprogram_eq_new_execute : forall c, c_funcs c = F ->
    let a := m_prepare sv e EExec c fresh in
    let b := m_setExecuteConfig sv e c fresh in
    snd a = snd b /\ (snd a = None -> agree (obs_fields EExec) (fst a) (fst b)).
  Proof.
    intros c HF a b.
    assert (HB : exists B, flow setExecuteConfig_steps not_argc = Some B /\ incl (obs_fields EExec) B).
    { apply flow_covers_b. vm_compute. reflexivity. }
    destruct HB as [B [HB Hincl]].
    assert (Ho1 : once_ok F (m_prologue EExec (m_resetCore fresh))) by (left; reflexivity).
    assert (Ho2 : once_ok F fresh) by (left; reflexivity).
    destruct (flow_sound sv e c F sv_ni sv_nf setExecuteConfig_steps not_argc B _ _
                (once_fn_ok_setcfg c HF) HB resetCore_on_fresh Ho1 Ho2) as [H1 H2].
    split; [exact H1 | intros Hn; eapply agree_incl; [exact Hincl | apply H2; exact Hn]].
  Qed.
End Reuse.

(* ---------- the property, closed ---------- *)

(* everything assumed about the two unmodelled transformers *)
Definition hyps (sv : setvars) (I : Type) (run : I -> state -> state) : Prop :=
  sv_noninterference sv /\
  (forall vars s f, ~ In f may_setVarByName -> fst (sv vars s) f = s f) /\
  (forall vars s h, same_len (s "globals") h -> same_len (fst (sv vars s) "globals") h) /\
  (forall vars s h, same_len (s "arrays") h -> same_len (fst (sv vars s) "arrays") h) /\
  (forall i s f, ~ In f run_mutable -> run i s f = s f) /\
  (forall i s h, same_len (s "globals") h -> same_len (run i s "globals") h) /\
  (forall i s h, same_len (s "arrays") h -> same_len (run i s "arrays") h).

(* "a reused Interpreter, prepared for its next run, agrees with a new one on the fields L" *)
Definition reuse_statement (L : entry -> list field) : Prop :=
  forall (sv : setvars) (e : envt) (pc : progconst) (F : val) (I : Type) (run : I -> state -> state),
    hyps sv I run ->
    forall rv rr g en c, reachable sv e pc F I run g -> c_funcs c = F ->
      let r := m_prepare sv e en c (reused e rv rr g) in
      let f := m_prepare sv e en c (carry rv rr g (fresh e pc)) in
      snd r = snd f /\ (snd r = None -> agree (L en) (fst r) (fst f)).

(* the full statement of the design: all observable fields *)
Definition reuse_eq_fresh_full : Prop := reuse_statement obs_fields.

Theorem reuse_eq_fresh : reuse_eq_fresh_full.
Proof.
  intros sv e pc F I run [H1 [H2 [H3 [H4 [H5 [H6 H7]]]]]] rv rr g en c Hr HF.
  exact (reuse_vs_new sv e pc F I run H1 H2 H3 H4 H5 H6 H7 rv rr g en c Hr HF).
Qed.

Lemma reachable_invariant_hyps :
  forall sv e pc F I run, hyps sv I run -> forall g, reachable sv e pc F I run g -> Inv e pc F g.
Proof.
  intros sv e pc F I run [H1 [H2 [H3 [H4 [H5 [H6 H7]]]]]] g Hr.
  exact (reachable_Inv sv e pc F I run H2 H3 H4 H5 H6 H7 g Hr).
Qed.

(* after ResetVars and ResetRand the comparison is with an untouched new interpreter *)
Lemma carry_full g s : carry true true g s = s.
Proof. reflexivity. Qed.

Corollary reuse_eq_fresh_after_resets :
  forall sv e pc F I run, hyps sv I run ->
  forall g en c, reachable sv e pc F I run g -> c_funcs c = F ->
    let r := m_prepare sv e en c (m_resetVars (m_resetRand e g)) in
    let f := m_prepare sv e en c (m_newInterp e pc) in
    snd r = snd f /\ (snd r = None -> agree (obs_fields en) (fst r) (fst f)).
Proof.
  intros sv e pc F I run Hh g en c Hr HF.
  pose proof (reuse_eq_fresh sv e pc F I run Hh true true g en c Hr HF) as H.
  rewrite carry_full in H. exact H.
Qed.

(* whatever is computed from the prepared state by looking only at the agreed fields (the rest of the run:
   output, exit status, error) is the same on both interpreters *)
Corollary same_outcome :
  forall sv e pc F I run, hyps sv I run ->
  forall (O : Type) (outcome : state -> O) rv rr g en c,
    (forall s1 s2, agree (obs_fields en) s1 s2 -> outcome s1 = outcome s2) ->
    reachable sv e pc F I run g -> c_funcs c = F ->
    snd (m_prepare sv e en c (reused e rv rr g)) = None ->
    outcome (fst (m_prepare sv e en c (reused e rv rr g))) =
    outcome (fst (m_prepare sv e en c (carry rv rr g (fresh e pc)))).
Proof.
  intros sv e pc F I run Hh O outcome rv rr g en c Hout Hr HF Hn.
  apply Hout. apply (reuse_eq_fresh sv e pc F I run Hh rv rr g en c Hr HF). exact Hn.
Qed.

(* ---------- non-vacuity: a concrete instance of the hypotheses ---------- *)
Definition sv_id : setvars := fun _ s => (s, None).
(* a run that reads a CSV header and ends with a record assignment outside the main loop *)
Definition run_header (_ : unit) (s : state) : state :=
  upd "reparseCSV" (VB true) (upd "fieldNames" (VL [VS [97]; VS [98]]) s).
Definition config0 : config :=
  mkConfig false false 0 0 0 false 0 0 None [] [] false [] false [] None false false false VNil VNil VNil (VL []) 0.

Lemma hyps_example : hyps sv_id unit run_header.
Proof.
  unfold hyps. split; [|split; [|split; [|split; [|split; [|split]]]]].
  - intros vars A s1 s2 _ Ha. split; [reflexivity | exact Ha].
  - reflexivity.
  - intros vars s h Hh. exact Hh.
  - intros vars s h Hh. exact Hh.
  - intros i s f Hn. unfold run_header.
    assert (H1 : In "fieldNames" run_mutable) by (apply mem_In; vm_compute; reflexivity).
    assert (H2 : In "reparseCSV" run_mutable) by (apply mem_In; vm_compute; reflexivity).
    rewrite !upd_neq; [reflexivity | |]; intros ->; contradiction.
  - intros i s h Hh. unfold run_header. rewrite !upd_neq by discriminate. exact Hh.
  - intros i s h Hh. unfold run_header. rewrite !upd_neq by discriminate. exact Hh.
Qed.

(* the history that used to refute the statement (F-C14-1, F-C14-2, repaired): after a run that read a CSV
   header and left reparseCSV set, the reused interpreter prepared for its next run has neither *)
Lemma header_run_is_reset :
  let g := run_header tt (fst (m_prepare sv_id env0 EExec config0 (fresh env0 pc0))) in
  g "fieldNames" = VL [VS [97]; VS [98]] /\ g "reparseCSV" = VB true /\
  fst (m_prepare sv_id env0 EExec config0 g) "fieldNames" = VNil /\
  fst (m_prepare sv_id env0 EExec config0 g) "reparseCSV" = VB false /\
  predict_diff sv_id env0 pc0 EExec config0 false false g = PDiff [].
Proof. vm_compute. repeat split; reflexivity. Qed.
