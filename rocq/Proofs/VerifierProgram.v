(* C02: the whole-program form of the verifier theorem, the limits check, the one-byte RS
   model, and an instance showing that the hypothesis on the primitives is satisfiable. *)
From Coq Require Import ZifyBool.
From Verif Require Import Lib.Base Model.Ast Model.Instr Model.Compiler Model.Prims Model.VM
  Model.Verifier Proofs.CodeAt Proofs.VerifierBase Proofs.VerifierSound Gen.Consts.

(* ---- every unit of a checked program, started as interp.executeAll / execActions start it:
        empty frame, call depth 0, any stack, any state ---- *)

Inductive unit_of (p : cprogram) : code -> Z -> Prop :=
| UBegin : unit_of p (c_begin p) 0
| UEnd : unit_of p (c_end p) 0
| UPattern : forall a c, In a (c_actions p) -> In c (fst a) -> unit_of p c 1
| UBody : forall a b, In a (c_actions p) -> snd a = Some b -> unit_of p b 0.

Lemma check_program_units p :
  check_program p = true ->
  check_funcs (c_funcs p) = true /\
  forall c dend, unit_of p c dend -> check_code (ftable_of (c_funcs p)) 0 false 0 dend c = true.
Proof.
  unfold check_program. intros H.
  apply andb_true_iff in H as [H He]. apply andb_true_iff in H as [H Ha]. apply andb_true_iff in H as [Hf Hb].
  split; [exact Hf|]. rewrite forallb_forall in Ha.
  intros c dend U. destruct U as [| |a c Hin Hc|a b Hin Hb'].
  - exact Hb.
  - exact He.
  - specialize (Ha a Hin). apply andb_true_iff in Ha as [Hp _]. rewrite forallb_forall in Hp. exact (Hp c Hc).
  - specialize (Ha a Hin). apply andb_true_iff in Ha as [_ Hbody]. rewrite Hb' in Hbody. exact Hbody.
Qed.

Theorem checked_program_never_stuck (value St err : Type) (P : prims value St err) (p : cprogram) :
  prims_shape P -> check_program p = true ->
  forall c dend, unit_of p c dend ->
  forall fuel stk (s : St),
    match run P (c_funcs p) fuel c 0 stk {| ms := s; frame := []; depth := 0 |} with
    | VStuck => False
    | VDone stk' m' => zlen stk' = zlen stk + dend /\ frame m' = [] /\ depth m' = 0
    | VRet _ _ _ => False
    | VBrk _ _ => False
    | _ => True
    end.
Proof.
  intros Hsh Hp c dend U fuel stk s.
  destruct (check_program_units p Hp) as [Hf Hu]. specialize (Hu c dend U).
  pose proof (check_code_balanced value St err P Hsh (c_funcs p) Hf 0 false 0 dend c Hu fuel stk
                {| ms := s; frame := []; depth := 0 |}
                ltac:(pose proof (zlen_nonneg stk); lia) ltac:(reflexivity)
                ltac:(cbn [depth]; unfold maxCallDepth; lia)) as H.
  destruct (run P (c_funcs p) fuel c 0 stk {| ms := s; frame := []; depth := 0 |}); auto.
  - destruct H as (H1 & H2 & H3). split; [lia|]. split; [|exact H3].
    destruct (frame m); [reflexivity|]. rewrite zlen_cons in H2. pose proof (zlen_nonneg l). lia.
  - destruct H as [H _]. discriminate.
Qed.

(* ---- table limits ---- *)

Lemma fetch_In C : forall ip i, fetch C ip = Some i -> In i C.
Proof.
  induction C as [|j C IH]; intros ip i Hf; cbn [fetch] in Hf; [discriminate|].
  destruct (ip =? 0); [injection Hf as <-; left; reflexivity|].
  destruct (ip <? isize j); [discriminate|]. right. eapply IH. exact Hf.
Qed.

Theorem check_limits_sound L C :
  check_limits L C = true -> forall ip i, fetch C ip = Some i -> instr_in_limits L i = true.
Proof.
  unfold check_limits. rewrite forallb_forall. intros H ip i Hf. apply H. eapply fetch_In. exact Hf.
Qed.

(* ---- one-byte RS ---- *)

(* no empty or one-byte record separator makes setSpecial panic *)
Theorem rs_one_byte_never_panics : forall rs, (length rs <= 1)%nat -> set_rs_short rs = RsOk.
Proof.
  intros rs Hl. destruct rs as [|b [|c rs]]; cbn [length] in Hl; [reflexivity| |lia].
  unfold set_rs_short, must_compile_quoted. destruct (valid_utf8_short [b]); reflexivity.
Qed.

(* the validity test is what prevents it: the compilation alone panics exactly on non-ASCII bytes *)
Theorem must_compile_quoted_exact : forall b, must_compile_quoted [b] = RsPanic <-> ~ (0 <= b < 128).
Proof.
  intros b. unfold must_compile_quoted. cbn [valid_utf8_short].
  destruct ((0 <=? b) && (b <? 128)) eqn:E; split; intros H; try discriminate.
  - apply andb_true_iff in E as [E1 E2]. lia.
  - apply andb_false_iff in E as [E|E]; lia.
  - reflexivity.
Qed.

(* ---- CSV mode: the two parallel slices behind $i stay the same length ---- *)

Lemma f_run_inv : forall ops s,
  (fs_have s = true -> fs_true s = fs_fields s) -> f_run s ops <> None.
Proof.
  induction ops as [|o ops IH]; intros s Hinv; cbn [f_run]; [discriminate|].
  assert (He : fs_have (f_ensure s) = true /\ fs_true (f_ensure s) = fs_fields (f_ensure s)).
  { unfold f_ensure. destruct (fs_have s) eqn:E; cbn [fs_have fs_true fs_fields]; [split; [exact E|auto]|split; reflexivity]. }
  destruct o as [n d|n| |i|b]; cbn [f_step].
  - apply IH. cbn [fs_have]. discriminate.
  - apply IH. cbn [fs_have fs_true fs_fields]. exact Hinv.
  - apply IH. intros _. apply He.
  - destruct He as [He1 He2].
    destruct (fs_fields (f_ensure s) <? i) eqn:E1.
    + apply IH. intros _. exact He2.
    + destruct (i <=? fs_true (f_ensure s)) eqn:E2; [|lia].
      apply IH. intros _. exact He2.
  - apply IH. cbn [fs_have fs_true fs_fields]. exact Hinv.
Qed.

(* whatever sequence of records read by the main loop, records read by `getline var`, uses of NF,
   reads of $i and changes of INPUTMODE in the middle of the stream happens, getField never
   indexes p.fieldsIsTrueStr out of range *)
Theorem csv_fields_never_panic : forall ops, f_run fs_init ops <> None.
Proof. intros ops. apply f_run_inv. cbn. discriminate. Qed.

(* `getline var` leaves the state of the current record exactly as it was, in every mode *)
Theorem getline_var_keeps_fields : forall s n, f_step s (OGetlineVar n) = Some s.
Proof. intros [f t h m sv d] n. reflexivity. Qed.

(* ---- the hypothesis on the primitives is satisfiable: any primitive record, with CallBuiltin
        forced to the table's arities, conforms ---- *)

Section Reshape.
  Variables value St err : Type.
  Variable P : prims value St err.

  Fixpoint fit (n : nat) (d : value) (l : list value) : list value :=
    match n with
    | O => []
    | S n' => match l with [] => d :: fit n' d [] | x :: t => x :: fit n' d t end
    end.

  Lemma fit_length n d l : length (fit n d l) = n.
  Proof. revert l. induction n as [|n IH]; intros l; cbn [fit]; [reflexivity|]. destruct l; cbn [length]; rewrite IH; reflexivity. Qed.

  Definition reshape : prims value St err :=
    {| p_num := p_num P; p_str := p_str P; p_null := p_null P; p_of_bool := p_of_bool P; p_to_bool := p_to_bool P;
       p_num_pos := p_num_pos P; p_neg := p_neg P; p_plus := p_plus P; p_arith := p_arith P; p_aug := p_aug P;
       p_incr := p_incr P; p_cmp := p_cmp P; p_cmpj := p_cmpj P; p_concat := p_concat P;
       p_concat_multi := p_concat_multi P; p_index_multi := p_index_multi P; p_match := p_match P; p_regex := p_regex P;
       p_get_field := p_get_field P; p_get_field_int := p_get_field_int P; p_get_named := p_get_named P;
       p_get_named_str := p_get_named_str P; p_set_field := p_set_field P; p_get_global := p_get_global P;
       p_set_global := p_set_global P; p_get_special := p_get_special P; p_set_special := p_set_special P;
       p_array_get := p_array_get P; p_array_set := p_array_set P; p_array_in := p_array_in P;
       p_array_del := p_array_del P; p_array_clear := p_array_clear P; p_array_len := p_array_len P;
       p_array_keys := p_array_keys P;
       p_builtin_arity := builtin_arity;
       p_builtin := fun b s vs =>
         match p_builtin P b s vs with
         | (s', EOk rs) => (s', EOk (fit (builtin_nres b) (p_null P) rs))
         | (s', EErr e) => (s', EErr e)
         end;
       p_split := p_split P; p_sprintf := p_sprintf P; p_native := p_native P; p_push_arrays := p_push_arrays P;
       p_pop_arrays := p_pop_arrays P; p_err_depth := p_err_depth P; p_print := p_print P; p_getline := p_getline P;
       p_set_line := p_set_line P; p_set_exit := p_set_exit P |}.

  Lemma reshape_shape : prims_shape reshape.
  Proof.
    split.
    - intros b. reflexivity.
    - intros b s vs s' rs H. cbn [reshape p_builtin] in H.
      destruct (p_builtin P b s vs) as [s1 [rs1|e]]; [|discriminate].
      injection H as _ <-. apply fit_length.
  Qed.
End Reshape.
