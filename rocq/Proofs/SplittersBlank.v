(* blankLineSplitter (RS = ""): closed form (no slice panics), stability of ($0, RT), and
   the reconstruction  leading newlines ++ concat (record ++ RT) = input. *)
From Verif Require Import Lib.Base Model.Scanner Model.Splitters Proofs.Scanner Proofs.Splitters.

Definition is_nl (c : Z) : bool := (c =? 10) || (c =? 13).

(* ---------- Z-indexed list facts ---------- *)

Lemma zdrop_cons {A} (c : A) x n : 0 <= n -> zdrop (1 + n) (c :: x) = zdrop n x.
Proof. intros H. unfold zdrop. replace (Z.to_nat (1 + n)) with (S (Z.to_nat n)) by lia. reflexivity. Qed.

Lemma ztake_cons {A} (c : A) x n : 0 <= n -> ztake (1 + n) (c :: x) = c :: ztake n x.
Proof. intros H. unfold ztake. replace (Z.to_nat (1 + n)) with (S (Z.to_nat n)) by lia. reflexivity. Qed.

Lemma zlen_strip_last c d : zlen (strip_last c d) <= zlen d.
Proof.
  induction d as [|x d IH]; [cbn; lia|].
  cbn [strip_last]. destruct d as [|y d].
  - destruct (x =? c); rewrite ?zlen_cons, ?zlen_nil; lia.
  - rewrite !zlen_cons in *. lia.
Qed.

(* ---------- skip_nl ---------- *)

Lemma skip_nl_bounds l : 0 <= skip_nl l <= zlen l.
Proof.
  induction l as [|c l IH]; [cbn; lia|].
  cbn [skip_nl]. rewrite zlen_cons. destruct ((c =? 10) || (c =? 13)); lia.
Qed.

Lemma skip_nl_app l d' : exists k, 0 <= k /\ skip_nl (l ++ d') = skip_nl l + k /\
  Forall (fun c => is_nl c = true) (ztake k (zdrop (skip_nl l) (l ++ d'))).
Proof.
  induction l as [|c l IH].
  - cbn [app skip_nl]. exists (skip_nl d'). split; [apply skip_nl_bounds|]. split; [lia|].
    rewrite zdrop_0. induction d' as [|c d' IHd]; [constructor|].
    cbn [skip_nl]. destruct ((c =? 10) || (c =? 13)) eqn:E; [|constructor].
    rewrite ztake_cons by apply skip_nl_bounds. constructor; [exact E|exact IHd].
  - cbn [app skip_nl]. destruct ((c =? 10) || (c =? 13)) eqn:E.
    + destruct IH as (k & Hk & H1 & H2). exists k. split; [exact Hk|]. split; [lia|].
      rewrite zdrop_cons by apply skip_nl_bounds. exact H2.
    + exists 0. split; [lia|]. split; [lia|]. constructor.
Qed.

(* ---------- find_blank ---------- *)

Definition shift2 (j : Z) (o : option (Z * Z)) : option (Z * Z) :=
  match o with Some (a, b) => Some (a + j, b + j) | None => None end.

Lemma find_blank_shift l : forall i j, find_blank l (i + j) = shift2 j (find_blank l i).
Proof.
  induction l as [|c l' IH]; intros i j; [reflexivity|].
  cbn [find_blank].
  assert (R : find_blank l' (i + j + 1) = shift2 j (find_blank l' (i + 1))).
  { replace (i + j + 1) with (i + 1 + j) by lia. apply IH. }
  destruct (c =? 10); [|exact R].
  destruct l' as [|c1 l2]; [exact R|].
  destruct (c1 =? 10).
  - cbn [shift2]. f_equal. f_equal. lia.
  - destruct l2 as [|c2 l3]; [exact R|].
    destruct ((c1 =? 13) && (c2 =? 10)); [|exact R].
    cbn [shift2]. f_equal. f_equal. lia.
Qed.

Lemma find_blank_bounds l : forall i en i', find_blank l i = Some (en, i') ->
  i <= en /\ en + 2 <= i' /\ i' <= i + zlen l.
Proof.
  induction l as [|c l' IH]; intros i en i' H; [discriminate|].
  cbn [find_blank] in H. rewrite zlen_cons.
  assert (R : find_blank l' (i + 1) = Some (en, i') -> i <= en /\ en + 2 <= i' /\ i' <= i + (1 + zlen l')).
  { intros H'. apply IH in H'. lia. }
  destruct (c =? 10); [|exact (R H)].
  destruct l' as [|c1 l2]; [exact (R H)|].
  destruct (c1 =? 10).
  - injection H as <- <-. rewrite zlen_cons. pose proof (skip_nl_bounds l2). lia.
  - destruct l2 as [|c2 l3]; [exact (R H)|].
    destruct ((c1 =? 13) && (c2 =? 10)); [|exact (R H)].
    injection H as <- <-. rewrite !zlen_cons. pose proof (skip_nl_bounds l3). lia.
Qed.

(* a blank line found stays found where it is; the run of newlines after it may get longer *)
Lemma find_blank_app l d' : forall i en i', find_blank l i = Some (en, i') ->
  exists k, 0 <= k /\ find_blank (l ++ d') i = Some (en, i' + k) /\
    Forall (fun c => is_nl c = true) (ztake k (zdrop (i' - i) (l ++ d'))).
Proof.
  induction l as [|c l' IH]; intros i en i' H; [discriminate|].
  cbn [find_blank] in H. cbn [app find_blank].
  assert (R : find_blank l' (i + 1) = Some (en, i') ->
    exists k, 0 <= k /\ find_blank (l' ++ d') (i + 1) = Some (en, i' + k) /\
      Forall (fun c => is_nl c = true) (ztake k (zdrop (i' - i) (c :: l' ++ d')))).
  { intros H'. destruct (IH _ _ _ H') as (k & Hk & H1 & H2). exists k. split; [exact Hk|]. split; [exact H1|].
    apply find_blank_bounds in H'. replace (i' - i) with (1 + (i' - (i + 1))) by lia.
    rewrite zdrop_cons by lia. exact H2. }
  destruct (c =? 10); [|exact (R H)].
  destruct l' as [|c1 l2]; [discriminate|].
  cbn [app]. destruct (c1 =? 10) eqn:E1.
  - injection H as <- <-. destruct (skip_nl_app l2 d') as (k & Hk & H1 & H2).
    exists k. split; [exact Hk|]. split; [rewrite H1; f_equal; f_equal; lia|].
    pose proof (skip_nl_bounds l2).
    replace (i + 2 + skip_nl l2 - i) with (1 + (1 + skip_nl l2)) by lia.
    rewrite zdrop_cons by lia. rewrite zdrop_cons by lia. exact H2.
  - destruct l2 as [|c2 l3].
    + cbn [find_blank] in H. rewrite E1 in H. discriminate.
    + cbn [app]. destruct ((c1 =? 13) && (c2 =? 10)).
      * injection H as <- <-. destruct (skip_nl_app l3 d') as (k & Hk & H1 & H2).
        exists k. split; [exact Hk|]. split; [rewrite H1; f_equal; f_equal; lia|].
        pose proof (skip_nl_bounds l3).
        replace (i + 3 + skip_nl l3 - i) with (1 + (1 + (1 + skip_nl l3))) by lia.
        rewrite !zdrop_cons by lia. exact H2.
      * exact (R H).
Qed.

(* a blank line found strictly inside the text stays exactly what it is *)
Lemma skip_nl_app_lt d d' : skip_nl d < zlen d -> skip_nl (d ++ d') = skip_nl d.
Proof.
  induction d as [|c x IH]; [cbn; lia|].
  cbn [app skip_nl]. rewrite zlen_cons. destruct ((c =? 10) || (c =? 13)); [|reflexivity].
  intros H. rewrite IH by lia. reflexivity.
Qed.

Lemma find_blank_app_lt l d' : forall i en i', find_blank l i = Some (en, i') ->
  i' < i + zlen l -> find_blank (l ++ d') i = Some (en, i').
Proof.
  induction l as [|c l' IH]; intros i en i' H Hlt; [discriminate|].
  cbn [find_blank] in H. cbn [app find_blank]. rewrite zlen_cons in Hlt.
  assert (R : find_blank l' (i + 1) = Some (en, i') -> find_blank (l' ++ d') (i + 1) = Some (en, i')).
  { intros H'. apply IH; [exact H'|lia]. }
  destruct (c =? 10); [|exact (R H)].
  destruct l' as [|c1 l2]; [discriminate|].
  cbn [app]. destruct (c1 =? 10) eqn:E1.
  - injection H as <- <-. rewrite !zlen_cons in Hlt. rewrite skip_nl_app_lt by lia. reflexivity.
  - destruct l2 as [|c2 l3].
    + cbn [find_blank] in H. rewrite E1 in H. discriminate.
    + cbn [app]. destruct ((c1 =? 13) && (c2 =? 10)).
      * injection H as <- <-. rewrite !zlen_cons in Hlt. rewrite skip_nl_app_lt by lia. reflexivity.
      * exact (R H).
Qed.

Lemma skip_nl_all d : zlen d <= skip_nl d -> Forall (fun c => is_nl c = true) d.
Proof.
  induction d as [|c x IH]; [constructor|].
  cbn [skip_nl]. rewrite zlen_cons. destruct ((c =? 10) || (c =? 13)) eqn:E.
  - intros H. constructor; [exact E|]. apply IH. lia.
  - pose proof (zlen_nonneg x). lia.
Qed.

(* ---------- closed form of blankLineSplitter.scan ---------- *)

Definition blank_pure (d : bytes) (e : bool) : raw :=
  if e && nilb d then (0, None, None) else
  let i := skip_nl d in
  if zlen d <=? i then (i, None, None) else
  match find_blank (zdrop i d) i with
  | Some (en, i') =>
      if (zlen d <=? i') && negb e then (0, None, None) else
      (i', Some (strip_last 13 (ztake (en - i) (zdrop i d))), Some (ztake (i' - en) (zdrop en d)))
  | None =>
      if e then
        let tok := strip_last 13 (strip_last 10 (zdrop i d)) in
        (zlen d, Some tok, Some (zdrop (i + zlen tok) d))
      else (0, None, None)
  end.

Lemma blank_scan_closed d e : blank_scan d e = Ok (blank_pure d e).
Proof.
  unfold blank_scan, blank_pure. rewrite zlen_eqb_0.
  destruct (e && nilb d); [reflexivity|].
  pose proof (skip_nl_bounds d) as Hi.
  destruct (zlen d <=? skip_nl d) eqn:Hall; [reflexivity|]. apply Z.leb_gt in Hall.
  destruct (find_blank (zdrop (skip_nl d) d) (skip_nl d)) as [[en i']|] eqn:Hf.
  - apply find_blank_bounds in Hf. rewrite zlen_zdrop in Hf by lia.
    destruct ((zlen d <=? i') && negb e); [reflexivity|].
    rewrite slice_ok by lia. cbn [rbind]. rewrite slice_ok by lia. cbn [rbind].
    unfold drop_cr. rewrite drop_last_ok. reflexivity.
  - destruct e; [|reflexivity].
    rewrite slice_ok by lia. cbn [rbind].
    rewrite ztake_all by (rewrite zlen_zdrop by lia; lia).
    unfold drop_lf, drop_cr. rewrite drop_last_ok. cbn [rbind]. rewrite drop_last_ok. cbn [rbind].
    set (tok := strip_last 13 (strip_last 10 (zdrop (skip_nl d) d))).
    assert (skip_nl d + zlen tok <= zlen d).
    { unfold tok. pose proof (zlen_strip_last 13 (strip_last 10 (zdrop (skip_nl d) d))).
      pose proof (zlen_strip_last 10 (zdrop (skip_nl d) d)). rewrite zlen_zdrop in * by lia. lia. }
    pose proof (zlen_nonneg tok).
    rewrite slice_ok by lia. cbn [rbind].
    rewrite ztake_all by (rewrite zlen_zdrop by lia; lia).
    reflexivity.
Qed.

(* RS = "" as goawk sees it: tokens ($0, RT); RT default "" is always overwritten *)
Definition blank_full : splitfn unit record := to_split [] blank_scan.

Definition full_of (st : unit) (r : raw) : sres unit record :=
  match r with
  | (adv, tok, rtw) => SOk adv (option_map (fun t => (t, match rtw with Some r => r | None => [] end)) tok) st
  end.

Lemma blank_full_closed st d e : blank_full st d e = full_of st (blank_pure d e).
Proof.
  unfold blank_full, to_split. rewrite blank_scan_closed.
  destruct (blank_pure d e) as [[adv tok] rtw]. reflexivity.
Qed.

Notation fshift := (shift unit record).

(* at EOF a leading newline character is passed over *)
Lemma blank_full_nl st c x : is_nl c = true -> blank_full st (c :: x) true = fshift 1 (blank_full st x true).
Proof.
  intros Hc. set (e := true). rewrite !blank_full_closed. unfold blank_pure.
  cbn [nilb skip_nl]. unfold is_nl in Hc. rewrite Hc. rewrite andb_false_r.
  replace (negb e) with false by reflexivity.
  pose proof (skip_nl_bounds x) as Hi. rewrite zlen_cons.
  destruct (e && nilb x) eqn:Hex.
  - apply andb_true_iff in Hex as [_ Hx]. apply nilb_true in Hx. subst x.
    cbn [skip_nl]. rewrite zlen_nil. reflexivity.
  - replace (1 + zlen x <=? 1 + skip_nl x) with (zlen x <=? skip_nl x)
      by (destruct (zlen x <=? skip_nl x) eqn:E; symmetry; [apply Z.leb_le; apply Z.leb_le in E; lia|apply Z.leb_gt; apply Z.leb_gt in E; lia]).
    destruct (zlen x <=? skip_nl x) eqn:Hall; [reflexivity|]. apply Z.leb_gt in Hall.
    rewrite zdrop_cons by lia.
    replace (1 + skip_nl x) with (skip_nl x + 1) by lia. rewrite find_blank_shift.
    destruct (find_blank (zdrop (skip_nl x) x) (skip_nl x)) as [[en i']|] eqn:Hf; cbn [shift2].
    + apply find_blank_bounds in Hf. rewrite !andb_false_r.
      cbn [full_of option_map shift].
      replace (i' + 1 - (en + 1)) with (i' - en) by lia.
      replace (i' + 1) with (1 + i') by lia.
      replace (en + 1 - (skip_nl x + 1)) with (en - skip_nl x) by lia.
      replace (en + 1) with (1 + en) by lia. rewrite zdrop_cons by lia. reflexivity.
    + subst e. cbn [full_of option_map shift].
      set (tok := strip_last 13 (strip_last 10 (zdrop (skip_nl x) x))). pose proof (zlen_nonneg tok).
      replace (skip_nl x + 1 + zlen tok) with (1 + (skip_nl x + zlen tok)) by lia.
      rewrite zdrop_cons by lia. reflexivity.
Qed.

Lemma fshift_shift a b r : fshift a (fshift b r) = fshift (a + b) r.
Proof. destruct r; [|reflexivity]. cbn [shift]. f_equal. lia. Qed.

Lemma blank_full_skips st p : Forall (fun c => is_nl c = true) p -> skips unit record blank_full st p.
Proof.
  induction 1 as [|c p Hc Hp IH]; [apply skips_nil|].
  intros x. cbn [app]. rewrite blank_full_nl by exact Hc. rewrite IH, fshift_shift.
  rewrite zlen_cons. reflexivity.
Qed.

Ltac wb_none := eexists _, _, _; split; [reflexivity|]; split; [lia|intros H; exfalso; apply H; reflexivity].
Ltac wb_some := eexists _, _, _; split; [reflexivity|]; split; [lia|intros _; lia].

Lemma blank_full_wb : wb unit record blank_full.
Proof.
  split.
  - intros st d e. rewrite blank_full_closed. unfold blank_pure.
    pose proof (skip_nl_bounds d) as Hi.
    destruct (e && nilb d); [wb_none|].
    destruct (zlen d <=? skip_nl d) eqn:Hall; [wb_none|].
    apply Z.leb_gt in Hall.
    destruct (find_blank (zdrop (skip_nl d) d) (skip_nl d)) as [[en i']|] eqn:Hf.
    + apply find_blank_bounds in Hf. rewrite zlen_zdrop in Hf by lia.
      destruct ((zlen d <=? i') && negb e); [wb_none|wb_some].
    + destruct e; [wb_some|wb_none].
  - intros st. rewrite blank_full_closed. reflexivity.
Qed.

(* a record decided before EOF is decided identically, RT included, on any extension *)
Lemma blank_full_tok : forall d st adv t st', blank_full st d false = SOk adv (Some t) st' ->
  forall d', blank_full st (d ++ d') true = SOk adv (Some t) st'.
Proof.
  intros d st adv t st' Hs d'. rewrite blank_full_closed in Hs. rewrite blank_full_closed.
  unfold blank_pure in *. cbn [andb negb] in Hs.
  pose proof (skip_nl_bounds d) as Hi.
  destruct (zlen d <=? skip_nl d) eqn:Hall; [discriminate|]. apply Z.leb_gt in Hall.
  destruct (find_blank (zdrop (skip_nl d) d) (skip_nl d)) as [[en i']|] eqn:Hf; [|discriminate].
  rewrite andb_true_r in Hs.
  destruct (zlen d <=? i') eqn:Htouch; [discriminate|]. apply Z.leb_gt in Htouch.
  cbn [full_of option_map] in Hs. injection Hs as <- <- <-.
  assert (Hnn : nilb (d ++ d') = false) by (destruct d; [cbn in Hall; lia|reflexivity]).
  rewrite Hnn. cbn [andb negb]. rewrite skip_nl_app_lt by exact Hall.
  rewrite zlen_app. pose proof (zlen_nonneg d').
  replace (zlen d + zlen d' <=? skip_nl d) with false by (symmetry; apply Z.leb_gt; lia).
  rewrite zdrop_app_le by lia.
  rewrite (find_blank_app_lt _ d' _ _ _ Hf) by (rewrite zlen_zdrop by lia; lia).
  apply find_blank_bounds in Hf. rewrite zlen_zdrop in Hf by lia.
  rewrite andb_false_r.
  cbn [full_of option_map].
  rewrite (ztake_app_le (en - skip_nl d)) by (rewrite zlen_zdrop by lia; lia).
  rewrite (zdrop_app_le en) by lia.
  rewrite (ztake_app_le (i' - en)) by (rewrite zlen_zdrop by lia; lia).
  reflexivity.
Qed.

Lemma blank_full_more : forall d st adv st', blank_full st d false = SOk adv None st' ->
  forall d', blank_full st (d ++ d') true = fshift adv (blank_full st' (zdrop adv d ++ d') true).
Proof.
  intros d st adv st' Hs d'. rewrite blank_full_closed in Hs.
  unfold blank_pure in Hs. cbn [andb negb] in Hs.
  pose proof (skip_nl_bounds d) as Hi.
  destruct (zlen d <=? skip_nl d) eqn:Hall.
  - apply Z.leb_le in Hall. cbn [full_of option_map] in Hs. injection Hs as <- <-.
    replace (skip_nl d) with (zlen d) by lia.
    rewrite (blank_full_skips st d (skip_nl_all d Hall)).
    rewrite zdrop_all by lia. reflexivity.
  - destruct (find_blank (zdrop (skip_nl d) d) (skip_nl d)) as [[en i']|] eqn:Hf.
    + rewrite andb_true_r in Hs. destruct (zlen d <=? i'); [|discriminate].
      cbn [full_of option_map] in Hs. injection Hs as <- <-. rewrite shift_0, zdrop_0. reflexivity.
    + cbn [full_of option_map] in Hs. injection Hs as <- <-. rewrite shift_0, zdrop_0. reflexivity.
Qed.

Theorem blank_full_stable : stable unit record blank_full.
Proof.
  split; [exact blank_full_wb| |].
  - intros st d adv t st' Hs d'. exists 0. split; [lia|]. split.
    + rewrite Z.add_0_r. exact (blank_full_tok d st adv t st' Hs d').
    + replace (ztake 0 (zdrop adv (d ++ d'))) with (@nil Z) by reflexivity. apply skips_nil.
  - intros st d adv st' Hs d'. exact (blank_full_more d st adv st' Hs d').
Qed.

(* ---------- observing tokens through a function preserves everything ---------- *)

Section StableMap.
  Variables St Tok1 Tok2 : Type.
  Variable g : Tok1 -> Tok2.
  Variable split1 : splitfn St Tok1.
  Variable split2 : splitfn St Tok2.
  Hypothesis split_map : forall st d e, split2 st d e = map_sres St Tok1 Tok2 g (split1 st d e).

  Lemma map_shift k r : map_sres St Tok1 Tok2 g (shift St Tok1 k r) = shift St Tok2 k (map_sres St Tok1 Tok2 g r).
  Proof. destruct r; reflexivity. Qed.

  Lemma wb_map : wb St Tok1 split1 -> wb St Tok2 split2.
  Proof.
    intros W. split.
    - intros st d e. destruct (wb_ok _ _ _ W st d e) as (adv & tok & st' & Hs & Hb & Hp).
      rewrite split_map, Hs. cbn [map_sres]. eexists _, _, _. split; [reflexivity|]. split; [exact Hb|].
      intros Ht. apply Hp. destruct tok; [discriminate|]. exfalso; apply Ht; reflexivity.
    - intros st. rewrite split_map, (wb_empty _ _ _ W). reflexivity.
  Qed.

  Lemma skips_map st p : skips St Tok1 split1 st p -> skips St Tok2 split2 st p.
  Proof. intros H x. rewrite !split_map, H, map_shift. reflexivity. Qed.

  Lemma stable_map : stable St Tok1 split1 -> stable St Tok2 split2.
  Proof.
    intros S. split; [exact (wb_map (st_wb _ _ _ S))| |].
    - intros st d adv t st' Hs d'. rewrite split_map in Hs.
      destruct (split1 st d false) as [a tok s|] eqn:E1; [|discriminate].
      cbn [map_sres] in Hs. destruct tok as [t1|]; [|discriminate]. cbn [option_map] in Hs.
      injection Hs as <- <- <-.
      destruct (st_tok _ _ _ S _ _ _ _ _ E1 d') as (k & Hk & H1 & H2).
      exists k. split; [exact Hk|]. split; [rewrite split_map, H1; reflexivity|exact (skips_map _ _ H2)].
    - intros st d adv st' Hs d'. rewrite split_map in Hs.
      destruct (split1 st d false) as [a tok s|] eqn:E1; [|discriminate].
      cbn [map_sres] in Hs. destruct tok as [t1|]; [discriminate|]. cbn [option_map] in Hs.
      injection Hs as <- <-.
      rewrite !split_map, (st_more _ _ _ S _ _ _ _ E1 d'), map_shift. reflexivity.
  Qed.
End StableMap.

(* the records goawk delivers (with RT) project onto the RT-less observation *)
Lemma to_split_rec_map rs f : forall st d e,
  to_split_rec f st d e = map_sres unit record bytes fst (to_split rs f st d e).
Proof.
  intros st d e. unfold to_split_rec, to_split.
  destruct (f d e) as [[[adv tok] rtw]| | |]; try reflexivity.
  destruct tok; reflexivity.
Qed.

(* ---------- RS = "" observed without RT ---------- *)

Definition blank_rec : splitfn unit bytes := to_split_rec blank_scan.

Definition rec_of (st : unit) (r : raw) : sres unit bytes :=
  match r with (adv, tok, _) => SOk adv tok st end.

Lemma blank_rec_closed st d e : blank_rec st d e = rec_of st (blank_pure d e).
Proof.
  unfold blank_rec, to_split_rec. rewrite blank_scan_closed.
  destruct (blank_pure d e) as [[adv tok] rt]. reflexivity.
Qed.

Lemma blank_rec_wb : wb unit bytes blank_rec.
Proof. exact (wb_map unit record bytes fst blank_full blank_rec (to_split_rec_map [] blank_scan) blank_full_wb). Qed.

Lemma blank_rec_skips st p : Forall (fun c => is_nl c = true) p -> skips unit bytes blank_rec st p.
Proof.
  intros H. exact (skips_map unit record bytes fst blank_full blank_rec (to_split_rec_map [] blank_scan) st p
                     (blank_full_skips st p H)).
Qed.

Theorem blank_rec_stable : stable unit bytes blank_rec.
Proof. exact (stable_map unit record bytes fst blank_full blank_rec (to_split_rec_map [] blank_scan) blank_full_stable). Qed.

(* at EOF, data that starts with a record byte *)
Lemma blank_rec_head st c x : is_nl c = false ->
  blank_rec st (c :: x) true =
    match find_blank (c :: x) 0 with
    | Some (en, i') => SOk i' (Some (strip_last 13 (ztake en (c :: x)))) st
    | None => SOk (zlen (c :: x)) (Some (strip_last 13 (strip_last 10 (c :: x)))) st
    end.
Proof.
  intros Hc. rewrite blank_rec_closed. unfold blank_pure.
  cbn [nilb skip_nl negb]. unfold is_nl in Hc. rewrite Hc. rewrite !andb_false_r.
  rewrite zlen_cons. pose proof (zlen_nonneg x).
  replace (1 + zlen x <=? 0) with false by (symmetry; apply Z.leb_gt; lia).
  rewrite zdrop_0. destruct (find_blank (c :: x) 0) as [[en i']|].
  - rewrite andb_false_r. cbn [rec_of]. rewrite Z.sub_0_r. reflexivity.
  - reflexivity.
Qed.

Lemma wb_of_rec rs f : wb unit bytes (to_split_rec f) -> wb unit record (to_split rs f).
Proof.
  intros W. split.
  - intros st d e. destruct (wb_ok _ _ _ W st d e) as (adv & tok & st' & Hs & Hb & Hp).
    rewrite (to_split_rec_map rs) in Hs.
    destruct (to_split rs f st d e) as [a t s|]; [|discriminate].
    cbn [map_sres] in Hs. injection Hs as <- Ht <-.
    eexists _, _, _. split; [reflexivity|]. split; [exact Hb|].
    intros Hn. apply Hp. rewrite <- Ht. destruct t; [discriminate|congruence].
  - intros st. pose proof (wb_empty _ _ _ W st) as Hs.
    rewrite (to_split_rec_map rs) in Hs.
    destruct (to_split rs f st [] false) as [a t s|]; [|discriminate].
    cbn [map_sres] in Hs. injection Hs as <- Ht <-. destruct t; [discriminate|reflexivity].
Qed.

(* ---------- RS = "": reconstruction of the input from ($0, RT) (input without CR) ---------- *)

Lemma strip_last_notin c d : ~ In c d -> strip_last c d = d.
Proof.
  induction d as [|x d IH]; [reflexivity|]. intros Hn. cbn [strip_last]. destruct d as [|y d].
  - destruct (x =? c) eqn:E; [|reflexivity]. apply Z.eqb_eq in E. exfalso. apply Hn. left. exact E.
  - rewrite IH; [reflexivity|]. intro H. apply Hn. right. exact H.
Qed.

Lemma strip_last_prefix c d : exists s, d = strip_last c d ++ s.
Proof.
  induction d as [|x d IH]; [exists []; reflexivity|]. cbn [strip_last]. destruct d as [|y d].
  - destruct (x =? c); [exists [x]|exists []]; reflexivity.
  - destruct IH as (s & Hs). exists s. cbn [app]. rewrite <- Hs. reflexivity.
Qed.

Lemma skip_nl_idem l : skip_nl (zdrop (skip_nl l) l) = 0.
Proof.
  induction l as [|c l IH]; [reflexivity|]. cbn [skip_nl].
  destruct ((c =? 10) || (c =? 13)) eqn:E.
  - rewrite zdrop_cons by apply skip_nl_bounds. exact IH.
  - rewrite zdrop_0. cbn [skip_nl]. rewrite E. reflexivity.
Qed.

(* after a paragraph and its terminator the data does not start with a newline *)
Lemma find_blank_rest l : forall i en i', find_blank l i = Some (en, i') ->
  skip_nl (zdrop (i' - i) l) = 0.
Proof.
  induction l as [|c l' IH]; intros i en i' H; [discriminate|].
  pose proof H as Hb. apply find_blank_bounds in Hb.
  cbn [find_blank] in H.
  assert (R : find_blank l' (i + 1) = Some (en, i') -> skip_nl (zdrop (i' - i) (c :: l')) = 0).
  { intros H'. pose proof H' as Hb'. apply find_blank_bounds in Hb'.
    replace (i' - i) with (1 + (i' - (i + 1))) by lia.
    rewrite zdrop_cons by lia. exact (IH _ _ _ H'). }
  destruct (c =? 10); [|exact (R H)].
  destruct l' as [|c1 l2]; [exact (R H)|].
  destruct (c1 =? 10).
  - injection H as <- <-. pose proof (skip_nl_bounds l2).
    replace (i + 2 + skip_nl l2 - i) with (1 + (1 + skip_nl l2)) by lia.
    rewrite !zdrop_cons by lia. apply skip_nl_idem.
  - destruct l2 as [|c2 l3]; [exact (R H)|].
    destruct ((c1 =? 13) && (c2 =? 10)); [|exact (R H)].
    injection H as <- <-. pose proof (skip_nl_bounds l3).
    replace (i + 3 + skip_nl l3 - i) with (1 + (1 + (1 + skip_nl l3))) by lia.
    rewrite !zdrop_cons by lia. apply skip_nl_idem.
Qed.

Lemma in_zdrop {A} (x : A) n l : In x (zdrop n l) -> In x l.
Proof. unfold zdrop. rewrite <- (firstn_skipn (Z.to_nat n) l) at 2. intros H. apply in_or_app. right. exact H. Qed.

Lemma in_ztake {A} (x : A) n l : In x (ztake n l) -> In x l.
Proof. unfold ztake. rewrite <- (firstn_skipn (Z.to_nat n) l) at 2. intros H. apply in_or_app. left. exact H. Qed.

Lemma ztake_add {A} a b (l : list A) : 0 <= a -> 0 <= b ->
  ztake (a + b) l = ztake a l ++ ztake b (zdrop a l).
Proof.
  intros Ha Hb. rewrite <- (ztake_zdrop a (ztake (a + b) l)). f_equal.
  - unfold ztake. rewrite firstn_firstn. f_equal. lia.
  - unfold ztake, zdrop. rewrite skipn_firstn_comm. f_equal. lia.
Qed.

(* what the records and their RT stand for: everything after the leading newlines *)
Lemma blank_full_consumes : forall n d, (length d <= n)%nat -> ~ In 13 d ->
  forall ts st' b', drainF unit record blank_full true tt d = (ts, DMore st' b') ->
  concat (map (fun t => fst t ++ snd t) ts) = zdrop (skip_nl d) d.
Proof.
  induction n as [|n IH]; intros d Hlen Hcr ts st' b' Hd;
    rewrite (drainF_wb _ _ _ blank_full_wb) in Hd;
    rewrite blank_full_closed in Hd; unfold blank_pure in Hd.
  - assert (d = []) by (destruct d; [reflexivity|cbn in Hlen; lia]). subst d.
    cbn in Hd. injection Hd as <- _ _. reflexivity.
  - pose proof (skip_nl_bounds d) as Hi.
    destruct (true && nilb d) eqn:Hnil.
    { cbn [andb] in Hnil. apply nilb_true in Hnil. subst d.
      cbn [full_of option_map] in Hd. injection Hd as <- _ _. reflexivity. }
    destruct (zlen d <=? skip_nl d) eqn:Hall.
    { apply Z.leb_le in Hall. cbn [full_of option_map] in Hd. injection Hd as <- _ _.
      rewrite zdrop_all by lia. reflexivity. }
    apply Z.leb_gt in Hall. set (i := skip_nl d) in *.
    destruct (find_blank (zdrop i d) i) as [[en i']|] eqn:Hf.
    + pose proof (find_blank_bounds _ _ _ _ Hf) as Hb. rewrite zlen_zdrop in Hb by lia.
      pose proof (find_blank_rest _ _ _ _ Hf) as Hrest.
      rewrite <- zdrop_zdrop in Hrest by lia. replace (i + (i' - i)) with i' in Hrest by lia.
      cbn [negb] in Hd. rewrite andb_false_r in Hd.
      cbn [full_of option_map] in Hd.
      rewrite strip_last_notin in Hd
        by (intro Hx; apply Hcr; exact (in_zdrop _ _ _ (in_ztake _ _ _ Hx))).
      destruct (drainF unit record blank_full true tt (zdrop i' d)) as [ts1 r1] eqn:E1.
      cbn [tcons fst snd] in Hd. injection Hd as <- ->.
      cbn [map concat fst snd].
      rewrite (IH (zdrop i' d)) with (ts := ts1) (st' := st') (b' := b').
      * rewrite Hrest, zdrop_0.
        replace (zdrop en d) with (zdrop (en - i) (zdrop i d))
          by (rewrite <- zdrop_zdrop by lia; f_equal; lia).
        replace (zdrop i' d) with (zdrop (i' - i) (zdrop i d))
          by (rewrite <- zdrop_zdrop by lia; f_equal; lia).
        rewrite <- ztake_add by lia. replace (en - i + (i' - en)) with (i' - i) by lia.
        apply ztake_zdrop.
      * assert (length (zdrop i' d) < length d)%nat by (apply length_zdrop_lt; lia). lia.
      * intro Hx. apply Hcr. exact (in_zdrop _ _ _ Hx).
      * exact E1.
    + cbn [full_of option_map] in Hd.
      rewrite (strip_last_notin 13) in Hd
        by (intro Hx; destruct (strip_last_prefix 10 (zdrop i d)) as (s & Hs); apply Hcr;
            apply (in_zdrop _ i); rewrite Hs; apply in_or_app; left; exact Hx).
      rewrite (zdrop_all (zlen d) d) in Hd by lia.
      rewrite (drainF_wb _ _ _ blank_full_wb) in Hd.
      rewrite blank_full_closed in Hd.
      replace (blank_pure [] true) with ((0, None, None) : raw) in Hd by reflexivity.
      cbn [full_of option_map tcons fst snd] in Hd.
      injection Hd as <- _ _. cbn [map concat fst snd]. rewrite app_nil_r.
      destruct (strip_last_prefix 10 (zdrop i d)) as (s & Hs).
      pose proof (zlen_nonneg (strip_last 10 (zdrop i d))).
      rewrite zdrop_zdrop by lia.
      remember (strip_last 10 (zdrop i d)) as t eqn:Ht. clear Ht. rewrite Hs.
      rewrite zdrop_zlen_app. reflexivity.
Qed.

(* RS = "", whole input at once, no CR: the leading newlines, then each record followed by its
   RT, reproduce the input *)
Theorem blank_reconstruct find data : ~ In 13 data ->
  ztake (skip_nl data) data ++
  concat (map (fun t => fst t ++ snd t) (fst (reference unit record (goawk_split [] find) tt data))) = data.
Proof.
  intros Hcr. unfold reference, finish.
  change (goawk_split [] find) with blank_full.
  destruct (drainF_wb_more _ _ _ blank_full_wb true tt data) as (ts & st' & b' & E). rewrite E.
  cbn [fst]. rewrite (blank_full_consumes (length data) data (le_n _) Hcr ts st' b' E).
  apply ztake_zdrop.
Qed.
