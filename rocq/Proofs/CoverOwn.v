(* C18 proofs, part 6: the blocks partition the statements.
   In the annotated tree a statement of a list is OWNED by the closest counter statement before
   it in that list.  Every statement has an owner, owners are the indices 1..n of the block
   table, and numStmts of block i = number of statements owned by counter i.  The statements
   (by start position, in order) are those of the original program. *)
From Coq Require Import Permutation.
From Verif Require Import Lib.Base Model.Cover Proofs.CoverBase Proofs.CoverStruct.

Section Own.
Context {E : Type}.

Section OwnLoop.
Variable g : cstmt E -> list (option Z * pos).
Fixpoint owned_list (cur : option Z) (l : list (cstmt E)) : list (option Z * pos) :=
  match l with
  | [] => []
  | SCover _ i :: t => owned_list (Some i) t
  | s :: t => (cur, start_of s) :: g s ++ owned_list cur t
  end.
End OwnLoop.
Fixpoint owned_in (s : cstmt E) : list (option Z * pos) :=
  match s with
  | SIf _ _ _ _ body els => owned_list owned_in None body ++ owned_list owned_in None els
  | SFor _ _ _ _ _ _ body | SForIn _ _ _ _ body | SWhile _ _ _ _ body
  | SDoWhile _ _ _ body | SBlock _ _ body => owned_list owned_in None body
  | _ => []
  end.
Definition owned (l : list (cstmt E)) : list (option Z * pos) := owned_list owned_in None l.
Definition owned_body (b : option (list (cstmt E))) : list (option Z * pos) :=
  match b with None => [] | Some l => owned l end.
Definition owned_prog (p : program E) : list (option Z * pos) :=
  concat (map owned (p_begin p)) ++ concat (map (fun a => owned_body (a_body a)) (p_actions p))
  ++ concat (map owned (p_end p)) ++ concat (map owned (p_funcs p)).

(* number of statements owned by counter j *)
Fixpoint cnt (j : Z) (O : list (option Z * pos)) : Z :=
  match O with
  | [] => 0
  | (Some k, _) :: t => (if k =? j then 1 else 0) + cnt j t
  | (None, _) :: t => cnt j t
  end.

Lemma cnt_app j a b : cnt j (a ++ b) = cnt j a + cnt j b.
Proof. induction a as [|[[k|] p] a IH]; cbn [app cnt]; lia. Qed.

Lemma cnt_perm j a b : Permutation a b -> cnt j a = cnt j b.
Proof.
  induction 1 as [|[[k|] p] a b _ IH|[[k1|] p1] [[k2|] p2] a|a b c _ IH1 _ IH2]; cbn [cnt]; lia.
Qed.

Lemma cnt_top j c (l : list (cstmt E)) :
  cnt j (map (fun s => (Some c, start_of s)) l) = if c =? j then zlen l else 0.
Proof.
  induction l as [|s t IH]; cbn [map cnt]; [destruct (c =? j); reflexivity|].
  rewrite IH, zlen_cons. destruct (c =? j); lia.
Qed.

Lemma cnt_zero j O : (forall k p, In (Some k, p) O -> k <> j) -> cnt j O = 0.
Proof.
  induction O as [|[[k|] p] O IH]; cbn [cnt]; intros H; [reflexivity| |].
  - rewrite IH by (intros k' p' Hin; apply (H k' p'); right; exact Hin).
    destruct (k =? j) eqn:Hk; [|reflexivity]. apply Z.eqb_eq in Hk. exfalso. apply (H k p); [left; reflexivity|exact Hk].
  - apply IH. intros k' p' Hin. apply (H k' p'). right. exact Hin.
Qed.

Lemma owned_list_plain_cons g c (s : cstmt E) t : plain s ->
  owned_list g c (s :: t) = (c, start_of s) :: g s ++ owned_list g c t.
Proof. destruct s; cbn; intros H; try reflexivity; discriminate H. Qed.

Lemma owned_list_app_plain g c (l1 l2 : list (cstmt E)) : Forall plain l1 ->
  owned_list g c (l1 ++ l2) = owned_list g c l1 ++ owned_list g c l2.
Proof.
  induction 1 as [|s t Hs _ IH]; [reflexivity|].
  cbn [app]. rewrite !owned_list_plain_cons by exact Hs. rewrite IH. cbn [app]. rewrite <- app_assoc. reflexivity.
Qed.

Lemma owned_list_plain_perm g c (l : list (cstmt E)) : Forall plain l ->
  Permutation (owned_list g c l) (map (fun s => (c, start_of s)) l ++ concat (map g l)).
Proof.
  induction 1 as [|s t Hs _ IH]; [constructor|].
  rewrite owned_list_plain_cons by exact Hs. cbn [map concat app]. constructor.
  eapply Permutation_trans; [apply Permutation_app_head; exact IH|].
  rewrite !app_assoc. apply Permutation_app_tail. apply Permutation_app_comm.
Qed.

(* ---- the segment of the block table whose numStmts are accounted for ---- *)
Record OwnOK (bl bl' : list block) (O : list (option Z * pos)) : Prop := mkOwn {
  own_ext : exists new, bl' = bl ++ new;
  own_some : forall o p, In (o, p) O -> exists j, o = Some j /\ zlen bl < j <= zlen bl';
  own_num : forall j b, zlen bl < j -> nth_error bl' (Z.to_nat (j - 1)) = Some b -> b_num b = cnt j O }.

Lemma OwnOK_nil bl : OwnOK bl bl [].
Proof.
  constructor.
  - exists []. rewrite app_nil_r. reflexivity.
  - intros o p [].
  - intros j b Hj Hb. exfalso.
    assert ((Z.to_nat (j - 1) < length bl)%nat) by (apply nth_error_Some; congruence). unfold zlen in Hj. lia.
Qed.

Lemma OwnOK_perm bl bl' O O' : Permutation O O' -> OwnOK bl bl' O -> OwnOK bl bl' O'.
Proof.
  intros HP [X S N]. constructor; [exact X| |].
  - intros o p Hin. apply (S o p). eapply Permutation_in; [apply Permutation_sym; exact HP|exact Hin].
  - intros j b Hj Hb. rewrite (N j b Hj Hb). apply cnt_perm. exact HP.
Qed.

Lemma OwnOK_app bl bl1 bl2 O1 O2 : OwnOK bl bl1 O1 -> OwnOK bl1 bl2 O2 -> OwnOK bl bl2 (O1 ++ O2).
Proof.
  intros [[n1 E1] S1 N1] [[n2 E2] S2 N2].
  assert (Hz1 : zlen bl <= zlen bl1) by (subst bl1; rewrite zlen_app; pose proof (zlen_nonneg n1); lia).
  assert (Hz2 : zlen bl1 <= zlen bl2) by (subst bl2; rewrite zlen_app; pose proof (zlen_nonneg n2); lia).
  constructor.
  - exists (n1 ++ n2). subst. rewrite app_assoc. reflexivity.
  - intros o p Hin. apply in_app_or in Hin as [Hin|Hin].
    + destruct (S1 o p Hin) as (j & Ho & Hj). exists j. split; [exact Ho|lia].
    + destruct (S2 o p Hin) as (j & Ho & Hj). exists j. split; [exact Ho|lia].
  - intros j b Hj Hb. rewrite cnt_app. destruct (Z_le_gt_dec j (zlen bl1)) as [Hle|Hgt].
    + rewrite (cnt_zero j O2).
      * rewrite Z.add_0_r. apply N1; [exact Hj|]. rewrite E2 in Hb. rewrite nth_error_app1 in Hb; [exact Hb|]. pose proof (zlen_nonneg bl). unfold zlen in *. lia.
      * intros k p Hin Hk. destruct (S2 _ _ Hin) as (j' & Ho & Hj'). inversion Ho; subst. lia.
    + rewrite (cnt_zero j O1).
      * apply N2; [lia|exact Hb].
      * intros k p Hin Hk. destruct (S1 _ _ Hin) as (j' & Ho & Hj'). inversion Ho; subst. lia.
Qed.

(* one chunk: counter idx = zlen bl + 1 owns the top-level statements of [l] *)
Lemma OwnOK_chunk bl b (l : list (cstmt E)) : b_num b = zlen l ->
  OwnOK bl (bl ++ [b]) (map (fun s => (Some (zlen bl + 1), start_of s)) l).
Proof.
  intros Hn. constructor.
  - exists [b]. reflexivity.
  - intros o p Hin. apply in_map_iff in Hin as (s & Hs & _). inversion Hs; subst.
    exists (zlen bl + 1). split; [reflexivity|]. rewrite zlen_app, zlen_cons, zlen_nil. lia.
  - intros j b' Hj Hb'.
    assert (Hlt : (Z.to_nat (j - 1) < length (bl ++ [b]))%nat) by (apply nth_error_Some; congruence).
    rewrite app_length in Hlt. cbn [length] in Hlt. unfold zlen in Hj.
    assert (Hj' : j = zlen bl + 1) by (unfold zlen; lia). subst j.
    replace (zlen bl + 1 - 1) with (zlen bl) in Hb' by lia. unfold zlen in Hb' at 1. rewrite Nat2Z.id in Hb'.
    rewrite nth_error_app2 in Hb' by lia. rewrite Nat.sub_diag in Hb'. cbn in Hb'. inversion Hb'; subst b'.
    rewrite cnt_top, Z.eqb_refl. exact Hn.
Qed.

Variable files : ftable.
Variable mode : cmode.
Notation ann_loop := (@ann_loop E files mode).
Notation ann_stmt := (@ann_stmt E files mode).
Notation ann_stmts := (@ann_stmts E files mode).

Definition nested_owned (l : list (cstmt E)) : list (option Z * pos) := concat (map owned_in l).

Lemma nested_owned_app a b : nested_owned (a ++ b) = nested_owned a ++ nested_owned b.
Proof. unfold nested_owned. rewrite map_app, concat_app. reflexivity. Qed.

Definition own_stmt (s : cstmt E) : Prop := forall bl,
  plain (fst (fst (ann_stmt s bl)))
  /\ OwnOK bl (snd (fst (ann_stmt s bl))) (owned_in (fst (fst (ann_stmt s bl)))).

(* the output of the loop is empty or starts with a counter *)
Definition heads_ok (out : list (cstmt E)) : Prop :=
  out = [] \/ exists m i t, out = SCover m i :: t.

Lemma owned_list_heads g c out : heads_ok out -> owned_list g c out = owned_list g None out.
Proof. intros [->|(m & i & t & ->)]; reflexivity. Qed.

Lemma AL_own ss bl pend out bl' : AL files mode ann_stmt ss bl pend out bl' ->
  Forall own_stmt ss ->
  forall bl0, Forall plain pend -> OwnOK bl0 bl (nested_owned pend) ->
  heads_ok out /\ OwnOK bl0 bl' (owned_list owned_in None out).
Proof.
  induction 1 as [bl | bl p ps b Hb | s t bl pend s' bl1 out bl' Hf HAL IH
                 | s t bl pend s' bl1 b out bl' Hf Hb HAL IH]; intros HF bl0 HP HO.
  - split; [left; reflexivity|exact HO].
  - split; [right; eauto|].
    change (owned_list owned_in None (SCover mode (zlen bl + 1) :: p :: ps))
      with (owned_list owned_in (Some (zlen bl + 1)) (p :: ps)).
    eapply OwnOK_perm; [apply Permutation_sym, owned_list_plain_perm; exact HP|].
    eapply OwnOK_perm; [apply Permutation_app_comm|].
    eapply OwnOK_app; [exact HO|]. apply OwnOK_chunk. destruct Hb as (Hn & _). exact Hn.
  - inversion HF as [|? ? Hs Ht]; subst. destruct (Hs bl) as [Hpl Hown]. rewrite Hf in Hpl, Hown. cbn [fst snd] in Hpl, Hown.
    apply (IH Ht bl0).
    + apply Forall_app; split; [exact HP|constructor; [exact Hpl|constructor]].
    + rewrite nested_owned_app. unfold nested_owned at 2. cbn [map concat]. rewrite app_nil_r.
      eapply OwnOK_app; [exact HO|exact Hown].
  - inversion HF as [|? ? Hs Ht]; subst. destruct (Hs bl) as [Hpl Hown]. rewrite Hf in Hpl, Hown. cbn [fst snd] in Hpl, Hown.
    assert (HP' : Forall plain (pend ++ [s'])) by (apply Forall_app; split; [exact HP|constructor; [exact Hpl|constructor]]).
    destruct (IH Ht (bl1 ++ [b]) (Forall_nil _) (OwnOK_nil _)) as [Hh Ho2].
    split; [right; eauto|].
    change (owned_list owned_in None (SCover mode (zlen bl1 + 1) :: (pend ++ [s']) ++ out))
      with (owned_list owned_in (Some (zlen bl1 + 1)) ((pend ++ [s']) ++ out)).
    rewrite owned_list_app_plain by exact HP'. rewrite (owned_list_heads _ _ _ Hh).
    eapply OwnOK_app; [|exact Ho2].
    eapply OwnOK_perm; [apply Permutation_sym, owned_list_plain_perm; exact HP'|].
    eapply OwnOK_perm; [apply Permutation_app_comm|].
    eapply OwnOK_app; [|apply OwnOK_chunk; destruct Hb as (Hn & _); exact Hn].
    fold (nested_owned (pend ++ [s'])). rewrite nested_owned_app. unfold nested_owned at 2. cbn [map concat]. rewrite app_nil_r.
    eapply OwnOK_app; [exact HO|exact Hown].
Qed.

Lemma ann_stmts_own body bl : Forall own_stmt body ->
  OwnOK bl (snd (ann_stmts body bl)) (owned (fst (ann_stmts body bl))).
Proof.
  intros HF. unfold Cover.ann_stmts.
  exact (proj2 (AL_own _ _ _ _ _ (ann_loop_AL files mode ann_stmt body bl []) HF bl (Forall_nil _) (OwnOK_nil bl))).
Qed.

Lemma forallb_own (l : list (cstmt E)) :
  Forall (fun s => nocov s = true -> own_stmt s) l -> forallb nocov l = true -> Forall own_stmt l.
Proof.
  induction 1 as [|x l Hx _ IH]; intros H; [constructor|].
  cbn [forallb] in H. apply andb_prop in H as [H1 H2]. constructor; auto.
Qed.

Lemma own_all (s : cstmt E) : nocov s = true -> own_stmt s.
Proof.
  induction s using cstmt_ind'; intros Hn bl; cbn [nocov] in Hn.
  - split; [reflexivity|apply OwnOK_nil].
  - apply andb_prop in Hn as [Hn1 Hn2].
    rewrite ann_stmt_if. cbn [fst snd]. split; [reflexivity|]. cbn [owned_in].
    eapply OwnOK_app; [apply (ann_stmts_own body bl (forallb_own _ H Hn1))|apply (ann_stmts_own els _ (forallb_own _ H0 Hn2))].
  - rewrite ann_stmt_for. cbn [fst snd]. split; [reflexivity|]. apply (ann_stmts_own body bl (forallb_own _ H Hn)).
  - rewrite ann_stmt_forin. cbn [fst snd]. split; [reflexivity|]. apply (ann_stmts_own body bl (forallb_own _ H Hn)).
  - rewrite ann_stmt_while. cbn [fst snd]. split; [reflexivity|]. apply (ann_stmts_own body bl (forallb_own _ H Hn)).
  - rewrite ann_stmt_do. cbn [fst snd]. split; [reflexivity|]. apply (ann_stmts_own body bl (forallb_own _ H Hn)).
  - rewrite ann_stmt_block. cbn [fst snd]. split; [reflexivity|]. apply (ann_stmts_own body bl (forallb_own _ H Hn)).
  - discriminate Hn.
Qed.

Lemma ann_stmts_own_top l bl : forallb nocov l = true ->
  OwnOK bl (snd (ann_stmts l bl)) (owned (fst (ann_stmts l bl))).
Proof.
  intros Hn. apply ann_stmts_own. apply forallb_own; [|exact Hn].
  apply Forall_forall. intros s _. apply own_all.
Qed.

Notation ann_lists := (@ann_lists E files mode).
Notation ann_actions := (@ann_actions E files mode).
Notation ann_body := (@ann_body E files mode).

Lemma ann_lists_own ls : forallb (forallb nocov) ls = true -> forall bl,
  OwnOK bl (snd (ann_lists ls bl)) (concat (map owned (fst (ann_lists ls bl)))).
Proof.
  induction ls as [|l t IH]; intros Hn bl; [apply OwnOK_nil|].
  cbn [forallb] in Hn. apply andb_prop in Hn as [H1 H2].
  rewrite ann_lists_cons. cbn [fst snd map concat].
  eapply OwnOK_app; [apply ann_stmts_own_top; exact H1|apply IH; exact H2].
Qed.

Lemma ann_body_own b bl : nocov_body b = true ->
  OwnOK bl (snd (ann_body b bl)) (owned_body (fst (ann_body b bl))).
Proof.
  destruct b as [l|]; cbn [nocov_body Cover.ann_body]; intros Hn; [|apply OwnOK_nil].
  pose proof (ann_stmts_own_top l bl Hn) as H. destruct (ann_stmts l bl) as [r bl1]. cbn [fst snd] in *.
  exact H.
Qed.

Lemma ann_actions_own acts : forallb (fun a => nocov_body (a_body a)) acts = true -> forall bl,
  OwnOK bl (snd (ann_actions acts bl)) (concat (map (fun a => owned_body (a_body a)) (fst (ann_actions acts bl)))).
Proof.
  induction acts as [|a t IH]; intros Hn bl; [apply OwnOK_nil|].
  cbn [forallb] in Hn. apply andb_prop in Hn as [H1 H2].
  rewrite ann_actions_cons. cbn [fst snd map concat a_body].
  eapply OwnOK_app; [apply ann_body_own; exact H1|apply IH; exact H2].
Qed.

(* owners and tags decorate the same statements *)
Lemma owned_tagged_list (l : list (cstmt E)) :
  Forall (fun s => map snd (owned_in s) = map snd (tagged_in s)) l ->
  forall c prev, map snd (owned_list owned_in c l) = map snd (tagged_list tagged_in prev l).
Proof.
  induction 1 as [|s t Hs _ IH]; intros c prev; [reflexivity|].
  destruct s; cbn [owned_list tagged_list]; try (cbn [map snd]; rewrite !map_app, Hs, (IH c None); reflexivity).
  apply IH.
Qed.

Lemma owned_tagged (s : cstmt E) : map snd (owned_in s) = map snd (tagged_in s).
Proof.
  induction s using cstmt_ind'; cbn [owned_in tagged_in]; try reflexivity.
  - rewrite !map_app, (owned_tagged_list body H None None), (owned_tagged_list els H0 None None). reflexivity.
  - apply (owned_tagged_list body H).
  - apply (owned_tagged_list body H).
  - apply (owned_tagged_list body H).
  - apply (owned_tagged_list body H).
  - apply (owned_tagged_list body H).
Qed.

Lemma owned_tagged_stmts (l : list (cstmt E)) : map snd (owned l) = map snd (tagged l).
Proof. apply owned_tagged_list. apply Forall_forall. intros s _. apply owned_tagged. Qed.

Lemma owned_tagged_lists (ls : list (list (cstmt E))) :
  map snd (concat (map owned ls)) = map snd (concat (map tagged ls)).
Proof. induction ls as [|l t IH]; [reflexivity|]. cbn [map concat]. rewrite !map_app, IH, owned_tagged_stmts. reflexivity. Qed.

Lemma owned_tagged_prog (p : program E) : map snd (owned_prog p) = map snd (tagged_prog p).
Proof.
  unfold owned_prog, tagged_prog. rewrite !map_app, !owned_tagged_lists. f_equal. f_equal.
  induction (p_actions p) as [|a t IH]; [reflexivity|]. cbn [map concat]. rewrite !map_app, IH.
  destruct (a_body a) as [l|]; [cbn [owned_body tagged_body]; rewrite owned_tagged_stmts|]; reflexivity.
Qed.

(* ---- the partition theorem ---- *)
Theorem partition (P : program E) : nocov_prog P = true ->
  let A := fst (annotate files mode P) in
  let B := snd (annotate files mode P) in
  (* every statement is owned by a counter whose index is a block of the table *)
  (forall o p, In (o, p) (owned_prog A) -> exists j, o = Some j /\ 1 <= j <= zlen B)
  (* numStmts of block j = number of statements owned by counter j *)
  /\ (forall j b, 1 <= j -> nth_error B (Z.to_nat (j - 1)) = Some b -> b_num b = cnt j (owned_prog A))
  (* and these statements are the statements of P, in order *)
  /\ map snd (owned_prog A) = map snd (tagged_prog P).
Proof.
  intros Hall A B. pose proof Hall as Hn. unfold nocov_prog in Hn.
  apply andb_prop in Hn as [Hn H4]. apply andb_prop in Hn as [Hn H3]. apply andb_prop in Hn as [H1 H2].
  assert (HO : OwnOK [] B (owned_prog A)).
  { unfold A, B. rewrite annotate_eq. cbn zeta. cbn [fst snd]. unfold owned_prog. cbn [p_begin p_actions p_end p_funcs].
    eapply OwnOK_app; [apply ann_lists_own; exact H1|].
    eapply OwnOK_app; [apply ann_actions_own; exact H2|].
    eapply OwnOK_app; [apply ann_lists_own; exact H3|apply ann_lists_own; exact H4]. }
  destruct HO as [_ S N]. rewrite zlen_nil in S, N.
  split; [|split].
  - intros o p Hin. destruct (S o p Hin) as (j & Ho & Hj). exists j. split; [exact Ho|lia].
  - intros j b Hj Hb. apply N; [lia|exact Hb].
  - rewrite owned_tagged_prog. exact (ao_tags _ _ _ _ _ (annotate_ok files mode P Hall)).
Qed.

End Own.

(* ---- the annotation keeps the block structure of the program ---- *)
(* as many BEGIN blocks, rules, END blocks and functions as before; every rule keeps its pattern
   and has an action body exactly when it had one; a BEGIN / END / function body is empty exactly
   when it was empty.  (So "BEGIN-only program", "has an END block", "rule without action" --
   the facts the interpreter's driver looks at -- are unchanged.) *)
Theorem block_structure {E : Type} files mode (P : program E) : nocov_prog P = true ->
  let A := fst (annotate files mode P) in
  let same_shape := fun (l' l : list (cstmt E)) => l' = [] <-> l = [] in
  Forall2 same_shape (p_begin A) (p_begin P)
  /\ Forall2 same_shape (p_end A) (p_end P)
  /\ Forall2 same_shape (p_funcs A) (p_funcs P)
  /\ Forall2 (fun a' a => a_pat a' = a_pat a
                /\ match a_body a', a_body a with
                   | None, None => True
                   | Some l', Some l => l' = [] <-> l = []
                   | _, _ => False
                   end) (p_actions A) (p_actions P).
Proof.
  intros Hn A same_shape. destruct (annotate_ok files mode P Hn) as [Hb Ha He Hf _ _ _]. fold A in Hb, Ha, He, Hf.
  assert (HL : forall ls' ls, Forall2 (list_rel mode) ls' ls -> Forall2 same_shape ls' ls).
  { induction 1 as [|l' l t' t (_ & _ & R3 & R4) _ IH]; constructor; [split; assumption|exact IH]. }
  split; [apply HL; exact Hb|]. split; [apply HL; exact He|]. split; [apply HL; exact Hf|].
  clear -Ha. induction Ha as [|a' a t' t [Hp Hb] _ IH]; constructor; [|exact IH].
  split; [exact Hp|]. unfold body_rel in Hb.
  destruct (a_body a) as [l|], (a_body a') as [l'|]; try contradiction; [|exact I].
  destruct Hb as (Hemp & _). split; apply Hemp.
Qed.
