(* C17: z_to_dec (strconv.FormatInt(z, 10), the string form of an integral AWK number) really
   is the decimal numeral of z. *)
From Verif Require Import Lib.Base Lib.Dyadic Model.Native.

Fixpoint dec_val_acc (acc : Z) (l : bytes) : Z :=
  match l with [] => acc | d :: r => dec_val_acc (acc * 10 + (d - 48)) r end.

(* the integer a numeral denotes: optional '-' then digits *)
Definition dec_value (l : bytes) : Z :=
  match l with 45 :: r => - dec_val_acc 0 r | _ => dec_val_acc 0 l end.

Definition is_digit (d : Z) : Prop := 48 <= d <= 57.

Lemma dec_val_acc_app l1 : forall a l2, dec_val_acc a (l1 ++ l2) = dec_val_acc (dec_val_acc a l1) l2.
Proof. induction l1 as [|d l1 IH]; intros a l2; cbn [app dec_val_acc]; [reflexivity|apply IH]. Qed.

Lemma dec_digits_spec : forall fuel z acc,
  0 <= z < 10 ^ Z.of_nat fuel -> (1 <= fuel)%nat ->
  exists ds, dec_digits fuel z acc = ds ++ acc /\ ds <> [] /\ Forall is_digit ds /\
             forall a, dec_val_acc a ds = a * 10 ^ zlen ds + z.
Proof.
  induction fuel as [|f IH]; intros z acc Hz Hf; [lia|].
  cbn [dec_digits]. destruct (z <? 10) eqn:E; [apply Z.ltb_lt in E|apply Z.ltb_ge in E].
  - exists [48 + z mod 10]. rewrite Z.mod_small by lia. repeat split.
    + discriminate.
    + constructor; [unfold is_digit; lia|constructor].
    + intros a. cbn [dec_val_acc]. change (zlen [48 + z]) with 1. lia.
  - assert (Hf1 : (1 <= f)%nat).
    { destruct f; [|lia]. change (10 ^ Z.of_nat 1) with 10 in Hz. lia. }
    assert (Hq : 0 <= z / 10 < 10 ^ Z.of_nat f).
    { split; [apply Z.div_pos; lia|]. apply Z.div_lt_upper_bound; [lia|].
      replace (Z.of_nat (S f)) with (Z.of_nat f + 1) in Hz by lia.
      rewrite Z.pow_add_r in Hz by lia. lia. }
    destruct (IH (z / 10) ((48 + z mod 10) :: acc) Hq Hf1) as (ds & E1 & Hne & Hd & Hv).
    exists (ds ++ [48 + z mod 10]). rewrite E1, <- app_assoc. repeat split.
    + destruct ds; discriminate.
    + apply Forall_app. split; [exact Hd|]. constructor; [|constructor].
      unfold is_digit. pose proof (Z.mod_pos_bound z 10). lia.
    + intros a. rewrite dec_val_acc_app, Hv. cbn [dec_val_acc]. rewrite zlen_app.
      change (zlen [48 + z mod 10]) with 1. rewrite Z.pow_add_r by (try apply zlen_nonneg; lia).
      pose proof (Z.div_mod z 10). lia.
Qed.

Theorem z_to_dec_value z : Z.abs z < 10 ^ 20 -> dec_value (z_to_dec z) = z.
Proof.
  intros H. unfold z_to_dec. destruct (z <? 0) eqn:E; [apply Z.ltb_lt in E|apply Z.ltb_ge in E].
  - destruct (dec_digits_spec 20 (- z) []) as (ds & -> & _ & _ & Hv); [change (Z.of_nat 20) with 20; lia|lia|].
    rewrite app_nil_r. cbn [dec_value]. rewrite Hv. lia.
  - destruct (dec_digits_spec 20 z []) as (ds & -> & Hne & Hd & Hv); [change (Z.of_nat 20) with 20; lia|lia|].
    rewrite app_nil_r. unfold dec_value. destruct ds as [|d ds]; [congruence|].
    inversion Hd as [|? ? Hdig _]; subst. unfold is_digit in Hdig.
    destruct (Z.eq_dec d 45) as [->|Hne45]; [lia|].
    assert (G : match d with 45 => - dec_val_acc 0 ds | _ => dec_val_acc 0 (d :: ds) end = dec_val_acc 0 (d :: ds)).
    { destruct d as [|p|p]; try reflexivity.
      do 6 (destruct p as [p|p|]; try reflexivity). lia. }
    rewrite G, Hv. lia.
Qed.

Theorem z_to_dec_digits z : Z.abs z < 10 ^ 20 ->
  match z_to_dec z with
  | 45 :: r => z < 0 /\ r <> [] /\ Forall is_digit r
  | l => 0 <= z /\ l <> [] /\ Forall is_digit l
  end.
Proof.
  intros H. unfold z_to_dec. destruct (z <? 0) eqn:E; [apply Z.ltb_lt in E|apply Z.ltb_ge in E].
  - destruct (dec_digits_spec 20 (- z) []) as (ds & -> & Hne & Hd & _); [change (Z.of_nat 20) with 20; lia|lia|].
    rewrite app_nil_r. repeat split; assumption.
  - destruct (dec_digits_spec 20 z []) as (ds & -> & Hne & Hd & _); [change (Z.of_nat 20) with 20; lia|lia|].
    rewrite app_nil_r. destruct ds as [|d ds]; [congruence|].
    inversion Hd as [|? ? Hdig _]; subst. unfold is_digit in Hdig.
    destruct d as [|p|p]; try lia.
    do 6 (destruct p as [p|p|]; try (repeat split; [lia|discriminate|assumption])); lia.
Qed.
