(* C06, part 3: what a program can observe.  Reads are pure, FS/OFS changes do not touch the
   current record, $0 assignment re-splits with the FS in force, no operation panics,
   NF = number of fields (guarded: the pinned tree stores the assigned value), and the
   witnesses for the defects of the pinned tree. *)
From Verif Require Import Lib.Base Lib.Dyadic Lib.Utf8 Lib.Regex Gen.Consts Model.Fields
  Proofs.FieldsSplit Proofs.FieldsInv.

Section Spec.
Variable rx : Type.
Variable all_matches : rx -> bytes -> list (Z * Z).
Hypothesis am_sorted : forall r s, matches_sorted 0 (zlen s) (all_matches r s).

Local Notation state := (state rx).
Local Notation op := (op rx).
Local Notation ensure := (ensure_fields rx all_matches).
Local Notation getf := (get_field rx all_matches).
Local Notation setf := (set_field rx all_matches).
Local Notation setnf := (set_nf rx all_matches).
Local Notation exec := (exec_op rx all_matches).
Local Notation runs := (run rx all_matches).
Local Notation viewof := (view rx all_matches).
Local Notation Inv := (Inv rx).

(* ---- reads are pure --------------------------------------------------------- *)

Lemma view_ensure s s1 : ensure s = Ok s1 -> viewof s1 = viewof s.
Proof.
  intros H. unfold view. rewrite H, (ensure_idem rx all_matches _ _ H). reflexivity.
Qed.

Lemma view_eval_idx s i s0 k : eval_idx rx all_matches s i = Ok (s0, k) -> viewof s0 = viewof s.
Proof.
  intros H. destruct i as [x|neg d]; cbn [eval_idx] in H.
  - injection H as <- _. reflexivity.
  - destruct (ensure s) as [s1| | |] eqn:He; cbn [rbind] in H; try discriminate.
    destruct (vnum (nf rx s1)); try discriminate.
    destruct (representable _); [|discriminate]. injection H as <- _.
    exact (view_ensure _ _ He).
Qed.

Lemma view_get_field s k s1 f t : getf s k = Ok (s1, f, t) -> viewof s1 = viewof s.
Proof.
  intros H. unfold get_field in H. destruct (k =? 0).
  - injection H as <- _ _. reflexivity.
  - destruct (ensure s) as [s2| | |] eqn:He; cbn [rbind] in H; try discriminate.
    pose proof (view_ensure _ _ He) as Hv.
    repeat match type of H with
           | (if ?c then _ else _) = _ => destruct c
           | rbind ?r _ = _ => destruct r; cbn [rbind] in H; try discriminate
           end; injection H as <- _ _; exact Hv.
Qed.

(* the operations that only look *)
Definition is_read (o : op) : bool :=
  match o with GetField _ _ | TypeOf _ _ | GetNF _ | ViewAll _ => true | _ => false end.

Theorem reads_are_pure s o s' w :
  is_read o = true -> exec s o = Ok (s', w) -> viewof s' = viewof s.
Proof.
  intros Hr H. destruct o; try discriminate Hr; cbn [exec_op] in H.
  - destruct (eval_idx rx all_matches s i) as [[s0 k]| | |] eqn:E0; cbn [rbind] in H; try discriminate.
    destruct (getf s0 k) as [[[s1 f] t]| | |] eqn:E1; cbn [rbind] in H; try discriminate.
    injection H as <- _. rewrite (view_get_field _ _ _ _ _ E1). exact (view_eval_idx _ _ _ _ E0).
  - destruct (eval_idx rx all_matches s i) as [[s0 k]| | |] eqn:E0; cbn [rbind] in H; try discriminate.
    destruct (getf s0 k) as [[[s1 f] t]| | |] eqn:E1; cbn [rbind] in H; try discriminate.
    injection H as <- _. rewrite (view_get_field _ _ _ _ _ E1). exact (view_eval_idx _ _ _ _ E0).
  - destruct (ensure s) as [s1| | |] eqn:E; cbn [rbind] in H; try discriminate.
    injection H as <- _. exact (view_ensure _ _ E).
  - destruct (ensure s) as [s1| | |] eqn:E; cbn [rbind] in H; try discriminate.
    injection H as <- _. exact (view_ensure _ _ E).
Qed.

(* ... and what they return is what the view holds *)
Theorem getnf_returns_view s s' w :
  exec s (GetNF rx) = Ok (s', w) -> exists l fl, viewof s = Ok (l, fl, match w with ONF v => v | _ => null_value end) /\ exists v, w = ONF v.
Proof.
  cbn [exec_op]. intros H.
  destruct (ensure s) as [s1| | |] eqn:E; cbn [rbind] in H; try discriminate.
  injection H as <- <-. unfold view. rewrite E. cbn [rbind]. eauto.
Qed.

Theorem viewall_returns_view s s' w :
  exec s (ViewAll rx) = Ok (s', w) -> exists l v fl, viewof s = Ok (l, fl, v) /\ w = OAll v fl.
Proof.
  cbn [exec_op]. intros H.
  destruct (ensure s) as [s1| | |] eqn:E; cbn [rbind] in H; try discriminate.
  injection H as <- <-. unfold view. rewrite E. cbn [rbind]. eauto.
Qed.

Theorem getfield_returns_view s x s' w l fl v :
  Inv s -> viewof s = Ok (l, fl, v) ->
  exec s (GetField rx (IConst x)) = Ok (s', w) ->
  w = OVal (if float_to_int x =? 0 then l else field_at fl (float_to_int x)).
Proof.
  intros HI Hv H. cbn [exec_op eval_idx rbind] in H.
  destruct (getf s (float_to_int x)) as [[[s1 f] t]| | |] eqn:E1; cbn [rbind] in H; try discriminate.
  injection H as <- <-. f_equal.
  unfold view in Hv. destruct (ensure s) as [s2| | |] eqn:He; cbn [rbind] in Hv; try discriminate.
  injection Hv as <- <- <-.
  destruct (float_to_int x =? 0) eqn:E0.
  - apply Z.eqb_eq in E0. rewrite E0, get_field_zero in E1. injection E1 as <- <- _.
    destruct (ensure_ok rx all_matches am_sorted s HI) as [Hu|(s3 & He3 & _ & _ & Henv & _)]; [congruence|].
    assert (s3 = s2) by congruence. subst s3. destruct Henv as (E & _). symmetry. exact E.
  - apply Z.eqb_neq in E0.
    destruct (get_field_spec rx all_matches am_sorted s s2 (float_to_int x) HI He E0) as (t' & Hg).
    rewrite Hg in E1. injection E1 as _ <- _. reflexivity.
Qed.

(* ---- FS / OFS / OUTPUTMODE changes do not touch the current record ----------- *)

Theorem setFS_pure s f r s' : set_fs rx s f r = Ok s' -> viewof s' = viewof s.
Proof.
  unfold set_fs. intros H.
  assert (forall re, viewof (mkState rx (line rx s) (line_true rx s) (fields rx s) (fields_true rx s) (have rx s) (nf rx s)
                                f re (saved_fs rx s) (saved_re rx s) (saved_rs rx s) (saved_inmode rx s) (ofs rx s) (rs rx s) (inmode rx s) (outmode rx s))
                     = viewof s) as Hv.
  { intros re. unfold view, ensure_fields. proj.
    destruct (have rx s); [reflexivity|].
    destruct (split_record rx all_matches _ _ _ _ _); reflexivity. }
  destruct (rune_count f >? 1).
  - destruct r; [|discriminate]. injection H as <-. apply Hv.
  - injection H as <-. apply Hv.
Qed.

Theorem setOFS_pure s o : viewof (set_ofs rx s o) = viewof s.
Proof.
  unfold view, ensure_fields, set_ofs. proj.
  destruct (have rx s); [reflexivity|].
  destruct (split_record rx all_matches _ _ _ _ _); reflexivity.
Qed.

Theorem setOutMode_pure s m : viewof (set_outmode rx s m) = viewof s.
Proof.
  unfold view, ensure_fields, set_outmode. proj.
  destruct (have rx s); [reflexivity|].
  destruct (split_record rx all_matches _ _ _ _ _); reflexivity.
Qed.

Theorem setRS_pure s r : viewof (set_rs rx s r) = viewof s.
Proof.
  unfold view, ensure_fields, set_rs. proj.
  destruct (have rx s); [reflexivity|].
  destruct (split_record rx all_matches _ _ _ _ _); reflexivity.
Qed.

Theorem setInMode_pure s m : viewof (set_inmode rx s m) = viewof s.
Proof.
  unfold view, ensure_fields, set_inmode. proj.
  destruct (have rx s); [reflexivity|].
  destruct (split_record rx all_matches _ _ _ _ _); reflexivity.
Qed.

(* the whole class at once, on exec_op: everything except record arrival and the assignments *)
Definition is_pure (o : op) : bool :=
  match o with
  | GetField _ _ | TypeOf _ _ | GetNF _ | ViewAll _ | GetlineVar _ _
  | SetFS _ _ _ | SetOFS _ _ | SetRS _ _ | SetInMode _ _ | SetOutMode _ _ => true
  | _ => false
  end.

Theorem pure_ops_keep_view s o s' w :
  is_pure o = true -> exec s o = Ok (s', w) -> viewof s' = viewof s.
Proof.
  intros Hp H. destruct o as [t|i|i|i t|i t|t|i f| |v|f|fsv r|o|r|m|m| ]; try discriminate Hp;
    try (eapply reads_are_pure; [|exact H]; reflexivity); cbn [exec_op] in H.
  - injection H as <- _. reflexivity.
  - destruct (set_fs rx s fsv r) as [s1| | |] eqn:E; cbn [rbind] in H; try discriminate.
    injection H as <- _. exact (setFS_pure _ _ _ _ E).
  - injection H as <- _. apply setOFS_pure.
  - injection H as <- _. apply setRS_pure.
  - injection H as <- _. apply setInMode_pure.
  - injection H as <- _. apply setOutMode_pure.
Qed.

(* ---- $0 assignment / record arrival re-splits with the FS then in force ------- *)

Theorem assign_record_resplits s t b :
  viewof (set_line rx s t b) =
  do fl <- split_record rx all_matches (fs rx s) (fs_re rx s) (inmode rx s) (rs rx s) t;
  Ok (t, fl, count_value (zlen fl)).
Proof.
  unfold view, ensure_fields, set_line. proj.
  destruct (split_record rx all_matches _ _ _ _ _); reflexivity.
Qed.

(* a new record, whatever the state before: the split is redone from the text alone and every
   per-field flag is false (an input field is a number-looking string, never a "true" string) *)
Theorem set_record_resets s t b :
  ensure (set_line rx s t b) =
  do fl <- split_record rx all_matches (fs rx s) (fs_re rx s) (inmode rx s) (rs rx s) t;
  Ok (mkState rx t b fl (map (fun _ => false) fl) true (count_value (zlen fl))
              (fs rx s) (fs_re rx s) (fs rx s) (fs_re rx s) (rs rx s) (inmode rx s)
              (ofs rx s) (rs rx s) (inmode rx s) (outmode rx s)).
Proof. reflexivity. Qed.

Corollary set_record_flags_false s t b s1 :
  ensure (set_line rx s t b) = Ok s1 ->
  Forall (fun f => f = false) (fields_true rx s1) /\ line rx s1 = t /\ line_true rx s1 = b /\
  split_record rx all_matches (fs rx s) (fs_re rx s) (inmode rx s) (rs rx s) t = Ok (fields rx s1).
Proof.
  rewrite set_record_resets.
  destruct (split_record rx all_matches _ _ _ _ _) as [fl| | |]; cbn [rbind]; try discriminate.
  intros H; injection H as <-. proj. repeat split; try reflexivity.
  apply Forall_forall. intros x Hx. apply in_map_iff in Hx as (y & <- & _). reflexivity.
Qed.

Lemma get_field_flag s k s1 f t :
  k <> 0 -> getf s k = Ok (s1, f, t) -> f = [] \/ In t (fields_true rx s1).
Proof.
  intros Hk H. unfold get_field in H.
  replace (k =? 0) with false in H by (symmetry; apply Z.eqb_neq; exact Hk).
  destruct (ensure s) as [s2| | |]; cbn [rbind] in H; try discriminate. cbv zeta in H.
  destruct (_ <? 1); [injection H as _ <- _; left; reflexivity|].
  destruct (_ >? _); [injection H as _ <- _; left; reflexivity|].
  destruct (index (fields_true rx s2) _) as [tt| | |] eqn:Ei; cbn [rbind] in H; try discriminate.
  destruct (index (fields rx s2) _) as [g| | |]; cbn [rbind] in H; try discriminate.
  injection H as <- _ <-. right.
  unfold index in Ei. destruct (_ && _); [|discriminate].
  destruct (nth_error (fields_true rx s2) _) eqn:En; [|discriminate]. injection Ei as <-.
  eapply nth_error_In. exact En.
Qed.

(* ... so the typing probe on any field of a freshly set record never reports "true string" *)
Theorem typeof_after_record s t b x s' w :
  float_to_int x <> 0 ->
  exec (set_line rx s t b) (TypeOf rx (IConst x)) = Ok (s', w) -> w = OTyp None \/ w = OTyp (Some false).
Proof.
  intros Hk H. cbn [exec_op eval_idx rbind] in H.
  destruct (getf (set_line rx s t b) (float_to_int x)) as [[[s1 f] tt]| | |] eqn:Eg; cbn [rbind] in H; try discriminate.
  injection H as <- <-.
  destruct (get_field_flag _ _ _ _ _ Hk Eg) as [->|Hin]; [left; reflexivity|].
  assert (ensure (set_line rx s t b) = Ok s1) as He.
  { unfold get_field in Eg.
    replace (float_to_int x =? 0) with false in Eg by (symmetry; apply Z.eqb_neq; exact Hk).
    destruct (ensure (set_line rx s t b)) as [s2| | |]; cbn [rbind] in Eg; try discriminate. cbv zeta in Eg.
    destruct (_ <? 1); [injection Eg as <- _ _; reflexivity|].
    destruct (_ >? _); [injection Eg as <- _ _; reflexivity|].
    destruct (index (fields_true rx s2) _); cbn [rbind] in Eg; try discriminate.
    destruct (index (fields rx s2) _); cbn [rbind] in Eg; try discriminate.
    injection Eg as <- _ _. reflexivity. }
  destruct (set_record_flags_false _ _ _ _ He) as (Hf & _).
  rewrite Forall_forall in Hf. rewrite (Hf _ Hin).
  destruct (bytes_eqb f [49; 48]); auto.
Qed.

Corollary exec_assign_record s t :
  exec s (AssignRecord rx t) = Ok (set_line rx s t true, ONone).
Proof. reflexivity. Qed.

Corollary exec_read_record s t :
  exec s (ReadRecord rx t) = Ok (set_line rx s t false, ONone).
Proof. reflexivity. Qed.

(* how the operations of a program reach the functions specified in FieldsInv.v *)
Lemma exec_set_field_const s x t :
  exec s (SetField rx (IConst x) t) = do s1 <- setf s (float_to_int x) t; Ok (s1, ONone).
Proof. reflexivity. Qed.

Lemma exec_set_nf s v : exec s (SetNF rx v) = do s1 <- setnf s v; Ok (s1, ONone).
Proof. reflexivity. Qed.

(* ---- sub / gsub (and the other read-modify-write forms) with a field or $0 as target ------ *)

Lemma set_field_after_get s k s1 old fl t :
  getf s k = Ok (s1, old, fl) -> setf s1 k t = setf s k t.
Proof.
  intros H. unfold get_field in H. destruct (k =? 0) eqn:Ek.
  - injection H as <- _ _. reflexivity.
  - destruct (ensure s) as [s2| | |] eqn:He; cbn [rbind] in H; try discriminate.
    assert (s1 = s2) as ->.
    { cbv zeta in H.
      destruct (_ <? 1); [injection H as <- _ _; reflexivity|].
      destruct (_ >? _); [injection H as <- _ _; reflexivity|].
      destruct (index (fields_true rx s2) _); cbn [rbind] in H; try discriminate.
      destruct (index (fields rx s2) _); cbn [rbind] in H; try discriminate.
      injection H as <- _ _. reflexivity. }
    unfold set_field. rewrite Ek. destruct (k >? maxFieldIndex); [reflexivity|].
    rewrite He, (ensure_idem rx all_matches _ _ He). reflexivity.
Qed.

(* ModField i f with f = what sub/gsub computes from the old text: when a substitution was made
   (f old = Some t) the operation IS the assignment $i = t -- whether or not t differs from the
   old text --, when none was made (None) the record is left alone *)
Theorem modfield_some_is_assignment s x f old s1 fl t :
  getf s (float_to_int x) = Ok (s1, old, fl) -> f old = Ok (Some t) ->
  exec s (ModField rx (IConst x) f) = exec s (SetField rx (IConst x) t).
Proof.
  intros Hg Hf. cbn [exec_op eval_idx rbind]. rewrite Hg. cbn [rbind]. rewrite Hf. cbn [rbind].
  rewrite (set_field_after_get _ _ _ _ _ t Hg). reflexivity.
Qed.

Theorem modfield_none_is_read s x f old s1 fl :
  getf s (float_to_int x) = Ok (s1, old, fl) -> f old = Ok None ->
  exec s (ModField rx (IConst x) f) = Ok (s1, ONone) /\ viewof s1 = viewof s.
Proof.
  intros Hg Hf. split.
  - cbn [exec_op eval_idx rbind]. rewrite Hg. cbn [rbind]. rewrite Hf. reflexivity.
  - exact (view_get_field _ _ _ _ _ Hg).
Qed.

(* ---- no operation panics ------------------------------------------------------ *)

Definition op_safe (o : op) : Prop :=
  match o with
  | ModField _ _ f => forall b, f b <> Panic
  | ModNF _ f => forall v, f v <> Panic
  | _ => True
  end.

Lemma ensure_no_panic s : Inv s -> ensure s <> Panic.
Proof.
  intros HI. destruct (ensure_ok rx all_matches am_sorted s HI) as [Hu|(s1 & He & _)]; congruence.
Qed.

Lemma eval_idx_no_panic s i : Inv s -> eval_idx rx all_matches s i <> Panic.
Proof.
  intros HI. destruct i as [x|neg d]; cbn [eval_idx]; [discriminate|].
  destruct (ensure s) as [s1| | |] eqn:He; cbn [rbind]; try discriminate.
  - destruct (vnum (nf rx s1)); try discriminate. destruct (representable _); discriminate.
  - exfalso. exact (ensure_no_panic s HI He).
Qed.

Lemma get_field_no_panic s k : Inv s -> getf s k <> Panic.
Proof.
  intros HI. destruct (Z.eq_dec k 0) as [->|Hk]; [rewrite get_field_zero; discriminate|].
  destruct (ensure_ok rx all_matches am_sorted s HI) as [Hu|(s1 & He & _)].
  - unfold get_field. replace (k =? 0) with false by (symmetry; apply Z.eqb_neq; exact Hk).
    rewrite Hu. discriminate.
  - destruct (get_field_spec rx all_matches am_sorted s s1 k HI He Hk) as (t & Hg). rewrite Hg. discriminate.
Qed.

Lemma set_field_no_panic s k t : Inv s -> setf s k t <> Panic.
Proof.
  intros HI.
  destruct (Z.eq_dec k 0) as [->|Hk]; [rewrite set_field_zero; discriminate|].
  destruct (Z_gt_dec k maxFieldIndex) as [Hbig|Hsmall]; [rewrite set_field_too_large by exact Hbig; discriminate|].
  destruct (ensure_ok rx all_matches am_sorted s HI) as [Hu|(s1 & He & HI1 & Hh & _)].
  - unfold set_field. replace (k =? 0) with false by (symmetry; apply Z.eqb_neq; exact Hk).
    replace (k >? maxFieldIndex) with false by (symmetry; destruct (Z.gtb_spec k maxFieldIndex); [lia|reflexivity]).
    rewrite Hu. discriminate.
  - destruct (Z_lt_dec k 0) as [Hneg|Hpos].
    + destruct (set_field_neg rx all_matches s s1 k t HI He Hneg) as [Hlow Hhigh].
      destruct (Z_lt_dec (zlen (fields rx s1) + 1 + k) 1) as [Hj|Hj].
      * rewrite Hlow by exact Hj. discriminate.
      * (* the target is an existing field of the split state *)
        unfold set_field.
        replace (k =? 0) with false by (symmetry; apply Z.eqb_neq; exact Hk).
        replace (k >? maxFieldIndex) with false by (symmetry; destruct (Z.gtb_spec k maxFieldIndex); [lia|reflexivity]).
        rewrite He. cbn [rbind]. cbv zeta.
        replace (k <? 1) with true by (symmetry; apply Z.ltb_lt; lia). cbv iota.
        set (j := zlen (fields rx s1) + 1 + k) in *.
        replace (j <? 1) with false by (symmetry; apply Z.ltb_ge; lia).
        destruct HI1 as (Hlen & _ & _). destruct (Hlen Hh) as [Hlen' _].
        replace (Z.to_nat (j - zlen (fields rx s1))) with 0%nat by lia.
        cbn [repeat]. rewrite !app_nil_r.
        pose proof (zlen_nonneg (fields rx s1)).
        rewrite (list_set_ok (fields rx s1) (j - 1) t) by lia. cbn [rbind].
        rewrite (list_set_ok (fields_true rx s1) (j - 1) true) by lia. cbn [rbind]. discriminate.
    + destruct (set_field_pos rx all_matches am_sorted s s1 k t HI He ltac:(lia)) as (s' & Hs & _).
      rewrite Hs. discriminate.
Qed.

Lemma set_nf_no_panic s v : Inv s -> setnf s v <> Panic.
Proof.
  intros HI. destruct (set_nf_errors rx all_matches s v) as [Hneg Hbig]. set (n := f2i64 (vnum v)) in *.
  destruct (Z_lt_dec n 0) as [H1|H1]; [rewrite Hneg by exact H1; discriminate|].
  destruct (Z_gt_dec n maxFieldIndex) as [H2|H2]; [rewrite Hbig by exact H2; discriminate|].
  destruct (ensure_ok rx all_matches am_sorted s HI) as [Hu|(s1 & He & _)].
  - unfold set_nf. fold n.
    replace (n <? 0) with false by (symmetry; apply Z.ltb_ge; lia).
    replace (n >? maxFieldIndex) with false by (symmetry; destruct (Z.gtb_spec n maxFieldIndex); [lia|reflexivity]).
    rewrite Hu. discriminate.
  - destruct (set_nf_spec rx all_matches am_sorted s s1 v HI He ltac:(fold n; lia)) as (s' & Hs & _).
    rewrite Hs. discriminate.
Qed.

Theorem exec_no_panic s o : Inv s -> op_safe o -> exec s o <> Panic.
Proof.
  intros HI Hsafe. destruct o as [t|i|i|i t|i t|t|i f| |v|f|fsv r|o|r|m|m| ]; cbn [exec_op].
  - discriminate.
  - destruct (eval_idx rx all_matches s i) as [[s0 k]| | |] eqn:E0; cbn [rbind]; try discriminate.
    + pose proof (get_field_no_panic s0 k (Inv_eval_idx rx all_matches am_sorted _ _ _ _ HI E0)) as Hg.
      destruct (getf s0 k) as [[[s1 f] t]| | |]; cbn [rbind]; congruence.
    + exfalso. exact (eval_idx_no_panic s i HI E0).
  - destruct (eval_idx rx all_matches s i) as [[s0 k]| | |] eqn:E0; cbn [rbind]; try discriminate.
    + pose proof (get_field_no_panic s0 k (Inv_eval_idx rx all_matches am_sorted _ _ _ _ HI E0)) as Hg.
      destruct (getf s0 k) as [[[s1 f] t]| | |]; cbn [rbind]; congruence.
    + exfalso. exact (eval_idx_no_panic s i HI E0).
  - destruct (eval_idx rx all_matches s i) as [[s0 k]| | |] eqn:E0; cbn [rbind]; try discriminate.
    + pose proof (set_field_no_panic s0 k t (Inv_eval_idx rx all_matches am_sorted _ _ _ _ HI E0)) as Hg.
      destruct (setf s0 k t); cbn [rbind]; congruence.
    + exfalso. exact (eval_idx_no_panic s i HI E0).
  - destruct (eval_idx rx all_matches s i) as [[s0 k]| | |] eqn:E0; cbn [rbind]; try discriminate.
    + pose proof (set_field_no_panic s0 k t (Inv_eval_idx rx all_matches am_sorted _ _ _ _ HI E0)) as Hg.
      destruct (setf s0 k t); cbn [rbind]; congruence.
    + exfalso. exact (eval_idx_no_panic s i HI E0).
  - discriminate.
  - destruct (eval_idx rx all_matches s i) as [[s0 k]| | |] eqn:E0; cbn [rbind]; try discriminate.
    + pose proof (Inv_eval_idx rx all_matches am_sorted _ _ _ _ HI E0) as HI0.
      pose proof (get_field_no_panic s0 k HI0) as Hg.
      destruct (getf s0 k) as [[[s1 old] t]| | |] eqn:E1; cbn [rbind]; try congruence.
      pose proof (Inv_get_field rx all_matches am_sorted _ _ _ _ _ HI0 E1) as HI1.
      cbn [op_safe] in Hsafe. specialize (Hsafe old).
      destruct (f old) as [[t'|]| | |]; cbn [rbind]; try congruence.
      pose proof (set_field_no_panic s1 k t' HI1) as Hs.
      destruct (setf s1 k t'); cbn [rbind]; congruence.
    + exfalso. exact (eval_idx_no_panic s i HI E0).
  - pose proof (ensure_no_panic s HI). destruct (ensure s); cbn [rbind]; congruence.
  - pose proof (set_nf_no_panic s v HI). destruct (setnf s v); cbn [rbind]; congruence.
  - pose proof (ensure_no_panic s HI).
    destruct (ensure s) as [s1| | |] eqn:E; cbn [rbind]; try congruence.
    cbn [op_safe] in Hsafe. specialize (Hsafe (nf rx s1)).
    destruct (f (nf rx s1)) as [v| | |]; cbn [rbind]; try congruence.
    pose proof (set_nf_no_panic s1 v (Inv_ensure rx all_matches am_sorted _ _ HI E)).
    destruct (setnf s1 v); cbn [rbind]; congruence.
  - unfold set_fs. destruct (rune_count fsv >? 1); [destruct r|]; cbn [rbind]; discriminate.
  - discriminate.
  - discriminate.
  - discriminate.
  - discriminate.
  - pose proof (ensure_no_panic s HI). destruct (ensure s); cbn [rbind]; congruence.
Qed.

Theorem run_no_panic ops : forall s, Inv s -> Forall op_safe ops -> runs ops s <> Panic.
Proof.
  induction ops as [|o ops IH]; intros s HI Hs; cbn [run]; [discriminate|].
  inversion Hs as [|? ? Ho Hrest]; subst.
  pose proof (exec_no_panic s o HI Ho) as Hne.
  unfold step. destruct (exec s o) as [[s1 w]| | |] eqn:E; cbn [rbind]; try congruence.
  apply IH; [exact (Inv_step rx all_matches am_sorted _ _ _ _ HI E)|exact Hrest].
Qed.

(* ---- NF = number of fields: holds when NF is only ever assigned counts ---------- *)

Definition is_count (v : value) : Prop := exists n, in_i64 n = true /\ v = count_value n.

Definition op_nf_guard (o : op) : Prop :=
  match o with
  | SetNF _ v => is_count v
  | ModNF _ f => forall v v', f v = Ok v' -> is_count v'
  | _ => True
  end.

Definition InvNF (s : state) : Prop :=
  have rx s = true -> nf rx s = count_value (zlen (fields rx s)).

Lemma InvNF_ensure s s1 : InvNF s -> ensure s = Ok s1 -> InvNF s1.
Proof.
  intros HN He. unfold ensure_fields in He. destruct (have rx s) eqn:Eh.
  - injection He as <-. exact HN.
  - destruct (split_record rx all_matches _ _ _ _ _); cbn [rbind] in He; try discriminate.
    injection He as <-. unfold InvNF. proj. reflexivity.
Qed.

Lemma InvNF_set_field s k t s' : Inv s -> InvNF s -> setf s k t = Ok s' -> InvNF s'.
Proof.
  intros HI HN H.
  destruct (Z.eq_dec k 0) as [->|Hk].
  - rewrite set_field_zero in H. injection H as <-. unfold InvNF, set_line. proj. discriminate.
  - destruct (Z_gt_dec k maxFieldIndex) as [Hbig|Hsmall]; [rewrite set_field_too_large in H by exact Hbig; discriminate|].
    unfold set_field in H.
    replace (k =? 0) with false in H by (symmetry; apply Z.eqb_neq; exact Hk).
    replace (k >? maxFieldIndex) with false in H by (symmetry; destruct (Z.gtb_spec k maxFieldIndex); [lia|reflexivity]).
    destruct (ensure s) as [s1| | |] eqn:He; cbn [rbind] in H; try discriminate.
    pose proof (InvNF_ensure _ _ HN He) as HN1. cbv zeta in H.
    destruct ((if k <? 1 then zlen (fields rx s1) + 1 + k else k) <? 1).
    + injection H as <-. exact HN1.
    + destruct (list_set _ _ t) as [fl'| | |]; cbn [rbind] in H; try discriminate.
      destruct (list_set _ _ true) as [tl'| | |]; cbn [rbind] in H; try discriminate.
      injection H as <-. unfold InvNF, with_fields. proj. reflexivity.
Qed.

Lemma InvNF_set_nf s v s' : Inv s -> is_count v -> setnf s v = Ok s' -> InvNF s'.
Proof.
  intros HI (n & Hn & ->) H.
  assert (f2i64 (vnum (count_value n)) = n) as Hf by (cbn [count_value vnum]; apply f2i64_int; exact Hn).
  destruct (set_nf_errors rx all_matches s (count_value n)) as [Hneg Hbig]. rewrite Hf in Hneg, Hbig.
  destruct (Z_lt_dec n 0) as [H1|H1]; [rewrite Hneg in H by exact H1; discriminate|].
  destruct (Z_gt_dec n maxFieldIndex) as [H2|H2]; [rewrite Hbig in H by exact H2; discriminate|].
  destruct (ensure_ok rx all_matches am_sorted s HI) as [Hu|(s1 & He & _)].
  - unfold set_nf in H. rewrite Hf in H.
    replace (n <? 0) with false in H by (symmetry; apply Z.ltb_ge; lia).
    replace (n >? maxFieldIndex) with false in H by (symmetry; destruct (Z.gtb_spec n maxFieldIndex); [lia|reflexivity]).
    rewrite Hu in H. discriminate.
  - destruct (set_nf_spec rx all_matches am_sorted s s1 (count_value n) HI He ltac:(rewrite Hf; lia))
      as (s'' & Hs & Hfl & _ & _ & _ & Hnf & _).
    assert (s'' = s') by congruence. subst s''.
    unfold InvNF. intros _. rewrite Hnf, Hfl, Hf, zlen_resize by lia. reflexivity.
Qed.

Lemma InvNF_eval_idx s i s0 k : InvNF s -> eval_idx rx all_matches s i = Ok (s0, k) -> InvNF s0.
Proof.
  intros HN H. destruct i as [x|neg d]; cbn [eval_idx] in H.
  - injection H as <- _. exact HN.
  - destruct (ensure s) as [s1| | |] eqn:He; cbn [rbind] in H; try discriminate.
    destruct (vnum (nf rx s1)); try discriminate.
    destruct (representable _); [|discriminate]. injection H as <- _.
    exact (InvNF_ensure _ _ HN He).
Qed.

Lemma InvNF_get_field s k s1 f t : InvNF s -> getf s k = Ok (s1, f, t) -> InvNF s1.
Proof.
  intros HN H. unfold get_field in H. destruct (k =? 0).
  - injection H as <- _ _. exact HN.
  - destruct (ensure s) as [s2| | |] eqn:He; cbn [rbind] in H; try discriminate.
    pose proof (InvNF_ensure _ _ HN He) as HN2.
    repeat match type of H with
           | (if ?c then _ else _) = _ => destruct c
           | rbind ?r _ = _ => destruct r; cbn [rbind] in H; try discriminate
           end; injection H as <- _ _; exact HN2.
Qed.

Theorem InvNF_step s o s' w :
  Inv s -> InvNF s -> op_nf_guard o -> exec s o = Ok (s', w) -> InvNF s'.
Proof.
  intros HI HN Hg H. destruct o as [t|i|i|i t|i t|t|i f| |v|f|fsv r|o|r|m|m| ]; cbn [exec_op] in H.
  - injection H as <- _. unfold InvNF, set_line. proj. discriminate.
  - destruct (eval_idx rx all_matches s i) as [[s0 k]| | |] eqn:E0; cbn [rbind] in H; try discriminate.
    destruct (getf s0 k) as [[[s1 f] t]| | |] eqn:E1; cbn [rbind] in H; try discriminate.
    injection H as <- _. exact (InvNF_get_field _ _ _ _ _ (InvNF_eval_idx _ _ _ _ HN E0) E1).
  - destruct (eval_idx rx all_matches s i) as [[s0 k]| | |] eqn:E0; cbn [rbind] in H; try discriminate.
    destruct (getf s0 k) as [[[s1 f] t]| | |] eqn:E1; cbn [rbind] in H; try discriminate.
    injection H as <- _. exact (InvNF_get_field _ _ _ _ _ (InvNF_eval_idx _ _ _ _ HN E0) E1).
  - destruct (eval_idx rx all_matches s i) as [[s0 k]| | |] eqn:E0; cbn [rbind] in H; try discriminate.
    destruct (setf s0 k t) as [s1| | |] eqn:E1; cbn [rbind] in H; try discriminate.
    injection H as <- _.
    exact (InvNF_set_field _ _ _ _ (Inv_eval_idx rx all_matches am_sorted _ _ _ _ HI E0) (InvNF_eval_idx _ _ _ _ HN E0) E1).
  - destruct (eval_idx rx all_matches s i) as [[s0 k]| | |] eqn:E0; cbn [rbind] in H; try discriminate.
    destruct (setf s0 k t) as [s1| | |] eqn:E1; cbn [rbind] in H; try discriminate.
    injection H as <- _.
    exact (InvNF_set_field _ _ _ _ (Inv_eval_idx rx all_matches am_sorted _ _ _ _ HI E0) (InvNF_eval_idx _ _ _ _ HN E0) E1).
  - injection H as <- _. exact HN.
  - destruct (eval_idx rx all_matches s i) as [[s0 k]| | |] eqn:E0; cbn [rbind] in H; try discriminate.
    destruct (getf s0 k) as [[[s1 old] tt]| | |] eqn:E1; cbn [rbind] in H; try discriminate.
    pose proof (Inv_eval_idx rx all_matches am_sorted _ _ _ _ HI E0) as HI0.
    pose proof (Inv_get_field rx all_matches am_sorted _ _ _ _ _ HI0 E1) as HI1.
    pose proof (InvNF_get_field _ _ _ _ _ (InvNF_eval_idx _ _ _ _ HN E0) E1) as HN1.
    destruct (f old) as [[t|]| | |]; cbn [rbind] in H; try discriminate.
    + destruct (setf s1 k t) as [s2| | |] eqn:E2; cbn [rbind] in H; try discriminate.
      injection H as <- _. exact (InvNF_set_field _ _ _ _ HI1 HN1 E2).
    + injection H as <- _. exact HN1.
  - destruct (ensure s) as [s1| | |] eqn:E; cbn [rbind] in H; try discriminate.
    injection H as <- _. exact (InvNF_ensure _ _ HN E).
  - destruct (setnf s v) as [s1| | |] eqn:E; cbn [rbind] in H; try discriminate.
    injection H as <- _. exact (InvNF_set_nf _ _ _ HI Hg E).
  - destruct (ensure s) as [s1| | |] eqn:E; cbn [rbind] in H; try discriminate.
    destruct (f (nf rx s1)) as [v| | |] eqn:Ef; cbn [rbind] in H; try discriminate.
    destruct (setnf s1 v) as [s2| | |] eqn:E2; cbn [rbind] in H; try discriminate.
    injection H as <- _.
    exact (InvNF_set_nf _ _ _ (Inv_ensure rx all_matches am_sorted _ _ HI E) (Hg _ _ Ef) E2).
  - unfold set_fs in H. destruct (rune_count fsv >? 1); [destruct r|]; cbn [rbind] in H; try discriminate;
      injection H as <- _; exact HN.
  - injection H as <- _. exact HN.
  - injection H as <- _. exact HN.
  - injection H as <- _. exact HN.
  - injection H as <- _. exact HN.
  - destruct (ensure s) as [s1| | |] eqn:E; cbn [rbind] in H; try discriminate.
    injection H as <- _. exact (InvNF_ensure _ _ HN E).
Qed.

Theorem InvNF_run ops : forall s s',
  Inv s -> InvNF s -> Forall op_nf_guard ops -> runs ops s = Ok s' -> InvNF s'.
Proof.
  induction ops as [|o ops IH]; intros s s' HI HN Hg H; cbn [run] in H.
  - injection H as <-. exact HN.
  - inversion Hg as [|? ? Ho Hrest]; subst.
    destruct (step rx all_matches s o) as [s1| | |] eqn:E; cbn [rbind] in H; try discriminate.
    destruct (step_exec rx all_matches _ _ _ E) as [w Hw].
    exact (IH _ _ (Inv_step rx all_matches am_sorted _ _ _ _ HI Hw) (InvNF_step _ _ _ _ HI HN Ho Hw) Hrest H).
Qed.

Theorem NF_is_count_partial ops s :
  Forall op_nf_guard ops -> runs ops (init rx) = Ok s -> InvNF s.
Proof.
  intros Hg H. apply (InvNF_run ops (init rx) s); auto.
  - apply Inv_init.
  - unfold InvNF, init. proj. discriminate.
Qed.

(* ---- the same specifications for every state a script can reach -------------------- *)

Theorem reachable_setfield ops s : runs ops (init rx) = Ok s ->
  forall s1 i t, ensure s = Ok s1 -> 1 <= i <= maxFieldIndex ->
  exists s', setf s i t = Ok s' /\
    viewof s' = Ok (join_fields rx s (put (fields rx s1) i t), put (fields rx s1) i t,
                    count_value (Z.max (zlen (fields rx s1)) i)).
Proof.
  intros Hr s1 i t He Hi.
  destruct (set_field_pos rx all_matches am_sorted s s1 i t (Inv_reachable rx all_matches am_sorted _ _ Hr) He Hi)
    as (s' & Hs & Hf & _ & Hl & _ & Hnf & Hh & _).
  exists s'. split; [exact Hs|].
  unfold view. rewrite (ensure_of_have rx all_matches s' Hh). cbn [rbind]. rewrite Hl, Hf, Hnf. reflexivity.
Qed.

Theorem reachable_setnf ops s : runs ops (init rx) = Ok s ->
  forall s1 v, ensure s = Ok s1 -> 0 <= f2i64 (vnum v) <= maxFieldIndex ->
  exists s', setnf s v = Ok s' /\
    viewof s' = Ok (join_fields rx s (resize (f2i64 (vnum v)) (fields rx s1)),
                    resize (f2i64 (vnum v)) (fields rx s1), v).
Proof.
  intros Hr s1 v He Hn.
  destruct (set_nf_spec rx all_matches am_sorted s s1 v (Inv_reachable rx all_matches am_sorted _ _ Hr) He Hn)
    as (s' & Hs & Hf & _ & Hl & _ & Hnf & Hh & _).
  exists s'. split; [exact Hs|].
  unfold view. rewrite (ensure_of_have rx all_matches s' Hh). cbn [rbind]. rewrite Hl, Hf, Hnf. reflexivity.
Qed.

Theorem reachable_getfield ops s : runs ops (init rx) = Ok s ->
  forall x s' w l fl v, viewof s = Ok (l, fl, v) ->
  exec s (GetField rx (IConst x)) = Ok (s', w) ->
  w = OVal (if float_to_int x =? 0 then l else field_at fl (float_to_int x)) /\ viewof s' = viewof s.
Proof.
  intros Hr x s' w l fl v Hv H. split.
  - exact (getfield_returns_view s x s' w l fl v (Inv_reachable rx all_matches am_sorted _ _ Hr) Hv H).
  - exact (reads_are_pure s (GetField rx (IConst x)) s' w eq_refl H).
Qed.

(* ---- getline $i ----------------------------------------------------------------- *)

(* getline $i, the record read being t, is the assignment $i = t *)
Theorem getline_field_is_setfield s i t :
  exec s (GetlineField rx i t) = exec s (SetField rx i t).
Proof. reflexivity. Qed.

(* ---- huge indexes --------------------------------------------------------------- *)

Lemma float_to_int_big m e : ftrunc m e > maxFieldIndex -> float_to_int (FFin m e) > maxFieldIndex.
Proof.
  intros H. cbn [float_to_int]. unfold maxFieldIndex in *.
  destruct (two63 <=? ftrunc m e) eqn:E1; [unfold maxint, two63; lia|].
  destruct (ftrunc m e <=? - two63) eqn:E2; [apply Z.leb_le in E2; unfold two63 in E2; lia|lia].
Qed.

(* $(x) = t with trunc(x) > maxFieldIndex is the "too large" error, however large x is *)
Theorem setfield_huge s m e t :
  ftrunc m e > maxFieldIndex ->
  exec s (SetField rx (IConst (FFin m e)) t) =
  Err (msg_field_too_large ++ dec_of_Z (float_to_int (FFin m e))).
Proof.
  intros H. rewrite exec_set_field_const.
  rewrite set_field_too_large by (apply float_to_int_big; exact H). reflexivity.
Qed.

Lemma field_at_beyond fl i : zlen fl < i -> field_at fl i = [].
Proof.
  intros H. pose proof (zlen_nonneg fl) as H0. unfold field_at.
  replace (i <? 1) with false by (symmetry; apply Z.ltb_ge; lia).
  replace (i <? 1) with false by (symmetry; apply Z.ltb_ge; lia).
  apply nth_overflow. unfold zlen in H. lia.
Qed.

(* reading $(x) with trunc(x) beyond the last field -- 2^63 and more included -- gives "" *)
Theorem getfield_huge s m e s' w l fl v :
  Inv s -> viewof s = Ok (l, fl, v) -> zlen fl < maxint ->
  zlen fl < ftrunc m e ->
  exec s (GetField rx (IConst (FFin m e))) = Ok (s', w) -> w = OVal [].
Proof.
  intros HI Hv Hlen Hbig H.
  rewrite (getfield_returns_view s (FFin m e) s' w l fl v HI Hv H).
  assert (zlen fl < float_to_int (FFin m e)) as Hi.
  { cbn [float_to_int]. pose proof (zlen_nonneg fl).
    destruct (two63 <=? ftrunc m e); [exact Hlen|].
    destruct (ftrunc m e <=? - two63) eqn:E2; [apply Z.leb_le in E2; unfold two63 in E2; lia|exact Hbig]. }
  replace (float_to_int (FFin m e) =? 0) with false by (symmetry; apply Z.eqb_neq; pose proof (zlen_nonneg fl); lia).
  rewrite field_at_beyond by exact Hi. reflexivity.
Qed.

End Spec.

(* ---- witnesses on the pinned tree (an engine without matches is enough) ---------- *)

Definition no_matches : unit -> bytes -> list (Z * Z) := fun _ _ => [].

Lemma no_matches_sorted : forall r s, matches_sorted 0 (zlen s) (no_matches r s).
Proof. intros; exact I. Qed.

(* NF = number of fields, at full strength *)
Definition NF_is_count_full_statement : Prop :=
  forall (rx : Type) (am : rx -> bytes -> list (Z * Z)) ops s,
    run rx am ops (init rx) = Ok s -> have rx s = true ->
    nf rx s = count_value (zlen (fields rx s)).

Definition v_2_7 : value := mkV (of_bits 4613262278296967578) [50; 46; 55].   (* 2.7, "2.7" *)

(* $0 = "a b c"; NF = 2.7: two fields, NF reads 2.7 *)
Theorem NF_is_count_refuted : ~ NF_is_count_full_statement.
Proof.
  intros H.
  specialize (H unit no_matches [ReadRecord unit [97; 32; 98; 32; 99]; SetNF unit v_2_7]).
  vm_compute in H. specialize (H _ eq_refl eq_refl). discriminate H.
Qed.
