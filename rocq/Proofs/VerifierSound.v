(* C02: soundness of the verifier of Model/Verifier.v for the machine of Model/VM.v.
   A locally consistent annotation is an invariant of execution: at every instruction
   boundary the stack is exactly base + annotated depth deep, the frame has the checked
   length, the call depth is at most maxCallDepth; hence no step is ever [VStuck]. *)
From Coq Require Import ZifyBool.
From Verif Require Import Lib.Base Model.Ast Model.Instr Model.Compiler Model.Prims Model.VM
  Model.Verifier Proofs.CodeAt Proofs.VMLemmas Proofs.VerifierBase Proofs.VerifierSimple Gen.Consts.

Section Sound.
  Variables value St err : Type.
  Variable P : prims value St err.
  Hypothesis Hshape : prims_shape P.
  Variable F : list cfunc.
  Hypothesis HF : check_funcs F = true.

  Notation mstate := (mstate value St).
  Notation vres := (vres value St err).
  Notation FT := (ftable_of F).
  Notation run := (run P F).
  Notation step := (step P F).

  Definition chkb (cf : nat) : vctx -> Z -> code -> bool :=
    fun cx' d body => check_seg cf FT cx' d d body.

  (* what a run of a checked unit may end with: [B] is the height of the stack under the
     current function activation, [dend] the annotated depth at the end of the unit, [dp]
     the call depth at the start *)
  Definition good (cx : vctx) (B dend dp : Z) (r : vres) : Prop :=
    match r with
    | VDone stk m => zlen stk = B + dend /\ zlen (frame m) = cx_nlocals cx /\ depth m = dp
    | VRet _ stk m => cx_infunc cx = true /\ zlen stk = B /\ zlen (frame m) = cx_nlocals cx /\ depth m = dp
    | VBrk stk m => exists db, cx_forin cx = Some db /\ zlen stk = B + db /\
                               zlen (frame m) = cx_nlocals cx /\ depth m = dp
    | VAbort _ _ => True
    | VStuck => False
    | VFuel => True
    end.

  (* ---- the dispatch step at a fetched instruction ---- *)

  Lemma step_fetched C ip i stk (m : mstate) :
    fetch C ip = Some i ->
    step C ip stk m =
    (let ip' := ip + isize i in
     match i with
     | IJump off => ANext (ip' + off) stk m
     | IJumpFalse off =>
         match stk with
         | v :: t => ANext (if p_to_bool P v then ip' else ip' + off) t m
         | _ => AStop VStuck end
     | IJumpTrue off =>
         match stk with
         | v :: t => ANext (if p_to_bool P v then ip' + off else ip') t m
         | _ => AStop VStuck end
     | IJumpCmp c0 off =>
         match stk with
         | r :: l :: t => ANext (if p_cmpj P c0 (ms m) l r then ip' + off else ip') t m
         | _ => AStop VStuck end
     | INext => AStop (VAbort XNext m)
     | INextfile => AStop (VAbort XNextfile m)
     | IExit => AStop (VAbort XExit m)
     | IExitStatus =>
         match stk with
         | v :: _ => AStop (VAbort XExit (with_ms m (p_set_exit P (ms m) v)))
         | _ => AStop VStuck end
     | IBreakForIn => AStop (VBrk stk m)
     | IReturn => match stk with v :: t => AStop (VRet v t m) | _ => AStop VStuck end
     | IReturnNull => AStop (VRet (p_null P) stk m)
     | IForIn vsc vi asc ai off =>
         match sub_code C ip' off with
         | None => AStop VStuck
         | Some body => AForIn vsc vi (p_array_keys P (ms m) asc ai) body (ip' + off) stk m
         end
     | ICallUser fi arrs =>
         if fi <? 0 then AStop VStuck else
         match nth_error F (Z.to_nat fi) with
         | None => AStop VStuck
         | Some fn =>
           if maxCallDepth <=? depth m then AStop (VAbort (XError (p_err_depth P fi)) m) else
           match pop_n (Z.to_nat (cf_nscalars fn)) stk [] with
           | None => AStop VStuck
           | Some (args, _) =>
               ACall fn {| ms := p_push_arrays P (ms m) arrs (cf_narrays fn); frame := args; depth := depth m + 1 |}
                     m ip' stk
           end
         end
     | _ =>
         match exec_simple P i stk m with
         | SOk stk' m' => ANext ip' stk' m'
         | SErr e m' => AStop (VAbort (XError e) m')
         | SStuck => AStop VStuck
         end
     end).
  Proof.
    intros Hf. unfold VM.step. pose proof (fetch_range _ _ _ Hf) as Hr.
    destruct (csize C <=? ip) eqn:E; [lia|]. rewrite Hf. reflexivity.
  Qed.

  Ltac flow_inv H :=
    cbn [flow_of] in H; try discriminate H;
    try (unfold fnext_if in H;
         match type of H with (if ?b then _ else _) = _ => destruct b eqn:?; try discriminate H end).

  Lemma step_simple_f cx C ip i po pu stk (m : mstate) :
    fetch C ip = Some i -> flow_of cx i = FNext po pu ->
    step C ip stk m =
    match exec_simple P i stk m with
    | SOk stk' m' => ANext (ip + isize i) stk' m'
    | SErr e m' => AStop (VAbort (XError e) m')
    | SStuck => AStop VStuck
    end.
  Proof.
    intros Hf Hfl. rewrite (step_fetched _ _ _ stk m Hf).
    destruct i; flow_inv Hfl; reflexivity.
  Qed.

  (* ---- function table ---- *)

  Lemma ftable_func fi nsc :
    nth_z FT fi = Some nsc ->
    0 <= fi /\ exists fn, nth_error F (Z.to_nat fi) = Some fn /\ cf_nscalars fn = nsc /\
                          check_func FT fn = true.
  Proof.
    intros H. apply nth_z_Some in H as [H0 H]. split; [exact H0|].
    unfold ftable_of in H. rewrite nth_error_map in H.
    destruct (nth_error F (Z.to_nat fi)) as [fn|] eqn:En; [|discriminate].
    injection H as H. exists fn. split; [reflexivity|]. split; [exact H|].
    unfold check_funcs in HF. rewrite forallb_forall in HF. apply HF. eapply nth_error_In. exact En.
  Qed.

  (* ---- the invariant is preserved: induction on the fuel of [run] ---- *)

  Lemma good_weaken_forin cx d B dp r :
    good (in_forin cx d) B d dp r ->
    match r with
    | VDone stk m => zlen stk = B + d /\ zlen (frame m) = cx_nlocals cx /\ depth m = dp
    | VRet _ stk m => cx_infunc cx = true /\ zlen stk = B /\ zlen (frame m) = cx_nlocals cx /\ depth m = dp
    | VBrk stk m => zlen stk = B + d /\ zlen (frame m) = cx_nlocals cx /\ depth m = dp
    | VAbort _ _ => True
    | VStuck => False
    | VFuel => True
    end.
  Proof.
    destruct r; cbn [good in_forin cx_nlocals cx_infunc cx_forin]; auto.
    intros (db & Hdb & H). injection Hdb as <-. exact H.
  Qed.

  Lemma run_sound : forall k cf cx a C d0 dend,
    check_ann FT (chkb cf) cx a C d0 dend = true ->
    forall ip d stk (m : mstate) B,
      is_target C ip = true -> look a ip = Some d ->
      zlen stk = B + d -> 0 <= B ->
      zlen (frame m) = cx_nlocals cx -> depth m <= maxCallDepth ->
      good cx B dend (depth m) (run k C ip stk m).
  Proof.
    induction k as [|k IH]; intros cf cx a C d0 dend Hchk ip d stk m B Htgt Hlook Hstk HB Hfr Hdp.
    { exact I. }
    pose proof Hchk as Hchk0.
    unfold check_ann in Hchk. apply andb_true_iff in Hchk as [Hchk Hend].
    apply andb_true_iff in Hchk as [Hstart Hall]. rewrite forallb_forall in Hall.
    rewrite run_S.
    destruct (is_target_cases _ _ Htgt) as [Hip|[i Hfetch]].
    { (* the end of the unit *)
      rewrite step_end by lia. subst ip. rewrite Hlook in Hend.
      cbn [good]. split; [lia|split; [assumption|reflexivity]]. }
    pose proof (Hall _ (fetch_boundaries C 0 ip i Hfetch)) as Hloc.
    replace (0 + ip) with ip in Hloc by lia. cbn [fst snd] in Hloc. rewrite Hlook in Hloc.
    unfold local_ok in Hloc.
    (* successor states satisfy the invariant *)
    assert (Hnext : forall ip2 d2 stk2 (m2 : mstate),
               tgt C a ip2 d2 = true -> zlen stk2 = B + d2 ->
               zlen (frame m2) = cx_nlocals cx -> depth m2 = depth m ->
               good cx B dend (depth m) (run k C ip2 stk2 m2)).
    { intros ip2 d2 stk2 m2 Ht Hs2 Hf2 Hd2. apply tgt_true in Ht as [Ht1 Ht2].
      rewrite <- Hd2. eapply IH; try eassumption. lia. }
    destruct (flow_of cx i) as [po pu|po joff fall|po|po| |foff|cfi|] eqn:Hfl.
    - (* straight-line *)
      apply andb_true_iff in Hloc as [Hpo Ht].
      rewrite (step_simple_f cx C ip i po pu stk m Hfetch Hfl).
      pose proof (exec_simple_ok _ _ _ P Hshape cx i po pu stk m Hfl ltac:(lia) Hfr) as Hex.
      destruct (exec_simple P i stk m) as [stk' m'|e m'|]; cbn [sres_ok] in Hex.
      + destruct Hex as (H1 & H2 & H3). apply (Hnext _ _ _ _ Ht); [lia|assumption|assumption].
      + exact I.
      + exact Hex.
    - (* jumps *)
      apply andb_true_iff in Hloc as [Hloc Hfall]. apply andb_true_iff in Hloc as [Hpo Ht].
      rewrite (step_fetched _ _ _ stk m Hfetch).
      destruct i; flow_inv Hfl; injection Hfl as <- <- <-; cbv zeta beta iota.
      + apply (Hnext _ _ _ _ Ht); [lia|assumption|reflexivity].
      + destruct stk as [|v stk]; [exfalso; rewrite zlen_nil in *; lia|rewrite zlen_cons in *].
        destruct (p_to_bool P v);
          [apply (Hnext _ _ _ _ Hfall)|apply (Hnext _ _ _ _ Ht)]; first [lia|assumption|reflexivity].
      + destruct stk as [|v stk]; [exfalso; rewrite zlen_nil in *; lia|rewrite zlen_cons in *].
        destruct (p_to_bool P v);
          [apply (Hnext _ _ _ _ Ht)|apply (Hnext _ _ _ _ Hfall)]; first [lia|assumption|reflexivity].
      + destruct stk as [|v stk]; [exfalso; rewrite zlen_nil in *; lia|rewrite zlen_cons in *].
        destruct stk as [|w stk]; [exfalso; rewrite zlen_nil in *; lia|rewrite zlen_cons in *].
        destruct (p_cmpj P c (ms m) w v);
          [apply (Hnext _ _ _ _ Ht)|apply (Hnext _ _ _ _ Hfall)]; first [lia|assumption|reflexivity].
    - (* next / nextfile / exit *)
      rewrite (step_fetched _ _ _ stk m Hfetch).
      destruct i; flow_inv Hfl; injection Hfl as <-; cbv zeta beta iota; try exact I.
      destruct stk as [|v stk]; [exfalso; rewrite zlen_nil in *; lia|exact I].
    - (* return *)
      apply andb_true_iff in Hloc as [Hin Hd1].
      rewrite (step_fetched _ _ _ stk m Hfetch).
      destruct i; flow_inv Hfl; injection Hfl as <-; cbv zeta beta iota.
      + destruct stk as [|v stk]; [exfalso; rewrite zlen_nil in *; lia|rewrite zlen_cons in *].
        cbn [good]. split; [assumption|split; [lia|split; [assumption|reflexivity]]].
      + cbn [good]. split; [assumption|split; [lia|split; [assumption|reflexivity]]].
    - (* break out of a for-in *)
      rewrite (step_fetched _ _ _ stk m Hfetch).
      destruct i; flow_inv Hfl. cbv zeta beta iota.
      destruct (cx_forin cx) as [db|] eqn:Hdb; [|discriminate].
      cbn [good]. exists db. split; [assumption|]. split; [lia|split; [assumption|reflexivity]].
    - (* for-in *)
      rewrite (step_fetched _ _ _ stk m Hfetch).
      destruct i; flow_inv Hfl. injection Hfl as <-. cbv zeta beta iota.
      apply andb_true_iff in Heqb as [Hvar Hasc].
      destruct (sub_code C (ip + isize (IForIn vsc vi asc ai off)) off) as [body|] eqn:Hsub; [|discriminate].
      apply andb_true_iff in Hloc as [Hbody Ht].
      unfold chkb in Hbody. destruct cf as [|cf']; [discriminate|]. cbn [check_seg] in Hbody.
      fold (chkb cf') in Hbody.
      assert (Hb0 : look (infer FT (in_forin cx d) body d) 0 = Some d).
      { unfold check_ann in Hbody. apply andb_true_iff in Hbody as [Hb _].
        apply andb_true_iff in Hb as [Hb _]. apply look_is_true. exact Hb. }
      generalize (p_array_keys P (ms m) asc ai). intros keys.
      (* the loop over the keys keeps the invariant *)
      assert (Hloop : forall stk1 (m1 : mstate),
                 zlen stk1 = B + d -> zlen (frame m1) = cx_nlocals cx -> depth m1 = depth m ->
                 good cx B dend (depth m)
                   ((fix loop (ks : list value) (stk : list value) (m : mstate) : vres :=
                       match ks with
                       | [] => run k C (ip + isize (IForIn vsc vi asc ai off) + off) stk m
                       | key :: ks' =>
                           match var_write P m vsc vi key with
                           | WStuck => VStuck
                           | WErr e m1 => VAbort (XError e) m1
                           | WOk m1 =>
                               match run k body 0 stk m1 with
                               | VDone stk' m2 => loop ks' stk' m2
                               | VBrk stk' m2 => run k C (ip + isize (IForIn vsc vi asc ai off) + off) stk' m2
                               | other => other
                               end
                           end
                       end) keys stk1 m1)).
      { induction keys as [|key ks IHk]; intros stk1 m1 Hs1 Hf1 Hd1.
        - apply (Hnext _ _ _ _ Ht); assumption.
        - pose proof (var_write_ok _ _ _ P cx (depth m) m1 vsc vi key Hvar Hf1 Hd1) as Hw.
          destruct (var_write P m1 vsc vi key) as [m1'|e m1'|]; cbn [wres_ok] in Hw; [|exact I|exact Hw].
          destruct Hw as [Hf1' Hd1'].
          pose proof (IH cf' (in_forin cx d) _ body d d Hbody 0 d stk1 m1' B
                        (is_target_start body) Hb0 Hs1 HB Hf1' ltac:(lia)) as Hg.
          apply good_weaken_forin in Hg. rewrite Hd1' in Hg.
          destruct (VM.run P F k body 0 stk1 m1') as [stk' m2|v stk' m2|stk' m2|x m2| |].
          + destruct Hg as (G1 & G2 & G3). apply IHk; assumption.
          + cbn [good]. exact Hg.
          + destruct Hg as (G1 & G2 & G3). apply (Hnext _ _ _ _ Ht); assumption.
          + exact I.
          + exact Hg.
          + exact I. }
      apply Hloop; [assumption|assumption|reflexivity].
    - (* user call *)
      rewrite (step_fetched _ _ _ stk m Hfetch).
      destruct i; flow_inv Hfl. injection Hfl as <-. cbv zeta beta iota.
      destruct (nth_z FT fi) as [nsc|] eqn:Hnz; [|discriminate].
      apply andb_true_iff in Hloc as [Hloc Ht]. apply andb_true_iff in Hloc as [Hnsc0 Hnsc].
      destruct (ftable_func _ _ Hnz) as (Hfi & fn & Hfn & Hns & Hcf).
      destruct (fi <? 0) eqn:Efi; [lia|]. rewrite Hfn.
      destruct (maxCallDepth <=? depth m) eqn:Emax; [exact I|].
      subst nsc.
      destruct (pop_n_z _ (cf_nscalars fn) stk ltac:(lia) ltac:(lia)) as (args & t0 & Ep & Lt0 & Largs).
      rewrite Ep.
      (* the callee *)
      unfold check_func in Hcf. apply andb_true_iff in Hcf as [_ Hcode].
      unfold check_code in Hcode. cbn [check_seg] in Hcode. fold (chkb (length (cf_body fn))) in Hcode.
      assert (Hc0 : look (infer FT (top_ctx (cf_nscalars fn) true) (cf_body fn) 0) 0 = Some 0).
      { unfold check_ann in Hcode. apply andb_true_iff in Hcode as [Hb _].
        apply andb_true_iff in Hb as [Hb _]. apply look_is_true. exact Hb. }
      set (m1 := {| ms := p_push_arrays P (ms m) arrs (cf_narrays fn); frame := args; depth := depth m + 1 |}).
      pose proof (IH _ (top_ctx (cf_nscalars fn) true) _ (cf_body fn) 0 0 Hcode 0 0 stk m1 (zlen stk)
                    (is_target_start _) Hc0 ltac:(lia) ltac:(pose proof (zlen_nonneg stk); lia)
                    ltac:(cbn [m1 frame top_ctx cx_nlocals]; exact Largs)
                    ltac:(cbn [m1 depth]; lia)) as Hg.
      assert (Hfin : forall v stk' (m2 : mstate), zlen stk' = zlen stk ->
                 good cx B dend (depth m)
                   match pop_n (Z.to_nat (cf_nscalars fn)) stk' [] with
                   | Some (_, t) => run k C (ip + isize (ICallUser fi arrs)) (v :: t) (restore P m m2)
                   | None => VStuck
                   end).
      { intros v stk' m2 Hs'.
        destruct (pop_n_z _ (cf_nscalars fn) stk' ltac:(lia) ltac:(lia)) as (a2 & t2 & Ep2 & Lt2 & _).
        rewrite Ep2. apply (Hnext _ _ _ _ Ht).
        - rewrite zlen_cons. lia.
        - cbn [restore frame]. assumption.
        - reflexivity. }
      cbv zeta.
      destruct (VM.run P F k (cf_body fn) 0 stk m1) as [stk' m2|v stk' m2|stk' m2|x m2| |];
        cbn [good top_ctx cx_forin] in Hg.
      + apply Hfin. lia.
      + apply Hfin. lia.
      + destruct Hg as (db & Hdb & _). discriminate.
      + exact I.
      + exact Hg.
      + exact I.
    - discriminate.
  Qed.

  (* ---- a checked unit, entered at its start ---- *)

  Theorem check_code_good nlocals infunc d0 dend C :
    check_code FT nlocals infunc d0 dend C = true ->
    forall fuel stk (m : mstate),
      d0 <= zlen stk -> zlen (frame m) = nlocals -> depth m <= maxCallDepth ->
      good (top_ctx nlocals infunc) (zlen stk - d0) dend (depth m) (run fuel C 0 stk m).
  Proof.
    intros Hc fuel stk m Hd Hf Hdp.
    unfold check_code in Hc. cbn [check_seg] in Hc. fold (chkb (length C)) in Hc.
    assert (H0 : look (infer FT (top_ctx nlocals infunc) C d0) 0 = Some d0).
    { unfold check_ann in Hc. apply andb_true_iff in Hc as [Hb _].
      apply andb_true_iff in Hb as [Hb _]. apply look_is_true. exact Hb. }
    eapply run_sound; try eassumption.
    - apply is_target_start.
    - lia.
    - lia.
  Qed.

  Theorem check_code_never_stuck nlocals infunc d0 dend C :
    check_code FT nlocals infunc d0 dend C = true ->
    forall fuel stk (m : mstate),
      d0 <= zlen stk -> zlen (frame m) = nlocals -> depth m <= maxCallDepth ->
      run fuel C 0 stk m <> VStuck.
  Proof.
    intros Hc fuel stk m Hd Hf Hdp E.
    pose proof (check_code_good _ _ _ _ _ Hc fuel stk m Hd Hf Hdp) as Hg. rewrite E in Hg. exact Hg.
  Qed.

  (* the evaluation stack is where the annotation says when the unit completes, the frame
     and the call depth are restored; Return is only seen in functions, with the stack back at
     the activation's base; a for-in break never escapes its unit *)
  Theorem check_code_balanced nlocals infunc d0 dend C :
    check_code FT nlocals infunc d0 dend C = true ->
    forall fuel stk (m : mstate),
      d0 <= zlen stk -> zlen (frame m) = nlocals -> depth m <= maxCallDepth ->
      match run fuel C 0 stk m with
      | VDone stk' m' => zlen stk' = zlen stk - d0 + dend /\ zlen (frame m') = nlocals /\ depth m' = depth m
      | VRet _ stk' m' => infunc = true /\ zlen stk' = zlen stk - d0 /\ depth m' = depth m
      | VBrk _ _ => False
      | VStuck => False
      | _ => True
      end.
  Proof.
    intros Hc fuel stk m Hd Hf Hdp.
    pose proof (check_code_good _ _ _ _ _ Hc fuel stk m Hd Hf Hdp) as Hg.
    destruct (run fuel C 0 stk m); cbn [good top_ctx cx_nlocals cx_infunc cx_forin] in Hg; auto.
    - intuition.
    - destruct Hg as (db & Hdb & _). discriminate.
  Qed.

End Sound.
