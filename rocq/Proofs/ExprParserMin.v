(* C04 — the two printers produce writings that respect the table (fits), hence are read back. *)
From Verif Require Import Lib.Base Model.ExprAst Model.ExprParser Proofs.ExprParserMono Proofs.ExprParserRel
  Proofs.PrecSpec Proofs.ExprParserPrinted.
Local Open Scope nat_scope.

(* one-step unfoldings of pnode (its local operand function is [par]) *)
Lemma pnode_field f pe i : pnode f pe (EField i) = EField (par f pe 14 i).
Proof. reflexivity. Qed.
Lemma pnode_index f pe a idx : pnode f pe (EIndex a idx) = EIndex a (map (par f false 0) idx).
Proof. reflexivity. Qed.
Lemma pnode_ucall f pe n args : pnode f pe (EUserCall n args) = EUserCall n (map (par f false 0) args).
Proof. reflexivity. Qed.
Lemma pnode_in1 f pe x a : pnode f pe (EIn [x] a) = EIn [par f pe 5 x] a.
Proof. reflexivity. Qed.
Lemma pnode_in2 f pe x y es a :
  pnode f pe (EIn (x :: y :: es) a) = EIn (map (par f false 0) (x :: y :: es)) a.
Proof. reflexivity. Qed.
Lemma pnode_unary f pe op v : pnode f pe (EUnary op v) = EUnary op (par f pe 11 v).
Proof. reflexivity. Qed.
Lemma pnode_binary f pe op l r :
  pnode f pe (EBinary op l r) =
  EBinary op (par f pe (lreq op) l)
    (match r with
     | EStrRegex _ => if is_match op then r else par f pe (rreq op) r
     | _ => par f pe (rreq op) r
     end).
Proof. reflexivity. Qed.
Lemma pnode_cond f pe c t e : pnode f pe (ECond c t e) = ECond (par f pe 3 c) (par f pe 2 t) (par f pe 2 e).
Proof. reflexivity. Qed.
Lemma pnode_assign f pe l r : pnode f pe (EAssign l r) = EAssign (pnode f pe l) (par f pe 1 r).
Proof. reflexivity. Qed.
Lemma pnode_augassign f pe op l r : pnode f pe (EAugAssign op l r) = EAugAssign op (pnode f pe l) (par f pe 1 r).
Proof. reflexivity. Qed.
Lemma pnode_incr f pe op pre x : pnode f pe (EIncr op pre x) = EIncr op pre (pnode f pe x).
Proof. reflexivity. Qed.

(* parser rank of the position that a table requirement stands for *)
Definition pos (req : nat) : nat :=
  match req with
  | 0 | 1 => 0 | 2 => 2 | 3 => 3 | 4 => 4 | 5 => 5 | 6 => 6 | 7 => 7 | 8 => 8 | 9 => 9 | 10 => 10
  | 11 => 11 | 12 => 11 | 13 => 12 | _ => 13
  end.

(* the largest continuation rank of a token that may follow an operand printed for requirement req *)
Definition thr (req : nat) : nat :=
  match req with
  | 0 | 1 | 2 => 0 | 3 => 4 | 4 => 5 | 5 => 6 | 6 => 7 | 7 => 8 | 8 => 9 | 9 => 10 | 10 => 11
  | 11 => 11 | 12 => 11 | 13 => 12 | 14 => 12 | _ => 13
  end.

Lemma thr_mono a b : a <= b -> thr a <= thr b.
Proof.
  intros H.
  do 16 (destruct a as [|a]; [do 16 (destruct b as [|b]; [cbn; lia|]); cbn; lia|]).
  do 16 (destruct b as [|b]; [lia|]). cbn. lia.
Qed.

Lemma thr_le13 a : thr a <= 13.
Proof. do 16 (destruct a as [|a]; [cbn; lia|]). cbn. lia. Qed.

Lemma okn_par_group f pe req e ct cf pc :
  f || (tlevel e <? req) || (pe && is_gt e) = true -> okn pc (par f pe req e) ct cf = true.
Proof. intros H. unfold par. rewrite H. reflexivity. Qed.

Lemma wf_binary_r op l r : wf (EBinary op l r) ->
  wf l /\ ((exists s, r = EStrRegex s /\ is_match op = true) \/ wf r).
Proof. cbn [wf]. intros (Hl & [H | (Hr & _)]); auto. Qed.

(* a token may follow an operand printed for req when its continuation rank IN THE TOWER THE OPERAND
   IS READ IN is at most thr req, and its rank in the plain tower is at most max (thr req) 11:
   the plain tower is re-entered only below a unary operator, $ or ++/--, whose operands are read at
   the ^ level or above (so, inside print, > and | may follow any argument) *)
Definition OkPar (e : expr) : Prop :=
  wf e -> forall (fl pc pe : bool) (req ct cf : nat),
  (if pc then ct else cf) <= thr req -> cf <= Nat.max (thr req) 11 ->
  okn pc (par fl pe req e) ct cf = true.

Lemma okn_par_strong : forall e, OkPar e /\ match e with EField i => OkPar i | _ => True end.
Proof.
  induction e using expr_ind'; (split; [|try exact I; try (apply IHe)]);
    intros Hwf fl pc pe req ct cf Hcp Hcf;
    (match goal with |- okn _ (par _ _ _ ?e0) _ _ = true =>
       destruct (fl || (tlevel e0 <? req) || (pe && is_gt e0)) eqn:Hg end;
     [apply okn_par_group; exact Hg|]);
    unfold par; rewrite Hg;
    apply orb_false_elim in Hg as [Hg _]; apply orb_false_elim in Hg as [_ Hlv];
    apply Nat.ltb_ge in Hlv; cbn [tlevel] in Hlv; pose proof (thr_mono _ _ Hlv) as Hm;
    try reflexivity; try contradiction.
  - (* $i *)
    rewrite pnode_field. cbn [okn]. cbn [thr] in Hm.
    rewrite (proj2 (leb_le _ _)) by lia. apply IHe; [exact Hwf | cbn; lia | cbn; lia].
  - (* variable *)
    cbn [pnode okn]. apply leb_le. pose proof (thr_le13 req). exact (Nat.le_trans _ _ _ Hcp H).
  - (* in *)
    destruct idx as [|x [|y r]]; reflexivity.
  - (* unary *)
    rewrite pnode_unary. cbn [okn]. cbn [thr] in Hm.
    rewrite (proj2 (leb_le _ _)) by lia. apply IHe; [exact Hwf | cbn; lia | cbn; lia].
  - (* binary *)
    rewrite pnode_binary. apply wf_binary_r in Hwf as (Hwl & Hwr).
    assert (Hr : okn pc (match e2 with
                         | EStrRegex _ => if is_match op then e2 else par fl pe (rreq op) e2
                         | _ => par fl pe (rreq op) e2 end) ct cf = true).
    { destruct Hwr as [(s & -> & ->) | Hwr]; [reflexivity|].
      assert (Hthr : thr (fst (table op)) <= thr (rreq op))
        by (apply thr_mono; unfold rreq; destruct op; cbn; lia).
      assert (Hp : okn pc (par fl pe (rreq op) e2) ct cf = true) by (apply IHe2; [exact Hwr | lia | lia]).
      destruct e2; try exact Hp. cbn [wf] in Hwr. contradiction. }
    cbn [okn]. rewrite Hr.
    destruct op; cbn [table fst thr] in Hm; rewrite andb_true_r; apply leb_le; lia.
  - (* ?: *)
    rewrite pnode_cond. cbn [okn]. cbn [thr] in Hm. destruct Hwf as (_ & _ & Hwf3).
    rewrite (proj2 (leb_le _ _)) by lia. apply IHe3; [exact Hwf3 | cbn; lia | cbn; lia].
  - (* = *)
    rewrite pnode_assign. cbn [okn]. cbn [thr] in Hm. destruct Hwf as (_ & _ & Hwr).
    rewrite (proj2 (leb_le _ _)) by lia. apply IHe2; [exact Hwr | cbn; lia | cbn; lia].
  - (* op= *)
    rewrite pnode_augassign. cbn [okn]. cbn [thr] in Hm. destruct Hwf as (_ & _ & _ & Hwr).
    rewrite (proj2 (leb_le _ _)) by lia. apply IHe2; [exact Hwr | cbn; lia | cbn; lia].
  - (* ++ -- *)
    rewrite pnode_incr. destruct pre; [|reflexivity]. cbn [okn]. cbn [thr] in Hm.
    destruct Hwf as (Hlval & Hwx & _). destruct IHe as [_ IHi].
    destruct e; try discriminate.
    + (* ++$i *) rewrite pnode_field. cbn [okn].
      rewrite (proj2 (leb_le _ _)) by lia. apply IHi; [exact Hwx | cbn; lia | cbn; lia].
    + cbn [pnode okn]. apply leb_le. pose proof (thr_le13 req). lia.
    + reflexivity.
Qed.

Lemma okn_par e : OkPar e.
Proof. apply okn_par_strong. Qed.

(* ---- fits ---- *)

Lemma pos_mono a b : a <= b -> pos a <= pos b.
Proof.
  intros H.
  do 15 (destruct a as [|a]; [do 15 (destruct b as [|b]; [cbn; lia|]); cbn; lia|]).
  do 15 (destruct b as [|b]; [lia|]). cbn. lia.
Qed.

Lemma level_pos c : wf c -> pos (tlevel c) <= nat_rk c.
Proof.
  intros Hwf. destruct c; cbn; try lia; try contradiction.
  - destruct idx as [|x [|y r]]; cbn; lia.
  - destruct op; cbn; lia.
  - destruct pre; [lia|]. destruct c; cbn; lia.
Qed.

Lemma nat_rk_pnode fl pe e : wf e -> nat_rk (pnode fl pe e) = nat_rk e.
Proof.
  intros Hwf. destruct e; try reflexivity; try contradiction.
  - destruct idx as [|x [|y r]]; reflexivity.
  - rewrite pnode_incr. cbn [nat_rk]. destruct pre; [reflexivity|].
    destruct Hwf as (Hlv & _). destruct e; try discriminate; reflexivity.
Qed.

Definition FitsNode (e : expr) : Prop :=
  wf e -> forall fl pc pe, (pc = true -> pe = true) -> (pc = true -> is_gt e = false) ->
  fits pc (nat_rk e) (pnode fl pe e).

Lemma fits_par c : FitsNode c -> wf c -> forall fl pc pe req, (pc = true -> pe = true) ->
  fits pc (pos req) (par fl pe req c).
Proof.
  intros HN Hwf fl pc pe req Hp. unfold par.
  destruct (fl || (tlevel c <? req) || (pe && is_gt c)) eqn:Hg.
  - cbn [fits]. eapply fits_mono; [apply HN; [exact Hwf | discriminate | discriminate] | lia].
  - apply orb_false_elim in Hg as [Hg Hgt]. apply orb_false_elim in Hg as [_ Hlv].
    apply Nat.ltb_ge in Hlv.
    eapply fits_mono; [apply HN; [exact Hwf | exact Hp |] |].
    + intros ->. rewrite (Hp eq_refl) in Hgt. exact Hgt.
    + pose proof (pos_mono _ _ Hlv). pose proof (level_pos _ Hwf). lia.
Qed.

Lemma all_fit_map fl es : Forall FitsNode es -> all_wf wf es ->
  all_fit (fits false 0) (map (par fl false 0) es).
Proof.
  induction es as [|x es IH]; intros HF Hw; [exact I|].
  inversion HF; subst. destruct Hw as [Hwx Hws]. cbn [map all_fit]. split; [|apply IH; assumption].
  apply (fits_par x H1 Hwx fl false false 0). discriminate.
Qed.

Lemma ok_par_pc pc fl pe req e t : wf e ->
  tok_cont pc t <= thr req -> tok_cont false t <= Nat.max (thr req) 11 -> ok pc (par fl pe req e) t = true.
Proof.
  intros Hwf Hp Hc. unfold ok. apply okn_par; [exact Hwf | destruct pc; exact Hp | exact Hc].
Qed.

Lemma ok_par pc fl pe req e t : wf e ->
  tok_cont false t <= thr req -> ok pc (par fl pe req e) t = true.
Proof.
  intros Hwf Hc. apply ok_par_pc; [exact Hwf | | lia].
  pose proof (tok_cont_true_le t). destruct pc; lia.
Qed.

(* an lvalue may be followed by any token of continuation rank <= 12 *)
Lemma ok_lvalue pc fl pe l t : wf l -> is_lvalue l = true ->
  tok_cont false t <= 12 -> ok pc (pnode fl pe l) t = true.
Proof.
  intros Hwf Hlv Hc. pose proof (tok_cont_true_le t) as Ht. unfold ok.
  destruct l; try discriminate.
  - rewrite pnode_field. cbn [okn]. rewrite (proj2 (leb_le _ _)) by lia.
    apply okn_par; [exact Hwf | cbn; lia | cbn; lia].
  - cbn [pnode okn]. apply leb_le. destruct pc; lia.
  - reflexivity.
Qed.

Lemma is_lvalue_pnode fl pe l : is_lvalue l = true -> is_lvalue (pnode fl pe l) = true.
Proof. destruct l; try discriminate; reflexivity. Qed.

Lemma ok_field_incr fl pe i : wf i -> (match i with EField _ => False | _ => True end) ->
  ok false (par fl pe 14 i) TIncr = true.
Proof.
  intros Hwf Hn. unfold par.
  destruct (fl || (tlevel i <? 14) || (pe && is_gt i)) eqn:Hg; [reflexivity|].
  apply orb_false_elim in Hg as [Hg _]. apply orb_false_elim in Hg as [_ Hlv].
  apply Nat.ltb_ge in Hlv.
  destruct i; cbn [tlevel] in Hlv; try lia; try contradiction; try reflexivity.
  - destruct idx as [|x [|y r]]; cbn in Hlv; try lia; reflexivity.
  - destruct op; cbn in Hlv; lia.
Qed.

Lemma first_tok_group e : first_tok (EGroup e) = TLParen true.
Proof. reflexivity. Qed.

Lemma par_full c pe req : par true pe req c = EGroup (pnode true false c).
Proof. reflexivity. Qed.

Theorem fits_pnode : forall e, FitsNode e.
Proof.
  induction e using expr_ind'; intros Hwf fl pc pe Hp Hgt; try exact I; try contradiction.
  - (* $ *) rewrite pnode_field. cbn [fits]. apply (fits_par e IHe Hwf fl false pe 14). discriminate.
  - (* a[..] *) rewrite pnode_index. destruct Hwf as [Hne Hw]. cbn [fits]. split.
    + destruct idx; [congruence | discriminate].
    + apply all_fit_map; assumption.
  - (* in *)
    destruct idx as [|x [|y r]]; [contradiction| |].
    + rewrite pnode_in1. inversion H; subst. cbn [wf] in Hwf. cbn [fits nat_rk]. repeat split; [lia | |].
      * apply (fits_par x H2 Hwf fl pc pe 5 Hp).
      * apply ok_par; [exact Hwf | cbn; lia].
    + rewrite pnode_in2. cbn [fits]. apply all_fit_map; assumption.
  - (* unary *) rewrite pnode_unary. cbn [fits]. apply (fits_par e IHe Hwf fl false pe 11). discriminate.
  - (* binary *)
    rewrite pnode_binary. cbn [wf] in Hwf. destruct Hwf as (Hwl & Hwr).
    pose proof (fun req => fits_par e1 IHe1 Hwl fl pc pe req Hp) as FL.
    assert (OL : forall t, tok_cont false t <= thr (lreq op) -> ok pc (par fl pe (lreq op) e1) t = true)
      by (intros t Ht; apply ok_par; assumption).
    destruct Hwr as [(s & -> & Hm) | (Hwr & Hre & Hcs)].
    + (* e ~ /re/ *)
      rewrite Hm. destruct op; try discriminate; cbn [fits nat_rk]; repeat split; try lia;
        try (apply (FL 7)); try (apply OL; cbn; lia).
    + pose proof (fun req => fits_par e2 IHe2 Hwr fl pc pe req Hp) as FR.
      assert (Hr : match e2 with
                   | EStrRegex _ => if is_match op then e2 else par fl pe (rreq op) e2
                   | _ => par fl pe (rreq op) e2 end = par fl pe (rreq op) e2)
        by (destruct e2; try reflexivity; contradiction).
      rewrite Hr.
      assert (HM : is_match op = true ->
                   match par fl pe 7 e2 with
                   | EStrRegex _ => True
                   | _ => fits pc 7 (par fl pe 7 e2) /\ not_regex_start (par fl pe 7 e2)
                   end).
      { intros Hm. assert (HH : fits pc 7 (par fl pe 7 e2) /\ not_regex_start (par fl pe 7 e2)).
        { split; [apply (FR 7)|]. destruct fl; [rewrite par_full; exact I | apply Hre; exact Hm]. }
        destruct (par fl pe 7 e2); try exact HH; exact I. }
      assert (HC : op = BConcat ->
                   concat_start (first_tok (par fl pe 9 e2)) = true /\
                   tok_cont false (first_tok (par fl pe 9 e2)) <= 9).
      { intros Hc. destruct fl; [rewrite par_full; cbn; split; [reflexivity | lia] | apply Hcs; exact Hc]. }
      destruct op; cbn [fits nat_rk lreq rreq table] in *; repeat split; try lia;
        try (apply (FL 9)); try (apply (FR 10)); try (apply (FL 10)); try (apply (FR 11));
        try (apply (FL 13)); try (apply (FR 12)); try (apply (FL 8)); try (apply (FR 8));
        try (apply (FL 7)); try (apply (FR 7)); try (apply (FL 4)); try (apply (FR 5));
        try (apply (FL 3)); try (apply (FR 4)); try (apply (FR 9));
        try (apply OL; cbn; lia); try (intros; congruence);
        try (apply HM; reflexivity).
      * intros Hpc. specialize (Hgt Hpc). discriminate.
      * apply HC; reflexivity.
      * destruct (HC eq_refl) as [_ H9]. pose proof (tok_cont_true_le (first_tok (par fl pe (8 + 1) e2))).
        destruct pc; [change (8 + 1) with 9 in *; lia | exact H9].
      * apply OL. cbn [thr]. apply (HC eq_refl).
  - (* ?: *)
    rewrite pnode_cond. destruct Hwf as (Hwc & Hwt & Hwf'). cbn [fits nat_rk]. repeat split; [lia | | | |].
    + apply (fits_par e1 IHe1 Hwc fl pc pe 3 Hp).
    + apply ok_par; [exact Hwc | cbn; lia].
    + eapply fits_mono; [apply (fits_par e2 IHe2 Hwt fl pc pe 2 Hp) | cbn; lia].
    + eapply fits_mono; [apply (fits_par e3 IHe3 Hwf' fl pc pe 2 Hp) | cbn; lia].
  - (* = *)
    rewrite pnode_assign. destruct Hwf as (Hlv & Hwl & Hwr). cbn [fits nat_rk]. repeat split.
    + apply is_lvalue_pnode; exact Hlv.
    + eapply fits_mono; [apply IHe1; [exact Hwl | exact Hp |]|].
      * intros _. destruct e1; try discriminate; reflexivity.
      * destruct e1; try discriminate; cbn; lia.
    + apply ok_lvalue; [exact Hwl | exact Hlv | cbn; lia].
    + apply (fits_par e2 IHe2 Hwr fl pc pe 1 Hp).
  - (* op= *)
    rewrite pnode_augassign. destruct Hwf as (Hop & Hlv & Hwl & Hwr). cbn [fits nat_rk]. repeat split.
    + apply is_lvalue_pnode; exact Hlv.
    + eapply fits_mono; [apply IHe1; [exact Hwl | exact Hp |]|].
      * intros _. destruct e1; try discriminate; reflexivity.
      * destruct e1; try discriminate; cbn; lia.
    + apply ok_lvalue; [exact Hwl | exact Hlv | cbn; lia].
    + apply (fits_par e2 IHe2 Hwr fl pc pe 1 Hp).
    + destruct op; try contradiction; reflexivity.
  - (* ++ -- *)
    rewrite pnode_incr. destruct Hwf as (Hlv & Hwx & Hpost).
    destruct e; try discriminate.
    + (* $i *)
      rewrite pnode_field. cbn [wf] in Hwx.
      assert (Fi : fits false 13 (par fl pe 14 e)).
      { specialize (IHe Hwx fl false pe). rewrite pnode_field in IHe. cbn [fits] in IHe.
        apply IHe; discriminate. }
      destruct pre; cbn [fits]; [exact Fi|]. split; [exact Fi|].
      apply ok_field_incr; [exact Hwx|]. specialize (Hpost eq_refl). destruct e; try exact I; contradiction.
    + destruct pre; cbn [pnode fits nat_rk]; [exact I | lia].
    + assert (Fx : fits false 13 (pnode fl pe (EIndex arr idx)))
        by (eapply fits_mono; [apply IHe; [exact Hwx | discriminate | discriminate] | cbn; lia]).
      destruct pre; cbn [fits nat_rk]; rewrite pnode_index in *; [exact Fx | split; [lia | exact Fx]].
  - (* f(...) *)
    rewrite pnode_ucall. cbn [fits]. apply all_fit_map; assumption.
Qed.

(* ---- removing the grouping nodes gives back the tree ---- *)
Lemma strip_pnode : forall e, wf e -> forall fl pe, strip (pnode fl pe e) = e.
Proof.
  assert (SP : forall c, (forall fl pe, strip (pnode fl pe c) = c) -> forall fl pe req, strip (par fl pe req c) = c).
  { intros c H fl pe req. unfold par. destruct (fl || _ || _); cbn [strip]; apply H. }
  assert (SM : forall fl es, Forall (fun c => wf c -> forall fl pe, strip (pnode fl pe c) = c) es ->
               all_wf wf es -> map strip (map (par fl false 0) es) = es).
  { intros fl es. induction es as [|x es IH]; intros HF Hw; [reflexivity|].
    inversion HF; subst. destruct Hw as [Hx Hs]. cbn [map]. f_equal; [apply SP; auto | apply IH; assumption]. }
  induction e using expr_ind'; intros Hwf fl pe; try reflexivity; try contradiction.
  - rewrite pnode_field. cbn [strip]. f_equal. apply SP. auto.
  - rewrite pnode_index. cbn [strip]. f_equal. apply SM; [assumption | apply Hwf].
  - destruct idx as [|x [|y r]]; [contradiction| |].
    + rewrite pnode_in1. inversion H; subst. cbn [strip map]. f_equal. f_equal. apply SP. auto.
    + rewrite pnode_in2. cbn [strip]. f_equal. apply SM; assumption.
  - rewrite pnode_unary. cbn [strip]. f_equal. apply SP. auto.
  - rewrite pnode_binary. cbn [wf] in Hwf. destruct Hwf as (Hwl & Hwr). cbn [strip]. f_equal; [apply SP; auto|].
    destruct Hwr as [(s & -> & ->) | (Hwr & _)]; [reflexivity|].
    destruct e2; try (apply SP; auto). contradiction.
  - rewrite pnode_cond. destruct Hwf as (H1 & H2 & H3). cbn [strip]. f_equal; apply SP; auto.
  - rewrite pnode_assign. destruct Hwf as (_ & H1 & H2). cbn [strip]. f_equal; [auto | apply SP; auto].
  - rewrite pnode_augassign. destruct Hwf as (_ & _ & H1 & H2). cbn [strip]. f_equal; [auto | apply SP; auto].
  - rewrite pnode_incr. destruct Hwf as (_ & H1 & _). cbn [strip]. f_equal. auto.
  - rewrite pnode_ucall. cbn [strip]. f_equal. apply SM; assumption.
Qed.

Lemma strip_par e fl pe req : wf e -> strip (par fl pe req e) = e.
Proof. intros H. unfold par. destruct (fl || _ || _); cbn [strip]; apply strip_pnode; exact H. Qed.

(* ---- main theorems ---- *)

(* an operand printed for requirement req, at a position of rank pos req, followed by a token that
   may follow it, is read back exactly *)
Theorem parse_par : forall e fl pc req k rest,
  wf e -> rk k = pos req -> (pc = true -> k <> LGetline) ->
  tok_cont false (hd_tok rest) <= thr req -> tok_cont pc (hd_tok rest) <= rk k ->
  exists n0, forall n, n0 <= n ->
    p_lv n k pc None (flat (par fl pc req e) ++ rest) = POk (par fl pc req e, rest).
Proof.
  intros e fl pc req k rest Hwf Hk Hpc Hthr Hc.
  apply parse_printed; try assumption.
  - rewrite Hk. apply fits_par; [apply fits_pnode | exact Hwf | auto].
  - apply ok_par; assumption.
Qed.

(* pp_min and pp_full, whole expression, any depth: both are read back as the same tree, which is e
   once the grouping nodes are removed.  rest = what follows the expression: a token that no level
   consumes (end of input, ")", "]", ",", ";", "}", newline, ":" ...). *)
Theorem pp_min_full_parse : forall e pe rest,
  wf e -> tok_cont false (hd_tok rest) = 0 ->
  exists n0, forall n, n0 <= n ->
    exists e1 e2,
      p_lv n LExpr pe None (pp_min pe e ++ rest) = POk (e1, rest) /\
      p_lv n LExpr pe None (pp_full pe e ++ rest) = POk (e2, rest) /\
      strip e1 = e /\ strip e2 = e.
Proof.
  intros e pe rest Hwf Hz.
  assert (Hz' : tok_cont pe (hd_tok rest) = 0) by (pose proof (tok_cont_true_le (hd_tok rest)); destruct pe; lia).
  destruct (parse_par e false pe 0 LExpr rest Hwf eq_refl ltac:(congruence) ltac:(cbn; lia) ltac:(cbn; lia)) as [n1 H1].
  set (e2 := if pe && is_gt e then EGroup (pnode true false e) else pnode true pe e).
  assert (H2 : exists n2, forall n, n2 <= n -> p_lv n LExpr pe None (flat e2 ++ rest) = POk (e2, rest)).
  { apply parse_printed; try congruence; try (cbn; lia).
    - subst e2. destruct (pe && is_gt e) eqn:Hg.
      + cbn [fits]. eapply fits_mono; [apply fits_pnode; [exact Hwf | discriminate | discriminate] | lia].
      + eapply fits_mono; [apply fits_pnode; [exact Hwf | auto |] | cbn; lia].
        intros ->. exact Hg.
    - apply ok_zero. exact Hz. }
  destruct H2 as [n2 H2].
  exists (Nat.max n1 n2). intros n Hn.
  exists (par false pe 0 e), e2. repeat split.
  - apply H1. lia.
  - apply H2. lia.
  - apply strip_par. exact Hwf.
  - subst e2. destruct (pe && is_gt e); cbn [strip]; apply strip_pnode; exact Hwf.
Qed.
