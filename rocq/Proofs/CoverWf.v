(* C18 proofs, part 5: every tracked block comes from two positions p1 < p2 of the program
   (start of the first statement of the block, end position of its last statement), and when
   both lie in the same program file the reported block lies inside that file, start before end. *)
From Verif Require Import Lib.Base Model.Cover Proofs.CoverBase Proofs.CoverStruct.

Lemma pos_le_refl a : pos_le a a.
Proof. unfold pos_le. lia. Qed.
Lemma pos_le_trans a b c : pos_le a b -> pos_le b c -> pos_le a c.
Proof. unfold pos_le. lia. Qed.
Lemma pos_le_lt_trans a b c : pos_le a b -> pos_lt b c -> pos_lt a c.
Proof. unfold pos_le, pos_lt. lia. Qed.

Section Wf.
Context {E : Type}.
Variable files : ftable.
Variable mode : cmode.

Notation ann_loop := (@ann_loop E files mode).
Notation ann_stmt := (@ann_stmt E files mode).
Notation ann_stmts := (@ann_stmts E files mode).
Notation sp := (@start_of E).

(* hypothesis on the parser's positions ("token positions are true positions", C03): a
   statement starts before its end position (BodyStart for if/for/while), and the statements
   of a list start in source order *)
Section PosOkL.
Variable g : cstmt E -> Prop.
Fixpoint pos_ok_list (l : list (cstmt E)) : Prop :=
  match l with
  | [] => True
  | s :: t => g s /\ pos_lt (sp s) (end_pos s)
              /\ match t with [] => True | s2 :: _ => pos_le (sp s) (sp s2) end
              /\ pos_ok_list t
  end.
End PosOkL.
Fixpoint pos_ok (s : cstmt E) : Prop :=
  match s with
  | SIf _ _ _ _ body els => pos_ok_list pos_ok body /\ pos_ok_list pos_ok els
  | SFor _ _ _ _ _ _ body | SForIn _ _ _ _ body | SWhile _ _ _ _ body
  | SDoWhile _ _ _ body | SBlock _ _ body => pos_ok_list pos_ok body
  | _ => True
  end.

Fixpoint pos_sorted (l : list (cstmt E)) : Prop :=
  match l with
  | [] => True
  | s :: t => pos_lt (sp s) (end_pos s)
              /\ match t with [] => True | s2 :: _ => pos_le (sp s) (sp s2) end
              /\ pos_sorted t
  end.

Lemma pos_ok_list_split g l : pos_ok_list g l -> Forall g l /\ pos_sorted l.
Proof.
  induction l as [|s t IH]; cbn; [intros _; split; [constructor|exact I]|].
  intros (H1 & H2 & H3 & H4). destruct (IH H4) as [F S]. split; [constructor; assumption|].
  split; [exact H2|]. split; assumption.
Qed.

(* a block built from the raw positions p1 (start of first statement) and p2 (end position of
   the last statement) *)
Definition raw_block (p1 p2 : pos) (b : block) : Prop :=
  b_path b = fst (file_line files (pline p1))
  /\ b_start b = mkpos (snd (file_line files (pline p1))) (pcol p1)
  /\ b_end b = mkpos (snd (file_line files (pline p2))) (pcol p2).
Definition BW (b : block) : Prop := exists p1 p2, pos_lt p1 p2 /\ 1 <= b_num b /\ raw_block p1 p2 b.

Lemma ann_stmt_pos (s : cstmt E) bl :
  sp (fst (fst (ann_stmt s bl))) = sp s /\ end_pos (fst (fst (ann_stmt s bl))) = end_pos s.
Proof.
  destruct s.
  - split; reflexivity.
  - rewrite ann_stmt_if. split; reflexivity.
  - rewrite ann_stmt_for. split; reflexivity.
  - rewrite ann_stmt_forin. split; reflexivity.
  - rewrite ann_stmt_while. split; reflexivity.
  - rewrite ann_stmt_do. split; reflexivity.
  - rewrite ann_stmt_block. split; reflexivity.
  - split; reflexivity.
Qed.

Definition wf_stmt (s : cstmt E) : Prop := forall bl, Forall BW bl -> Forall BW (snd (fst (ann_stmt s bl))).

Definition chunk_inv (pend ss : list (cstmt E)) : Prop :=
  match pend with
  | [] => True
  | p :: ps => pos_le (sp p) (sp (last_ne p ps))
               /\ pos_lt (sp (last_ne p ps)) (end_pos (last_ne p ps))
               /\ match ss with [] => True | s :: _ => pos_le (sp (last_ne p ps)) (sp s) end
  end.

Lemma last_ne_app {A} (x : A) l y : last_ne x (l ++ [y]) = y.
Proof. revert x. induction l as [|z l IH]; intros x; cbn; [reflexivity|apply IH]. Qed.

Lemma zlen_pos_cons {A} (x : A) l : 1 <= zlen (x :: l).
Proof. rewrite zlen_cons. pose proof (zlen_nonneg l). lia. Qed.

Lemma AL_wf ss bl pend out bl' : AL files mode ann_stmt ss bl pend out bl' ->
  Forall wf_stmt ss -> pos_sorted ss -> Forall BW bl -> chunk_inv pend ss -> Forall BW bl'.
Proof.
  induction 1 as [bl | bl p ps b Hb | s t bl pend s' bl1 out bl' Hf HAL IH
                 | s t bl pend s' bl1 b out bl' Hf Hb HAL IH]; intros HF HS HB HC.
  - exact HB.
  - apply Forall_app. split; [exact HB|]. constructor; [|constructor].
    destruct HC as (C1 & C2 & _). destruct Hb as (Hn & B2 & B3 & B4).
    exists (sp p), (end_pos (last_ne p ps)). split; [eapply pos_le_lt_trans; eassumption|].
    split; [rewrite Hn; apply zlen_pos_cons|]. split; [exact B2|]. split; assumption.
  - inversion HF as [|? ? Hs Ht]; subst. destruct HS as (S1 & S2 & S3).
    pose proof (Hs bl HB) as HB1. pose proof (ann_stmt_pos s bl) as [P1 P2]. rewrite Hf in HB1, P1, P2. cbn [fst snd] in HB1, P1, P2.
    apply IH; try assumption.
    unfold chunk_inv. destruct pend as [|p ps]; cbn [app].
    + cbn [last_ne]. split; [apply pos_le_refl|]. split; [rewrite P1, P2; exact S1|].
      destruct t as [|s2 t2]; [exact I|]. rewrite P1. exact S2.
    + rewrite last_ne_app. destruct HC as (C1 & C2 & C3). split; [|split].
      * rewrite P1. eapply pos_le_trans; eassumption.
      * rewrite P1, P2. exact S1.
      * destruct t as [|s2 t2]; [exact I|]. rewrite P1. exact S2.
  - inversion HF as [|? ? Hs Ht]; subst. destruct HS as (S1 & S2 & S3).
    pose proof (Hs bl HB) as HB1. pose proof (ann_stmt_pos s bl) as [P1 P2]. rewrite Hf in HB1, P1, P2. cbn [fst snd] in HB1, P1, P2.
    apply IH; try assumption; [|exact I].
    apply Forall_app. split; [exact HB1|]. constructor; [|constructor].
    destruct Hb as (Hn & B2 & B3 & B4).
    exists (sp (first_of pend s')), (end_pos s'). split; [|split; [|split; [exact B2|split; assumption]]].
    + apply pos_le_lt_trans with (b := sp s'); [|rewrite P1, P2; exact S1].
      destruct pend as [|p ps]; cbn [first_of]; [apply pos_le_refl|].
      destruct HC as (C1 & _ & C3). rewrite P1. eapply pos_le_trans; eassumption.
    + rewrite Hn. destruct pend; cbn [app]; apply zlen_pos_cons.
Qed.

Lemma ann_stmts_wf body bl : Forall wf_stmt body -> pos_sorted body -> Forall BW bl ->
  Forall BW (snd (ann_stmts body bl)).
Proof.
  intros HF HS HB. unfold Cover.ann_stmts.
  exact (AL_wf _ _ _ _ _ (ann_loop_AL files mode ann_stmt body bl []) HF HS HB I).
Qed.

Lemma pos_ok_wf_list l : Forall (fun s => pos_ok s -> wf_stmt s) l -> pos_ok_list pos_ok l ->
  Forall wf_stmt l /\ pos_sorted l.
Proof.
  intros HI Hp. destruct (pos_ok_list_split _ _ Hp) as [F S]. split; [|exact S].
  apply Forall_forall. intros s Hs. rewrite Forall_forall in HI, F. auto.
Qed.

Lemma wf_all (s : cstmt E) : pos_ok s -> wf_stmt s.
Proof.
  induction s using cstmt_ind'; intros Hp bl HB; cbn [pos_ok] in Hp.
  - exact HB.
  - destruct Hp as [Hp1 Hp2]. rewrite ann_stmt_if. cbn [fst snd].
    destruct (pos_ok_wf_list _ H Hp1) as [F1 S1]. destruct (pos_ok_wf_list _ H0 Hp2) as [F2 S2].
    apply ann_stmts_wf; [exact F2|exact S2|]. apply ann_stmts_wf; assumption.
  - rewrite ann_stmt_for. cbn [fst snd]. destruct (pos_ok_wf_list _ H Hp) as [F1 S1]. apply ann_stmts_wf; assumption.
  - rewrite ann_stmt_forin. cbn [fst snd]. destruct (pos_ok_wf_list _ H Hp) as [F1 S1]. apply ann_stmts_wf; assumption.
  - rewrite ann_stmt_while. cbn [fst snd]. destruct (pos_ok_wf_list _ H Hp) as [F1 S1]. apply ann_stmts_wf; assumption.
  - rewrite ann_stmt_do. cbn [fst snd]. destruct (pos_ok_wf_list _ H Hp) as [F1 S1]. apply ann_stmts_wf; assumption.
  - rewrite ann_stmt_block. cbn [fst snd]. destruct (pos_ok_wf_list _ H Hp) as [F1 S1]. apply ann_stmts_wf; assumption.
  - exact HB.
Qed.

Definition pos_ok_stmts (l : list (cstmt E)) : Prop := pos_ok_list pos_ok l.

Lemma ann_stmts_wf_top l bl : pos_ok_stmts l -> Forall BW bl -> Forall BW (snd (ann_stmts l bl)).
Proof.
  intros Hp HB. destruct (pos_ok_list_split _ _ Hp) as [F S].
  apply ann_stmts_wf; [|exact S|exact HB].
  apply Forall_forall. intros s Hs. apply wf_all. rewrite Forall_forall in F. auto.
Qed.

Notation ann_lists := (@ann_lists E files mode).
Notation ann_actions := (@ann_actions E files mode).
Notation ann_body := (@ann_body E files mode).

Lemma ann_lists_wf ls : Forall pos_ok_stmts ls -> forall bl, Forall BW bl -> Forall BW (snd (ann_lists ls bl)).
Proof.
  induction 1 as [|l t Hl _ IH]; intros bl HB; [exact HB|].
  rewrite ann_lists_cons. cbn [snd]. apply IH. apply ann_stmts_wf_top; assumption.
Qed.

Definition pos_ok_body (b : option (list (cstmt E))) : Prop :=
  match b with None => True | Some l => pos_ok_stmts l end.

Lemma ann_body_wf b bl : pos_ok_body b -> Forall BW bl -> Forall BW (snd (ann_body b bl)).
Proof.
  destruct b as [l|]; cbn [pos_ok_body Cover.ann_body]; intros Hp HB; [|exact HB].
  pose proof (ann_stmts_wf_top l bl Hp HB) as H. destruct (ann_stmts l bl) as [r bl1]. exact H.
Qed.

Lemma ann_actions_wf acts : Forall (fun a => pos_ok_body (a_body a)) acts ->
  forall bl, Forall BW bl -> Forall BW (snd (ann_actions acts bl)).
Proof.
  induction 1 as [|a t Ha _ IH]; intros bl HB; [exact HB|].
  rewrite ann_actions_cons. cbn [snd]. apply IH. apply ann_body_wf; assumption.
Qed.

Definition pos_ok_prog (P : program E) : Prop :=
  Forall pos_ok_stmts (p_begin P) /\ Forall (fun a => pos_ok_body (a_body a)) (p_actions P)
  /\ Forall pos_ok_stmts (p_end P) /\ Forall pos_ok_stmts (p_funcs P).

Theorem blocks_raw (P : program E) : pos_ok_prog P -> Forall BW (snd (annotate files mode P)).
Proof.
  intros (H1 & H2 & H3 & H4). rewrite annotate_eq. cbn zeta. cbn [snd].
  apply ann_lists_wf; [exact H4|]. apply ann_lists_wf; [exact H3|].
  apply ann_actions_wf; [exact H2|]. apply ann_lists_wf; [exact H1|]. constructor.
Qed.

(* ---- FileLine ---- *)
(* which file a global line belongs to: its index in the table and its first global line *)
Fixpoint slot_from (fs : ftable) (start line : Z) : option (nat * Z) :=
  match fs with
  | [] => None
  | (_, n) :: rest =>
      if (start <=? line) && (line <? start + n) then Some (O, start)
      else match slot_from rest (start + n) line with
           | Some (k, s) => Some (S k, s)
           | None => None
           end
  end.
Definition slot (fs : ftable) (line : Z) : option (nat * Z) := slot_from fs 1 line.

Lemma slot_from_spec fs : forall start line k s, slot_from fs start line = Some (k, s) ->
  exists path n, nth_error fs k = Some (path, n) /\ s <= line < s + n
                 /\ file_line_from fs start line = (path, line - s + 1).
Proof.
  induction fs as [|[path n] rest IH]; intros start line k s; cbn [slot_from file_line_from]; [discriminate|].
  destruct ((start <=? line) && (line <? start + n)) eqn:Hin.
  - intros H. inversion H; subst. exists path, n. split; [reflexivity|]. split; [lia|reflexivity].
  - destruct (slot_from rest (start + n) line) as [[k' s']|] eqn:Hs; [|discriminate].
    intros H. inversion H; subst. destruct (IH _ _ _ _ Hs) as (p' & n' & H1 & H2 & H3).
    exists p', n'. split; [exact H1|]. split; assumption.
Qed.

(* the reported block lies in file k, inside its line range, start before end *)
Theorem block_in_file (b : block) p1 p2 k s :
  raw_block p1 p2 b -> pos_lt p1 p2 ->
  slot files (pline p1) = Some (k, s) -> slot files (pline p2) = Some (k, s) ->
  exists path n, nth_error files k = Some (path, n) /\ b_path b = path
    /\ 1 <= pline (b_start b) <= n /\ 1 <= pline (b_end b) <= n
    /\ pos_lt (b_start b) (b_end b)
    /\ pcol (b_start b) = pcol p1 /\ pcol (b_end b) = pcol p2.
Proof.
  intros (R1 & R2 & R3) Hlt S1 S2. unfold slot in *.
  destruct (slot_from_spec _ _ _ _ _ S1) as (path & n & N1 & L1 & F1).
  destruct (slot_from_spec _ _ _ _ _ S2) as (path2 & n2 & N2 & L2 & F2).
  rewrite N1 in N2. inversion N2; subst path2 n2.
  unfold file_line in *. rewrite F1 in R1, R2. rewrite F2 in R3. cbn [fst snd] in *.
  exists path, n. split; [exact N1|]. split; [exact R1|].
  rewrite R2, R3. cbn [pline pcol]. unfold pos_lt in *. cbn [pline pcol].
  repeat split; lia.
Qed.

End Wf.

(* a statement list left open across two program files: the block is reported in the first
   file with an end line that is relative to the second one *)
Definition straddle_files : ftable := [([97], 1); ([98], 1)].
Definition straddle_prog : program unit :=
  mkprogram [[SSimple KPrint tt (mkpos 1 9) (mkpos 1 16); SSimple KPrint tt (mkpos 2 1) (mkpos 2 9)]] [] [] [].
Lemma straddle_refuted :
  pos_ok_prog straddle_prog /\
  exists b, snd (annotate straddle_files MSet straddle_prog) = [b] /\ ~ pos_lt (b_start b) (b_end b).
Proof.
  split.
  - unfold pos_ok_prog, straddle_prog, pos_ok_stmts. cbn [p_begin p_actions p_end p_funcs].
    split; [|split; [constructor|split; constructor]]. constructor; [|constructor].
    cbn. unfold pos_lt, pos_le. cbn [pline pcol]. repeat (split; [first [exact I | lia]|]). exact I.
  - eexists. split; [vm_compute; reflexivity|]. unfold pos_lt. cbn. lia.
Qed.
