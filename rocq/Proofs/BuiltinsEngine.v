(* C10: the executable regex engine Lib/Regex (the one the correspondence check runs)
   satisfies every hypothesis the regex-builtin theorems make about the engine, so those
   theorems hold without hypotheses for the executable model [match_re / sub_re / split_re]. *)
From Verif Require Import Lib.Base Lib.Dyadic Lib.Utf8 Lib.Regex Model.Builtins Model.BuiltinsRegex
  Proofs.BuiltinsBytes Proofs.BuiltinsUtf8 Proofs.BuiltinsRegex.

Lemma zlen_concat_cons (c : bytes) cs : zlen (concat (c :: cs)) = zlen c + zlen (concat cs).
Proof. cbn [concat]. apply zlen_app. Qed.

(* (as in Proofs/FieldsRegex.v) a new result of [longest] lies between the start offset and
   the end of the chunks *)
Lemma longest_bounds r : forall cs st off best e,
  longest r st cs off best = Some e ->
  best = Some e \/ (off <= e <= off + zlen (concat cs)).
Proof.
  intros cs; revert r; induction cs as [|c cs IH]; intros r st off best e H.
  - cbn [longest] in H. destruct (nullable st (is_nil []) r).
    + injection H as <-. right. cbn [concat]. rewrite zlen_nil. lia.
    + left. exact H.
  - cbn [longest] in H.
    set (best' := if nullable st (is_nil (c :: cs)) r then Some off else best) in *.
    pose proof (zlen_nonneg c) as Hc. pose proof (zlen_nonneg (concat cs)) as Hcs.
    assert (best' = Some e -> best = Some e \/ off <= e <= off + zlen (concat (c :: cs))) as Hb.
    { unfold best'. destruct (nullable st (is_nil (c :: cs)) r).
      - intros Hx; injection Hx as <-. right. rewrite zlen_concat_cons. lia.
      - intros Hx. left. exact Hx. }
    destruct (is_none (deriv st (rune_of c) r)).
    + apply Hb. exact H.
    + destruct (IH _ _ _ _ _ H) as [Hl|Hr].
      * apply Hb. exact Hl.
      * right. rewrite zlen_concat_cons. lia.
Qed.

Lemma search_bounds r : forall cs off a b,
  search r cs off = Some (a, b) -> off <= a /\ a <= b /\ b <= off + zlen (concat cs).
Proof.
  intros cs; induction cs as [|c cs IH]; intros off a b H.
  - cbn [search] in H. destruct (longest r (off =? 0) [] off None) as [e|] eqn:El; [|discriminate].
    injection H as <- <-. destruct (longest_bounds _ _ _ _ _ _ El) as [Hx|Hx]; [discriminate|].
    cbn [concat] in *. rewrite zlen_nil in *. lia.
  - cbn [search] in H. destruct (longest r (off =? 0) (c :: cs) off None) as [e|] eqn:El.
    + injection H as <- <-. destruct (longest_bounds _ _ _ _ _ _ El) as [Hx|Hx]; [discriminate|]. lia.
    + apply IH in H. rewrite zlen_concat_cons. pose proof (zlen_nonneg c). lia.
Qed.

(* hypothesis ff_bounds *)
Theorem find_from_bounds r s pos a b :
  0 <= pos <= zlen s -> find_from r s pos = Some (a, b) -> pos <= a /\ a <= b /\ b <= zlen s.
Proof.
  intros Hp H. unfold find_from in H. apply search_bounds in H.
  rewrite runes_concat, zlen_zdrop in H by lia. lia.
Qed.

(* ---- a match that is not the empty match at pos covers the first character ------ *)
Lemma longest_step r c cs st off best e :
  longest r st (c :: cs) off best = Some e -> best = Some e \/ e = off \/ off + zlen c <= e.
Proof.
  cbn [longest]. set (best' := if nullable st (is_nil (c :: cs)) r then Some off else best).
  assert (best' = Some e -> best = Some e \/ e = off) as Hb.
  { unfold best'. destruct (nullable st (is_nil (c :: cs)) r); intros Hx; [injection Hx as <-; auto|auto]. }
  destruct (is_none (deriv st (rune_of c) r)); intros H.
  - destruct (Hb H); auto.
  - destruct (longest_bounds _ _ _ _ _ _ H) as [Hl|Hr]; [destruct (Hb Hl); auto|right; right; lia].
Qed.

Lemma search_step r c cs off a b :
  search r (c :: cs) off = Some (a, b) -> b = off \/ off + zlen c <= b.
Proof.
  cbn [search]. destruct (longest r (off =? 0) (c :: cs) off None) as [e|] eqn:El.
  - intros H. injection H as <- <-. destruct (longest_step _ _ _ _ _ _ _ El) as [Hx|[Hx|Hx]]; [discriminate|auto|auto].
  - intros H. apply search_bounds in H. right. lia.
Qed.

(* hypothesis ff_step *)
Theorem find_from_step r s pos a b :
  0 <= pos <= zlen s -> find_from r s pos = Some (a, b) -> b <> pos ->
  pos + snd (decode_rune (zdrop pos s)) <= b.
Proof.
  intros Hp H Hne. unfold find_from in H.
  assert (zdrop pos s = [] \/ zdrop pos s <> []) as [He|Hx]
    by (destruct (zdrop pos s); [left; reflexivity|right; discriminate]).
  - rewrite He, runes_nil in H. cbn [search longest] in H.
    destruct (nullable (pos =? 0) (is_nil []) r); [injection H as <- <-; congruence|discriminate].
  - rewrite (runes_cons _ Hx) in H. apply search_step in H. destruct H as [H|H]; [congruence|].
    pose proof (decode_rune_width _ Hx) as Hw. rewrite zlen_ztake in H by lia. exact H.
Qed.

(* ---- matches start and end where `for range s` stops ------------------------------ *)
Lemma longest_boundary r : forall cs st off best e,
  longest r st cs off best = Some e ->
  best = Some e \/ exists k, 0 <= k /\ k <= zlen cs /\ e = off + zlen (concat (ztake k cs)).
Proof.
  intros cs; revert r; induction cs as [|c cs IH]; intros r st off best e H.
  - cbn [longest] in H. destruct (nullable st (is_nil []) r); [|left; exact H].
    injection H as <-. right. exists 0. repeat split; cbn; lia.
  - cbn [longest] in H.
    set (best' := if nullable st (is_nil (c :: cs)) r then Some off else best) in *.
    pose proof (zlen_nonneg cs) as Hcs.
    assert (best' = Some e -> best = Some e \/
            exists k, 0 <= k /\ k <= zlen (c :: cs) /\ e = off + zlen (concat (ztake k (c :: cs)))) as Hb.
    { unfold best'. destruct (nullable st (is_nil (c :: cs)) r); [|auto].
      intros Hx; injection Hx as <-. right. exists 0. rewrite zlen_cons. split; [lia|]. split; [lia|].
      rewrite ztake_0. cbn [concat]. change (zlen (@nil Z)) with 0. lia. }
    destruct (is_none (deriv st (rune_of c) r)); [apply Hb; exact H|].
    destruct (IH _ _ _ _ _ H) as [Hl|(k & Hk0 & Hk1 & He)]; [apply Hb; exact Hl|].
    right. exists (k + 1). rewrite zlen_cons. repeat split; try lia.
    rewrite ztake_cons by lia. replace (k + 1 - 1) with k by lia. rewrite zlen_concat_cons. lia.
Qed.

Lemma search_boundary r : forall cs off a b,
  search r cs off = Some (a, b) ->
  exists ka kb, 0 <= ka /\ ka <= kb /\ kb <= zlen cs /\
    a = off + zlen (concat (ztake ka cs)) /\ b = off + zlen (concat (ztake kb cs)).
Proof.
  intros cs; induction cs as [|c cs IH]; intros off a b H.
  - cbn [search] in H. destruct (longest r (off =? 0) [] off None) as [e|] eqn:El; [|discriminate].
    injection H as <- <-. destruct (longest_boundary _ _ _ _ _ _ El) as [Hx|(k & H0 & H1 & He)]; [discriminate|].
    exists 0, k. split; [lia|]. split; [lia|]. split; [lia|]. split; [cbn; lia|exact He].
  - cbn [search] in H. destruct (longest r (off =? 0) (c :: cs) off None) as [e|] eqn:El.
    + injection H as <- <-. destruct (longest_boundary _ _ _ _ _ _ El) as [Hx|(k & H0 & H1 & He)]; [discriminate|].
      exists 0, k. split; [lia|]. split; [lia|]. split; [lia|]. split; [cbn; lia|exact He].
    + destruct (IH _ _ _ H) as (ka & kb & H0 & H1 & H2 & Ha & Hb).
      exists (ka + 1), (kb + 1). rewrite zlen_cons. repeat split; try lia.
      * rewrite ztake_cons by lia. replace (ka + 1 - 1) with ka by lia. rewrite zlen_concat_cons. lia.
      * rewrite ztake_cons by lia. replace (kb + 1 - 1) with kb by lia. rewrite zlen_concat_cons. lia.
Qed.

Theorem find_on_rune_boundaries r s a b :
  find_from r s 0 = Some (a, b) -> on_rune_boundaries s a b.
Proof.
  unfold find_from. rewrite zdrop_0. intros H.
  destruct (search_boundary _ _ _ _ _ H) as (ka & kb & H0 & H1 & H2 & Ha & Hb).
  exists ka, kb. repeat split; try lia.
Qed.

(* the generic loop instantiated with the engine is Lib/Regex's FindAllStringIndex *)
Lemma all_matches_gen_is_all_matches r s : all_matches_gen (find_from r) s = Regex.all_matches r s.
Proof.
  unfold all_matches_gen, Regex.all_matches.
  generalize (S (S (length s))) as fuel, 0 as pos, (-1) as pe.
  induction fuel as [|f IH]; intros pos pe; cbn [all_matches_loop all_matches_fuel]; [reflexivity|].
  destruct (pos >? zlen s); [reflexivity|]. destruct (find_from r s pos) as [[a b]|]; [|reflexivity].
  rewrite IH. reflexivity.
Qed.

(* ---- the theorems for the executable model, no hypotheses left -------------------- *)
Theorem match_substr_re r chars s a b :
  go_len s -> find r s = Some (a, b) ->
  exists rstart rlength,
    match_re r chars s = Ok (rstart, rlength) /\
    (if chars then substr_len_chars else substr_len_bytes) s (FFin rstart 0) (FFin rlength 0)
      = Ok (sub_str s a b) /\
    slice s a b = Ok (sub_str s a b).
Proof.
  intros Hl Hf. apply (match_substr (find_from r) (find_from_bounds r) chars s a b Hl Hf).
  intros _. apply (find_on_rune_boundaries r s a b Hf).
Qed.

Theorem match_none_re r chars s : find r s = None -> match_re r chars s = Ok (0, -1).
Proof. apply match_none. Qed.

Theorem ascii_match_re r s : is_ascii s = true -> match_re r true s = match_re r false s.
Proof. apply ascii_match, find_from_bounds. Qed.

Theorem gsub_spec_re r repl s :
  sub_re r true repl s = Ok (weave s (expand_repl repl) (Regex.all_matches r s) 0, zlen (Regex.all_matches r s)).
Proof.
  unfold sub_re. rewrite (gsub_spec _ (find_from_bounds r) (find_from_step r)), all_matches_gen_is_all_matches.
  reflexivity.
Qed.

Theorem gsub_amp_identity_re r s : sub_re r true [38] s = Ok (s, zlen (Regex.all_matches r s)).
Proof.
  unfold sub_re. rewrite (gsub_amp_identity _ (find_from_bounds r) (find_from_step r)), all_matches_gen_is_all_matches.
  reflexivity.
Qed.

Theorem sub_is_first_of_gsub_re r repl s :
  sub_re r false repl s =
  Ok (weave s (expand_repl repl) (firstn 1 (Regex.all_matches r s)) 0, Z.min 1 (zlen (Regex.all_matches r s))).
Proof.
  unfold sub_re. rewrite (sub_is_first_of_gsub _ (find_from_bounds r) (find_from_step r)), all_matches_gen_is_all_matches.
  reflexivity.
Qed.

Theorem split_re_no_panic r sep isre s : exists n arr, split_re r sep isre s = Ok (n, arr).
Proof.
  unfold split_re, builtin_split, split_parts.
  destruct (negb isre && bytes_eqb sep [32]); [cbn [rbind]; eauto|].
  destruct (is_nil s); [cbn [rbind]; eauto|].
  destruct (negb isre && (rune_count sep <=? 1)); [cbn [rbind]; eauto|].
  destruct (re_split_no_panic (find_from r) (find_from_bounds r) true s) as [l Hl].
  rewrite Hl. cbn [rbind]. eauto.
Qed.

(* ---- packaged statements used by Properties/C10.v ---------------------------------- *)
Theorem chars_mode_safe s x y : valid_utf8 s = true ->
  (exists r, substr_chars s x = Ok r /\ valid_utf8 r = true) /\
  (exists r, substr_len_chars s x y = Ok r /\ valid_utf8 r = true).
Proof. intros H. split; [exact (substr_chars_safe s x H)|exact (substr_len_chars_safe s x y H)]. Qed.

Theorem ascii_modes_agree s : is_ascii s = true ->
  (forall x, substr_chars s x = substr_bytes s x) /\
  (forall x y, substr_len_chars s x y = substr_len_bytes s x y) /\
  (forall t, builtin_index true s t = builtin_index false s t) /\
  builtin_length true s = builtin_length false s /\
  (forall ff, engine_bounds ff -> builtin_match ff true s = builtin_match ff false s).
Proof.
  intros H. split; [|split; [|split; [|split]]].
  - intros x. exact (ascii_substr s x H).
  - intros x y. exact (ascii_substr_len s x y H).
  - intros t. exact (ascii_index s t H).
  - exact (ascii_length s H).
  - intros ff Hb. exact (ascii_match ff Hb s H).
Qed.

Theorem engine_hypotheses_hold r :
  engine_bounds (find_from r) /\ engine_step (find_from r) /\
  (forall s a b, find r s = Some (a, b) -> on_rune_boundaries s a b) /\
  (forall s, all_matches_gen (find_from r) s = all_matches r s).
Proof.
  split; [exact (find_from_bounds r)|]. split; [exact (find_from_step r)|].
  split; [exact (find_on_rune_boundaries r)|exact (all_matches_gen_is_all_matches r)].
Qed.

Theorem sub_gsub_re r repl s :
  sub_re r false repl s =
  Ok (weave s (expand_repl repl) (firstn 1 (all_matches r s)) 0, Z.min 1 (zlen (all_matches r s))) /\
  sub_re r true repl s =
  Ok (weave s (expand_repl repl) (all_matches r s) 0, zlen (all_matches r s)).
Proof. split; [exact (sub_is_first_of_gsub_re r repl s)|exact (gsub_spec_re r repl s)]. Qed.
