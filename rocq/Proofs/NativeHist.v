(* C17: the reusable interpreter (interp.New once, Execute several times).  The native table
   p.nativeFuncs is the only native-function state that survives between calls; set-up builds it
   only when it is nil.  Invariant: a failed set-up leaves it nil, so the next set-up validates
   again; with the same map every time, every Execute behaves exactly like a fresh one-shot run. *)
From Coq Require Import Permutation.
From Verif Require Import Lib.Base Lib.Dyadic Model.Native
  Proofs.NativeIndex Proofs.NativeCheck Proofs.NativeConv Proofs.NativeCall Proofs.NativeRun.

Lemma build_table_ext f1 f2 names :
  (forall n, In n names -> lookup n f1 = lookup n f2) -> build_table f1 names = build_table f2 names.
Proof.
  induction names as [|y names IH]; intros H; [reflexivity|].
  cbn [build_table]. rewrite (H y (or_introl eq_refl)). rewrite IH; [reflexivity|].
  intros n Hn. apply H. right. exact Hn.
Qed.

Definition is_setup_error (o : outcome) : Prop := exists n e, o = OSetupError n e.

Section Prims.
  Variable parse_float : bytes -> option fnum.
  Variable parse_prefix : bytes -> fnum.
  Variable fmt_float : fnum -> bytes.

  Notation run := (run parse_float parse_prefix fmt_float).
  Notation call_outcome := (call_outcome parse_float parse_prefix fmt_float).
  Notation exec_one := (exec_one parse_float parse_prefix fmt_float).
  Notation exec_history := (exec_history parse_float parse_prefix fmt_float).
  Notation run_history := (run_history parse_float parse_prefix fmt_float).

  Lemma call_outcome_not_setup_error fr awk name args tbl n e :
    call_outcome fr awk name args tbl <> OSetupError n e.
  Proof.
    unfold Native.call_outcome. destruct (mem_bytes name awk); [discriminate|].
    destruct (call_native _ _ _ _ _ _) as [[v recv|id recv]|k]; discriminate.
  Qed.

  (* the invariant the set-up code must keep: an Execute that ends in a set-up error started
     with no table and leaves no table behind ... *)
  Theorem failed_setup_leaves_table_nil fr awk name args st m st' n e :
    exec_one fr awk name args st m = (st', OSetupError n e) -> st = None /\ st' = None.
  Proof.
    unfold Native.exec_one. destruct st as [tbl|].
    - intros [= _ H]. exfalso. exact (call_outcome_not_setup_error _ _ _ _ _ _ _ H).
    - destruct (init_native_funcs m) as [[[n' e']|tbl]|k]; intros [= <- H]; try discriminate.
      + split; reflexivity.
      + exfalso. exact (call_outcome_not_setup_error _ _ _ _ _ _ _ H).
  Qed.

  (* ... so the next Execute validates its Funcs map again, exactly like a first one *)
  Theorem failed_setup_revalidates fr awk name args st m st' n e m2 :
    exec_one fr awk name args st m = (st', OSetupError n e) ->
    exec_one fr awk name args st' m2 = exec_one fr awk name args None m2.
  Proof. intros H. apply failed_setup_leaves_table_nil in H as [_ ->]. reflexivity. Qed.

  (* a first Execute is the one-shot run *)
  Theorem first_execute_is_run fr awk name args m :
    resolve_call fr awk name (zlen args) = NOk None ->
    snd (exec_one fr awk name args None m) = run fr m awk name args.
  Proof.
    intros ER. unfold Native.exec_one, Native.run, Native.call_outcome. rewrite ER.
    destruct (init_native_funcs m) as [[[n e]|tbl]|k]; reflexivity.
  Qed.

  (* once a set-up has succeeded the table is kept: config.Funcs of later calls is not looked at
     (Execute's documentation: Funcs "must not change between calls to Execute") *)
  Theorem established_table_is_kept fr awk name args tbl m :
    exec_one fr awk name args (Some tbl) m = (Some tbl, call_outcome fr awk name args tbl).
  Proof. reflexivity. Qed.

  (* any number of rejected set-ups, with whatever maps, leave no trace: what follows behaves as
     on a fresh interpreter *)
  Theorem rejected_setups_leave_no_trace fr awk name args maps1 maps2 :
    Forall is_setup_error (exec_history fr awk name args None maps1) ->
    exec_history fr awk name args None (maps1 ++ maps2) =
    exec_history fr awk name args None maps1 ++ exec_history fr awk name args None maps2.
  Proof.
    induction maps1 as [|m maps1 IH]; intros H; [reflexivity|].
    cbn [app Native.exec_history] in *.
    destruct (exec_one fr awk name args None m) as [st' o] eqn:E.
    inversion H as [|? ? [n [e ->]] Hrest]; subst.
    destruct (failed_setup_leaves_table_nil _ _ _ _ _ _ _ _ _ E) as [_ ->].
    cbn [app]. f_equal. apply IH. exact Hrest.
  Qed.

  (* ---- the documented use: the same map (any iteration order) on every Execute ---- *)
  Lemma init_all_acceptable m :
    (forall n f, In (n, f) m -> go_typed f) -> (forall n f, In (n, f) m -> acceptable n f = true) ->
    exists tbl, init_native_funcs m = NOk (inr tbl) /\ build_table m (sort_names (map fst m)) = NOk tbl.
  Proof.
    intros Hok Hacc. destruct (init_ok parse_float parse_prefix fmt_float m Hok) as [(n & e & f & _ & Hin & A)|(tbl & E & Et & _)].
    - rewrite (Hacc n f Hin) in A. discriminate.
    - exists tbl. split; assumption.
  Qed.

  Lemma table_perm_invariant m1 m2 :
    NoDup (map fst m1) -> Permutation m1 m2 ->
    build_table m2 (sort_names (map fst m2)) = build_table m1 (sort_names (map fst m1)).
  Proof.
    intros ND P.
    rewrite (sort_names_perm_invariant (map fst m2) (map fst m1)) by (apply Permutation_map, Permutation_sym; exact P).
    apply build_table_ext. intros n _. symmetry. apply lookup_perm_invariant; assumption.
  Qed.

  Definition table_of (fr : list (bytes * fval)) (st : istate) : Prop :=
    match st with
    | None => True
    | Some tbl => (forall n f, In (n, f) fr -> acceptable n f = true) /\
                  build_table fr (sort_names (map fst fr)) = NOk tbl
    end.

  Lemma exec_history_same_map_gen fr awk name args :
    resolve_call fr awk name (zlen args) = NOk None ->
    NoDup (map fst fr) -> (forall n f, In (n, f) fr -> go_typed f) ->
    forall maps st, Forall (Permutation fr) maps -> table_of fr st ->
    exec_history fr awk name args st maps = map (fun m => run fr m awk name args) maps.
  Proof.
    intros ER ND Hok. induction maps as [|m maps IH]; intros st HP Hst; [reflexivity|].
    inversion HP as [|? ? P HP']; subst.
    assert (Hok_m : forall n f, In (n, f) m -> go_typed f).
    { intros n f Hin. apply (Hok n f). eapply Permutation_in; [apply Permutation_sym; exact P|exact Hin]. }
    cbn [Native.exec_history map].
    destruct st as [tbl|].
    - (* a table exists: it is the table of this very map, so the outcome is the fresh run's *)
      cbn [Native.exec_one]. destruct Hst as [Hacc Et].
      assert (Hacc_m : forall n f, In (n, f) m -> acceptable n f = true).
      { intros n f Hin. apply (Hacc n f). eapply Permutation_in; [apply Permutation_sym; exact P|exact Hin]. }
      destruct (init_all_acceptable m Hok_m Hacc_m) as (tbl' & Ei & Et').
      rewrite (table_perm_invariant fr m ND P) in Et'. rewrite Et in Et'. injection Et' as <-.
      f_equal.
      + unfold Native.run, Native.call_outcome. rewrite ER, Ei. reflexivity.
      + apply IH; [exact HP'|split; assumption].
    - pose proof (first_execute_is_run fr awk name args m ER) as F.
      destruct (exec_one fr awk name args None m) as [st' o] eqn:E. cbn [snd] in F. subst o.
      f_equal. apply IH; [exact HP'|].
      unfold Native.exec_one in E.
      destruct (init_ok parse_float parse_prefix fmt_float m Hok_m) as [(n & e & f & Ei & _)|(tbl & Ei & Et & Hacc_m)]; rewrite Ei in E.
      + injection E as <- _. exact I.
      + injection E as <- _. split.
        * intros n f Hin. apply (Hacc_m n f). eapply Permutation_in; [exact P|exact Hin].
        * rewrite <- (table_perm_invariant fr m ND P). exact Et.
  Qed.

  (* history does not matter: every Execute with the same map is exactly a fresh one-shot run
     (so every theorem about [run] holds for every Execute of the history) *)
  Theorem every_execute_is_a_fresh_run fr awk name args maps :
    resolve_call fr awk name (zlen args) = NOk None ->
    NoDup (map fst fr) -> (forall n f, In (n, f) fr -> go_typed f) ->
    Forall (Permutation fr) maps ->
    run_history fr awk name args maps = inr (map (fun m => run fr m awk name args) maps).
  Proof.
    intros ER ND Hok HP. unfold Native.run_history. rewrite ER. f_equal.
    apply exec_history_same_map_gen; try assumption. exact I.
  Qed.

  (* never a panic, at any Execute of the history *)
  Theorem history_never_panics fr awk name args maps os :
    NoDup (map fst fr) -> (forall n f, In (n, f) fr -> go_typed f) ->
    Forall (Permutation fr) maps ->
    run_history fr awk name args maps = inr os -> forall o k, In o os -> o <> OPanic k.
  Proof.
    intros ND Hok HP H o k Hin.
    destruct (resolve_call fr awk name (zlen args)) as [[pe|]|kk] eqn:ER;
      try (unfold Native.run_history in H; rewrite ER in H; discriminate).
    rewrite (every_execute_is_a_fresh_run fr awk name args maps ER ND Hok HP) in H. injection H as <-.
    apply in_map_iff in Hin as (m & <- & Hm). rewrite Forall_forall in HP. specialize (HP m Hm).
    apply run_no_panic; [|exact HP|].
    - eapply Permutation_NoDup; [apply Permutation_map; exact HP|exact ND].
    - intros n f Hf. apply (Hok n f). eapply Permutation_in; [apply Permutation_sym; exact HP|exact Hf].
  Qed.

  (* an entry of another shape is rejected at EVERY Execute, each time with an error naming an
     entry of another shape *)
  Theorem history_rejects_every_time fr awk name args maps os n0 f0 :
    NoDup (map fst fr) -> (forall n f, In (n, f) fr -> go_typed f) ->
    Forall (Permutation fr) maps ->
    In (n0, f0) fr -> acceptable n0 f0 = false ->
    run_history fr awk name args maps = inr os ->
    forall o, In o os -> exists n e f, o = OSetupError n e /\ In (n, f) fr /\ acceptable n f = false.
  Proof.
    intros ND Hok HP Hin0 A H o Hin.
    destruct (resolve_call fr awk name (zlen args)) as [[pe|]|kk] eqn:ER;
      try (unfold Native.run_history in H; rewrite ER in H; discriminate).
    rewrite (every_execute_is_a_fresh_run fr awk name args maps ER ND Hok HP) in H. injection H as <-.
    apply in_map_iff in Hin as (m & <- & Hm). rewrite Forall_forall in HP. specialize (HP m Hm).
    destruct (run_rejects_other_shapes parse_float parse_prefix fmt_float fr m awk name args n0 f0)
      as [[pe E]|(n & e & f & E & Hf & Af)].
    - intros n f Hf. apply (Hok n f). eapply Permutation_in; [apply Permutation_sym; exact HP|exact Hf].
    - eapply Permutation_in; [exact HP|exact Hin0].
    - exact A.
    - exfalso. unfold Native.run in E. rewrite ER in E.
      destruct (init_native_funcs m) as [[[n e]|tbl]|k]; try discriminate.
      destruct (mem_bytes name awk); [discriminate|].
      destruct (call_native _ _ _ _ _ _) as [[v recv|id recv]|k]; discriminate.
    - exists n, e, f. repeat split; try assumption.
      eapply Permutation_in; [apply Permutation_sym; exact HP|exact Hf].
  Qed.
End Prims.
