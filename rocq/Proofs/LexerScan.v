(* C03 proofs, part 2: unread, the loops of scan(), scan() and scanRegex() themselves:
   they never panic, never run out of fuel, and every token they return carries the true
   position unless an earlier unread crossed a line end (ghost xl) or next() overran the end
   (ghost over). *)
From Verif Require Import Lib.Base Lib.Utf8 Model.Lexer Proofs.LexerPos.
From Coq Require Import ZifyBool.
Open Scope Z_scope.

Section Scan.
Variable src : bytes.
Notation P := (pos_of_offset src).
Notation len := (zlen src).
Notation W := (W src).
Notation Norm := (Norm src).
Notation Inv := (Inv src).
Notation NormInv := (NormInv src).

Definition Rel (l0 l : lexer) : Prop := xl l = xl l0 /\ offset l0 <= offset l.

Lemma Rel_refl l : Rel l l.
Proof. split; [reflexivity|lia]. Qed.

Lemma col_add_add p a c : col_add (col_add p a) c = col_add p (a + c).
Proof. unfold col_add; cbn [fst snd]. f_equal. lia. Qed.

Lemma col_add_0 p : col_add p 0 = p.
Proof. destruct p; unfold col_add; cbn [fst snd]. f_equal. lia. Qed.

Definition plain (c : Z) : Prop := c <> 10 /\ c <> 13.

Lemma adv_plain p c : plain c -> adv p c = col_add p 1.
Proof. intros (H1 & H2). unfold adv. replace (c =? 10) with false by lia. replace (c =? 13) with false by lia. reflexivity. Qed.

(* ---- set_had_space / set_last_tok do not touch what the invariants read -------------- *)
Lemma NormInv_set_had v l : NormInv l -> NormInv (set_had_space v l).
Proof. intro H; exact H. Qed.
Lemma Inv_set_last t l : Inv l -> Inv (set_last_tok t l).
Proof. intro H; exact H. Qed.
Lemma NormInv_set_last t l : NormInv l -> NormInv (set_last_tok t l).
Proof. intro H; exact H. Qed.

(* ---- next, in the two forms used below ------------------------------------------------ *)
Lemma nextN l0 l :
  NormInv l -> Rel l0 l -> ch l <> 0 ->
  okr (fun l' => NormInv l' /\ Rel l0 l' /\ offset l' = offset l + 1 /\ lpos l' = npos l /\
                 lastTok l' = lastTok l) (next src l).
Proof.
  intros Hn (Hx & Ho) Hnz.
  eapply okr_weaken; [apply next_norm; eassumption|].
  intros l' (Hn' & Hx' & Ho' & _ & Ht & Hl). unfold Rel. splits; try assumption; try congruence; lia.
Qed.

Lemma nextI l0 l :
  Inv l -> Rel l0 l -> ch l <> 0 \/ getch src (offset l - 2) = 92 ->
  okr (fun l' => Inv l' /\ Rel l0 l' /\ offset l <= offset l' /\ (ch l <> 0 -> offset l' = offset l + 1))
      (next src l).
Proof.
  intros Hi (Hx & Ho) Hpre.
  eapply okr_weaken; [apply next_inv; eassumption|].
  intros l' (Hi' & Hx' & Ho' & Ho1 & _). unfold Rel. splits; try assumption; try congruence; lia.
Qed.

Lemma next_then {A} (Q : A -> Prop) l0 l m (K : lexer -> lres A) :
  Inv l -> Rel l0 l -> m <= offset l -> ch l <> 0 \/ getch src (offset l - 2) = 92 ->
  (forall l2, Inv l2 -> Rel l0 l2 -> m <= offset l2 -> okr Q (K l2)) ->
  okr Q (lbind (next src l) K).
Proof.
  intros Hi Hr Hm Hpre HK. eapply okr_bind; [apply (nextI l0 l Hi Hr Hpre)|].
  intros l2 (Hi2 & Hr2 & Ho2 & _). apply HK; try assumption. lia.
Qed.

Lemma next_then1 {A} (Q : A -> Prop) l0 l (K : lexer -> lres A) :
  Inv l -> Rel l0 l -> ch l <> 0 ->
  (forall l2, Inv l2 -> Rel l0 l2 -> offset l2 = offset l + 1 -> okr Q (K l2)) ->
  okr Q (lbind (next src l) K).
Proof.
  intros Hi Hr Hnz HK. eapply okr_bind; [apply (nextI l0 l Hi Hr (or_introl Hnz))|].
  intros l2 (Hi2 & Hr2 & _ & Ho2). apply HK; try assumption. exact (Ho2 Hnz).
Qed.

(* ---- unread ------------------------------------------------------------------------------ *)
Lemma unread_spec l :
  W l -> 2 <= offset l -> (xl l = false -> Norm l) -> plain (getch src (offset l - 2)) ->
  okr (fun l' => W l' /\ offset l' = offset l - 1 /\ (xl l' = false -> Norm l') /\
                 xl l' = (xl l || (ch l =? 10) || (ch l =? 13)) /\ ch l' = getch src (offset l - 2) /\
                 over l' = over l)
      (unread src l).
Proof.
  intros (Hb & Hc) H2 Hn Hpl. unfold unread.
  replace (offset l - 1 - 1) with (offset l - 2) by lia.
  destruct (index_ok src (offset l - 2)) as (c & Hi); [lia|]. rewrite Hi. cbn [of_res lbind].
  pose proof (getch_index _ _ _ Hi) as Hg. rewrite Hg in Hpl.
  apply okr_ret. cbn [offset ch lpos npos xl over]. splits; try lia; try reflexivity; try congruence.
  - split; cbn [offset ch]; [lia|]. replace (offset l - 1 - 1) with (offset l - 2) by lia. congruence.
  - intros Hx. assert (Hx0 : xl l = false) by lia.
    assert (Hpc : plain (ch l)) by (unfold plain; lia).
    destruct (Hn Hx0) as (H1 & Hl & Hnp). unfold LexerPos.Norm; cbn [offset ch lpos npos].
    pose proof (pos_of_offset_step _ _ _ Hi) as Hs.
    replace (offset l - 2 + 1) with (offset l - 1) in Hs by lia.
    rewrite (adv_plain _ _ Hpl) in Hs.
    replace (offset l - 1 - 1) with (offset l - 2) by lia.
    splits; [lia| |].
    + rewrite Hl, Hs, col_add_add. replace (1 + -1) with 0 by lia. apply col_add_0.
    + rewrite Hnp, (adv_plain _ _ Hpc), col_add_add. replace (1 + -1) with 0 by lia.
      rewrite col_add_0, (adv_plain _ _ Hpl). congruence.
Qed.

(* ---- loops that only step over non-zero characters --------------------------------------- *)
Lemma skip_while_spec cond :
  (forall c, cond c = true -> c <> 0) ->
  forall fuel l0 l, NormInv l -> Rel l0 l -> len + 2 - offset l <= Z.of_nat fuel ->
  okr (fun l' => NormInv l' /\ Rel l0 l' /\ offset l <= offset l' /\ cond (ch l') = false /\
                 lastTok l' = lastTok l)
      (skip_while src fuel cond l).
Proof.
  intros Hcond. induction fuel as [|f IH]; intros l0 l Hn Hr Hf.
  - exfalso. pose proof (NormInv_bounds _ _ Hn). lia.
  - cbn [skip_while]. destruct (cond (ch l)) eqn:Ec.
    + eapply okr_bind; [apply (nextN l0 l Hn Hr (Hcond _ Ec))|].
      intros l1 (Hn1 & Hr1 & Ho1 & _ & Ht1).
      eapply okr_weaken; [apply (IH l0 l1 Hn1 Hr1); lia|].
      intros l' (Hn' & Hr' & Ho' & Hc' & Ht'). splits; try assumption; try lia; try congruence.
    + apply okr_ret. splits; try assumption; try lia; try reflexivity.
Qed.

Lemma is_digit_nz c : is_digit c = true -> c <> 0.
Proof. unfold is_digit. lia. Qed.

Lemma skip_digits_spec :
  forall fuel got l0 l, NormInv l -> Rel l0 l -> len + 2 - offset l <= Z.of_nat fuel ->
  okr (fun r => NormInv (snd r) /\ Rel l0 (snd r) /\ offset l <= offset (snd r) /\
                is_digit (ch (snd r)) = false /\
                (fst r = true \/ (fst r = got /\ snd r = l)))
      (skip_digits src fuel got l).
Proof.
  induction fuel as [|f IH]; intros got l0 l Hn Hr Hf.
  - exfalso. pose proof (NormInv_bounds _ _ Hn). lia.
  - cbn [skip_digits]. destruct (is_digit (ch l)) eqn:Ec.
    + eapply okr_bind; [apply (nextN l0 l Hn Hr (is_digit_nz _ Ec))|].
      intros l1 (Hn1 & Hr1 & Ho1 & _).
      eapply okr_weaken; [apply (IH true l0 l1 Hn1 Hr1); lia|].
      intros (g, l') (Hn' & Hr' & Ho' & Hd' & Hg'). cbn [fst snd] in *.
      splits; try assumption; try lia.
    + apply okr_ret. cbn [fst snd]. splits; try assumption; try lia. right; split; reflexivity.
Qed.

(* ---- the whitespace loop -------------------------------------------------------------- *)
Definition ws_state (w : ws_out) : lexer := match w with WsIllegal l => l | WsDone l => l end.

Lemma skip_ws_spec :
  forall fuel l0 l, NormInv l -> Rel l0 l -> len + 2 - offset l <= Z.of_nat fuel ->
  okr (fun w => NormInv (ws_state w) /\ Rel l0 (ws_state w)) (skip_ws src fuel l).
Proof.
  induction fuel as [|f IH]; intros l0 l Hn Hr Hf.
  - exfalso. pose proof (NormInv_bounds _ _ Hn). lia.
  - cbn [skip_ws].
    destruct ((ch l =? 32) || (ch l =? 9) || (ch l =? 13) || (ch l =? 92)) eqn:Ews.
    + assert (Hnz : ch l <> 0) by lia.
      pose proof (NormInv_set_had true l Hn) as Hn0.
      assert (Hr0 : Rel l0 (set_had_space true l)) by exact Hr.
      destruct (ch l =? 92) eqn:Ebs.
      * eapply okr_bind; [apply (nextN l0 _ Hn0 Hr0); exact Hnz|].
        intros l1 (Hn1 & Hr1 & Ho1 & _). cbn [set_had_space offset] in Ho1.
        eapply okr_bind with (Q1 := fun l2 => NormInv l2 /\ Rel l0 l2 /\ offset l1 <= offset l2).
        { destruct (ch l1 =? 13) eqn:Ecr.
          - eapply okr_weaken; [apply (nextN l0 l1 Hn1 Hr1); lia|].
            intros l2 (? & ? & ? & _). splits; try assumption; lia.
          - apply okr_ret. splits; try assumption; lia. }
        intros l2 (Hn2 & Hr2 & Ho2).
        destruct (ch l2 =? 10) eqn:Elf; cbn [negb].
        -- eapply okr_bind; [apply (nextN l0 l2 Hn2 Hr2); lia|].
           intros l3 (Hn3 & Hr3 & Ho3 & _). apply (IH l0 l3 Hn3 Hr3). lia.
        -- apply okr_ret. cbn [ws_state]. split; assumption.
      * eapply okr_bind; [apply (nextN l0 _ Hn0 Hr0); exact Hnz|].
        intros l1 (Hn1 & Hr1 & Ho1 & _). cbn [set_had_space offset] in Ho1.
        apply (IH l0 l1 Hn1 Hr1). lia.
    + apply okr_ret. cbn [ws_state]. split; assumption.
Qed.

(* ---- parseString: Inv-level (next may be called at the end of input) -------------------- *)
Definition str_state (o : str_out) : lexer := match o with StrErr _ l => l | StrOk _ l => l end.

Lemma hex_digit_nz c : 0 <= hex_digit c -> c <> 0.
Proof. unfold hex_digit, is_digit. intros H ->. cbn in H. lia. Qed.

Lemma hex_loop_spec : forall n r l0 l, Inv l -> Rel l0 l ->
  okr (fun rl => Inv (snd rl) /\ Rel l0 (snd rl) /\ offset l <= offset (snd rl)) (hex_loop src n r l).
Proof.
  induction n as [|n IH]; intros r l0 l Hi Hr; cbn [hex_loop].
  - apply okr_ret. cbn [snd]. splits; try assumption; lia.
  - destruct (hex_digit (ch l) <? 0) eqn:Eh.
    + apply okr_ret. cbn [snd]. splits; try assumption; lia.
    + eapply okr_bind; [apply (nextI l0 l Hi Hr); left; apply hex_digit_nz; lia|]. intros l1 (Hi1 & Hr1 & Ho1 & _).
      eapply okr_weaken; [apply (IH _ l0 l1 Hi1 Hr1)|]. intros rl (? & ? & ?). splits; try assumption; lia.
Qed.

Lemma oct_loop_spec : forall n c l0 l, Inv l -> Rel l0 l ->
  okr (fun rl => Inv (snd rl) /\ Rel l0 (snd rl) /\ offset l <= offset (snd rl)) (oct_loop src n c l).
Proof.
  induction n as [|n IH]; intros c l0 l Hi Hr; cbn [oct_loop].
  - apply okr_ret. cbn [snd]. splits; try assumption; lia.
  - destruct ((48 <=? ch l) && (ch l <=? 55)) eqn:Eo.
    + eapply okr_bind; [apply (nextI l0 l Hi Hr); left; lia|]. intros l1 (Hi1 & Hr1 & Ho1 & _).
      eapply okr_weaken; [apply (IH _ l0 l1 Hi1 Hr1)|]. intros rl (? & ? & ?). splits; try assumption; lia.
    + apply okr_ret. cbn [snd]. splits; try assumption; lia.
Qed.

Definition SP (l0 : lexer) (o : str_out) : Prop := Inv (str_state o) /\ Rel l0 (str_state o).

Lemma parse_string_spec :
  forall fuel quote chars l0 l, Inv l -> Rel l0 l -> len + 2 - offset l <= Z.of_nat fuel ->
  okr (SP l0) (parse_string src fuel quote chars l).
Proof.
  induction fuel as [|f IH]; intros quote chars l0 l Hi Hr Hf.
  - exfalso. destruct (Inv_W _ _ Hi) as (Hb & _). lia.
  - cbn [parse_string].
    destruct ((ch l =? quote) || (ch l =? 0)) eqn:Eq.
    { apply okr_ret. split; assumption. }
    assert (Hnz : ch l <> 0) by lia.
    destruct ((ch l =? 13) || (ch l =? 10)) eqn:Enl.
    { apply okr_ret. split; assumption. }
    assert (Hrec : forall q cs l', Inv l' -> Rel l0 l' -> offset l + 1 <= offset l' ->
              okr (SP l0) (parse_string src f q cs l')).
    { intros q cs l' Hi' Hr' Ho'. apply IH; try assumption. lia. }
    assert (Hfin : forall q cs l1, Inv l1 -> Rel l0 l1 -> offset l + 1 <= offset l1 ->
              ch l1 <> 0 \/ getch src (offset l1 - 2) = 92 ->
              okr (SP l0) (dol l2 <- next src l1; parse_string src f q cs l2)).
    { intros q cs l1 Hi1 Hr1 Ho1 Hpre1. apply (next_then _ l0 l1 (offset l + 1)); try assumption.
      intros; apply Hrec; assumption. }
    destruct (negb (ch l =? 92)) eqn:Ebs.
    { apply (next_then1 _ l0 l); try assumption. intros; apply Hrec; try assumption; lia. }
    apply (next_then1 _ l0 l); try assumption. intros l1 Hi1 Hr1 Ho1.
    assert (Ho1' : offset l + 1 <= offset l1) by lia.
    (* the byte before the current one is the backslash *)
    assert (Hbs : getch src (offset l1 - 2) = 92).
    { destruct (Inv_W _ _ Hi) as (_ & Hc). replace (offset l1 - 2) with (offset l - 1) by lia. lia. }
    cbv zeta.
    destruct (ch l1 =? 110) eqn:E1; [apply Hfin; try assumption; left; lia|].
    destruct (ch l1 =? 116) eqn:E2; [apply Hfin; try assumption; left; lia|].
    destruct (ch l1 =? 114) eqn:E3; [apply Hfin; try assumption; left; lia|].
    destruct (ch l1 =? 97) eqn:E4; [apply Hfin; try assumption; left; lia|].
    destruct (ch l1 =? 98) eqn:E5; [apply Hfin; try assumption; left; lia|].
    destruct (ch l1 =? 102) eqn:E6; [apply Hfin; try assumption; left; lia|].
    destruct (ch l1 =? 118) eqn:E7; [apply Hfin; try assumption; left; lia|].
    destruct (ch l1 =? 120) eqn:E8.
    { apply (next_then _ l0 l1 (offset l + 1)); try assumption; [left; lia|]. intros l2 Hi2 Hr2 Ho2.
      destruct (hex_digit (ch l2) <? 0) eqn:Eh2; [apply okr_ret; split; assumption|].
      apply (next_then _ l0 l2 (offset l + 1)); try assumption; [left; apply hex_digit_nz; lia|]. intros l3 Hi3 Hr3 Ho3.
      destruct (hex_digit (ch l3) >=? 0) eqn:Eh3; [apply Hfin; try assumption; left; apply hex_digit_nz; lia|apply Hrec; assumption]. }
    destruct (ch l1 =? 117) eqn:E9.
    { apply (next_then _ l0 l1 (offset l + 1)); try assumption; [left; lia|]. intros l2 Hi2 Hr2 Ho2.
      destruct (hex_digit (ch l2) <? 0) eqn:Eh2; [apply okr_ret; split; assumption|].
      apply (next_then _ l0 l2 (offset l + 1)); try assumption; [left; apply hex_digit_nz; lia|]. intros l3 Hi3 Hr3 Ho3.
      eapply okr_bind; [apply (hex_loop_spec 7 _ l0 l3 Hi3 Hr3)|].
      intros (r', l4) (Hi4 & Hr4 & Ho4). cbn [snd] in *.
      destruct (negb (valid_rune_of_int r')); [apply okr_ret; split; assumption|].
      apply Hrec; try assumption. lia. }
    destruct ((48 <=? ch l1) && (ch l1 <=? 55)) eqn:E10.
    { apply (next_then _ l0 l1 (offset l + 1)); try assumption; [left; lia|]. intros l2 Hi2 Hr2 Ho2.
      eapply okr_bind; [apply (oct_loop_spec 2 _ l0 l2 Hi2 Hr2)|].
      intros (c', l3) (Hi3 & Hr3 & Ho3). cbn [snd] in *.
      apply Hrec; try assumption. lia. }
    apply Hfin; try assumption. right; exact Hbs.
Qed.

(* ---- the regex body ---------------------------------------------------------------------- *)
Definition rx_state (o : rx_out) : lexer := match o with RxErr _ l => l | RxOk _ l => l end.
Definition RP (l0 : lexer) (o : rx_out) : Prop :=
  Inv (rx_state o) /\ Rel l0 (rx_state o) /\ match o with RxOk _ l' => ch l' = 47 | RxErr _ _ => True end.

Lemma regex_loop_spec :
  forall fuel chars l0 l, Inv l -> Rel l0 l -> len + 2 - offset l <= Z.of_nat fuel ->
  okr (RP l0) (regex_loop src fuel chars l).
Proof.
  induction fuel as [|f IH]; intros chars l0 l Hi Hr Hf.
  - exfalso. destruct (Inv_W _ _ Hi) as (Hb & _). lia.
  - cbn [regex_loop].
    destruct (ch l =? 47) eqn:E47.
    { apply okr_ret. unfold RP; cbn [rx_state]. splits; try assumption; lia. }
    destruct (ch l =? 0) eqn:E0.
    { apply okr_ret. unfold RP; cbn [rx_state]. splits; try assumption; exact I. }
    destruct ((ch l =? 13) || (ch l =? 10)) eqn:Enl.
    { apply okr_ret. unfold RP; cbn [rx_state]. splits; try assumption; exact I. }
    assert (Hnz : ch l <> 0) by lia.
    destruct (ch l =? 92) eqn:Ebs.
    + apply (next_then1 _ l0 l); try assumption. intros l1 Hi1 Hr1 Ho1. cbv zeta.
      apply (next_then _ l0 l1 (offset l + 1)); try assumption; try lia.
      { right. destruct (Inv_W _ _ Hi) as (_ & Hc). replace (offset l1 - 2) with (offset l - 1) by lia. lia. }
      intros l2 Hi2 Hr2 Ho2.
      apply IH; try assumption. lia.
    + apply (next_then1 _ l0 l); try assumption. intros l1 Hi1 Hr1 Ho1.
      apply IH; try assumption. lia.
Qed.

(* ---- the exponent of a number, with its un-reads ---------------------------------------- *)
(* a dangling exponent at offset j that is followed by a line end: e or E, an optional sign,
   then CR or LF *)
Definition eol (c : Z) : Prop := c = 10 \/ c = 13.
Definition dangling_eol (j : Z) : Prop :=
  (getch src j = 101 \/ getch src j = 69) /\
  (eol (getch src (j + 1)) \/
   ((getch src (j + 1) = 43 \/ getch src (j + 1) = 45) /\ eol (getch src (j + 2)))).

Lemma scan_exponent_spec fuel l :
  NormInv l -> ch l = 101 \/ ch l = 69 -> len + 2 - offset l <= Z.of_nat fuel ->
  okr (fun l' => NormInv l' /\ offset l <= offset l' /\ (xl l = true -> xl l' = true) /\
                 (xl l' = true -> xl l = true \/ (offset l' = offset l /\ dangling_eol (offset l - 1))))
      (scan_exponent src fuel l).
Proof.
  intros Hn He Hf. unfold scan_exponent.
  assert (H1 : 1 <= offset l) by (pose proof (NormInv_bounds _ _ Hn); lia).
  assert (Hnz : ch l <> 0) by lia.
  eapply okr_bind; [apply (nextN l l Hn (Rel_refl l) Hnz)|].
  intros l1 (Hn1 & (Hx1 & _) & Ho1 & _). cbv zeta.
  pose proof (NormInv_W _ _ Hn) as (Hb & Hc).
  pose proof (NormInv_W _ _ Hn1) as (Hb1 & Hc1).
  destruct ((ch l1 =? 43) || (ch l1 =? 45)) eqn:Esg.
  - (* a sign was read *)
    eapply okr_bind; [apply (nextN l l1 Hn1); [split; [assumption|lia]|lia]|].
    intros l2 (Hn2 & (Hx2 & _) & Ho2 & _).
    eapply okr_bind; [apply (skip_digits_spec fuel false l l2 Hn2); [split; [assumption|lia]|lia]|].
    intros (g, l3) (Hn3 & (Hx3 & _) & Ho3 & _ & Hg). cbn [fst snd] in *.
    destruct g; cbn [negb].
    + apply okr_ret. splits; try assumption; try lia; try congruence; try (intros; left; congruence).
    + destruct Hg as [Hg|(_ & ->)]; [discriminate|].
      pose proof (NormInv_W _ _ Hn2) as Hw2.
      eapply okr_bind.
      { apply (unread_spec l2 Hw2); [lia|apply (NormInv_norm _ _ Hn2)|].
        replace (offset l2 - 2) with (offset l1 - 1) by lia. rewrite <- Hc1. unfold plain; lia. }
      intros l4 (Hw4 & Ho4 & Hn4 & Hx4 & Hc4 & Hov4).
      eapply okr_weaken.
      { apply (unread_spec l4 Hw4); [lia|exact Hn4|].
        replace (offset l4 - 2) with (offset l - 1) by lia. rewrite <- Hc. unfold plain; lia. }
      intros l5 (Hw5 & Ho5 & Hn5 & Hx5 & _ & Hov5).
      pose proof (NormInv_W _ _ Hn2) as (_ & Hc2).
      splits; try lia.
      { split; [split; [assumption|]; split; [lia|assumption]|].
        unfold OverOK. rewrite Hov5, Hov4. apply Hn2. }
      intros Hx5t.
      destruct (xl l) eqn:Exl; [left; reflexivity|right]. split; [lia|].
      unfold dangling_eol, eol. rewrite <- Hc.
      replace (offset l - 1 + 1) with (offset l1 - 1) by lia. rewrite <- Hc1.
      replace (offset l - 1 + 2) with (offset l2 - 1) by lia. rewrite <- Hc2.
      replace (offset l2 - 2) with (offset l1 - 1) in Hc4 by lia. rewrite <- Hc1 in Hc4.
      split; [assumption|]. right. lia.
  - (* no sign *)
    cbn [lbind].
    eapply okr_bind; [apply (skip_digits_spec fuel false l l1 Hn1); [split; [assumption|lia]|lia]|].
    intros (g, l3) (Hn3 & (Hx3 & _) & Ho3 & _ & Hg). cbn [fst snd] in *.
    destruct g; cbn [negb].
    + apply okr_ret. splits; try assumption; try lia; try congruence; try (intros; left; congruence).
    + destruct Hg as [Hg|(_ & ->)]; [discriminate|].
      eapply okr_weaken.
      { apply (unread_spec l1 (conj Hb1 Hc1)); [lia|apply (NormInv_norm _ _ Hn1)|].
        replace (offset l1 - 2) with (offset l - 1) by lia. rewrite <- Hc. unfold plain; lia. }
      intros l5 (Hw5 & Ho5 & Hn5 & Hx5 & _ & Hov5).
      splits; try lia.
      { split; [split; [assumption|]; split; [lia|assumption]|].
        unfold OverOK. rewrite Hov5. apply Hn1. }
      intros Hx5t.
      destruct (xl l) eqn:Exl; [left; reflexivity|right]. split; [lia|].
      unfold dangling_eol, eol. rewrite <- Hc.
      replace (offset l - 1 + 1) with (offset l1 - 1) by lia. rewrite <- Hc1.
      split; [assumption|]. left. lia.
Qed.

End Scan.
