(* C03 proofs, part 2: unread, the loops of scan(), scan() and scanRegex() themselves:
   they never panic, never run out of fuel, and every token they return carries the true
   position. *)
From Verif Require Import Lib.Base Lib.Utf8 Model.Lexer Proofs.LexerPos.
From Coq Require Import ZifyBool.
Open Scope Z_scope.

Section Scan.
Variable src : bytes.
Notation P := (pos_of_offset src).
Notation len := (zlen src).
Notation W := (W src).
Notation Norm := (Norm src).
Notation Inv := (Inv src).
Notation NormInv := (NormInv src).

(* the lexer only moves forward (except in unread) *)
Definition Rel (l0 l : lexer) : Prop := offset l0 <= offset l.

Lemma Rel_refl l : Rel l l.
Proof. unfold Rel; lia. Qed.

Lemma col_add_add p a c : col_add (col_add p a) c = col_add p (a + c).
Proof. unfold col_add; cbn [fst snd]. f_equal. lia. Qed.

Lemma col_add_0 p : col_add p 0 = p.
Proof. destruct p; unfold col_add; cbn [fst snd]. f_equal. lia. Qed.

Definition plain (c : Z) : Prop := c <> 10 /\ c <> 13.

Lemma adv_plain p c : plain c -> adv p c = col_add p 1.
Proof. intros (H1 & H2). unfold adv. replace (c =? 10) with false by lia. replace (c =? 13) with false by lia. reflexivity. Qed.

(* ---- set_had_space / set_last_tok do not touch what the invariants read -------------- *)
Lemma NormInv_set_had v l : NormInv l -> NormInv (set_had_space v l).
Proof. intro H; exact H. Qed.
Lemma Inv_set_last t l : Inv l -> Inv (set_last_tok t l).
Proof. intro H; exact H. Qed.
Lemma NormInv_set_last t l : NormInv l -> NormInv (set_last_tok t l).
Proof. intro H; exact H. Qed.

(* ---- next, in the two forms used below ------------------------------------------------ *)
Lemma nextN l0 l :
  NormInv l -> Rel l0 l -> ch l <> 0 ->
  okr (fun l' => NormInv l' /\ Rel l0 l' /\ offset l' = offset l + 1 /\ lpos l' = npos l /\
                 lastTok l' = lastTok l) (next src l).
Proof.
  intros Hn Ho Hnz. unfold Rel in *.
  eapply okr_weaken; [apply next_norm; eassumption|].
  intros l' (Hn' & Ho' & _ & Ht & Hl). splits; try assumption; lia.
Qed.

Lemma nextI l0 l :
  Inv l -> Rel l0 l ->
  okr (fun l' => Inv l' /\ Rel l0 l' /\ offset l <= offset l' /\ (ch l <> 0 -> offset l' = offset l + 1))
      (next src l).
Proof.
  intros Hi Ho. unfold Rel in *.
  eapply okr_weaken; [apply next_inv; eassumption|].
  intros l' (Hi' & Ho' & Ho1 & _). splits; try assumption; lia.
Qed.

Lemma next_then {A} (Q : A -> Prop) l0 l m (K : lexer -> lres A) :
  Inv l -> Rel l0 l -> m <= offset l ->
  (forall l2, Inv l2 -> Rel l0 l2 -> m <= offset l2 -> okr Q (K l2)) ->
  okr Q (lbind (next src l) K).
Proof.
  intros Hi Hr Hm HK. eapply okr_bind; [apply (nextI l0 l Hi Hr)|].
  intros l2 (Hi2 & Hr2 & Ho2 & _). apply HK; try assumption. lia.
Qed.

Lemma next_then1 {A} (Q : A -> Prop) l0 l (K : lexer -> lres A) :
  Inv l -> Rel l0 l -> ch l <> 0 ->
  (forall l2, Inv l2 -> Rel l0 l2 -> offset l2 = offset l + 1 -> okr Q (K l2)) ->
  okr Q (lbind (next src l) K).
Proof.
  intros Hi Hr Hnz HK. eapply okr_bind; [apply (nextI l0 l Hi Hr)|].
  intros l2 (Hi2 & Hr2 & _ & Ho2). apply HK; try assumption. exact (Ho2 Hnz).
Qed.

(* ---- unread ------------------------------------------------------------------------------ *)
Lemma unread_spec l :
  W l -> 2 <= offset l -> Norm l -> plain (getch src (offset l - 2)) ->
  okr (fun l' => W l' /\ offset l' = offset l - 1 /\ Norm l' /\ ch l' = getch src (offset l - 2))
      (unread src l).
Proof.
  intros (Hb & Hc) H2 Hn Hpl. unfold unread.
  replace (offset l - 1 - 1) with (offset l - 2) by lia.
  destruct (index_ok src (offset l - 2)) as (c & Hi); [lia|]. rewrite Hi. cbn [of_res lbind].
  pose proof (getch_index _ _ _ Hi) as Hg. rewrite Hg in Hpl.
  apply okr_ret. cbn [offset ch lpos npos]. splits; try lia; try congruence.
  - split; cbn [offset ch]; [lia|]. replace (offset l - 1 - 1) with (offset l - 2) by lia. congruence.
  - destruct Hn as (H1 & Hl & Hnp). unfold LexerPos.Norm; cbn [offset ch lpos npos].
    pose proof (pos_of_offset_step _ _ _ Hi) as Hs.
    replace (offset l - 2 + 1) with (offset l - 1) in Hs by lia.
    rewrite (adv_plain _ _ Hpl) in Hs.
    replace (offset l - 1 - 1) with (offset l - 2) by lia.
    splits; [lia| |exact Hl].
    rewrite Hl, Hs, col_add_add. replace (1 + -1) with 0 by lia. apply col_add_0.
Qed.

(* ---- loops that only step over non-zero characters --------------------------------------- *)
Lemma skip_while_spec cond :
  (forall c, cond c = true -> c <> 0) ->
  forall fuel l0 l, NormInv l -> Rel l0 l -> len + 2 - offset l <= Z.of_nat fuel ->
  okr (fun l' => NormInv l' /\ Rel l0 l' /\ offset l <= offset l' /\ cond (ch l') = false /\
                 lastTok l' = lastTok l)
      (skip_while src fuel cond l).
Proof.
  intros Hcond. induction fuel as [|f IH]; intros l0 l Hn Hr Hf.
  - exfalso. pose proof (NormInv_bounds _ _ Hn). lia.
  - cbn [skip_while]. destruct (cond (ch l)) eqn:Ec.
    + eapply okr_bind; [apply (nextN l0 l Hn Hr (Hcond _ Ec))|].
      intros l1 (Hn1 & Hr1 & Ho1 & _ & Ht1).
      eapply okr_weaken; [apply (IH l0 l1 Hn1 Hr1); lia|].
      intros l' (Hn' & Hr' & Ho' & Hc' & Ht'). splits; try assumption; try lia; try congruence.
    + apply okr_ret. splits; try assumption; try lia; try reflexivity.
Qed.

Lemma is_digit_nz c : is_digit c = true -> c <> 0.
Proof. unfold is_digit. lia. Qed.

Lemma skip_digits_spec :
  forall fuel got l0 l, NormInv l -> Rel l0 l -> len + 2 - offset l <= Z.of_nat fuel ->
  okr (fun r => NormInv (snd r) /\ Rel l0 (snd r) /\ offset l <= offset (snd r) /\
                is_digit (ch (snd r)) = false /\
                (fst r = true \/ (fst r = got /\ snd r = l)))
      (skip_digits src fuel got l).
Proof.
  induction fuel as [|f IH]; intros got l0 l Hn Hr Hf.
  - exfalso. pose proof (NormInv_bounds _ _ Hn). lia.
  - cbn [skip_digits]. destruct (is_digit (ch l)) eqn:Ec.
    + eapply okr_bind; [apply (nextN l0 l Hn Hr (is_digit_nz _ Ec))|].
      intros l1 (Hn1 & Hr1 & Ho1 & _).
      eapply okr_weaken; [apply (IH true l0 l1 Hn1 Hr1); lia|].
      intros (g, l') (Hn' & Hr' & Ho' & Hd' & Hg'). cbn [fst snd] in *.
      splits; try assumption; try lia.
    + apply okr_ret. cbn [fst snd]. splits; try assumption; try lia. right; split; reflexivity.
Qed.

(* ---- the whitespace loop -------------------------------------------------------------- *)
Definition ws_state (w : ws_out) : lexer := match w with WsIllegal l => l | WsDone l => l end.

Lemma skip_ws_spec :
  forall fuel l0 l, NormInv l -> Rel l0 l -> len + 2 - offset l <= Z.of_nat fuel ->
  okr (fun w => NormInv (ws_state w) /\ Rel l0 (ws_state w)) (skip_ws src fuel l).
Proof.
  induction fuel as [|f IH]; intros l0 l Hn Hr Hf.
  - exfalso. pose proof (NormInv_bounds _ _ Hn). lia.
  - cbn [skip_ws].
    destruct ((ch l =? 32) || (ch l =? 9) || (ch l =? 13) || (ch l =? 92)) eqn:Ews.
    + assert (Hnz : ch l <> 0) by lia.
      pose proof (NormInv_set_had true l Hn) as Hn0.
      assert (Hr0 : Rel l0 (set_had_space true l)) by exact Hr.
      destruct (ch l =? 92) eqn:Ebs.
      * eapply okr_bind; [apply (nextN l0 _ Hn0 Hr0); exact Hnz|].
        intros l1 (Hn1 & Hr1 & Ho1 & _). cbn [set_had_space offset] in Ho1.
        eapply okr_bind with (Q1 := fun l2 => NormInv l2 /\ Rel l0 l2 /\ offset l1 <= offset l2).
        { destruct (ch l1 =? 13) eqn:Ecr.
          - eapply okr_weaken; [apply (nextN l0 l1 Hn1 Hr1); lia|].
            intros l2 (? & ? & ? & _). splits; try assumption; lia.
          - apply okr_ret. splits; try assumption; lia. }
        intros l2 (Hn2 & Hr2 & Ho2).
        destruct (ch l2 =? 10) eqn:Elf; cbn [negb].
        -- eapply okr_bind; [apply (nextN l0 l2 Hn2 Hr2); lia|].
           intros l3 (Hn3 & Hr3 & Ho3 & _). apply (IH l0 l3 Hn3 Hr3). lia.
        -- apply okr_ret. cbn [ws_state]. split; assumption.
      * eapply okr_bind; [apply (nextN l0 _ Hn0 Hr0); exact Hnz|].
        intros l1 (Hn1 & Hr1 & Ho1 & _). cbn [set_had_space offset] in Ho1.
        apply (IH l0 l1 Hn1 Hr1). lia.
    + apply okr_ret. cbn [ws_state]. split; assumption.
Qed.

(* ---- parseString: Inv-level (next may be called at the end of input) -------------------- *)
Definition str_state (o : str_out) : lexer := match o with StrErr _ l => l | StrOk _ l => l end.

Lemma hex_digit_nz c : 0 <= hex_digit c -> c <> 0.
Proof. unfold hex_digit, is_digit. intros H ->. cbn in H. lia. Qed.

Lemma hex_loop_spec : forall n r l0 l, Inv l -> Rel l0 l ->
  okr (fun rl => Inv (snd rl) /\ Rel l0 (snd rl) /\ offset l <= offset (snd rl)) (hex_loop src n r l).
Proof.
  induction n as [|n IH]; intros r l0 l Hi Hr; cbn [hex_loop].
  - apply okr_ret. cbn [snd]. splits; try assumption; lia.
  - destruct (hex_digit (ch l) <? 0) eqn:Eh.
    + apply okr_ret. cbn [snd]. splits; try assumption; lia.
    + eapply okr_bind; [apply (nextI l0 l Hi Hr)|]. intros l1 (Hi1 & Hr1 & Ho1 & _).
      eapply okr_weaken; [apply (IH _ l0 l1 Hi1 Hr1)|]. intros rl (? & ? & ?). splits; try assumption; lia.
Qed.

Lemma oct_loop_spec : forall n c l0 l, Inv l -> Rel l0 l ->
  okr (fun rl => Inv (snd rl) /\ Rel l0 (snd rl) /\ offset l <= offset (snd rl)) (oct_loop src n c l).
Proof.
  induction n as [|n IH]; intros c l0 l Hi Hr; cbn [oct_loop].
  - apply okr_ret. cbn [snd]. splits; try assumption; lia.
  - destruct ((48 <=? ch l) && (ch l <=? 55)) eqn:Eo.
    + eapply okr_bind; [apply (nextI l0 l Hi Hr)|]. intros l1 (Hi1 & Hr1 & Ho1 & _).
      eapply okr_weaken; [apply (IH _ l0 l1 Hi1 Hr1)|]. intros rl (? & ? & ?). splits; try assumption; lia.
    + apply okr_ret. cbn [snd]. splits; try assumption; lia.
Qed.

Definition SP (l0 : lexer) (o : str_out) : Prop := Inv (str_state o) /\ Rel l0 (str_state o).

Lemma parse_string_spec :
  forall fuel quote chars l0 l, Inv l -> Rel l0 l -> len + 2 - offset l <= Z.of_nat fuel ->
  okr (SP l0) (parse_string src fuel quote chars l).
Proof.
  induction fuel as [|f IH]; intros quote chars l0 l Hi Hr Hf.
  - exfalso. destruct (Inv_W _ _ Hi) as (Hb & _). lia.
  - cbn [parse_string].
    destruct ((ch l =? quote) || (ch l =? 0)) eqn:Eq.
    { apply okr_ret. split; assumption. }
    assert (Hnz : ch l <> 0) by lia.
    destruct ((ch l =? 13) || (ch l =? 10)) eqn:Enl.
    { apply okr_ret. split; assumption. }
    assert (Hrec : forall q cs l', Inv l' -> Rel l0 l' -> offset l + 1 <= offset l' ->
              okr (SP l0) (parse_string src f q cs l')).
    { intros q cs l' Hi' Hr' Ho'. apply IH; try assumption. lia. }
    assert (Hfin : forall q cs l1, Inv l1 -> Rel l0 l1 -> offset l + 1 <= offset l1 ->
              okr (SP l0) (dol l2 <- next src l1; parse_string src f q cs l2)).
    { intros q cs l1 Hi1 Hr1 Ho1. apply (next_then _ l0 l1 (offset l + 1)); try assumption.
      intros; apply Hrec; assumption. }
    destruct (negb (ch l =? 92)) eqn:Ebs.
    { apply (next_then1 _ l0 l); try assumption. intros; apply Hrec; try assumption; lia. }
    apply (next_then1 _ l0 l); try assumption. intros l1 Hi1 Hr1 Ho1.
    assert (Ho1' : offset l + 1 <= offset l1) by lia.
    cbv zeta.
    destruct (ch l1 =? 110) eqn:E1; [apply Hfin; assumption|].
    destruct (ch l1 =? 116) eqn:E2; [apply Hfin; assumption|].
    destruct (ch l1 =? 114) eqn:E3; [apply Hfin; assumption|].
    destruct (ch l1 =? 97) eqn:E4; [apply Hfin; assumption|].
    destruct (ch l1 =? 98) eqn:E5; [apply Hfin; assumption|].
    destruct (ch l1 =? 102) eqn:E6; [apply Hfin; assumption|].
    destruct (ch l1 =? 118) eqn:E7; [apply Hfin; assumption|].
    destruct (ch l1 =? 120) eqn:E8.
    { apply (next_then _ l0 l1 (offset l + 1)); try assumption. intros l2 Hi2 Hr2 Ho2.
      destruct (hex_digit (ch l2) <? 0) eqn:Eh2; [apply okr_ret; split; assumption|].
      apply (next_then _ l0 l2 (offset l + 1)); try assumption. intros l3 Hi3 Hr3 Ho3.
      destruct (hex_digit (ch l3) >=? 0) eqn:Eh3; [apply Hfin; assumption|apply Hrec; assumption]. }
    destruct (ch l1 =? 117) eqn:E9.
    { apply (next_then _ l0 l1 (offset l + 1)); try assumption. intros l2 Hi2 Hr2 Ho2.
      destruct (hex_digit (ch l2) <? 0) eqn:Eh2; [apply okr_ret; split; assumption|].
      apply (next_then _ l0 l2 (offset l + 1)); try assumption. intros l3 Hi3 Hr3 Ho3.
      eapply okr_bind; [apply (hex_loop_spec 7 _ l0 l3 Hi3 Hr3)|].
      intros (r', l4) (Hi4 & Hr4 & Ho4). cbn [snd] in *.
      destruct (negb (valid_rune_of_int r')); [apply okr_ret; split; assumption|].
      apply Hrec; try assumption. lia. }
    destruct ((48 <=? ch l1) && (ch l1 <=? 55)) eqn:E10.
    { apply (next_then _ l0 l1 (offset l + 1)); try assumption. intros l2 Hi2 Hr2 Ho2.
      eapply okr_bind; [apply (oct_loop_spec 2 _ l0 l2 Hi2 Hr2)|].
      intros (c', l3) (Hi3 & Hr3 & Ho3). cbn [snd] in *.
      apply Hrec; try assumption. lia. }
    apply Hfin; assumption.
Qed.

(* ---- the regex body ---------------------------------------------------------------------- *)
Definition rx_state (o : rx_out) : lexer := match o with RxErr _ l => l | RxOk _ l => l end.
Definition RP (l0 : lexer) (o : rx_out) : Prop :=
  Inv (rx_state o) /\ Rel l0 (rx_state o) /\ match o with RxOk _ l' => ch l' = 47 | RxErr _ _ => True end.

Lemma regex_loop_spec :
  forall fuel chars l0 l, Inv l -> Rel l0 l -> len + 2 - offset l <= Z.of_nat fuel ->
  okr (RP l0) (regex_loop src fuel chars l).
Proof.
  induction fuel as [|f IH]; intros chars l0 l Hi Hr Hf.
  - exfalso. destruct (Inv_W _ _ Hi) as (Hb & _). lia.
  - cbn [regex_loop].
    destruct (ch l =? 47) eqn:E47.
    { apply okr_ret. unfold RP; cbn [rx_state]. splits; try assumption; lia. }
    destruct (ch l =? 0) eqn:E0.
    { apply okr_ret. unfold RP; cbn [rx_state]. splits; try assumption; exact I. }
    destruct ((ch l =? 13) || (ch l =? 10)) eqn:Enl.
    { apply okr_ret. unfold RP; cbn [rx_state]. splits; try assumption; exact I. }
    assert (Hnz : ch l <> 0) by lia.
    destruct (ch l =? 92) eqn:Ebs.
    + apply (next_then1 _ l0 l); try assumption. intros l1 Hi1 Hr1 Ho1. cbv zeta.
      apply (next_then _ l0 l1 (offset l + 1)); try assumption; try lia.
      intros l2 Hi2 Hr2 Ho2.
      apply IH; try assumption. lia.
    + apply (next_then1 _ l0 l); try assumption. intros l1 Hi1 Hr1 Ho1.
      apply IH; try assumption. lia.
Qed.

(* ---- the exponent of a number, with its un-reads ---------------------------------------- *)
Lemma scan_exponent_spec fuel l :
  NormInv l -> ch l = 101 \/ ch l = 69 -> len + 2 - offset l <= Z.of_nat fuel ->
  okr (fun l' => NormInv l' /\ offset l <= offset l') (scan_exponent src fuel l).
Proof.
  intros Hn He Hf. unfold scan_exponent.
  assert (H1 : 1 <= offset l) by (pose proof (NormInv_bounds _ _ Hn); lia).
  assert (Hnz : ch l <> 0) by lia.
  eapply okr_bind; [apply (nextN l l Hn (Rel_refl l) Hnz)|].
  intros l1 (Hn1 & _ & Ho1 & _). cbv zeta.
  pose proof (NormInv_W _ _ Hn) as (Hb & Hc).
  pose proof (NormInv_W _ _ Hn1) as (Hb1 & Hc1).
  destruct ((ch l1 =? 43) || (ch l1 =? 45)) eqn:Esg.
  - (* a sign was read *)
    eapply okr_bind; [apply (nextN l l1 Hn1); [unfold Rel; lia|lia]|].
    intros l2 (Hn2 & _ & Ho2 & _).
    eapply okr_bind; [apply (skip_digits_spec fuel false l l2 Hn2); [unfold Rel; lia|lia]|].
    intros (g, l3) (Hn3 & _ & Ho3 & _ & Hg). cbn [fst snd] in *.
    destruct g; cbn [negb].
    + apply okr_ret. split; [assumption|lia].
    + destruct Hg as [Hg|(_ & ->)]; [discriminate|].
      pose proof (NormInv_W _ _ Hn2) as Hw2.
      eapply okr_bind.
      { apply (unread_spec l2 Hw2); [lia|apply (NormInv_norm _ _ Hn2)|].
        replace (offset l2 - 2) with (offset l1 - 1) by lia. rewrite <- Hc1. unfold plain; lia. }
      intros l4 (Hw4 & Ho4 & Hn4 & Hc4).
      eapply okr_weaken.
      { apply (unread_spec l4 Hw4); [lia|exact Hn4|].
        replace (offset l4 - 2) with (offset l - 1) by lia. rewrite <- Hc. unfold plain; lia. }
      intros l5 (Hw5 & Ho5 & Hn5 & _).
      split; [split; assumption|lia].
  - (* no sign *)
    cbn [lbind].
    eapply okr_bind; [apply (skip_digits_spec fuel false l l1 Hn1); [unfold Rel; lia|lia]|].
    intros (g, l3) (Hn3 & _ & Ho3 & _ & Hg). cbn [fst snd] in *.
    destruct g; cbn [negb].
    + apply okr_ret. split; [assumption|lia].
    + destruct Hg as [Hg|(_ & ->)]; [discriminate|].
      eapply okr_weaken.
      { apply (unread_spec l1 (conj Hb1 Hc1)); [lia|apply (NormInv_norm _ _ Hn1)|].
        replace (offset l1 - 2) with (offset l - 1) by lia. rewrite <- Hc. unfold plain; lia. }
      intros l5 (Hw5 & Ho5 & Hn5 & _).
      split; [split; assumption|lia].
Qed.

End Scan.
