(* C09: whole formats — any number of conversion specifications (d i o u x X c s,
   mixed) separated by literal text: sprintf equals the concatenation of what C
   prints for each of them, arguments taken in order. *)
From Verif Require Import Lib.Base Lib.Dyadic Lib.Utf8 Model.Printf
  Proofs.PrintfSpec Proofs.PrintfBase Proofs.PrintfInt Proofs.PrintfDir
  Proofs.PrintfSprintf Proofs.PrintfParse Proofs.PrintfStr.

(* one conversion specification with the literal text before it, the values of
   its '*' arguments, its AWK arguments, the converted Go argument and the C argument *)
Record ditem : Type := mkItem {
  it_pre : bytes; it_d : dir; it_wv : Z; it_pv : Z;
  it_aw : value; it_ap : value; it_a : value; it_g : garg; it_c : carg }.

Definition fmt_of (items : list ditem) (post : bytes) : bytes :=
  fold_right (fun it acc => it_pre it ++ render (it_d it) ++ acc) post items.
Definition gofmt_of (items : list ditem) (post : bytes) : bytes :=
  fold_right (fun it acc => it_pre it ++ go_render (it_d it) ++ acc) post items.
Definition tys_of (items : list ditem) : list ty :=
  fold_right (fun it acc => (dir_tys (it_d it) ++ [conv_ty (d_conv (it_d it))]) ++ acc) [] items.
Definition args_of (items : list ditem) (extra : list value) : list value :=
  fold_right (fun it acc => args_for (it_d it) (it_aw it) (it_ap it) (it_a it) acc) extra items.
Definition gargs_of (items : list ditem) : list garg :=
  fold_right (fun it acc => (star_gargs (it_d it) (it_wv it) (it_pv it) ++ [it_g it]) ++ acc) [] items.
Definition expected (chars : bool) (items : list ditem) (post : bytes) : bytes :=
  fold_right (fun it acc => it_pre it ++ c_directive chars (it_d it) (it_wv it) (it_pv it) (it_c it) ++ acc) post items.

(* an item on which the formatter core agrees with C *)
Definition item_ok (chars : bool) (ffmt : fnum -> res bytes) (it : ditem) : Prop :=
  wf_dir (it_d it) = true /\ no_pct (it_pre it) = true /\ in_lim (it_d it) (it_wv it) (it_pv it) /\
  (d_width (it_d it) = WStar -> f2i64 (v_num (it_aw it)) = it_wv it) /\
  (d_prec (it_d it) = PrStar -> f2i64 (v_num (it_ap it)) = it_pv it) /\
  conv_arg chars ffmt (conv_ty (d_conv (it_d it))) (it_a it) = Ok (it_g it) /\
  forall f, st_matches f (resolve (it_d it) (it_wv it) (it_pv it)) ->
    print_arg f (it_g it) (go_conv_byte (d_conv (it_d it)))
    = Ok (c_directive chars (it_d it) (it_wv it) (it_pv it) (it_c it)).

(* ---- parsing ---- *)
Lemma parse_items chars ffmt items post : Forall (item_ok chars ffmt) items -> no_pct post = true ->
  pft PLit (fmt_of items post) = Ok (gofmt_of items post, tys_of items).
Proof.
  intros H Hpost. induction H as [|it r Hit Hr IH]; cbn [fmt_of gofmt_of tys_of fold_right].
  - apply pft_lit. exact Hpost.
  - destruct Hit as (Hwf & Hpre & _).
    fold (fmt_of r post). fold (gofmt_of r post). fold (tys_of r).
    rewrite (pft_lit_app _ _ Hpre).
    destruct (run_fmtch (it_d it) Hwf) as [Hrun Htys].
    assert (E : render (it_d it) ++ fmt_of r post = 37 :: run_of (it_d it) ++ conv_byte (d_conv (it_d it)) :: fmt_of r post).
    { unfold render, run_of. cbn [app]. rewrite <- !app_assoc. reflexivity. }
    rewrite E. cbn [pft]. change (37 =? 37) with true. cbv iota.
    rewrite (pft_pct_run (run_of (it_d it)) _ _ _ _ Hrun (verb_info_conv _) (conv_byte_not_fmtch _)).
    rewrite IH. unfold cons_out. rewrite Htys. f_equal. f_equal.
    + unfold go_render, tail_of, run_of. cbn [app]. rewrite <- !app_assoc. reflexivity.
    + cbn [app]. rewrite <- app_assoc. reflexivity.
Qed.

(* ---- argument conversion ---- *)
Lemma index_app_skip {A} (p l : list A) i : 0 <= i -> index (p ++ l) (zlen p + i) = index l i.
Proof.
  intros Hi. unfold index. rewrite zlen_app. pose proof (zlen_nonneg p) as Hp.
  replace (0 <=? zlen p + i) with true by (symmetry; apply Z.leb_le; lia).
  replace (0 <=? i) with true by (symmetry; apply Z.leb_le; lia).
  replace (zlen p + i <? zlen p + zlen l) with (i <? zlen l)
    by (destruct (i <? zlen l) eqn:E; symmetry; [apply Z.ltb_lt in E; apply Z.ltb_lt | apply Z.ltb_ge in E; apply Z.ltb_ge]; lia).
  cbn [andb]. destruct (i <? zlen l); [|reflexivity].
  replace (Z.to_nat (zlen p + i)) with (length p + Z.to_nat i)%nat by (unfold zlen; lia).
  rewrite nth_error_app2 by lia. replace (length p + Z.to_nat i - length p)%nat with (Z.to_nat i) by lia. reflexivity.
Qed.

Lemma conv_args_shift chars ffmt ts : forall p l i, 0 <= i ->
  conv_args chars ffmt ts (p ++ l) (zlen p + i) = conv_args chars ffmt ts l i.
Proof.
  induction ts as [|t r IH]; intros p l i Hi; cbn [conv_args]; [reflexivity|].
  rewrite index_app_skip by exact Hi. replace (zlen p + i + 1) with (zlen p + (i + 1)) by lia.
  rewrite IH by lia. reflexivity.
Qed.

Lemma conv_args_app chars ffmt t1 : forall t2 args i,
  conv_args chars ffmt (t1 ++ t2) args i
  = (do g1 <- conv_args chars ffmt t1 args i;
     do g2 <- conv_args chars ffmt t2 args (i + zlen t1); Ok (g1 ++ g2)).
Proof.
  induction t1 as [|t r IH]; intros t2 args i.
  - cbn [app conv_args rbind]. rewrite zlen_nil, Z.add_0_r.
    destruct (conv_args chars ffmt t2 args i); reflexivity.
  - cbn [app conv_args]. destruct (index args i) as [a| | |]; cbn [rbind]; try reflexivity.
    destruct (conv_arg chars ffmt t a) as [g| | |]; cbn [rbind]; try reflexivity.
    rewrite IH. rewrite zlen_cons. replace (i + (1 + zlen r)) with (i + 1 + zlen r) by lia.
    destruct (conv_args chars ffmt r args (i + 1)) as [g1| | |]; cbn [rbind]; try reflexivity.
    destruct (conv_args chars ffmt t2 args (i + 1 + zlen r)) as [g2| | |]; cbn [rbind]; reflexivity.
Qed.

Lemma args_for_split d aw ap a rest :
  args_for d aw ap a rest = args_for d aw ap a [] ++ rest /\
  zlen (args_for d aw ap a []) = zlen (dir_tys d ++ [conv_ty (d_conv d)]).
Proof.
  unfold args_for, dir_tys. destruct (d_width d), (d_prec d); cbn [app]; split; reflexivity.
Qed.

Lemma conv_items chars ffmt items extra : Forall (item_ok chars ffmt) items ->
  conv_args chars ffmt (tys_of items) (args_of items extra) 0 = Ok (gargs_of items) /\
  zlen (tys_of items) <= zlen (args_of items extra).
Proof.
  intros H. induction H as [|it r Hit Hr IH]; cbn [tys_of args_of gargs_of fold_right].
  - split; [reflexivity|]. rewrite zlen_nil. apply zlen_nonneg.
  - fold (tys_of r). fold (args_of r extra). fold (gargs_of r).
    destruct Hit as (Hwf & Hpre & Hlim & Hw & Hp & Hg & _). destruct IH as [IH1 IH2].
    destruct (conv_args_render chars ffmt (it_d it) (it_aw it) (it_ap it) (it_a it) (args_of r extra)
                (it_wv it) (it_pv it) (it_g it) Hw Hp Hg) as [Hca _].
    destruct (args_for_split (it_d it) (it_aw it) (it_ap it) (it_a it) (args_of r extra)) as [Hsp Hlen].
    split.
    + rewrite conv_args_app. rewrite Hca. cbn [rbind]. rewrite Hsp, <- Hlen.
      replace (0 + zlen (args_for (it_d it) (it_aw it) (it_ap it) (it_a it) []))
        with (zlen (args_for (it_d it) (it_aw it) (it_ap it) (it_a it) []) + 0) by lia.
      rewrite conv_args_shift by lia. rewrite IH1. reflexivity.
    + rewrite Hsp. rewrite (zlen_app (args_for _ _ _ _ [])), (zlen_app (_ ++ _) (tys_of r)). rewrite Hlen. lia.
Qed.

(* ---- the modelled fmt.Sprintf ---- *)
Lemma go_items chars ffmt items post : Forall (item_ok chars ffmt) items -> no_pct post = true ->
  forall fuel, (length (gofmt_of items post) < fuel)%nat ->
  go_printf fuel (gofmt_of items post) (gargs_of items) = Ok (expected chars items post).
Proof.
  intros H Hpost. induction H as [|it r Hit Hr IH]; intros fuel Hf; cbn [gofmt_of gargs_of expected fold_right] in *.
  - destruct fuel as [|k]; [lia|]. cbn [go_printf]. rewrite (span_lit_all post Hpost). cbn [go_extra].
    rewrite app_nil_r. reflexivity.
  - fold (gofmt_of r post) in *. fold (gargs_of r). fold (expected chars r post).
    destruct Hit as (Hwf & Hpre & Hlim & _ & _ & _ & Hpa).
    destruct fuel as [|k]; [lia|].
    unfold go_render in *.
    assert (E : it_pre it ++ (37 :: tail_of (it_d it) (go_conv_byte (d_conv (it_d it)))) ++ gofmt_of r post
              = it_pre it ++ 37 :: (tail_of (it_d it) (go_conv_byte (d_conv (it_d it))) ++ gofmt_of r post)) by reflexivity.
    rewrite E in *. cbn [go_printf]. rewrite (span_lit_pre _ _ Hpre). rewrite <- app_assoc.
    change ([it_g it] ++ gargs_of r) with (it_g it :: gargs_of r).
    destruct (go_directive_render (it_d it) (it_wv it) (it_pv it) (go_conv_byte (d_conv (it_d it))) (it_g it) (gargs_of r)
                (gofmt_of r post) Hwf Hlim (go_conv_byte_ok _)) as (f & Hst & Hdir).
    rewrite Hdir. rewrite (Hpa f Hst).
    rewrite IH.
    + reflexivity.
    + rewrite app_length in Hf. cbn [length] in Hf. rewrite app_length in Hf. lia.
Qed.

Theorem sprintf_items chars ffmt items post extra :
  Forall (item_ok chars ffmt) items -> no_pct post = true ->
  sprintf chars ffmt (fmt_of items post) (args_of items extra) = Ok (expected chars items post).
Proof.
  intros H Hpost. unfold sprintf, parse_fmt_types. rewrite (parse_items chars ffmt items post H Hpost).
  destruct (conv_items chars ffmt items extra H) as [Hc Hl].
  replace (zlen (tys_of items) >? zlen (args_of items extra)) with false
    by (symmetry; rewrite Z.gtb_ltb; apply Z.ltb_ge; exact Hl).
  rewrite Hc. cbn [rbind]. unfold go_sprintf. apply (go_items chars ffmt items post H Hpost). lia.
Qed.

(* ---- which items are ok ---- *)
Lemma star_hyp x v lo hi : awk_int x = Some v -> lo <= v <= hi -> - two63 <= lo -> hi < two63 -> f2i64 x = v.
Proof. intros H1 H2 H3 H4. apply f2i64_awk_int; [exact H1 | lia]. Qed.

Theorem item_ok_int chars ffmt pre d wv pv aw ap a v :
  wf_dir d = true -> is_int_conv (d_conv d) = true -> no_pct pre = true -> in_lim d wv pv ->
  (d_width d = WStar -> awk_int (v_num aw) = Some wv) ->
  (d_prec d = PrStar -> awk_int (v_num ap) = Some pv) ->
  awk_int (v_num a) = Some v -> - two63 <= v < two63 ->
  int_ok d (resolve d wv pv) v ->
  item_ok chars ffmt (mkItem pre d wv pv aw ap a
    (match conv_ty (d_conv d) with TyD => GInt v | _ => GUint (v mod two64) end) (AInt v)).
Proof.
  intros Hwf Hic Hpre Hlim Hw Hp Ha Hv Hok. unfold item_ok. cbn [it_pre it_d it_wv it_pv it_aw it_ap it_a it_g it_c].
  pose proof (f2i64_awk_int _ _ Ha Hv) as Hf.
  split; [exact Hwf|]. split; [exact Hpre|]. split; [exact Hlim|]. split; [|split; [|split]].
  - intros E. apply f2i64_awk_int; [exact (Hw E)|]. destruct Hlim as [L _]. rewrite E in L. unfold two63. lia.
  - intros E. apply f2i64_awk_int; [exact (Hp E)|]. destruct Hlim as [_ L]. rewrite E in L. unfold two63. lia.
  - destruct (d_conv d); try discriminate; cbn [conv_ty conv_arg]; rewrite Hf; try reflexivity;
      rewrite (i64_to_u64_mod v Hv); reflexivity.
  - intros f Hst. unfold c_directive, int_ok in *.
    destruct (d_conv d); try discriminate; cbn [conv_ty go_conv_byte print_arg int_verb Z.eqb Pos.eqb orb].
    + rewrite (fmt_integer_signed f _ v Hst Hok). reflexivity.
    + rewrite (fmt_integer_signed f _ v Hst Hok). reflexivity.
    + rewrite (fmt_integer_o f _ v Hst Hok). reflexivity.
    + rewrite (fmt_integer_u f _ v Hst Hok). reflexivity.
    + rewrite (fmt_integer_x f _ v Hst Hok). reflexivity.
    + rewrite (fmt_integer_X f _ v Hst Hok). reflexivity.
Qed.

Theorem item_ok_s chars ffmt pre d wv pv aw ap a s :
  wf_dir d = true -> d_conv d = Cs -> c_defined d = true -> no_pct pre = true -> in_lim d wv pv ->
  (d_width d = WStar -> awk_int (v_num aw) = Some wv) ->
  (d_prec d = PrStar -> awk_int (v_num ap) = Some pv) ->
  v_str ffmt a = Ok s ->
  ascii s = true \/ (d_width d = WNone /\ d_prec d = PrNone) ->
  item_ok chars ffmt (mkItem pre d wv pv aw ap a (GStr s) (AStr s)).
Proof.
  intros Hwf Hc Hdef Hpre Hlim Hw Hp Ha Hok. unfold item_ok. cbn [it_pre it_d it_wv it_pv it_aw it_ap it_a it_g it_c].
  split; [exact Hwf|]. split; [exact Hpre|]. split; [exact Hlim|]. split; [|split; [|split]].
  - intros E. apply f2i64_awk_int; [exact (Hw E)|]. destruct Hlim as [L _]. rewrite E in L. unfold two63. lia.
  - intros E. apply f2i64_awk_int; [exact (Hp E)|]. destruct Hlim as [_ L]. rewrite E in L. unfold two63. lia.
  - rewrite Hc. cbn [conv_ty conv_arg]. rewrite Ha. reflexivity.
  - intros f Hst. unfold c_directive. unfold c_defined in Hdef. rewrite Hc in *. cbn [go_conv_byte print_arg Z.eqb Pos.eqb orb].
    apply andb_true_iff in Hdef as [_ H48]. apply negb_true_iff in H48.
    destruct Hok as [Hasc | [W0 P0]].
    + rewrite (fmt_s_ascii chars f _ s Hst (st_space_pad f d wv pv Hst H48) Hasc). reflexivity.
    + destruct (fmt_s_plain chars f (resolve d wv pv) s Hst) as [E1 E2].
      * unfold resolve. rewrite W0. reflexivity.
      * unfold resolve. rewrite P0. reflexivity.
      * rewrite E1, E2. reflexivity.
Qed.

Theorem item_ok_c chars ffmt pre d wv pv aw ap a ch :
  wf_dir d = true -> d_conv d = Cc -> c_defined d = true -> no_pct pre = true -> in_lim d wv pv ->
  (d_width d = WStar -> awk_int (v_num aw) = Some wv) ->
  conv_c chars ffmt a = Ok ch -> rune_count ch = 1 ->
  item_ok chars ffmt (mkItem pre d wv pv aw ap a (GBytes ch) (AChar ch)).
Proof.
  intros Hwf Hc Hdef Hpre Hlim Hw Ha H1. unfold item_ok. cbn [it_pre it_d it_wv it_pv it_aw it_ap it_a it_g it_c].
  unfold c_defined in Hdef. rewrite Hc in Hdef. apply andb_true_iff in Hdef as [Hdef HP]. apply andb_true_iff in Hdef as [_ H48].
  apply negb_true_iff in H48. destruct (d_prec d) eqn:EP; try discriminate.
  split; [exact Hwf|]. split; [exact Hpre|]. split; [exact Hlim|]. split; [|split; [|split]].
  - intros E. apply f2i64_awk_int; [exact (Hw E)|]. destruct Hlim as [L _]. rewrite E in L. unfold two63. lia.
  - discriminate.
  - rewrite Hc. cbn [conv_ty conv_arg]. rewrite Ha. reflexivity.
  - intros f Hst. unfold c_directive. rewrite Hc. cbn [go_conv_byte print_arg Z.eqb Pos.eqb].
    rewrite (fmt_s_char f _ ch Hst (st_space_pad f d wv pv Hst H48)); [reflexivity | | exact H1].
    unfold resolve. rewrite EP. reflexivity.
Qed.
