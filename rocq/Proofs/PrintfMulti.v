(* C09: whole formats — any number of conversion specifications (d i o u x X c s,
   and e E f g G of non-finite values, mixed) separated by literal text: sprintf
   equals the concatenation of what C prints for each of them, arguments taken in
   order. *)
From Verif Require Import Lib.Base Lib.Dyadic Lib.Utf8 Model.Printf
  Proofs.PrintfSpec Proofs.PrintfBase Proofs.PrintfInt Proofs.PrintfDir Proofs.PrintfScan
  Proofs.PrintfSprintf Proofs.PrintfParse Proofs.PrintfStr.

Record ditem : Type := mkItem {
  it_pre : bytes; it_d : dir; it_wv : Z; it_pv : Z;
  it_aw : value; it_ap : value; it_a : value; it_g : garg; it_c : carg }.

Definition it_verb (it : ditem) : Z := go_conv_byte (d_conv (it_d it)).
Definition it_eff (it : ditem) : dir := eff_dir (it_d it) (it_pv it).

Definition fmt_of (items : list ditem) (post : bytes) : bytes :=
  fold_right (fun it acc => it_pre it ++ render (it_d it) ++ acc) post items.
Definition gofmt_of (items : list ditem) (post : bytes) : bytes :=
  fold_right (fun it acc => it_pre it ++ go_render (it_d it) ++ acc) post items.
(* the format after sprintf has cut out the ".*" of negative '*' precisions *)
Definition patched_of (items : list ditem) (post : bytes) : bytes :=
  fold_right (fun it acc => it_pre it ++ (37 :: tail_of (it_eff it) (it_verb it)) ++ acc) post items.
Definition tys_of (items : list ditem) : list ty :=
  fold_right (fun it acc => (dir_tys (it_d it) ++ [conv_ty (d_conv (it_d it))]) ++ acc) [] items.
Fixpoint stars_of (items : list ditem) (pos : Z) : list Z :=
  match items with
  | [] => []
  | it :: r => dir_stars (it_d it) (pos + zlen (it_pre it) + 1)
               ++ stars_of r (pos + zlen (it_pre it) + zlen (go_render (it_d it)))
  end.
Definition args_of (items : list ditem) (extra : list value) : list value :=
  fold_right (fun it acc => args_for (it_d it) (it_aw it) (it_ap it) (it_a it) acc) extra items.
Definition it_gargs (it : ditem) : list garg :=
  star_gargs (it_eff it) (it_wv it) (eff_pv (it_d it) (it_pv it)) ++ [it_g it].
Definition gargs_of (items : list ditem) : list garg :=
  fold_right (fun it acc => it_gargs it ++ acc) [] items.
Definition expected (chars : bool) (items : list ditem) (post : bytes) : bytes :=
  fold_right (fun it acc => it_pre it ++ c_directive chars (it_d it) (it_wv it) (it_pv it) (it_c it) ++ acc) post items.

(* an item on which the formatter core agrees with C *)
Definition item_ok (chars : bool) (ffmt : fnum -> res bytes) (it : ditem) : Prop :=
  wf_dir (it_d it) = true /\ no_pct (it_pre it) = true /\ lim (it_d it) (it_wv it) (it_pv it) /\
  (d_width (it_d it) = WStar -> conv_arg chars ffmt TyD (it_aw it) = Ok (GInt (it_wv it))) /\
  (d_prec (it_d it) = PrStar -> f2i64 (v_num (it_ap it)) = it_pv it) /\
  conv_arg chars ffmt (conv_ty (d_conv (it_d it))) (it_a it) = Ok (it_g it) /\
  forall f, st_matches f (resolve (it_eff it) (it_wv it) (eff_pv (it_d it) (it_pv it))) ->
    print_arg f (it_g it) (it_verb it) = Ok (c_directive chars (it_d it) (it_wv it) (it_pv it) (it_c it)).

(* ---- parsing ---- *)
Lemma parse_items chars ffmt items post : Forall (item_ok chars ffmt) items -> no_pct post = true ->
  forall pos, pft PLit pos (fmt_of items post) = Ok (gofmt_of items post, tys_of items, stars_of items pos).
Proof.
  intros H Hpost. induction H as [|it r Hit Hr IH]; intros pos; cbn [fmt_of gofmt_of tys_of stars_of fold_right].
  - apply pft_lit. exact Hpost.
  - destruct Hit as (Hwf & Hpre & _).
    fold (fmt_of r post). fold (gofmt_of r post). fold (tys_of r).
    rewrite (pft_lit_app _ _ _ Hpre). rewrite render_tail. cbn [app pft]. change (37 =? 37) with true. cbv iota.
    rewrite cons_out_prepend. rewrite (pft_dir _ (it_d it) _ Hwf). rewrite IH. cbn [prepend]. unfold go_render.
    cbn [app]. rewrite zlen_cons.
    replace (pos + zlen (it_pre it) + (1 + zlen (go_tail (it_d it)))) with (pos + zlen (it_pre it) + 1 + zlen (go_tail (it_d it))) by lia.
    reflexivity.
Qed.

(* ---- argument conversion, with the format being patched ---- *)
Definition prefix_gargs (gs : list garg) (r : res (bytes * list garg)) : res (bytes * list garg) :=
  match r with Ok (fm, l) => Ok (fm, gs ++ l) | Err m => Err m | Panic => Panic | Unmod => Unmod end.

Lemma cons_arg_prefix g r : cons_arg g r = prefix_gargs [g] r.
Proof. destruct r as [[fm l]| | |]; reflexivity. Qed.

Lemma prefix_prefix a b r : prefix_gargs a (prefix_gargs b r) = prefix_gargs (a ++ b) r.
Proof. destruct r as [[fm l]| | |]; cbn [prefix_gargs]; try reflexivity. rewrite <- app_assoc. reflexivity. Qed.

Lemma prefix_nil r : prefix_gargs [] r = r.
Proof. destruct r as [[fm l]| | |]; reflexivity. Qed.

Lemma index_app_skip {A} (p l : list A) i : 0 <= i -> index (p ++ l) (zlen p + i) = index l i.
Proof.
  intros Hi. unfold index. rewrite zlen_app. pose proof (zlen_nonneg p) as Hp.
  replace (0 <=? zlen p + i) with true by (symmetry; apply Z.leb_le; lia).
  replace (0 <=? i) with true by (symmetry; apply Z.leb_le; lia).
  replace (zlen p + i <? zlen p + zlen l) with (i <? zlen l)
    by (destruct (i <? zlen l) eqn:E; symmetry; [apply Z.ltb_lt in E; apply Z.ltb_lt | apply Z.ltb_ge in E; apply Z.ltb_ge]; lia).
  cbn [andb]. destruct (i <? zlen l); [|reflexivity].
  replace (Z.to_nat (zlen p + i)) with (length p + Z.to_nat i)%nat by (unfold zlen; lia).
  rewrite nth_error_app2 by lia. replace (length p + Z.to_nat i - length p)%nat with (Z.to_nat i) by lia. reflexivity.
Qed.

Lemma conv_args_one chars ffmt cv a g TS rest i fm st rm :
  conv_arg chars ffmt (conv_ty cv) a = Ok g -> index rest i = Ok a ->
  conv_args chars ffmt (conv_ty cv :: TS) rest i fm st rm
  = prefix_gargs [g] (conv_args chars ffmt TS rest (i + 1) fm st rm).
Proof.
  intros Hg Hi. rewrite <- cons_arg_prefix. cbn [conv_args]. rewrite Hi. cbn [rbind].
  destruct (conv_ty cv) eqn:ET; try (rewrite Hg; reflexivity). exfalso. exact (conv_ty_not_p _ ET).
Qed.

(* the '*' precision in the middle of a format: [A'] is the (already patched) text before its '.' *)
Lemma conv_args_prec_mid chars ffmt cv ap pv TS (A' X : bytes) off ST rm i rest :
  f2i64 (v_num ap) = pv -> index rest i = Ok ap -> off - rm = zlen A' ->
  conv_args chars ffmt (TyP :: conv_ty cv :: TS) rest i (A' ++ 46 :: 42 :: X) (off :: ST) rm
  = if (pv <? 0) && negb (is_float_conv cv)
    then conv_args chars ffmt (conv_ty cv :: TS) rest (i + 1) (A' ++ X) ST (rm + 2)
    else prefix_gargs [GInt (if (pv <? 0) && is_float_conv cv then 6 else pv)]
           (conv_args chars ffmt (conv_ty cv :: TS) rest (i + 1) (A' ++ 46 :: 42 :: X) ST rm).
Proof.
  intros Hp Hi Hoff. rewrite conv_args_p_step. rewrite Hi. cbn [rbind]. cbv zeta. rewrite Hp.
  rewrite <- (conv_ty_float cv). rewrite <- !cons_arg_prefix.
  destruct (pv <? 0) eqn:EN; cbn [andb]; [|reflexivity].
  destruct (conv_ty cv) eqn:ET; try (exfalso; exact (conv_ty_not_p _ ET)); cbn [negb];
    try (rewrite Hoff; rewrite slice_prefix; cbn [rbind];
         replace (A' ++ 46 :: 42 :: X) with ((A' ++ [46; 42]) ++ X) by (rewrite <- app_assoc; reflexivity);
         replace (zlen A' + 2) with (zlen (A' ++ [46; 42])) by (rewrite zlen_app; reflexivity);
         rewrite slice_suffix; cbn [rbind]; reflexivity).
  reflexivity.
Qed.

Definition it_cut (it : ditem) : Z :=
  match d_prec (it_d it) with
  | PrStar => if (it_pv it <? 0) && negb (is_float_conv (d_conv (it_d it))) then 2 else 0
  | _ => 0
  end.

Lemma eff_len it : zlen (37 :: tail_of (it_eff it) (it_verb it)) + it_cut it = zlen (go_render (it_d it)).
Proof.
  unfold it_eff, it_verb, it_cut, go_render, go_tail, tail_of, eff_dir, set_dprec. destruct (it_d it) as [fl w p cv].
  cbn [d_flags d_width d_prec d_conv]. destruct p as [|ds|]; cbn [render_p has_p d_flags d_width d_prec d_conv].
  - unfold ins. rewrite andb_true_r. destruct (is_g cv); cbn [d_flags d_width d_prec d_conv render_p]; zl; lia.
  - rewrite ins_true. zl. lia.
  - rewrite ins_true. destruct ((it_pv it <? 0) && negb (is_float_conv cv)); cbn [d_flags d_width d_prec d_conv render_p]; zl; lia.
Qed.

(* one item in the middle of the loop *)
Ltac idx_fin :=
  repeat (rewrite <- ?app_assoc; cbn [app]);
  first [ reflexivity
        | match goal with
          | |- prefix_gargs ?a (conv_args _ _ _ _ ?i1 _ _ _) = prefix_gargs ?b (conv_args _ _ _ _ ?i2 _ _ _) =>
              replace i1 with i2 by (unfold zlen; cbn [length app]; lia); reflexivity
          end ].

Lemma conv_item chars ffmt it : item_ok chars ffmt it ->
  forall TS ST (REST P : bytes) (AV : list value) rm extra,
  conv_args chars ffmt ((dir_tys (it_d it) ++ [conv_ty (d_conv (it_d it))]) ++ TS)
            (AV ++ args_for (it_d it) (it_aw it) (it_ap it) (it_a it) extra) (zlen AV)
            (P ++ it_pre it ++ go_render (it_d it) ++ REST)
            (dir_stars (it_d it) (zlen P + rm + zlen (it_pre it) + 1) ++ ST) rm
  = prefix_gargs (it_gargs it)
      (conv_args chars ffmt TS (AV ++ args_for (it_d it) (it_aw it) (it_ap it) (it_a it) extra)
         (zlen AV + zlen (dir_tys (it_d it) ++ [conv_ty (d_conv (it_d it))]))
         (P ++ it_pre it ++ (37 :: tail_of (it_eff it) (it_verb it)) ++ REST) ST (rm + it_cut it)).
Proof.
  intros (Hwf & Hpre & Hlim & Hw & Hp & Hg & _) TS ST REST P AV rm extra.
  unfold it_gargs, it_eff, it_verb, it_cut, go_render, go_tail, dir_tys, dir_stars, args_for, star_gargs,
    eff_dir, eff_pv, tail_of, w_tys, p_tys, p_stars, set_dprec.
  destruct (it_d it) as [fl w p cv]. cbn [d_flags d_width d_prec d_conv] in *.
  set (aw := it_aw it) in *. set (ap := it_ap it) in *. set (a := it_a it) in *. set (g := it_g it) in *.
  set (wv := it_wv it) in *. set (pv := it_pv it) in *. set (pre := it_pre it) in *.
  assert (I0 : forall x l, index (AV ++ x :: l) (zlen AV) = Ok x).
  { intros x l. rewrite <- (Z.add_0_r (zlen AV)). rewrite index_app_skip by lia. apply index_0. }
  assert (I1 : forall x y l, index (AV ++ x :: y :: l) (zlen AV + 1) = Ok y).
  { intros x y l. rewrite index_app_skip by lia. apply index_1. }
  assert (I2 : forall x y z l, index (AV ++ x :: y :: z :: l) (zlen AV + 1 + 1) = Ok z).
  { intros x y z l. replace (zlen AV + 1 + 1) with (zlen AV + 2) by lia. rewrite index_app_skip by lia. apply index_2. }
  destruct p as [|ds|]; cbn [render_p has_p app d_prec d_flags d_width d_conv].
  - (* no precision *)
    rewrite Z.add_0_r.
    assert (F : (if is_g cv then mkDir fl w (PrLit [54]) cv else mkDir fl w PrNone cv)
                = mkDir fl w (if is_g cv then PrLit [54] else PrNone) cv) by (destruct (is_g cv); reflexivity).
    rewrite !F. cbn [d_flags d_width d_prec d_conv].
    assert (E : ins cv false = render_p (if is_g cv then PrLit [54] else PrNone)).
    { unfold ins. rewrite andb_true_r. destruct (is_g cv); reflexivity. }
    rewrite E.
    replace (match (if is_g cv then PrLit [54] else PrNone) with PrStar => [GInt pv] | _ => [] end) with (@nil garg)
      by (destruct (is_g cv); reflexivity).
    destruct w as [|wds|]; cbn [app render_w].
    + rewrite (conv_args_one chars ffmt cv a g TS _ _ _ _ _ Hg (I0 _ _)). zl.
      idx_fin.
    + rewrite (conv_args_one chars ffmt cv a g TS _ _ _ _ _ Hg (I0 _ _)). zl.
      idx_fin.
    + rewrite (conv_args_width chars ffmt _ aw wv _ _ _ _ _ (Hw eq_refl) (I0 _ _)).
      rewrite (conv_args_one chars ffmt cv a g TS _ _ _ _ _ Hg (I1 _ _ _)).
      rewrite cons_arg_prefix, prefix_prefix. zl. replace (zlen AV + (1 + (1 + 0))) with (zlen AV + 1 + 1) by lia.
      idx_fin.
  - (* literal precision *)
    rewrite ins_true, Z.add_0_r. cbn [app].
    destruct w as [|wds|]; cbn [app render_w].
    + rewrite (conv_args_one chars ffmt cv a g TS _ _ _ _ _ Hg (I0 _ _)). zl.
      idx_fin.
    + rewrite (conv_args_one chars ffmt cv a g TS _ _ _ _ _ Hg (I0 _ _)). zl.
      idx_fin.
    + rewrite (conv_args_width chars ffmt _ aw wv _ _ _ _ _ (Hw eq_refl) (I0 _ _)).
      rewrite (conv_args_one chars ffmt cv a g TS _ _ _ _ _ Hg (I1 _ _ _)).
      rewrite cons_arg_prefix, prefix_prefix. zl. replace (zlen AV + (1 + (1 + 0))) with (zlen AV + 1 + 1) by lia.
      idx_fin.
  - (* '*' precision *)
    rewrite ins_true. cbn [app]. specialize (Hp eq_refl).
    assert (N : forall (A' : bytes) F O rest i rm0 TS0,
              F = A' ++ 46 :: 42 :: go_conv_byte cv :: REST -> O - rm0 = zlen A' ->
              index rest i = Ok ap -> index rest (i + 1) = Ok a ->
              conv_args chars ffmt (TyP :: conv_ty cv :: TS0) rest i F (O :: ST) rm0
              = prefix_gargs ((if (pv <? 0) && negb (is_float_conv cv) then []
                               else [GInt (if (pv <? 0) && is_float_conv cv then 6 else pv)]) ++ [g])
                  (conv_args chars ffmt TS0 rest (i + 1 + 1)
                     (A' ++ (if (pv <? 0) && negb (is_float_conv cv) then [] else [46; 42]) ++ go_conv_byte cv :: REST)
                     ST (rm0 + (if (pv <? 0) && negb (is_float_conv cv) then 2 else 0)))).
    { intros A' F O rest i rm0 TS0 -> HO Hi Hi1.
      rewrite (conv_args_prec_mid chars ffmt cv ap pv TS0 A' _ O ST rm0 i rest Hp Hi HO).
      destruct ((pv <? 0) && negb (is_float_conv cv)).
      - rewrite (conv_args_one chars ffmt cv a g TS0 _ _ _ _ _ Hg Hi1). reflexivity.
      - rewrite (conv_args_one chars ffmt cv a g TS0 _ _ _ _ _ Hg Hi1). rewrite prefix_prefix, Z.add_0_r. reflexivity. }
    destruct w as [|wds|]; cbn [app render_w].
    + erewrite (N (P ++ pre ++ 37 :: fl));
        [ | repeat (rewrite <- ?app_assoc; cbn [app]); reflexivity | zl; lia | apply I0 | apply I1 ].
      zl. replace (zlen AV + (1 + (1 + 0))) with (zlen AV + 1 + 1) by lia.
      destruct ((pv <? 0) && negb (is_float_conv cv)); cbn [d_flags d_width d_prec d_conv render_w render_p app];
        idx_fin.
    + erewrite (N (P ++ pre ++ 37 :: fl ++ wds));
        [ | repeat (rewrite <- ?app_assoc; cbn [app]); reflexivity | zl; lia | apply I0 | apply I1 ].
      zl. replace (zlen AV + (1 + (1 + 0))) with (zlen AV + 1 + 1) by lia.
      destruct ((pv <? 0) && negb (is_float_conv cv)); cbn [d_flags d_width d_prec d_conv render_w render_p app];
        idx_fin.
    + rewrite (conv_args_width chars ffmt _ aw wv _ _ _ _ _ (Hw eq_refl) (I0 _ _)).
      erewrite (N (P ++ pre ++ 37 :: fl ++ [42]));
        [ | repeat (rewrite <- ?app_assoc; cbn [app]); reflexivity | zl; lia | apply I1 | apply I2 ].
      rewrite cons_arg_prefix, prefix_prefix. zl. replace (zlen AV + (1 + (1 + (1 + 0)))) with (zlen AV + 1 + 1 + 1) by lia.
      destruct ((pv <? 0) && negb (is_float_conv cv)); cbn [d_flags d_width d_prec d_conv render_w render_p app];
        idx_fin.
Qed.

Lemma args_for_split d aw ap a rest :
  args_for d aw ap a rest = args_for d aw ap a [] ++ rest /\
  zlen (args_for d aw ap a []) = zlen (dir_tys d ++ [conv_ty (d_conv d)]).
Proof.
  unfold args_for, dir_tys, w_tys, p_tys. destruct (d_width d), (d_prec d); cbn [app]; split; reflexivity.
Qed.

Lemma conv_items chars ffmt extra post items : Forall (item_ok chars ffmt) items ->
  forall (P : bytes) (AV : list value) rm,
  conv_args chars ffmt (tys_of items) (AV ++ args_of items extra) (zlen AV)
            (P ++ gofmt_of items post) (stars_of items (zlen P + rm)) rm
  = Ok (P ++ patched_of items post, gargs_of items).
Proof.
  intros H. induction H as [|it r Hit Hr IH]; intros P AV rm;
    cbn [tys_of args_of gofmt_of patched_of gargs_of stars_of fold_right].
  - reflexivity.
  - fold (tys_of r). fold (args_of r extra). fold (gofmt_of r post). fold (patched_of r post). fold (gargs_of r).
    replace (zlen P + rm + zlen (it_pre it) + 1) with (zlen P + rm + zlen (it_pre it) + 1) by reflexivity.
    rewrite (conv_item chars ffmt it Hit (tys_of r) _ (gofmt_of r post) P AV rm (args_of r extra)).
    destruct (args_for_split (it_d it) (it_aw it) (it_ap it) (it_a it) (args_of r extra)) as [Hsp Hlen].
    rewrite Hsp. rewrite app_assoc. rewrite <- Hlen. rewrite <- zlen_app.
    replace (P ++ it_pre it ++ (37 :: tail_of (it_eff it) (it_verb it)) ++ gofmt_of r post)
      with ((P ++ it_pre it ++ 37 :: tail_of (it_eff it) (it_verb it)) ++ gofmt_of r post)
      by (repeat (rewrite <- ?app_assoc; cbn [app]); reflexivity).
    replace (zlen P + rm + zlen (it_pre it) + zlen (go_render (it_d it)))
      with (zlen (P ++ it_pre it ++ 37 :: tail_of (it_eff it) (it_verb it)) + (rm + it_cut it))
      by (pose proof (eff_len it); rewrite !zlen_app; lia).
    rewrite IH. cbn [prefix_gargs]. repeat (rewrite <- ?app_assoc; cbn [app]). reflexivity.
Qed.

Lemma tys_args_len items extra : zlen (tys_of items) <= zlen (args_of items extra).
Proof.
  induction items as [|it r IH]; cbn [tys_of args_of fold_right]; [rewrite zlen_nil; apply zlen_nonneg|].
  fold (tys_of r). fold (args_of r extra).
  destruct (args_for_split (it_d it) (it_aw it) (it_ap it) (it_a it) (args_of r extra)) as [Hsp Hlen].
  rewrite Hsp. rewrite (zlen_app (args_for _ _ _ _ [])), (zlen_app (_ ++ _) (tys_of r)). rewrite Hlen. lia.
Qed.

(* ---- the modelled fmt.Sprintf on the patched format ---- *)
Lemma go_items chars ffmt items post : Forall (item_ok chars ffmt) items -> no_pct post = true ->
  forall fuel, (length (patched_of items post) < fuel)%nat ->
  go_printf fuel (patched_of items post) (gargs_of items) = Ok (expected chars items post).
Proof.
  intros H Hpost. induction H as [|it r Hit Hr IH]; intros fuel Hf; cbn [patched_of gargs_of expected fold_right] in *.
  - destruct fuel as [|k]; [lia|]. cbn [go_printf]. rewrite (span_lit_all post Hpost). cbn [go_extra].
    rewrite app_nil_r. reflexivity.
  - fold (patched_of r post) in *. fold (gargs_of r). fold (expected chars r post).
    destruct Hit as (Hwf & Hpre & Hlim & _ & _ & _ & Hpa).
    destruct fuel as [|k]; [lia|].
    assert (E : it_pre it ++ (37 :: tail_of (it_eff it) (it_verb it)) ++ patched_of r post
              = it_pre it ++ 37 :: (tail_of (it_eff it) (it_verb it) ++ patched_of r post)) by reflexivity.
    rewrite E in *. cbn [go_printf]. rewrite (span_lit_pre _ _ Hpre).
    unfold it_gargs. rewrite <- app_assoc. change ([it_g it] ++ gargs_of r) with (it_g it :: gargs_of r).
    destruct (eff_wf_lim (it_d it) (it_wv it) (it_pv it) Hwf Hlim) as (Ewf & Elim & _).
    destruct (go_directive_render (it_eff it) (it_wv it) (eff_pv (it_d it) (it_pv it)) (it_verb it) (it_g it) (gargs_of r)
                (patched_of r post) Ewf Elim (go_conv_byte_ok _)) as (f & Hst & Hdir).
    rewrite Hdir. rewrite (Hpa f Hst). rewrite IH.
    + reflexivity.
    + rewrite app_length in Hf. cbn [length] in Hf. rewrite app_length in Hf. lia.
Qed.

Theorem sprintf_items chars ffmt items post extra :
  Forall (item_ok chars ffmt) items -> no_pct post = true ->
  sprintf chars ffmt (fmt_of items post) (args_of items extra) = Ok (expected chars items post).
Proof.
  intros H Hpost. unfold sprintf, parse_fmt_types. rewrite (parse_items chars ffmt items post H Hpost 0).
  replace (zlen (tys_of items) >? zlen (args_of items extra)) with false
    by (symmetry; rewrite Z.gtb_ltb; apply Z.ltb_ge; apply tys_args_len).
  pose proof (conv_items chars ffmt extra post items H [] [] 0) as C.
  cbn [app] in C. change (zlen (@nil Z) + 0) with 0 in C. change (zlen (@nil value)) with 0 in C. rewrite C. cbn [rbind fst snd].
  unfold go_sprintf. apply (go_items chars ffmt items post H Hpost). lia.
Qed.

(* ---- which items are ok ---- *)
Theorem item_ok_int chars ffmt pre d wv pv aw ap a v :
  wf_dir d = true -> is_int_conv (d_conv d) = true -> no_pct pre = true -> lim d wv pv ->
  (d_width d = WStar -> awk_int (v_num aw) = Some wv) ->
  (d_prec d = PrStar -> awk_int (v_num ap) = Some pv) ->
  awk_int (v_num a) = Some v ->
  (conv_ty (d_conv d) = TyU -> - two63 <= v < two64) ->
  int_ok d (resolve d wv pv) v ->
  exists g, item_ok chars ffmt (mkItem pre d wv pv aw ap a g (AInt v)).
Proof.
  intros Hwf Hic Hpre Hlim Hw Hp Ha Hu Hok.
  destruct (int_arg_print chars ffmt d wv pv a v Hic Ha Hu Hok) as (g & Hg & Hpr). exists g.
  assert (Hfl : is_float_conv (d_conv d) = false /\ is_g (d_conv d) = false) by (destruct (d_conv d); try discriminate; split; reflexivity).
  destruct Hfl as [Hfl Hgg]. destruct (resolve_eff d wv pv Hfl Hgg) as (_ & _ & Eres & _).
  unfold item_ok, it_eff, it_verb. cbn [it_pre it_d it_wv it_pv it_aw it_ap it_a it_g it_c].
  split; [exact Hwf|]. split; [exact Hpre|]. split; [exact Hlim|]. split; [|split; [|split]].
  - intros E. apply conv_arg_d_in_range; [exact (Hw E)|]. destruct Hlim as [L _]. rewrite E in L. unfold two63. lia.
  - intros E. apply f2i64_awk_int; [exact (Hp E)|]. destruct Hlim as [_ L]. rewrite E in L. unfold two63 in *. lia.
  - exact Hg.
  - rewrite Eres. exact Hpr.
Qed.

Theorem item_ok_s chars ffmt pre d wv pv aw ap a s :
  wf_dir d = true -> d_conv d = Cs -> c_defined d = true -> no_pct pre = true -> lim d wv pv ->
  (d_width d = WStar -> awk_int (v_num aw) = Some wv) ->
  (d_prec d = PrStar -> awk_int (v_num ap) = Some pv) ->
  v_str ffmt a = Ok s ->
  ascii s = true \/ (d_width d = WNone /\ d_prec d = PrNone) ->
  item_ok chars ffmt (mkItem pre d wv pv aw ap a (GStr s) (AStr s)).
Proof.
  intros Hwf Hc Hdef Hpre Hlim Hw Hp Ha Hok.
  destruct (resolve_eff d wv pv ltac:(rewrite Hc; reflexivity) ltac:(rewrite Hc; reflexivity)) as (_ & _ & Eres & _).
  unfold item_ok, it_eff, it_verb. cbn [it_pre it_d it_wv it_pv it_aw it_ap it_a it_g it_c].
  split; [exact Hwf|]. split; [exact Hpre|]. split; [exact Hlim|]. split; [|split; [|split]].
  - intros E. apply conv_arg_d_in_range; [exact (Hw E)|]. destruct Hlim as [L _]. rewrite E in L. unfold two63. lia.
  - intros E. apply f2i64_awk_int; [exact (Hp E)|]. destruct Hlim as [_ L]. rewrite E in L. unfold two63 in *. lia.
  - rewrite Hc. cbn [conv_ty conv_arg]. rewrite Ha. reflexivity.
  - rewrite Eres. intros f Hst. unfold c_directive. unfold c_defined in Hdef. rewrite Hc in *.
    cbn [go_conv_byte print_arg Z.eqb Pos.eqb orb].
    apply andb_true_iff in Hdef as [_ H48]. apply negb_true_iff in H48.
    destruct Hok as [Hasc | [W0 P0]].
    + rewrite (fmt_s_ascii chars f _ s Hst (st_space_pad f d wv pv Hst H48) Hasc). reflexivity.
    + destruct (fmt_s_plain chars f (resolve d wv pv) s Hst) as [E1 E2].
      * unfold resolve. rewrite W0. reflexivity.
      * unfold resolve. rewrite P0. reflexivity.
      * rewrite E1, E2. reflexivity.
Qed.

Theorem item_ok_c chars ffmt pre d wv pv aw ap a ch :
  wf_dir d = true -> d_conv d = Cc -> c_defined d = true -> no_pct pre = true -> lim d wv pv ->
  (d_width d = WStar -> awk_int (v_num aw) = Some wv) ->
  conv_c chars ffmt a = Ok ch -> rune_count ch = 1 ->
  item_ok chars ffmt (mkItem pre d wv pv aw ap a (GBytes ch) (AChar ch)).
Proof.
  intros Hwf Hc Hdef Hpre Hlim Hw Ha H1.
  unfold c_defined in Hdef. rewrite Hc in Hdef. apply andb_true_iff in Hdef as [Hdef HP]. apply andb_true_iff in Hdef as [_ H48].
  apply negb_true_iff in H48. destruct (d_prec d) eqn:EP; try discriminate.
  destruct (resolve_eff d wv pv ltac:(rewrite Hc; reflexivity) ltac:(rewrite Hc; reflexivity)) as (_ & _ & Eres & _).
  unfold item_ok, it_eff, it_verb. cbn [it_pre it_d it_wv it_pv it_aw it_ap it_a it_g it_c].
  split; [exact Hwf|]. split; [exact Hpre|]. split; [exact Hlim|]. split; [|split; [|split]].
  - intros E. apply conv_arg_d_in_range; [exact (Hw E)|]. destruct Hlim as [L _]. rewrite E in L. unfold two63. lia.
  - rewrite EP. discriminate.
  - rewrite Hc. cbn [conv_ty conv_arg]. rewrite Ha. reflexivity.
  - rewrite Eres. intros f Hst. unfold c_directive. rewrite Hc. cbn [go_conv_byte print_arg Z.eqb Pos.eqb].
    rewrite (fmt_s_char f _ ch Hst (st_space_pad f d wv pv Hst H48)); [reflexivity | | exact H1].
    unfold resolve. rewrite EP. reflexivity.
Qed.
