(* C16: a static bound on the number of passes.  Every pass that is followed by
   another one has created a variable or determined a type; a table has one
   entry per parameter and per global variable of the program.  Hence with at
   most [cut/2] distinct variables and parameters the cut-off cannot fire. *)
From Verif Require Import Lib.Base Model.Resolver Proofs.Resolver Proofs.ResolverSound Proofs.ResolverExact.
Open Scope Z_scope.

Definition key_dec : forall a b : key, {a = b} + {a <> b}.
Proof. decide equality; apply (list_eq_dec Z.eq_dec). Defined.

Definition keys_of (c : constr) : list key :=
  match c with CIs k _ => [k] | CEq k1 k2 => [k1; k2] | CNotArr k => [k] end.

Definition prog_constraints (P : program) : list constr :=
  flat_map (fun fd => flat_map (constr_of_step P (f_name fd)) (flat_events (f_body fd))) (p_funcs P)
  ++ flat_map (constr_of_step P []) (flat_events (p_main P)).

Definition local_keys (P : program) : list key :=
  flat_map (fun fd => map (fun p => (f_name fd, p)) (f_params fd)) (p_funcs P).

(* every key the table can ever hold *)
Definition var_keys (P : program) : list key :=
  [gk n_ARGV; gk n_ENVIRON; gk n_FIELDS] ++ local_keys P ++ flat_map keys_of (prog_constraints P).

(* number of distinct parameters and global variables (ARGV, ENVIRON, FIELDS included) *)
Definition key_count (P : program) : Z := zlen (nodup key_dec (var_keys P)).

(* ---------- tables as lists ---------------------------------------------------------- *)

Definition isknown (t : ty) : Z := match t with TUnknown => 0 | _ => 1 end.
Fixpoint known_count (t : vtable) : Z :=
  match t with [] => 0 | (_, v) :: r => isknown v + known_count r end.
Definition mu (t : vtable) : Z := zlen t + known_count t.

Lemma get_None_keys t k : get t k = None <-> ~ In k (map fst t).
Proof.
  induction t as [|[k' v] t IH]; cbn [get map fst In].
  - split; [intros _ [] | reflexivity].
  - destruct (key_eqb k k') eqn:E.
    + apply key_eqb_eq in E. subst. split; [discriminate | intros H; exfalso; apply H; left; reflexivity].
    + apply key_eqb_neq in E. rewrite IH. split; [intros H [H1|H1]; [congruence | contradiction] | intros H H1; apply H; right; exact H1].
Qed.

Lemma put_absent t k v : get t k = None -> put t k v = t ++ [(k, v)].
Proof.
  induction t as [|[k' v'] t IH]; cbn [get put app]; [reflexivity|].
  destruct (key_eqb k k'); [discriminate|]. intros H. rewrite (IH H). reflexivity.
Qed.

Lemma put_present_keys t k v : get t k <> None -> map fst (put t k v) = map fst t.
Proof.
  induction t as [|[k' v'] t IH]; cbn [get put map fst]; [congruence|].
  destruct (key_eqb k k') eqn:E; cbn [map fst].
  - apply key_eqb_eq in E. subst. reflexivity.
  - intros H. rewrite (IH H). reflexivity.
Qed.

Lemma put_present_known t k v old :
  get t k = Some old -> known_count (put t k v) = known_count t - isknown old + isknown v.
Proof.
  induction t as [|[k' v'] t IH]; cbn [get put known_count]; [discriminate|].
  destruct (key_eqb k k') eqn:E; cbn [known_count].
  - intros H. injection H as ->. lia.
  - intros H. rewrite (IH H). lia.
Qed.

Lemma known_count_app a b : known_count (a ++ b) = known_count a + known_count b.
Proof. induction a as [|[k v] a IH]; cbn [app known_count]; [reflexivity | rewrite IH; lia]. Qed.

Lemma known_count_bounds t : 0 <= known_count t <= zlen t.
Proof.
  induction t as [|[k v] t IH]; cbn [known_count]; [unfold zlen; cbn; lia|].
  rewrite zlen_cons. destruct v; cbn [isknown]; lia.
Qed.

Lemma NoDup_snoc {A} (l : list A) x : NoDup l -> ~ In x l -> NoDup (l ++ [x]).
Proof.
  induction l as [|y l IH]; intros Hnd Hx; cbn [app]; [constructor; [intros [] | constructor]|].
  inversion Hnd as [|z l' Hy Hl]; subst. constructor.
  - intros Hin. apply in_app_or in Hin. destruct Hin as [Hin|[<-|[]]]; [contradiction|]. apply Hx. left; reflexivity.
  - apply IH; [exact Hl|]. intros Hin. apply Hx. right; exact Hin.
Qed.

(* ---------- the invariant ---------------------------------------------------------------- *)

Section Bound.
Variable P : program.
Hypothesis Hnodup : NoDup (fnames P).
Hypothesis Hnonempty : names_ok P.

Definition bounded (s : state) : Prop :=
  NoDup (map fst (st_vars s)) /\ incl (map fst (st_vars s)) (var_keys P) /\ st_updates s <= mu (st_vars s).

Lemma bounded_put_absent s k v :
  bounded s -> get (st_vars s) k = None -> In k (var_keys P) ->
  bounded {| st_vars := put (st_vars s) k v; st_updates := st_updates s + 1 |}.
Proof.
  intros [B1 [B2 B3]] G Hk. unfold bounded. cbn [st_vars st_updates]. rewrite (put_absent _ k v G).
  rewrite map_app. cbn [map fst]. split; [|split].
  - apply NoDup_snoc; [exact B1 | apply get_None_keys; exact G].
  - intros x Hx. apply in_app_or in Hx. destruct Hx as [Hx|[<-|[]]]; [apply B2; exact Hx | exact Hk].
  - unfold mu in *. rewrite zlen_app, known_count_app. cbn [known_count]. unfold zlen at 2. cbn [length].
    destruct v; cbn [isknown]; lia.
Qed.

Lemma bounded_put_known s k v :
  bounded s -> get (st_vars s) k = Some TUnknown -> v <> TUnknown ->
  bounded {| st_vars := put (st_vars s) k v; st_updates := st_updates s + 1 |}.
Proof.
  intros [B1 [B2 B3]] G Hv. unfold bounded. cbn [st_vars st_updates].
  assert (Hne : get (st_vars s) k <> None) by congruence.
  rewrite (put_present_keys _ k v Hne). split; [exact B1|]. split; [exact B2|].
  unfold mu in *. rewrite (put_present_known _ k v TUnknown G).
  assert (Hl : zlen (put (st_vars s) k v) = zlen (st_vars s)).
  { unfold zlen. f_equal. rewrite <- (map_length fst (put (st_vars s) k v)), (put_present_keys _ k v Hne). apply map_length. }
  rewrite Hl. destruct v; cbn [isknown]; try congruence; lia.
Qed.

Lemma record_var_bounded s cur v typ s' :
  inv P (st_vars s) -> bounded s ->
  (kspecial (scope_key P cur v) = false -> In (scope_key P cur v) (var_keys P)) ->
  record_var P s cur v typ = ROk s' -> bounded s'.
Proof.
  intros Hi Hb Hk H. unfold record_var in H. rewrite (lookup_spec P _ cur v Hi) in H. cbv zeta in H.
  set (k := scope_key P cur v) in *.
  assert (Hsnd : snd k = v) by apply scope_key_snd.
  destruct (kspecial k) eqn:Ek.
  - destruct (_ && _ && _); [discriminate|]. cbn [ty_eqb andb] in H. injection H as <-. exact Hb.
  - destruct (get (st_vars s) k) as [ity|] eqn:G.
    + assert (Hkk : (fst k, v) = k) by (destruct k; cbn in *; congruence). rewrite Hkk in H.
      destruct (_ && _ && _); [discriminate|].
      destruct (ty_eqb ity TUnknown && negb (ty_eqb typ TUnknown)) eqn:C; injection H as <-; [|exact Hb].
      apply andb_true_iff in C. destruct C as [C1 C2]. apply ty_eqb_eq in C1. subst ity.
      apply negb_true_iff in C2. apply ty_eqb_neq in C2.
      apply bounded_put_known; assumption.
    + destruct (is_func P v); [discriminate|]. injection H as <-.
      assert (Hkg : k = gk v).
      { unfold k. destruct (scope_key_cases P cur v) as [[Hc [Hp E]]|[_ E]]; [|exact E].
        exfalso. fold k in E. rewrite E in G. apply (local_present P _ cur v Hi Hc Hp). exact G. }
      norm. rewrite <- Hkg. apply bounded_put_absent; [exact Hb | exact G | apply Hk; reflexivity].
Qed.

Lemma constraint_keys c k :
  In c (constraints P) -> In k (keys_of c) -> kspecial k = false -> In k (var_keys P).
Proof.
  intros Hc Hk Hs. unfold constraints in Hc. apply in_app_or in Hc. destruct Hc as [Hc|Hc].
  - apply in_base_constraints in Hc. destruct Hc as [[v [Hv ->]]|[v [Hv ->]]]; cbn [keys_of In] in Hk; destruct Hk as [<-|[]].
    + unfold var_keys. apply in_or_app. left. cbn [In] in *. destruct Hv as [<-|[<-|[<-|[]]]]; auto.
    + unfold kspecial in Hs. cbn [fst snd is_empty andb] in Hs. congruence.
  - unfold var_keys. apply in_or_app. right. apply in_or_app. right.
    apply in_flat_map. exists c. split; [exact Hc | exact Hk].
Qed.

Lemma visit_step_bounded cur s st s' :
  state_ok P s -> step_in P cur st -> bounded s ->
  visit_step P cur s st = ROk s' -> bounded s'.
Proof.
  intros [Hi Hf] Hin Hb H. destruct st as [v t|f nargs|f i|f i v]; cbn [visit_step] in H.
  - eapply record_var_bounded; [exact Hi | exact Hb | | exact H].
    apply (constraint_keys (CIs (scope_key P cur v) t)); [apply Hin; left; reflexivity | left; reflexivity].
  - assert (s' = s); [|subst; exact Hb].
    destruct (match lookup_var (st_vars s) cur f with Some (_, _, vf) => negb (is_empty vf) | None => false end); [discriminate|].
    destruct (func_info P f) as [fi|]; [|discriminate].
    destruct (fi_native fi).
    + destruct (find_native (p_natives P) f) as [nt|]; [|discriminate].
      destruct (n_func nt); cbn [negb] in H; [|discriminate].
      destruct (_ <? nargs); [discriminate | congruence].
    + destruct (_ <? nargs); [discriminate | congruence].
  - assert (s' = s); [|subst; exact Hb].
    destruct (func_info P f) as [fi|]; [|discriminate].
    destruct (fi_native fi); [congruence|].
    destruct (nth_error (fi_params fi) i) as [p|]; [|discriminate].
    destruct (get_or_unknown (st_vars s) (f, p)); congruence.
  - destruct (func_info P f) as [fi|] eqn:Efi; [|discriminate].
    destruct (fi_native fi) eqn:En.
    + eapply record_var_bounded; [exact Hi | exact Hb | | exact H].
      apply (constraint_keys (CIs (scope_key P cur v) TScalar)); [|left; reflexivity].
      apply Hin. cbn [constr_of_step]. rewrite Efi, En. left; reflexivity.
    + destruct (nth_error (fi_params fi) i) as [p|] eqn:Ep; [|discriminate].
      destruct (func_info_awk P Hnonempty f fi Efi En) as [Hfn [Hpar _]].
      assert (Hpin : In p (params_of P f)) by (rewrite <- Hpar; eapply nth_error_In; eassumption).
      assert (Hceq : In (CEq (scope_key P cur v) (f, p)) (constraints P)).
      { apply Hin. cbn [constr_of_step]. rewrite Efi, En, Ep. left; reflexivity. }
      assert (Hkv : kspecial (scope_key P cur v) = false -> In (scope_key P cur v) (var_keys P)).
      { apply (constraint_keys _ _ Hceq). left; reflexivity. }
      assert (Hkp : kspecial (scope_key P f p) = false -> In (scope_key P f p) (var_keys P)).
      { rewrite (scope_key_param P f p Hfn Hpin). apply (constraint_keys _ _ Hceq). right; left; reflexivity. }
      destruct (_ && _); [exact (record_var_bounded s cur v _ s' Hi Hb Hkv H)|].
      destruct (_ && _); [exact (record_var_bounded s f p _ s' Hi Hb Hkp H)|].
      destruct (_ && _ && _); [discriminate|]. exact (record_var_bounded s cur v _ s' Hi Hb Hkv H).
Qed.

Lemma run_steps_bounded cur l s s' :
  state_ok P s -> Forall (step_in P cur) l -> bounded s ->
  run_steps P cur l s = ROk s' -> bounded s'.
Proof.
  revert s. induction l as [|st l IH]; intros s Hok Hin Hb H; cbn [run_steps] in H.
  - injection H as <-. exact Hb.
  - inversion Hin as [|x y Hin1 Hin2]; subst.
    destruct (visit_step P cur s st) as [s1| | |] eqn:E; try discriminate.
    destruct (visit_step_ok P Hnonempty cur s st s1 Hok Hin1 E) as [Hok1 _].
    eapply IH; [exact Hok1 | exact Hin2 | exact (visit_step_bounded cur s st s1 Hok Hin1 Hb E) | exact H].
Qed.

Lemma walk_funcs_bounded order s s' :
  state_ok P s -> bounded s -> walk_funcs P order s = ROk s' -> bounded s'.
Proof.
  revert s. induction order as [|fn order IH]; intros s Hok Hb H; cbn [walk_funcs] in H.
  - injection H as <-. exact Hb.
  - destruct (is_empty fn); [eapply IH; eassumption|].
    destruct (find_func P fn) as [[i0 fd0]|] eqn:Ef; [|eapply IH; eassumption].
    destruct (run_steps P fn (flat_events (f_body fd0)) s) as [s1| | |] eqn:E; try discriminate.
    destruct (find_func_In P fn i0 fd0 Ef) as [Hin0 Hname0].
    assert (Hsi : Forall (step_in P fn) (flat_events (f_body fd0))) by (rewrite <- Hname0; apply body_steps_in; exact Hin0).
    destruct (run_steps_ok P Hnonempty fn _ s s1 Hok Hsi E) as [Hok1 _].
    eapply IH; [exact Hok1 | exact (run_steps_bounded fn _ s s1 Hok Hsi Hb E) | exact H].
Qed.

Lemma walk_ordered_bounded order s s' :
  state_ok P s -> bounded s -> walk_ordered P order s = ROk s' -> bounded s'.
Proof.
  intros Hok Hb H. unfold walk_ordered in H.
  destruct (walk_funcs P order s) as [s1| | |] eqn:E; try discriminate.
  destruct (walk_funcs_ok P Hnonempty order s s1 Hok E) as [Hok1 _].
  eapply run_steps_bounded; [exact Hok1 | apply main_steps_in | exact (walk_funcs_bounded order s s1 Hok Hb E) | exact H].
Qed.

Lemma bounded_updates s : bounded s -> st_updates s <= 2 * key_count P.
Proof.
  intros [B1 [B2 B3]].
  assert (Hl : zlen (st_vars s) <= key_count P).
  { unfold key_count, zlen. apply inj_le. rewrite <- (map_length fst (st_vars s)).
    apply NoDup_incl_length; [exact B1|]. intros x Hx. apply nodup_In. apply B2. exact Hx. }
  pose proof (known_count_bounds (st_vars s)). unfold mu in B3. lia.
Qed.

(* a pass never reports the cut-off itself *)
Lemma record_var_not_toomany s c x t : record_var P s c x t <> RErr ETooManyIter.
Proof.
  unfold record_var. destruct (lookup_var _ _ _) as [[[? ?] ?]|];
    [destruct (_ && _ && _); [discriminate|]; destruct (_ && _); discriminate | destruct (is_func P x); discriminate].
Qed.

Lemma run_steps_not_toomany cur l s : run_steps P cur l s <> RErr ETooManyIter.
Proof.
  revert s. induction l as [|st l IH]; intros s; cbn [run_steps]; [discriminate|].
  destruct (visit_step P cur s st) as [s'|e| |] eqn:E; try discriminate; [apply IH|].
  intros Hx. injection Hx as ->.
  destruct st as [v t|f n|f i|f i v]; cbn [visit_step] in E.
  - exact (record_var_not_toomany _ _ _ _ E).
  - destruct (match lookup_var (st_vars s) cur f with Some (_, _, vf) => negb (is_empty vf) | None => false end); [discriminate|].
    destruct (func_info P f) as [fi|]; [|discriminate]. destruct (fi_native fi).
    + destruct (find_native (p_natives P) f) as [nt|]; [|discriminate].
      destruct (n_func nt); cbn [negb] in E; [|discriminate]. destruct (_ <? n); discriminate.
    + destruct (_ <? n); discriminate.
  - destruct (func_info P f) as [fi|]; [|discriminate]. destruct (fi_native fi); [discriminate|].
    destruct (nth_error (fi_params fi) i); [|discriminate]. destruct (get_or_unknown _ _); discriminate.
  - destruct (func_info P f) as [fi|]; [|discriminate]. destruct (fi_native fi); [exact (record_var_not_toomany _ _ _ _ E)|].
    destruct (nth_error (fi_params fi) i); [|discriminate].
    destruct (_ && _); [exact (record_var_not_toomany _ _ _ _ E)|].
    destruct (_ && _); [exact (record_var_not_toomany _ _ _ _ E)|].
    destruct (_ && _ && _); [discriminate | exact (record_var_not_toomany _ _ _ _ E)].
Qed.

Lemma walk_funcs_not_toomany order s : walk_funcs P order s <> RErr ETooManyIter.
Proof.
  revert s. induction order as [|fn order IH]; intros s; cbn [walk_funcs]; [discriminate|].
  destruct (is_empty fn); [apply IH|]. destruct (find_func P fn) as [[i fd]|]; [|apply IH].
  destruct (run_steps P fn (flat_events (f_body fd)) s) eqn:E; try discriminate; [apply IH|].
  intros Hx. injection Hx as ->. exact (run_steps_not_toomany _ _ _ E).
Qed.

Lemma walk_ordered_not_toomany order s : walk_ordered P order s <> RErr ETooManyIter.
Proof.
  unfold walk_ordered. destruct (walk_funcs P order s) eqn:E; try discriminate.
  - apply run_steps_not_toomany.
  - intros Hx. injection Hx as ->. exact (walk_funcs_not_toomany _ _ E).
Qed.

(* when the cut-off fires, that many updating passes have happened *)
Lemma pass_loop_toomany order k s u :
  state_ok P s -> bounded s -> u <= st_updates s ->
  pass_loop P order k s u = RErr ETooManyIter -> u + Z.of_nat k + 1 <= 2 * key_count P.
Proof.
  revert s u. induction k as [|k IH]; intros s u Hok Hb Hu H; cbn [pass_loop] in H.
  - destruct (st_updates s =? u) eqn:E; [discriminate|]. apply Z.eqb_neq in E.
    pose proof (bounded_updates s Hb). lia.
  - destruct (st_updates s =? u) eqn:E; [discriminate|]. apply Z.eqb_neq in E.
    destruct (walk_ordered P order s) as [s1|e| |] eqn:Ew; try discriminate.
    2:{ injection H as ->. exfalso. exact (walk_ordered_not_toomany _ _ Ew). }
    destruct (walk_ordered_ok P Hnonempty order s s1 Hok Ew) as [Hok1 [Hm _]].
    pose proof (walk_ordered_bounded order s s1 Hok Hb Ew) as Hb1.
    specialize (IH s1 (st_updates s) Hok1 Hb1 Hm H). lia.
Qed.

(* the initial table *)
Lemma put_nodup t k v : NoDup (map fst t) -> NoDup (map fst (put t k v)).
Proof.
  intros H. destruct (get t k) eqn:G.
  - rewrite put_present_keys; [exact H | congruence].
  - rewrite (put_absent t k v G), map_app. cbn [map fst].
    apply NoDup_snoc; [exact H | apply get_None_keys; exact G].
Qed.

Lemma init_vars_nodup : NoDup (map fst (init_vars P)).
Proof.
  unfold init_vars.
  assert (G : forall fs t, NoDup (map fst t) ->
            NoDup (map fst (fold_left (fun t fd => fold_left (fun t p => put t (f_name fd, p) TUnknown) (f_params fd) t) fs t))).
  { induction fs as [|fd fs IH]; intros t Ht; cbn [fold_left]; [exact Ht|]. apply IH.
    generalize (f_params fd). intros ps. revert t Ht. induction ps as [|p ps IHp]; intros t Ht; cbn [fold_left]; [exact Ht|].
    apply IHp. apply put_nodup. exact Ht. }
  apply G. constructor.
Qed.

Lemma init_bounded : bounded {| st_vars := init_vars P; st_updates := 0 |}.
Proof.
  split; [apply init_vars_nodup|]. cbn [st_vars st_updates]. split.
  - intros k Hk. assert (G : get (init_vars P) k <> None) by (intros E; apply get_None_keys in E; contradiction).
    unfold init_vars in G. rewrite get_init_vars_from in G. cbn [get] in G.
    destruct (existsb _ (p_funcs P)) eqn:E; [|congruence].
    apply existsb_exists in E. destruct E as [fd [Hfd E]]. apply existsb_exists in E. destruct E as [p [Hp E]].
    apply key_eqb_eq in E. subst k. unfold var_keys. apply in_or_app. right. apply in_or_app. left.
    unfold local_keys. apply in_flat_map. exists fd. split; [exact Hfd|]. apply in_map. exact Hp.
  - pose proof (known_count_bounds (init_vars P)). pose proof (zlen_nonneg (init_vars P)). unfold mu. lia.
Qed.

Lemma builtin_key_in (v : name) : In v [n_ARGV; n_ENVIRON; n_FIELDS] ->
  kspecial (scope_key P [] v) = false -> In (scope_key P [] v) (var_keys P).
Proof.
  intros Hv _. assert (Hk : scope_key P [] v = gk v) by reflexivity. rewrite Hk.
  unfold var_keys. apply in_or_app. left. cbn [In] in *. destruct Hv as [<-|[<-|[<-|[]]]]; auto.
Qed.

(* STATIC BOUND: with at most cut/2 distinct variables and parameters the
   iteration cut-off cannot fire *)
Theorem resolve_order_no_cutoff cut order :
  2 * key_count P <= Z.of_nat cut -> resolve_order cut order P <> RErr ETooManyIter.
Proof.
  intros Hc H. unfold resolve_order in H.
  destruct (first_dup [] (fnames P)); [discriminate|].
  set (s0 := {| st_vars := init_vars P; st_updates := 0 |}) in *.
  pose proof (init_state_ok P Hnodup Hnonempty) as Hok0. fold s0 in Hok0.
  pose proof init_bounded as Hb0. fold s0 in Hb0.
  destruct (record_var P s0 [] n_ARGV TArray) as [s1|e1| |] eqn:E1; cbn [rbind2] in H; try discriminate.
  2:{ injection H as ->. exact (record_var_not_toomany _ _ _ _ E1). }
  destruct (record_var_ok P s0 [] n_ARGV TArray s1 Hok0 (base_justified P n_ARGV ltac:(cbn; auto)) E1) as [Hok1 [M1 _]].
  pose proof (record_var_bounded s0 [] n_ARGV TArray s1 (proj1 Hok0) Hb0 (builtin_key_in n_ARGV ltac:(cbn; auto)) E1) as Hb1.
  destruct (record_var P s1 [] n_ENVIRON TArray) as [s2|e2| |] eqn:E2; cbn [rbind2] in H; try discriminate.
  2:{ injection H as ->. exact (record_var_not_toomany _ _ _ _ E2). }
  destruct (record_var_ok P s1 [] n_ENVIRON TArray s2 Hok1 (base_justified P n_ENVIRON ltac:(cbn; auto)) E2) as [Hok2 [M2 _]].
  pose proof (record_var_bounded s1 [] n_ENVIRON TArray s2 (proj1 Hok1) Hb1 (builtin_key_in n_ENVIRON ltac:(cbn; auto)) E2) as Hb2.
  destruct (record_var P s2 [] n_FIELDS TArray) as [s3|e3| |] eqn:E3; cbn [rbind2] in H; try discriminate.
  2:{ injection H as ->. exact (record_var_not_toomany _ _ _ _ E3). }
  destruct (record_var_ok P s2 [] n_FIELDS TArray s3 Hok2 (base_justified P n_FIELDS ltac:(cbn; auto)) E3) as [Hok3 [M3 _]].
  pose proof (record_var_bounded s2 [] n_FIELDS TArray s3 (proj1 Hok2) Hb2 (builtin_key_in n_FIELDS ltac:(cbn; auto)) E3) as Hb3.
  destruct (walk_ordered P order s3) as [s4|e4| |] eqn:E4; cbn [rbind2] in H; try discriminate.
  2:{ injection H as ->. exact (walk_ordered_not_toomany _ _ E4). }
  destruct (walk_ordered_ok P Hnonempty order s3 s4 Hok3 E4) as [Hok4 [M4 _]].
  pose proof (walk_ordered_bounded order s3 s4 Hok3 Hb3 E4) as Hb4.
  destruct (pass_loop P order cut s4 (st_updates s3)) as [s5|e5| |] eqn:E5; cbn [rbind2] in H; try discriminate.
  injection H as ->.
  pose proof (pass_loop_toomany order cut s4 (st_updates s3) Hok4 Hb4 M4 E5) as Hbound.
  unfold s0 in M1. cbn [st_updates] in M1. lia.
Qed.

End Bound.
