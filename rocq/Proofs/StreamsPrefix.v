(* C13 proofs, part 7: standard output under a failing writer.  Whatever the
   history, the writer has received a prefix of the issued stream: nothing is
   reordered, duplicated or corrupted, and at the end of the run it has
   received everything or exactly its first k bytes. *)
From Verif Require Import Lib.Base Model.Streams Proofs.StreamsBase Proofs.StreamsSpec.

Section Prefix.
Variable L : nat.   (* the writer accepts L bytes *)

(* the issued stream X as seen through a bufio.Writer w over sink k *)
Definition view (w : bw) (k : sink) (X : bytes) : Prop :=
  sk_limit k = Some L /\ (length (sk_data k) <= L)%nat /\
  exists rest, X = sk_data k ++ rest /\ ((bw_err w = false /\ rest = bw_buf w) \/ length (sk_data k) = L).

Definition full (k : sink) : Prop := length (sk_data k) = L.

Lemma view_ext w k X y : view w k X -> full k -> view w k (X ++ y).
Proof.
  intros (Hl & Hle & rest & HX & _) Hf. repeat split; auto. exists (rest ++ y). split; auto.
  rewrite HX, app_assoc. auto.
Qed.

Lemma view_err w k X : view w k X -> bw_err w = true -> full k.
Proof. intros (_ & _ & rest & _ & [[He _]|Hf]) H; auto. congruence. Qed.

Lemma sink_write_limit k p k' n ok : sk_limit k = Some L -> (length (sk_data k) <= L)%nat -> sink_write k p = (k', n, ok) ->
  sk_limit k' = Some L /\ (length (sk_data k') <= L)%nat /\ sk_data k' = sk_data k ++ firstn n p /\
  (ok = true -> n = length p) /\ (ok = false -> full k').
Proof.
  intros Hl Hle. unfold sink_write, full. rewrite Hl. cbv beta iota.
  destruct (length p <=? L - length (sk_data k))%nat eqn:E; intros H; injection H as <- <- <-; cbn [sk_limit sk_data].
  - apply Nat.leb_le in E. rewrite firstn_all, app_length. repeat split; auto; try discriminate; lia.
  - apply Nat.leb_gt in E. rewrite app_length, firstn_length. repeat split; auto; try discriminate; lia.
Qed.

Lemma bw_flush_view w k X w' k' ok : view w k X -> bw_flush w k = (w', k', ok) ->
  view w' k' X /\ (ok = false -> full k') /\ (ok = true -> bw_err w' = false /\ bw_buf w' = []) /\ (full k -> full k').
Proof.
  intros Hv. unfold bw_flush. destruct (bw_err w) eqn:Ee.
  - intros H; injection H as <- <- <-. split; [auto|split; [intros _; eapply view_err; eauto|split; [discriminate|auto]]].
  - destruct (bw_buf w) as [|b buf] eqn:Eb.
    + intros H; injection H as <- <- <-. split; [auto|split; [discriminate|split; [auto|auto]]].
    + destruct Hv as (Hl & Hle & rest & HX & Hd).
      destruct (sink_write k (b :: buf)) as [[k1 n] ok1] eqn:Ew.
      destruct (sink_write_limit _ _ _ _ _ Hl Hle Ew) as (Hl1 & Hle1 & Hd1 & Hok & Hfail).
      assert (Hfull : full k -> full k1).
      { unfold full. intros Hf. rewrite Hd1, app_length in *. lia. }
      destruct ok1; intros H; injection H as <- <- <-.
      * split; [|repeat split; auto; discriminate]. repeat split; auto.
        destruct Hd as [[_ Hr]|Hf].
        -- exists []. split; [|left; auto]. rewrite HX, Hr, Eb, Hd1, (Hok eq_refl), firstn_all, app_nil_r. auto.
        -- exists rest. split; [|right; apply Hfull; auto].
           assert (firstn n (b :: buf) = []) by (apply length_zero_iff_nil; unfold full in Hf; rewrite Hd1, app_length in Hle1; lia).
           rewrite HX, Hd1, H, app_nil_r. auto.
      * split; [|repeat split; auto; discriminate]. repeat split; auto.
        destruct Hd as [[_ Hr]|Hf].
        -- exists (skipn n (b :: buf)). split; [|right; apply Hfail; auto].
           rewrite HX, Hr, Eb, Hd1, <- app_assoc, firstn_skipn. auto.
        -- exists rest. split; [|right; apply Hfull; auto].
           assert (firstn n (b :: buf) = []) by (apply length_zero_iff_nil; unfold full in Hf; rewrite Hd1, app_length in Hle1; lia).
           rewrite HX, Hd1, H, app_nil_r. auto.
Qed.

Lemma bw_flush_false_err w k w' k' : bw_flush w k = (w', k', false) -> bw_err w' = true.
Proof.
  unfold bw_flush. destruct (bw_err w) eqn:Ee; [intros H; injection H as <- <-; auto|].
  destruct (bw_buf w); [discriminate|]. destruct (sink_write k _) as [[k1 n] [|]]; [discriminate|].
  intros H; injection H as <- <-. auto.
Qed.

Lemma view_push w k X b : view w k X -> view {| bw_buf := bw_buf w ++ [b]; bw_err := bw_err w |} k (X ++ [b]).
Proof.
  intros (Hl & Hle & rest & HX & Hd). repeat split; auto. exists (rest ++ [b]). split.
  - rewrite HX, app_assoc. auto.
  - destruct Hd as [[He Hr]|Hf]; [left|right; auto]. cbn. rewrite Hr. auto.
Qed.

Lemma bw_bytes_view cap p : forall w k X w' k' ok, view w k X -> bw_bytes cap w k p = (w', k', ok) ->
  view w' k' (X ++ p) /\ (ok = false -> full k') /\ (full k -> full k').
Proof.
  induction p as [|b p IH]; intros w k X w' k' ok Hv; cbn [bw_bytes].
  - intros H; injection H as <- <- <-. rewrite app_nil_r. split; [auto|split; [discriminate|auto]].
  - replace (X ++ b :: p) with ((X ++ [b]) ++ p) by (rewrite <- app_assoc; auto).
    destruct (cap <=? length (bw_buf w))%nat.
    + destruct (bw_flush w k) as [[w1 k1] ok1] eqn:Ef.
      destruct (bw_flush_view _ _ _ _ _ _ Hv Ef) as (Hv1 & Hfail & Hok & Hfull).
      destruct ok1.
      * intros H. destruct (IH _ _ _ _ _ _ (view_push _ _ _ b Hv1) H) as (A & B & C). split; [auto|split; auto].
      * intros H; injection H as <- <- <-. split; [|split; auto].
        rewrite <- app_assoc. apply view_ext; auto.
    + intros H. destruct (IH _ _ _ _ _ _ (view_push _ _ _ b Hv) H) as (A & B & C). split; [auto|split; auto].
Qed.

Lemma bw_write_string_view cap p w k X w' k' ok : view w k X -> bw_write_string cap w k p = (w', k', ok) ->
  view w' k' (X ++ p) /\ (ok = false -> full k') /\ (full k -> full k').
Proof.
  intros Hv. unfold bw_write_string. destruct (bw_err w) eqn:Ee.
  - intros H; injection H as <- <- <-. pose proof (view_err _ _ _ Hv Ee). split; [apply view_ext; auto|split; auto].
  - apply bw_bytes_view; auto.
Qed.


Lemma write_pieces_buf_view cap ps : forall w k X w' k' ok, view w k X -> write_pieces_buf cap w k ps = (w', k', ok) ->
  view w' k' (X ++ concat ps) /\ (ok = false -> full k') /\ (full k -> full k').
Proof.
  induction ps as [|p ps IH]; intros w k X w' k' ok Hv; cbn [write_pieces_buf concat].
  - intros H; injection H as <- <- <-. rewrite app_nil_r. split; [auto|split; [discriminate|auto]].
  - destruct (bw_write_string cap w k p) as [[w1 k1] ok1] eqn:Ew.
    destruct (bw_write_string_view _ _ _ _ _ _ _ _ Hv Ew) as (A & B & C). rewrite app_assoc. destruct ok1.
    + intros H. destruct (IH _ _ _ _ _ _ A H) as (A2 & B2 & C2). split; [auto|split; auto].
    + intros H; injection H as <- <- <-. split; [apply view_ext; auto|split; auto].
Qed.

(* an unbuffered Output: the bufio.Writer is unused and stays empty *)
Lemma sink_write_view w k X p k' n ok : bw_buf w = [] -> bw_err w = false -> view w k X -> sink_write k p = (k', n, ok) ->
  view w k' (X ++ p) /\ (ok = false -> full k') /\ (full k -> full k').
Proof.
  intros Hb He (Hl & Hle & rest & HX & Hd) Ew.
  destruct (sink_write_limit _ _ _ _ _ Hl Hle Ew) as (Hl1 & Hle1 & Hd1 & Hok & Hfail).
  assert (Hfull : full k -> full k').
  { unfold full. intros Hf. rewrite Hd1, app_length in *. lia. }
  split; [|split; auto]. repeat split; auto.
  destruct Hd as [[_ Hr]|Hf].
  - rewrite Hb in Hr. subst rest. rewrite app_nil_r in HX. destruct ok.
    + exists []. split; [|left; auto]. rewrite HX, Hd1, (Hok eq_refl), firstn_all, app_nil_r. auto.
    + exists (skipn n p). split; [|right; apply Hfail; auto]. rewrite HX, Hd1, <- app_assoc, firstn_skipn. auto.
  - exists (rest ++ p). split; [|right; apply Hfull; auto].
    assert (firstn n p = []) by (apply length_zero_iff_nil; unfold full in Hf; rewrite Hd1, app_length in Hle1; lia).
    rewrite HX, Hd1, H, app_nil_r, app_assoc. auto.
Qed.

Lemma view_any w w' k X : view w k X -> full k -> view w' k X.
Proof. intros (Hl & Hle & rest & HX & _) Hf. repeat split; auto. exists rest. auto. Qed.

Lemma view_append w k X q : view w k X -> bw_err w = false ->
  view {| bw_buf := bw_buf w ++ q; bw_err := false |} k (X ++ q).
Proof.
  intros (Hl & Hle & rest & HX & Hd) He. repeat split; auto. exists (rest ++ q). split.
  - rewrite HX, app_assoc. auto.
  - destruct Hd as [[_ Hr]|Hf]; [left; cbn; rewrite Hr; auto|right; auto].
Qed.

Lemma bw_direct_view w k X p w' k' ok : bw_buf w = [] -> bw_err w = false -> view w k X ->
  bw_direct w k p = (w', k', ok) ->
  view w' k' (X ++ p) /\ (ok = false -> full k') /\ (full k -> full k').
Proof.
  intros Hb He Hv. unfold bw_direct. destruct (sink_write k p) as [[k1 n] ok1] eqn:Ew.
  destruct (sink_write_view _ _ _ _ _ _ _ Hb He Hv Ew) as (A & B & C). destruct ok1; intros H; injection H as <- <- <-.
  - split; [auto|split; auto].
  - split; [eapply view_any; eauto|split; auto].
Qed.

(* bufio.Writer.Write, as the goroutine copying a child's output calls it *)
Lemma bw_write_view cap p w k X w' k' ok : view w k X -> bw_write cap w k p = (w', k', ok) ->
  view w' k' (X ++ p) /\ (ok = false -> full k') /\ (full k -> full k').
Proof.
  intros Hv. unfold bw_write. destruct (bw_err w) eqn:Ee.
  - intros H; injection H as <- <- <-. pose proof (view_err _ _ _ Hv Ee). split; [apply view_ext; auto|split; auto].
  - destruct (length p <=? cap - length (bw_buf w))%nat.
    + intros H; injection H as <- <- <-. split; [apply view_append; auto|split; [discriminate|auto]].
    + destruct (bw_buf w) as [|b0 buf] eqn:Eb.
      * apply bw_direct_view; auto.
      * set (a := (cap - length (b0 :: buf))%nat).
        pose proof (view_append w k X (firstn a p) Hv Ee) as Hv0. rewrite Eb in Hv0.
        destruct (bw_flush {| bw_buf := (b0 :: buf) ++ firstn a p; bw_err := false |} k) as [[w1 k1] ok1] eqn:Ef.
        destruct (bw_flush_view _ _ _ _ _ _ Hv0 Ef) as (A & Bf & Cok & Cfull).
        assert (Hsplit : (X ++ firstn a p) ++ skipn a p = X ++ p) by (rewrite <- app_assoc, firstn_skipn; auto).
        destruct ok1.
        -- destruct (Cok eq_refl) as (He1 & Hb1).
           destruct (length (skipn a p) <=? cap)%nat.
           ++ intros H; injection H as <- <- <-. split; [|split; [discriminate|auto]].
              pose proof (view_append w1 k1 _ (skipn a p) A He1) as Hv2. rewrite Hb1, Hsplit in Hv2. exact Hv2.
           ++ intros H. destruct (bw_direct_view _ _ _ _ _ _ _ Hb1 He1 A H) as (A2 & B2 & C2). rewrite Hsplit in A2.
              split; [auto|split; auto].
        -- intros H; injection H as <- <- <-. rewrite <- Hsplit. split; [apply view_ext; auto|split; auto].
Qed.

Lemma write_chunks_buf_view cap cs : forall w k X w' k' ok, view w k X -> write_chunks_buf cap w k cs = (w', k', ok) ->
  view w' k' (X ++ concat cs) /\ (ok = false -> full k') /\ (full k -> full k').
Proof.
  induction cs as [|c cs IH]; intros w k X w' k' ok Hv; cbn [write_chunks_buf concat].
  - intros H; injection H as <- <- <-. rewrite app_nil_r. split; [auto|split; [discriminate|auto]].
  - destruct (bw_write cap w k c) as [[w1 k1] ok1] eqn:Ew.
    destruct (bw_write_view _ _ _ _ _ _ _ _ Hv Ew) as (A & B & C). rewrite app_assoc. destruct ok1.
    + intros H. destruct (IH _ _ _ _ _ _ A H) as (A2 & B2 & C2). split; [auto|split; auto].
    + intros H; injection H as <- <- <-. split; [apply view_ext; auto|split; auto].
Qed.

Lemma write_pieces_direct_view w ps : bw_buf w = [] -> bw_err w = false -> forall k X k' ok, view w k X ->
  write_pieces_direct k ps = (k', ok) -> view w k' (X ++ concat ps) /\ (ok = false -> full k') /\ (full k -> full k').
Proof.
  intros Hb He. induction ps as [|p ps IH]; intros k X k' ok Hv; cbn [write_pieces_direct concat].
  - intros H; injection H as <- <-. rewrite app_nil_r. split; [auto|split; [discriminate|auto]].
  - destruct (sink_write k p) as [[k1 n] ok1] eqn:Ew.
    destruct (sink_write_view _ _ _ _ _ _ _ Hb He Hv Ew) as (A & B & C). rewrite app_assoc. destruct ok1.
    + intros H. destruct (IH _ _ _ _ A H) as (A2 & B2 & C2). split; [auto|split; auto].
    + intros H; injection H as <- <-. split; [apply view_ext; auto|split; auto].
Qed.

(* ---- the invariant on states ---- *)
Variable E : env.

Definition pinv (s : state) : Prop :=
  view (st_out s) (st_sink s) (expected_stdout (st_log s)) /\
  (match e_mode E with Buf _ => True | _ => bw_buf (st_out s) = [] /\ bw_err (st_out s) = false end) /\
  (forall n o, In (n, o) (st_outs s) -> os_cgfail o = true -> full (st_sink s)).

Definition sfull (s : state) : Prop := full (st_sink s).

(* s' is s with, possibly, different ghost flags *)
Lemma pinv_frame s s' : st_out s' = st_out s -> st_sink s' = st_sink s -> st_outs s' = st_outs s -> st_log s' = st_log s ->
  pinv s -> pinv s'.
Proof. intros H1 H2 H3 H4. unfold pinv. rewrite H1, H2, H3, H4. auto. Qed.

Lemma touch_eq s : st_out (touch E s) = st_out s /\ st_sink (touch E s) = st_sink s /\ st_outs (touch E s) = st_outs s /\
  st_log (touch E s) = st_log s.
Proof.
  unfold touch. destruct (negb (is_osfile (e_mode E)) && any_active (st_outs s)); cbn [st_outs set_overlap];
  match goal with |- context [if ?c then set_unmod _ else _] => destruct c end; cbn; auto.
Qed.

Lemma pinv_touch s : pinv s -> pinv (touch E s).
Proof. destruct (touch_eq s) as (A & B & C & D). apply pinv_frame; auto. Qed.

(* what every helper guarantees: the invariant, a full sink stays full, the table is untouched *)
Definition step_ok (s s' : state) : Prop :=
  pinv s' /\ (sfull s -> sfull s') /\ st_outs s' = st_outs s.

Lemma flush_stdout_pinv s : pinv s -> step_ok s (fst (flush_stdout E s)) /\ (snd (flush_stdout E s) = false -> sfull (fst (flush_stdout E s))).
Proof.
  intros Hp. unfold flush_stdout, step_ok. destruct (e_mode E) eqn:Em; cbn [fst snd]; try (split; [split; [auto|split; auto]|discriminate]).
  pose proof (pinv_touch s Hp) as Hp1. destruct (touch_eq s) as (A & B & C & D). unfold sfull. rewrite <- B, <- C.
  set (s1 := touch E s) in *. destruct Hp1 as (Hv & Hm & Hc).
  destruct (bw_flush (st_out s1) (st_sink s1)) as [[w k] ok] eqn:Ef. cbn [fst snd].
  destruct (bw_flush_view _ _ _ _ _ _ Hv Ef) as (Hv1 & Hfail & _ & Hfull).
  split; [split; [|split; [exact Hfull|reflexivity]]|exact Hfail].
  unfold pinv. cbn [st_out st_sink st_outs st_log set_out]. rewrite Em. split; [exact Hv1|split; [auto|]].
  intros n o Hin Hcg. apply Hfull. eapply Hc; eauto.
Qed.

Lemma flush_out_err_pinv s : pinv s -> step_ok s (flush_out_err E s).
Proof. intros Hp. apply flush_stdout_pinv; auto. Qed.

Lemma write_stdout_pinv s ps : pinv s -> step_ok s (fst (write_stdout E s ps)).
Proof.
  intros Hp. unfold write_stdout, step_ok.
  pose proof (pinv_touch s Hp) as Hp1. destruct (touch_eq s) as (A & B & C & D). unfold sfull. rewrite <- B, <- C.
  set (s1 := touch E s) in *. destruct Hp1 as (Hv & Hm & Hc).
  destruct (e_mode E) eqn:Em; cbv beta iota; cbn [st_out st_sink add_log].
  - destruct Hm as (Hb & He). destruct (write_pieces_direct (st_sink s1) ps) as [k ok] eqn:Ew. cbn [fst].
    destruct (write_pieces_direct_view _ ps Hb He _ _ _ _ Hv Ew) as (Hv1 & _ & Hfull).
    split; [|split; [exact Hfull|reflexivity]].
    unfold pinv. cbn [st_out st_sink st_outs st_log set_out add_log expected_stdout]. rewrite Em. split; [exact Hv1|split; [auto|]].
    intros n o Hin Hcg. apply Hfull. eapply Hc; eauto.
  - destruct Hm as (Hb & He). destruct (write_pieces_direct (st_sink s1) ps) as [k ok] eqn:Ew. cbn [fst].
    destruct (write_pieces_direct_view _ ps Hb He _ _ _ _ Hv Ew) as (Hv1 & _ & Hfull).
    split; [|split; [exact Hfull|reflexivity]].
    unfold pinv. cbn [st_out st_sink st_outs st_log set_out add_log expected_stdout]. rewrite Em. split; [exact Hv1|split; [auto|]].
    intros n o Hin Hcg. apply Hfull. eapply Hc; eauto.
  - destruct (write_pieces_buf cap (st_out s1) (st_sink s1) ps) as [[w k] ok] eqn:Ew. cbn [fst].
    destruct (write_pieces_buf_view _ ps _ _ _ _ _ _ Hv Ew) as (Hv1 & _ & Hfull).
    split; [|split; [exact Hfull|reflexivity]].
    unfold pinv. cbn [st_out st_sink st_outs st_log set_out add_log expected_stdout]. rewrite Em. split; [exact Hv1|split; [auto|]].
    intros n o Hin Hcg. apply Hfull. eapply Hc; eauto.
Qed.

(* child output: a copy that has failed before means the sink is full *)
Lemma child_out_pinv s cg data : pinv s -> (cg = true -> sfull s) ->
  step_ok s (fst (child_out E s cg data)) /\ (snd (child_out E s cg data) = false -> sfull (fst (child_out E s cg data))).
Proof.
  intros Hp Hcg. unfold child_out, step_ok. destruct data as [|b d].
  - cbn [fst snd]. split; [split; [auto|split; auto]|]. destruct cg; cbn [negb]; [auto|discriminate].
  - set (data := b :: d). destruct Hp as (Hv & Hm & Hc). unfold sfull in *.
    assert (Hpi : forall (w : bw) (k : sink) (u : bool), view w k (expected_stdout (st_log s) ++ data) ->
              (match e_mode E with Buf _ => True | _ => bw_buf w = [] /\ bw_err w = false end) ->
              (full (st_sink s) -> full k) ->
              pinv (set_out (if u then set_unmod (add_log s (EvChildOut data)) else add_log s (EvChildOut data)) w k)).
    { intros w k u Hv1 Hm1 Hfull. unfold pinv. destruct u; cbn [st_out st_sink st_outs st_log set_out set_unmod add_log expected_stdout];
        (split; [exact Hv1|split; [exact Hm1|]]; intros n0 o Hin Hcg0; apply Hfull; eapply Hc; eauto). }
    assert (Hid : forall (x : state), set_out x (st_out x) (st_sink x) = x) by (intros []; reflexivity).
    destruct (e_mode E) eqn:Em; cbv beta iota; cbn [st_out st_sink add_log].
    + destruct Hm as (Hb & He). destruct (sink_write (st_sink s) data) as [[k n] ok] eqn:Ew. cbn [fst snd].
      destruct (sink_write_view _ _ _ _ _ _ _ Hb He Hv Ew) as (Hv1 & _ & Hfull).
      split; [|discriminate]. split; [|split; [exact Hfull|reflexivity]]. apply (Hpi _ _ false); auto.
    + destruct Hm as (Hb & He). destruct cg.
      * cbn [fst snd]. split; [|intros _; apply Hcg; auto]. split; [|split; auto].
        rewrite <- (Hid (add_log s (EvChildOut data))). apply (Hpi _ _ false); auto. apply view_ext; auto.
      * destruct (sink_write (st_sink s) data) as [[k n] ok] eqn:Ew. cbn [fst snd].
        destruct (sink_write_view _ _ _ _ _ _ _ Hb He Hv Ew) as (Hv1 & Hfail & Hfull).
        split; [|exact Hfail]. split; [|split; [exact Hfull|reflexivity]]. apply (Hpi _ _ false); auto.
    + destruct cg.
      * cbn [fst snd]. split; [|intros _; apply Hcg; auto]. split; [|split; auto].
        rewrite <- (Hid (set_unmod (add_log s (EvChildOut data)))). apply (Hpi _ _ true); auto. apply view_ext; auto.
      * match goal with |- context [if ?c then set_unmod ?x else ?x] => destruct c end; cbn [st_out st_sink set_unmod add_log];
        (destruct (bw_write cap (st_out s) (st_sink s) data) as [[w k] ok] eqn:Ew; cbn [fst snd];
         destruct (bw_write_view _ _ _ _ _ _ _ _ Hv Ew) as (Hv1 & Hfail & Hfull);
         split; [|exact Hfail]; split; [|split; [exact Hfull|reflexivity]]).
        -- apply (Hpi _ _ true); auto.
        -- apply (Hpi _ _ false); auto.
Qed.

Lemma child_eof_pinv s cg : pinv s -> (cg = true -> sfull s) ->
  step_ok s (fst (child_eof E s cg)) /\ (snd (child_eof E s cg) = false -> sfull (fst (child_eof E s cg))).
Proof.
  intros Hp Hcg. unfold child_eof, step_ok. cbn [fst snd].
  split; [split; [auto|split; auto]|]. destruct cg; cbn [negb]; [auto|discriminate].
Qed.

Lemma pinv_add_log s e : (match e with EvWrite WStdout _ | EvChildOut _ => False | _ => True end) -> pinv s -> pinv (add_log s e).
Proof.
  intros He (Hv & Hm & Hc). unfold pinv. cbn [st_out st_sink st_outs st_log add_log expected_stdout].
  assert (Hx : expected_stdout (st_log s) ++ match e with EvWrite WStdout b => b | EvChildOut b => b | _ => [] end = expected_stdout (st_log s)).
  { destruct e as [| [] | | | |]; try contradiction; apply app_nil_r. }
  rewrite Hx. auto.
Qed.
Lemma pinv_set_fs s fs : pinv s -> pinv (set_fs s fs).
Proof. apply pinv_frame; auto. Qed.
Lemma pinv_set_ins s i : pinv s -> pinv (set_ins s i).
Proof. apply pinv_frame; auto. Qed.
Lemma pinv_add_obs s o : pinv s -> pinv (add_obs s o).
Proof. apply pinv_frame; auto. Qed.
Lemma pinv_set_unmod s : pinv s -> pinv (set_unmod s).
Proof. apply pinv_frame; auto. Qed.
Lemma pinv_set_outs s outs : pinv s -> (forall n o, In (n, o) outs -> os_cgfail o = true -> sfull s) -> pinv (set_outs s outs).
Proof. intros (Hv & Hm & Hc) H. unfold pinv. cbn [st_out st_sink st_outs st_log set_outs]. auto. Qed.

Lemma start_proc_pinv s c : pinv s -> step_ok s (fst (start_proc E s c)) /\ (snd (start_proc E s c) = true -> sfull (fst (start_proc E s c))).
Proof.
  intros Hp. unfold start_proc, step_ok. cbn [fst snd].
  set (s1 := add_log s (EvStart c (stdout_pending E s) (bw_err (st_out s)))).
  assert (Hp1 : pinv s1) by (apply pinv_add_log; auto; exact I).
  destruct (c_sink (e_spec E c)) as [t|].
  - split; [split; [|split]|discriminate]; auto.
    apply pinv_add_log; [exact I|]. apply pinv_set_fs. auto.
  - split; [split; [|split]|discriminate]; auto.
Qed.

Lemma deliver_pinv s n o data : pinv s -> (os_cgfail o = true -> sfull s) ->
  step_ok s (fst (deliver E s n o data)) /\ (os_cgfail (snd (deliver E s n o data)) = true -> sfull (fst (deliver E s n o data))).
Proof.
  intros Hp Hcg. unfold deliver, step_ok. destruct data as [|b d]; [cbn [fst snd]; split; [split; [auto|split; auto]|auto]|].
  set (data := b :: d). destruct (os_kind o).
  - destruct (os_off o); cbn [fst snd os_cgfail]; (split; [split; [apply pinv_set_fs; auto|split; auto]|auto]).
  - destruct (c_drain (e_spec E n)).
    2:{ cbn [fst snd os_cgfail]. unfold sfull.
        destruct (is_synced E s n); cbn [st_sink st_outs set_unmod]; (split; [split; [auto using pinv_set_unmod|split; auto]|auto]). }
    set (s1 := match c_sink (e_spec E n) with Some t => set_fs s (fs_append (st_fs s) t data) | None => s end).
    assert (Hp1 : pinv s1) by (subst s1; destruct (c_sink _); auto using pinv_set_fs).
    assert (Hs1 : st_sink s1 = st_sink s /\ st_outs s1 = st_outs s) by (subst s1; destruct (c_sink _); auto).
    destruct Hs1 as (Hs1 & Ho1).
    destruct (c_echo (e_spec E n)); [|cbn [fst snd]; unfold sfull; rewrite Hs1; split; [split; [auto|split; auto]|auto]].
    destruct (child_out_pinv s1 (os_cgfail o) data Hp1) as ((A & B & C) & D); [unfold sfull; rewrite Hs1; auto|].
    destruct (child_out E s1 (os_cgfail o) data) as [s2 ok]. cbn [fst snd os_cgfail] in *.
    unfold sfull in *. rewrite Hs1 in B. split; [split; [auto|split; [auto|congruence]]|].
    destruct ok; [discriminate|auto].
Qed.

Lemma flush_ostream_pinv s n o : pinv s -> (os_cgfail o = true -> sfull s) ->
  step_ok s (fst (flush_ostream E s n o)) /\ (os_cgfail (snd (flush_ostream E s n o)) = true -> sfull (fst (flush_ostream E s n o))).
Proof.
  intros Hp Hcg. unfold flush_ostream. pose proof (deliver_pinv s n o (os_buf o) Hp Hcg) as H.
  destruct (deliver E s n o (os_buf o)) as [s1 o1]. cbn [fst snd os_cgfail] in *. auto.
Qed.

Lemma write_ostream_pinv s n o p : pinv s -> (os_cgfail o = true -> sfull s) ->
  step_ok s (fst (write_ostream E s n o p)) /\ (os_cgfail (snd (write_ostream E s n o p)) = true -> sfull (fst (write_ostream E s n o p))).
Proof.
  intros Hp Hcg. unfold write_ostream. destruct (buf_bytes _ _ _) as [f r].
  pose proof (deliver_pinv s n o f Hp Hcg) as H.
  destruct (deliver E s n o f) as [s1 o1]. cbn [fst snd os_cgfail] in *. auto.
Qed.

Lemma pinv_lookup s n o : pinv s -> alookup n (st_outs s) = Some o -> os_cgfail o = true -> sfull s.
Proof. intros (_ & _ & Hc) Hl Hcg. apply alookup_In in Hl. unfold sfull. eauto. Qed.

(* putting an updated stream back *)
Lemma pinv_put s0 s n o : pinv s0 -> step_ok s0 s -> (os_cgfail o = true -> sfull s) ->
  pinv (set_outs s (aset n o (st_outs s))) /\ (sfull s0 -> sfull (set_outs s (aset n o (st_outs s)))).
Proof.
  intros Hp0 (Hp & Hf & Ho) Hcg. split; [|intros H; apply Hf; auto].
  apply pinv_set_outs; auto. intros m o2 Hin Hc2. apply In_aset in Hin. destruct Hin as [[-> ->]|[Hin _]]; auto.
  destruct Hp as (_ & _ & Hc). unfold sfull. eauto.
Qed.

Lemma if_print_errorf_pinv (b : bool) s : pinv s -> pinv (if b then print_errorf E s else s) /\ (sfull s -> sfull (if b then print_errorf E s else s)).
Proof.
  intros Hp. destruct b; auto. destruct (flush_stdout_pinv s Hp) as ((A & B & _) & _). auto.
Qed.

Lemma flush_named_pinv s n o : pinv s -> alookup n (st_outs s) = Some o ->
  pinv (flush_named E s n o) /\ (sfull s -> sfull (flush_named E s n o)).
Proof.
  intros Hp Hl. unfold flush_named.
  destruct (flush_ostream_pinv s n o Hp (pinv_lookup _ _ _ Hp Hl)) as (A & B).
  destruct (flush_ostream E s n o) as [s1 o1]. cbn [fst snd] in *. cbv zeta.
  destruct (pinv_put s s1 n o1 Hp A B) as (C & D).
  destruct (if_print_errorf_pinv (os_err o1) _ C) as (F & G). split; auto.
Qed.

Lemma flush_streams_pinv ns : forall s, pinv s -> pinv (flush_streams E s ns) /\ (sfull s -> sfull (flush_streams E s ns)).
Proof.
  induction ns as [|n ns IH]; intros s Hp; cbn [flush_streams]; auto.
  destruct (alookup n (st_outs s)) as [o|] eqn:El; auto.
  destruct (flush_named_pinv s n o Hp El) as (A & B). destruct (IH _ A) as (C & D). auto.
Qed.


Lemma flush_all_pinv s : pinv s -> pinv (fst (flush_all E s)) /\ (sfull s -> sfull (fst (flush_all E s))).
Proof.
  intros Hp. unfold flush_all. destruct (flush_streams_pinv (map fst (st_outs s)) s Hp) as (A & B).
  set (s1 := flush_streams E s _) in *.
  destruct (flush_stdout_pinv s1 A) as ((C & D & _) & _). destruct (flush_stdout E s1) as [s2 [|]]; cbn [fst] in *; auto.
  destruct (if_print_errorf_pinv true s2 C) as (F & G). auto.
Qed.

Lemma close_ostream_pinv s n o : pinv s -> (os_cgfail o = true -> sfull s) ->
  step_ok s (fst (fst (close_ostream E s n o))).
Proof.
  intros Hp Hcg. unfold close_ostream.
  destruct (flush_ostream_pinv s n o Hp Hcg) as ((A & B & C) & D).
  destruct (flush_ostream E s n o) as [s1 o1]. cbn [fst snd] in *. destruct (os_kind o1); cbn [fst]; [split; auto|].
  destruct (child_eof_pinv s1 (os_cgfail o1) A D) as ((A2 & B2 & C2) & _).
  destruct (child_eof E s1 _) as [s2 ok]. destruct (wait_result _ _). cbn [fst] in *.
  split; [auto|split; [auto|congruence]].
Qed.

Lemma pinv_aremove s n : pinv s -> pinv (set_outs s (aremove n (st_outs s))).
Proof.
  intros Hp. apply pinv_set_outs; auto. intros m o Hin Hcg. apply In_aremove in Hin. destruct Hin as (Hin & _).
  destruct Hp as (_ & _ & Hc). unfold sfull. eauto.
Qed.

Lemma close_streams_pinv ns : forall s, pinv s -> pinv (close_streams E s ns).
Proof.
  induction ns as [|n ns IH]; intros s Hp; cbn [close_streams]; auto.
  destruct (alookup n (st_outs s)) as [o|] eqn:El; auto.
  destruct (close_ostream_pinv (set_outs s (aremove n (st_outs s))) n o (pinv_aremove s n Hp)) as (A & _).
  { intros Hc. apply (pinv_lookup _ _ _ Hp El Hc). }
  destruct (close_ostream E _ n o) as [[s1 code] err]. cbn [fst] in A.
  apply IH. apply pinv_add_log; [exact I|auto].
Qed.

Lemma close_all_pinv s : pinv s -> pinv (close_all E s) /\
  (bw_err (st_out (close_all E s)) = false -> bw_buf (st_out (close_all E s)) = []).
Proof.
  intros Hp. unfold close_all.
  pose proof (close_streams_pinv (map fst (st_outs (set_ins s []))) _ (pinv_set_ins s [] Hp)) as Hp1.
  set (s1 := close_streams E _ _) in *.
  destruct (flush_out_err_pinv s1 Hp1) as (A & _). split; auto.
  unfold flush_out_err, flush_stdout. destruct (e_mode E) eqn:Em; cbn [fst].
  - destruct Hp1 as (_ & Hm & _). rewrite Em in Hm. tauto.
  - destruct Hp1 as (_ & Hm & _). rewrite Em in Hm. tauto.
  - destruct (touch_eq s1) as (T1 & T2 & _). pose proof (pinv_touch s1 Hp1) as (Hv & _).
    destruct (bw_flush _ _) as [[w k] ok] eqn:Ef. cbn [fst st_out set_out].
    destruct (bw_flush_view _ _ _ _ _ _ Hv Ef) as (_ & _ & Hok & _).
    intros He. destruct ok; [apply Hok; auto|].
    apply bw_flush_false_err in Ef. congruence.
Qed.

Lemma if_unmod_pinv (b : bool) s : pinv s -> pinv (if b then set_unmod s else s).
Proof. destruct b; auto using pinv_set_unmod. Qed.

Lemma get_output_stream_pinv s d : pinv s -> pinv (fst (get_output_stream E s d)).
Proof.
  intros Hp. unfold get_output_stream. destruct d as [| | |r n]; cbn [fst]; auto.
  - apply flush_out_err_pinv; auto.
  - destruct (amem n (st_ins s)); cbn [fst]; auto. destruct (amem n (st_outs s)); cbn [fst]; auto.
    destruct (flush_out_err_pinv s Hp) as (Hp1 & _). set (s1 := flush_out_err E s) in *.
    assert (Hfile : forall fs e o, (match e with EvWrite WStdout _ | EvChildOut _ => False | _ => True end) -> os_cgfail o = false ->
              pinv (set_outs (add_log (set_fs s1 fs) e) (aset n o (st_outs (add_log (set_fs s1 fs) e))))).
    { intros fs e o He Ho. apply pinv_set_outs; [apply pinv_add_log; auto; apply pinv_set_fs; auto|].
      intros m o2 Hin Hc. apply In_aset in Hin. destruct Hin as [[-> ->]|[Hin _]]; [congruence|].
      cbn [st_outs add_log set_fs] in Hin. destruct Hp1 as (_ & _ & Hc1). unfold sfull. cbn. eauto. }
    destruct r.
    + destruct (e_bad E n); cbn [fst]; auto.
    + destruct (e_bad E n); cbn [fst]; auto.
    + match goal with |- context [if ?c then set_unmod s1 else s1] => set (s2 := if c then set_unmod s1 else s1) end.
      assert (Hp2 : pinv s2) by (apply if_unmod_pinv; auto).
      pose proof (pinv_add_log s2 (EvOpen n KCmd false) I Hp2) as Hp3.
      destruct (start_proc_pinv _ n Hp3) as ((Hp4 & _ & _) & Hcg4).
      destruct (start_proc E _ n) as [s4 cg]. cbn [fst snd] in *.
      destruct (child_out_pinv s4 cg (c_stdout (e_spec E n)) Hp4 Hcg4) as ((Hp5 & _ & _) & Hcg5).
      destruct (child_out E s4 cg _) as [s5 ok]. cbn [fst snd] in *.
      match goal with |- context [if ?c then set_unmod s5 else s5] => set (s6 := if c then set_unmod s5 else s5) end.
      assert (Hp6 : pinv s6) by (apply if_unmod_pinv; auto).
      assert (H56 : st_sink s6 = st_sink s5 /\ st_outs s6 = st_outs s5) by (subst s6; match goal with |- context [if ?c then _ else _] => destruct c end; auto).
      apply pinv_set_outs; auto. intros m o2 Hin Hc. apply In_aset in Hin. unfold sfull. destruct H56 as (-> & H6o).
      destruct Hin as [[-> ->]|[Hin _]].
      * cbn [os_cgfail] in Hc. apply Hcg5. destruct ok; [discriminate|auto].
      * rewrite H6o in Hin. destruct Hp5 as (_ & _ & Hc5). eauto.
Qed.

Lemma scan_stream_pinv s n i : pinv s -> pinv (scan_stream s n i).
Proof.
  intros Hp. unfold scan_stream. destruct (is_rest i); [apply pinv_add_obs; auto|]. destruct (scan_line _ _).
  repeat apply pinv_add_obs. apply pinv_set_ins. auto.
Qed.

Lemma pinv_add_synced s n : pinv s -> pinv (add_synced s n).
Proof. apply pinv_frame; auto. Qed.

Lemma getline_file_pinv s n : pinv s -> pinv (fst (getline_file E s n)).
Proof.
  intros Hp0. unfold getline_file. set (s0 := if sink_busy E s n then set_unmod s else s).
  assert (Hp : pinv s0) by (subst s0; apply if_unmod_pinv; auto). clearbody s0.
  destruct (amem n (st_outs s0)); cbn [fst]; auto.
  destruct (alookup n (st_ins s0)) as [i|]; cbn [fst]; [apply scan_stream_pinv; auto|].
  destruct (alookup n (st_fs s0)); cbn [fst]; [|apply pinv_add_obs; auto].
  apply scan_stream_pinv. apply pinv_set_ins. auto.
Qed.

Lemma write_stdout_rec_pinv s rec : pinv s -> step_ok s (fst (write_stdout_rec E s rec)).
Proof.
  intros Hp. unfold write_stdout_rec.
  destruct (e_mode E) eqn:Em; try apply write_stdout_pinv; auto.
  destruct (cap <? scratch_size)%nat; [|apply write_stdout_pinv; auto].
  unfold step_ok.
  pose proof (pinv_touch s Hp) as Hp1. destruct (touch_eq s) as (A & B & C & D). unfold sfull. rewrite <- B, <- C.
  set (s1 := touch E s) in *. destruct Hp1 as (Hv & Hm & Hc).
  cbn [st_out st_sink add_log].
  destruct (write_chunks_buf cap (st_out s1) (st_sink s1) (scratch_chunks rec)) as [[w k] ok] eqn:Ew. cbn [fst].
  destruct (write_chunks_buf_view _ _ _ _ _ _ _ _ Hv Ew) as (Hv1 & _ & Hfull). rewrite scratch_chunks_concat in Hv1.
  split; [|split; [exact Hfull|reflexivity]].
  unfold pinv. cbn [st_out st_sink st_outs st_log set_out add_log expected_stdout]. rewrite Em. split; [exact Hv1|split; [auto|]].
  intros n o Hin Hcg. apply Hfull. eapply Hc; eauto.
Qed.

Lemma step_print_pinv s d ps wr : pinv s -> (forall s1, pinv s1 -> pinv (fst (wr s1))) -> pinv (fst (step_print E s d ps wr)).
Proof.
  intros Hp Hwr. unfold step_print.
  pose proof (get_output_stream_pinv s d Hp) as Hp1. destruct (get_output_stream E s d) as [s1 [[|n]|]]; cbn [fst] in *; auto.
    + pose proof (Hwr s1 Hp1) as A. destruct (wr s1) as [s2 [|]]; auto.
    + destruct (alookup n (st_outs s1)) as [os|] eqn:El; cbn [fst]; auto.
      set (s1' := add_log s1 _).
      assert (Hp1' : pinv s1') by (subst s1'; apply pinv_add_log; auto; destruct (os_kind os); exact I).
      destruct (write_ostream_pinv s1' n os (concat ps) Hp1') as (A & B).
      { intros Hc. apply (pinv_lookup _ _ _ Hp1 El Hc). }
      destruct (write_ostream E s1' n os (concat ps)) as [s2 os']. cbn [fst snd] in *.
      eapply pinv_put; eauto.
Qed.

Lemma step_pinv s o : pinv s -> pinv (fst (step E s o)).
Proof.
  intros Hp. destruct o as [d ps|n|[n|]|c|n|c| |code| |n|d rec]; cbn [step].
  - apply step_print_pinv; auto. intros s1 Hp1. apply write_stdout_pinv; auto.
  - destruct (alookup n (st_ins s)) as [i|].
    + destruct (if is_cmd i then _ else _) as [code err]. cbn [fst]. apply pinv_add_obs.
      apply if_print_errorf_pinv. apply pinv_add_log; [exact I|]. apply pinv_set_ins; auto.
    + destruct (alookup n (st_outs s)) as [os|] eqn:El; [|cbn [fst]; apply pinv_add_obs; auto].
      destruct (close_ostream_pinv (set_outs s (aremove n (st_outs s))) n os (pinv_aremove s n Hp)) as (A & _).
      { intros Hc. apply (pinv_lookup _ _ _ Hp El Hc). }
      destruct (close_ostream E _ n os) as [[s1 code] err]. cbn [fst] in *. apply pinv_add_obs.
      apply if_print_errorf_pinv. apply pinv_add_log; [exact I|auto].
  - destruct (alookup n (st_outs s)) as [os|] eqn:El; cbn [fst]; apply pinv_add_obs.
    + apply flush_named_pinv; auto.
    + apply (if_print_errorf_pinv true); auto.
  - destruct (flush_all_pinv s Hp) as (A & _). destruct (flush_all E s) as [s1 ok]. cbn [fst] in *. apply pinv_add_obs; auto.
  - destruct (flush_all_pinv s Hp) as (A & _). destruct (flush_all E s) as [s1 ok]. cbn [fst] in *.
    destruct (start_proc_pinv s1 c A) as ((Hp2 & _ & _) & Hcg2). destruct (start_proc E s1 c) as [s2 cg]. cbn [fst snd] in *.
    destruct (child_out_pinv s2 cg (c_stdout (e_spec E c)) Hp2 Hcg2) as ((Hp3 & _ & _) & Hcg3).
    destruct (child_out E s2 cg _) as [s3 ok3]. cbn [fst snd] in *.
    destruct (child_eof_pinv s3 (negb ok3) Hp3) as ((Hp4 & _ & _) & _); [destruct ok3; [discriminate|auto]|].
    destruct (child_eof E s3 _) as [s4 ok4]. cbn [fst] in *. destruct (wait_result _ _) as [code err]. cbn [fst].
    apply pinv_add_obs. apply if_print_errorf_pinv; auto.
  - apply getline_file_pinv; auto.
  - destruct (amem c (st_outs s)); cbn [fst]; auto.
    destruct (alookup c (st_ins s)) as [i|]; cbn [fst]; [apply scan_stream_pinv; auto|].
    destruct (flush_out_err_pinv s Hp) as (Hp1 & _).
    destruct (start_proc_pinv _ c Hp1) as ((Hp2 & _ & _) & _). destruct (start_proc E _ c) as [s2 cg]. cbn [fst] in *.
    apply scan_stream_pinv. apply pinv_set_ins. auto.
  - cbn [fst]. apply pinv_add_obs. apply flush_out_err_pinv; auto.
  - auto.
  - auto.
  - destruct (amem n (st_outs s)); cbn [fst]; auto.
    destruct (negb (amem n (st_ins s)) && negb (amem n (st_fs s))); cbn [fst]; [apply pinv_set_unmod; auto|].
    apply getline_file_pinv. apply pinv_add_synced; auto.
  - apply step_print_pinv; auto. intros s1 Hp1. apply write_stdout_rec_pinv; auto.
Qed.

Lemma exec_pinv ops : forall s, pinv s -> pinv (fst (exec E s ops)).
Proof.
  induction ops as [|o ops IH]; intros s Hp; cbn [exec]; auto.
  pose proof (step_pinv s o Hp) as H. destruct (step E s o) as [s1 [| |]]; cbn [fst] in *; auto.
Qed.

Lemma init_pinv fs : pinv (init_state fs (Some L)).
Proof.
  unfold pinv, view, init_state. cbn [st_out st_sink st_outs st_log sk_data sk_limit bw_buf bw_err expected_stdout length].
  split; [|split].
  - split; [auto|split; [lia|]]. exists []. split; auto.
  - destruct (e_mode E); auto.
  - intros ? ? [].
Qed.

(* at the end of any run the writer holds the first L bytes of the issued
   stream, or all of it if it is shorter *)
Theorem stdout_prefix fs ops s r : run E (init_state fs (Some L)) ops = (s, r) ->
  sk_data (st_sink s) = firstn L (expected_stdout (st_log s)).
Proof.
  unfold run. pose proof (exec_pinv ops _ (init_pinv fs)) as Hp. destruct (exec E _ ops) as [s1 r1]. cbn [fst] in Hp.
  intros H; injection H as <- <-.
  destruct (close_all_pinv s1 Hp) as (((Hl & Hle & rest & HX & Hd) & _) & Hb).
  rewrite HX. destruct Hd as [[He Hr]|Hf].
  - rewrite Hr, (Hb He), app_nil_r, firstn_all2; auto.
  - unfold full in Hf. rewrite <- Hf, firstn_app, Nat.sub_diag, firstn_all. cbn [firstn]. rewrite app_nil_r. auto.
Qed.
End Prefix.
