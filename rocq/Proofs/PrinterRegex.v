(* C20 — formatRegex / scanRegex round trip.
   [regex_ok s]: s is a value lexer.scanRegex can return: a sequence of
     - plain bytes other than backslash, NUL, CR, LF  (a slash is plain: it came from \/), and
     - backslash followed by any byte other than slash (the lexer keeps both bytes).
   For every such s, scanning formatRegex(s) gives s back and stops right after the closing slash. *)
From Verif Require Import Lib.Base Model.ExprAst Model.ExprParser Model.Printer.

Fixpoint regex_ok (s : bytes) : bool :=
  match s with
  | [] => true
  | b :: r =>
      if b =? 92 then match r with c :: r' => negb (c =? 47) && regex_ok r' | [] => false end
      else negb (b =? 0) && negb (b =? 13) && negb (b =? 10) && regex_ok r
  end.

Lemma regex_escape_length s : (length s <= length (regex_escape s))%nat.
Proof. induction s as [|b r IH]; cbn [regex_escape length]; [lia|]. destruct (b =? 47); cbn [length]; lia. Qed.

Lemma scan_regex_loop_ok : forall n s, (length s <= n)%nat -> regex_ok s = true ->
  forall fuel rest acc, (length (regex_escape s) < fuel)%nat ->
  scan_regex_loop fuel (regex_escape s ++ 47 :: rest) acc = Some (rev acc ++ s, rest).
Proof.
  induction n as [|n IH]; intros s Hlen Hok fuel rest acc Hfuel.
  - destruct s; [|cbn in Hlen; lia]. destruct fuel; [cbn in Hfuel; lia|].
    cbn [regex_escape app scan_regex_loop ch nxt]. rewrite Z.eqb_refl, app_nil_r. reflexivity.
  - destruct s as [|b r].
    + destruct fuel; [cbn in Hfuel; lia|].
      cbn [regex_escape app scan_regex_loop ch nxt]. rewrite Z.eqb_refl, app_nil_r. reflexivity.
    + cbn [regex_ok] in Hok. cbn [length] in Hlen.
      destruct (b =? 92) eqn:E92.
      * (* backslash + c *)
        apply Z.eqb_eq in E92. subst b.
        destruct r as [|c r']; [discriminate|].
        apply andb_prop in Hok as [Hc Hok]. apply negb_true_iff in Hc.
        cbn [regex_escape] in *. change (92 =? 47) with false in *. cbn iota in *. rewrite Hc in *.
        destruct fuel; [cbn in Hfuel; lia|].
        cbn [app scan_regex_loop ch nxt]. change (92 =? 47) with false. change (92 =? 0) with false.
        change ((92 =? 13) || (92 =? 10)) with false. rewrite Z.eqb_refl. cbn iota. rewrite Hc.
        cbn [length] in *.
        rewrite (IH r' ltac:(lia) Hok fuel rest (c :: 92 :: acc) ltac:(lia)).
        cbn [rev]. rewrite <- !app_assoc. reflexivity.
      * apply andb_prop in Hok as [Hok Hr]. apply andb_prop in Hok as [Hok H10]. apply andb_prop in Hok as [H0 H13].
        apply negb_true_iff in H0, H13, H10.
        cbn [regex_escape] in *.
        destruct (b =? 47) eqn:E47.
        -- (* a plain slash is written \/ *)
           apply Z.eqb_eq in E47. subst b.
           destruct fuel; [cbn in Hfuel; lia|].
           cbn [app scan_regex_loop ch nxt]. change (92 =? 47) with false. change (92 =? 0) with false.
           change ((92 =? 13) || (92 =? 10)) with false. rewrite !Z.eqb_refl. cbn iota.
           cbn [length] in *.
           rewrite (IH r ltac:(lia) Hr fuel rest (47 :: acc) ltac:(lia)).
           cbn [rev]. rewrite <- !app_assoc. reflexivity.
        -- destruct fuel; [cbn in Hfuel; lia|].
           cbn [app scan_regex_loop ch nxt]. rewrite E47, H0, H13, H10, E92. cbn [orb]. cbn iota.
           cbn [length] in *.
           rewrite (IH r ltac:(lia) Hr fuel rest (b :: acc) ltac:(lia)).
           cbn [rev]. rewrite <- !app_assoc. reflexivity.
Qed.

Lemma regex_escape_app_length s rest :
  Nat.lt (length (regex_escape s)) (S (length (regex_escape s ++ 47 :: rest))).
Proof. unfold Nat.lt. rewrite app_length. cbn [length]. lia. Qed.

(* after DIV: the text following the opening slash *)
Theorem regex_roundtrip : forall s rest, regex_ok s = true ->
  scan_regex false (regex_escape s ++ 47 :: rest) = Some (s, rest).
Proof.
  intros s rest Hok. unfold scan_regex.
  rewrite (scan_regex_loop_ok (length s) s (le_n _) Hok _ rest [] (regex_escape_app_length s rest)). reflexivity.
Qed.

(* after DIV_ASSIGN: a regex that begins with = ; the lexer has already consumed /= *)
Theorem regex_roundtrip_eq : forall s rest, regex_ok s = true ->
  scan_regex true (regex_escape s ++ 47 :: rest) = Some (61 :: s, rest).
Proof.
  intros s rest Hok. unfold scan_regex.
  rewrite (scan_regex_loop_ok (length s) s (le_n _) Hok _ rest [61] (regex_escape_app_length s rest)). reflexivity.
Qed.

(* formatRegex never needs more than the slash rule: the printed text is / escape(s) / *)
Lemma format_regex_eq s : format_regex s = 47 :: regex_escape s ++ [47].
Proof. reflexivity. Qed.

(* a regex value that is NOT in the lexer's image does not survive: a trailing backslash *)
Example regex_not_ok_fails : scan_regex false (regex_escape [97; 92] ++ [47]) = None.
Proof. vm_compute. reflexivity. Qed.

(* indentation commutes with the slash escaping (Stmts.String() works on the rendered text) *)
Lemma indent_regex_escape s : regex_escape (indent_bytes s) = indent_bytes (regex_escape s).
Proof.
  induction s as [|b r IH]; [reflexivity|]. cbn [indent_bytes regex_escape].
  destruct (b =? 10) eqn:E10.
  - apply Z.eqb_eq in E10. subst b. cbn [regex_escape indent_bytes]. change (10 =? 47) with false.
    change (32 =? 47) with false. cbn iota. cbn [indent_bytes]. change (10 =? 10) with true. cbn iota. rewrite IH. reflexivity.
  - destruct (b =? 47) eqn:E47.
    + apply Z.eqb_eq in E47. subst b. cbn [regex_escape indent_bytes]. change (47 =? 47) with true.
      change (92 =? 10) with false. change (47 =? 10) with false. cbn iota. rewrite IH. reflexivity.
    + cbn [regex_escape indent_bytes]. rewrite E47, E10, IH. reflexivity.
Qed.

(* without a newline byte the indentation leaves a literal alone *)
Lemma indent_bytes_id s : forallb (fun b => negb (b =? 10)) s = true -> indent_bytes s = s.
Proof.
  induction s as [|b r IH]; [reflexivity|]. cbn [forallb indent_bytes]. intros H.
  apply andb_prop in H as [Hb Hr]. apply negb_true_iff in Hb. rewrite Hb, (IH Hr). reflexivity.
Qed.
