(* C03 proofs, part 6: the tables extracted from the repository by translator/gen_c03.go
   (rocq/Gen/ParsePos.v, regenerated on every check).
   (1) where the positions of parse errors come from: every position handed to ast.PosErrorf in
       parser.go and resolve.go is the current token's position p.pos, a copy of it saved
       earlier, a ...Pos field of an AST node, a value of the p.multiExprs map, or the literal
       {1,1}; every stored position (node field, map entry, expectName's result) is p.pos or
       such a copy; p.pos itself is only ever assigned from lexer.Scan / lexer.ScanRegex.
       Hence every ParseError position is a position the lexer reported (or 1:1).
   (2) the token numbers and the keyword table of Model/Lexer.v are those of lexer/token.go. *)
From Coq Require Import String Ascii List ZArith Bool.
From Verif Require Import Lib.Base Model.Lexer Gen.ParsePos.
Import ListNotations.
Open Scope Z_scope.

Definition field_ok (f : string) : bool :=
  (String.eqb f "Pos" || String.eqb f "VarPos" || String.eqb f "ArrayPos")%string.

Definition origin_ok (o : origin) : bool :=
  match o with
  | OCur => true
  | OExpectName => true
  | OField f => field_ok f
  | OLit l c => (l =? 1) && (c =? 1)
  | OMapValue m => String.eqb m "multiExprs"
  | OScan f => String.eqb f "Scan" || String.eqb f "ScanRegex"
  | OUnknown _ => false
  end.

(* checkMultiExprs starts its minimum search at {1000000000, 1000000000}; it returns before
   the search when the map is empty, so the literal is always replaced by a map value *)
Definition min_seed (s : site) (o : origin) : bool :=
  String.eqb (s_func s) "checkMultiExprs" &&
  match o with OLit l c => (l =? 1000000000) && (c =? 1000000000) | _ => false end &&
  existsb (fun o' => match o' with OMapValue _ => true | _ => false end) (s_origins s).

Definition site_ok (s : site) : bool :=
  negb (length (s_origins s) =? 0)%nat && forallb (fun o => origin_ok o || min_seed s o) (s_origins s).

Definition scan_only (s : site) : bool :=
  negb (length (s_origins s) =? 0)%nat &&
  forallb (fun o => match o with OScan _ => origin_ok o | _ => false end) (s_origins s).

Theorem parser_reports_lexer_positions :
  forallb site_ok pos_error_sites = true /\
  forallb site_ok pos_store_sites = true /\
  forallb scan_only cur_assign_sites = true /\
  (10 <=? length pos_error_sites)%nat = true /\ (10 <=? length pos_store_sites)%nat = true /\
  (2 <=? length cur_assign_sites)%nat = true.
Proof. vm_compute. repeat split; reflexivity. Qed.

(* ---- type assertions without comma-ok behind ParseProgram ------------------------------------
   A failing x.(T) is a runtime.Error; neither compiler.Compile's nor ParseProgram's recover
   converts it, so it would escape ParseProgram as a panic.  Every such assertion in internal/ast,
   internal/compiler, internal/resolver and parser (table unchecked_asserts, regenerated on every
   check) must fall into one of three classes:
     CRepanic        the assertion on the recovered value inside a deferred recover(): foreign
                     panics are re-raised on purpose;
     CParserBuilds   split()'s second argument: the parser builds it as &ast.VarExpr{...}
                     (table split_args_init);
     CResolverGuard  the compiler's assertion that arg is an ast.VarExpr under `if f.Arrays[i]` for a user call:
                     the resolver has checked THE SAME expression (the un-reassigned range
                     variable over n.Args, table array_arg_checks) with a comma-ok assertion and
                     rejects a non-variable in an array slot ("can't pass scalar ... as array
                     param"); that the slot types f.Arrays are the resolver's final, consistent
                     typing is property C16 (theorem C16_sound).
   A new unchecked assertion, or a change of one of the protecting facts, breaks the theorem. *)
Inductive aclass : Type := CRepanic | CParserBuilds | CResolverGuard (thm : string).

Definition classify (s : assert_site) : option aclass :=
  if a_in_recover s && String.eqb (a_expr s) "r" then Some CRepanic
  else if String.eqb (a_typ s) "*ast.VarExpr" && String.eqb (a_case s) "lexer.F_SPLIT" &&
          (String.eqb (a_expr s) "e.Args[1]" || String.eqb (a_expr s) "n.Args[1]") then Some CParserBuilds
  else if String.eqb (a_file s) "internal/compiler/compiler.go" && String.eqb (a_typ s) "*ast.VarExpr" &&
          String.eqb (a_case s) "*ast.UserCallExpr" && String.eqb (a_guard s) "f.Arrays[i]" &&
          String.eqb (a_expr s) "arg" && (a_assigns s =? 0)%nat then Some (CResolverGuard "C16_sound")
  else None.

Definition check_ok (k : arg_check) : bool :=
  String.eqb (k_range_over k) "n.Args" && k_has_check k && (k_reassigned k =? 0)%nat && k_rejects k.

Definition class_ok (c : aclass) : bool :=
  match c with
  | CRepanic => true
  | CParserBuilds => String.eqb (nth 1 split_args_init "") "lit:ast.VarExpr"
  | CResolverGuard thm => String.eqb thm "C16_sound" && negb (length array_arg_checks =? 0)%nat && forallb check_ok array_arg_checks
  end.

Definition assert_ok (s : assert_site) : bool :=
  match classify s with Some c => class_ok c | None => false end.

Theorem unchecked_assertions_classified :
  forallb assert_ok unchecked_asserts = true /\ (2 <=? length unchecked_asserts)%nat = true.
Proof. vm_compute. split; reflexivity. Qed.

(* ---- the parser's context counters are balanced ------------------------------------------------
   Every function of parser.go that raises a counter (p.loopDepth++) lowers it as often and has no
   return between the first increment and the last decrement: after every complete construct the
   counter has the value it had before, so a later break/continue is judged by its own nesting. *)
Definition counter_ok (c : counter_site) : bool :=
  (c_incs c =? c_decs c)%nat && (c_returns_between c =? 0)%nat.

Definition has_loop_depth : bool := existsb (fun c => String.eqb (c_field c) "loopDepth") counter_sites.

Theorem context_counters_balanced :
  forallb counter_ok counter_sites = true /\ has_loop_depth = true.
Proof. vm_compute. split; reflexivity. Qed.

(* ---- token.go ------------------------------------------------------------------------------ *)
Definition lit (s : string) : bytes :=
  List.map (fun a => Z.of_N (N_of_ascii a)) (list_ascii_of_string s).

Definition model_tokens : list (string * Z) := [
  ("ILLEGAL", T_ILLEGAL);
  ("EOF", T_EOF);
  ("NEWLINE", T_NEWLINE);
  ("CONCAT", T_CONCAT);
  ("ADD", T_ADD);
  ("ADD_ASSIGN", T_ADD_ASSIGN);
  ("AND", T_AND);
  ("APPEND", T_APPEND);
  ("ASSIGN", T_ASSIGN);
  ("AT", T_AT);
  ("COLON", T_COLON);
  ("COMMA", T_COMMA);
  ("DECR", T_DECR);
  ("DIV", T_DIV);
  ("DIV_ASSIGN", T_DIV_ASSIGN);
  ("DOLLAR", T_DOLLAR);
  ("EQUALS", T_EQUALS);
  ("GTE", T_GTE);
  ("GREATER", T_GREATER);
  ("INCR", T_INCR);
  ("LBRACE", T_LBRACE);
  ("LBRACKET", T_LBRACKET);
  ("LESS", T_LESS);
  ("LPAREN", T_LPAREN);
  ("LTE", T_LTE);
  ("MATCH", T_MATCH);
  ("MOD", T_MOD);
  ("MOD_ASSIGN", T_MOD_ASSIGN);
  ("MUL", T_MUL);
  ("MUL_ASSIGN", T_MUL_ASSIGN);
  ("NOT_MATCH", T_NOT_MATCH);
  ("NOT", T_NOT);
  ("NOT_EQUALS", T_NOT_EQUALS);
  ("OR", T_OR);
  ("PIPE", T_PIPE);
  ("POW", T_POW);
  ("POW_ASSIGN", T_POW_ASSIGN);
  ("QUESTION", T_QUESTION);
  ("RBRACE", T_RBRACE);
  ("RBRACKET", T_RBRACKET);
  ("RPAREN", T_RPAREN);
  ("SEMICOLON", T_SEMICOLON);
  ("SUB", T_SUB);
  ("SUB_ASSIGN", T_SUB_ASSIGN);
  ("BEGIN", T_BEGIN);
  ("BREAK", T_BREAK);
  ("CONTINUE", T_CONTINUE);
  ("DELETE", T_DELETE);
  ("DO", T_DO);
  ("ELSE", T_ELSE);
  ("END", T_END);
  ("EXIT", T_EXIT);
  ("FOR", T_FOR);
  ("FUNCTION", T_FUNCTION);
  ("GETLINE", T_GETLINE);
  ("IF", T_IF);
  ("IN", T_IN);
  ("NEXT", T_NEXT);
  ("NEXTFILE", T_NEXTFILE);
  ("PRINT", T_PRINT);
  ("PRINTF", T_PRINTF);
  ("RETURN", T_RETURN);
  ("WHILE", T_WHILE);
  ("F_ATAN2", T_F_ATAN2);
  ("F_CLOSE", T_F_CLOSE);
  ("F_COS", T_F_COS);
  ("F_EXP", T_F_EXP);
  ("F_FFLUSH", T_F_FFLUSH);
  ("F_GSUB", T_F_GSUB);
  ("F_INDEX", T_F_INDEX);
  ("F_INT", T_F_INT);
  ("F_LENGTH", T_F_LENGTH);
  ("F_LOG", T_F_LOG);
  ("F_MATCH", T_F_MATCH);
  ("F_RAND", T_F_RAND);
  ("F_SIN", T_F_SIN);
  ("F_SPLIT", T_F_SPLIT);
  ("F_SPRINTF", T_F_SPRINTF);
  ("F_SQRT", T_F_SQRT);
  ("F_SRAND", T_F_SRAND);
  ("F_SUB", T_F_SUB);
  ("F_SUBSTR", T_F_SUBSTR);
  ("F_SYSTEM", T_F_SYSTEM);
  ("F_TOLOWER", T_F_TOLOWER);
  ("F_TOUPPER", T_F_TOUPPER);
  ("NAME", T_NAME);
  ("NUMBER", T_NUMBER);
  ("STRING", T_STRING);
  ("REGEX", T_REGEX) ]%string.

Theorem token_numbers_agree : gen_tokens = model_tokens.
Proof. vm_compute. reflexivity. Qed.

Fixpoint tok_value (tbl : list (string * Z)) (name : string) : Z :=
  match tbl with
  | [] => -1
  | (n, v) :: rest => if String.eqb n name then v else tok_value rest name
  end.

(* the keyword table of the model is the keywordTokens map of token.go, entry by entry *)
Theorem keywords_agree :
  List.map (fun kv => (lit (fst kv), tok_value gen_tokens (snd kv))) gen_keywords = keywords.
Proof. vm_compute. reflexivity. Qed.
