(* C09: the modelled doPrintf / parseFmtTypes on a conversion specification
   written by [render]: flags, width, precision are read as C reads them. *)
From Verif Require Import Lib.Base Lib.Dyadic Lib.Utf8 Model.Printf Proofs.PrintfSpec Proofs.PrintfBase Proofs.PrintfInt.

(* ---- flags ---- *)
Definition apply_flag (f : fmts) (c : Z) : fmts :=
  if c =? 35 then set_sharp f true
  else if c =? 48 then set_zero f true
  else if c =? 43 then set_plus f true
  else if c =? 45 then set_minus f true
  else if c =? 32 then set_space f true
  else f.

Lemma go_flags_app fl : forall s f, forallb is_flag fl = true ->
  go_flags (fl ++ s) f = go_flags s (fold_left apply_flag fl f).
Proof.
  induction fl as [|c t IH]; intros s f H; [reflexivity|].
  cbn [forallb] in H. apply andb_true_iff in H as [Hc Ht].
  cbn [app go_flags fold_left]. unfold apply_flag at 2. unfold is_flag in Hc.
  destruct (c =? 35); [apply IH; exact Ht|].
  destruct (c =? 48); [apply IH; exact Ht|].
  destruct (c =? 43); [apply IH; exact Ht|].
  destruct (c =? 45); [apply IH; exact Ht|].
  destruct (c =? 32); [apply IH; exact Ht|]. discriminate.
Qed.

Definition not_flag_head (s : bytes) : Prop :=
  match s with c :: _ => is_flag c = false | [] => True end.

Lemma go_flags_stop s f : not_flag_head s -> go_flags s f = (f, s).
Proof.
  destruct s as [|c t]; intros H; [reflexivity|]. cbn [not_flag_head] in H. unfold is_flag in H.
  cbn [go_flags].
  destruct (c =? 45); [discriminate|]. destruct (c =? 43); [discriminate|].
  destruct (c =? 32); [discriminate|]. destruct (c =? 35); [discriminate|].
  destruct (c =? 48); [discriminate|]. reflexivity.
Qed.

Lemma has_cons c x t : has c (x :: t) = (c =? x) || has c t.
Proof. reflexivity. Qed.

Lemma flags_fields fl : forall f, forallb is_flag fl = true ->
  let g := fold_left apply_flag fl f in
  wid g = wid f /\ widP g = widP f /\ prec g = prec f /\ precP g = precP f /\
  fminus g = fminus f || has 45 fl /\ fplus g = fplus f || has 43 fl /\
  fsharp g = fsharp f || has 35 fl /\ fspace g = fspace f || has 32 fl /\
  fzero g = fzero f || has 48 fl.
Proof.
  induction fl as [|c t IH]; intros f H.
  - cbn. rewrite !orb_false_r. repeat split; reflexivity.
  - cbn [forallb] in H. apply andb_true_iff in H as [Hc Ht]. cbn [fold_left].
    specialize (IH (apply_flag f c) Ht). cbn zeta in IH.
    destruct IH as (H1 & H2 & H3 & H4 & H5 & H6 & H7 & H8 & H9).
    rewrite H1, H2, H3, H4, H5, H6, H7, H8, H9. rewrite !has_cons.
    unfold is_flag in Hc. unfold apply_flag.
    destruct (Z.eq_dec c 35) as [->|N35]; [cbn; rewrite ?orb_true_r, ?orb_false_r; repeat split; try reflexivity; destruct (fsharp f); reflexivity|].
    replace (c =? 35) with false in * by (symmetry; apply Z.eqb_neq; exact N35).
    destruct (Z.eq_dec c 48) as [->|N48]; [cbn; rewrite ?orb_true_r, ?orb_false_r; repeat split; try reflexivity; destruct (fzero f); reflexivity|].
    replace (c =? 48) with false in * by (symmetry; apply Z.eqb_neq; exact N48).
    destruct (Z.eq_dec c 43) as [->|N43]; [cbn; rewrite ?orb_true_r, ?orb_false_r; repeat split; try reflexivity; destruct (fplus f); reflexivity|].
    replace (c =? 43) with false in * by (symmetry; apply Z.eqb_neq; exact N43).
    destruct (Z.eq_dec c 45) as [->|N45]; [cbn; rewrite ?orb_true_r, ?orb_false_r; repeat split; try reflexivity; destruct (fminus f); reflexivity|].
    replace (c =? 45) with false in * by (symmetry; apply Z.eqb_neq; exact N45).
    destruct (Z.eq_dec c 32) as [->|N32]; [cbn; rewrite ?orb_true_r, ?orb_false_r; repeat split; try reflexivity; destruct (fspace f); reflexivity|].
    replace (c =? 32) with false in * by (symmetry; apply Z.eqb_neq; exact N32).
    cbn in Hc. discriminate.
Qed.

(* ---- parsenum ---- *)
Definition dval_from (num : Z) (ds : bytes) : Z := fold_left (fun a c => a * 10 + (c - 48)) ds num.

Definition not_digit_head (s : bytes) : Prop :=
  match s with c :: _ => is_digit c = false | [] => True end.

Lemma dval_from_mono ds : forall num, forallb is_dig ds = true -> 0 <= num -> num <= dval_from num ds.
Proof.
  induction ds as [|c t IH]; intros num H Hn; [cbn; lia|].
  cbn [forallb] in H. apply andb_true_iff in H as [Hc Ht]. unfold is_dig in Hc.
  apply andb_true_iff in Hc as [H1 H2]. apply Z.leb_le in H1, H2.
  cbn [dval_from fold_left]. fold (dval_from (num * 10 + (c - 48)) t).
  etransitivity; [|apply IH; [exact Ht|lia]]. lia.
Qed.

Lemma parsenum_digits ds : forall num isnum s, forallb is_dig ds = true -> not_digit_head s ->
  0 <= num -> dval_from num ds <= 1000000 ->
  parsenum (ds ++ s) num isnum = (dval_from num ds, isnum || negb (match ds with [] => true | _ => false end), s).
Proof.
  induction ds as [|c t IH]; intros num isnum s H Hs Hn Hb.
  - cbn [app dval_from fold_left negb]. rewrite orb_false_r.
    destruct s as [|c t]; [reflexivity|]. cbn [not_digit_head] in Hs. cbn [parsenum]. rewrite Hs. reflexivity.
  - pose proof H as Hall. cbn [forallb] in H. apply andb_true_iff in H as [Hc Ht].
    assert (Hc' : is_digit c = true) by exact Hc.
    cbn [app parsenum]. rewrite Hc'.
    pose proof (dval_from_mono (c :: t) num Hall Hn) as Hm.
    assert (too_large num = false) as ->.
    { unfold too_large. apply orb_false_iff. split; [rewrite Z.gtb_ltb; apply Z.ltb_ge; lia | apply Z.ltb_ge; lia]. }
    unfold is_dig in Hc. apply andb_true_iff in Hc as [H1 H2]. apply Z.leb_le in H1, H2.
    rewrite IH; [| exact Ht | exact Hs | lia | exact Hb].
    cbn [dval_from fold_left negb]. rewrite orb_true_r. reflexivity.
Qed.

Lemma dval_is_from ds : dval ds = dval_from 0 ds.
Proof. reflexivity. Qed.

(* ---- the conversion byte after parseFmtTypes' rewriting ---- *)
Definition go_conv_byte (c : conv) : Z :=
  match c with
  | Cd | Ci | Cu => 100 | Co => 111 | Cx => 120 | CX => 88 | Cc | Cs => 115
  | Ce => 101 | CE => 69 | Cf => 102 | Cg => 103 | CG => 71
  end.
Definition conv_ty (c : conv) : ty :=
  match c with
  | Cd | Ci => TyD | Co | Cu | Cx | CX => TyU | Cc => TyC | Cs => TyS
  | Ce | CE | Cf | Cg | CG => TyF
  end.

Lemma verb_info_conv c : verb_info (conv_byte c) = Some (go_conv_byte c, conv_ty c).
Proof. destruct c; reflexivity. Qed.

(* the text after the '%', as written and as rewritten *)
Definition tail_of (d : dir) (verb : Z) : bytes :=
  d_flags d ++ render_w (d_width d) ++ render_p (d_prec d) ++ [verb].

Lemma render_tail d : render d = 37 :: tail_of d (conv_byte (d_conv d)).
Proof. reflexivity. Qed.

Definition no_pct (s : bytes) : bool := forallb (fun c => negb (c =? 37)) s.

(* ---- pattern matches on a literal byte, for a byte known to differ ---- *)
Ltac lit_case c H :=
  destruct c as [|p|p]; try reflexivity;
  destruct p as [p|p|]; try reflexivity;
  destruct p as [p|p|]; try reflexivity;
  destruct p as [p|p|]; try reflexivity;
  destruct p as [p|p|]; try reflexivity;
  destruct p as [p|p|]; try reflexivity;
  destruct p as [p|p|]; try reflexivity;
  try (destruct p as [p|p|]; try reflexivity);
  try (exfalso; apply H; reflexivity).

Lemma starts_bracket_other c t : c <> 91 -> starts_bracket (c :: t) = false.
Proof. intros H. unfold starts_bracket. lit_case c H. Qed.

Lemma go_width_star f t args :
  go_width f (42 :: t) args =
    let '(num, ok, args') := int_from_arg args in
    let f := set_wid f num ok in
    let f := if num <? 0 then set_zero (set_minus (set_wid f (- num) ok) true) false else f in
    (if ok then [] else s_badwidth, f, t, args').
Proof. reflexivity. Qed.

Lemma go_width_other f c t args : c <> 42 ->
  go_width f (c :: t) args =
    let '(num, ok, r) := parsenum (c :: t) 0 false in ([], set_wid f num ok, r, args).
Proof. intros H. unfold go_width. lit_case c H. Qed.

Lemma go_prec_none f c t args : c <> 46 -> go_prec f (c :: t) args = Ok ([], f, c :: t, args).
Proof. intros H. unfold go_prec. lit_case c H. Qed.

Lemma go_prec_star f t args :
  go_prec f (46 :: 42 :: t) args =
    let '(num, ok, args') := int_from_arg args in
    let '(num, ok) := if num <? 0 then (0, false) else (num, ok) in
    Ok (if ok then [] else s_badprec, set_prec f num ok, t, args').
Proof. reflexivity. Qed.

Lemma go_prec_lit f c t args : c <> 42 -> c <> 91 ->
  go_prec f (46 :: c :: t) args =
    let '(num, ok, r) := parsenum (c :: t) 0 false in
    Ok ([], (if ok then set_prec f num true else set_prec f 0 true), r, args).
Proof.
  intros H1 H2. cbn [go_prec]. rewrite (starts_bracket_other c t H2). lit_case c H1.
Qed.

Lemma go_verb_arg out f verb rest a more : verb <> 91 -> verb < 128 -> verb <> 37 ->
  go_verb out f (verb :: rest) (a :: more) =
    match print_arg f a verb with
    | Ok o => Ok (out ++ o, rest, more, false)
    | Err m => Err m | Panic => Panic | Unmod => Unmod
    end.
Proof.
  intros H1 H2 H3. unfold go_verb. rewrite (starts_bracket_other verb rest H1).
  replace (128 <=? verb) with false by (symmetry; apply Z.leb_gt; exact H2).
  replace (verb =? 37) with false by (symmetry; apply Z.eqb_neq; exact H3). reflexivity.
Qed.

(* ---- one directive read by the modelled doPrintf ---- *)
Definition star_gargs (d : dir) (wv pv : Z) : list garg :=
  (match d_width d with WStar => [GInt wv] | _ => [] end)
  ++ (match d_prec d with PrStar => [GInt pv] | _ => [] end).

(* width / precision within fmt's limit; a '*' precision not negative *)
Definition in_lim (d : dir) (wv pv : Z) : Prop :=
  match d_width d with
  | WLit ds => dval ds <= 1000000 | WStar => -1000000 <= wv <= 1000000 | WNone => True end /\
  match d_prec d with
  | PrLit ds => dval ds <= 1000000 | PrStar => 0 <= pv <= 1000000 | PrNone => True end.

Definition verb_ok (verb : Z) : Prop :=
  verb < 128 /\ verb <> 37 /\ verb <> 91 /\ verb <> 42 /\ verb <> 46 /\ is_flag verb = false /\ is_digit verb = false.

Lemma go_conv_byte_ok c : verb_ok (go_conv_byte c).
Proof. destruct c; cbn; repeat split; try lia; reflexivity. Qed.

Lemma int_from_arg_int n rest : -1000000 <= n <= 1000000 -> int_from_arg (GInt n :: rest) = (n, true, rest).
Proof.
  intros H. cbn [int_from_arg]. assert (too_large n = false) as ->; [|reflexivity].
  unfold too_large. apply orb_false_iff. split; [rewrite Z.gtb_ltb; apply Z.ltb_ge; lia | apply Z.ltb_ge; lia].
Qed.

Lemma dval_nonneg ds : forallb is_dig ds = true -> 0 <= dval ds.
Proof. intros H. rewrite dval_is_from. apply (dval_from_mono ds 0 H). lia. Qed.

Lemma is_dig_not_flag c : is_dig c = true -> c <> 48 -> is_flag c = false.
Proof.
  unfold is_dig, is_flag. intros H N. apply andb_true_iff in H as [H1 H2]. apply Z.leb_le in H1, H2.
  repeat (apply orb_false_iff; split); apply Z.eqb_neq; lia.
Qed.

Theorem go_directive_render d wv pv verb a more post :
  wf_dir d = true -> in_lim d wv pv -> verb_ok verb ->
  exists f, st_matches f (resolve d wv pv) /\
    go_directive (tail_of d verb ++ post) (star_gargs d wv pv ++ a :: more)
    = match print_arg f a verb with
      | Ok o => Ok (o, post, more, false)
      | Err m => Err m | Panic => Panic | Unmod => Unmod
      end.
Proof.
  intros Hwf [Hlw Hlp] (Hv128 & Hv37 & Hv91 & Hv42 & Hv46 & Hvf & Hvd).
  unfold wf_dir in Hwf. apply andb_true_iff in Hwf as [Hwf Hwp]. apply andb_true_iff in Hwf as [Hfl Hww].
  destruct d as [fl w p c]. cbn [d_flags d_width d_prec d_conv] in *.
  unfold tail_of, star_gargs, go_directive. cbn [d_flags d_width d_prec d_conv].
  rewrite <- !app_assoc. change ([verb] ++ post) with (verb :: post). rewrite (go_flags_app fl _ f0 Hfl).
  set (f1 := fold_left apply_flag fl f0).
  destruct (flags_fields fl f0 Hfl) as (F1 & F2 & F3 & F4 & F5 & F6 & F7 & F8 & F9). fold f1 in F1, F2, F3, F4, F5, F6, F7, F8, F9.
  cbn [f0 wid widP prec precP fminus fplus fsharp fspace fzero orb] in F1, F2, F3, F4, F5, F6, F7, F8, F9.
  unfold resolve. cbn [d_flags d_width d_prec d_conv].
  (* the precision part, for any state f2 whose precision is still unset *)
  assert (PREC : forall f2 args', prec f2 = 0 -> precP f2 = false ->
     exists f3, (wid f3 = wid f2 /\ widP f3 = widP f2 /\ fminus f3 = fminus f2 /\ fplus f3 = fplus f2 /\
                 fsharp f3 = fsharp f2 /\ fspace f3 = fspace f2 /\ fzero f3 = fzero f2 /\ 0 <= prec f3 /\
                 (match p with PrNone => None | PrLit ds => Some (dval ds) | PrStar => if pv <? 0 then None else Some pv end)
                 = (if precP f3 then Some (prec f3) else None)) /\
     go_prec f2 (render_p p ++ verb :: post) ((match p with PrStar => [GInt pv] | _ => [] end) ++ args')
     = Ok ([], f3, verb :: post, args')).
  { intros f2 args' P0 PP. destruct p as [|ds|]; cbn [render_p app].
    - exists f2. split; [rewrite P0, PP; repeat split; try reflexivity; lia|]. apply go_prec_none. exact Hv46.
    - exists (set_prec f2 (dval ds) true). split; [cbn; repeat split; try reflexivity; apply dval_nonneg; exact Hwp|].
      destruct ds as [|c0 t0].
      + cbn [app]. rewrite go_prec_lit by assumption. cbn [parsenum]. rewrite Hvd. reflexivity.
      + cbn [app]. cbn [forallb] in Hwp. pose proof Hwp as Hall. apply andb_true_iff in Hwp as [Hc0 Ht0].
        assert (c0 <> 42 /\ c0 <> 91) as [N1 N2].
        { unfold is_dig in Hc0. apply andb_true_iff in Hc0 as [A B]. apply Z.leb_le in A, B. lia. }
        rewrite go_prec_lit by assumption.
        change (c0 :: t0 ++ verb :: post) with ((c0 :: t0) ++ verb :: post).
        rewrite parsenum_digits; [| exact Hall | cbn; exact Hvd | lia | exact Hlp]. reflexivity.
    - exists (set_prec f2 pv true). destruct Hlp as [Hp0 Hp1].
      replace (pv <? 0) with false by (symmetry; apply Z.ltb_ge; exact Hp0).
      split; [cbn; repeat split; try reflexivity; lia|].
      rewrite go_prec_star. rewrite int_from_arg_int by lia.
      replace (pv <? 0) with false by (symmetry; apply Z.ltb_ge; exact Hp0). reflexivity. }
  destruct w as [|ds|].
  - (* no width *)
    cbn [render_w app].
    assert (Hhead : not_flag_head (render_p p ++ verb :: post) /\ exists c0 t0, render_p p ++ verb :: post = c0 :: t0 /\ c0 <> 42 /\ c0 <> 91 /\ is_digit c0 = false).
    { destruct p as [|ds|]; cbn [render_p app not_flag_head].
      - split; [exact Hvf|]. exists verb, post. auto.
      - split; [reflexivity|]. eexists 46, _. repeat split; try reflexivity; lia.
      - split; [reflexivity|]. eexists 46, _. repeat split; try reflexivity; lia. }
    destruct Hhead as [Hnf (c0 & t0 & E0 & N42 & N91 & Nd)].
    rewrite (go_flags_stop _ f1 Hnf). rewrite E0. rewrite (starts_bracket_other c0 t0 N91).
    rewrite go_width_other by exact N42. cbn [parsenum]. rewrite Nd. rewrite <- E0.
    destruct (PREC (set_wid f1 0 false) (a :: more)) as (f3 & (G1 & G2 & G3 & G4 & G5 & G6 & G7 & G8 & G9) & GE);
      [cbn; exact F3 | cbn; exact F4|].
    cbn [app] in GE |- *. rewrite GE. exists f3. split.
    + unfold st_matches. cbn [r_width r_minus r_plus r_sharp r_space r_zero r_prec Z.abs Z.ltb Z.compare orb].
      rewrite G1, G2, G3, G4, G5, G6, G7. cbn [set_wid wid widP fminus fplus fsharp fspace fzero].
      rewrite orb_false_r. repeat split; try assumption; try reflexivity; try lia. intros _. exact F9.
    + rewrite go_verb_arg by assumption. cbn [app]. reflexivity.
  - (* literal width *)
    destruct ds as [|c0 t0]; [discriminate|]. apply andb_true_iff in Hww as [Hww Ht0]. apply andb_true_iff in Hww as [Hc0 Hc48].
    apply negb_true_iff, Z.eqb_neq in Hc48.
    assert (Hall : forallb is_dig (c0 :: t0) = true) by (cbn [forallb]; rewrite Hc0, Ht0; reflexivity).
    assert (c0 <> 42 /\ c0 <> 91) as [N42 N91].
    { unfold is_dig in Hc0. apply andb_true_iff in Hc0 as [A B]. apply Z.leb_le in A, B. lia. }
    cbn [render_w]. rewrite (go_flags_stop _ f1); [| cbn; apply is_dig_not_flag; assumption].
    cbn [app]. rewrite (starts_bracket_other c0 _ N91). rewrite go_width_other by exact N42.
    change (c0 :: t0 ++ render_p p ++ verb :: post) with ((c0 :: t0) ++ render_p p ++ verb :: post).
    rewrite parsenum_digits; [| exact Hall | | lia | exact Hlw].
    2:{ destruct p as [|ds|]; cbn [render_p app not_digit_head]; [exact Hvd | reflexivity | reflexivity]. }
    cbn [orb negb].
    destruct (PREC (set_wid f1 (dval (c0 :: t0)) true) (a :: more)) as (f3 & (G1 & G2 & G3 & G4 & G5 & G6 & G7 & G8 & G9) & GE);
      [cbn; exact F3 | cbn; exact F4|].
    cbn [app] in GE |- *. change (dval_from 0 (c0 :: t0)) with (dval (c0 :: t0)). rewrite GE. exists f3. split.
    + pose proof (dval_nonneg (c0 :: t0) Hall) as Hd0.
      unfold st_matches. cbn [r_width r_minus r_plus r_sharp r_space r_zero r_prec].
      replace (dval (c0 :: t0) <? 0) with false by (symmetry; apply Z.ltb_ge; exact Hd0).
      rewrite Z.abs_eq by exact Hd0.
      rewrite G1, G2, G3, G4, G5, G6, G7. cbn [set_wid wid widP fminus fplus fsharp fspace fzero].
      rewrite orb_false_r. repeat split; try assumption; try reflexivity; try lia; try discriminate. intros _. exact F9.
    + rewrite go_verb_arg by assumption. cbn [app]. reflexivity.
  - (* '*' width *)
    cbn [render_w app]. rewrite (go_flags_stop _ f1) by reflexivity.
    change (starts_bracket (42 :: render_p p ++ verb :: post)) with false. cbv iota.
    rewrite go_width_star. rewrite int_from_arg_int by exact Hlw.
    destruct (wv <? 0) eqn:EW.
    + apply Z.ltb_lt in EW.
      destruct (PREC (set_zero (set_minus (set_wid (set_wid f1 wv true) (- wv) true) true) false) (a :: more))
        as (f3 & (G1 & G2 & G3 & G4 & G5 & G6 & G7 & G8 & G9) & GE); [cbn; exact F3 | cbn; exact F4|].
      cbn [app] in GE |- *. rewrite GE. exists f3. split.
      * unfold st_matches. cbn [r_width r_minus r_plus r_sharp r_space r_zero r_prec].
        rewrite G1, G2, G3, G4, G5, G6, G7. cbn [set_wid set_minus set_zero wid widP fminus fplus fsharp fspace fzero].
        rewrite orb_true_r. repeat split; try assumption; try reflexivity; try lia; try discriminate.
      * rewrite go_verb_arg by assumption. cbn [app]. reflexivity.
    + apply Z.ltb_ge in EW.
      destruct (PREC (set_wid f1 wv true) (a :: more))
        as (f3 & (G1 & G2 & G3 & G4 & G5 & G6 & G7 & G8 & G9) & GE); [cbn; exact F3 | cbn; exact F4|].
      cbn [app] in GE |- *. rewrite GE. exists f3. split.
      * unfold st_matches. cbn [r_width r_minus r_plus r_sharp r_space r_zero r_prec].
        rewrite G1, G2, G3, G4, G5, G6, G7. cbn [set_wid wid widP fminus fplus fsharp fspace fzero].
        rewrite orb_false_r. rewrite Z.abs_eq by exact EW.
        repeat split; try assumption; try reflexivity; try lia; try discriminate. intros _. exact F9.
      * rewrite go_verb_arg by assumption. cbn [app]. reflexivity.
Qed.
