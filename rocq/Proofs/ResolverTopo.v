(* C16: the model of topoSort terminates within its fuel for every call graph
   and every permutation oracle, so [resolve] never answers RFuel. *)
From Verif Require Import Lib.Base Model.Resolver Proofs.Resolver Proofs.ResolverFlat Proofs.ResolverNoPanic
  Proofs.ResolverSound Proofs.ResolverExact.
From Coq Require Import Permutation.
Open Scope Z_scope.

Lemma remove_name_filter n l : remove_name n l = filter (fun x => negb (neqb x n)) l.
Proof. reflexivity. Qed.

Lemma remove_name_notin n l : ~ In n l -> remove_name n l = l.
Proof.
  unfold remove_name. induction l as [|x l IH]; intros H; cbn [filter]; [reflexivity|].
  destruct (neqb x n) eqn:E; cbn [negb].
  - apply neqb_eq in E. exfalso. apply H. left. exact E.
  - rewrite IH; [reflexivity|]. intros Hn. apply H. right. exact Hn.
Qed.

Lemma remove_name_head n l : ~ In n l -> remove_name n (n :: l) = l.
Proof. intros H. unfold remove_name. cbn [filter]. rewrite neqb_refl. cbn [negb]. apply remove_name_notin. exact H. Qed.

Lemma filter_filter {A} (f g : A -> bool) l : filter g (filter f l) = filter (fun x => f x && g x) l.
Proof.
  induction l as [|x l IH]; cbn [filter]; [reflexivity|].
  destruct (f x); cbn [filter andb]; [destruct (g x); rewrite IH; reflexivity | exact IH].
Qed.

Lemma filter_true {A} (l : list A) : filter (fun _ => true) l = l.
Proof. induction l as [|x l IH]; cbn [filter]; [reflexivity | rewrite IH; reflexivity]. Qed.

Lemma filter_len_le {A} (f : A -> bool) l : (length (filter f l) <= length l)%nat.
Proof. induction l as [|y l IH]; cbn [filter length]; [lia|]. destruct (f y); cbn [length]; lia. Qed.

Lemma filter_length_lt {A} (f : A -> bool) l x : In x l -> f x = false -> (length (filter f l) < length l)%nat.
Proof.
  induction l as [|y l IH]; intros Hin Hf; [destruct Hin|]. cbn [filter length].
  destruct Hin as [->|Hin].
  - rewrite Hf. pose proof (filter_len_le f l). lia.
  - specialize (IH Hin Hf). destruct (f y); cbn [length]; lia.
Qed.

Lemma keys_length_gen (g : graph) : (length (map fst g) <= length (graph_nodes g))%nat.
Proof.
  unfold graph_nodes. induction g as [|[k l] r IH]; cbn [map flat_map length]; [lia|].
  rewrite app_length. cbn [fst snd length]. lia.
Qed.

Section Topo.
Variable pi : oracle.
Hypothesis Hpi : perm_oracle pi.
Variable g : graph.

Let nodes := graph_nodes g.

Lemma pi_incl k l : incl (pi k l) l.
Proof. intros x Hx. eapply Permutation_in; [apply Hpi | exact Hx]. Qed.

Lemma gget_In n l : gget g n = Some l -> exists k, In (k, l) g.
Proof.
  induction g as [|[k v] r IH]; cbn [gget]; intros H; [discriminate|].
  destruct (neqb n k).
  - injection H as ->. exists k. left; reflexivity.
  - destruct (IH H) as [k' Hk']. exists k'. right; exact Hk'.
Qed.

Lemma succs_nodes n m : In m (succs g n) -> In m nodes.
Proof.
  unfold succs. destruct (gget g n) as [l|] eqn:E; [|intros []]. intros Hm.
  destruct (gget_In n l E) as [k Hk]. unfold nodes, graph_nodes. apply in_flat_map.
  exists (k, l). split; [exact Hk | right; exact Hm].
Qed.

Lemma keys_nodes k : In k (map fst g) -> In k nodes.
Proof.
  intros H. apply in_map_iff in H. destruct H as [[k' l] [<- He]]. unfold nodes, graph_nodes.
  apply in_flat_map. exists (k', l). split; [exact He | left; reflexivity].
Qed.

Lemma keys_length : (length (map fst g) <= length nodes)%nat.
Proof. apply keys_length_gen. Qed.

(* what a call of visit preserves *)
Definition vrel (ts ts' : tstate) : Prop :=
  t_temp ts' = t_temp ts /\
  (exists h, t_unmarked ts' = filter h (t_unmarked ts)) /\
  (forall x, In x (t_perm ts') -> In x (t_perm ts) \/ ~ In x (t_unmarked ts')).

Lemma vrel_refl ts : vrel ts ts.
Proof.
  split; [reflexivity|]. split; [|auto].
  exists (fun _ => true). symmetry. apply filter_true.
Qed.

Lemma vrel_trans a b c : vrel a b -> vrel b c -> vrel a c.
Proof.
  intros [A1 [[h1 A2] A3]] [B1 [[h2 B2] B3]]. split; [congruence|]. split.
  - exists (fun x => h1 x && h2 x). rewrite B2, A2. apply filter_filter.
  - intros x Hx. destruct (B3 x Hx) as [Hb|Hb]; [|right; exact Hb].
    destruct (A3 x Hb) as [Ha|Ha]; [left; exact Ha|]. right. intros Hc. apply Ha.
    rewrite B2 in Hc. apply filter_In in Hc. apply Hc.
Qed.

Lemma visit_vrel fuel : forall n ts ts', visit fuel pi g n ts = Some ts' -> vrel ts ts'.
Proof.
  induction fuel as [|fuel IH]; intros n ts ts' H; cbn [visit] in H; [discriminate|].
  destruct (mem n (t_perm ts)) eqn:Ep; [injection H as <-; apply vrel_refl|].
  destruct (mem n (t_temp ts)) eqn:Et; [injection H as <-; apply vrel_refl|].
  set (ts1 := {| t_unmarked := t_unmarked ts; t_perm := t_perm ts; t_temp := n :: t_temp ts;
                 t_sorted := t_sorted ts; t_ctr := S (t_ctr ts) |}) in *.
  match type of H with
  | match ?loop ?ms0 ts1 with _ => _ end = _ =>
      assert (Hgo : forall l a b, loop l a = Some b -> vrel a b)
  end.
  { induction l as [|m ms IHms]; intros a b Hab.
    - injection Hab as <-. apply vrel_refl.
    - destruct (visit fuel pi g m a) as [a'|] eqn:Ev; [|discriminate].
      eapply vrel_trans; [eapply IH; exact Ev | apply IHms; exact Hab]. }
  match type of H with
  | match ?loop ?ms0 ts1 with _ => _ end = _ => destruct (loop ms0 ts1) as [ts2|] eqn:Eloop; [|discriminate]
  end.
  injection H as <-. apply Hgo in Eloop. destruct Eloop as [A1 [[h A2] A3]]. cbn [t_temp t_unmarked t_perm] in *.
  apply mem_not_In in Et.
  split; cbn [t_temp t_unmarked t_perm].
  - rewrite A1. apply remove_name_head. exact Et.
  - split.
    + exists (fun x => h x && negb (neqb x n)). rewrite A2. rewrite remove_name_filter. apply filter_filter.
    + intros x [<-|Hx].
      * right. intros Hc. rewrite remove_name_filter in Hc. apply filter_In in Hc. destruct Hc as [_ Hc].
        rewrite neqb_refl in Hc. discriminate.
      * destruct (A3 x Hx) as [Ha|Ha]; [left; exact Ha|]. right. intros Hc. apply Ha.
        rewrite remove_name_filter in Hc. apply filter_In in Hc. apply Hc.
Qed.

Lemma visit_total fuel : forall n ts,
  NoDup (t_temp ts) -> incl (t_temp ts) nodes -> In n nodes ->
  (fuel + length (t_temp ts) > length nodes)%nat ->
  visit fuel pi g n ts <> None.
Proof.
  induction fuel as [|fuel IH]; intros n ts Hnd Hincl Hn Hf.
  - exfalso. pose proof (NoDup_incl_length Hnd Hincl). lia.
  - cbn [visit]. destruct (mem n (t_perm ts)); [discriminate|].
    destruct (mem n (t_temp ts)) eqn:Et; [discriminate|]. apply mem_not_In in Et.
    set (ts1 := {| t_unmarked := t_unmarked ts; t_perm := t_perm ts; t_temp := n :: t_temp ts;
                   t_sorted := t_sorted ts; t_ctr := S (t_ctr ts) |}).
    match goal with
    | |- match ?loop ?ms0 ts1 with _ => _ end <> None =>
        assert (Hgo : forall l a, incl l nodes -> t_temp a = n :: t_temp ts -> loop l a <> None)
    end.
    { induction l as [|m ms IHms]; intros a Hms Ha; [discriminate|].
      assert (Hv : visit fuel pi g m a <> None).
      { apply IH; rewrite ?Ha.
        - constructor; assumption.
        - intros x [<-|Hx]; [exact Hn | apply Hincl; exact Hx].
        - apply Hms. left; reflexivity.
        - cbn [length]. lia. }
      destruct (visit fuel pi g m a) as [a'|] eqn:Ev; [|congruence].
      apply IHms; [intros x Hx; apply Hms; right; exact Hx|].
      destruct (visit_vrel fuel m a a' Ev) as [A1 _]. congruence. }
    match goal with
    | |- match ?loop ?ms0 ts1 with _ => _ end <> None =>
        specialize (Hgo ms0 ts1); destruct (loop ms0 ts1); [discriminate|]
    end.
    apply Hgo; [|reflexivity].
    intros x Hx. apply pi_incl in Hx. eapply succs_nodes; exact Hx.
Qed.

(* the top-level loop *)
Definition top_inv (ts : tstate) : Prop :=
  t_temp ts = [] /\ incl (t_unmarked ts) nodes /\ (forall x, In x (t_unmarked ts) -> ~ In x (t_perm ts)).

Lemma topo_loop_total fuel vfuel : forall ts,
  top_inv ts -> (length (t_unmarked ts) < fuel)%nat -> (vfuel > length nodes)%nat ->
  topo_loop fuel vfuel pi g ts <> None.
Proof.
  induction fuel as [|fuel IH]; intros ts [J1 [J2 J3]] Hf Hv; [lia|].
  cbn [topo_loop]. destruct (t_unmarked ts) as [|u0 us] eqn:Eu; [discriminate|].
  rewrite <- Eu in *.
  set (ts1 := {| t_unmarked := t_unmarked ts; t_perm := t_perm ts; t_temp := t_temp ts;
                 t_sorted := t_sorted ts; t_ctr := S (t_ctr ts) |}).
  assert (Hne : exists n r, pi (t_ctr ts) (t_unmarked ts) = n :: r).
  { destruct (pi (t_ctr ts) (t_unmarked ts)) as [|n r] eqn:Ep; [|eauto].
    pose proof (Permutation_length (Hpi (t_ctr ts) (t_unmarked ts))) as Hl. rewrite Ep, Eu in Hl. discriminate. }
  destruct Hne as [n [r Ep]]. rewrite Ep.
  assert (Hn : In n (t_unmarked ts)) by (apply (pi_incl (t_ctr ts)); rewrite Ep; left; reflexivity).
  assert (Hvis : visit vfuel pi g n ts1 <> None).
  { apply visit_total; unfold ts1; cbn [t_temp]; rewrite ?J1.
    - constructor.
    - intros x [].
    - apply J2. exact Hn.
    - cbn [length]. lia. }
  destruct (visit vfuel pi g n ts1) as [ts2|] eqn:Ev; [|congruence].
  (* n was processed: it is no longer unmarked *)
  assert (Hshrink : (length (t_unmarked ts2) < length (t_unmarked ts))%nat /\ top_inv ts2).
  { subst ts1. pose proof (visit_vrel vfuel n _ ts2 Ev) as [A1 [[h A2] A3]]. cbn [t_temp t_unmarked t_perm] in *.
    assert (Hnp : ~ In n (t_unmarked ts2)).
    { destruct vfuel as [|vf]; [discriminate|]. cbn [visit t_temp t_perm] in Ev.
      assert (E1 : mem n (t_perm ts) = false) by (apply mem_not_In; apply J3; exact Hn).
      assert (E2 : mem n (t_temp ts) = false) by (rewrite J1; reflexivity).
      rewrite E1, E2 in Ev.
      match type of Ev with
      | match ?x with _ => _ end = _ => destruct x as [ts3|]; [|discriminate]
      end.
      injection Ev as <-. cbn [t_unmarked]. intros Hc. rewrite remove_name_filter in Hc. apply filter_In in Hc.
      destruct Hc as [_ Hc]. rewrite neqb_refl in Hc. discriminate. }
    split.
    - rewrite A2. apply (filter_length_lt h _ n Hn).
      destruct (h n) eqn:Eh; [|reflexivity]. exfalso. apply Hnp. rewrite A2. apply filter_In. split; assumption.
    - split; [congruence|]. split.
      + intros x Hx. rewrite A2 in Hx. apply filter_In in Hx. apply J2. apply Hx.
      + intros x Hx Hp. destruct (A3 x Hp) as [Ha|Ha]; [|contradiction].
        rewrite A2 in Hx. apply filter_In in Hx. apply (J3 x); [apply Hx | exact Ha]. }
  destruct Hshrink as [Hlt Hinv]. apply IH; [exact Hinv | lia | exact Hv].
Qed.

End Topo.

Lemma topo_sort_total pi (Hpi : perm_oracle pi) g : topo_sort pi g <> None.
Proof.
  unfold topo_sort. destruct g as [|e r] eqn:Eg; [discriminate|]. rewrite <- Eg.
  set (ts0 := {| t_unmarked := pi 0%nat (map fst g); t_perm := []; t_temp := []; t_sorted := []; t_ctr := 1%nat |}).
  assert (H : topo_loop (S (S (length (graph_nodes g)))) (S (S (length (graph_nodes g)))) pi g ts0 <> None).
  { apply topo_loop_total; [exact Hpi | | |].
    - split; [reflexivity|]. split; [|intros x _ []].
      intros x Hx. apply keys_nodes. apply (pi_incl pi Hpi 0%nat). exact Hx.
    - cbn [ts0 t_unmarked]. rewrite (Permutation_length (Hpi 0%nat (map fst g))). pose proof (keys_length_gen g). lia.
    - lia. }
  destruct (topo_loop _ _ pi g ts0); [discriminate | congruence].
Qed.


Theorem ordered_funcs_total pi P : perm_oracle pi -> ordered_funcs pi P <> None.
Proof.
  intros Hpi. unfold ordered_funcs. pose proof (topo_sort_total pi Hpi (call_graph P)) as H.
  destruct (topo_sort pi (call_graph P)) as [[sorted ctr]|]; [discriminate | congruence].
Qed.

(* the model's own fuel never runs out *)
Theorem resolve_cut_no_fuel cut pi P : perm_oracle pi -> resolve_cut cut pi P <> RFuel.
Proof.
  intros Hpi. unfold resolve_cut. destruct (first_dup [] (fnames P)); [discriminate|].
  pose proof (ordered_funcs_total pi P Hpi) as H.
  destruct (ordered_funcs pi P) as [order|]; [apply resolve_order_safe | congruence].
Qed.
