(* C13: what the theorems talk about.  Definitions only.
   The log of a run (st_log, newest event first) lists, in program order, what
   the program asked for (EvOpen, EvWrite, EvClose) and what its children did
   (EvStart, EvChildAppend, EvChildOut).  The functions below say what each
   destination must hold given that log: nothing but "the old contents, or
   nothing after a > open, followed by the writes in the order they were
   issued". *)
From Verif Require Import Lib.Base Model.Streams Proofs.StreamsBase.

Definition wdest_target (E : env) (d : wdest) : option name :=
  match d with WStdout => None | WFile n => Some n | WCmd c => cmd_target E c end.

Definition tgt_is (o : option name) (t : name) : bool :=
  match o with Some x => x =? t | None => false end.

(* file t after the events of log, starting from file system fs0 *)
Fixpoint expected_file (E : env) (fs0 : list (name * bytes)) (log : list event) (t : name) : bytes :=
  match log with
  | [] => fs_get fs0 t
  | e :: l =>
      let prev := expected_file E fs0 l t in
      match e with
      | EvOpen n KFile true => if n =? t then [] else prev
      | EvWrite d b => if tgt_is (wdest_target E d) t then prev ++ b else prev
      | EvChildAppend t' b => if t' =? t then prev ++ b else prev
      | _ => prev
      end
  end.

(* standard output after the events of log *)
Fixpoint expected_stdout (log : list event) : bytes :=
  match log with
  | [] => []
  | e :: l =>
      expected_stdout l ++
      match e with
      | EvWrite WStdout b => b
      | EvChildOut b => b
      | _ => []
      end
  end.

(* what goawk's own statements wrote to standard output *)
Fixpoint own_stdout (log : list event) : bytes :=
  match log with
  | [] => []
  | e :: l => own_stdout l ++ match e with EvWrite WStdout b => b | _ => [] end
  end.

(* every process was started with goawk's stdout buffer empty (or dead) *)
Definition start_ok (e : event) : Prop :=
  match e with EvStart _ pending err => pending = 0%nat \/ err = true | _ => True end.

(* ---- hypotheses on the program: destinations do not alias ---- *)
(* F: names the program uses as files; P: commands it pipes into; Q: every command it starts *)
Record alias_free (E : env) (F P Q : name -> Prop) : Prop := {
  af_PQ : forall c, P c -> Q c;
  af_file : forall c t, Q c -> c_sink (e_spec E c) = Some t -> ~ F t;
  af_pipe : forall c1 c2 t, P c1 -> Q c2 -> c1 <> c2 ->
            c_sink (e_spec E c1) = Some t -> c_sink (e_spec E c2) <> Some t
}.

Definition op_within (F P Q : name -> Prop) (o : op) : Prop :=
  match o with
  | Print (DRedir RPipe c) _ => P c
  | Print (DRedir _ n) _ => F n
  | PrintRec (DRedir RPipe c) _ => P c
  | PrintRec (DRedir _ n) _ => F n
  | System c => Q c
  | GetlineCmd c => Q c
  | _ => True
  end.

(* the three sets read off a program *)
Definition files_of (ops : list op) (n : name) : Prop :=
  exists r ps, r <> RPipe /\ In (Print (DRedir r n) ps) ops.
Definition pipes_of (ops : list op) (c : name) : Prop :=
  exists ps, In (Print (DRedir RPipe c) ps) ops.
Definition procs_of (ops : list op) (c : name) : Prop :=
  pipes_of ops c \/ In (System c) ops \/ In (GetlineCmd c) ops.

(* ---- invariants ---- *)
Definition out_content (s : state) : bytes := sk_data (st_sink s) ++ bw_buf (st_out s).

Definition nobuf (E : env) (s : state) : Prop :=
  match e_mode E with Buf _ => True | _ => bw_buf (st_out s) = [] end.

(* standard output works: the sink never fails and nothing has failed *)
Definition good (E : env) (s : state) : Prop :=
  sk_limit (st_sink s) = None /\ bw_err (st_out s) = false /\
  (forall n o, In (n, o) (st_outs s) -> os_cgfail o = false) /\
  expected_stdout (st_log s) = out_content s /\ nobuf E s.

(* buffered bytes of the stream that feeds file t *)
Fixpoint pend (E : env) (outs : list (name * ostream)) (t : name) : bytes :=
  match outs with
  | [] => []
  | (n, o) :: l => if tgt_is (stream_target E n o) t then os_buf o else pend E l t
  end.

Definition stream_ok (F P : name -> Prop) (fs : list (name * bytes)) (n : name) (o : ostream) : Prop :=
  match os_kind o with
  | KFile => F n /\ (forall off, os_off o = Some off -> off = length (fs_get fs n))
  | KCmd => P n
  end.

Definition outs_ok (F P : name -> Prop) (s : state) : Prop :=
  keys_nodup (st_outs s) /\ forall n o, In (n, o) (st_outs s) -> stream_ok F P (st_fs s) n o.

Definition file_inv (E : env) (fs0 : list (name * bytes)) (s : state) : Prop :=
  forall t, expected_file E fs0 (st_log s) t = fs_get (st_fs s) t ++ pend E (st_outs s) t.
