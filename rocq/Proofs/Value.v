(* C05 proofs (in progress) *)
From Verif Require Import Lib.Base Lib.Dyadic Lib.Utf8 Model.Value.
