(* C08: basic facts about the byte-string helpers of Model/Csv.v and about the UTF-8
   encoding of a valid separator. *)
From Verif Require Import Lib.Base Lib.Utf8 Model.Csv.
From Coq Require Import ZifyBool.

Ltac Zify.zify_post_hook ::= Z.div_mod_to_equations.

(* byte [b] does not occur in [u] *)
Definition nob (b : Z) (u : bytes) : Prop := Forall (fun x => x <> b) u.

Lemma nob_nil b : nob b []. Proof. constructor. Qed.
Lemma nob_cons b x u : nob b (x :: u) <-> x <> b /\ nob b u.
Proof. split; [intros H; inversion H; auto | intros [H1 H2]; constructor; auto]. Qed.
Lemma nob_app b u v : nob b (u ++ v) <-> nob b u /\ nob b v.
Proof. unfold nob. apply Forall_app. Qed.

(* ---- zlen / ztake / zdrop over appends ---------------------------------- *)

Lemma zdrop_app_len {A} (p s : list A) : zdrop (zlen p) (p ++ s) = s.
Proof. unfold zdrop, zlen. rewrite Nat2Z.id. induction p; cbn; auto. Qed.

Lemma ztake_app_len {A} (p s : list A) : ztake (zlen p) (p ++ s) = p.
Proof. unfold ztake, zlen. rewrite Nat2Z.id. induction p; cbn; auto. f_equal; auto. Qed.

Ltac zl := repeat (rewrite ?zlen_app, ?zlen_cons, ?zlen_nil in *).

Lemma zdrop_1_cons {A} (x : A) s : zdrop 1 (x :: s) = s.
Proof. reflexivity. Qed.

Lemma zlen_pos_cons {A} (x : A) s : 0 < zlen (x :: s).
Proof. rewrite zlen_cons. pose proof (zlen_nonneg s). lia. Qed.

Lemma zlen_0_nil {A} (s : list A) : zlen s = 0 -> s = [].
Proof. destruct s; auto. intros H. pose proof (zlen_pos_cons a s). lia. Qed.

(* ---- cut_nl -------------------------------------------------------------- *)

Lemma cut_nl_nl s : cut_nl (10 :: s) = Some ([10], s).
Proof. reflexivity. Qed.

Lemma cut_nl_cons x s : x <> 10 ->
  cut_nl (x :: s) = match cut_nl s with Some (u, v) => Some (x :: u, v) | None => None end.
Proof. intros H. cbn [cut_nl]. destruct (Z.eqb_spec x 10); [contradiction | reflexivity]. Qed.

Lemma cut_nl_app u s : nob 10 u ->
  cut_nl (u ++ s) = match cut_nl s with Some (l, d) => Some (u ++ l, d) | None => None end.
Proof.
  induction u as [|x u IH]; intros H; cbn [app].
  - destruct (cut_nl s) as [[l d]|]; reflexivity.
  - apply nob_cons in H as [Hx Hu]. rewrite cut_nl_cons by assumption. rewrite IH by assumption.
    destruct (cut_nl s) as [[l d]|]; reflexivity.
Qed.

Lemma cut_nl_none u : nob 10 u -> cut_nl u = None.
Proof.
  intros H. rewrite <- (app_nil_r u). rewrite cut_nl_app by assumption. reflexivity.
Qed.

Lemma cut_nl_some_inv s l d : cut_nl s = Some (l, d) ->
  exists u, l = u ++ [10] /\ nob 10 u /\ s = l ++ d.
Proof.
  revert l d; induction s as [|x s IH]; intros l d H; cbn [cut_nl] in H; [discriminate|].
  destruct (Z.eqb_spec x 10) as [->|Hx].
  - injection H as <- <-. exists []. repeat split. apply nob_nil.
  - destruct (cut_nl s) as [[u v]|] eqn:E; [|discriminate]. injection H as <- <-.
    destruct (IH _ _ eq_refl) as (w & -> & Hw & ->). exists (x :: w). repeat split.
    apply nob_cons; auto.
Qed.

Lemma cut_nl_none_inv s : cut_nl s = None -> nob 10 s.
Proof.
  induction s as [|x s IH]; intros H; [apply nob_nil|]. cbn [cut_nl] in H.
  destruct (Z.eqb_spec x 10); [discriminate|].
  destruct (cut_nl s) as [[u v]|]; [discriminate|]. apply nob_cons; auto.
Qed.

(* ---- cut_byte ------------------------------------------------------------ *)

Lemma cut_byte_app b u s : nob b u -> cut_byte b (u ++ b :: s) = Some (u, s).
Proof.
  induction u as [|x u IH]; intros H; cbn [app cut_byte].
  - rewrite Z.eqb_refl. reflexivity.
  - apply nob_cons in H as [Hx Hu]. destruct (Z.eqb_spec x b); [contradiction|].
    rewrite IH by assumption. reflexivity.
Qed.

Lemma cut_byte_none b u : nob b u -> cut_byte b u = None.
Proof.
  induction u as [|x u IH]; intros H; cbn [cut_byte]; [reflexivity|].
  apply nob_cons in H as [Hx Hu]. destruct (Z.eqb_spec x b); [contradiction|].
  rewrite IH by assumption. reflexivity.
Qed.

Lemma cut_byte_some_inv b s u v : cut_byte b s = Some (u, v) -> s = u ++ b :: v /\ nob b u.
Proof.
  revert u v; induction s as [|x s IH]; intros u v H; cbn [cut_byte] in H; [discriminate|].
  destruct (Z.eqb_spec x b) as [->|Hx].
  - injection H as <- <-. split; [reflexivity | apply nob_nil].
  - destruct (cut_byte b s) as [[u' v']|]; [|discriminate]. injection H as <- <-.
    destruct (IH _ _ eq_refl) as [-> Hn]. split; [reflexivity | apply nob_cons; auto].
Qed.

Lemma cut_byte_none_inv b s : cut_byte b s = None -> nob b s.
Proof.
  induction s as [|x s IH]; intros H; [apply nob_nil|]. cbn [cut_byte] in H.
  destruct (Z.eqb_spec x b); [discriminate|].
  destruct (cut_byte b s) as [[u v]|]; [discriminate|]. apply nob_cons; auto.
Qed.

(* ---- prefix_of / cut_sub ------------------------------------------------- *)

Lemma prefix_of_app p s : prefix_of p (p ++ s) = true.
Proof. induction p as [|x p IH]; cbn [app prefix_of]; [reflexivity|]. rewrite Z.eqb_refl. exact IH. Qed.

Lemma prefix_of_inv p s : prefix_of p s = true -> exists t, s = p ++ t.
Proof.
  revert s; induction p as [|x p IH]; intros s H; cbn [prefix_of] in H.
  - exists s. reflexivity.
  - destruct s as [|y s]; [discriminate|]. apply andb_true_iff in H as [H1 H2].
    apply Z.eqb_eq in H1 as ->. destruct (IH _ H2) as [t ->]. exists t. reflexivity.
Qed.

Lemma prefix_of_nil_r p : p <> [] -> prefix_of p [] = false.
Proof. destruct p; [congruence | reflexivity]. Qed.

(* no occurrence of [p] starts inside [u] when [u] is followed by [T] *)
Fixpoint no_occ (p u T : bytes) : Prop :=
  match u with
  | [] => True
  | _ :: u' => prefix_of p (u ++ T) = false /\ no_occ p u' T
  end.

Lemma cut_sub_unfold p s :
  cut_sub p s = if prefix_of p s then Some ([], zdrop (zlen p) s)
                else match s with
                     | [] => None
                     | x :: t => match cut_sub p t with
                                 | Some (u, v) => Some (x :: u, v)
                                 | None => None
                                 end
                     end.
Proof. destruct s; reflexivity. Qed.

Lemma cut_sub_app p u T : no_occ p u T ->
  cut_sub p (u ++ T) = match cut_sub p T with Some (a, b) => Some (u ++ a, b) | None => None end.
Proof.
  induction u as [|x u IH]; intros H.
  - cbn [app]. destruct (cut_sub p T) as [[a b]|]; reflexivity.
  - cbn [no_occ] in H. destruct H as [H1 H2]. rewrite cut_sub_unfold. rewrite H1. cbn [app].
    rewrite IH by assumption. destruct (cut_sub p T) as [[a b]|]; reflexivity.
Qed.

Lemma cut_sub_here p s : cut_sub p (p ++ s) = Some ([], s).
Proof. rewrite cut_sub_unfold. rewrite prefix_of_app. rewrite zdrop_app_len. reflexivity. Qed.

Lemma cut_sub_found p u s : no_occ p u (p ++ s) -> cut_sub p (u ++ p ++ s) = Some (u, s).
Proof. intros H. rewrite cut_sub_app by assumption. rewrite cut_sub_here. rewrite app_nil_r. reflexivity. Qed.

(* [p] does not occur in [u ++ T] at all *)
Lemma cut_sub_none p u T : no_occ p u T -> cut_sub p T = None -> cut_sub p (u ++ T) = None.
Proof. intros H E. rewrite cut_sub_app by assumption. rewrite E. reflexivity. Qed.

Lemma cut_sub_short p T : prefix_of p T = false -> (forall x t, T = x :: t -> cut_sub p t = None) ->
  cut_sub p T = None.
Proof.
  intros H1 H2. rewrite cut_sub_unfold, H1. destruct T as [|x t]; [reflexivity|].
  rewrite (H2 x t eq_refl). reflexivity.
Qed.

(* splitting a match of [p] across [v ++ T] *)
Lemma prefix_of_split p v T : prefix_of p (v ++ T) = true ->
  prefix_of p v = true \/ exists p2, p = v ++ p2 /\ p2 <> [] /\ prefix_of p2 T = true.
Proof.
  revert v; induction p as [|x p IH]; intros v H.
  - left. reflexivity.
  - destruct v as [|y v].
    + right. exists (x :: p). repeat split; [discriminate | exact H].
    + cbn [app prefix_of] in H. apply andb_true_iff in H as [H1 H2]. apply Z.eqb_eq in H1 as ->.
      destruct (IH _ H2) as [Hl | (p2 & -> & Hne & Hp)].
      * left. cbn [prefix_of]. rewrite Z.eqb_refl. exact Hl.
      * right. exists p2. repeat split; assumption.
Qed.

Lemma has_sub_cons p x u : has_sub p (x :: u) = prefix_of p (x :: u) || has_sub p u.
Proof. reflexivity. Qed.

(* the text that follows a field starts with a byte that is not a UTF-8 continuation byte
   (a separator's first byte, a newline) or is empty *)
Definition tstart_ok (T : bytes) : Prop :=
  match T with [] => True | t0 :: _ => is_cont t0 = false end.

Lemma no_occ_of_has_sub b0 cs u T :
  forallb is_cont cs = true -> has_sub (b0 :: cs) u = false -> tstart_ok T ->
  no_occ (b0 :: cs) u T.
Proof.
  intros Hcs. induction u as [|x u IH]; intros Hs HT; cbn [no_occ]; [exact I|].
  rewrite has_sub_cons in Hs. apply orb_false_iff in Hs as [Hp Hs]. split; [|auto].
  destruct (prefix_of (b0 :: cs) ((x :: u) ++ T)) eqn:E; [|reflexivity]. exfalso.
  destruct (prefix_of_split _ _ _ E) as [Hl | (p2 & Heq & Hne & Hp2)]; [congruence|].
  (* p2 is a non-empty proper suffix of b0 :: cs: its head is a continuation byte *)
  cbn [app] in Heq. injection Heq as -> Hcs'. subst cs.
  rewrite forallb_app in Hcs. apply andb_true_iff in Hcs as [_ Hc2].
  destruct p2 as [|c p2]; [congruence|]. cbn [forallb] in Hc2. apply andb_true_iff in Hc2 as [Hc _].
  destruct T as [|t0 T]; [discriminate|]. cbn [prefix_of] in Hp2. apply andb_true_iff in Hp2 as [Hc0 _].
  apply Z.eqb_eq in Hc0 as ->. cbn [tstart_ok] in HT. congruence.
Qed.

(* ---- last_is / len_newline ----------------------------------------------- *)

Lemma last_is_snoc b u x : last_is b (u ++ [x]) = (x =? b).
Proof.
  induction u as [|y u IH]; [reflexivity|]. cbn [app last_is].
  destruct (u ++ [x]) as [|z w] eqn:E; [destruct u; discriminate|]. exact IH.
Qed.

Lemma last_is_nob b u : nob b u -> last_is b u = false.
Proof.
  induction u as [|x u IH]; intros H; [reflexivity|]. apply nob_cons in H as [Hx Hu]. cbn [last_is].
  destruct u as [|y u]; [apply Z.eqb_neq; exact Hx | apply IH; exact Hu].
Qed.

Lemma len_newline_cons x u : 2 <= zlen u -> len_newline (x :: u) = len_newline u.
Proof.
  destruct u as [|y [|z u]]; intros H; [cbn in H; lia | cbn in H; lia | reflexivity].
Qed.

Lemma len_newline_range u : 0 <= len_newline u <= 2 /\ len_newline u <= zlen u.
Proof.
  induction u as [|x u IH]; [cbn; lia|].
  destruct u as [|y [|z u]].
  - cbn. destruct (x =? 10); cbn; lia.
  - cbn. destruct (y =? 10); [destruct (x =? 13)|]; cbn; lia.
  - rewrite len_newline_cons by (zl; pose proof (zlen_nonneg u); lia).
    rewrite (zlen_cons x). lia.
Qed.

(* a line whose content [u] has no CR and no LF, closed by LF: the newline has length 1 *)
Lemma len_newline_lf u : nob 13 u -> len_newline (u ++ [10]) = 1.
Proof.
  induction u as [|x u IH]; intros H; [reflexivity|]. apply nob_cons in H as [Hx Hu].
  destruct u as [|y u].
  - cbn. destruct (Z.eqb_spec x 13); [contradiction | reflexivity].
  - rewrite <- app_comm_cons. rewrite len_newline_cons; [apply IH; exact Hu|].
    zl. pose proof (zlen_nonneg u). lia.
Qed.

Lemma len_newline_no_lf u : nob 10 u -> len_newline u = 0.
Proof.
  induction u as [|x u IH]; intros H; [reflexivity|]. apply nob_cons in H as [Hx Hu].
  destruct u as [|y [|z u]].
  - cbn. destruct (Z.eqb_spec x 10); [contradiction | reflexivity].
  - apply nob_cons in Hu as [Hy _]. cbn. destruct (Z.eqb_spec y 10); [contradiction | reflexivity].
  - rewrite len_newline_cons; [apply IH; exact Hu|]. zl. pose proof (zlen_nonneg u). lia.
Qed.

Lemma ztake_snoc {A} (u : list A) x : ztake (zlen (u ++ [x]) - 1) (u ++ [x]) = u.
Proof. zl. replace (zlen u + (1 + 0) - 1) with (zlen u) by lia. apply ztake_app_len. Qed.

(* ---- UTF-8 of a valid separator ------------------------------------------ *)

Definition valid_sep (r : Z) : Prop := valid_csv_separator r = true.

Lemma valid_sep_iff r : valid_sep r <->
  r <> 0 /\ r <> 34 /\ r <> 13 /\ r <> 10 /\ r <> 65533 /\
  (0 <= r < 55296 \/ 57343 < r <= 1114111).
Proof. unfold valid_sep, valid_csv_separator, valid_rune, rune_error. lia. Qed.

Lemma is_cont_iff b : is_cont b = true <-> 128 <= b <= 191.
Proof. unfold is_cont. lia. Qed.

(* shape of the encoding: a lead byte that is not a continuation byte, then continuation bytes *)
Lemma enc_shape r : valid_sep r ->
  exists b0 cs, encode_rune r = b0 :: cs /\ is_cont b0 = false /\ forallb is_cont cs = true /\
    b0 <> 10 /\ b0 <> 13 /\ b0 <> 34.
Proof.
  intros H. apply valid_sep_iff in H. unfold encode_rune.
  replace ((r <? 0) || (1114111 <? r) || ((55296 <=? r) && (r <=? 57343))) with false by lia.
  destruct (Z.ltb_spec r 128).
  { exists r, []. unfold is_cont. cbn [forallb]. repeat split; lia. }
  destruct (Z.ltb_spec r 2048).
  { eexists _, _. split; [reflexivity|]. unfold is_cont. cbn [forallb]. repeat split; lia. }
  destruct (Z.ltb_spec r 65536).
  { eexists _, _. split; [reflexivity|]. unfold is_cont. cbn [forallb]. repeat split; lia. }
  eexists _, _. split; [reflexivity|]. unfold is_cont. cbn [forallb]. repeat split; lia.
Qed.

Lemma rune_len_enc r : valid_sep r -> rune_len r = zlen (encode_rune r).
Proof.
  intros H. apply valid_sep_iff in H. unfold encode_rune, rune_len.
  replace ((r <? 0) || (1114111 <? r) || ((55296 <=? r) && (r <=? 57343))) with false by lia.
  replace (r <? 0) with false by lia.
  destruct (Z.ltb_spec r 128); [reflexivity|].
  destruct (Z.ltb_spec r 2048); [reflexivity|].
  replace ((55296 <=? r) && (r <=? 57343)) with false by lia.
  destruct (Z.ltb_spec r 65536); [reflexivity|].
  replace (r <=? 1114111) with true by lia. reflexivity.
Qed.

Lemma decode_encode r X : valid_sep r -> fst (decode_rune (encode_rune r ++ X)) = r.
Proof.
  intros H. apply valid_sep_iff in H. unfold encode_rune.
  replace ((r <? 0) || (1114111 <? r) || ((55296 <=? r) && (r <=? 57343))) with false by lia.
  destruct (Z.ltb_spec r 128).
  { cbn [app decode_rune]. replace (r <? 128) with true by lia. reflexivity. }
  destruct (Z.ltb_spec r 2048).
  { cbn [app decode_rune]. unfold in_rng, is_cont.
    replace (192 + r / 64 <? 128) with false by lia.
    replace ((194 <=? 192 + r / 64) && (192 + r / 64 <=? 223)) with true by lia.
    replace ((128 <=? 128 + r mod 64) && (128 + r mod 64 <=? 191)) with true by lia.
    cbn [fst]. lia. }
  destruct (Z.ltb_spec r 65536).
  { cbn [app decode_rune]. unfold in_rng, is_cont.
    replace (224 + r / 4096 <? 128) with false by lia.
    replace ((194 <=? 224 + r / 4096) && (224 + r / 4096 <=? 223)) with false by lia.
    replace ((224 <=? 224 + r / 4096) && (224 + r / 4096 <=? 239)) with true by lia.
    match goal with |- fst (if ?c then _ else _) = _ => replace c with true end.
    - cbn [fst]. lia.
    - destruct (Z.eqb_spec (224 + r / 4096) 224); destruct (Z.eqb_spec (224 + r / 4096) 237); lia. }
  cbn [app decode_rune]. unfold in_rng, is_cont.
  replace (240 + r / 262144 <? 128) with false by lia.
  replace ((194 <=? 240 + r / 262144) && (240 + r / 262144 <=? 223)) with false by lia.
  replace ((224 <=? 240 + r / 262144) && (240 + r / 262144 <=? 239)) with false by lia.
  replace ((240 <=? 240 + r / 262144) && (240 + r / 262144 <=? 244)) with true by lia.
  match goal with |- fst (if ?c then _ else _) = _ => replace c with true end.
  - cbn [fst]. lia.
  - destruct (Z.eqb_spec (240 + r / 262144) 240); destruct (Z.eqb_spec (240 + r / 262144) 244); lia.
Qed.

Lemma encode_nonempty r : 1 <= zlen (encode_rune r).
Proof.
  unfold encode_rune.
  destruct ((r <? 0) || (1114111 <? r) || ((55296 <=? r) && (r <=? 57343)));
    repeat match goal with |- context [if ?c then _ else _] => destruct c end; cbn; lia.
Qed.

(* ---- separator / comment validation --------------------------------------- *)

Lemma validate_csv_input_iff sep com :
  validate_csv_input sep com = true <-> valid_sep sep /\ (com = 0 \/ valid_sep com) /\ sep <> com.
Proof.
  unfold validate_csv_input, valid_sep.
  destruct (valid_csv_separator sep), (valid_csv_separator com), (Z.eqb_spec sep com), (Z.eqb_spec com 0);
    cbn; intuition (try lia; try congruence).
Qed.
