(* C12: proofs about Model/Sandbox.v — for every configuration, every environment
   (answers of the open function, record counts, process-start results), every
   state and every history of requests. *)
From Verif Require Import Lib.Base Gen.Consts Model.Sandbox.

(* ---- effects allowed under a configuration ------------------------------- *)

Definition forbidden (c : config) (x : effect) : bool :=
  (noExec c && is_start x) || (noFileWrites c && is_write_open x) || (noFileReads c && is_read_open x).

Definition allowed (c : config) (x : effect) : bool := negb (forbidden c x).

Lemma allowed_app c l1 l2 :
  forallb (allowed c) l1 = true -> forallb (allowed c) l2 = true -> forallb (allowed c) (l1 ++ l2) = true.
Proof. intros H1 H2. rewrite forallb_app, H1, H2. reflexivity. Qed.

Lemma allowed_benign c x :
  is_start x = false -> is_write_open x = false -> is_read_open x = false -> allowed c x = true.
Proof. intros H1 H2 H3. unfold allowed, forbidden. rewrite H1, H2, H3, !andb_false_r. reflexivity. Qed.

Ltac benign := cbn [forallb]; rewrite ?allowed_benign by reflexivity; reflexivity.

Ltac destruct_matches :=
  repeat match goal with
  | |- context [match ?x with _ => _ end] => destruct x eqn:?
  | |- context [if ?x then _ else _] => destruct x eqn:?
  end.

Ltac flags c := destruct c as [ne nw nr nav]; cbn [noExec noFileWrites noFileReads noArgVars] in *.

Lemma gos_allowed c e s rd n effs o s' :
  get_output_stream c e s rd n = (effs, o, s') -> forallb (allowed c) effs = true.
Proof.
  unfold get_output_stream. intros H.
  destruct (lookup n (ins s)); [injection H as <- <- <-; benign|].
  destruct (lookup n (outs s)); [injection H as <- <- <-; benign|].
  flags c. unfold allowed, forbidden. cbn [noExec noFileWrites noFileReads].
  destruct rd;
  repeat match type of H with
  | (if ?x then _ else _) = _ => destruct x eqn:?
  | match ?x with _ => _ end = _ => destruct x eqn:?
  end; injection H as <- <- <-; subst; cbn; rewrite ?andb_false_r; try reflexivity.
Qed.

Lemma gisf_allowed c e s n effs o s' :
  get_input_scanner_file c e s n = (effs, o, s') -> forallb (allowed c) effs = true.
Proof.
  unfold get_input_scanner_file. intros H.
  destruct (lookup n (outs s)); [injection H as <- <- <-; benign|].
  destruct (lookup n (ins s)); [injection H as <- <- <-; benign|].
  flags c. unfold allowed, forbidden. cbn [noExec noFileWrites noFileReads].
  repeat match type of H with
  | (if ?x then _ else _) = _ => destruct x eqn:?
  | match ?x with _ => _ end = _ => destruct x eqn:?
  end; injection H as <- <- <-; subst; cbn; rewrite ?andb_false_r; try reflexivity.
Qed.

Lemma gisp_allowed c e s n effs o s' :
  get_input_scanner_pipe c e s n = (effs, o, s') -> forallb (allowed c) effs = true.
Proof.
  unfold get_input_scanner_pipe. intros H.
  destruct (lookup n (outs s)); [injection H as <- <- <-; benign|].
  destruct (lookup n (ins s)); [injection H as <- <- <-; benign|].
  flags c. unfold allowed, forbidden. cbn [noExec noFileWrites noFileReads].
  repeat match type of H with
  | (if ?x then _ else _) = _ => destruct x eqn:?
  end; injection H as <- <- <-; subst; cbn; rewrite ?andb_false_r; try reflexivity.
Qed.

Lemma system_allowed c e s n effs o s' :
  builtin_system c e s n = (effs, o, s') -> forallb (allowed c) effs = true.
Proof.
  unfold builtin_system. intros H. flags c. unfold allowed, forbidden. cbn [noExec noFileWrites noFileReads].
  destruct ne; injection H as <- <- <-; cbn; rewrite ?andb_false_r; reflexivity.
Qed.

Lemma close_allowed c s n effs o s' :
  builtin_close s n = (effs, o, s') -> forallb (allowed c) effs = true.
Proof.
  unfold builtin_close. intros H. unfold allowed, forbidden.
  destruct (lookup n (ins s)); [injection H as <- <- <-; cbn; rewrite ?andb_false_r; reflexivity|].
  destruct (lookup n (outs s)); injection H as <- <- <-; cbn; rewrite ?andb_false_r; reflexivity.
Qed.

Lemma allowed_usestd c w : allowed c (UseStd w) = true.
Proof. unfold allowed, forbidden. cbn. rewrite !andb_false_r. reflexivity. Qed.

Lemma allowed_read c n : noFileReads c = false -> allowed c (CallOpenFile n ORead) = true.
Proof. intros H. unfold allowed, forbidden. cbn. rewrite H, !andb_false_r. reflexivity. Qed.

Lemma nll_allowed fuel : forall c e s effs o s',
  next_line_loop fuel c e s = (effs, o, s') -> forallb (allowed c) effs = true.
Proof.
  induction fuel as [|f IH]; intros c e s effs o s' H.
  - cbn in H. injection H as <- <- <-. reflexivity.
  - cbn [next_line_loop] in H.
    assert (ATT : forall effs0 k s0 effs1 o1 s1,
      forallb (allowed c) effs0 = true ->
      match k with
      | S k' => (effs0, NLRecord, set_main_in (Some k') s0)
      | O => let '(e2, o2, s2) := next_line_loop f c e (set_main_in None s0) in (effs0 ++ e2, o2, s2)
      end = (effs1, o1, s1) -> forallb (allowed c) effs1 = true).
    { intros effs0 k s0 effs1 o1 s1 Ha Hm. destruct k.
      - destruct (next_line_loop f c e (set_main_in None s0)) as [[e2 o2] s2] eqn:Hr.
        injection Hm as <- <- <-. apply allowed_app; [exact Ha|]. eapply IH; exact Hr.
      - injection Hm as <- <- <-. exact Ha. }
    destruct ((argc s <=? fidx s) && negb (had_files s)).
    { eapply ATT; [|exact H]. cbn. rewrite allowed_usestd. reflexivity. }
    destruct (argc s <=? fidx s). { injection H as <- <- <-. reflexivity. }
    destruct (negb (noArgVars c) && is_var_assign (argv_get (fidx s) (argv s))). { eapply IH; exact H. }
    destruct (bytes_eqb (argv_get (fidx s) (argv s)) []). { eapply IH; exact H. }
    destruct (bytes_eqb (argv_get (fidx s) (argv s)) dash).
    { eapply ATT; [|exact H]. cbn. rewrite allowed_usestd. reflexivity. }
    destruct (noFileReads c) eqn:Hnr. { injection H as <- <- <-. reflexivity. }
    destruct (os_open e _ _ ORead).
    + eapply ATT; [|exact H]. cbn. rewrite (allowed_read c _ Hnr). reflexivity.
    + injection H as <- <- <-. cbn. rewrite (allowed_read c _ Hnr). reflexivity.
    + injection H as <- <- <-. cbn. rewrite (allowed_read c _ Hnr). reflexivity.
Qed.

Lemma next_line_allowed c e s effs o s' :
  next_line c e s = (effs, o, s') -> forallb (allowed c) effs = true.
Proof.
  unfold next_line. intros H. destruct (main_in s) as [[|k]|].
  - eapply nll_allowed; exact H.
  - injection H as <- <- <-. reflexivity.
  - eapply nll_allowed; exact H.
Qed.

Lemma next_line_via_allowed c e s v effs o s' :
  next_line_via c e s v = (effs, o, s') -> forallb (allowed c) effs = true.
Proof.
  unfold next_line_via. intros H. destruct (next_line c e s) as [[e1 o1] s1] eqn:Hn.
  apply next_line_allowed in Hn.
  destruct o1; destruct v; injection H as <- <- <-; exact Hn.
Qed.

Lemma io_step_allowed c e s r effs o s' :
  io_step c e s r = (effs, o, s') -> forallb (allowed c) effs = true.
Proof.
  destruct r; cbn [io_step]; intros H.
  - eapply gos_allowed; exact H.
  - eapply gos_allowed; exact H.
  - eapply gos_allowed; exact H.
  - eapply gisf_allowed; exact H.
  - eapply gisp_allowed; exact H.
  - eapply system_allowed; exact H.
  - eapply next_line_via_allowed; exact H.
  - eapply close_allowed; exact H.
  - injection H as <- <- <-. reflexivity.
  - destruct (maxFieldIndex <? n); injection H as <- <- <-; reflexivity.
  - unfold builtin_fflush in H. destruct (bytes_eqb name []); [|destruct (lookup name (outs s))];
      injection H as <- <- <-; reflexivity.
Qed.

Lemma run_allowed c e : forall h s, forallb (allowed c) (run_effects c e s h) = true.
Proof.
  unfold run_effects, effects_of.
  induction h as [|r h IH]; intros s; [reflexivity|].
  cbn [run_log]. destruct (io_step c e s r) as [[effs o] s'] eqn:Hs.
  cbn [map fst concat]. apply allowed_app.
  - eapply io_step_allowed; exact Hs.
  - destruct (is_continue o); [apply IH | reflexivity].
Qed.

(* ---- the three confinement theorems --------------------------------------- *)

Lemma allowed_in c l x : forallb (allowed c) l = true -> In x l -> forbidden c x = false.
Proof.
  intros H Hin. rewrite forallb_forall in H. specialize (H x Hin). unfold allowed in H.
  destruct (forbidden c x); [discriminate | reflexivity].
Qed.

Theorem noexec_confines : forall c e s h,
  noExec c = true -> forall cmd, ~ In (StartProcess cmd) (run_effects c e s h).
Proof.
  intros c e s h Hf cmd Hin.
  pose proof (allowed_in c _ _ (run_allowed c e h s) Hin) as H.
  unfold forbidden in H. rewrite Hf in H. cbn in H. discriminate.
Qed.

Theorem nofilewrites_confines : forall c e s h,
  noFileWrites c = true -> forall n fl, In (CallOpenFile n fl) (run_effects c e s h) -> fl = ORead.
Proof.
  intros c e s h Hf n fl Hin.
  pose proof (allowed_in c _ _ (run_allowed c e h s) Hin) as H.
  unfold forbidden in H. rewrite Hf in H.
  destruct fl; [reflexivity | | ]; cbn in H; rewrite ?orb_true_r in H; discriminate.
Qed.

Theorem nofilereads_confines : forall c e s h,
  noFileReads c = true -> forall n, ~ In (CallOpenFile n ORead) (run_effects c e s h).
Proof.
  intros c e s h Hf n Hin.
  pose proof (allowed_in c _ _ (run_allowed c e h s) Hin) as H.
  unfold forbidden in H. rewrite Hf in H. cbn in H. rewrite ?orb_true_r in H. discriminate.
Qed.

(* ---- nextLine never runs out of fuel --------------------------------------- *)

Definition nl_measure (s : state) : nat := Z.to_nat (argc s - fidx s) + (if had_files s then 0 else 1).

Lemma nll_no_fuel fuel : forall c e s,
  (nl_measure s < fuel)%nat -> snd (fst (next_line_loop fuel c e s)) <> NLFuel.
Proof.
  induction fuel as [|f IH]; intros c e s Hm; [lia|].
  cbn [next_line_loop].
  assert (ATT : forall effs0 k s0, (nl_measure s0 < f)%nat ->
      snd (fst (match k with
      | S k' => (effs0, NLRecord, set_main_in (Some k') s0)
      | O => let '(e2, o2, s2) := next_line_loop f c e (set_main_in None s0) in (effs0 ++ e2, o2, s2)
      end)) <> NLFuel).
  { intros effs0 k s0 Hlt. destruct k; [|cbn; discriminate].
    specialize (IH c e (set_main_in None s0)).
    destruct (next_line_loop f c e (set_main_in None s0)) as [[e2 o2] s2]. cbn in *. apply IH. exact Hlt. }
  unfold nl_measure in Hm.
  destruct (argc s <=? fidx s) eqn:Hle; cbn [andb].
  - apply Z.leb_le in Hle.
    destruct (had_files s) eqn:Hh; cbn [negb].
    + cbn. discriminate.
    + apply ATT. unfold nl_measure. cbn. lia.
  - apply Z.leb_gt in Hle.
    assert (Hdec : forall s1, argc s1 = argc s -> fidx s1 = fidx s + 1 ->
                   (had_files s = true -> had_files s1 = true) -> (nl_measure s1 < f)%nat).
    { intros s1 Ha Hf Hh. unfold nl_measure. rewrite Ha, Hf.
      destruct (had_files s); [rewrite (Hh eq_refl); lia | destruct (had_files s1); lia]. }
    destruct (negb (noArgVars c) && is_var_assign (argv_get (fidx s) (argv s))). { apply IH, Hdec; cbn; auto. }
    destruct (bytes_eqb (argv_get (fidx s) (argv s)) []). { apply IH, Hdec; cbn; auto. }
    destruct (bytes_eqb (argv_get (fidx s) (argv s)) dash). { apply ATT, Hdec; cbn; auto. }
    destruct (noFileReads c). { cbn. discriminate. }
    destruct (os_open e _ _ ORead); [apply ATT, Hdec; cbn; auto | cbn; discriminate | cbn; discriminate].
Qed.

Lemma next_line_no_fuel c e s : snd (fst (next_line c e s)) <> NLFuel.
Proof.
  unfold next_line, next_line_fuel. destruct (main_in s) as [[|k]|].
  - apply nll_no_fuel. unfold nl_measure. cbn. destruct (had_files s); lia.
  - cbn. discriminate.
  - apply nll_no_fuel. unfold nl_measure. destruct (had_files s); lia.
Qed.

Theorem io_step_no_fuel : forall c e s r, snd (fst (io_step c e s r)) <> Fuel.
Proof.
  intros c e s r. destruct r; cbn [io_step].
  1-3: unfold get_output_stream; destruct_matches; cbn; discriminate.
  - unfold get_input_scanner_file; destruct_matches; cbn; discriminate.
  - unfold get_input_scanner_pipe; destruct_matches; cbn; discriminate.
  - unfold builtin_system; destruct_matches; cbn; discriminate.
  - unfold next_line_via. pose proof (next_line_no_fuel c e s) as H.
    destruct (next_line c e s) as [[e1 o1] s1]. cbn in H.
    destruct o1 as [| |x|]; destruct v; try destruct x; cbn; try discriminate; congruence.
  - unfold builtin_close; destruct_matches; cbn; discriminate.
  - cbn. discriminate.
  - destruct (maxFieldIndex <? n); cbn; discriminate.
  - unfold builtin_fflush; destruct_matches; cbn; discriminate.
Qed.

(* ---- a Stop is the last thing that happens ---------------------------------- *)

Theorem stop_ends_run : forall c e h s,
  Forall (fun p => is_continue (snd p) = true) (removelast (run_log c e s h)).
Proof.
  intros c e. induction h as [|r h IH]; intros s; [constructor|].
  cbn [run_log]. destruct (io_step c e s r) as [[effs o] s'].
  destruct (is_continue o) eqn:Ho.
  - destruct (run_log c e s' h) eqn:Hl.
    + constructor.
    + change ((effs, o) :: p :: l) with ([(effs, o)] ++ (p :: l)).
      rewrite removelast_app by discriminate. cbn [app]. constructor; [exact Ho|].
      rewrite <- Hl. apply IH.
  - constructor.
Qed.

Lemma run_log_length c e : forall h s, (length (run_log c e s h) <= length h)%nat.
Proof.
  induction h as [|r h IH]; intros s; [cbn; lia|].
  cbn [run_log]. destruct (io_step c e s r) as [[effs o] s'].
  destruct (is_continue o); cbn [length]; [specialize (IH s'); lia | lia].
Qed.

Definition all_continue (log : list (list effect * step_out)) : bool := forallb (fun p => is_continue (snd p)) log.

Lemma run_log_app c e : forall h1 h2 s,
  run_log c e s (h1 ++ h2) =
  if all_continue (run_log c e s h1)
  then run_log c e s h1 ++ run_log c e (run_state c e s h1) h2
  else run_log c e s h1.
Proof.
  induction h1 as [|r h1 IH]; intros h2 s; [reflexivity|].
  cbn [app run_log run_state]. destruct (io_step c e s r) as [[effs o] s'].
  destruct (is_continue o) eqn:Ho.
  - rewrite IH. unfold all_continue. cbn [forallb snd]. rewrite Ho. cbn [andb].
    fold (all_continue (run_log c e s' h1)).
    destruct (all_continue (run_log c e s' h1)); reflexivity.
  - unfold all_continue. cbn [forallb snd]. rewrite Ho. reflexivity.
Qed.

(* ---- nextLine only ever uses standard input or opens a file for reading ------ *)

Definition nl_eff (x : effect) : bool :=
  match x with UseStd _ => true | CallOpenFile _ ORead => true | _ => false end.

Lemma nll_shape fuel : forall c e s, forallb nl_eff (fst (fst (next_line_loop fuel c e s))) = true.
Proof.
  induction fuel as [|f IH]; intros c e s; [reflexivity|].
  cbn [next_line_loop].
  assert (ATT : forall effs0 k s0, forallb nl_eff effs0 = true ->
      forallb nl_eff (fst (fst (match k with
      | S k' => (effs0, NLRecord, set_main_in (Some k') s0)
      | O => let '(e2, o2, s2) := next_line_loop f c e (set_main_in None s0) in (effs0 ++ e2, o2, s2)
      end))) = true).
  { intros effs0 k s0 H0. destruct k; [|exact H0].
    specialize (IH c e (set_main_in None s0)).
    destruct (next_line_loop f c e (set_main_in None s0)) as [[e2 o2] s2]. cbn in *.
    rewrite forallb_app, H0, IH. reflexivity. }
  destruct ((argc s <=? fidx s) && negb (had_files s)). { apply ATT. reflexivity. }
  destruct (argc s <=? fidx s). { reflexivity. }
  destruct (negb (noArgVars c) && is_var_assign (argv_get (fidx s) (argv s))). { apply IH. }
  destruct (bytes_eqb (argv_get (fidx s) (argv s)) []). { apply IH. }
  destruct (bytes_eqb (argv_get (fidx s) (argv s)) dash). { apply ATT. reflexivity. }
  destruct (noFileReads c). { reflexivity. }
  destruct (os_open e _ _ ORead); [apply ATT; reflexivity | reflexivity | reflexivity].
Qed.

Lemma next_line_shape c e s : forallb nl_eff (fst (fst (next_line c e s))) = true.
Proof.
  unfold next_line. destruct (main_in s) as [[|k]|]; [apply nll_shape | reflexivity | apply nll_shape].
Qed.

(* ---- a denied attempt stops the run ------------------------------------------ *)

Definition permissive (c : config) : config := mkConfig false false false (noArgVars c).

(* the request, in this state, would open a file / start a process that a set flag forbids *)
Definition attempts (c : config) (e : env) (s : state) (r : req) : Prop :=
  existsb (forbidden c) (fst (fst (io_step (permissive c) e s r))) = true.

Definition is_sandbox_err (x : err) : bool :=
  match x with ENoFileWrites | ENoExecPipeOut | ENoFileReads | ENoExecPipeIn | ENoExecSystem => true | _ => false end.

(* only standard streams were touched *)
Definition is_std (x : effect) : bool := match x with UseStd _ => true | _ => false end.

Definition denied_stops (c : config) (e : env) (s : state) (r : req) : Prop :=
  exists x, snd (fst (io_step c e s r)) = Stop x /\ is_sandbox_err x = true /\
            forallb is_std (fst (fst (io_step c e s r))) = true.

Lemma nll_denied fuel : forall c e s,
  noFileReads c = true ->
  existsb (forbidden c) (fst (fst (next_line_loop fuel (permissive c) e s))) = true ->
  snd (fst (next_line_loop fuel c e s)) = NLErr ENoFileReads /\
  forallb is_std (fst (fst (next_line_loop fuel c e s))) = true.
Proof.
  induction fuel as [|f IH]; intros c e s Hnr Hex; [cbn in Hex; discriminate|].
  cbn [next_line_loop] in *.
  assert (ATTP : forall effs0 k s0,
      existsb (forbidden c) effs0 = false ->
      existsb (forbidden c) (fst (fst (match k with
      | S k' => (effs0, NLRecord, set_main_in (Some k') s0)
      | O => let '(e2, o2, s2) := next_line_loop f (permissive c) e (set_main_in None s0) in (effs0 ++ e2, o2, s2)
      end))) = true ->
      k = O /\ existsb (forbidden c) (fst (fst (next_line_loop f (permissive c) e (set_main_in None s0)))) = true).
  { intros effs0 k s0 H0 H1. destruct k.
    - split; [reflexivity|]. destruct (next_line_loop f (permissive c) e (set_main_in None s0)) as [[e2 o2] s2].
      cbn in *. rewrite existsb_app, H0 in H1. exact H1.
    - cbn in H1. congruence. }
  assert (STD : forall w, existsb (forbidden c) [UseStd w] = false).
  { intros w. cbn. unfold forbidden. cbn. rewrite !andb_false_r. reflexivity. }
  cbn [noArgVars noFileReads permissive] in Hex.
  destruct ((argc s <=? fidx s) && negb (had_files s)).
  { apply ATTP in Hex; [|apply STD]. destruct Hex as [Hk Hex]. rewrite Hk.
    specialize (IH c e _ Hnr Hex).
    destruct (next_line_loop f c e _) as [[e2 o2] s2].
    cbn in *. exact IH. }
  destruct (argc s <=? fidx s). { cbn in Hex. discriminate. }
  destruct (negb (noArgVars c) && is_var_assign (argv_get (fidx s) (argv s))). { apply IH; assumption. }
  destruct (bytes_eqb (argv_get (fidx s) (argv s)) []). { apply IH; assumption. }
  destruct (bytes_eqb (argv_get (fidx s) (argv s)) dash).
  { apply ATTP in Hex; [|apply STD]. destruct Hex as [Hk Hex]. rewrite Hk.
    specialize (IH c e _ Hnr Hex).
    destruct (next_line_loop f c e _) as [[e2 o2] s2].
    cbn in *. exact IH. }
  rewrite Hnr. split; reflexivity.
Qed.

Lemma next_line_denied c e s :
  noFileReads c = true ->
  existsb (forbidden c) (fst (fst (next_line (permissive c) e s))) = true ->
  snd (fst (next_line c e s)) = NLErr ENoFileReads /\
  forallb is_std (fst (fst (next_line c e s))) = true.
Proof.
  unfold next_line. intros Hnr Hex. destruct (main_in s) as [[|k]|].
  - apply nll_denied; assumption.
  - cbn in Hex. discriminate.
  - apply nll_denied; assumption.
Qed.

(* every request, plain getline included *)
Theorem denied_attempt_stops : forall c e s r,
  attempts c e s r -> denied_stops c e s r.
Proof.
  intros c e s r. unfold attempts, denied_stops.
  destruct r; cbn [io_step]; intros Hex.
  - (* OpenWrite *)
    unfold get_output_stream in *. cbn [permissive noFileWrites noExec] in Hex.
    destruct (lookup name (ins s)); [cbn in Hex; discriminate|].
    destruct (lookup name (outs s)); [cbn in Hex; unfold forbidden in Hex; cbn in Hex; rewrite ?andb_false_r in Hex; discriminate|].
    destruct (bytes_eqb name dash); [cbn in Hex; unfold forbidden in Hex; cbn in Hex; rewrite ?andb_false_r in Hex; discriminate|].
    destruct (noFileWrites c) eqn:Hw; [eexists; cbn; repeat split; reflexivity|].
    exfalso. revert Hex.
    destruct (bytes_eqb name dev_stderr); [|destruct (bytes_eqb name dev_stdout); [|destruct (os_open e (n_open s) name OTrunc)]];
      cbn; unfold forbidden; cbn; rewrite Hw, ?andb_false_r; cbn; discriminate.
  - (* OpenAppend *)
    unfold get_output_stream in *. cbn [permissive noFileWrites noExec] in Hex.
    destruct (lookup name (ins s)); [cbn in Hex; discriminate|].
    destruct (lookup name (outs s)); [cbn in Hex; unfold forbidden in Hex; cbn in Hex; rewrite ?andb_false_r in Hex; discriminate|].
    destruct (bytes_eqb name dash); [cbn in Hex; unfold forbidden in Hex; cbn in Hex; rewrite ?andb_false_r in Hex; discriminate|].
    destruct (noFileWrites c) eqn:Hw; [eexists; cbn; repeat split; reflexivity|].
    exfalso. revert Hex.
    destruct (bytes_eqb name dev_stderr); [|destruct (bytes_eqb name dev_stdout); [|destruct (os_open e (n_open s) name OAppend)]];
      cbn; unfold forbidden; cbn; rewrite Hw, ?andb_false_r; cbn; discriminate.
  - (* PipeTo *)
    unfold get_output_stream in *. cbn [permissive noFileWrites noExec] in Hex.
    destruct (lookup cmd (ins s)); [cbn in Hex; discriminate|].
    destruct (lookup cmd (outs s)); [cbn in Hex; unfold forbidden in Hex; cbn in Hex; rewrite ?andb_false_r in Hex; discriminate|].
    destruct (noExec c) eqn:Hx; [eexists; cbn; repeat split; reflexivity|].
    exfalso. revert Hex. cbn. unfold forbidden. cbn. rewrite Hx, ?andb_false_r. cbn. discriminate.
  - (* ReadFile *)
    unfold get_input_scanner_file in *. cbn [permissive noFileReads] in Hex.
    destruct (lookup name (outs s)); [cbn in Hex; discriminate|].
    destruct (lookup name (ins s)); [cbn in Hex; unfold forbidden in Hex; cbn in Hex; rewrite ?andb_false_r in Hex; discriminate|].
    destruct (bytes_eqb name dash); [cbn in Hex; unfold forbidden in Hex; cbn in Hex; rewrite ?andb_false_r in Hex; discriminate|].
    destruct (noFileReads c) eqn:Hx; [eexists; cbn; repeat split; reflexivity|].
    exfalso. revert Hex. destruct (os_open e (n_open s) name ORead); cbn; unfold forbidden; cbn; rewrite Hx, ?andb_false_r; cbn; discriminate.
  - (* ReadCmd *)
    unfold get_input_scanner_pipe in *. cbn [permissive noExec] in Hex.
    destruct (lookup cmd (outs s)); [cbn in Hex; discriminate|].
    destruct (lookup cmd (ins s)); [cbn in Hex; unfold forbidden in Hex; cbn in Hex; rewrite ?andb_false_r in Hex; discriminate|].
    destruct (noExec c) eqn:Hx; [eexists; cbn; repeat split; reflexivity|].
    exfalso. revert Hex. destruct (start_ok e (n_start s) cmd); cbn; unfold forbidden; cbn; rewrite Hx, ?andb_false_r; cbn; discriminate.
  - (* System *)
    unfold builtin_system in *. cbn [permissive noExec] in Hex.
    destruct (noExec c) eqn:Hx; [eexists; cbn; repeat split; reflexivity|].
    exfalso. revert Hex. cbn. unfold forbidden. cbn. rewrite Hx, ?andb_false_r. cbn. discriminate.
  - (* NextLine: both callers *)
    unfold next_line_via in *.
    destruct (noFileReads c) eqn:Hnr.
    + assert (Hex' : existsb (forbidden c) (fst (fst (next_line (permissive c) e s))) = true).
      { destruct (next_line (permissive c) e s) as [[e1 o1] s1]. destruct o1; destruct v; exact Hex. }
      pose proof (next_line_denied c e s Hnr Hex') as Hd.
      destruct (next_line c e s) as [[e1 o1] s1]. cbn in Hd. destruct Hd as [-> Hstd].
      exists ENoFileReads. destruct v; cbn; (split; [reflexivity | split; [reflexivity | exact Hstd]]).
    + (* reads are allowed: nextLine only uses standard input or opens for reading *)
      exfalso.
      assert (Hex' : existsb (forbidden c) (fst (fst (next_line (permissive c) e s))) = true).
      { destruct (next_line (permissive c) e s) as [[e1 o1] s1]. destruct o1; destruct v; exact Hex. }
      apply existsb_exists in Hex'. destruct Hex' as [x [Hin Hf]].
      pose proof (next_line_shape (permissive c) e s) as Hsh.
      rewrite forallb_forall in Hsh. specialize (Hsh x Hin).
      unfold forbidden in Hf. rewrite Hnr in Hf.
      destruct x as [n fl| | | |]; try discriminate Hsh; [destruct fl; try discriminate Hsh|];
        cbn in Hf; rewrite ?andb_false_r in Hf; discriminate.
  - (* Close *)
    exfalso. unfold builtin_close in Hex. revert Hex.
    destruct (lookup name (ins s)); [|destruct (lookup name (outs s))]; cbn; unfold forbidden; cbn; rewrite ?andb_false_r; discriminate.
  - cbn in Hex. discriminate.
  - destruct (maxFieldIndex <? n); cbn in Hex; discriminate.
  - exfalso. unfold builtin_fflush in Hex. revert Hex.
    destruct (bytes_eqb name []); [|destruct (lookup name (outs s))]; cbn; discriminate.
Qed.
