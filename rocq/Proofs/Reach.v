(* C01: "execution from (p, stk, m) reaches (p', stk', m')" and "stops with r",
   the two relations the simulation proof composes. *)
From Verif Require Import Lib.Base Model.Ast Model.Instr Model.Compiler Model.Prims Model.VM
  Proofs.CodeAt Proofs.VMLemmas.

Section Reach.
  Variables value St err : Type.
  Variable P : prims value St err.
  Variable F : list cfunc.

  Notation run := (run P F).
  Notation step := (step P F).
  Notation mstate := (mstate value St).
  Notation vres := (vres value St err).

  Definition final (r : vres) : Prop := r <> VFuel.

  (* whatever a run from (p', stk', m') produces, a run from (p, stk, m) produces too *)
  Definition reaches (C : code) (p : Z) (stk : list value) (m : mstate)
                     (p' : Z) (stk' : list value) (m' : mstate) : Prop :=
    forall k r, run k C p' stk' m' = r -> final r -> exists k', run k' C p stk m = r.

  Definition stops (C : code) (p : Z) (stk : list value) (m : mstate) (r : vres) : Prop :=
    exists k, run k C p stk m = r.

  Lemma reaches_refl C p stk m : reaches C p stk m p stk m.
  Proof. intros k r H _. exists k. exact H. Qed.

  Lemma reaches_trans C p1 s1 m1 p2 s2 m2 p3 s3 m3 :
    reaches C p1 s1 m1 p2 s2 m2 -> reaches C p2 s2 m2 p3 s3 m3 -> reaches C p1 s1 m1 p3 s3 m3.
  Proof.
    intros H12 H23 k r Hr Hf. destruct (H23 k r Hr Hf) as [k2 H2]. exact (H12 k2 r H2 Hf).
  Qed.

  Lemma reaches_stops C p1 s1 m1 p2 s2 m2 r :
    reaches C p1 s1 m1 p2 s2 m2 -> stops C p2 s2 m2 r -> final r -> stops C p1 s1 m1 r.
  Proof. intros H12 [k Hk] Hf. exact (H12 k r Hk Hf). Qed.

  Lemma reaches_step C p stk m p' stk' m' :
    step C p stk m = ANext p' stk' m' -> reaches C p stk m p' stk' m'.
  Proof. intros Hs k r Hr _. exists (S k). rewrite run_S, Hs. exact Hr. Qed.

  Lemma stops_step C p stk m r : step C p stk m = AStop r -> stops C p stk m r.
  Proof. intros Hs. exists 1%nat. rewrite run_S, Hs. reflexivity. Qed.

  Lemma stops_end C p stk m : csize C <= p -> stops C p stk m (VDone stk m).
  Proof. intros H. exists 1%nat. apply run_end. exact H. Qed.

  (* a simple (non-control) instruction *)
  Lemma reaches_simple C p i c stk m stk' m' :
    code_at C p (i :: c) -> is_control i = false -> exec_simple P i stk m = SOk stk' m' ->
    reaches C p stk m (p + isize i) stk' m'.
  Proof.
    intros H Hc He. apply reaches_step. erewrite step_simple; [rewrite He; reflexivity|eassumption|assumption].
  Qed.

  Lemma stops_simple_err C p i c stk m e m' :
    code_at C p (i :: c) -> is_control i = false -> exec_simple P i stk m = SErr e m' ->
    stops C p stk m (VAbort (XError e) m').
  Proof.
    intros H Hc He. apply stops_step. erewrite step_simple; [rewrite He; reflexivity|eassumption|assumption].
  Qed.

  Lemma stops_mono C p stk m r k :
    run k C p stk m = r -> final r -> forall k', (k <= k')%nat -> run k' C p stk m = r.
  Proof. intros. eapply run_mono; eassumption. Qed.

End Reach.

Arguments reaches {value St err}.
Arguments stops {value St err}.
Arguments final {value St err}.
