(* C15: promptness.  The invariant of the shared counter,

       checkCtx = true,  0 <= ctxOps < checkContextOps,
       done_at = Some t  ->  clock - ctxOps <= t      (the next poll comes no later than
                                                        checkContextOps - 1 instructions after t)

   holds before and after every execute call at every nesting depth (it is an invariant of the
   single interpreter-wide counter, not of one activation), whether the context was cancelled
   from outside ([done_at] given) or by the script itself ([latch]).  Consequences:
   * at most t + checkContextOps - 1 instructions are ever executed ([run_ctx_inv], [Post]);
   * checkContext's error is returned only when the context really is done;
   * with a cancelled context no fuel above that budget runs out: the call returns. *)
From Verif Require Import Lib.Base Model.Ast Model.Instr Model.Compiler Model.Prims Model.VM Model.Cancel
  Proofs.CodeAt Proofs.VMLemmas Proofs.Cancel Gen.Consts.

Lemma N_pos : 0 < checkContextOps.
Proof. reflexivity. Qed.

Definition Inv (cs : cstate) : Prop :=
  checkCtx cs = true /\ 0 <= ctxOps cs < checkContextOps /\
  forall t, done_at cs = Some t -> clock cs - ctxOps cs <= t.

(* no more than checkContextOps - 1 instructions after the moment of cancellation *)
Definition Post (cs : cstate) : Prop :=
  forall t, done_at cs = Some t -> clock cs <= t + checkContextOps - 1.

Definition ext (cs cs' : cstate) : Prop :=
  clock cs <= clock cs' /\ (forall t, done_at cs = Some t -> done_at cs' = Some t) /\ checkCtx cs' = checkCtx cs.

Lemma ext_refl cs : ext cs cs.
Proof. unfold ext. repeat split; try lia; auto. Qed.

Lemma ext_trans a b c : ext a b -> ext b c -> ext a c.
Proof. unfold ext. intros (H1 & H2 & H3) (H4 & H5 & H6). repeat split; try lia; auto. congruence. Qed.

Lemma Inv_Post cs : Inv cs -> Post cs.
Proof. intros (_ & Hr & Hk) t Ht. specialize (Hk t Ht). lia. Qed.

(* the start of ExecuteContext *)
Lemma Inv_init d : (forall t, d = Some t -> 0 <= t) -> Inv (cs_execute_context true d).
Proof.
  intros H. unfold Inv, cs_execute_context. cbn. pose proof N_pos. repeat split; try lia.
  intros t Ht. specialize (H t Ht). lia.
Qed.

Lemma poll_inv cs stop cs1 :
  Inv cs -> poll cs = (stop, cs1) ->
  if stop then Post cs1 /\ closed cs1 = true /\ ext cs cs1
  else Inv (tick cs1) /\ ext cs (tick cs1) /\ clock (tick cs1) = clock cs + 1.
Proof.
  intros (Hc & Hr & Hk) Hp. unfold poll in Hp. rewrite Hc in Hp. unfold check_context in Hp.
  destruct (ctxOps cs + 1 <? checkContextOps) eqn:E.
  - apply Z.ltb_lt in E. inversion Hp; subst stop cs1; clear Hp.
    unfold Inv, ext, tick, with_ops; cbn. repeat split; try lia; auto.
    intros t Ht. specialize (Hk t Ht). lia.
  - apply Z.ltb_ge in E. inversion Hp; subst cs1; clear Hp.
    unfold closed. destruct (done_at cs) as [t|] eqn:Ed.
    + specialize (Hk t eq_refl). destruct (t <=? clock cs) eqn:Et.
      * apply Z.leb_le in Et. unfold Post, closed, ext, with_ops; cbn. rewrite Ed.
        repeat split; auto; try lia;
          try solve [intros t' Ht'; inversion Ht'; subst t'; lia]; try solve [apply Z.leb_le; lia].
      * apply Z.leb_gt in Et. unfold Inv, ext, tick, with_ops; cbn. rewrite Ed. pose proof N_pos.
        repeat split; auto; try lia; try solve [intros t' Ht'; inversion Ht'; subst t'; lia].
    + unfold Inv, ext, tick, with_ops; cbn. rewrite Ed. pose proof N_pos.
      repeat split; auto; try lia; try discriminate.
Qed.

Section CancelPrompt.
  Variables value St err : Type.
  Variable P : prims value St err.
  Variable F : list cfunc.
  Variable cancel_req : St -> bool.

  Notation run := (run P F).
  Notation step := (step P F).
  Notation run_ctx := (run_ctx P F cancel_req).
  Notation latch := (latch cancel_req).
  Notation latch_res := (latch_res cancel_req).
  Notation mstate := (mstate value St).
  Notation cres := (cres value St err).

  Lemma latch_inv cs (m : mstate) : Inv cs -> Inv (latch cs m) /\ ext cs (latch cs m).
  Proof.
    intros HI. unfold Cancel.latch. destruct (done_at cs) eqn:Ed; [split; [exact HI|apply ext_refl]|].
    destruct (cancel_req (ms m)); [|split; [exact HI|apply ext_refl]].
    destruct HI as (Hc & Hr & Hk). unfold Inv, ext; cbn. rewrite Ed. repeat split; try lia; auto.
    - intros t Ht. inversion Ht. lia.
    - discriminate.
  Qed.

  Lemma latch_res_inv cs (r : vres value St err) : Inv cs -> Inv (latch_res cs r) /\ ext cs (latch_res cs r).
  Proof.
    intros HI. destruct r; cbn [Cancel.latch_res]; try apply latch_inv; try exact HI; split; try exact HI; apply ext_refl.
  Qed.

  (* what holds of the counter when execute returns *)
  Definition good (x : cres) (cs' : cstate) : Prop :=
    match x with
    | CRes _ => Inv cs'
    | CCtx _ => Post cs' /\ closed cs' = true
    end.

  Lemma run_ctx_inv : forall k C ip stk m cs x cs',
    Inv cs -> run_ctx k C ip stk m cs = (x, cs') -> good x cs' /\ ext cs cs'.
  Proof.
    induction k as [|k IH]; intros C ip stk m cs x cs' HI H.
    - cbn in H. inversion H; subst. split; [exact HI|apply ext_refl].
    - rewrite run_ctx_S in H.
      destruct (csize C <=? ip) eqn:Eend.
      { inversion H; subst. split; [exact HI|apply ext_refl]. }
      destruct (poll cs) as [stop cs1] eqn:Ep. pose proof (poll_inv _ _ _ HI Ep) as Hp.
      destruct stop.
      { destruct Hp as (Hpost & Hcl & Hext). inversion H; subst. split; [split; assumption|exact Hext]. }
      destruct Hp as (HI2 & Hext2 & _). cbv zeta in H.
      remember (tick cs1) as cs2 eqn:Ecs2. clear Ecs2 Ep cs1.
      destruct (step C ip stk m) as [ip' stk' m'|r0|vsc vi keys body ipa stk0 m0|fn m1 saved ipa stk0].
      + destruct (latch_inv cs2 m' HI2) as (HI3 & Hext3).
        destruct (IH _ _ _ _ _ _ _ HI3 H) as (Hg & He). split; [exact Hg|].
        eapply ext_trans; [exact Hext2|]. eapply ext_trans; eassumption.
      + destruct (latch_res_inv cs2 r0 HI2) as (HI3 & Hext3). inversion H; subst.
        split; [exact HI3|eapply ext_trans; eassumption].
      + cut (good x cs' /\ ext cs2 cs').
        { intros (Hg & He). split; [exact Hg|eapply ext_trans; eassumption]. }
        clear stk m Hext2 HI cs. revert stk0 m0 cs2 HI2 H.
        induction keys as [|key ks IHk]; intros stk0 m0 cs2 HI2 H.
        * eapply IH; eassumption.
        * destruct (var_write P m0 vsc vi key) as [m1|e m1|];
            try (inversion H; subst; split; [exact HI2|apply ext_refl]).
          destruct (run_ctx k body 0 stk0 m1 cs2) as [xb csb] eqn:Eb.
          destruct (IH _ _ _ _ _ _ _ HI2 Eb) as (Hgb & Heb).
          destruct xb as [rb|mb].
          -- cbn [good] in Hgb.
             destruct rb as [stk' m2|v stk' m2|stk' m2|x0 m2| |];
               try (inversion H; subst; split; [exact Hgb|exact Heb]).
             ++ destruct (IHk _ _ _ Hgb H) as (Hg & He). split; [exact Hg|eapply ext_trans; eassumption].
             ++ destruct (IH _ _ _ _ _ _ _ Hgb H) as (Hg & He). split; [exact Hg|eapply ext_trans; eassumption].
          -- inversion H; subst. split; [exact Hgb|exact Heb].
      + cut (good x cs' /\ ext cs2 cs').
        { intros (Hg & He). split; [exact Hg|eapply ext_trans; eassumption]. }
        cbv zeta in H.
        destruct (run_ctx k (cf_body fn) 0 stk0 m1 cs2) as [xb csb] eqn:Eb.
        destruct (IH _ _ _ _ _ _ _ HI2 Eb) as (Hgb & Heb).
        destruct xb as [rb|mb].
        * cbn [good] in Hgb.
          destruct rb as [stk' m2|v stk' m2|stk' m2|x0 m2| |];
            try (inversion H; subst; split; [exact Hgb|exact Heb]).
          -- destruct (pop_n (Z.to_nat (cf_nscalars fn)) stk' []) as [[a t]|];
               [|inversion H; subst; split; [exact Hgb|exact Heb]].
             destruct (IH _ _ _ _ _ _ _ Hgb H) as (Hg & He). split; [exact Hg|eapply ext_trans; eassumption].
          -- destruct (pop_n (Z.to_nat (cf_nscalars fn)) stk' []) as [[a t]|];
               [|inversion H; subst; split; [exact Hgb|exact Heb]].
             destruct (IH _ _ _ _ _ _ _ Hgb H) as (Hg & He). split; [exact Hg|eapply ext_trans; eassumption].
        * inversion H; subst. split; [exact Hgb|exact Heb].
  Qed.

  Lemma good_Post x cs : good x cs -> Post cs.
  Proof. destruct x; cbn [good]; [apply Inv_Post|intros [H _]; exact H]. Qed.

  (* the statement of promptness: whatever execute returns, and at whatever nesting depth the
     context was (or gets) cancelled, no more than checkContextOps - 1 instructions have been
     executed after the moment of cancellation; checkContext's error means the context is done *)
  Theorem run_ctx_prompt k C ip stk m cs x cs' :
    Inv cs -> run_ctx k C ip stk m cs = (x, cs') ->
    (forall t, done_at cs' = Some t -> clock cs' <= t + checkContextOps - 1) /\
    clock cs <= clock cs' /\
    (forall t, done_at cs = Some t -> done_at cs' = Some t) /\
    (forall m', x = CCtx m' -> closed cs' = true) /\
    (forall r, x = CRes r -> Inv cs').
  Proof.
    intros HI H. destruct (run_ctx_inv _ _ _ _ _ _ _ _ HI H) as (Hg & Hc & Hd & _).
    split; [|split; [|split; [|split]]].
    - apply (good_Post _ _ Hg).
    - exact Hc.
    - exact Hd.
    - intros m' E. subst x. destruct Hg as [_ Hcl]. exact Hcl.
    - intros r0 E. subst x. exact Hg.
  Qed.

  (* ---- the call returns ---- *)

  Lemma step_not_fuel C ip stk (m : mstate) : step C ip stk m <> AStop VFuel.
  Proof.
    unfold VM.step. destruct (csize C <=? ip); [discriminate|].
    destruct (fetch C ip) as [i|]; [|discriminate].
    destruct i; try discriminate;
      try (destruct (exec_simple P _ stk m); discriminate);
      try (destruct stk as [|? [|? ?]]; discriminate).
    - destruct (sub_code C _ _); discriminate.
    - destruct (fi <? 0); [discriminate|]. destruct (nth_error F (Z.to_nat fi)); [|discriminate].
      destruct (maxCallDepth <=? depth m); [discriminate|].
      destruct (pop_n _ stk []) as [[? ?]|]; discriminate.
  Qed.

  Lemma run_ctx_returns : forall k C ip stk m cs t x cs',
    Inv cs -> done_at cs = Some t -> t + checkContextOps - 1 - clock cs < Z.of_nat k ->
    run_ctx k C ip stk m cs = (x, cs') -> x <> CRes VFuel.
  Proof.
    induction k as [|k IH]; intros C ip stk m cs t x cs' HI Hd Hk H.
    - pose proof (Inv_Post _ HI t Hd). cbn in Hk. lia.
    - rewrite run_ctx_S in H.
      destruct (csize C <=? ip) eqn:Eend; [inversion H; discriminate|].
      destruct (poll cs) as [stop cs1] eqn:Ep. pose proof (poll_inv _ _ _ HI Ep) as Hp.
      destruct stop; [inversion H; discriminate|].
      destruct Hp as (HI2 & Hext2 & Hclk). cbv zeta in H.
      assert (Hd2 : done_at (tick cs1) = Some t) by (apply Hext2; exact Hd).
      assert (Hk2 : t + checkContextOps - 1 - clock (tick cs1) < Z.of_nat k) by lia.
      remember (tick cs1) as cs2 eqn:Ecs2. clear Ecs2 Ep cs1 Hclk Hext2 Hk HI Hd cs.
      (* every later counter state still has done_at = Some t and a clock at least as large *)
      assert (Hnext : forall cs3, Inv cs3 -> ext cs2 cs3 ->
                done_at cs3 = Some t /\ t + checkContextOps - 1 - clock cs3 < Z.of_nat k).
      { intros cs3 _ (Hc & Hdd & _). split; [apply Hdd; exact Hd2|lia]. }
      destruct (step C ip stk m) as [ip' stk' m'|r0|vsc vi keys body ipa stk0 m0|fn m1 saved ipa stk0] eqn:Est.
      + destruct (latch_inv cs2 m' HI2) as (HI3 & Hext3). destruct (Hnext _ HI3 Hext3) as (Hd3 & Hk3).
        eapply IH; eassumption.
      + inversion H; subst. intros Hx. inversion Hx; subst. eapply step_not_fuel. exact Est.
      + clear Est stk m. revert stk0 m0 cs2 HI2 Hd2 Hk2 Hnext H.
        induction keys as [|key ks IHk]; intros stk0 m0 cs2 HI2 Hd2 Hk2 Hnext H.
        * eapply IH; eassumption.
        * destruct (var_write P m0 vsc vi key) as [m1|e m1|]; try (inversion H; discriminate).
          destruct (run_ctx k body 0 stk0 m1 cs2) as [xb csb] eqn:Eb.
          pose proof (IH _ _ _ _ _ _ _ _ HI2 Hd2 Hk2 Eb) as Hnb.
          destruct (run_ctx_inv _ _ _ _ _ _ _ _ HI2 Eb) as (Hgb & Heb).
          destruct xb as [rb|mb]; [|inversion H; discriminate].
          cbn [good] in Hgb. destruct (Hnext _ Hgb Heb) as (Hdb & Hkb).
          destruct rb as [stk' m2|v stk' m2|stk' m2|x0 m2| |]; try (inversion H; discriminate).
          -- eapply (IHk stk' m2 csb); try eassumption.
             intros cs3 HI3 He3. apply Hnext; [exact HI3|eapply ext_trans; eassumption].
          -- eapply IH; eassumption.
          -- congruence.
      + cbv zeta in H.
        destruct (run_ctx k (cf_body fn) 0 stk0 m1 cs2) as [xb csb] eqn:Eb.
        pose proof (IH _ _ _ _ _ _ _ _ HI2 Hd2 Hk2 Eb) as Hnb.
        destruct (run_ctx_inv _ _ _ _ _ _ _ _ HI2 Eb) as (Hgb & Heb).
        destruct xb as [rb|mb]; [|inversion H; discriminate].
        cbn [good] in Hgb. destruct (Hnext _ Hgb Heb) as (Hdb & Hkb).
        destruct rb as [stk' m2|v stk' m2|stk' m2|x0 m2| |]; try (inversion H; discriminate).
        * destruct (pop_n (Z.to_nat (cf_nscalars fn)) stk' []) as [[a t0]|]; [|inversion H; discriminate].
          eapply IH; eassumption.
        * destruct (pop_n (Z.to_nat (cf_nscalars fn)) stk' []) as [[a t0]|]; [|inversion H; discriminate].
          eapply IH; eassumption.
        * congruence.
  Qed.

End CancelPrompt.
