(* C04 — specification side: how a tree (with explicit grouping nodes) is written as tokens,
   which writings the parser is claimed to read back, the POSIX table as data, and the two
   printers pp_min / pp_full (below).  Mostly definitions; the theorems are in
   ExprParserPrinted.v and ExprParserMin.v. *)
From Verif Require Import Lib.Base Model.ExprAst Model.ExprParser Proofs.ExprParserMono Proofs.ExprParserRel.
Local Open Scope nat_scope.

(* ---- writing a tree verbatim: every EGroup node is a pair of parentheses, nothing else is ---- *)

Definition binop_tok (op : binop) : list tok :=
  match op with
  | BAdd => [TAdd] | BSub => [TSub] | BMul => [TMul] | BDiv => [TDiv] | BMod => [TMod] | BPow => [TPow]
  | BEq => [TEquals] | BNe => [TNotEquals] | BLt => [TLess] | BLe => [TLte] | BGt => [TGreater] | BGe => [TGte]
  | BMatch => [TMatch] | BNotMatch => [TNotMatch] | BAnd => [TAnd] | BOr => [TOr] | BConcat => []
  end.

Definition aug_tok (op : binop) : tok :=
  match op with
  | BAdd => TAddAssign | BSub => TSubAssign | BMul => TMulAssign | BDiv => TDivAssign | BMod => TModAssign
  | BPow => TPowAssign | _ => TAssign
  end.

Definition commas (f : expr -> list tok) : list expr -> list tok :=
  fix go (es : list expr) : list tok :=
    match es with
    | [] => []
    | x :: r => match r with [] => f x | _ => f x ++ TComma :: go r end
    end.

Definition flat_opt (f : expr -> list tok) (o : option expr) : list tok :=
  match o with Some x => f x | None => [] end.

Fixpoint flat (e : expr) : list tok :=
  match e with
  | ENum s => [TNumber s]
  | EStr s => [TString s]
  | EStrRegex s => [TRegex s]
  | ERegex s => [TRegex s]
  | EField i => TDollar :: flat i
  | ENamedField i => TAt :: flat i
  | EVar s => [TName s]
  | EIndex a idx => TName a :: TLBracket :: commas flat idx ++ [TRBracket]
  | EIn [x] a => flat x ++ [TIn; TName a]
  | EIn idx a => TLParen true :: commas flat idx ++ [TRParen; TIn; TName a]
  | EUnary op v => unop_tok op :: flat v
  | EBinary op l r => flat l ++ binop_tok op ++ flat r
  | ECond c t f => flat c ++ TQuestion :: flat t ++ TColon :: flat f
  | EAssign l r => flat l ++ TAssign :: flat r
  | EAugAssign op l r => flat l ++ aug_tok op :: flat r
  | EIncr op true x => inc_tok op :: flat x
  | EIncr op false x => flat x ++ [inc_tok op]
  | ECall f args => TFunc f :: TLParen false :: commas flat args ++ [TRParen]
  | EUserCall n args => TName n :: TLParen false :: commas flat args ++ [TRParen]
  | EMulti es => TLParen true :: commas flat es ++ [TRParen]
  | EGetline c t f =>
      (match c with Some x => flat x ++ [TPipe] | None => [] end) ++ TGetline :: flat_opt flat t
      ++ (match f with Some y => TLess :: flat y | None => [] end)
  | EGroup x => TLParen true :: flat x ++ [TRParen]
  end.

Definition first_tok (e : expr) : tok := hd_tok (flat e).

(* ---- which token may follow a tree: ok pc e t ----
   e is read inside a tower with print flag pc; its rightmost operands are still "open" when the
   token t arrives, so t must not be consumed by any of the level functions that are active there. *)
Fixpoint okn (pc : bool) (e : expr) (ct cf : nat) : bool :=
  let cp := if pc then ct else cf in
  match e with
  | EVar _ => cp <=? 13                                        (* not "[" and not "(" without space *)
  | EField i => (cf <=? 12) && okn false i ct cf               (* primary() looks for ++ / -- after $x *)
  | ENamedField i => okn false i ct cf
  | EUnary _ v => (cf <=? 11) && okn false v ct cf             (* operand read by pow() *)
  | EBinary op l r =>
      match op with
      | BOr => (cp <=? 4) && okn pc r ct cf
      | BAnd => (cp <=? 5) && okn pc r ct cf
      | BMatch | BNotMatch => (cp <=? 7) && okn pc r ct cf
      | BEq | BNe | BLt | BLe | BGt | BGe => (cp <=? 8) && okn pc r ct cf
      | BConcat => (cp <=? 9) && okn pc r ct cf
      | BAdd | BSub => (cp <=? 10) && okn pc r ct cf
      | BMul | BDiv | BMod => (cp <=? 11) && okn pc r ct cf
      | BPow => (cp <=? 11) && okn pc r ct cf
      end
  | ECond _ _ f => (cp <=? 0) && okn pc f ct cf                (* _cond reads the branches with expr() / printExpr() *)
  | EAssign _ r | EAugAssign _ _ r => (cp <=? 0) && okn pc r ct cf
  | EIncr _ true x => okn pc x ct cf
  | EGetline _ tg None =>                                      (* next could be an lvalue or "<" *)
      (cf <=? 7) && match tg with Some x => okn false x ct cf | None => true end
  | EGetline _ _ (Some f) => okn false f ct cf
  | _ => true
  end.

Definition ok (pc : bool) (e : expr) (t : tok) : bool := okn pc e (tok_cont true t) (tok_cont false t).

(* ---- the level function that has just returned when the tree is complete ---- *)
Definition ret_lvl (e : expr) : lvl :=
  match e with
  | EBinary op _ _ =>
      match op with
      | BOr => LAnd | BAnd => LIn | BConcat => LAdd | BAdd | BSub => LMul | BMul | BDiv | BMod => LPow
      | BPow => LPow | BMatch | BNotMatch => LMatch | _ => LCompare
      end
  | ECond _ _ _ => LCond
  | EAssign _ _ | EAugAssign _ _ _ => LExpr
  | EIn [_] _ => LMatch
  | EIncr _ false (EField _) => LPrimary
  | EIncr _ false _ => LPostIncr
  | _ => LPrimary
  end.

(* ---- fits pc k e: the writing [flat e] of e, placed where the level function of rank k is
   called inside a tower with print flag pc, respects the grouping of the table ---- *)
Definition all_fit (f : expr -> Prop) : list expr -> Prop :=
  fix go (es : list expr) : Prop := match es with [] => True | x :: r => f x /\ go r end.

Definition not_regex_start (e : expr) : Prop :=
  match first_tok e with TRegex _ | TDiv | TDivAssign => False | _ => True end.

Fixpoint fits (pc : bool) (k : nat) (e : expr) : Prop :=
  match e with
  | ENum _ | EStr _ | ERegex _ | EVar _ => True
  | EStrRegex _ => False                                   (* only as the right operand of ~ / !~ *)
  | EGroup x => fits false 0 x
  | EField i => fits false 13 i
  | EIndex _ idx => idx <> [] /\ all_fit (fits false 0) idx
  | EUserCall _ args => all_fit (fits false 0) args
  | EIn [x] _ => k <= 5 /\ fits pc 5 x /\ ok pc x TIn = true
  | EIn ((_ :: _ :: _) as idx) _ => all_fit (fits false 0) idx
  | EUnary _ v => fits false 11 v
  | EBinary op l r =>
      match op with
      | BOr => k <= 3 /\ fits pc 3 l /\ ok pc l TOr = true /\ fits pc 4 r
      | BAnd => k <= 4 /\ fits pc 4 l /\ ok pc l TAnd = true /\ fits pc 5 r
      | BMatch | BNotMatch =>
          k <= 6 /\ fits pc 7 l /\ ok pc l TMatch = true /\
          match r with EStrRegex _ => True | _ => fits pc 7 r /\ not_regex_start r end
      | BEq | BNe | BLt | BLe | BGt | BGe =>
          k <= 7 /\ (pc = true -> op <> BGt) /\ fits pc 8 l /\ ok pc l (hd_tok (binop_tok op)) = true /\ fits pc 8 r
      | BConcat =>
          k <= 8 /\ fits pc 8 l /\ fits pc 9 r /\
          concat_start (first_tok r) = true /\ tok_cont pc (first_tok r) <= 9 /\ ok pc l (first_tok r) = true
      | BAdd | BSub => k <= 9 /\ fits pc 9 l /\ ok pc l TAdd = true /\ fits pc 10 r
      | BMul | BDiv | BMod => k <= 10 /\ fits pc 10 l /\ ok pc l TMul = true /\ fits pc 11 r
      | BPow => k <= 11 /\ fits pc 12 l /\ ok pc l TPow = true /\ fits pc 11 r
      end
  | ECond c t f =>
      k <= 2 /\ fits pc 3 c /\ ok pc c TQuestion = true /\ fits pc 0 t /\ fits pc 0 f
  | EAssign l r => k = 0 /\ is_lvalue l = true /\ fits pc 1 l /\ ok pc l TAssign = true /\ fits pc 0 r
  | EAugAssign op l r =>
      k = 0 /\ is_lvalue l = true /\ fits pc 1 l /\ ok pc l TAssign = true /\ fits pc 0 r /\
      assign_op (aug_tok op) = Some (AsgAug op)
  | EIncr _ true x =>
      match x with
      | EVar _ => True
      | EIndex _ _ => fits false 13 x
      | EField i => fits false 13 i
      | _ => False
      end
  | EIncr _ false x =>
      match x with
      | EVar _ => k <= 12
      | EIndex _ _ => k <= 12 /\ fits false 13 x
      | EField i => fits false 13 i /\ ok false i TIncr = true
      | _ => False
      end
  | _ => False
  end.

(* ======================================================================================
   The POSIX table as data, and the two printers.
   ====================================================================================== *)

Inductive assoc := ALeft | ARight | ANon.

(* level (higher binds tighter) and associativity of the binary operators *)
Definition table (op : binop) : nat * assoc :=
  match op with
  | BOr => (3, ALeft)
  | BAnd => (4, ALeft)
  | BMatch | BNotMatch => (6, ANon)
  | BEq | BNe | BLt | BLe | BGt | BGe => (7, ANon)
  | BConcat => (8, ALeft)
  | BAdd | BSub => (9, ALeft)
  | BMul | BDiv | BMod => (10, ALeft)
  | BPow => (12, ARight)
  end.

(* the remaining rows: 1 assignment (right), 2 ?: (right), 5 in (left), 11 unary + - !,
   13 ++ --, 14 $, 15 grouping and the other primaries *)
Definition tlevel (e : expr) : nat :=
  match e with
  | EAssign _ _ | EAugAssign _ _ _ => 1
  | ECond _ _ _ => 2
  | EBinary op _ _ => fst (table op)
  | EIn [_] _ => 5
  | EUnary _ _ => 11
  | EIncr _ _ _ => 13
  | EField _ => 14
  | _ => 15
  end.

Definition lreq (op : binop) : nat :=
  let '(lv, a) := table op in match a with ALeft => lv | _ => lv + 1 end.
Definition rreq (op : binop) : nat :=
  let '(lv, a) := table op in match a with ARight => lv | _ => lv + 1 end.

Definition is_gt (e : expr) : bool := match e with EBinary BGt _ _ => true | _ => false end.
Definition is_match (op : binop) : bool := match op with BMatch | BNotMatch => true | _ => false end.

(* pnode full pe e: e with grouping nodes inserted around operands.
   full = false: only where the operand's level is below what its position requires (pp_min);
   full = true: around every operand (pp_full).  Lvalue positions and the regex right operand of
   ~ are never parenthesised (parentheses there change the tree / are not lvalues).
   pe = the position is "exposed" in a print argument list: an unparenthesised > comparison
   would be a redirection there, so it is parenthesised. *)
Fixpoint pnode (full pe : bool) (e : expr) : expr :=
  let par (pe' : bool) (req : nat) (c : expr) : expr :=
    if full || (tlevel c <? req) || (pe' && is_gt c) then EGroup (pnode full false c) else pnode full pe' c in
  match e with
  | EField i => EField (par pe 14 i)
  | EIndex a idx => EIndex a (map (par false 0) idx)
  | EUserCall n args => EUserCall n (map (par false 0) args)
  | EIn [x] a => EIn [par pe 5 x] a
  | EIn idx a => EIn (map (par false 0) idx) a
  | EUnary op v => EUnary op (par pe 11 v)
  | EBinary op l r =>
      EBinary op (par pe (lreq op) l)
        (match r with
         | EStrRegex _ => if is_match op then r else par pe (rreq op) r
         | _ => par pe (rreq op) r
         end)
  | ECond c t f => ECond (par pe 3 c) (par pe 2 t) (par pe 2 f)
  | EAssign l r => EAssign (pnode full pe l) (par pe 1 r)
  | EAugAssign op l r => EAugAssign op (pnode full pe l) (par pe 1 r)
  | EIncr op pre x => EIncr op pre (pnode full pe x)
  | EGroup x => pnode full pe x
  | _ => e
  end.

Definition par (full pe : bool) (req : nat) (c : expr) : expr :=
  if full || (tlevel c <? req) || (pe && is_gt c) then EGroup (pnode full false c) else pnode full pe c.

(* the two writings of a whole expression (pe = true: as a print argument) *)
Definition pp_min (pe : bool) (e : expr) : list tok := flat (par false pe 0 e).
Definition pp_full (pe : bool) (e : expr) : list tok :=
  flat (if pe && is_gt e then EGroup (pnode true false e) else pnode true pe e).

(* ---- well-formed trees: those the POSIX grammar can derive and the table speaks about ---- *)
Definition all_wf (f : expr -> Prop) : list expr -> Prop :=
  fix go (es : list expr) : Prop := match es with [] => True | x :: r => f x /\ go r end.

Definition aug_op (op : binop) : Prop :=
  match op with BAdd | BSub | BMul | BDiv | BMod | BPow => True | _ => False end.

Fixpoint wf (e : expr) : Prop :=
  match e with
  | ENum _ | EStr _ | ERegex _ | EVar _ => True
  | EField i => wf i
  | EIndex _ idx => idx <> [] /\ all_wf wf idx
  | EUserCall _ args => all_wf wf args
  | EIn [x] _ => wf x
  | EIn ((_ :: _ :: _) as idx) _ => all_wf wf idx
  | EUnary _ v => wf v
  | EBinary op l r =>
      wf l /\
      ((exists s, r = EStrRegex s /\ is_match op = true) \/
       (wf r /\
        (is_match op = true ->          (* a bare /re/ after ~ is the dynamic-regex string, not a match against $0 *)
           forall pe, not_regex_start (par false pe 7 r)) /\
        (op = BConcat ->                (* the right operand must start with a token that cannot continue the left one *)
           forall pe, concat_start (first_tok (par false pe 9 r)) = true /\
                      tok_cont false (first_tok (par false pe 9 r)) <= 9)))
  | ECond c t f => wf c /\ wf t /\ wf f
  | EAssign l r => is_lvalue l = true /\ wf l /\ wf r
  | EAugAssign op l r => aug_op op /\ is_lvalue l = true /\ wf l /\ wf r
  | EIncr _ pre x =>
      is_lvalue x = true /\ wf x /\
      (pre = false -> match x with EField (EField _) => False | _ => True end)   (* $$x++ : see F-C04-3 *)
  | _ => False
  end.
