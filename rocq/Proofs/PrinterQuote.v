(* C20 — ast.formatString / lexer.parseString round trip: for EVERY byte string s the lexer reads the
   quoted text back as exactly s.  (With strconv.Quote this failed for non-printable runes: \uXXXX
   before a hex digit and \UXXXXXXXX, defect F-C20-3, repaired: \u with all eight digits.) *)
From Coq Require Import ZifyBool.
From Verif Require Import Lib.Base Lib.Utf8 Gen.Prec Model.ExprAst Model.ExprParser Model.Printer Proofs.PrinterLex.

Ltac dlia := Z.to_euclidean_division_equations; lia.

Definition byte_ok (b : Z) : bool := (0 <=? b) && (b <? 256).

(* every list element is a byte: the only condition (after the repair of F-C20-3) *)
Definition quote_safe (s : bytes) : bool := forallb byte_ok s.

(* ---------- hex digits ---------- *)
Lemma hex_digit_hexdig n : 0 <= n < 16 -> hex_digit (hexdig n) = n.
Proof.
  intros H. unfold hexdig. destruct (n <? 10) eqn:E; unfold hex_digit, is_digit.
  - replace ((48 <=? 48 + n) && (48 + n <=? 57)) with true by lia. lia.
  - replace ((48 <=? 87 + n) && (87 + n <=? 57)) with false by lia.
    replace ((97 <=? 87 + n) && (87 + n <=? 102)) with true by lia. lia.
Qed.

Lemma hexdig_not_special n : 0 <= n < 16 ->
  let c := hexdig n in 48 <= c <= 102.
Proof. intros H. unfold hexdig. cbn zeta. destruct (n <? 10) eqn:E; lia. Qed.

(* ---------- strconv.IsPrint on ASCII: the first entry of the table ---------- *)
Lemma is_print_ascii r : r < 128 -> is_print r = (32 <=? r) && (r <=? 126).
Proof.
  intros H. unfold is_print.
  assert (E : exists t, go_isprint_ranges = (32, 126) :: (161, 172) :: t) by (eexists; reflexivity).
  destruct E as [t ->]. cbn [in_ranges].
  destruct (r <? 32) eqn:E1; [lia|]. destruct (r <=? 126) eqn:E2; [lia|]. destruct (r <? 161) eqn:E3; lia.
Qed.

(* ---------- one iteration of parseString ---------- *)
Definition plain (c : Z) : bool :=
  negb (c =? 34) && negb (c =? 0) && negb (c =? 13) && negb (c =? 10) && negb (c =? 92).

Lemma ps_plain F c Y acc : plain c = true ->
  parse_string (S F) 34 (c :: Y) acc = parse_string F 34 Y (c :: acc).
Proof.
  unfold plain. intros H. cbn [parse_string ch nxt].
  replace ((c =? 34) || (c =? 0)) with false by lia.
  replace ((c =? 13) || (c =? 10)) with false by lia.
  replace (negb (c =? 92)) with true by lia. reflexivity.
Qed.

Lemma ps_plains l : forall F Y acc, forallb plain l = true ->
  parse_string (length l + F) 34 (l ++ Y) acc = parse_string F 34 Y (rev l ++ acc).
Proof.
  induction l as [|c l IH]; intros F Y acc Hl; [reflexivity|].
  cbn [forallb] in Hl. apply andb_prop in Hl as [Hc Hl].
  cbn [length plus app]. rewrite (ps_plain _ c _ acc Hc), (IH F Y (c :: acc) Hl).
  cbn [rev]. rewrite <- app_assoc. reflexivity.
Qed.

Lemma ps_end F rest acc : parse_string (S F) 34 (34 :: rest) acc = Some (rev acc, 34 :: rest).
Proof. reflexivity. Qed.

(* backslash + a letter escape *)
Lemma ps_esc F e v Y acc :
  (e, v) = (110, 10) \/ (e, v) = (116, 9) \/ (e, v) = (114, 13) \/ (e, v) = (97, 7) \/ (e, v) = (98, 8)
  \/ (e, v) = (102, 12) \/ (e, v) = (118, 11) \/ (e, v) = (34, 34) \/ (e, v) = (92, 92) ->
  parse_string (S F) 34 (92 :: e :: Y) acc = parse_string F 34 Y (v :: acc).
Proof.
  intros H. repeat (destruct H as [H | H]; [injection H as -> ->; reflexivity|]). injection H as -> ->. reflexivity.
Qed.

(* \x + two lower-case hex digits *)
Lemma ps_hex F d1 d2 Y acc : 0 <= d1 < 16 -> 0 <= d2 < 16 ->
  parse_string (S F) 34 (92 :: 120 :: hexdig d1 :: hexdig d2 :: Y) acc
  = parse_string F 34 Y ((d1 * 16 + d2) mod 256 :: acc).
Proof.
  intros H1 H2. cbn [parse_string ch nxt].
  change ((92 =? 34) || (92 =? 0)) with false. change ((92 =? 13) || (92 =? 10)) with false.
  change (negb (92 =? 92)) with false. cbn iota.
  change (120 =? 110) with false. change (120 =? 116) with false. change (120 =? 114) with false.
  change (120 =? 97) with false. change (120 =? 98) with false. change (120 =? 102) with false.
  change (120 =? 118) with false. change (120 =? 120) with true. cbn iota.
  rewrite !hex_digit_hexdig by assumption.
  replace (d1 <? 0) with false by lia. replace (d2 <? 0) with false by lia. reflexivity.
Qed.

(* \u + eight lower-case hex digits: the lexer stops after the eighth by itself *)
Definition hex8 (a b c d e f g h : Z) : Z := ((((((a * 16 + b) * 16 + c) * 16 + d) * 16 + e) * 16 + f) * 16 + g) * 16 + h.

Lemma ps_u F a b c d e f g h Y acc :
  0 <= a < 16 -> 0 <= b < 16 -> 0 <= c < 16 -> 0 <= d < 16 -> 0 <= e < 16 -> 0 <= f < 16 -> 0 <= g < 16 -> 0 <= h < 16 ->
  valid_rune (hex8 a b c d e f g h) = true ->
  parse_string (S F) 34 (92 :: 117 :: hexdig a :: hexdig b :: hexdig c :: hexdig d :: hexdig e :: hexdig f :: hexdig g :: hexdig h :: Y) acc
  = parse_string F 34 Y (rev (encode_rune (hex8 a b c d e f g h)) ++ acc).
Proof.
  intros Ha Hb Hc Hd He Hf Hg Hh Hv. cbn [parse_string ch nxt].
  change ((92 =? 34) || (92 =? 0)) with false. change ((92 =? 13) || (92 =? 10)) with false.
  change (negb (92 =? 92)) with false. cbn iota.
  change (117 =? 110) with false. change (117 =? 116) with false. change (117 =? 114) with false.
  change (117 =? 97) with false. change (117 =? 98) with false. change (117 =? 102) with false.
  change (117 =? 118) with false. change (117 =? 120) with false. change (117 =? 117) with true. cbn iota.
  rewrite hex_digit_hexdig by assumption. replace (a <? 0) with false by lia.
  cbn [more_hex ch nxt]. rewrite !hex_digit_hexdig by assumption.
  replace (b <? 0) with false by lia. replace (c <? 0) with false by lia. replace (d <? 0) with false by lia.
  replace (e <? 0) with false by lia. replace (f <? 0) with false by lia. replace (g <? 0) with false by lia.
  replace (h <? 0) with false by lia.
  unfold hex8 in Hv. rewrite Hv. reflexivity.
Qed.

(* ---------- UTF-8: a well-formed sequence decodes to a rune that encodes to the same bytes ---------- *)
Lemma decode_valid b0 t r w :
  (b0 <? 128) = false -> decode_rune (b0 :: t) = (r, w) -> ((w =? 1) && (r =? rune_error)) = false ->
  128 <= r /\ valid_rune r = true /\ b0 :: t = encode_rune r ++ zdrop w (b0 :: t)
  /\ forallb (fun b => 128 <=? b) (encode_rune r) = true.
Proof.
  intros Hb Hd Hne. unfold decode_rune in Hd. rewrite Hb in Hd.
  unfold rune_error in *.
  destruct (in_rng 194 223 b0) eqn:E2.
  { destruct t as [|b1 t']; [injection Hd as <- <-; discriminate|].
    destruct (is_cont b1) eqn:C1; [|injection Hd as <- <-; discriminate].
    injection Hd as <- <-. unfold in_rng, is_cont in *.
    assert (Hr : 128 <= (b0 - 192) * 64 + (b1 - 128) < 2048) by lia.
    unfold valid_rune, encode_rune.
    replace (((b0 - 192) * 64 + (b1 - 128) <? 0) || (1114111 <? (b0 - 192) * 64 + (b1 - 128))
             || ((55296 <=? (b0 - 192) * 64 + (b1 - 128)) && ((b0 - 192) * 64 + (b1 - 128) <=? 57343))) with false by lia.
    replace ((b0 - 192) * 64 + (b1 - 128) <? 128) with false by lia.
    replace ((b0 - 192) * 64 + (b1 - 128) <? 2048) with true by lia.
    replace (192 + ((b0 - 192) * 64 + (b1 - 128)) / 64) with b0 by dlia.
    replace (128 + ((b0 - 192) * 64 + (b1 - 128)) mod 64) with b1 by dlia.
    repeat split; try lia. cbn [forallb]. lia. }
  destruct (in_rng 224 239 b0) eqn:E3.
  { destruct t as [|b1 [|b2 t']]; try (injection Hd as <- <-; discriminate).
    match type of Hd with (if ?c then _ else _) = _ => destruct c eqn:C end; [|injection Hd as <- <-; discriminate].
    injection Hd as <- <-. unfold in_rng, is_cont in *.
    set (r := (b0 - 224) * 4096 + (b1 - 128) * 64 + (b2 - 128)) in *.
    assert (Hr : 2048 <= r < 65536 /\ ~ (55296 <= r <= 57343) /\ r / 4096 = b0 - 224 /\ (r / 64) mod 64 = b1 - 128 /\ r mod 64 = b2 - 128).
    { subst r. destruct (b0 =? 224) eqn:?, (b0 =? 237) eqn:?; dlia. }
    destruct Hr as (R1 & R2 & R3 & R4 & R5).
    unfold valid_rune, encode_rune.
    replace ((r <? 0) || (1114111 <? r) || ((55296 <=? r) && (r <=? 57343))) with false by lia.
    replace (r <? 128) with false by lia. replace (r <? 2048) with false by lia. replace (r <? 65536) with true by lia.
    rewrite R3, R4, R5.
    replace (224 + (b0 - 224)) with b0 by lia. replace (128 + (b1 - 128)) with b1 by lia. replace (128 + (b2 - 128)) with b2 by lia.
    repeat split; try lia. cbn [forallb]. destruct (b0 =? 224) eqn:?, (b0 =? 237) eqn:?; lia. }
  destruct (in_rng 240 244 b0) eqn:E4.
  { destruct t as [|b1 [|b2 [|b3 t']]]; try (injection Hd as <- <-; discriminate).
    match type of Hd with (if ?c then _ else _) = _ => destruct c eqn:C end; [|injection Hd as <- <-; discriminate].
    injection Hd as <- <-. unfold in_rng, is_cont in *.
    set (r := (b0 - 240) * 262144 + (b1 - 128) * 4096 + (b2 - 128) * 64 + (b3 - 128)) in *.
    assert (Hr : 65536 <= r <= 1114111 /\ r / 262144 = b0 - 240 /\ (r / 4096) mod 64 = b1 - 128
                 /\ (r / 64) mod 64 = b2 - 128 /\ r mod 64 = b3 - 128).
    { subst r. destruct (b0 =? 240) eqn:?, (b0 =? 244) eqn:?; dlia. }
    destruct Hr as (R1 & R3 & R4 & R5 & R6).
    unfold valid_rune, encode_rune.
    replace ((r <? 0) || (1114111 <? r) || ((55296 <=? r) && (r <=? 57343))) with false by lia.
    replace (r <? 128) with false by lia. replace (r <? 2048) with false by lia. replace (r <? 65536) with false by lia.
    rewrite R3, R4, R5, R6.
    replace (240 + (b0 - 240)) with b0 by lia. replace (128 + (b1 - 128)) with b1 by lia.
    replace (128 + (b2 - 128)) with b2 by lia. replace (128 + (b3 - 128)) with b3 by lia.
    repeat split; try lia. cbn [forallb]. destruct (b0 =? 240) eqn:?, (b0 =? 244) eqn:?; lia. }
  injection Hd as <- <-. discriminate.
Qed.

(* ---------- one chunk of strconv.Quote's output, read back ---------- *)
Lemma hexn2 r : hexn 2 r = [hexdig ((r / 16) mod 16); hexdig (r mod 16)].
Proof. reflexivity. Qed.
Lemma hexn8 r : hexn 8 r =
  [hexdig ((r / 16 / 16 / 16 / 16 / 16 / 16 / 16) mod 16); hexdig ((r / 16 / 16 / 16 / 16 / 16 / 16) mod 16);
   hexdig ((r / 16 / 16 / 16 / 16 / 16) mod 16); hexdig ((r / 16 / 16 / 16 / 16) mod 16);
   hexdig ((r / 16 / 16 / 16) mod 16); hexdig ((r / 16 / 16) mod 16); hexdig ((r / 16) mod 16); hexdig (r mod 16)].
Proof. reflexivity. Qed.

Lemma ps_xbyte F b Y acc : byte_ok b = true ->
  parse_string (S F) 34 (92 :: 120 :: hexn 2 b ++ Y) acc = parse_string F 34 Y (b :: acc).
Proof.
  unfold byte_ok. intros Hb. rewrite hexn2. cbn [app].
  rewrite ps_hex by dlia. f_equal. f_equal. dlia.
Qed.

Lemma hex_digit_high c : 128 <= c -> hex_digit c = -1.
Proof.
  intros H. unfold hex_digit, is_digit.
  replace ((48 <=? c) && (c <=? 57)) with false by lia.
  replace ((97 <=? c) && (c <=? 102)) with false by lia.
  replace ((65 <=? c) && (c <=? 70)) with false by lia. reflexivity.
Qed.

(* an ASCII byte: escaped_rune writes one of  c  \c  \a..\v  \xHH *)
Ltac pick := repeat (first [ (left; reflexivity) | right ]); reflexivity.

Lemma esc_ascii F b Y acc : byte_ok b = true -> b < 128 ->
  parse_string (S F) 34 (escaped_rune b ++ Y) acc = parse_string F 34 Y (b :: acc)
  /\ (hex_digit b < 0 -> hex_digit (ch (escaped_rune b ++ Y)) < 0).
Proof.
  intros Hb Hlt. unfold escaped_rune.
  destruct ((b =? 34) || (b =? 92)) eqn:E1.
  { assert (Hb' : b = 34 \/ b = 92) by lia.
    destruct Hb' as [-> | ->]; (split; [cbn [app]; apply ps_esc; pick | intros _; reflexivity]). }
  rewrite (is_print_ascii b Hlt).
  destruct ((32 <=? b) && (b <=? 126)) eqn:E2.
  { unfold encode_rune.
    replace ((b <? 0) || (1114111 <? b) || ((55296 <=? b) && (b <=? 57343))) with false by lia.
    replace (b <? 128) with true by lia. cbn [app ch]. split; [|trivial].
    apply ps_plain. unfold plain. lia. }
  destruct (b =? 7) eqn:E7. { apply Z.eqb_eq in E7; subst b. split; [cbn [app]; apply ps_esc; pick | intros _; reflexivity]. }
  destruct (b =? 8) eqn:E8. { apply Z.eqb_eq in E8; subst b. split; [cbn [app]; apply ps_esc; pick | intros _; reflexivity]. }
  destruct (b =? 12) eqn:E12. { apply Z.eqb_eq in E12; subst b. split; [cbn [app]; apply ps_esc; pick | intros _; reflexivity]. }
  destruct (b =? 10) eqn:E10. { apply Z.eqb_eq in E10; subst b. split; [cbn [app]; apply ps_esc; pick | intros _; reflexivity]. }
  destruct (b =? 13) eqn:E13. { apply Z.eqb_eq in E13; subst b. split; [cbn [app]; apply ps_esc; pick | intros _; reflexivity]. }
  destruct (b =? 9) eqn:E9. { apply Z.eqb_eq in E9; subst b. split; [cbn [app]; apply ps_esc; pick | intros _; reflexivity]. }
  destruct (b =? 11) eqn:E11. { apply Z.eqb_eq in E11; subst b. split; [cbn [app]; apply ps_esc; pick | intros _; reflexivity]. }
  destruct ((b <? 32) || (b =? 127)) eqn:E32.
  { split; [|intros _; reflexivity]. cbn [app]. apply ps_xbyte. exact Hb. }
  unfold byte_ok in Hb. lia.
Qed.

(* a well-formed multi-byte rune: m = the number of parseString iterations its text takes *)
Lemma esc_rune r enc :
  128 <= r -> valid_rune r = true -> encode_rune r = enc -> forallb (fun b => 128 <=? b) enc = true -> enc <> [] ->
  exists m, (1 <= m <= length (escaped_rune r))%nat /\
  forall F Y acc, parse_string (m + F) 34 (escaped_rune r ++ Y) acc = parse_string F 34 Y (rev enc ++ acc).
Proof.
  intros Hr Hv He Hhigh Hne. unfold escaped_rune.
  replace ((r =? 34) || (r =? 92)) with false by lia.
  destruct (is_print r) eqn:Ep.
  - rewrite He. exists (length enc). split; [destruct enc; [congruence | cbn [length]; lia]|].
    intros F Y acc.
    apply ps_plains. clear -Hhigh. induction enc as [|x l IH]; [reflexivity|].
    cbn [forallb] in *. apply andb_prop in Hhigh as [Hx Hl]. rewrite (IH Hl), andb_true_r. unfold plain. lia.
  - replace (r =? 7) with false by lia. replace (r =? 8) with false by lia. replace (r =? 12) with false by lia.
    replace (r =? 10) with false by lia. replace (r =? 13) with false by lia. replace (r =? 9) with false by lia.
    replace (r =? 11) with false by lia. replace ((r <? 32) || (r =? 127)) with false by lia.
    exists 1%nat. split; [cbn [length]; lia|].
    intros F Y acc.
    assert (Hmax : r <= 1114111) by (unfold valid_rune in Hv; lia).
    rewrite hexn8. cbn [app plus].
    assert (Hrr : hex8 ((r / 16 / 16 / 16 / 16 / 16 / 16 / 16) mod 16) ((r / 16 / 16 / 16 / 16 / 16 / 16) mod 16)
                    ((r / 16 / 16 / 16 / 16 / 16) mod 16) ((r / 16 / 16 / 16 / 16) mod 16)
                    ((r / 16 / 16 / 16) mod 16) ((r / 16 / 16) mod 16) ((r / 16) mod 16) (r mod 16) = r)
      by (unfold hex8; dlia).
    rewrite ps_u; try dlia; rewrite Hrr; [|exact Hv].
    rewrite He. reflexivity.
Qed.

Lemma encode_nonnil r : encode_rune r <> [].
Proof. unfold encode_rune. destruct (_ || _ || _); repeat match goal with |- (if ?c then _ else _) <> _ => destruct c end; discriminate. Qed.

Lemma forallb_app_inv {A} (p : A -> bool) a b : forallb p (a ++ b) = true -> forallb p a = true /\ forallb p b = true.
Proof. rewrite forallb_app. intros H. apply andb_prop in H. exact H. Qed.

(* ---------- the round trip ---------- *)
Lemma quote_rt : forall n s, forallb byte_ok s = true -> (length s <= n)%nat ->
  forall rest acc F, (length (quote_body n s) < F)%nat ->
  parse_string F 34 (quote_body n s ++ 34 :: rest) acc = Some (rev acc ++ s, 34 :: rest).
Proof.
  induction n as [|n IH]; intros s Hb Hlen rest acc F HF.
  - destruct s; [|cbn in Hlen; lia]. cbn [quote_body app] in *. destruct F; [cbn in HF; lia|].
    rewrite ps_end, app_nil_r. reflexivity.
  - destruct s as [|b0 s'].
    + cbn [quote_body app] in *. destruct F; [cbn in HF; lia|]. rewrite ps_end, app_nil_r. reflexivity.
    + cbn [forallb] in Hb. apply andb_prop in Hb as [Hb0 Hb'].
      cbn [quote_body] in *. cbn [length] in Hlen.
      destruct (b0 <? 128) eqn:E128.
      * (* ASCII *)
        replace ((1 =? 1) && (b0 =? rune_error)) with false in * by (unfold rune_error; lia).
        change (zdrop 1 (b0 :: s')) with s' in *.
        rewrite <- app_assoc. rewrite app_length in HF.
        assert (Hne : (1 <= length (escaped_rune b0))%nat).
        { unfold escaped_rune. repeat match goal with |- context [if ?c then _ else _] => destruct c end;
            try (cbn [length]; lia). pose proof (encode_nonnil b0). destruct (encode_rune b0); [congruence | cbn [length]; lia]. }
        destruct F as [|F]; [lia|].
        rewrite (proj1 (esc_ascii F b0 _ acc Hb0 ltac:(lia))).
        rewrite (IH s' Hb' ltac:(lia) rest (b0 :: acc) F ltac:(lia)).
        cbn [rev]. rewrite <- app_assoc. reflexivity.
      * destruct (decode_rune (b0 :: s')) as [r w] eqn:Hd.
        destruct ((w =? 1) && (r =? rune_error)) eqn:Herr.
        -- (* an invalid byte: \xHH *)
           assert (Hw : w = 1) by lia. subst w.
           change (zdrop 1 (b0 :: s')) with s' in *.
           cbn [app length] in *. rewrite app_length in HF. rewrite <- app_assoc.
           destruct F as [|F]; [lia|].
           rewrite (ps_xbyte F b0 _ acc Hb0).
           rewrite (IH s' Hb' ltac:(lia) rest (b0 :: acc) F ltac:(rewrite hexn2 in HF; cbn [length] in HF; lia)).
           cbn [rev]. rewrite <- app_assoc. reflexivity.
        -- (* a well-formed multi-byte rune *)
           destruct (decode_valid b0 s' r w E128 Hd Herr) as (Hr & Hv & Hsplit & Hhigh).
           set (tl := zdrop w (b0 :: s')) in *.
           assert (Hbs : forallb byte_ok (encode_rune r ++ tl) = true) by (rewrite <- Hsplit; cbn [forallb]; rewrite Hb0, Hb'; reflexivity).
           apply forallb_app_inv in Hbs as [_ Hbtl].
           assert (Hlen' : S (length s') = (length (encode_rune r) + length tl)%nat).
           { change (S (length s')) with (length (b0 :: s')). rewrite Hsplit at 1. apply app_length. }
           pose proof (encode_nonnil r) as Hne.
           assert (Hel : (1 <= length (encode_rune r))%nat) by (destruct (encode_rune r); [congruence | cbn [length]; lia]).
           destruct (esc_rune r (encode_rune r) Hr Hv eq_refl Hhigh Hne) as (m & Hm & Hstep).
           rewrite <- app_assoc. rewrite app_length in HF.
           replace F with (m + (F - m))%nat by lia.
           rewrite (Hstep (F - m)%nat (quote_body n tl ++ 34 :: rest) acc).
           rewrite (IH tl Hbtl ltac:(lia) rest _ (F - m)%nat ltac:(lia)).
           rewrite rev_app_distr, rev_involutive, <- app_assoc, <- Hsplit. reflexivity.
Qed.

(* MAIN: the lexer reads formatString(s) back as s, for every byte string s *)
Theorem string_roundtrip : forall s, quote_safe s = true ->
  forall rest sp, scan_body (quote s ++ rest) sp = STok (TString s) sp rest.
Proof.
  intros s Hb rest sp. unfold quote_safe in Hb.
  unfold quote. cbn [app]. rewrite scan_quote. rewrite <- app_assoc. cbn [app].
  rewrite (quote_rt (length s) s Hb (le_n _) rest []).
  - cbn [rev app ch nxt]. reflexivity.
  - rewrite app_length. cbn [length]. lia.
Qed.
