(* C20 — statement level, token argument: print / printf with and without redirection, and the
   expression statement.  PrintStmt.String() drops the parentheses of `print (a, b)` (the parser
   unwraps the MultiExpr), so its arguments are re-read by printExpr(): the guard is that every
   argument respects the table OF THE PRINT TOWER ([fits true 0]: no exposed > , no | getline);
   arguments that only fit expr() are the defect F-C20-2.
   Also: what Stmts.String()'s line-by-line indentation does to the tokens of a statement. *)
From Verif Require Import Lib.Base Gen.Prec Model.ExprAst Model.ExprParser Model.Printer
  Proofs.ExprParserMono Proofs.ExprParserRel Proofs.PrecSpec Proofs.ExprParserPrinted Proofs.ExprParserMin
  Proofs.ExprParserPrint Proofs.PrinterGroup Proofs.PrinterFits Proofs.PrinterRegex.
Local Open Scope nat_scope.

Lemma toks_pjoin_pe es : toks (pjoin pe es) = commas flat (map gp es).
Proof. apply toks_pjoin. apply Forall_forall. intros x _. apply toks_pe. Qed.

Lemma toks_print_pieces pf args rd dest :
  toks (print_pieces pf args rd dest) =
  (if pf then TPrintf else TPrint) :: commas flat (map gp args)
  ++ match dest with Some d => redir_tok rd :: flat (gp d) | None => [] end.
Proof.
  unfold print_pieces. cbn [toks]. rewrite toks_app, toks_pjoin_pe. f_equal. f_equal.
  destruct dest as [d|]; [|reflexivity]. cbn [toks]. rewrite toks_pe. reflexivity.
Qed.

Lemma all_fit_gp_true es : all_fit (fits true 0) es -> all_fit (fits true 0) (map gp es).
Proof. induction es as [|x r IH]; cbn [all_fit map]; [trivial|]. intros [H1 H2]. split; [apply fits_gp; exact H1 | auto]. Qed.

Lemma last_map_gp es d : last (map gp es) (gp d) = gp (last es d).
Proof. induction es as [|x [|y r] IH]; [reflexivity | reflexivity |]. cbn [map last] in *. exact IH. Qed.

Lemma last_default (l : list expr) : forall x d d', last (x :: l) d = last (x :: l) d'.
Proof. induction l as [|y l IH]; intros x d d'; [reflexivity|]. cbn [last]. apply (IH y). Qed.

Lemma fits_not_multi pc k e : fits pc k e -> match e with EMulti _ => False | _ => True end.
Proof. destruct e; cbn [fits]; trivial. Qed.

(* a token that ends a simple statement and is not a redirection *)
Definition stmt_stop (c : tok) : bool :=
  match c with TNewline | TSemicolon | TRBrace | TRParen => true | _ => false end.

Lemma stmt_stop_facts c rest : stmt_stop c = true ->
  exprlist_stop (c :: rest) = true /\ tok_cont true c = 0 /\ tok_cont false c = 0.
Proof. destruct c; try discriminate; intros _; repeat split; reflexivity. Qed.

(* print a1, .., an   (no redirection) *)
Theorem print_stmt_tokens : forall pf a args c rest,
  all_fit (fits true 0) (a :: args) -> stmt_stop c = true ->
  exists n0, forall n, n0 <= n ->
    p_simple_stmt n (toks (print_pieces pf (a :: args) RNone None) ++ c :: rest)
    = POk (TopPrint pf RNone None (map gp (a :: args)), c :: rest).
Proof.
  intros pf a args c rest Hf Hc.
  destruct (stmt_stop_facts c rest Hc) as (Hstop & Hct & Hcf).
  pose proof (all_fit_gp_true _ Hf) as Hf'.
  assert (HL : ExprList true true (commas flat (map gp (a :: args)) ++ c :: rest) (map gp (a :: args), c :: rest)).
  { cbn [map]. apply exprlist_all_pc; try assumption.
    - apply all_M.
    - apply ok_zero. exact Hcf. }
  destruct HL as [n1 HL].
  exists n1. intros n Hn.
  rewrite toks_print_pieces, app_nil_r.
  eapply exprlist_mono with (m := n) in HL; [|exact Hn].
  assert (Hnm : match map gp (a :: args) with [EMulti es] => es | _ => map gp (a :: args) end = map gp (a :: args)).
  { cbn [map]. destruct args as [|b args']; [|cbn [map]; destruct (gp a); reflexivity]. cbn [map].
    destruct Hf' as [Ha _]. pose proof (fits_not_multi _ _ _ Ha). destruct (gp a); try reflexivity. contradiction. }
  destruct pf; cbn [p_simple_stmt app]; rewrite HL; cbn [pbind]; rewrite Hnm;
    (destruct c; try discriminate Hc; cbn [pbind map]; reflexivity).
Qed.

(* print a1, .., an > dest   (>, >> or |): dest is not parenthesised by the printer; the guard
   [ok true (last args) (redirection token)] is C04's: the last argument must not end in an
   unparenthesised ?: (F-C04-1/2) *)
Theorem print_redirect_tokens : forall pf a args rd dest c rest,
  all_fit (fits true 0) (a :: args) -> rd <> RNone -> fits false 0 dest ->
  ok true (last (a :: args) a) (redir_tok rd) = true ->
  stmt_stop c = true ->
  exists n0, forall n, n0 <= n ->
    p_simple_stmt n (toks (print_pieces pf (a :: args) rd (Some dest)) ++ c :: rest)
    = POk (TopPrint pf rd (Some (gp dest)) (map gp (a :: args)), c :: rest).
Proof.
  intros pf a args rd dest c rest Hf Hrd Hd Hok Hc.
  destruct (stmt_stop_facts c rest Hc) as (Hstop & Hct & Hcf).
  pose proof (all_fit_gp_true _ Hf) as Hf'.
  set (tail := flat (gp dest) ++ c :: rest).
  assert (Hrt : exprlist_stop (redir_tok rd :: tail) = true /\ tok_cont true (redir_tok rd) = 0).
  { destruct rd; try congruence; split; reflexivity. }
  destruct Hrt as [Hrs Hrc].
  assert (HL : ExprList true true (commas flat (map gp (a :: args)) ++ redir_tok rd :: tail) (map gp (a :: args), redir_tok rd :: tail)).
  { cbn [map]. apply exprlist_all_pc; try assumption.
    - apply all_M.
    - change (gp a :: map gp args) with (map gp (a :: args)).
      replace (ENum []) with (gp (ENum [])) by reflexivity.
      rewrite last_map_gp. apply ok_gp.
      rewrite (last_default args a (ENum []) a). exact Hok. }
  destruct HL as [n1 HL].
  destruct (parse_printed (gp dest) LExpr false (c :: rest) (fits_gp _ _ _ Hd)
              ltac:(apply ok_zero; exact Hcf) ltac:(congruence) ltac:(cbn [hd_tok rk]; lia)) as [n2 HD].
  exists (Nat.max n1 n2). intros n Hn.
  rewrite toks_print_pieces. cbn [app]. rewrite <- app_assoc. cbn [app]. fold tail.
  eapply exprlist_mono with (m := n) in HL; [|lia].
  assert (Hnm : match map gp (a :: args) with [EMulti es] => es | _ => map gp (a :: args) end = map gp (a :: args)).
  { cbn [map]. destruct args as [|b args']; [|cbn [map]; destruct (gp a); reflexivity]. cbn [map].
    destruct Hf' as [Ha _]. pose proof (fits_not_multi _ _ _ Ha). destruct (gp a); try reflexivity. contradiction. }
  destruct pf; cbn [p_simple_stmt app]; rewrite HL; cbn [pbind]; rewrite Hnm; unfold tail;
    (destruct rd; try congruence; cbn [redir_tok pbind]; rewrite (HD n) by lia; cbn [pbind map]; reflexivity).
Qed.

(* an expression statement *)
Theorem expr_stmt_tokens : forall e c rest,
  fits false 0 e -> stmt_stop c = true ->
  (match pe e with PT TPrint :: _ | PT TPrintf :: _ => False | _ => True end) ->
  exists n0, forall n, n0 <= n ->
    p_simple_stmt n (toks (pe e) ++ c :: rest) = POk (TopExpr (gp e), c :: rest).
Proof.
  intros e c rest Hf Hc _.
  destruct (stmt_stop_facts c rest Hc) as (Hstop & Hct & Hcf).
  destruct (parse_printed (gp e) LExpr false (c :: rest) (fits_gp _ _ _ Hf)
              ltac:(apply ok_zero; exact Hcf) ltac:(congruence) ltac:(cbn [hd_tok rk]; lia)) as [n0 HD].
  exists n0. intros n Hn. rewrite toks_pe.
  pose proof (flat_start _ _ _ (fits_gp _ _ _ Hf)) as Hst. unfold first_tok in Hst.
  destruct (flat (gp e)) as [|t ts] eqn:Efl; [discriminate|].
  specialize (HD n Hn). cbn [hd_tok] in Hst.
  cbn [app] in *. unfold p_simple_stmt.
  destruct t; try discriminate Hst; rewrite HD; reflexivity.
Qed.

(* ---- the unguarded print statement is false on the faithful model: print (1, 2 > 1) ---- *)
Definition print_stmt_full_statement : Prop :=
  forall pf a args c rest,
  all_fit (fits false 0) (a :: args) -> stmt_stop c = true ->
  exists n0, forall n, n0 <= n ->
    p_simple_stmt n (toks (print_pieces pf (a :: args) RNone None) ++ c :: rest)
    = POk (TopPrint pf RNone None (map gp (a :: args)), c :: rest).

Definition w_one : expr := ENum [49%Z].
Definition w_gt : expr := EBinary BGt (ENum [50%Z]) (ENum [49%Z]).

Lemma w_print_multi_computed :
  p_simple_stmt 200 (toks (print_pieces false [w_one; w_gt] RNone None) ++ [TNewline])
  = POk (TopPrint false RGreater (Some (ENum [49%Z])) [ENum [49%Z]; ENum [50%Z]], [TNewline]).
Proof. vm_compute. reflexivity. Qed.

Theorem print_stmt_refuted : ~ print_stmt_full_statement.
Proof.
  intros H.
  destruct (H false w_one [w_gt] TNewline []) as [n0 Hn].
  - cbn. repeat split; try lia; try reflexivity; try discriminate.
  - reflexivity.
  - pose proof (Hn (Nat.max n0 200) (Nat.le_max_l _ _)) as H1.
    pose proof (p_simple_stmt_stable 200 (Nat.max n0 200) _ _ (Nat.le_max_r _ _) w_print_multi_computed ltac:(discriminate)) as H2.
    rewrite H2 in H1. discriminate.
Qed.

(* ---- Stmts.String(): indentation acts on the rendered text ---- *)
Definition no_newline_literal (p : piece) : bool :=
  match p with
  | PT (TRegex s) | PT (TName s) | PT (TNumber s) => forallb (fun b => negb (b =? 10)%Z) s
  | _ => true
  end.

(* the tokens of an indented statement are the statement's tokens, provided no literal text holds
   a newline byte (regex /a\<newline>b/: F-C20-5) *)
Fixpoint drop_newlines (ts : list tok) : list tok :=
  match ts with [] => [] | TNewline :: r => drop_newlines r | t :: r => t :: drop_newlines r end.

Lemma indent_piece_id p : no_newline_literal p = true ->
  match p with PT TNewline => True | _ => indent_piece p = [p] end.
Proof.
  destruct p as [t|]; [|reflexivity]. destruct t; try reflexivity; cbn [no_newline_literal indent_piece]; intros H;
    rewrite (indent_bytes_id _ H); reflexivity.
Qed.

Theorem indent_keeps_tokens : forall ps, forallb no_newline_literal ps = true ->
  toks (flat_map indent_piece ps) = toks ps.
Proof.
  induction ps as [|p ps IH]; [reflexivity|]. cbn [forallb flat_map]. intros H. apply andb_prop in H as [Hp Hps].
  rewrite toks_app, (IH Hps). pose proof (indent_piece_id p Hp) as Hid.
  destruct p as [t|]; [|reflexivity].
  destruct t; try (rewrite Hid; reflexivity). reflexivity.
Qed.

Definition indent_full_statement : Prop := forall ps, toks (flat_map indent_piece ps) = toks ps.

Theorem indent_refuted : ~ indent_full_statement.     (* y = /a\<newline>b/ inside a block *)
Proof. intros H. specialize (H [PT (TRegex [97; 92; 10; 98]%Z)]). vm_compute in H. discriminate. Qed.
