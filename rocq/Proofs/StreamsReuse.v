(* C13 proofs, part 9: a reused Interpreter.  Whatever a run did and however it
   ended, its closeAll leaves no stream registered; the next Execute
   (resetCore + setExecuteConfig = reset_core) starts with empty stream tables
   on the file system the earlier runs left -- it forgets nothing that is open. *)
From Verif Require Import Lib.Base Model.Streams Proofs.StreamsBase Proofs.StreamsSpec Proofs.StreamsFiles.

(* no helper of close touches the tables *)
Lemma deliver_tables E s n o data :
  st_outs (fst (deliver E s n o data)) = st_outs s /\ st_ins (fst (deliver E s n o data)) = st_ins s.
Proof.
  unfold deliver. destruct data as [|b d]; auto. destruct (os_kind o).
  - destruct (os_off o); cbn; auto.
  - destruct (c_drain (e_spec E n)).
    + set (s1 := match c_sink (e_spec E n) with Some t => _ | None => s end).
      assert (H1 : st_outs s1 = st_outs s /\ st_ins s1 = st_ins s) by (subst s1; destruct (c_sink _); cbn; auto).
      destruct (c_echo (e_spec E n)); auto.
      destruct (sf_child_out E s1 (os_cgfail o) (b :: d)) as (_ & A & B & _).
      destruct (child_out E s1 _ _) as [s2 ok]. cbn [fst] in *. destruct H1. split; congruence.
    + cbn [fst]. destruct (is_synced E s n); cbn; auto.
Qed.

Lemma close_ostream_tables E s n o :
  st_outs (fst (fst (close_ostream E s n o))) = st_outs s /\ st_ins (fst (fst (close_ostream E s n o))) = st_ins s.
Proof.
  unfold close_ostream, flush_ostream. pose proof (deliver_tables E s n o (os_buf o)) as H.
  destruct (deliver E s n o (os_buf o)) as [s1 o1]. cbn [fst] in H. cbn [os_kind os_cgfail].
  destruct (os_kind o1); cbn [fst]; auto.
  unfold child_eof. destruct (wait_result _ _). cbn [fst]. auto.
Qed.

Lemma close_streams_tables E ns : forall s,
  st_ins (close_streams E s ns) = st_ins s /\
  (forall m, alookup m (st_outs (close_streams E s ns)) <> None -> alookup m (st_outs s) <> None /\ ~ In m ns).
Proof.
  induction ns as [|n ns IH]; intros s; cbn [close_streams].
  - split; auto.
  - destruct (alookup n (st_outs s)) as [o|] eqn:El.
    + destruct (close_ostream_tables E (set_outs s (aremove n (st_outs s))) n o) as (A1 & A2).
      destruct (close_ostream E _ n o) as [[s1 code] err]. cbn [fst] in A1, A2.
      destruct (IH (add_log s1 (EvClose n false code))) as (B1 & B2). split.
      * rewrite B1. cbn [st_ins add_log]. rewrite A2. reflexivity.
      * intros m Hm. destruct (B2 m Hm) as (C1 & C2). cbn [st_outs add_log] in C1. rewrite A1 in C1. cbn [st_outs set_outs] in C1.
        rewrite alookup_aremove in C1. destruct (n =? m) eqn:Enm; [congruence|]. apply Z.eqb_neq in Enm.
        split; auto. intros [H|H]; auto.
    + destruct (IH s) as (B1 & B2). split; auto.
      intros m Hm. destruct (B2 m Hm) as (C1 & C2). split; auto. intros [H|H]; auto. subst. congruence.
Qed.

(* closeAll closes everything, after any run *)
Theorem close_all_closes_everything E s : st_outs (close_all E s) = [] /\ st_ins (close_all E s) = [].
Proof.
  unfold close_all.
  destruct (close_streams_tables E (map fst (st_outs (set_ins s []))) (set_ins s [])) as (B1 & B2).
  set (s1 := close_streams E _ _) in *.
  destruct (sf_flush_stdout E s1) as (_ & S2 & S3 & _). fold (flush_out_err E s1) in S2, S3.
  rewrite S2, S3, B1. split; [|reflexivity].
  apply all_none_nil. intros m. destruct (alookup m (st_outs s1)) eqn:El; auto.
  exfalso. destruct (B2 m) as (C1 & C2); [congruence|]. apply C2. apply In_keys_lookup. auto.
Qed.

Theorem run_closes_everything E s ops : st_outs (fst (run E s ops)) = [] /\ st_ins (fst (run E s ops)) = [].
Proof. unfold run. destruct (exec E s ops) as [s1 r]. cbn [fst]. apply close_all_closes_everything. Qed.

(* the state an Execute starts from *)
Fixpoint starts (E : env) (s : state) (limit : option nat) (progs : list (list op)) : list state :=
  match progs with
  | [] => []
  | ops :: rest => s :: starts E (reset_core (fst (run E s ops)) limit) limit rest
  end.

(* every Execute of a reused Interpreter starts with no registered stream, and so does the first
   if the Interpreter is new; what resetCore forgets was already closed: the run before ended with
   no registered stream either *)
Theorem every_execute_starts_clean E limit progs : forall s,
  st_outs s = [] -> st_ins s = [] ->
  Forall (fun s0 => st_outs s0 = [] /\ st_ins s0 = []) (starts E s limit progs) /\
  Forall (fun sr => st_outs (fst sr) = [] /\ st_ins (fst sr) = []) (run_many E s limit progs).
Proof.
  induction progs as [|ops rest IH]; intros s Ho Hi; cbn [starts run_many].
  - split; constructor.
  - pose proof (run_closes_everything E s ops) as Hc. destruct (run E s ops) as [s' r] eqn:Er. cbn [fst] in *.
    destruct (IH (reset_core s' limit) eq_refl eq_refl) as (A & B). split; constructor; auto.
Qed.

(* and it starts on the files the earlier runs left *)
Theorem reset_core_keeps_files s limit : st_fs (reset_core s limit) = st_fs s.
Proof. reflexivity. Qed.
