(* C03 proofs, part 1: the position specification, the lexer-state invariants, and what
   [next] and [unread] do to them. *)
From Verif Require Import Lib.Base Lib.Utf8 Model.Lexer.
From Coq Require Import ZifyBool.
Open Scope Z_scope.

Ltac splits := repeat match goal with |- _ /\ _ => split end.

(* ---- total-correctness assertions on [lres] ---------------------------------------- *)
Definition okr {A} (Q : A -> Prop) (r : lres A) : Prop := exists a, r = LOk a /\ Q a.

Lemma okr_ret {A} (Q : A -> Prop) a : Q a -> okr Q (LOk a).
Proof. intro H; exists a; auto. Qed.

Lemma okr_bind {A B} (Q1 : A -> Prop) (Q2 : B -> Prop) r (f : A -> lres B) :
  okr Q1 r -> (forall a, Q1 a -> okr Q2 (f a)) -> okr Q2 (lbind r f).
Proof. intros (a & -> & Ha) Hf. cbn [lbind]. auto. Qed.

Lemma okr_weaken {A} (Q1 Q2 : A -> Prop) r : okr Q1 r -> (forall a, Q1 a -> Q2 a) -> okr Q2 r.
Proof. intros (a & -> & Ha) H. exists a; auto. Qed.

Lemma okr_if {A} (Q : A -> Prop) (c : bool) x y :
  (c = true -> okr Q x) -> (c = false -> okr Q y) -> okr Q (if c then x else y).
Proof. destruct c; auto. Qed.

(* ---- the character at an offset, 0 outside the source ------------------------------ *)
Definition getch (src : bytes) (k : Z) : Z := match index src k with Ok c => c | _ => 0 end.

Lemma index_ok {A} (s : list A) k : 0 <= k < zlen s -> exists c, index s k = Ok c.
Proof.
  intros H. unfold index.
  replace ((0 <=? k) && (k <? zlen s)) with true by lia.
  destruct (nth_error s (Z.to_nat k)) eqn:E; eauto.
  apply nth_error_None in E. unfold zlen in H. lia.
Qed.

Lemma index_range {A} (s : list A) k c : index s k = Ok c -> 0 <= k < zlen s.
Proof.
  unfold index. destruct ((0 <=? k) && (k <? zlen s)) eqn:E; [lia|discriminate].
Qed.

Lemma getch_out src k : k < 0 \/ zlen src <= k -> getch src k = 0.
Proof.
  intros H. unfold getch, index.
  replace ((0 <=? k) && (k <? zlen src)) with false by lia. reflexivity.
Qed.

Lemma getch_index src k c : index src k = Ok c -> getch src k = c.
Proof. unfold getch; intros ->; reflexivity. Qed.

Lemma getch_nonzero src k : getch src k <> 0 -> index src k = Ok (getch src k) /\ 0 <= k < zlen src.
Proof.
  unfold getch. destruct (index src k) eqn:E; try congruence.
  intros _. split; [reflexivity|]. eapply index_range; eauto.
Qed.

(* ---- the specification, one byte at a time ----------------------------------------- *)
Definition adv (p : position) (c : Z) : position :=
  if c =? 10 then (fst p + 1, 1) else if c =? 13 then p else col_add p 1.

Lemma ztake_succ (src : bytes) k c : index src k = Ok c -> ztake (k + 1) src = ztake k src ++ [c].
Proof.
  intros H. pose proof (index_range _ _ _ H) as R.
  unfold index in H. replace ((0 <=? k) && (k <? zlen src)) with true in H by lia.
  destruct (nth_error src (Z.to_nat k)) eqn:E; [|discriminate]. injection H as ->.
  unfold ztake. replace (Z.to_nat (k + 1)) with (S (Z.to_nat k)) by lia.
  generalize dependent (Z.to_nat k). clear R k.
  induction src as [|x s IH]; intros n E.
  - destruct n; discriminate.
  - destruct n as [|n]; cbn in *.
    + injection E as ->. reflexivity.
    + f_equal. apply IH; assumption.
Qed.

Lemma line_tail_snoc s c : line_tail (s ++ [c]) = if c =? 10 then [] else line_tail s ++ [c].
Proof. unfold line_tail. rewrite fold_left_app. reflexivity. Qed.

Lemma count_lf_snoc s c : count_lf (s ++ [c]) = count_lf s + (if c =? 10 then 1 else 0).
Proof.
  unfold count_lf. rewrite filter_app, zlen_app. cbn [filter].
  destruct (c =? 10); reflexivity.
Qed.

Lemma count_non_cr_snoc s c : count_non_cr (s ++ [c]) = count_non_cr s + (if c =? 13 then 0 else 1).
Proof.
  unfold count_non_cr. rewrite filter_app, zlen_app. cbn [filter].
  destruct (c =? 13); reflexivity.
Qed.

Lemma pos_of_offset_0 src : pos_of_offset src 0 = (1, 1).
Proof. reflexivity. Qed.

Lemma pos_of_offset_neg src k : k <= 0 -> pos_of_offset src k = (1, 1).
Proof. intros H. unfold pos_of_offset. rewrite ztake_neg by lia. reflexivity. Qed.

Lemma pos_of_offset_step src k c :
  index src k = Ok c -> pos_of_offset src (k + 1) = adv (pos_of_offset src k) c.
Proof.
  intros H. unfold pos_of_offset. rewrite (ztake_succ _ _ _ H).
  rewrite count_lf_snoc, line_tail_snoc. unfold adv, col_add. cbn [fst snd].
  destruct (c =? 10) eqn:E10.
  - f_equal. lia.
  - rewrite count_non_cr_snoc. destruct (c =? 13); f_equal; lia.
Qed.

Lemma pos_of_offset_ge1 src k : 1 <= fst (pos_of_offset src k) /\ 1 <= snd (pos_of_offset src k).
Proof.
  unfold pos_of_offset, count_lf, count_non_cr. cbn [fst snd].
  split; match goal with |- 1 <= 1 + zlen ?l => pose proof (zlen_nonneg l); lia end.
Qed.

Lemma pos_of_offset_sat src k : zlen src <= k -> pos_of_offset src k = pos_of_offset src (zlen src).
Proof.
  intros H. unfold pos_of_offset. rewrite (ztake_all k) by lia. rewrite (ztake_all (zlen src)) by lia. reflexivity.
Qed.

(* ---- invariants of the lexer state -------------------------------------------------- *)
Section Inv.
Variable src : bytes.
Notation P := (pos_of_offset src).
Notation len := (zlen src).

(* bounds and current character: enough for "never panics, always terminates" *)
Definition W (l : lexer) : Prop :=
  0 <= offset l <= len + 1 /\ ch l = getch src (offset l - 1).

(* l.pos is the true position of the current byte (offset-1; offset-1 = len: the end of input)
   and l.nextPos the true position of the next one (the end-of-input position once past it) *)
Definition Norm (l : lexer) : Prop :=
  1 <= offset l /\ lpos l = P (offset l - 1) /\ npos l = P (offset l).

(* the end was reached without the extra step of offset (source empty, or ending in a NUL byte
   and next() called on it) *)
Definition EndS (l : lexer) : Prop :=
  offset l = len /\ ch l = 0 /\ lpos l = P len /\ npos l = P len.

Definition PosInv (l : lexer) : Prop := Norm l \/ EndS l.

Definition Inv (l : lexer) : Prop := W l /\ PosInv l.
Definition NormInv (l : lexer) : Prop := W l /\ Norm l.

Lemma NormInv_Inv l : NormInv l -> Inv l.
Proof. intros (Hw & Hn). split; [assumption|left; assumption]. Qed.

Lemma W_ch_nonzero l : W l -> ch l <> 0 -> 1 <= offset l <= len /\ index src (offset l - 1) = Ok (ch l).
Proof.
  intros (Hb & Hc) Hnz. rewrite Hc in Hnz. apply getch_nonzero in Hnz as (Hi & Hr).
  rewrite <- Hc in Hi. split; [lia|assumption].
Qed.

Lemma Inv_nonzero_NormInv l : Inv l -> ch l <> 0 -> NormInv l.
Proof.
  intros (Hw & Hp) Hnz. split; [assumption|].
  destruct Hp as [Hn|He]; [assumption|]. destruct He as (_ & Hz & _). congruence.
Qed.

(* whatever the state, l.pos is the position of some offset 0..len of the source *)
Lemma Inv_lpos_exists l : Inv l -> exists k, 0 <= k <= len /\ lpos l = P k.
Proof.
  intros ((Hb & Hc) & Hp). destruct Hp as [Hn|He].
  - destruct Hn as (H1 & Hl & _). exists (offset l - 1). split; [lia|assumption].
  - destruct He as (_ & _ & Hl & _). exists len. pose proof (zlen_nonneg src). split; [lia|assumption].
Qed.

Lemma Inv_W l : Inv l -> W l.
Proof. intros (H & _); exact H. Qed.

Lemma NormInv_W l : NormInv l -> W l.
Proof. intros (H & _); exact H. Qed.

Lemma NormInv_bounds l : NormInv l -> 1 <= offset l <= len + 1.
Proof. intros ((Hb & _) & H1 & _). lia. Qed.

Lemma NormInv_norm l : NormInv l -> Norm l.
Proof. intros (_ & H). exact H. Qed.

(* ---- next ---------------------------------------------------------------------------- *)
Lemma next_inv l :
  Inv l ->
  okr (fun l' => Inv l' /\ offset l <= offset l' <= offset l + 1 /\
                 (ch l <> 0 -> offset l' = offset l + 1) /\
                 hadSpace l' = hadSpace l /\ lastTok l' = lastTok l /\ lpos l' = npos l /\
                 (Norm l -> offset l <> len \/ ch l <> 0 -> Norm l'))
      (next src l).
Proof.
  intros ((Hb & Hc) & Hp). unfold next.
  destruct (offset l >=? len) eqn:Ege.
  - destruct (ch l =? 0) eqn:Ez.
    + (* at the end with ch = 0: only l.pos := l.nextPos *)
      assert (Ech : ch l = 0) by lia.
      apply okr_ret. cbn [offset ch lpos npos hadSpace lastTok].
      splits; try lia; try reflexivity.
      * split; [split; cbn [offset ch]; assumption|].
        destruct Hp as [Hn|He].
        -- destruct Hn as (H1 & Hl & Hn).
           destruct (Z.eq_dec (offset l) len) as [Eo|Eo].
           ++ right. unfold EndS; cbn [offset ch lpos npos]. rewrite Eo in Hn. splits; try lia; assumption.
           ++ left. unfold Norm; cbn [offset lpos npos]. assert (Eo' : offset l = len + 1) by lia.
              rewrite Eo' in *. replace (len + 1 - 1) with len by lia.
              rewrite (pos_of_offset_sat src (len + 1)) in Hn by lia. splits; try lia; try assumption.
              rewrite (pos_of_offset_sat src (len + 1)) by lia. assumption.
        -- destruct He as (Eo & _ & Hl & Hn). right. unfold EndS; cbn [offset ch lpos npos].
           splits; try lia; assumption.
      * intros (H1 & Hl & Hn) Hor. assert (Eo' : offset l = len + 1) by lia.
        unfold Norm; cbn [offset lpos npos]. rewrite Eo' in *. replace (len + 1 - 1) with len by lia.
        rewrite (pos_of_offset_sat src (len + 1)) in Hn by lia. splits; try lia; try assumption.
        rewrite (pos_of_offset_sat src (len + 1)) by lia. assumption.
    + (* the end is loaded now *)
      assert (Hnz : ch l <> 0) by lia.
      pose proof (W_ch_nonzero l (conj Hb Hc) Hnz) as (Ho & Hi).
      assert (Eo : offset l = len) by lia.
      assert (HN : Norm (mkL (offset l + 1) 0 (npos l) (npos l) (hadSpace l) (lastTok l))).
      { destruct Hp as [Hn|He]; [|destruct He as (_ & Hz & _); congruence].
        destruct Hn as (H1 & Hl & Hn). unfold Norm; cbn [offset ch lpos npos].
        replace (offset l + 1 - 1) with (offset l) by lia.
        rewrite (pos_of_offset_sat src (offset l + 1)) by lia. rewrite Eo in *.
        splits; try lia; assumption. }
      apply okr_ret. cbn [offset ch lpos npos hadSpace lastTok].
      splits; try lia; auto.
      split; [split; cbn [offset ch]; [lia|rewrite getch_out; lia]|]. left. exact HN.
  - (* an ordinary byte *)
    destruct (index_ok src (offset l)) as (c & Hi); [lia|]. rewrite Hi. cbn [of_res lbind].
    assert (HN : Norm (mkL (offset l + 1) c (npos l)
                (if c =? 10 then (fst (npos l) + 1, 1) else if c =? 13 then npos l else col_add (npos l) 1)
                (hadSpace l) (lastTok l))).
    { assert (Hn : Norm l) by (destruct Hp as [Hn|He]; [assumption|destruct He as (Eo & _); lia]).
      destruct Hn as (H1 & Hl & Hn). unfold Norm; cbn [offset ch lpos npos].
      replace (offset l + 1 - 1) with (offset l) by lia.
      splits; try lia; [assumption|].
      rewrite (pos_of_offset_step _ _ _ Hi), <- Hn. reflexivity. }
    apply okr_ret. cbn [offset ch lpos npos hadSpace lastTok].
    splits; try lia; auto.
    split; [split; cbn [offset ch]; [lia|]|left; exact HN].
    replace (offset l + 1 - 1) with (offset l) by lia.
    symmetry; apply getch_index; assumption.
Qed.

(* from a normal state with a real current character the state stays normal *)
Lemma next_norm l :
  NormInv l -> ch l <> 0 ->
  okr (fun l' => NormInv l' /\ offset l' = offset l + 1 /\
                 hadSpace l' = hadSpace l /\ lastTok l' = lastTok l /\ lpos l' = npos l)
      (next src l).
Proof.
  intros Hn Hnz. pose proof (NormInv_Inv _ Hn) as Hi.
  destruct (next_inv l Hi) as (l' & E & Hi' & Ho & Ho1 & Hh & Ht & Hl & HN).
  exists l'. split; [assumption|]. specialize (Ho1 Hnz).
  splits; try assumption; try lia.
  split; [apply Hi'|]. apply HN; [apply Hn|right; assumption].
Qed.

End Inv.
