(* C03 proofs, part 1: the position specification, the lexer-state invariants, and what
   [next] and [unread] do to them. *)
From Verif Require Import Lib.Base Lib.Utf8 Model.Lexer.
From Coq Require Import ZifyBool.
Open Scope Z_scope.

Ltac splits := repeat match goal with |- _ /\ _ => split end.

(* ---- total-correctness assertions on [lres] ---------------------------------------- *)
Definition okr {A} (Q : A -> Prop) (r : lres A) : Prop := exists a, r = LOk a /\ Q a.

Lemma okr_ret {A} (Q : A -> Prop) a : Q a -> okr Q (LOk a).
Proof. intro H; exists a; auto. Qed.

Lemma okr_bind {A B} (Q1 : A -> Prop) (Q2 : B -> Prop) r (f : A -> lres B) :
  okr Q1 r -> (forall a, Q1 a -> okr Q2 (f a)) -> okr Q2 (lbind r f).
Proof. intros (a & -> & Ha) Hf. cbn [lbind]. auto. Qed.

Lemma okr_weaken {A} (Q1 Q2 : A -> Prop) r : okr Q1 r -> (forall a, Q1 a -> Q2 a) -> okr Q2 r.
Proof. intros (a & -> & Ha) H. exists a; auto. Qed.

Lemma okr_if {A} (Q : A -> Prop) (c : bool) x y :
  (c = true -> okr Q x) -> (c = false -> okr Q y) -> okr Q (if c then x else y).
Proof. destruct c; auto. Qed.

(* ---- the character at an offset, 0 outside the source ------------------------------ *)
Definition getch (src : bytes) (k : Z) : Z := match index src k with Ok c => c | _ => 0 end.

Lemma index_ok {A} (s : list A) k : 0 <= k < zlen s -> exists c, index s k = Ok c.
Proof.
  intros H. unfold index.
  replace ((0 <=? k) && (k <? zlen s)) with true by lia.
  destruct (nth_error s (Z.to_nat k)) eqn:E; eauto.
  apply nth_error_None in E. unfold zlen in H. lia.
Qed.

Lemma index_range {A} (s : list A) k c : index s k = Ok c -> 0 <= k < zlen s.
Proof.
  unfold index. destruct ((0 <=? k) && (k <? zlen s)) eqn:E; [lia|discriminate].
Qed.

Lemma getch_out src k : k < 0 \/ zlen src <= k -> getch src k = 0.
Proof.
  intros H. unfold getch, index.
  replace ((0 <=? k) && (k <? zlen src)) with false by lia. reflexivity.
Qed.

Lemma getch_index src k c : index src k = Ok c -> getch src k = c.
Proof. unfold getch; intros ->; reflexivity. Qed.

Lemma getch_nonzero src k : getch src k <> 0 -> index src k = Ok (getch src k) /\ 0 <= k < zlen src.
Proof.
  unfold getch. destruct (index src k) eqn:E; try congruence.
  intros _. split; [reflexivity|]. eapply index_range; eauto.
Qed.

(* ---- the specification, one byte at a time ----------------------------------------- *)
Definition adv (p : position) (c : Z) : position :=
  if c =? 10 then (fst p + 1, 1) else if c =? 13 then p else col_add p 1.

Lemma ztake_succ (src : bytes) k c : index src k = Ok c -> ztake (k + 1) src = ztake k src ++ [c].
Proof.
  intros H. pose proof (index_range _ _ _ H) as R.
  unfold index in H. replace ((0 <=? k) && (k <? zlen src)) with true in H by lia.
  destruct (nth_error src (Z.to_nat k)) eqn:E; [|discriminate]. injection H as ->.
  unfold ztake. replace (Z.to_nat (k + 1)) with (S (Z.to_nat k)) by lia.
  generalize dependent (Z.to_nat k). clear R k.
  induction src as [|x s IH]; intros n E.
  - destruct n; discriminate.
  - destruct n as [|n]; cbn in *.
    + injection E as ->. reflexivity.
    + f_equal. apply IH; assumption.
Qed.

Lemma line_tail_snoc s c : line_tail (s ++ [c]) = if c =? 10 then [] else line_tail s ++ [c].
Proof. unfold line_tail. rewrite fold_left_app. reflexivity. Qed.

Lemma count_lf_snoc s c : count_lf (s ++ [c]) = count_lf s + (if c =? 10 then 1 else 0).
Proof.
  unfold count_lf. rewrite filter_app, zlen_app. cbn [filter].
  destruct (c =? 10); reflexivity.
Qed.

Lemma count_non_cr_snoc s c : count_non_cr (s ++ [c]) = count_non_cr s + (if c =? 13 then 0 else 1).
Proof.
  unfold count_non_cr. rewrite filter_app, zlen_app. cbn [filter].
  destruct (c =? 13); reflexivity.
Qed.

Lemma pos_of_offset_0 src : pos_of_offset src 0 = (1, 1).
Proof. reflexivity. Qed.

Lemma pos_of_offset_neg src k : k <= 0 -> pos_of_offset src k = (1, 1).
Proof. intros H. unfold pos_of_offset. rewrite ztake_neg by lia. reflexivity. Qed.

Lemma pos_of_offset_step src k c :
  index src k = Ok c -> pos_of_offset src (k + 1) = adv (pos_of_offset src k) c.
Proof.
  intros H. unfold pos_of_offset. rewrite (ztake_succ _ _ _ H).
  rewrite count_lf_snoc, line_tail_snoc. unfold adv, col_add. cbn [fst snd].
  destruct (c =? 10) eqn:E10.
  - f_equal. lia.
  - rewrite count_non_cr_snoc. destruct (c =? 13); f_equal; lia.
Qed.

Lemma pos_of_offset_ge1 src k : 1 <= fst (pos_of_offset src k) /\ 1 <= snd (pos_of_offset src k).
Proof.
  unfold pos_of_offset, count_lf, count_non_cr. cbn [fst snd].
  split; match goal with |- 1 <= 1 + zlen ?l => pose proof (zlen_nonneg l); lia end.
Qed.

(* ---- invariants of the lexer state -------------------------------------------------- *)
Section Inv.
Variable src : bytes.
Notation P := (pos_of_offset src).
Notation len := (zlen src).

(* bounds and current character: enough for "never panics, always terminates" *)
Definition W (l : lexer) : Prop :=
  0 <= offset l <= len + 1 /\ ch l = getch src (offset l - 1).

(* the current character is the byte at offset-1 and both positions are the true ones *)
Definition Norm (l : lexer) : Prop :=
  1 <= offset l /\ lpos l = P (offset l - 1) /\ npos l = adv (P (offset l - 1)) (ch l).

(* the end was reached without the extra step (source empty or ending in a NUL byte) *)
Definition EndS (l : lexer) : Prop :=
  offset l = len /\ ch l = 0 /\ lpos l = P len /\ npos l = P len.

(* next() was called after the end had been loaded *)
Definition OverS (l : lexer) : Prop :=
  offset l = len + 1 /\ ch l = 0 /\ over l = true.

Definition PosInv (l : lexer) : Prop := Norm l \/ EndS l \/ OverS l.

Definition Inv0 (l : lexer) : Prop := W l /\ (xl l = false -> PosInv l).
Definition NormInv0 (l : lexer) : Prop := W l /\ 1 <= offset l /\ (xl l = false -> Norm l).

Lemma NormInv0_Inv0 l : NormInv0 l -> Inv0 l.
Proof. intros (Hw & _ & Hn). split; [assumption|]. intros H; left; auto. Qed.

Lemma W_ch_nonzero l : W l -> ch l <> 0 -> 1 <= offset l <= len /\ index src (offset l - 1) = Ok (ch l).
Proof.
  intros (Hb & Hc) Hnz. rewrite Hc in Hnz. apply getch_nonzero in Hnz as (Hi & Hr).
  rewrite <- Hc in Hi. split; [lia|assumption].
Qed.

Lemma Inv0_nonzero_NormInv0 l : Inv0 l -> ch l <> 0 -> NormInv0 l.
Proof.
  intros (Hw & Hp) Hnz. pose proof (W_ch_nonzero _ Hw Hnz) as (Ho & _).
  split; [assumption|]. split; [lia|]. intros Hx. destruct (Hp Hx) as [Hn|[He|Ho']]; [assumption| |].
  - destruct He as (_ & Hz & _). congruence.
  - destruct Ho' as (_ & Hz & _). congruence.
Qed.

(* the position an ILLEGAL token reports, whatever the state *)
Lemma Inv0_lpos_exists l :
  Inv0 l -> xl l = false -> over l = false -> exists k, 0 <= k <= len /\ lpos l = P k.
Proof.
  intros ((Hb & Hc) & Hp) Hx Hov. destruct (Hp Hx) as [Hn|[He|Ho]].
  - destruct Hn as (H1 & Hl & _). exists (offset l - 1). split; [lia|assumption].
  - destruct He as (_ & _ & Hl & _). exists len. pose proof (zlen_nonneg src). split; [lia|assumption].
  - destruct Ho as (_ & _ & Ho). congruence.
Qed.

(* ---- next ---------------------------------------------------------------------------- *)
Lemma adv_zero p : adv p 0 = col_add p 1.
Proof. reflexivity. Qed.

Lemma next_inv0 l :
  Inv0 l ->
  okr (fun l' => Inv0 l' /\ xl l' = xl l /\ offset l <= offset l' <= offset l + 1 /\
                 (ch l <> 0 -> offset l' = offset l + 1) /\
                 hadSpace l' = hadSpace l /\ lastTok l' = lastTok l /\ lpos l' = npos l /\
                 (xl l = false -> offset l < len \/ ch l <> 0 -> Norm l'))
      (next src l).
Proof.
  intros ((Hb & Hc) & Hp). unfold next.
  destruct (offset l >=? len) eqn:Ege.
  - destruct (ch l =? 0) eqn:Ez.
    + (* already at the end with ch = 0 *)
      apply okr_ret. cbn [offset ch lpos npos xl over hadSpace lastTok].
      splits; try lia; try assumption; try reflexivity.
      split; [split; cbn [offset ch]; assumption|]. cbn [xl].
      intros Hx. specialize (Hp Hx). destruct Hp as [Hn|[He|Ho]].
      * destruct Hn as (H1 & Hl & Hn).
        assert (Ech : ch l = 0) by lia. rewrite Ech, adv_zero in Hn.
        destruct (offset l >? len) eqn:Egt.
        -- right; right. unfold OverS; cbn [offset ch over]. splits; try lia.
        -- right; left. unfold EndS; cbn [offset ch lpos npos].
           assert (Eo : offset l = len) by lia.
           assert (Hi : index src (len - 1) = Ok 0).
           { destruct (index_ok src (len - 1)) as (c & Hc'); [lia|].
             rewrite Eo in Hc. rewrite (getch_index _ _ _ Hc') in Hc. congruence. }
           pose proof (pos_of_offset_step _ _ _ Hi) as Hs.
           replace (len - 1 + 1) with len in Hs by lia. rewrite adv_zero in Hs.
           rewrite Eo in Hn. splits; try lia; congruence.
      * destruct He as (Eo & _ & Hl & Hn). right; left. unfold EndS; cbn [offset ch lpos npos].
        splits; try lia; assumption.
      * destruct Ho as (Eo & _ & Hov). right; right. unfold OverS; cbn [offset ch over].
        splits; try lia; try (rewrite Hov; reflexivity).
    + (* the end is loaded now *)
      assert (Hnz : ch l <> 0) by lia.
      pose proof (W_ch_nonzero l (conj Hb Hc) Hnz) as (Ho & Hi).
      assert (Eo : offset l = len) by lia.
      assert (HN : xl l = false -> Norm (mkL (offset l + 1) 0 (npos l) (col_add (npos l) 1) (hadSpace l) (lastTok l) (xl l) (over l))).
      { intros Hx. specialize (Hp Hx).
        destruct Hp as [Hn|[He|Hov]]; [|destruct He as (_ & Hz & _); congruence|destruct Hov as (_ & Hz & _); congruence].
        destruct Hn as (H1 & Hl & Hn). unfold Norm; cbn [offset ch lpos npos].
        pose proof (pos_of_offset_step _ _ _ Hi) as Hs.
        replace (offset l - 1 + 1) with (offset l) in Hs by lia.
        replace (offset l + 1 - 1) with (offset l) by lia.
        rewrite adv_zero. splits; try lia; congruence. }
      apply okr_ret. cbn [offset ch lpos npos xl over hadSpace lastTok].
      splits; try lia; auto.
      split; [split; cbn [offset ch]; [lia|rewrite getch_out; lia]|].
      cbn [xl]. intros Hx. left. auto.
  - (* an ordinary byte *)
    destruct (index_ok src (offset l)) as (c & Hi); [lia|]. rewrite Hi. cbn [of_res lbind].
    assert (HN : xl l = false -> Norm (mkL (offset l + 1) c (npos l)
                (if c =? 10 then (fst (npos l) + 1, 1) else if c =? 13 then npos l else col_add (npos l) 1)
                (hadSpace l) (lastTok l) (xl l) (over l))).
    { intros Hx. specialize (Hp Hx).
      assert (Hn : Norm l).
      { destruct Hp as [Hn|[He|Hov]]; [assumption|destruct He as (Eo & _); lia|destruct Hov as (Eo & _); lia]. }
      destruct Hn as (H1 & Hl & Hn). unfold Norm; cbn [offset ch lpos npos].
      replace (offset l + 1 - 1) with (offset l) by lia.
      assert (Hs : P (offset l) = npos l).
      { destruct (index_ok src (offset l - 1)) as (c0 & Hc0); [lia|].
        rewrite (getch_index _ _ _ Hc0) in Hc.
        pose proof (pos_of_offset_step _ _ _ Hc0) as Hs.
        replace (offset l - 1 + 1) with (offset l) in Hs by lia. congruence. }
      splits; try lia; [congruence|].
      rewrite Hs. unfold adv, col_add. reflexivity. }
    apply okr_ret. cbn [offset ch lpos npos xl over hadSpace lastTok].
    splits; try lia; auto.
    split; [split; cbn [offset ch]; [lia|]|].
    + replace (offset l + 1 - 1) with (offset l) by lia.
      symmetry; apply getch_index; assumption.
    + cbn [xl]. intros Hx. left. auto.
Qed.

(* from a normal state with a real current character the state stays normal *)
Lemma next_norm0 l :
  NormInv0 l -> ch l <> 0 ->
  okr (fun l' => NormInv0 l' /\ xl l' = xl l /\ offset l' = offset l + 1 /\
                 hadSpace l' = hadSpace l /\ lastTok l' = lastTok l /\ lpos l' = npos l)
      (next src l).
Proof.
  intros Hn Hnz. pose proof (NormInv0_Inv0 _ Hn) as Hi.
  destruct (next_inv0 l Hi) as (l' & E & Hi' & Hx & Ho & Ho1 & Hh & Ht & Hl & HN).
  exists l'. split; [assumption|]. specialize (Ho1 Hnz).
  destruct Hn as (Hw & H1 & _).
  splits; try assumption; try lia.
  split; [apply Hi'|]. split; [lia|].
  intros Hx'. apply HN; [congruence|right; assumption].
Qed.


(* ---- the ghost flag over: it is only ever set when the last byte of the source is a backslash,
   provided next() is called at the end of input only from the two places that do so (after a
   backslash inside a string or a regex) ---------------------------------------------------- *)
Definition BS : Prop := getch src (len - 1) = 92.
Definition OverOK (l : lexer) : Prop := over l = true -> BS.

Lemma next_over l l' :
  next src l = LOk l' -> W l -> OverOK l -> ch l <> 0 \/ getch src (offset l - 2) = 92 -> OverOK l'.
Proof.
  intros E (Hb & Hc) Hov Hpre. unfold next in E.
  destruct (offset l >=? len) eqn:Ege.
  - destruct (ch l =? 0) eqn:Ez.
    + injection E as <-. unfold OverOK; cbn [over]. intros Ho.
      destruct (over l) eqn:Eo; [apply Hov; exact Eo|].
      cbn [orb] in Ho. assert (Eoff : offset l = len + 1) by lia.
      destruct Hpre as [Hnz|Hbs]; [lia|]. unfold BS. rewrite Eoff in Hbs.
      replace (len + 1 - 2) with (len - 1) in Hbs by lia. exact Hbs.
    + injection E as <-. exact Hov.
  - destruct (index src (offset l)); try discriminate. cbn in E. injection E as <-. exact Hov.
Qed.

Definition Inv (l : lexer) : Prop := Inv0 l /\ OverOK l.
Definition NormInv (l : lexer) : Prop := NormInv0 l /\ OverOK l.

Lemma NormInv_Inv l : NormInv l -> Inv l.
Proof. intros (H & Ho). split; [apply NormInv0_Inv0; exact H|exact Ho]. Qed.

Lemma Inv_nonzero_NormInv l : Inv l -> ch l <> 0 -> NormInv l.
Proof. intros (H & Ho) Hnz. split; [apply Inv0_nonzero_NormInv0; assumption|exact Ho]. Qed.

Lemma Inv_lpos_exists l :
  Inv l -> xl l = false -> over l = false -> exists k, 0 <= k <= len /\ lpos l = P k.
Proof. intros (H & _). apply Inv0_lpos_exists; exact H. Qed.

Lemma Inv_W l : Inv l -> W l.
Proof. intros ((H & _) & _); exact H. Qed.

Lemma NormInv_W l : NormInv l -> W l.
Proof. intros ((H & _) & _); exact H. Qed.

Lemma NormInv_bounds l : NormInv l -> 1 <= offset l <= len + 1.
Proof. intros (((Hb & _) & H1 & _) & _). lia. Qed.

Lemma NormInv_norm l : NormInv l -> xl l = false -> Norm l.
Proof. intros ((_ & _ & H) & _). exact H. Qed.

Lemma Inv_over l : Inv l -> over l = true -> BS.
Proof. intros (_ & H). exact H. Qed.

Lemma next_inv l :
  Inv l -> ch l <> 0 \/ getch src (offset l - 2) = 92 ->
  okr (fun l' => Inv l' /\ xl l' = xl l /\ offset l <= offset l' <= offset l + 1 /\
                 (ch l <> 0 -> offset l' = offset l + 1) /\
                 hadSpace l' = hadSpace l /\ lastTok l' = lastTok l /\ lpos l' = npos l)
      (next src l).
Proof.
  intros (Hi & Ho) Hpre.
  destruct (next_inv0 l Hi) as (l' & E & Hi' & H2 & H3 & H4 & H5 & H6 & H7 & _).
  exists l'. split; [exact E|]. splits; try assumption; try lia.
  split; [exact Hi'|]. apply (next_over l l' E); [apply Hi|exact Ho|exact Hpre].
Qed.

Lemma next_norm l :
  NormInv l -> ch l <> 0 ->
  okr (fun l' => NormInv l' /\ xl l' = xl l /\ offset l' = offset l + 1 /\
                 hadSpace l' = hadSpace l /\ lastTok l' = lastTok l /\ lpos l' = npos l)
      (next src l).
Proof.
  intros (Hn & Ho) Hnz.
  destruct (next_norm0 l Hn Hnz) as (l' & E & Hn' & H2 & H3 & H4 & H5 & H6).
  exists l'. split; [exact E|]. splits; try assumption; try lia.
  split; [exact Hn'|]. apply (next_over l l' E); [apply Hn|exact Ho|left; exact Hnz].
Qed.

End Inv.
