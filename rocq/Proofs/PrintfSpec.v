(* C09 specification: ISO C printf (7.21.6.1) for the conversions
   d i o u x X c s and %%, written from the standard and independent of the
   model of the Go code (this file imports only Lib).  A conversion
   specification is kept as it is written (flag characters in any order and
   multiplicity, width / precision as digit strings or '*'), its meaning is
   given by [c_directive].  Floating conversions are not specified here. *)
From Verif Require Import Lib.Base Lib.Dyadic Lib.Utf8.

Inductive conv : Type := Cd | Ci | Co | Cu | Cx | CX | Cc | Cs | Ce | CE | Cf | Cg | CG.

Definition conv_byte (c : conv) : Z :=
  match c with
  | Cd => 100 | Ci => 105 | Co => 111 | Cu => 117 | Cx => 120 | CX => 88 | Cc => 99 | Cs => 115
  | Ce => 101 | CE => 69 | Cf => 102 | Cg => 103 | CG => 71
  end.

Inductive wd : Type := WNone | WLit (ds : bytes) | WStar.
Inductive pr : Type := PrNone | PrLit (ds : bytes) | PrStar.      (* PrLit [] is "." *)

Record dir : Type := mkDir { d_flags : bytes; d_width : wd; d_prec : pr; d_conv : conv }.

Definition is_flag (c : Z) : bool := (c =? 45) || (c =? 43) || (c =? 32) || (c =? 35) || (c =? 48).
Definition is_dig (c : Z) : bool := (48 <=? c) && (c <=? 57).

(* well-formed: flags are flag characters, a literal width is a non-empty
   digit string not starting with 0 (a leading 0 is the flag), a literal
   precision is a possibly empty digit string *)
Definition wf_dir (d : dir) : bool :=
  forallb is_flag (d_flags d)
  && match d_width d with
     | WLit (c :: ds) => is_dig c && negb (c =? 48) && forallb is_dig ds
     | WLit [] => false
     | _ => true
     end
  && match d_prec d with PrLit ds => forallb is_dig ds | _ => true end.

Definition render_w (w : wd) : bytes := match w with WNone => [] | WLit ds => ds | WStar => [42] end.
Definition render_p (p : pr) : bytes := match p with PrNone => [] | PrLit ds => 46 :: ds | PrStar => [46; 42] end.

(* the conversion specification as text *)
Definition render (d : dir) : bytes :=
  37 :: d_flags d ++ render_w (d_width d) ++ render_p (d_prec d) ++ [conv_byte (d_conv d)].

(* value of a decimal digit string *)
Definition dval (ds : bytes) : Z := fold_left (fun a c => a * 10 + (c - 48)) ds 0.

Definition has (c : Z) (fl : bytes) : bool := existsb (Z.eqb c) fl.

(* how many int arguments the '*'s take *)
Definition n_stars (d : dir) : nat :=
  (match d_width d with WStar => 1 | _ => 0 end + match d_prec d with PrStar => 1 | _ => 0 end)%nat.

(* ---- the resolved specification: flags, field width, precision ---- *)
Record rspec : Type := mkR {
  r_minus : bool; r_plus : bool; r_space : bool; r_sharp : bool; r_zero : bool;
  r_width : Z;                 (* 0 = none *)
  r_prec : option Z }.

(* wv, pv: the values of the '*' arguments (ignored when the field is not '*').
   A negative '*' width is the - flag followed by a positive width; a negative
   '*' precision is taken as if the precision were omitted. *)
Definition resolve (d : dir) (wv pv : Z) : rspec :=
  let w := match d_width d with WNone => 0 | WLit ds => dval ds | WStar => wv end in
  let p := match d_prec d with
           | PrNone => None
           | PrLit ds => Some (dval ds)
           | PrStar => if pv <? 0 then None else Some pv
           end in
  mkR (has 45 (d_flags d) || (w <? 0)) (has 43 (d_flags d)) (has 32 (d_flags d))
      (has 35 (d_flags d)) (has 48 (d_flags d)) (Z.abs w) p.

(* n copies of c *)
Definition rep (n : Z) (c : Z) : bytes := repeat c (Z.to_nat n).

(* digits of u >= 0 in the given base, most significant first, no leading
   zero (a single 0 for u = 0) *)
Definition dchar (upper : bool) (d : Z) : Z :=
  if d <? 10 then 48 + d else (if upper then 65 else 97) + (d - 10).

Fixpoint to_digits_fuel (fuel : nat) (base u : Z) (upper : bool) (acc : bytes) : bytes :=
  match fuel with
  | O => acc
  | S k => let acc' := dchar upper (u mod base) :: acc in
           if u <? base then acc' else to_digits_fuel k base (u / base) upper acc'
  end.
Definition to_digits (base u : Z) (upper : bool) : bytes :=
  to_digits_fuel (S (Z.to_nat (Z.log2 u))) base u upper [].

(* what the digit string means *)
Definition dig_val (c : Z) : Z :=
  if c <? 58 then c - 48 else if c <? 91 then c - 55 else c - 87.
Definition digits_value (base : Z) (ds : bytes) : Z :=
  fold_left (fun a c => a * base + dig_val c) ds 0.

(* field padding: [pre] is the sign / base prefix, [body] the digits or text *)
Definition c_field (r : rspec) (zero_ok : bool) (pre body : bytes) : bytes :=
  let fill := r_width r - (zlen pre + zlen body) in
  if r_minus r then pre ++ body ++ rep fill 32
  else if r_zero r && zero_ok then pre ++ rep fill 48 ++ body
  else rep fill 32 ++ pre ++ body.

(* minimum number of digits = precision (default 1); value 0 with precision 0
   gives no digits *)
Definition c_digits (r : rspec) (base mag : Z) (upper : bool) : bytes :=
  let p := match r_prec r with Some p => p | None => 1 end in
  if (mag =? 0) && (p =? 0) then []
  else let ds := to_digits base mag upper in rep (p - zlen ds) 48 ++ ds.

(* d i : v is the (signed) argument *)
Definition c_signed (r : rspec) (v : Z) : bytes :=
  let sign := if v <? 0 then [45] else if r_plus r then [43] else if r_space r then [32] else [] in
  c_field r (match r_prec r with None => true | Some _ => false end) sign (c_digits r 10 (Z.abs v) false).

(* o u x X : v is the argument as a signed 64-bit integer, converted to
   unsigned (modulo 2^64) *)
Definition c_unsigned (r : rspec) (c : conv) (v : Z) : bytes :=
  let u := v mod two64 in
  let zero_ok := match r_prec r with None => true | Some _ => false end in
  match c with
  | Co => let ds := c_digits r 8 u false in
          (* # : the precision is increased, if and only if necessary, to force a leading 0 *)
          let ds := if r_sharp r then (match ds with 48 :: _ => ds | _ => 48 :: ds end) else ds in
          c_field r zero_ok [] ds
  | Cx => c_field r zero_ok (if r_sharp r && negb (u =? 0) then [48; 120] else []) (c_digits r 16 u false)
  | CX => c_field r zero_ok (if r_sharp r && negb (u =? 0) then [48; 88] else []) (c_digits r 16 u true)
  | _ => c_field r zero_ok [] (c_digits r 10 u false)
  end.

(* units in which width and precision of %s and %c count: bytes, or characters
   in AWK's character mode *)
Definition units (chars : bool) (s : bytes) : list bytes :=
  if chars then runes s else List.map (fun b => [b]) s.

(* s : at most precision units of the string, padded with spaces *)
Definition c_string (chars : bool) (r : rspec) (s : bytes) : bytes :=
  let u := units chars s in
  let u := match r_prec r with Some p => ztake p u | None => u end in
  let fill := r_width r - zlen u in
  if r_minus r then concat u ++ rep fill 32 else rep fill 32 ++ concat u.

(* c : one character, padded with spaces *)
Definition c_char (r : rspec) (ch : bytes) : bytes :=
  let fill := r_width r - 1 in
  if r_minus r then ch ++ rep fill 32 else rep fill 32 ++ ch.

(* the argument of a conversion, converted the AWK way *)
Inductive carg : Type :=
| AInt (v : Z)          (* d i o u x X : the number truncated toward zero *)
| AChar (ch : bytes)    (* c : the character (one byte, or one UTF-8 sequence) *)
| AStr (s : bytes)      (* s *)
| ANonFin (x : fnum).   (* e E f g G : an infinity or NaN (finite values are not specified here) *)

(* e E f g G of an infinity or NaN: [-]inf or [-]nan (upper case for E G), the
   sign rules of a signed conversion, padded with spaces; the 0 flag and the
   precision have no effect *)
Definition c_nonfinite (r : rspec) (x : fnum) (upper : bool) : bytes :=
  let word := match x with
              | FInf _ => if upper then [73; 78; 70] else [105; 110; 102]
              | _ => if upper then [78; 65; 78] else [110; 97; 110]
              end in
  let sign := match x with
              | FInf true => [45]
              | _ => if r_plus r then [43] else if r_space r then [32] else []
              end in
  c_field r false sign word.

Definition c_directive (chars : bool) (d : dir) (wv pv : Z) (a : carg) : bytes :=
  let r := resolve d wv pv in
  match d_conv d, a with
  | (Cd | Ci), AInt v => c_signed r v
  | (Co | Cu | Cx | CX), AInt v => c_unsigned r (d_conv d) v
  | Cc, AChar ch => c_char r ch
  | Cs, AStr s => c_string chars r s
  | (Ce | Cf | Cg), ANonFin x => c_nonfinite r x false
  | (CE | CG), ANonFin x => c_nonfinite r x true
  | _, _ => []
  end.

(* ---- where C leaves the behaviour undefined ---- *)
Definition c_defined (d : dir) : bool :=
  match d_conv d with
  | Cd | Ci | Cu => negb (has 35 (d_flags d))
  | Co | Cx | CX => true
  | Cc => negb (has 35 (d_flags d)) && negb (has 48 (d_flags d))
          && match d_prec d with PrNone => true | _ => false end
  | Cs => negb (has 35 (d_flags d)) && negb (has 48 (d_flags d))
  | Ce | CE | Cf | Cg | CG => true
  end.
