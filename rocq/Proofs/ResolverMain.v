(* C16: the statements about [resolve] with every auxiliary outcome discharged:
   no Go panic, no fuel exhaustion, and the precondition reduced to its part
   about call heads and names. *)
From Verif Require Import Lib.Base Model.Resolver Proofs.Resolver Proofs.ResolverSound Proofs.ResolverExact
  Proofs.ResolverOrder Proofs.ResolverFlat Proofs.ResolverNoPanic Proofs.ResolverTopo Proofs.ResolverBound Proofs.ResolverLoop.
Open Scope Z_scope.

(* the only possible outcomes for a program that meets the precondition *)
Theorem main_outcomes cut pi P :
  perm_oracle pi -> wf0 P = true ->
  (exists F, resolve_cut cut pi P = ROk F) \/
  (exists e, resolve_cut cut pi P = RErr e /\ is_type_error e = true) \/
  resolve_cut cut pi P = RErr ETooManyIter.
Proof.
  intros Hpi Hwf0. pose proof (wf0_wf P Hwf0) as Hwf.
  destruct (wf_parts P Hwf) as [Hd [Hnd [Hne [Hb [Hwff Hwfm]]]]].
  pose proof (ordered_funcs_total pi P Hpi) as Hof.
  unfold resolve_cut. rewrite Hd. destruct (ordered_funcs pi P) as [order|]; [|congruence].
  pose proof (resolve_order_clean P Hnd Hne Hwff Hwfm Hb cut order Hd) as Hc.
  destruct (resolve_order cut order P) as [F|e| |]; cbn [clean] in Hc; try contradiction.
  - left. eauto.
  - destruct Hc as [Hc| ->]; [right; left; eauto | right; right; reflexivity].
Qed.

Theorem main_exact cut pi P :
  perm_oracle pi -> wf0 P = true ->
  resolve_cut cut pi P <> RErr ETooManyIter ->
  ((exists F, resolve_cut cut pi P = ROk F) <-> sat P).
Proof.
  intros Hpi Hwf0 Hcut. apply resolve_exact; [exact Hpi | apply wf0_wf; exact Hwf0 | exact Hcut|].
  apply resolve_cut_no_fuel. exact Hpi.
Qed.

Theorem main_order_independent cut pi pi' P P' :
  perm_oracle pi -> perm_oracle pi' -> wf0 P = true -> reordered P P' ->
  resolve_cut cut pi P <> RErr ETooManyIter -> resolve_cut cut pi' P' <> RErr ETooManyIter ->
  ((exists F, resolve_cut cut pi P = ROk F) <-> (exists F', resolve_cut cut pi' P' = ROk F')) /\
  (forall F F', resolve_cut cut pi P = ROk F -> resolve_cut cut pi' P' = ROk F' ->
                forall k, rho_of (fin_types F') k = rho_of (fin_types F) k).
Proof.
  intros Hpi Hpi' Hwf0 Hre Hc Hc'.
  apply reorder_independent; try assumption.
  - apply wf0_wf. exact Hwf0.
  - apply resolve_cut_no_fuel. exact Hpi.
  - apply resolve_cut_no_fuel. exact Hpi'.
Qed.

(* in particular: the map iteration order alone never changes verdict or types *)
Theorem main_map_order_irrelevant cut pi pi' P :
  perm_oracle pi -> perm_oracle pi' -> wf0 P = true ->
  resolve_cut cut pi P <> RErr ETooManyIter -> resolve_cut cut pi' P <> RErr ETooManyIter ->
  ((exists F, resolve_cut cut pi P = ROk F) <-> (exists F', resolve_cut cut pi' P = ROk F')) /\
  (forall F F', resolve_cut cut pi P = ROk F -> resolve_cut cut pi' P = ROk F' ->
                forall k, rho_of (fin_types F') k = rho_of (fin_types F) k).
Proof.
  intros Hpi Hpi' Hwf0. apply main_order_independent; try assumption.
  split; [reflexivity|]. split; apply Permutation.Permutation_refl.
Qed.

(* ---------- the cut-off is the only thing the constant 100 decides ------------------ *)

Lemma pass_loop_mono P order k d s u r :
  pass_loop P order k s u = r -> r <> RErr ETooManyIter -> pass_loop P order (k + d) s u = r.
Proof.
  revert s u. induction k as [|k IH]; intros s u H Hr.
  - cbn [pass_loop] in H. destruct d as [|d]; cbn [Nat.add pass_loop].
    + exact H.
    + destruct (st_updates s =? u); [exact H|].
      destruct (walk_ordered P order s); try exact H. congruence.
  - cbn [Nat.add pass_loop] in *. destruct (st_updates s =? u); [exact H|].
    destruct (walk_ordered P order s); try exact H. apply IH; assumption.
Qed.

(* any outcome other than "too many iterations" is the outcome for every larger cut-off *)
Theorem cutoff_only cut d pi P r :
  resolve_cut cut pi P = r -> r <> RErr ETooManyIter -> resolve_cut (cut + d) pi P = r.
Proof.
  unfold resolve_cut. destruct (first_dup [] (fnames P)); [auto|].
  destruct (ordered_funcs pi P) as [order|]; [|auto].
  unfold resolve_order. destruct (first_dup [] (fnames P)); [auto|].
  destruct (record_var P _ [] n_ARGV TArray) as [s1| | |]; cbn [rbind2]; auto.
  destruct (record_var P s1 [] n_ENVIRON TArray) as [s2| | |]; cbn [rbind2]; auto.
  destruct (record_var P s2 [] n_FIELDS TArray) as [s3| | |]; cbn [rbind2]; auto.
  destruct (walk_ordered P order s3) as [s4| | |]; cbn [rbind2]; auto.
  intros H Hr.
  destruct (pass_loop P order cut s4 (st_updates s3)) as [s5|e| |] eqn:E; cbn [rbind2] in H.
  - rewrite (pass_loop_mono P order cut d s4 _ _ E ltac:(discriminate)). exact H.
  - rewrite (pass_loop_mono P order cut d s4 _ _ E ltac:(congruence)). exact H.
  - rewrite (pass_loop_mono P order cut d s4 _ _ E ltac:(discriminate)). exact H.
  - rewrite (pass_loop_mono P order cut d s4 _ _ E ltac:(discriminate)). exact H.
Qed.

(* ---------- small programs: the guard becomes static ---------------------------------- *)

Theorem resolve_cut_no_cutoff cut pi P :
  names_ok P -> 2 * key_count P <= Z.of_nat cut -> resolve_cut cut pi P <> RErr ETooManyIter.
Proof.
  intros Hne Hk. unfold resolve_cut. destruct (first_dup [] (fnames P)) eqn:Ed; [discriminate|].
  destruct (ordered_funcs pi P) as [order|]; [|discriminate].
  apply resolve_order_no_cutoff; [apply (first_dup_none _ _ Ed) | exact Hne | exact Hk].
Qed.

Theorem main_exact_small cut pi P :
  perm_oracle pi -> wf0 P = true -> 2 * key_count P <= Z.of_nat cut ->
  ((exists F, resolve_cut cut pi P = ROk F) <-> sat P).
Proof.
  intros Hpi Hwf0 Hk. apply main_exact; [exact Hpi | exact Hwf0|].
  apply resolve_cut_no_cutoff; [|exact Hk].
  destruct (wf_parts P (wf0_wf P Hwf0)) as [_ [_ [Hne _]]]. exact Hne.
Qed.

Theorem main_order_independent_small cut pi pi' P P' :
  perm_oracle pi -> perm_oracle pi' -> wf0 P = true -> reordered P P' ->
  2 * key_count P <= Z.of_nat cut -> 2 * key_count P' <= Z.of_nat cut ->
  ((exists F, resolve_cut cut pi P = ROk F) <-> (exists F', resolve_cut cut pi' P' = ROk F')) /\
  (forall F F', resolve_cut cut pi P = ROk F -> resolve_cut cut pi' P' = ROk F' ->
                forall k, rho_of (fin_types F') k = rho_of (fin_types F) k).
Proof.
  intros Hpi Hpi' Hwf0 Hre Hk Hk'.
  pose proof (wf0_wf P Hwf0) as Hwf. destruct (wf_parts P Hwf) as [_ [Hnd [Hne _]]].
  pose proof (reorder_wf P P' Hre Hnd Hwf) as Hwf'. destruct (wf_parts P' Hwf') as [_ [_ [Hne' _]]].
  apply main_order_independent; try assumption; apply resolve_cut_no_cutoff; assumption.
Qed.

(* ---------- the resolver as it is now: no cut-off, no guard ----------------------------- *)

Theorem impl_sound pi P F :
  perm_oracle pi -> names_ok P -> resolve pi P = ROk F ->
  solution P (rho_of (fin_types F)) /\ compile_check P F = true.
Proof. rewrite resolve_is_cut. apply resolve_sound. Qed.

Theorem impl_complete pi P e :
  names_ok P -> resolve pi P = RErr e -> is_type_error e = true -> ~ sat P.
Proof. rewrite resolve_is_cut. apply resolve_complete. Qed.

(* two outcomes only for a program that meets the precondition *)
Theorem impl_outcomes pi P :
  perm_oracle pi -> wf0 P = true ->
  (exists F, resolve pi P = ROk F) \/ (exists e, resolve pi P = RErr e /\ is_type_error e = true).
Proof.
  intros Hpi Hwf0. pose proof (resolve_never_gives_up pi P) as Hn. rewrite resolve_is_cut in *.
  destruct (main_outcomes (pass_fuel P) pi P Hpi Hwf0) as [H|[H|H]]; [left; exact H | right; exact H | congruence].
Qed.

(* EXACT: accepted exactly when the usage constraints are satisfiable *)
Theorem impl_exact pi P :
  perm_oracle pi -> wf0 P = true -> ((exists F, resolve pi P = ROk F) <-> sat P).
Proof.
  intros Hpi Hwf0. pose proof (resolve_never_gives_up pi P) as Hn. rewrite resolve_is_cut in *.
  apply main_exact; assumption.
Qed.

(* every satisfiable program is accepted *)
Theorem impl_accepts_satisfiable pi P :
  perm_oracle pi -> wf0 P = true -> sat P -> exists F, resolve pi P = ROk F.
Proof. intros Hpi Hwf0 Hs. apply impl_exact; assumption. Qed.

Theorem impl_order_independent pi pi' P P' :
  perm_oracle pi -> perm_oracle pi' -> wf0 P = true -> reordered P P' ->
  ((exists F, resolve pi P = ROk F) <-> (exists F', resolve pi' P' = ROk F')) /\
  (forall F F', resolve pi P = ROk F -> resolve pi' P' = ROk F' ->
                forall k, rho_of (fin_types F') k = rho_of (fin_types F) k).
Proof.
  intros Hpi Hpi' Hwf0 Hre.
  pose proof (resolve_never_gives_up pi P) as Hn. pose proof (resolve_never_gives_up pi' P') as Hn'.
  pose proof (resolve_no_fuel pi P Hpi) as Hf. pose proof (resolve_no_fuel pi' P' Hpi') as Hf'.
  rewrite resolve_is_cut in *. rewrite (resolve_is_cut pi' P') in *.
  apply reorder_independent2; try assumption. apply wf0_wf. exact Hwf0.
Qed.

Theorem impl_map_order_irrelevant pi pi' P :
  perm_oracle pi -> perm_oracle pi' -> wf0 P = true ->
  ((exists F, resolve pi P = ROk F) <-> (exists F', resolve pi' P = ROk F')) /\
  (forall F F', resolve pi P = ROk F -> resolve pi' P = ROk F' ->
                forall k, rho_of (fin_types F') k = rho_of (fin_types F) k).
Proof.
  intros Hpi Hpi' Hwf0. apply impl_order_independent; try assumption.
  split; [reflexivity|]. split; apply Permutation.Permutation_refl.
Qed.

(* the order the code uses now is a permutation oracle *)
Lemma insert_name_perm x l : Permutation.Permutation (insert_name x l) (x :: l).
Proof.
  induction l as [|y l IH]; cbn [insert_name]; [apply Permutation.Permutation_refl|].
  destruct (name_leb x y); [apply Permutation.Permutation_refl|].
  eapply Permutation.Permutation_trans; [apply Permutation.perm_skip; exact IH | apply Permutation.perm_swap].
Qed.

Lemma sort_names_perm l : Permutation.Permutation (sort_names l) l.
Proof.
  unfold sort_names. induction l as [|x l IH]; cbn [fold_right]; [apply Permutation.Permutation_refl|].
  eapply Permutation.Permutation_trans; [apply insert_name_perm | apply Permutation.perm_skip; exact IH].
Qed.

Lemma name_order_oracle_perm : perm_oracle name_order_oracle.
Proof. intros k l. apply sort_names_perm. Qed.

(* corresponding constraint systems (renaming), for the resolver as it is now *)
Theorem impl_types_correspond (P P' : program) (phi psi : key -> key) :
  (forall k', phi (psi k') = k') -> (forall k, psi (phi k) = k) ->
  (forall rho, solution P rho <-> solution P' (fun k' => rho (psi k'))) ->
  forall order order' F F',
  names_ok P -> names_ok P' -> covers P order -> covers P' order' ->
  resolve_order_impl order P = ROk F -> resolve_order_impl order' P' = ROk F' ->
  forall k, rho_of (fin_types F') (phi k) = rho_of (fin_types F) k.
Proof.
  intros H1 H2 H3 order order' F F' Hn Hn' Hc Hc' H H'.
  destruct (resolve_order_impl_ends P order) as [_ [_ E]]. destruct (resolve_order_impl_ends P' order') as [_ [_ E']].
  rewrite E in H. rewrite E' in H'. eapply types_correspond; eassumption.
Qed.

Theorem impl_verdict_correspond (P P' : program) (phi psi : key -> key) :
  (forall k', phi (psi k') = k') ->
  (forall rho, solution P rho <-> solution P' (fun k' => rho (psi k'))) ->
  forall order order',
  wf P = true -> wf P' = true -> covers P order -> covers P' order' ->
  ((exists F, resolve_order_impl order P = ROk F) <-> (exists F', resolve_order_impl order' P' = ROk F')).
Proof.
  intros H1 H3 order order' Hw Hw' Hc Hc'.
  destruct (resolve_order_impl_ends P order) as [T [_ E]]. destruct (resolve_order_impl_ends P' order') as [T' [_ E']].
  rewrite E in *. rewrite E' in *. eapply verdict_correspond; eassumption.
Qed.
