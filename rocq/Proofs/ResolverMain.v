(* C16: the statements about [resolve] with every auxiliary outcome discharged:
   no Go panic, no fuel exhaustion, and the precondition reduced to its part
   about call heads and names. *)
From Verif Require Import Lib.Base Model.Resolver Proofs.Resolver Proofs.ResolverSound Proofs.ResolverExact
  Proofs.ResolverOrder Proofs.ResolverFlat Proofs.ResolverNoPanic Proofs.ResolverTopo.
Open Scope Z_scope.

(* the only possible outcomes for a program that meets the precondition *)
Theorem main_outcomes cut pi P :
  perm_oracle pi -> wf0 P = true ->
  (exists F, resolve_cut cut pi P = ROk F) \/
  (exists e, resolve_cut cut pi P = RErr e /\ is_type_error e = true) \/
  resolve_cut cut pi P = RErr ETooManyIter.
Proof.
  intros Hpi Hwf0. pose proof (wf0_wf P Hwf0) as Hwf.
  destruct (wf_parts P Hwf) as [Hd [Hnd [Hne [Hb [Hwff Hwfm]]]]].
  pose proof (ordered_funcs_total pi P Hpi) as Hof.
  unfold resolve_cut. rewrite Hd. destruct (ordered_funcs pi P) as [order|]; [|congruence].
  pose proof (resolve_order_clean P Hnd Hne Hwff Hwfm Hb cut order Hd) as Hc.
  destruct (resolve_order cut order P) as [F|e| |]; cbn [clean] in Hc; try contradiction.
  - left. eauto.
  - destruct Hc as [Hc| ->]; [right; left; eauto | right; right; reflexivity].
Qed.

Theorem main_exact cut pi P :
  perm_oracle pi -> wf0 P = true ->
  resolve_cut cut pi P <> RErr ETooManyIter ->
  ((exists F, resolve_cut cut pi P = ROk F) <-> sat P).
Proof.
  intros Hpi Hwf0 Hcut. apply resolve_exact; [exact Hpi | apply wf0_wf; exact Hwf0 | exact Hcut|].
  apply resolve_cut_no_fuel. exact Hpi.
Qed.

Theorem main_order_independent cut pi pi' P P' :
  perm_oracle pi -> perm_oracle pi' -> wf0 P = true -> reordered P P' ->
  resolve_cut cut pi P <> RErr ETooManyIter -> resolve_cut cut pi' P' <> RErr ETooManyIter ->
  ((exists F, resolve_cut cut pi P = ROk F) <-> (exists F', resolve_cut cut pi' P' = ROk F')) /\
  (forall F F', resolve_cut cut pi P = ROk F -> resolve_cut cut pi' P' = ROk F' ->
                forall k, rho_of (fin_types F') k = rho_of (fin_types F) k).
Proof.
  intros Hpi Hpi' Hwf0 Hre Hc Hc'.
  apply reorder_independent; try assumption.
  - apply wf0_wf. exact Hwf0.
  - apply resolve_cut_no_fuel. exact Hpi.
  - apply resolve_cut_no_fuel. exact Hpi'.
Qed.

(* in particular: the map iteration order alone never changes verdict or types *)
Theorem main_map_order_irrelevant cut pi pi' P :
  perm_oracle pi -> perm_oracle pi' -> wf0 P = true ->
  resolve_cut cut pi P <> RErr ETooManyIter -> resolve_cut cut pi' P <> RErr ETooManyIter ->
  ((exists F, resolve_cut cut pi P = ROk F) <-> (exists F', resolve_cut cut pi' P = ROk F')) /\
  (forall F F', resolve_cut cut pi P = ROk F -> resolve_cut cut pi' P = ROk F' ->
                forall k, rho_of (fin_types F') k = rho_of (fin_types F) k).
Proof.
  intros Hpi Hpi' Hwf0. apply main_order_independent; try assumption.
  split; [reflexivity|]. split; apply Permutation.Permutation_refl.
Qed.
