(* C19: table theorems over Gen/ProgramWrites.v (regenerated from the repository
   source on every check by translator/gen_c19.go).

   The facts come from the generated file; the CLASSIFICATION they are checked
   against is committed here.  A new write to shared program data, a new alias
   of the Program inside an interpreter, a new package-level variable, a call of
   a *regexp.Regexp configuration method on a shared regex, ... changes the
   table and breaks one of these obligations. *)
From Coq Require Import String List ZArith Bool.
From Verif Require Import Gen.ProgramWrites.
Import ListNotations.
Open Scope string_scope.

Definition str_mem (s : string) (l : list string) : bool := existsb (String.eqb s) l.
Fixpoint list_str_eqb (a b : list string) : bool :=
  match a, b with
  | [], [] => true
  | x :: a', y :: b' => String.eqb x y && list_str_eqb a' b'
  | _, _ => false
  end.

Definition of_program (s : pw_site) : bool := str_mem "program" (pw_origin s).

(* ---------- the alias set -------------------------------------------------------------- *)

(* where the parser.Program enters package interp *)
Definition expected_seeds : list (string * string) :=
  [("Exec", "prog"); ("ExecProgram", "program"); ("New", "program"); ("field", "program"); ("newInterp", "program")].

(* the interpreter fields that alias it: newInterp copies slice HEADERS
   (functions, nums, strs, regexes share the Program's backing arrays) *)
Definition expected_alias_fields : list (string * string * list string) :=
  [("interp.interp", "functions", ["program"]);
   ("interp.interp", "nums", ["program"]);
   ("interp.interp", "program", ["program"]);
   ("interp.interp", "regexes", ["program"]);
   ("interp.interp", "shellCommand", ["global:interp.defaultShellCommand"]);
   ("interp.interp", "strs", ["program"])].

Definition pair_eqb (a b : string * string) : bool := String.eqb (fst a) (fst b) && String.eqb (snd a) (snd b).
Definition af_eqb (a b : string * string * list string) : bool :=
  pair_eqb (fst a) (fst b) && list_str_eqb (snd a) (snd b).
Fixpoint list_eqb {A} (eqb : A -> A -> bool) (a b : list A) : bool :=
  match a, b with
  | [], [] => true
  | x :: a', y :: b' => eqb x y && list_eqb eqb a' b'
  | _, _ => false
  end.

Theorem seeds_as_expected : list_eqb pair_eqb seeds expected_seeds = true.
Proof. vm_compute. reflexivity. Qed.

Theorem alias_set_as_expected : list_eqb af_eqb alias_fields expected_alias_fields = true.
Proof. vm_compute. reflexivity. Qed.

(* ---------- PROGRAM READ-ONLY ------------------------------------------------------------ *)

(* no assignment, op-assignment, ++/--, append, copy, delete, clear, address-taking or
   channel send anywhere in the repository has a target inside the shared Program *)
Theorem program_read_only : filter of_program write_sites = [].
Proof. vm_compute. reflexivity. Qed.

(* the only foreign code a reference into the Program is handed to: methods of
   *regexp.Regexp documented as safe for concurrent use ("A Regexp is safe for concurrent
   use by multiple goroutines, except for configuration methods, such as Longest") *)
Definition regexp_concurrency_safe : list string :=
  ["(*regexp.Regexp).MatchString"; "(*regexp.Regexp).Match"; "(*regexp.Regexp).MatchReader";
   "(*regexp.Regexp).FindStringSubmatch"; "(*regexp.Regexp).FindStringIndex";
   "(*regexp.Regexp).FindStringSubmatchIndex"; "(*regexp.Regexp).FindAllStringIndex";
   "(*regexp.Regexp).FindAllStringSubmatchIndex"; "(*regexp.Regexp).FindString";
   "(*regexp.Regexp).FindAllString"; "(*regexp.Regexp).ReplaceAllString";
   "(*regexp.Regexp).ReplaceAllStringFunc"; "(*regexp.Regexp).ReplaceAllLiteralString";
   "(*regexp.Regexp).Split"; "(*regexp.Regexp).String"; "(*regexp.Regexp).NumSubexp"].

Theorem program_escapes_only_to_safe_regexp_methods :
  forallb (fun s => str_mem (pw_text s) regexp_concurrency_safe && String.eqb (pw_kind s) "recv")
          (filter of_program ext_calls) = true.
Proof. vm_compute. reflexivity. Qed.

(* the shared regexes ARE used (the theorem above is not vacuous) *)
Theorem shared_regex_methods_listed :
  map pw_text (filter of_program ext_calls) = ["(*regexp.Regexp).MatchString"].
Proof. vm_compute. reflexivity. Qed.

Theorem no_dynamic_escape : dyn_calls = [].
Proof. vm_compute. reflexivity. Qed.

(* ---------- INTERPRETER STATE IS PRIVATE: package-level variables ------------------------ *)

(* every package-level variable of interp, parser, lexer, internal/ast, internal/resolver,
   internal/compiler; [true] = its type holds references *)
Definition expected_pkg_vars : list (string * string * bool) :=
  [("interp", "asciiSpace", false); ("interp", "defaultShellCommand", true);
   ("interp", "errBreak", true); ("interp", "errCSVSeparator", true); ("interp", "errDoubleClose", true);
   ("interp", "errExit", true); ("interp", "errNext", true); ("interp", "errNextfile", true);
   ("interp", "errorType", true); ("interp", "varRegex", true);
   ("lexer", "keywordTokens", true); ("lexer", "tokenNames", true);
   ("internal/ast", "specialVars", true);
   ("internal/compiler", "_AugOp_index", false); ("internal/compiler", "_BuiltinOp_index", false);
   ("internal/compiler", "_Opcode_index", false)].

Definition pv_eqb (a : string * string * string * bool) (b : string * string * bool) : bool :=
  match a, b with
  | (p, n, _, r), (p', n', r') => String.eqb p p' && String.eqb n n' && Bool.eqb r r'
  end.
Fixpoint list_eqb2 {A B} (eqb : A -> B -> bool) (a : list A) (b : list B) : bool :=
  match a, b with
  | [], [] => true
  | x :: a', y :: b' => eqb x y && list_eqb2 eqb a' b'
  | _, _ => false
  end.

Theorem pkg_vars_as_expected : list_eqb2 pv_eqb pkg_vars expected_pkg_vars = true.
Proof. vm_compute. reflexivity. Qed.

(* The write sites outside func init whose target is a package-level variable or memory
   reachable from one.  There is exactly one, and it is harmless for a stated reason:

     execShell:  args := p.shellCommand[1:]; args = append(args, code)

   p.shellCommand aliases the package-level defaultShellCommand when Config.ShellCommand
   is empty.  defaultShellCommand = []string{executable, "-c"} is a composite literal:
   len = cap = 2 (Go spec), so cap(args) = len(args) = 1 and append must allocate a new
   backing array: nothing is written to the shared one.  (With a caller-supplied
   Config.ShellCommand that has spare capacity the append DOES write into the caller's
   backing array; that slice is not part of the Program, see the report.) *)
Definition classified_global_writes : list (list string * string * string * string * string) :=
  [(["global:interp.defaultShellCommand"], "append", "io.go", "*interp.execShell", "append(args, code)")].

Definition site_key (s : pw_site) : list string * string * string * string * string :=
  (pw_origin s, pw_kind s, pw_file s, pw_func s, pw_text s).
Definition key_eqb (a b : list string * string * string * string * string) : bool :=
  match a, b with
  | (o, k, f, fn, t), (o', k', f', fn', t') =>
      list_str_eqb o o' && String.eqb k k' && String.eqb f f' && String.eqb fn fn' && String.eqb t t'
  end.

Theorem interp_state_private :
  forallb (fun s => existsb (key_eqb (site_key s)) classified_global_writes) write_sites = true.
Proof. vm_compute. reflexivity. Qed.

(* every write site is accounted for: none into the Program, the rest classified *)
Theorem all_write_sites_classified :
  forallb (fun s => negb (of_program s) && existsb (key_eqb (site_key s)) classified_global_writes) write_sites = true.
Proof. vm_compute. reflexivity. Qed.

(* foreign code that receives a reference to a package-level variable *)
Definition global_escape_ok : list string :=
  ["os/exec.Command"; "os/exec.CommandContext"] ++ regexp_concurrency_safe.

Theorem globals_escape_only_to_known_functions :
  forallb (fun s => str_mem (pw_text s) global_escape_ok) ext_calls = true.
Proof. vm_compute. reflexivity. Qed.

(* the one summary of foreign code the analysis itself relies on *)
Theorem analysis_assumptions : assumed_fresh = ["os/exec.Command"; "os/exec.CommandContext"].
Proof. vm_compute. reflexivity. Qed.
