(* C19: table theorems over Gen/ProgramWrites.v (regenerated from the repository
   source on every check by translator/gen_c19.go).

   The facts come from the generated file; the CLASSIFICATION they are checked
   against is committed here.  A new write to shared program data, a new alias
   of the Program inside an interpreter, a new package-level variable, a call of
   a *regexp.Regexp configuration method on a shared regex, ... changes the
   table and breaks one of these obligations. *)
From Coq Require Import String List ZArith Bool.
From Verif Require Import Gen.ProgramWrites.
Import ListNotations.
Open Scope string_scope.

Definition str_mem (s : string) (l : list string) : bool := existsb (String.eqb s) l.
Fixpoint list_str_eqb (a b : list string) : bool :=
  match a, b with
  | [], [] => true
  | x :: a', y :: b' => String.eqb x y && list_str_eqb a' b'
  | _, _ => false
  end.

Definition of_program (s : pw_site) : bool := str_mem "program" (pw_origin s).

(* ---------- the alias set -------------------------------------------------------------- *)

(* where the parser.Program enters package interp *)
Definition expected_seeds : list (string * string) :=
  [("Exec", "prog"); ("ExecProgram", "program"); ("New", "program"); ("field", "program"); ("newInterp", "program")].

(* the interpreter fields that alias it: newInterp copies slice HEADERS
   (functions, nums, strs, regexes share the Program's backing arrays) *)
Definition expected_alias_fields : list (string * string * list string) :=
  [("interp.interp", "functions", ["program"]);
   ("interp.interp", "nums", ["program"]);
   ("interp.interp", "program", ["program"]);
   ("interp.interp", "regexes", ["program"]);
   ("interp.interp", "shellCommand", ["global:interp.defaultShellCommand"]);
   ("interp.interp", "strs", ["program"])].

Definition pair_eqb (a b : string * string) : bool := String.eqb (fst a) (fst b) && String.eqb (snd a) (snd b).
Definition af_eqb (a b : string * string * list string) : bool :=
  pair_eqb (fst a) (fst b) && list_str_eqb (snd a) (snd b).
Fixpoint list_eqb {A} (eqb : A -> A -> bool) (a b : list A) : bool :=
  match a, b with
  | [], [] => true
  | x :: a', y :: b' => eqb x y && list_eqb eqb a' b'
  | _, _ => false
  end.

(* (stated first, and as equalities of the lists themselves, so that when the repository
   changes the failing obligation's message SHOWS the offending write site / the new alias
   field instead of "true <> false"; the check copies that message into the evidence) *)

(* PROGRAM READ-ONLY: no assignment, op-assignment, ++/--, append, copy, delete, clear,
   address-taking or channel send anywhere in the repository has a target inside the
   shared Program *)
Theorem program_read_only : filter of_program write_sites = [].
Proof. vm_compute. reflexivity. Qed.

Theorem seeds_as_expected : seeds = expected_seeds.
Proof. vm_compute. reflexivity. Qed.

Theorem alias_set_as_expected : alias_fields = expected_alias_fields.
Proof. vm_compute. reflexivity. Qed.

(* ---------- PROGRAM READ-ONLY ------------------------------------------------------------ *)

(* the only foreign code a reference into the Program is handed to: methods of
   *regexp.Regexp documented as safe for concurrent use ("A Regexp is safe for concurrent
   use by multiple goroutines, except for configuration methods, such as Longest") *)
Definition regexp_concurrency_safe : list string :=
  ["(*regexp.Regexp).MatchString"; "(*regexp.Regexp).Match"; "(*regexp.Regexp).MatchReader";
   "(*regexp.Regexp).FindStringSubmatch"; "(*regexp.Regexp).FindStringIndex";
   "(*regexp.Regexp).FindStringSubmatchIndex"; "(*regexp.Regexp).FindAllStringIndex";
   "(*regexp.Regexp).FindAllStringSubmatchIndex"; "(*regexp.Regexp).FindString";
   "(*regexp.Regexp).FindAllString"; "(*regexp.Regexp).ReplaceAllString";
   "(*regexp.Regexp).ReplaceAllStringFunc"; "(*regexp.Regexp).ReplaceAllLiteralString";
   "(*regexp.Regexp).Split"; "(*regexp.Regexp).String"; "(*regexp.Regexp).NumSubexp"].

Theorem program_escapes_only_to_safe_regexp_methods :
  forallb (fun s => str_mem (pw_text s) regexp_concurrency_safe && String.eqb (pw_kind s) "recv")
          (filter of_program ext_calls) = true.
Proof. vm_compute. reflexivity. Qed.

(* the shared regexes ARE used (the theorem above is not vacuous) *)
Theorem shared_regex_methods_listed :
  map pw_text (filter of_program ext_calls) = ["(*regexp.Regexp).MatchString"].
Proof. vm_compute. reflexivity. Qed.

Theorem no_dynamic_escape : dyn_calls = [].
Proof. vm_compute. reflexivity. Qed.

(* ---------- INTERPRETER STATE IS PRIVATE: package-level variables ------------------------ *)

(* every package-level variable of interp, parser, lexer, internal/ast, internal/resolver,
   internal/compiler; [true] = its type holds references *)
Definition expected_pkg_vars : list (string * string * bool) :=
  [("interp", "asciiSpace", false); ("interp", "defaultShellCommand", true);
   ("interp", "errBreak", true); ("interp", "errCSVSeparator", true); ("interp", "errDoubleClose", true);
   ("interp", "errExit", true); ("interp", "errNext", true); ("interp", "errNextfile", true);
    ("interp", "errNoFileReads", true);
   ("interp", "errorType", true); ("interp", "varRegex", true);
   ("lexer", "keywordTokens", true); ("lexer", "tokenNames", true);
   ("internal/ast", "specialVars", true);
   ("internal/compiler", "_AugOp_index", false); ("internal/compiler", "_BuiltinOp_index", false);
   ("internal/compiler", "_Opcode_index", false)].

Definition pv_eqb (a : string * string * string * bool) (b : string * string * bool) : bool :=
  match a, b with
  | (p, n, _, r), (p', n', r') => String.eqb p p' && String.eqb n n' && Bool.eqb r r'
  end.
Fixpoint list_eqb2 {A B} (eqb : A -> B -> bool) (a : list A) (b : list B) : bool :=
  match a, b with
  | [], [] => true
  | x :: a', y :: b' => eqb x y && list_eqb2 eqb a' b'
  | _, _ => false
  end.

Theorem pkg_vars_as_expected : list_eqb2 pv_eqb pkg_vars expected_pkg_vars = true.
Proof. vm_compute. reflexivity. Qed.

(* The write sites outside func init whose target is a package-level variable or memory
   reachable from one.  There is exactly one, and it is harmless for a stated reason:

     execShell:  args := p.shellCommand[1:]; args = append(args, code)

   p.shellCommand aliases the package-level defaultShellCommand when Config.ShellCommand
   is empty.  defaultShellCommand = []string{executable, "-c"} is a composite literal:
   len = cap = 2 (Go spec), so cap(args) = len(args) = 1 and append must allocate a new
   backing array: nothing is written to the shared one.  (With a caller-supplied
   Config.ShellCommand that has spare capacity the append DOES write into the caller's
   backing array; that slice is not part of the Program, see the report.) *)
Definition classified_global_writes : list (list string * string * string * string * string) :=
  [(["global:interp.defaultShellCommand"], "append", "io.go", "*interp.execShell", "append(args, code)")].

Definition site_key (s : pw_site) : list string * string * string * string * string :=
  (pw_origin s, pw_kind s, pw_file s, pw_func s, pw_text s).
Definition key_eqb (a b : list string * string * string * string * string) : bool :=
  match a, b with
  | (o, k, f, fn, t), (o', k', f', fn', t') =>
      list_str_eqb o o' && String.eqb k k' && String.eqb f f' && String.eqb fn fn' && String.eqb t t'
  end.

Theorem interp_state_private :
  forallb (fun s => existsb (key_eqb (site_key s)) classified_global_writes) write_sites = true.
Proof. vm_compute. reflexivity. Qed.

(* every write site is accounted for: none into the Program, the rest classified *)
Theorem all_write_sites_classified :
  forallb (fun s => negb (of_program s) && existsb (key_eqb (site_key s)) classified_global_writes) write_sites = true.
Proof. vm_compute. reflexivity. Qed.

(* foreign code that receives a reference to a package-level variable *)
Definition global_escape_ok : list string :=
  ["os/exec.Command"; "os/exec.CommandContext"] ++ regexp_concurrency_safe.

Theorem globals_escape_only_to_known_functions :
  forallb (fun s => str_mem (pw_text s) global_escape_ok) ext_calls = true.
Proof. vm_compute. reflexivity. Qed.

(* the one summary of foreign code the analysis itself relies on *)
Theorem analysis_assumptions : assumed_fresh = ["os/exec.Command"; "os/exec.CommandContext"].
Proof. vm_compute. reflexivity. Qed.

(* ---------- where Go's map iteration order could leak into the result of ParseProgram ------- *)

(* Every `for ... range <map>` of the front-end packages (parser, lexer, internal/ast,
   internal/resolver, internal/compiler) with the COMPLETE text of the statement, and every
   caller of IterVars/IterFuncs, each with the reason why the order of iteration cannot be
   observed.  A new range over a map, or an edit of the body of a listed one (the seeded
   `pos.Line <= min.Line && pos.Column < min.Column` in checkMultiExprs is one), changes the
   generated table and breaks the equality below until the site is re-classified. *)
Definition site5 := (string * string * string * Z * string)%type.
Definition classified_map_ranges : list (site5 * string) :=
  [(("internal/resolver", "resolve.go", "*ResolvedProgram.IterFuncs", 1%Z, "for name, info := range r.resolver.funcInfo { f(name, info) }"),
    "IterFuncs: hands the entries to a callback in map order; its callers are classified in iter_callers");
   (("internal/resolver", "resolve.go", "*ResolvedProgram.IterVars", 1%Z, "for name, info := range r.resolver.varInfo[funcName] { f(name, info) }"),
    "IterVars: the same");
   (("internal/resolver", "resolve.go", "*resolver.numVars", 1%Z, "for _, infos := range r.varInfo { n += len(infos) }"),
    "numVars (the pass limit 2*numVars of C16's repair): a sum over the tables, commutative");
   (("internal/resolver", "resolve.go", "Resolve", 1%Z, "for name := range config.Funcs { nativeNames = append(nativeNames, name) }"),
    "collects the names of the Go functions into a slice that is sorted before use");
   (("internal/resolver", "resolve.go", "Resolve", 2%Z, "for name := range callGraph.funcs { if _, ok := called[name]; !ok { uncalled = append(uncalled, name) } }"),
    "collects the functions topoSort did not reach into a slice that is sorted before it is appended (repair of F-C19-1)");
   (("internal/resolver", "resolve.go", "Resolve", 3%Z, "for funcName, info := range funcInfo { if info.Native { continue } varInfo[funcName] = make(map[string]VarInfo) for _, param := range info.Params { varInfo[funcName][param] = VarInfo{} } }"),
    "creates one table per AWK function: each iteration writes only its own key");
   (("internal/resolver", "resolve.go", "Resolve", 4%Z, "for _, infos := range r.varInfo { for varName, info := range infos { if info.Type == unknown { infos[varName] = VarInfo{Type: Scalar, Index: info.Index} } } }"),
    "defaulting unknown to scalar: each iteration rewrites only its own entry");
   (("internal/resolver", "resolve.go", "Resolve", 5%Z, "for varName, info := range infos { if info.Type == unknown { infos[varName] = VarInfo{Type: Scalar, Index: info.Index} } }"),
    "(inner loop of the previous site) the same");
   (("internal/resolver", "resolve.go", "Resolve", 6%Z, "for funcName, infos := range r.varInfo { var names []string if funcName == """" { for name := range infos { names = append(names, name) } sort.Strings(names) } else { names = r.funcInfo[funcName].Params } scalar := 0 array := 0 for _, name := range names { info := infos[name] if info.Type == Array { infos[name] = VarInfo{Type: info.Type, Index: array} array++ } else { infos[name] = VarInfo{Type: info.Type, Index: scalar} scalar++ } } }"),
    "index assignment: per function, from the sorted names (globals) or the parameter list (locals); iterations are independent");
   (("internal/resolver", "resolve.go", "Resolve", 7%Z, "for name := range infos { names = append(names, name) }"),
    "(inner loop of the previous site) collects the global names into a slice that is sorted before use");
   (("internal/resolver", "resolve.go", "printVarTypes", 1%Z, "for funcName := range varInfo { funcNames = append(funcNames, funcName) }"),
    "printVarTypes: collects the function names into a slice that is sorted before use");
   (("internal/resolver", "resolve.go", "printVarTypes", 2%Z, "for name := range varInfo[funcName] { varNames = append(varNames, name) }"),
    "printVarTypes: collects the variable names into a slice that is sorted before use");
   (("internal/resolver", "toposort.go", "topoSort", 1%Z, "for node := range graph { nodes = append(nodes, node) }"),
    "topoSort: collects the nodes into a slice that is sorted before use (repair of F-C19-1/2)");
   (("internal/resolver", "toposort.go", "topoSort", 2%Z, "for m := range graph[n] { successors = append(successors, m) }"),
    "topoSort: collects the successors into a slice that is sorted before use (repair of F-C19-1/2)");
   (("parser", "parser.go", "*parser.checkMultiExprs", 1%Z, "for _, pos := range p.multiExprs { if pos.Line < min.Line || pos.Line == min.Line && pos.Column < min.Column { min = pos } }"),
    "checkMultiExprs: minimum of the positions under the lexicographic order (line, column): a total order, so the minimum does not depend on the order of the scan")].

Definition classified_iter_callers : list (site5 * string) :=
  [(("internal/compiler", "compiler.go", "Compile", 1%Z, "resolved.IterVars("""", func(name string, info resolver.VarInfo) { if info.Type == resolver.Array { for len(p.arrayNames) <= info.Index { p.arrayNames = append(p.arrayNames, """") } p.arrayNames[info.Index] = name } else { for len(p.scalarNames) <= info.Index { p.scalarNames = append(p.scalarNames, """") } p.scalarNames[info.Index] = name } })"),
    "fills arrayNames/scalarNames at info.Index: global indexes are distinct within each kind, so the writes commute");
   (("internal/compiler", "compiler.go", "Compile", 2%Z, "resolved.IterFuncs(func(name string, info resolver.FuncInfo) { if !info.Native { return } for len(p.nativeFuncNames) <= info.Index { p.nativeFuncNames = append(p.nativeFuncNames, """") } p.nativeFuncNames[info.Index] = name })"),
    "fills nativeFuncNames at info.Index for NATIVE functions only (repair of F-C19-3): native indexes are distinct, so the writes commute");
   (("interp", "interp.go", "newInterp", 1%Z, "program.IterVars("""", func(name string, info resolver.VarInfo) { if info.Type == resolver.Array { p.arrayIndexes[name] = info.Index } else { p.scalarIndexes[name] = info.Index } })"),
    "fills the name -> index maps of the interpreter: one key per entry, so the writes commute")].

Definition site5_eqb (a b : site5) : bool :=
  match a, b with
  | (p, f, fn, o, t), (p', f', fn', o', t') =>
      String.eqb p p' && String.eqb f f' && String.eqb fn fn' && Z.eqb o o' && String.eqb t t'
  end.

Theorem map_ranges_classified : list_eqb site5_eqb map_ranges (map fst classified_map_ranges) = true.
Proof. vm_compute. reflexivity. Qed.

Theorem iter_callers_classified : list_eqb site5_eqb iter_callers (map fst classified_iter_callers) = true.
Proof. vm_compute. reflexivity. Qed.
