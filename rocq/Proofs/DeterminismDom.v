(* C19: the finished table of an accepted run.
   (1) its set of keys is a function of the program (every parameter, the three
       built-in arrays, every non-special global that is used), whatever the
       order in which the functions were walked;
   (2) an accepted program meets C16's precondition [wf];
   (3) hence two accepted runs give the same types, and - the global names
       being sorted before they are numbered - the same indexes. *)
From Verif Require Import Lib.Base Model.Resolver Model.Determinism Proofs.Resolver Proofs.ResolverSound
  Proofs.ResolverExact Proofs.ResolverBound Proofs.ResolverOrder Proofs.ResolverNoPanic Proofs.DeterminismSort.
From Coq Require Import Permutation.
Open Scope Z_scope.

(* ---------- no global variable is named like a function ---------------------------- *)

Definition nofunc (P : program) (t : vtable) : Prop :=
  forall v : name, get t (gk v) <> None -> is_func P v = false.

Lemma record_var_nofunc P s cur v typ s' :
  nofunc P (st_vars s) -> record_var P s cur v typ = ROk s' -> nofunc P (st_vars s').
Proof.
  intros Hn H. unfold record_var in H.
  destruct (lookup_var (st_vars s) cur v) as [[[sc ity] vf]|] eqn:El.
  - destruct (_ && _ && _); [discriminate|].
    destruct (ty_eqb ity TUnknown && negb (ty_eqb typ TUnknown)) eqn:C; injection H as <-; [|exact Hn].
    cbn [st_vars]. intros x Hx. rewrite get_put in Hx.
    destruct (key_eqb (gk x) (vf, v)) eqn:E; [|apply Hn; exact Hx].
    apply key_eqb_eq in E. injection E as <- <-.
    (* the entry found by lookupVar with varFunc "" is the global one *)
    unfold lookup_var in El.
    destruct (if is_empty cur then None else get (st_vars s) (cur, x)) eqn:E1.
    + injection El as _ _ Ec. destruct (is_empty cur) eqn:Ee; [discriminate|]. subst cur. discriminate.
    + destruct (special x).
      * injection El as _ <-. cbn in C. discriminate.
      * norm. destruct (get (st_vars s) (gk x)) eqn:G; [|discriminate]. apply Hn. congruence.
  - destruct (is_func P v) eqn:Ef; [discriminate|]. injection H as <-. cbn [st_vars].
    intros x Hx. rewrite get_put in Hx. norm. destruct (key_eqb (gk x) (gk v)) eqn:E.
    + apply key_eqb_eq in E. injection E as ->. exact Ef.
    + apply Hn. exact Hx.
Qed.

Lemma visit_step_nofunc P cur s st s' :
  nofunc P (st_vars s) -> visit_step P cur s st = ROk s' -> nofunc P (st_vars s').
Proof.
  intros Hn H. destruct st as [v t|f nargs|f i|f i v]; cbn [visit_step] in H.
  - eapply record_var_nofunc; eassumption.
  - assert (s' = s); [|subst; exact Hn].
    destruct (match lookup_var (st_vars s) cur f with Some (_, _, vf) => negb (is_empty vf) | None => false end); [discriminate|].
    destruct (func_info P f) as [fi|]; [|discriminate].
    destruct (fi_native fi).
    + destruct (find_native (p_natives P) f) as [nt|]; [|discriminate].
      destruct (n_func nt); cbn [negb] in *; [|discriminate].
      destruct (_ <? nargs); [discriminate | congruence].
    + destruct (_ <? nargs); [discriminate | congruence].
  - assert (s' = s); [|subst; exact Hn].
    destruct (func_info P f) as [fi|]; [|discriminate].
    destruct (fi_native fi); [congruence|].
    destruct (nth_error (fi_params fi) i) as [p|]; [|discriminate].
    destruct (get_or_unknown (st_vars s) (f, p)); congruence.
  - destruct (func_info P f) as [fi|]; [|discriminate].
    destruct (fi_native fi); [eapply record_var_nofunc; eassumption|].
    destruct (nth_error (fi_params fi) i) as [p|]; [|discriminate].
    destruct (_ && _); [eapply record_var_nofunc; eassumption|].
    destruct (_ && _); [eapply record_var_nofunc; eassumption|].
    destruct (_ && _ && _); [discriminate|]. eapply record_var_nofunc; eassumption.
Qed.

Lemma run_steps_nofunc P cur l s s' :
  nofunc P (st_vars s) -> run_steps P cur l s = ROk s' -> nofunc P (st_vars s').
Proof.
  revert s. induction l as [|st l IH]; intros s Hn H; cbn [run_steps] in H.
  - injection H as <-. exact Hn.
  - destruct (visit_step P cur s st) as [s1| | |] eqn:E; try discriminate.
    eapply IH; [eapply visit_step_nofunc; eassumption | exact H].
Qed.

Lemma walk_funcs_nofunc P order s s' :
  nofunc P (st_vars s) -> walk_funcs P order s = ROk s' -> nofunc P (st_vars s').
Proof.
  revert s. induction order as [|fn order IH]; intros s Hn H; cbn [walk_funcs] in H.
  - injection H as <-. exact Hn.
  - destruct (is_empty fn); [eapply IH; eassumption|].
    destruct (find_func P fn) as [[i0 fd0]|]; [|eapply IH; eassumption].
    destruct (run_steps P fn (flat_events (f_body fd0)) s) as [s1| | |] eqn:E; try discriminate.
    eapply IH; [eapply run_steps_nofunc; eassumption | exact H].
Qed.

Lemma walk_ordered_nofunc P order s s' :
  nofunc P (st_vars s) -> walk_ordered P order s = ROk s' -> nofunc P (st_vars s').
Proof.
  intros Hn H. unfold walk_ordered in H.
  destruct (walk_funcs P order s) as [s1| | |] eqn:E; try discriminate.
  eapply run_steps_nofunc; [eapply walk_funcs_nofunc; eassumption | exact H].
Qed.

Lemma pass_loop_nofunc P order k : forall s u s',
  nofunc P (st_vars s) -> pass_loop P order k s u = ROk s' -> nofunc P (st_vars s').
Proof.
  induction k as [|k IH]; intros s u s' Hn H; cbn [pass_loop] in H.
  - destruct (st_updates s =? u); [injection H as <-; exact Hn|].
    destruct (walk_ordered P order s); discriminate.
  - destruct (st_updates s =? u); [injection H as <-; exact Hn|].
    destruct (walk_ordered P order s) as [s1| | |] eqn:E; try discriminate.
    eapply IH; [eapply walk_ordered_nofunc; eassumption | exact H].
Qed.

Lemma init_vars_nofunc P : names_ok P -> nofunc P (init_vars P).
Proof.
  intros Hne v Hv. exfalso. unfold init_vars in Hv. rewrite get_init_vars_from in Hv. cbn [get] in Hv.
  destruct (existsb _ (p_funcs P)) eqn:E; [|congruence].
  apply existsb_exists in E. destruct E as [fd [Hfd E]]. apply existsb_exists in E. destruct E as [p [Hp E]].
  apply key_eqb_eq in E. injection E as E _. apply (Hne fd Hfd). congruence.
Qed.

Section Dom.
Variable P : program.
Hypothesis Hnodup : NoDup (fnames P).
Hypothesis Hnonempty : names_ok P.

Lemma pass_loop_bounded order k : forall s u s5,
  state_ok P s -> bounded P s -> pass_loop P order k s u = ROk s5 -> bounded P s5.
Proof.
  induction k as [|k IH]; intros s u s5 Hok Hb H; cbn [pass_loop] in H.
  - destruct (st_updates s =? u); [injection H as <-; exact Hb|].
    destruct (walk_ordered P order s); discriminate.
  - destruct (st_updates s =? u); [injection H as <-; exact Hb|].
    destruct (walk_ordered P order s) as [s1| | |] eqn:E; try discriminate.
    destruct (walk_ordered_ok P Hnonempty order s s1 Hok E) as [Hok1 _].
    eapply IH; [exact Hok1 | exact (walk_ordered_bounded P Hnonempty order s s1 Hok Hb E) | exact H].
Qed.

(* everything known about the state an accepted run ends in *)
Record accepted (order : list name) (s : state) (F : final) : Prop := {
  acc_by : accepted_by P s F;
  acc_quiet : pass_quiet P s order;
  acc_bounded : bounded P s;
  acc_nofunc : nofunc P (st_vars s)
}.

Lemma resolve_order_accepted cut order F :
  resolve_order cut order P = ROk F -> exists s, accepted order s F.
Proof.
  unfold resolve_order. intros H.
  destruct (first_dup [] (fnames P)); [discriminate|].
  set (s0 := {| st_vars := init_vars P; st_updates := 0 |}) in *.
  pose proof (init_state_ok P Hnodup Hnonempty) as Hok0. fold s0 in Hok0.
  pose proof (init_bounded P) as Hb0. fold s0 in Hb0.
  pose proof (init_vars_nofunc P Hnonempty) as Hn0.
  destruct (record_var P s0 [] n_ARGV TArray) as [s1| | |] eqn:E1; try discriminate. cbn [rbind2] in H.
  destruct (record_var P s1 [] n_ENVIRON TArray) as [s2| | |] eqn:E2; try discriminate. cbn [rbind2] in H.
  destruct (record_var P s2 [] n_FIELDS TArray) as [s3| | |] eqn:E3; try discriminate. cbn [rbind2] in H.
  destruct (walk_ordered P order s3) as [s4| | |] eqn:E4; try discriminate. cbn [rbind2] in H.
  destruct (pass_loop P order cut s4 (st_updates s3)) as [s5| | |] eqn:E5; try discriminate. cbn [rbind2] in H.
  injection H as <-.
  destruct (record_var_ok P s0 [] n_ARGV TArray s1 Hok0 (base_justified P n_ARGV ltac:(cbn; auto)) E1) as [Hok1 _].
  destruct (record_var_ok P s1 [] n_ENVIRON TArray s2 Hok1 (base_justified P n_ENVIRON ltac:(cbn; auto)) E2) as [Hok2 _].
  destruct (record_var_ok P s2 [] n_FIELDS TArray s3 Hok2 (base_justified P n_FIELDS ltac:(cbn; auto)) E3) as [Hok3 _].
  pose proof (record_var_bounded P s0 [] n_ARGV TArray s1 (proj1 Hok0) Hb0 (builtin_key_in P n_ARGV ltac:(cbn; auto)) E1) as Hb1.
  pose proof (record_var_bounded P s1 [] n_ENVIRON TArray s2 (proj1 Hok1) Hb1 (builtin_key_in P n_ENVIRON ltac:(cbn; auto)) E2) as Hb2.
  pose proof (record_var_bounded P s2 [] n_FIELDS TArray s3 (proj1 Hok2) Hb2 (builtin_key_in P n_FIELDS ltac:(cbn; auto)) E3) as Hb3.
  pose proof (record_builtin P s0 n_ARGV s1 Hok0 eq_refl E1) as B1.
  pose proof (record_builtin P s1 n_ENVIRON s2 Hok1 eq_refl E2) as B2.
  pose proof (record_builtin P s2 n_FIELDS s3 Hok2 eq_refl E3) as B3.
  pose proof (record_var_ext _ _ _ _ _ _ E2) as X2. pose proof (record_var_ext _ _ _ _ _ _ E3) as X3.
  destruct (walk_ordered_ok P Hnonempty order s3 s4 Hok3 E4) as [Hok4 [_ [X4 _]]].
  pose proof (walk_ordered_bounded P Hnonempty order s3 s4 Hok3 Hb3 E4) as Hb4.
  destruct (pass_loop_ok P Hnonempty order cut s4 (st_updates s3) s5 Hok4 ltac:(exists s3; auto) E5) as [Hok5 [X5 Hpq]].
  pose proof (pass_loop_bounded order cut s4 _ s5 Hok4 Hb4 E5) as Hb5.
  assert (Hn5 : nofunc P (st_vars s5)).
  { eapply pass_loop_nofunc; [|exact E5]. eapply walk_ordered_nofunc; [|exact E4].
    eapply record_var_nofunc; [|exact E3]. eapply record_var_nofunc; [|exact E2].
    eapply record_var_nofunc; [|exact E1]. exact Hn0. }
  exists s5. split; [|exact Hpq | exact Hb5 | exact Hn5].
  split; [reflexivity|]. split; [exact Hok5|].
  assert (X : ext (st_vars s3) (st_vars s5)) by (eapply ext_trans; eassumption).
  split; [|split].
  - apply X; [|discriminate]. apply X3; [|discriminate]. apply X2; [|discriminate]. exact B1.
  - apply X; [|discriminate]. apply X3; [|discriminate]. exact B2.
  - apply X; [|discriminate]. exact B3.
Qed.

(* ---------- the keys of the finished table ------------------------------------------ *)

Lemma params_of_fd fd : In fd (p_funcs P) -> params_of P (f_name fd) = f_params fd.
Proof.
  intros Hfd. destruct (find_func_of_In P Hnodup fd Hfd) as [i Hi]. unfold params_of. rewrite Hi. reflexivity.
Qed.

Lemma quiet_constraint_keys s cur st c k :
  inv P (st_vars s) -> quiet P s cur st -> In c (constr_of_step P cur st) -> In k (keys_of c) ->
  kspecial k = false -> get (st_vars s) k <> None.
Proof.
  intros Hi [_ [_ Hp]] Hc Hk Hs.
  assert (Hpres : forall k0, present (st_vars s) k0 -> k0 = k -> get (st_vars s) k <> None).
  { intros k0 [Hk0|Hk0] ->; [congruence | exact Hk0]. }
  assert (Hloc : forall f fi i p, func_info P f = Some fi -> fi_native fi = false ->
                   nth_error (fi_params fi) i = Some p -> get (st_vars s) (f, p) <> None).
  { intros f fi i p Efi En Ep. destruct (func_info_awk P Hnonempty f fi Efi En) as [Hf [Hpar _]].
    apply (local_present P _ f p Hi Hf). rewrite <- Hpar. eapply nth_error_In. exact Ep. }
  destruct st as [v t|f nargs|f i|f i v]; cbn [constr_of_step] in Hc.
  - destruct Hc as [<-|[]]. cbn [keys_of In] in Hk. destruct Hk as [Hk|[]]. exact (Hpres _ Hp Hk).
  - destruct Hc.
  - destruct (func_info P f) as [fi|] eqn:Efi; [|destruct Hc].
    destruct (fi_native fi) eqn:En; [destruct Hc|].
    destruct (nth_error (fi_params fi) i) as [p|] eqn:Ep; [|destruct Hc].
    destruct Hc as [<-|[]]. cbn [keys_of In] in Hk. destruct Hk as [<-|[]]. eapply Hloc; eassumption.
  - destruct (func_info P f) as [fi|] eqn:Efi; [|destruct Hc].
    destruct (fi_native fi) eqn:En.
    + destruct Hc as [<-|[]]. cbn [keys_of In] in Hk. destruct Hk as [Hk|[]]. exact (Hpres _ Hp Hk).
    + destruct (nth_error (fi_params fi) i) as [p|] eqn:Ep; [|destruct Hc].
      destruct Hc as [<-|[]]. cbn [keys_of In] in Hk. destruct Hk as [Hk|[<-|[]]].
      * exact (Hpres _ Hp Hk).
      * eapply Hloc; eassumption.
Qed.

(* DOMAIN: the keys an accepted run ends with are exactly the non-special keys
   the program mentions - a set that does not depend on the order of the walk *)
Lemma accepted_domain order s F :
  covers P order -> accepted order s F ->
  forall k, get (st_vars s) k <> None <-> (In k (var_keys P) /\ kspecial k = false).
Proof.
  intros Hcov [[_ [[Hi Hfo] [B1 [B2 B3]]]] Hpq [Hnd [Hincl _]] _] k.
  destruct (pass_quiet_all P Hnodup s order Hcov Hpq) as [Hfq Hmq].
  split.
  - intros Hk. split.
    + apply Hincl. destruct (in_dec key_dec k (map fst (st_vars s))) as [Hin|Hin]; [exact Hin|].
      apply get_None_keys in Hin. contradiction.
    + destruct (kspecial k) eqn:Es; [|reflexivity]. exfalso. apply Hk.
      unfold kspecial in Es. apply andb_true_iff in Es. destruct Es as [E1 E2].
      destruct k as [fn v]. cbn [fst snd] in *. apply is_empty_nil in E1. subst fn.
      destruct Hi as [_ I2]. apply I2. exact E2.
  - intros [Hk Hs]. unfold var_keys in Hk. apply in_app_or in Hk. destruct Hk as [Hk|Hk].
    + cbn [In] in Hk. destruct Hk as [<-|[<-|[<-|[]]]]; congruence.
    + apply in_app_or in Hk. destruct Hk as [Hk|Hk].
      * unfold local_keys in Hk. apply in_flat_map in Hk. destruct Hk as [fd [Hfd Hk]].
        apply in_map_iff in Hk. destruct Hk as [p [<- Hp]].
        apply (local_present P _ (f_name fd) p Hi (Hnonempty fd Hfd)). rewrite (params_of_fd fd Hfd). exact Hp.
      * apply in_flat_map in Hk. destruct Hk as [c [Hc Hk]]. unfold prog_constraints in Hc.
        apply in_app_or in Hc. destruct Hc as [Hc|Hc].
        -- apply in_flat_map in Hc. destruct Hc as [fd [Hfd Hc]]. apply in_flat_map in Hc. destruct Hc as [st [Hst Hc]].
           pose proof (Hfq fd Hfd) as Hall. rewrite Forall_forall in Hall.
           eapply quiet_constraint_keys; [exact Hi | apply Hall; exact Hst | exact Hc | exact Hk | exact Hs].
        -- apply in_flat_map in Hc. destruct Hc as [st [Hst Hc]]. rewrite Forall_forall in Hmq.
           eapply quiet_constraint_keys; [exact Hi | apply Hmq; exact Hst | exact Hc | exact Hk | exact Hs].
Qed.


(* ---------- an accepted program meets the precondition of C16 -------------------------- *)

Lemma present_global_ok t cur v :
  nofunc P t -> present t (scope_key P cur v) -> global_ok P cur v = true.
Proof.
  intros Hn Hp. destruct (scope_key_cases P cur v) as [[Hc [Hv _]]|[_ E]].
  - apply global_ok_param; assumption.
  - rewrite E in Hp. unfold global_ok. destruct Hp as [Hp|Hp].
    + unfold kspecial in Hp. cbn [fst snd is_empty andb] in Hp. rewrite Hp. rewrite orb_true_r. reflexivity.
    + rewrite (Hn v Hp). cbn [negb]. apply orb_true_r.
Qed.

Lemma quiet_wf_step s cur st :
  inv P (st_vars s) -> nofunc P (st_vars s) -> quiet P s cur st -> wf_step P cur st = true.
Proof.
  intros Hi Hn [Hv [_ Hp]]. destruct st as [v t|f nargs|f i|f i v]; cbn [wf_step visit_step] in *.
  - eapply present_global_ok; eassumption.
  - apply andb_true_iff. split.
    + destruct (negb (is_empty cur) && mem f (params_of P cur)) eqn:El; [|reflexivity]. exfalso.
      rewrite (lookup_spec P _ cur f Hi) in Hv. cbv zeta in Hv.
      assert (Hk : scope_key P cur f = (cur, f)) by (unfold scope_key; rewrite El; reflexivity).
      apply andb_true_iff in El. destruct El as [E1 E2]. apply negb_true_iff in E1.
      rewrite Hk in Hv. unfold kspecial in Hv. cbn [fst snd] in Hv. rewrite E1 in Hv. cbn [andb] in Hv.
      apply is_empty_false in E1. apply mem_In in E2.
      pose proof (local_present P _ cur f Hi E1 E2) as Hg. norm.
      destruct (get (st_vars s) (cur, f)); [|congruence]. apply is_empty_false in E1. rewrite E1 in Hv. discriminate.
    + destruct (match lookup_var (st_vars s) cur f with Some (_, _, vf) => negb (is_empty vf) | None => false end); [discriminate|].
      destruct (func_info P f) as [fi|]; [|discriminate].
      destruct (fi_native fi).
      * destruct (find_native (p_natives P) f) as [nt|]; [|discriminate].
        destruct (n_func nt); cbn [negb] in *; [|discriminate].
        destruct (_ <? nargs); [discriminate | reflexivity].
      * destruct (_ <? nargs); [discriminate | reflexivity].
  - unfold arg_ok. destruct (func_info P f) as [fi|]; [|discriminate].
    destruct (fi_native fi); [reflexivity|]. cbn [orb].
    destruct (nth_error (fi_params fi) i); [reflexivity | discriminate].
  - apply andb_true_iff. split; [|eapply present_global_ok; eassumption].
    unfold arg_ok. destruct (func_info P f) as [fi|]; [|discriminate].
    destruct (fi_native fi); [reflexivity|]. cbn [orb].
    destruct (nth_error (fi_params fi) i); [reflexivity | discriminate].
Qed.

Lemma accepted_wf cut order F :
  covers P order -> resolve_order cut order P = ROk F -> wf P = true.
Proof.
  intros Hcov H. destruct (resolve_order_accepted cut order F H) as [s [[_ [[Hi _] [B1 [B2 B3]]]] Hpq _ Hn]].
  destruct (pass_quiet_all P Hnodup s order Hcov Hpq) as [Hfq Hmq].
  unfold wf. unfold resolve_order in H. destruct (first_dup [] (fnames P)); [discriminate|]. cbn [andb].
  assert (Hb : forall v, get (st_vars s) (gk v) <> None -> negb (is_func P v) = true).
  { intros v Hv. rewrite (Hn v Hv). reflexivity. }
  rewrite (Hb n_ARGV) by congruence. rewrite (Hb n_ENVIRON) by congruence. rewrite (Hb n_FIELDS) by congruence.
  rewrite !andb_true_r. apply andb_true_iff. split; [apply andb_true_iff; split|].
  - apply forallb_forall. intros fd Hfd. apply negb_true_iff. apply is_empty_false. apply Hnonempty. exact Hfd.
  - apply forallb_forall. intros fd Hfd. apply forallb_forall. intros st Hst.
    pose proof (Hfq fd Hfd) as Hall. rewrite Forall_forall in Hall.
    eapply quiet_wf_step; [exact Hi | exact Hn | apply Hall; exact Hst].
  - apply forallb_forall. intros st Hst. rewrite Forall_forall in Hmq.
    eapply quiet_wf_step; [exact Hi | exact Hn | apply Hmq; exact Hst].
Qed.


(* ---------- two accepted runs: same types, same indexes ---------------------------------- *)

Lemma assign_idx_ext types types' fn names : forall sc ar,
  (forall n, get_or_unknown types (fn, n) = get_or_unknown types' (fn, n)) ->
  assign_idx types fn names sc ar = assign_idx types' fn names sc ar.
Proof.
  induction names as [|n r IH]; intros sc ar He; cbn [assign_idx]; [reflexivity|].
  rewrite <- (He n). destruct (get_or_unknown types (fn, n)); rewrite IH by exact He; reflexivity.
Qed.

Lemma In_global_names t x : In x (global_names t) <-> In (gk x) (map fst t).
Proof.
  unfold global_names. rewrite in_map_iff. split.
  - intros [[[fn v] ty0] [Hx Hin]]. apply filter_In in Hin. destruct Hin as [Hin He]. cbn [fst snd] in *.
    apply is_empty_nil in He. subst. apply in_map_iff. exists (gk x, ty0). split; [reflexivity | exact Hin].
  - intros Hin. apply in_map_iff in Hin. destruct Hin as [[k ty0] [Hk Hin]]. cbn [fst] in Hk. subst k.
    exists (gk x, ty0). split; [reflexivity|]. apply filter_In. split; [exact Hin | reflexivity].
Qed.

Lemma NoDup_global_names t : NoDup (map fst t) -> NoDup (global_names t).
Proof.
  induction t as [|[[fn v] ty0] t IH]; intros Hnd; [constructor|].
  cbn [map fst] in Hnd. inversion Hnd as [|k l Hnotin Hnd']; subst.
  unfold global_names. cbn [filter fst]. destruct (is_empty fn) eqn:E.
  - cbn [map fst snd]. apply is_empty_nil in E. subst fn. constructor; [|apply IH; exact Hnd'].
    intros Hc. apply Hnotin. apply In_global_names. exact Hc.
  - apply IH. exact Hnd'.
Qed.

Lemma map_fst_defaulted t : map fst (defaulted t) = map fst t.
Proof. unfold defaulted. rewrite map_map. reflexivity. Qed.

Lemma get_present_keys t k : get t k <> None <-> In k (map fst t).
Proof.
  split.
  - intros H. destruct (in_dec key_dec k (map fst t)) as [Hin|Hin]; [exact Hin|].
    apply get_None_keys in Hin. contradiction.
  - intros Hin Hc. apply get_None_keys in Hc. contradiction.
Qed.

Theorem accepted_final_equiv cut cut' order order' F F' :
  covers P order -> covers P order' ->
  resolve_order cut order P = ROk F -> resolve_order cut' order' P = ROk F' ->
  final_equiv F F'.
Proof.
  intros Hcov Hcov' H H'.
  pose proof (types_correspond P P (fun k => k) (fun k => k) (fun _ => eq_refl) (fun _ => eq_refl)
                (fun rho => iff_refl _) cut cut' order order' F F' Hnonempty Hnonempty Hcov Hcov' H H') as Hrho.
  destruct (resolve_order_accepted cut order F H) as [s Hacc].
  destruct (resolve_order_accepted cut' order' F' H') as [s' Hacc'].
  pose proof (accepted_domain order s F Hcov Hacc) as Hdom.
  pose proof (accepted_domain order' s' F' Hcov' Hacc') as Hdom'.
  destruct Hacc as [[-> _] _ [Hnd _] _]. destruct Hacc' as [[-> _] _ [Hnd' _] _].
  set (t := st_vars s) in *. set (t' := st_vars s') in *.
  assert (Hget : forall k, get (defaulted t) k = get (defaulted t') k).
  { intros k. specialize (Hrho k). rewrite !fin_types_finalize in Hrho. fold t t' in Hrho.
    unfold rho_of in Hrho. rewrite !get_defaulted in *.
    destruct (get t k) as [a|] eqn:G; destruct (get t' k) as [a'|] eqn:G'; cbn [option_map] in *.
    - destruct a, a'; cbn [default_ty] in *; congruence.
    - exfalso. assert (Hk : get t k <> None) by congruence. apply Hdom, Hdom' in Hk. contradiction.
    - exfalso. assert (Hk : get t' k <> None) by congruence. apply Hdom', Hdom in Hk. contradiction.
    - reflexivity. }
  assert (Hgu : forall fn n, get_or_unknown (defaulted t) (fn, n) = get_or_unknown (defaulted t') (fn, n)).
  { intros fn n. unfold get_or_unknown. rewrite Hget. reflexivity. }
  split; [exact Hget|]. split.
  - change (fin_gidx (finalize P s)) with (assign_idx (defaulted t) [] (sort_names (global_names (defaulted t))) 0 0).
    change (fin_gidx (finalize P s')) with (assign_idx (defaulted t') [] (sort_names (global_names (defaulted t'))) 0 0).
    assert (Hperm : Permutation (global_names (defaulted t)) (global_names (defaulted t'))).
    { apply NoDup_Permutation.
      - apply NoDup_global_names. rewrite map_fst_defaulted. exact Hnd.
      - apply NoDup_global_names. rewrite map_fst_defaulted. exact Hnd'.
      - intros x. rewrite !In_global_names, !map_fst_defaulted, <- !get_present_keys.
        rewrite Hdom, Hdom'. reflexivity. }
    rewrite (sort_names_canonical _ _ Hperm). apply assign_idx_ext. intros n. apply Hgu.
  - change (fin_lidx (finalize P s)) with (map (fun fd => (f_name fd, assign_idx (defaulted t) (f_name fd) (f_params fd) 0 0)) (p_funcs P)).
    change (fin_lidx (finalize P s')) with (map (fun fd => (f_name fd, assign_idx (defaulted t') (f_name fd) (f_params fd) 0 0)) (p_funcs P)).
    apply map_ext. intros fd. f_equal. apply assign_idx_ext. intros n. apply Hgu.
Qed.


End Dom.
