(* C04 — table theorem: the model's "starts a concatenation operand" predicate [concat_start] is,
   token by token, the condition of the loop in parser.concat() as the translator read it from
   the CURRENT source (Gen/ConcatStart.v): the fixed tokens of p.matches(...) and the token range
   FIRST_FUNC..LAST_FUNC with the comparison operators as written.  An off-by-one in that range, a
   dropped/added fixed token, or a new built-in function token breaks an obligation here. *)
From Coq Require Import String.
From Verif Require Import Lib.Base Model.ExprAst Model.ExprParser Gen.ConcatStart.
Local Open Scope string_scope.

Definition bfn_name (f : bfn) : string :=
  match f with
  | FAtan2 => "F_ATAN2" | FClose => "F_CLOSE" | FCos => "F_COS" | FExp => "F_EXP" | FFflush => "F_FFLUSH"
  | FGsub => "F_GSUB" | FIndex => "F_INDEX" | FInt => "F_INT" | FLength => "F_LENGTH" | FLog => "F_LOG"
  | FMatch => "F_MATCH" | FRand => "F_RAND" | FSin => "F_SIN" | FSplit => "F_SPLIT" | FSprintf => "F_SPRINTF"
  | FSqrt => "F_SQRT" | FSrand => "F_SRAND" | FSub => "F_SUB" | FSubstr => "F_SUBSTR" | FSystem => "F_SYSTEM"
  | FTolower => "F_TOLOWER" | FToupper => "F_TOUPPER"
  end.

Definition all_bfn : list bfn :=
  [FAtan2; FClose; FCos; FExp; FFflush; FGsub; FIndex; FInt; FLength; FLog; FMatch; FRand; FSin; FSplit;
   FSprintf; FSqrt; FSrand; FSub; FSubstr; FSystem; FTolower; FToupper].

(* the lexer constant a model token stands for *)
Definition tok_name (t : tok) : string :=
  match t with
  | TNewline => "NEWLINE" | TAdd => "ADD" | TAddAssign => "ADD_ASSIGN" | TAnd => "AND" | TAppend => "APPEND"
  | TAssign => "ASSIGN" | TAt => "AT" | TColon => "COLON" | TComma => "COMMA" | TDecr => "DECR" | TDiv => "DIV"
  | TDivAssign => "DIV_ASSIGN" | TDollar => "DOLLAR" | TEquals => "EQUALS" | TGte => "GTE" | TGreater => "GREATER"
  | TIncr => "INCR" | TLBrace => "LBRACE" | TLBracket => "LBRACKET" | TLess => "LESS" | TLParen _ => "LPAREN"
  | TLte => "LTE" | TMatch => "MATCH" | TMod => "MOD" | TModAssign => "MOD_ASSIGN" | TMul => "MUL"
  | TMulAssign => "MUL_ASSIGN" | TNotMatch => "NOT_MATCH" | TNot => "NOT" | TNotEquals => "NOT_EQUALS" | TOr => "OR"
  | TPipe => "PIPE" | TPow => "POW" | TPowAssign => "POW_ASSIGN" | TQuestion => "QUESTION" | TRBrace => "RBRACE"
  | TRBracket => "RBRACKET" | TRParen => "RPAREN" | TSemicolon => "SEMICOLON" | TSub => "SUB" | TSubAssign => "SUB_ASSIGN"
  | TGetline => "GETLINE" | TIn => "IN" | TPrint => "PRINT" | TPrintf => "PRINTF"
  | TFunc f => bfn_name f
  | TName _ => "NAME" | TNumber _ => "NUMBER" | TString _ => "STRING" | TRegex _ => "REGEX"
  | TOther _ => "BEGIN"          (* some other keyword: none of them continues a concatenation *)
  end.

(* one representative of every token constructor *)
Definition all_toks : list tok :=
  [TNewline; TAdd; TAddAssign; TAnd; TAppend; TAssign; TAt; TColon; TComma; TDecr; TDiv; TDivAssign; TDollar;
   TEquals; TGte; TGreater; TIncr; TLBrace; TLBracket; TLess; TLParen true; TLParen false; TLte; TMatch; TMod;
   TModAssign; TMul; TMulAssign; TNotMatch; TNot; TNotEquals; TOr; TPipe; TPow; TPowAssign; TQuestion; TRBrace;
   TRBracket; TRParen; TSemicolon; TSub; TSubAssign; TGetline; TIn; TPrint; TPrintf;
   TName []; TNumber []; TString []; TRegex []; TOther 0]
  ++ map TFunc all_bfn.

Fixpoint index_of (s : string) (l : list string) (i : nat) : option nat :=
  match l with
  | [] => None
  | x :: r => if String.eqb x s then Some i else index_of s r (S i)
  end.

Definition cmp_of (op : string) (a b : nat) : option bool :=
  if String.eqb op ">=" then Some (Nat.leb b a)
  else if String.eqb op ">" then Some (Nat.ltb b a)
  else if String.eqb op "<=" then Some (Nat.leb a b)
  else if String.eqb op "<" then Some (Nat.ltb a b)
  else None.

(* the loop condition of parser.concat() evaluated on a token constant, None if the table is malformed *)
Definition go_concat_start (name : string) : option bool :=
  match index_of name token_names 0, index_of concat_lo token_names 0, index_of concat_hi token_names 0 with
  | Some v, Some lo, Some hi =>
      match cmp_of concat_lo_op v lo, cmp_of concat_hi_op v hi with
      | Some a, Some b => Some (existsb (String.eqb name) concat_fixed || (a && b))
      | _, _ => None
      end
  | _, _, _ => None
  end.

Definition opt_bool_eqb (a : bool) (b : option bool) : bool :=
  match b with Some b' => Bool.eqb a b' | None => false end.

(* 1. on every token, the model's predicate is the code's condition *)
Theorem concat_start_is_generated :
  forallb (fun t => opt_bool_eqb (concat_start t) (go_concat_start (tok_name t))) all_toks = true.
Proof. vm_compute. reflexivity. Qed.

(* 2. the model's built-in function tokens are exactly the lexer's range FIRST_FUNC..LAST_FUNC, in order
      (a new built-in, or a moved bound, breaks this) *)
Fixpoint drop_until (s : string) (l : list string) : list string :=
  match l with [] => [] | x :: r => if String.eqb x s then l else drop_until s r end.
Fixpoint take_through (s : string) (l : list string) : list string :=
  match l with [] => [] | x :: r => if String.eqb x s then [x] else x :: take_through s r end.

Theorem func_range_is_model :
  take_through last_func (drop_until first_func token_names) = map bfn_name all_bfn.
Proof. vm_compute. reflexivity. Qed.

(* 3. the bounds used by concat() are the bounds of that range *)
Theorem concat_bounds_are_func_range : concat_lo = first_func /\ concat_hi = last_func.
Proof. split; reflexivity. Qed.
