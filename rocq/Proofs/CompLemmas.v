(* C01: unfolding equations of the compiler model and size lemmas. *)
From Verif Require Import Lib.Base Lib.Dyadic Model.Ast Model.Instr Model.Compiler Proofs.CodeAt.

(* ---- the code that evaluates the subscript / field index of an assignment target ---- *)
Definition lv_code (lv : lval) : code :=
  match lv with
  | LVar _ _ => []
  | LField e => comp_expr e
  | LIndex _ _ idx => comp_index idx
  end.

Definition lv_get (lv : lval) : code :=
  match lv with
  | LVar sc i => [var_get sc i]
  | LField _ => [IDupe; IField]
  | LIndex sc i _ => [IDupe; IArray sc i]
  end.

Definition lv_set (lv : lval) : code :=
  match lv with
  | LVar sc i => [var_set sc i]
  | LField _ => [IAssignField]
  | LIndex sc i _ => [IAssignArray sc i]
  end.

Lemma comp_assign_eq lv : comp_assign lv = lv_code lv ++ lv_set lv.
Proof. destruct lv; reflexivity. Qed.

Lemma comp_dupe_lv_eq lv : comp_dupe_lv lv = lv_code lv ++ lv_get lv.
Proof. destruct lv; reflexivity. Qed.

Lemma comp_index_eq es : comp_index es = comp_index_items es ++ index_multi_tail es.
Proof. reflexivity. Qed.

(* ---- expressions ---- *)
Lemma ce_field_int b n : fieldint_of b = Some n -> comp_expr (EField (ENum b)) = [IFieldInt n].
Proof. intros H. unfold comp_expr. cbn [comp_g]. rewrite H. reflexivity. Qed.

Lemma ce_field_num b : fieldint_of b = None -> comp_expr (EField (ENum b)) = comp_expr (ENum b) ++ [IField].
Proof. intros H. unfold comp_expr. cbn [comp_g]. rewrite H. reflexivity. Qed.

Lemma ce_field e : (forall b, e <> ENum b) -> comp_expr (EField e) = comp_expr e ++ [IField].
Proof. intros H. destruct e; try reflexivity. exfalso. eapply H. reflexivity. Qed.

Lemma ce_named e : (forall s, e <> EStr s) -> comp_expr (ENamedField e) = comp_expr e ++ [IFieldByName].
Proof. intros H. destruct e; try reflexivity. exfalso. eapply H. reflexivity. Qed.

Lemma ce_index sc i idx : comp_expr (EIndex sc i idx) = comp_index idx ++ [IArray sc i].
Proof. reflexivity. Qed.
Lemma ce_in idx sc i : comp_expr (EIn idx sc i) = comp_index idx ++ [IIn sc i].
Proof. reflexivity. Qed.
Lemma ce_bin op l r : comp_expr (EBin op l r) = comp_expr l ++ comp_expr r ++ [binop_instr op].
Proof. reflexivity. Qed.
Lemma ce_and l r :
  comp_expr (EAnd l r) = comp_expr l ++ [IDupe; IJumpFalse (1 + csize (comp_expr r)); IDrop] ++ comp_expr r ++ [IBoolean].
Proof. reflexivity. Qed.
Lemma ce_or l r :
  comp_expr (EOr l r) = comp_expr l ++ [IDupe; IJumpTrue (1 + csize (comp_expr r)); IDrop] ++ comp_expr r ++ [IBoolean].
Proof. reflexivity. Qed.
Lemma ce_concat l r :
  comp_expr (EConcat l r) =
  comp_cat l ++ comp_expr r ++ [if cat_count l + 1 =? 2 then IConcat else IConcatMulti (cat_count l + 1)].
Proof. reflexivity. Qed.
Lemma cc_concat l r : comp_cat (EConcat l r) = comp_cat l ++ comp_expr r.
Proof. reflexivity. Qed.
Lemma cc_other e : (forall l r, e <> EConcat l r) -> comp_cat e = comp_expr e.
Proof. intros H. destruct e; try reflexivity. exfalso. eapply H. reflexivity. Qed.
Lemma ce_unary op e : comp_expr (EUnary op e) = comp_expr e ++ [unop_instr op].
Proof. reflexivity. Qed.
Lemma ce_cond c t f :
  comp_expr (ECond c t f) =
  comp_cond c true (csize (comp_expr t) + 2) ++ comp_expr t ++ [IJump (csize (comp_expr f))] ++ comp_expr f.
Proof. reflexivity. Qed.
Lemma ce_assign lv r : comp_expr (EAssign lv r) = comp_expr r ++ [IDupe] ++ comp_assign lv.
Proof. reflexivity. Qed.
Lemma ce_group e : comp_expr (EGroup e) = comp_expr e.
Proof. reflexivity. Qed.
Lemma ce_call b es : comp_expr (ECall b es) = comp_exprs es ++ [ICallBuiltin b].
Proof. reflexivity. Qed.
Lemma ce_split s sc i : comp_expr (ESplit s sc i) = comp_expr s ++ [ICallSplit sc i].
Proof. reflexivity. Qed.
Lemma ce_splitsep s sc i sep isre :
  comp_expr (ESplitSep s sc i sep isre) = comp_expr s ++ comp_expr sep ++ [ICallSplitSep sc i isre].
Proof. reflexivity. Qed.
Lemma ce_sprintf es : comp_expr (ESprintf es) = comp_exprs es ++ [ICallSprintf (exprs_len es)].
Proof. reflexivity. Qed.
Lemma ce_native fi es : comp_expr (ENativeCall fi es) = comp_exprs es ++ [ICallNative fi (exprs_len es)].
Proof. reflexivity. Qed.
Lemma ce_usercall fi nsc a :
  comp_expr (EUserCall fi nsc a) =
  comp_args a ++ (if args_scalars a <? nsc then [INulls (nsc - args_scalars a)] else []) ++ [ICallUser fi (args_arrays a)].
Proof. reflexivity. Qed.
Lemma ce_exprs_cons e es : comp_exprs (Econs e es) = comp_expr e ++ comp_exprs es.
Proof. reflexivity. Qed.
Lemma ce_args_s e a : comp_args (AconsS e a) = comp_expr e ++ comp_args a.
Proof. reflexivity. Qed.
Lemma ce_args_a sc i a : comp_args (AconsA sc i a) = comp_args a.
Proof. reflexivity. Qed.

(* ---- sizes ---- *)
Lemma cond_size e inv off off' : csize (comp_cond e inv off) = csize (comp_cond e inv off').
Proof.
  unfold comp_cond, cond_code.
  destruct e; try (rewrite !csize_app; destruct inv; reflexivity).
  destruct op; try (rewrite !csize_app; destruct inv; reflexivity).
  destruct (inv && is_ordering c); rewrite !csize_app; reflexivity.
Qed.

Definition same_kind (l l' : lctx) : Prop :=
  match l, l' with
  | LNone, LNone => True
  | LForIn _, LForIn _ => True
  | LLoop _ _, LLoop _ _ => True
  | _, _ => False
  end.

Lemma same_kind_shift l d : same_kind l (shift l d).
Proof. destruct l; exact I. Qed.
Lemma same_kind_sym l l' : same_kind l l' -> same_kind l' l.
Proof. destruct l, l'; auto. Qed.
Lemma same_kind_trans a b c : same_kind a b -> same_kind b c -> same_kind a c.
Proof. destruct a, b, c; auto; intros []. Qed.
Lemma same_kind_refl l : same_kind l l.
Proof. destruct l; exact I. Qed.

Scheme stmt_mind := Induction for stmt Sort Prop
  with stmts_mind := Induction for stmts Sort Prop
  with ostmt_mind := Induction for ostmt Sort Prop
  with oexpr_mind := Induction for oexpr Sort Prop.

Definition canon (l : lctx) : lctx :=
  match l with LNone => LNone | LForIn _ => LForIn 0 | LLoop _ _ => LLoop 0 0 end.

Lemma canon_shift l d : canon (shift l d) = canon l.
Proof. destruct l; reflexivity. Qed.
Lemma canon_idem l : canon (canon l) = canon l.
Proof. destruct l; reflexivity. Qed.
Lemma same_kind_canon l l' : same_kind l l' -> canon l = canon l'.
Proof. destruct l, l'; cbn; intros H; try contradiction; reflexivity. Qed.

Ltac norm_sizes :=
  repeat match goal with
  | IH : (forall l, csize (comp_stmts l ?b) = csize (comp_stmts (canon l) ?b)) |- context [csize (comp_stmts ?l0 ?b)] =>
      lazymatch l0 with canon _ => fail | _ => rewrite (IH l0) end
  | IH : (forall l, csize (comp_stmt l ?b) = csize (comp_stmt (canon l) ?b)) |- context [csize (comp_stmt ?l0 ?b)] =>
      lazymatch l0 with canon _ => fail | _ => rewrite (IH l0) end
  end;
  rewrite ?canon_shift, ?canon_idem;
  repeat match goal with
  | |- context [csize (comp_cond ?e ?i ?off)] =>
      lazymatch off with 0 => fail | _ => rewrite (cond_size e i off 0) end
  end.

Ltac size_case :=
  intros; try exact I; cbn [comp_stmt comp_stmts]; try reflexivity;
  try match goal with |- context [stmts_is_nil ?e] => destruct (stmts_is_nil e) end;
  rewrite ?csize_app; norm_sizes; try reflexivity;
  try match goal with l : lctx |- _ => destruct l; reflexivity end.

Lemma stmt_size_canon s : forall l, csize (comp_stmt l s) = csize (comp_stmt (canon l) s).
Proof.
  induction s using stmt_mind with
    (P0 := fun ss => forall l, csize (comp_stmts l ss) = csize (comp_stmts (canon l) ss))
    (P1 := fun _ => True) (P2 := fun _ => True); size_case.
Qed.

Lemma stmts_size_canon ss : forall l, csize (comp_stmts l ss) = csize (comp_stmts (canon l) ss).
Proof.
  induction ss using stmts_mind with
    (P := fun s => forall l, csize (comp_stmt l s) = csize (comp_stmt (canon l) s))
    (P1 := fun _ => True) (P2 := fun _ => True); size_case.
Qed.

Lemma stmts_size_kind ss l l' : same_kind l l' -> csize (comp_stmts l ss) = csize (comp_stmts l' ss).
Proof. intros H. rewrite (stmts_size_canon ss l), (stmts_size_canon ss l'), (same_kind_canon _ _ H). reflexivity. Qed.
Lemma stmt_size_kind1 s l l' : same_kind l l' -> csize (comp_stmt l s) = csize (comp_stmt l' s).
Proof. intros H. rewrite (stmt_size_canon s l), (stmt_size_canon s l'), (same_kind_canon _ _ H). reflexivity. Qed.
