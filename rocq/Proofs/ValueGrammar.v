(* C05: the AWK numeric grammar, and the scanner (parseFloatPrefix) against it:
   what the scanner consumes is in the grammar, and no longer prefix is. *)
From Verif Require Import Lib.Base Lib.Dyadic Lib.Utf8 Model.Value Proofs.ValueScan.

(* ------------------------------------------------------------------ *)
(* the grammar                                                         *)
(* ------------------------------------------------------------------ *)

(* digits+ [ . digits* ]  |  . digits+      over a digit class p *)
Definition mantissa (p : Z -> bool) (m : bytes) : Prop :=
  exists d1 dot d2, m = d1 ++ dot ++ d2 /\ forallb p d1 = true /\ forallb p d2 = true /\
    (dot = [46] \/ (dot = [] /\ d2 = [])) /\ (d1 <> [] \/ d2 <> []).

(* [+-] mantissa [ (e|E) [+-] digits+ ] *)
Definition awk_decimal (t : bytes) : Prop :=
  exists sg m x, t = sg ++ m ++ x /\ sign_str sg /\ mantissa is_digit m /\ (x = [] \/ exponent 101 69 x).

(* [+-] 0 (x|X) hexmantissa [ (p|P) [+-] digits+ ] *)
Definition awk_hex (t : bytes) : Prop :=
  exists sg b m x, t = sg ++ [48; b] ++ m ++ x /\ sign_str sg /\ (b = 120 \/ b = 88) /\
    mantissa is_hex_digit m /\ (x = [] \/ exponent 112 80 x).

Definition awk_numeral (t : bytes) : Prop := awk_decimal t \/ awk_hex t.

(* ------------------------------------------------------------------ *)
(* lexing a grammatical mantissa+exponent followed by anything         *)
(* ------------------------------------------------------------------ *)

Lemma is_nil_app_false {A} (a b : list A) : a <> [] -> is_nil (a ++ b) = false.
Proof. destruct a; [congruence|reflexivity]. Qed.

Lemma lex_mant_prefix p d tail : forallb p d = true ->
  lex_mant p (d ++ tail) =
    let '(f, dt, D2, r3) := lex_mant p tail in (d ++ f, dt, D2, r3).
Proof.
  intro Hd. unfold lex_mant. rewrite (span_prefix p d tail Hd).
  destruct (span p tail) as [f r1]. cbn [fst snd]. destruct (opt_dot r1) as [dt r2].
  destruct (span p r2) as [D2 r3]. reflexivity.
Qed.

Lemma lex_mant_decomp p tail f dt D2 r3 : lex_mant p tail = (f, dt, D2, r3) -> tail = f ++ dt ++ D2 ++ r3.
Proof. intro H. exact (proj1 (lex_mant_spec _ _ _ _ _ _ H)). Qed.

Lemma lex_forward p lo up m x tail :
  p 46 = false -> p lo = false -> p up = false -> lo <> 46 -> up <> 46 ->
  mantissa p m -> (x = [] \/ exponent lo up x) ->
  exists d1 dot d2 r3 more tail',
    lex_mant p (m ++ x ++ tail) = (d1, dot, d2, r3) /\ is_nil d1 && is_nil d2 = false /\
    d1 ++ dot ++ d2 ++ scan_exp lo up r3 = m ++ x ++ more /\ tail = more ++ tail'.
Proof.
  intros Hp46 Hplo Hpup Hlo46 Hup46 [a [dot [b [-> [Ha [Hb [Hdot Hne]]]]]]] Hx.
  assert (Hnil : forall f, is_nil a && is_nil (b ++ f) = false).
  { intro f. destruct a; [|reflexivity]. destruct b; [destruct Hne; congruence|reflexivity]. }
  destruct Hx as [-> | [c [es [ed [-> [Hc [Hes [Hed Hedd]]]]]]]].
  - (* no exponent in the shorter text *)
    cbn [app]. destruct Hdot as [-> | [-> ->]].
    + (* a . b  then tail *)
      destruct (span p tail) as [f r] eqn:Esp.
      destruct (scan_exp_spec lo up r) as [[r' Hr] _].
      exists a, [46], (b ++ f), r, (f ++ scan_exp lo up r), r'.
      split; [|split; [apply Hnil|split]].
      * unfold lex_mant. rewrite <- !app_assoc.
        rewrite (span_stop p a ([46] ++ b ++ tail) Ha) by (cbn [app stops]; exact Hp46).
        cbn [app opt_dot]. rewrite Z.eqb_refl. rewrite (span_prefix p b tail Hb), Esp. reflexivity.
      * rewrite <- !app_assoc. reflexivity.
      * destruct (span_eq _ _ _ _ Esp) as [-> _]. rewrite <- app_assoc, <- Hr. reflexivity.
    + (* a then tail *)
      rewrite app_nil_r. cbn [app].
      destruct (lex_mant p tail) as [[[f dt] D2] r3] eqn:El.
      destruct (scan_exp_spec lo up r3) as [[r' Hr] _].
      exists (a ++ f), dt, D2, r3, (f ++ dt ++ D2 ++ scan_exp lo up r3), r'.
      split; [|split; [|split]].
      * rewrite (lex_mant_prefix p a tail Ha), El. reflexivity.
      * rewrite is_nil_app_false; [reflexivity|]. destruct Hne as [H|H]; congruence.
      * rewrite <- !app_assoc. reflexivity.
      * rewrite (lex_mant_decomp _ _ _ _ _ _ El) at 1. rewrite <- !app_assoc. rewrite <- Hr. reflexivity.
  - (* with exponent *)
    assert (Hpc : p c = false) by (destruct Hc as [-> | ->]; assumption).
    assert (Hc46 : (c =? 46) = false) by (apply Z.eqb_neq; destruct Hc as [-> | ->]; assumption).
    destruct (span is_digit tail) as [g tail'] eqn:Eg.
    assert (Hex : scan_exp lo up ((c :: es ++ ed) ++ tail) = (c :: es ++ ed) ++ g).
    { cbn [app]. rewrite <- app_assoc. rewrite scan_exp_shape by assumption. rewrite Eg. cbn [fst].
      rewrite <- app_assoc. reflexivity. }
    exists a, dot, b, ((c :: es ++ ed) ++ tail), g, tail'.
    split; [|split; [|split]].
    + unfold lex_mant. rewrite <- !app_assoc.
      destruct Hdot as [-> | [-> ->]].
      * rewrite (span_stop p a ([46] ++ b ++ (c :: es ++ ed) ++ tail) Ha) by (cbn [app stops]; exact Hp46).
        cbn [app opt_dot]. rewrite Z.eqb_refl.
        change (b ++ c :: (es ++ ed) ++ tail) with (b ++ (c :: (es ++ ed) ++ tail)).
        rewrite (span_stop p b (c :: (es ++ ed) ++ tail) Hb) by (cbn [stops]; exact Hpc). reflexivity.
      * cbn [app].
        rewrite (span_stop p a (c :: (es ++ ed) ++ tail) Ha) by (cbn [stops]; exact Hpc).
        cbn [opt_dot]. rewrite Hc46. cbn [span]. rewrite Hpc. reflexivity.
    + specialize (Hnil []). rewrite app_nil_r in Hnil. exact Hnil.
    + rewrite Hex. rewrite <- !app_assoc. reflexivity.
    + destruct (span_eq _ _ _ _ Eg) as [H _]. exact H.
Qed.

(* ------------------------------------------------------------------ *)
(* what the scanner consumes is in the grammar                         *)
(* ------------------------------------------------------------------ *)

Ltac norm_app := cbn [app]; repeat (rewrite <- app_assoc || rewrite <- app_comm_cons); cbn [app].

Lemma is_nil_pair_false {A} (a b : list A) : is_nil a && is_nil b = false -> a <> [] \/ b <> [].
Proof. destruct a; [destruct b; [discriminate|right; discriminate]|left; discriminate]. Qed.

Lemma lex_mant_mantissa p u d1 dot d2 r3 :
  lex_mant p u = (d1, dot, d2, r3) -> is_nil d1 && is_nil d2 = false -> mantissa p (d1 ++ dot ++ d2).
Proof.
  intros Hl Hn. pose proof (lex_mant_spec _ _ _ _ _ _ Hl) as [_ [H1 [H2 [Hd [_ H4]]]]].
  exists d1, dot, d2. split; [reflexivity|]. split; [exact H1|]. split; [exact H2|]. split.
  - destruct Hd as [-> | ->]; [left; reflexivity|right]. split; [reflexivity|]. exact (proj1 (H4 eq_refl)).
  - apply is_nil_pair_false. exact Hn.
Qed.

Lemma scan_t_num_grammar start t start' c patch :
  scan_t start t = PSNum start' c patch ->
  start' = start /\ (exists rest, t = c ++ rest) /\ awk_numeral c.
Proof.
  unfold scan_t. destruct (opt_sign t) as [sg u] eqn:Hos.
  destruct (opt_sign_inv _ _ _ Hos) as [Et Hsg].
  destruct ((3 <=? zlen u) && has_nan_prefix u); [discriminate|].
  destruct ((3 <=? zlen u) && has_inf_prefix u); [destruct t; discriminate|].
  destruct (hex_of u) eqn:Hh.
  - destruct (hex_of_true_inv u Hh) as [b [c0 [r [Eu Hb]]]]. rewrite Eu.
    change (ztake 2 (48 :: b :: c0 :: r)) with [48; b]. change (zdrop 2 (48 :: b :: c0 :: r)) with (c0 :: r).
    unfold scan_hex'. destruct (lex_mant is_hex_digit (c0 :: r)) as [[[d1 dot] d2] r3] eqn:Hl.
    destruct (is_nil d1 && is_nil d2) eqn:Hn; [discriminate|].
    intro H. injection H as <- <- _. split; [reflexivity|].
    destruct (scan_exp_spec 112 80 r3) as [[r' Hr] Hex].
    split.
    + exists r'. rewrite Et, Eu. rewrite (lex_mant_decomp _ _ _ _ _ _ Hl). rewrite Hr at 1.
      norm_app. reflexivity.
    + right. exists sg, b, (d1 ++ dot ++ d2), (scan_exp 112 80 r3).
      split; [norm_app; reflexivity|]. split; [exact Hsg|]. split; [exact Hb|].
      split; [exact (lex_mant_mantissa _ _ _ _ _ _ Hl Hn)|exact Hex].
  - unfold scan_dec. destruct (lex_mant is_digit u) as [[[d1 dot] d2] r3] eqn:Hl.
    destruct (is_nil d1 && is_nil d2) eqn:Hn; [discriminate|].
    intro H. injection H as <- <- _. split; [reflexivity|].
    destruct (scan_exp_spec 101 69 r3) as [[r' Hr] Hex].
    split.
    + exists r'. rewrite Et. rewrite (lex_mant_decomp _ _ _ _ _ _ Hl). rewrite Hr at 1.
      norm_app. reflexivity.
    + left. exists sg, (d1 ++ dot ++ d2), (scan_exp 101 69 r3).
      split; [norm_app; reflexivity|]. split; [exact Hsg|].
      split; [exact (lex_mant_mantissa _ _ _ _ _ _ Hl Hn)|exact Hex].
Qed.

(* ------------------------------------------------------------------ *)
(* the scanner consumes at least every grammatical prefix              *)
(* ------------------------------------------------------------------ *)

Lemma mantissa_head p m rest : mantissa p m -> exists h r, m ++ rest = h :: r /\ (p h = true \/ h = 46).
Proof.
  intros [a [dot [b [-> [Ha [Hb [Hdot Hne]]]]]]].
  destruct a as [|h a'].
  - destruct Hdot as [-> | [-> ->]]; [|destruct Hne; congruence].
    eexists 46, _. split; [reflexivity|right; reflexivity].
  - cbn [forallb] in Ha. apply andb_true_iff in Ha as [Hh _].
    eexists h, _. split; [reflexivity|left; exact Hh].
Qed.

Lemma opt_sign_build sg h r : sign_str sg -> is_sign h = false -> opt_sign (sg ++ h :: r) = (sg, h :: r).
Proof. intros [-> | [-> | ->]] Hh; cbn [app opt_sign]; [rewrite Hh|..]; reflexivity. Qed.

Lemma digit_or_dot_not_sign p h : (forall c, p c = true -> is_sign c = false) -> (p h = true \/ h = 46) -> is_sign h = false.
Proof. intros Hp [H | ->]; [apply Hp; exact H|reflexivity]. Qed.

Lemma hex_digit_not_sign c : is_hex_digit c = true -> is_sign c = false.
Proof. unfold is_hex_digit, is_digit, is_sign. intro H. lia. Qed.

Lemma zlen_app3 {A} (a b c : list A) : zlen (a ++ b ++ c) = zlen a + zlen b + zlen c.
Proof. rewrite !zlen_app. lia. Qed.

Lemma scan_t_dominates_dec start sg m x rest :
  sign_str sg -> mantissa is_digit m -> (x = [] \/ exponent 101 69 x) ->
  (exists c patch rest', scan_t start (sg ++ m ++ x ++ rest) = PSNum start c patch /\
      zlen (sg ++ m ++ x) <= zlen c /\ sg ++ m ++ x ++ rest = c ++ rest') \/
  (scan_t start (sg ++ m ++ x ++ rest) = PSZero /\ m ++ x = [48]).
Proof.
  intros Hsg Hm Hx.
  destruct (mantissa_head is_digit m (x ++ rest) Hm) as [h [r [Eu Hh]]].
  assert (Hhs : is_sign h = false) by (apply (digit_or_dot_not_sign is_digit); [apply digit_not_sign|exact Hh]).
  unfold scan_t. rewrite Eu, (opt_sign_build sg h r Hsg Hhs).
  destruct (no_special_prefix h r Hh) as [N1 N2]. rewrite N1, N2.
  destruct (hex_of (h :: r)) eqn:Hhex.
  - (* the text continues with x/X: the only decimal prefix is sign? 0 *)
    destruct (hex_of_true_inv _ Hhex) as [b [c0 [r0 [E Hb]]]]. injection E as -> ->.
    assert (Hmx : m ++ x = [48]).
    { destruct Hm as [a [dot [b' [-> [Ha [Hb' [Hdot Hne]]]]]]].
      assert (Hbd : is_digit b = false) by (destruct Hb as [-> | ->]; reflexivity).
      destruct a as [|h1 a'].
      - destruct Hdot as [-> | [-> ->]]; [discriminate|destruct Hne; congruence].
      - injection Eu as -> Eu. destruct a' as [|h2 a''].
        + cbn [app] in Eu.
          destruct Hdot as [-> | [-> ->]]; [cbn [app] in Eu; injection Eu as <- _; destruct Hb; discriminate|].
          cbn [app] in Eu |- *.
          destruct Hx as [-> | [c [es [ed [-> [Hc _]]]]]]; [reflexivity|].
          cbn [app] in Eu. injection Eu as <- _. destruct Hc as [-> | ->], Hb; discriminate.
        + cbn [app] in Eu. injection Eu as <- _. cbn [forallb] in Ha.
          apply andb_true_iff in Ha as [_ Ha]. apply andb_true_iff in Ha as [Ha _]. congruence. }
    change (ztake 2 (48 :: b :: c0 :: r0)) with [48; b]. change (zdrop 2 (48 :: b :: c0 :: r0)) with (c0 :: r0).
    unfold scan_hex'. destruct (lex_mant is_hex_digit (c0 :: r0)) as [[[d1 dot] d2] r3] eqn:Hl.
    destruct (is_nil d1 && is_nil d2); [right; split; [reflexivity|exact Hmx]|].
    left. destruct (scan_exp_spec 112 80 r3) as [[r' Hr] _].
    eexists _, _, r'. split; [reflexivity|]. split.
    + rewrite zlen_app, Hmx. rewrite !zlen_app. change (zlen [48]) with 1. change (zlen [48; b]) with 2.
      pose proof (zlen_nonneg d1). pose proof (zlen_nonneg dot). pose proof (zlen_nonneg d2).
      pose proof (zlen_nonneg (scan_exp 112 80 r3)). lia.
    + rewrite (lex_mant_decomp _ _ _ _ _ _ Hl). rewrite Hr at 1.
      norm_app. reflexivity.
  - left. rewrite <- Eu. unfold scan_dec.
    destruct (lex_forward is_digit 101 69 m x rest eq_refl eq_refl eq_refl ltac:(lia) ltac:(lia) Hm Hx)
      as [d1 [dot [d2 [r3 [more [tail' [Hl [Hn [Hc Ht]]]]]]]]].
    rewrite Hl, Hn. exists (sg ++ d1 ++ dot ++ d2 ++ scan_exp 101 69 r3), false, tail'.
    split; [reflexivity|]. rewrite Hc. split.
    + rewrite !zlen_app. pose proof (zlen_nonneg more). lia.
    + rewrite Ht. norm_app. reflexivity.
Qed.

Lemma scan_t_dominates_hex start sg b m x rest :
  sign_str sg -> (b = 120 \/ b = 88) -> mantissa is_hex_digit m -> (x = [] \/ exponent 112 80 x) ->
  exists c patch rest', scan_t start (sg ++ [48; b] ++ m ++ x ++ rest) = PSNum start c patch /\
      zlen (sg ++ [48; b] ++ m ++ x) <= zlen c /\ sg ++ [48; b] ++ m ++ x ++ rest = c ++ rest'.
Proof.
  intros Hsg Hb Hm Hx.
  destruct (mantissa_head is_hex_digit m (x ++ rest) Hm) as [h [r [Eu _]]].
  unfold scan_t. cbn [app]. rewrite (opt_sign_build sg 48 _ Hsg eq_refl).
  destruct (no_special_prefix 48 (b :: m ++ x ++ rest) (or_introl eq_refl)) as [N1 N2]. rewrite N1, N2.
  rewrite Eu.
  replace (hex_of (48 :: b :: h :: r)) with true
    by (symmetry; unfold hex_of; rewrite zlen_ge3; destruct Hb as [-> | ->]; reflexivity).
  change (ztake 2 (48 :: b :: h :: r)) with [48; b]. change (zdrop 2 (48 :: b :: h :: r)) with (h :: r).
  rewrite <- Eu. unfold scan_hex'.
  destruct (lex_forward is_hex_digit 112 80 m x rest eq_refl eq_refl eq_refl ltac:(lia) ltac:(lia) Hm Hx)
    as [d1 [dot [d2 [r3 [more [tail' [Hl [Hn [Hc Ht]]]]]]]]].
  rewrite Hl, Hn. eexists _, _, tail'. split; [reflexivity|]. rewrite Hc. split.
  - cbn [app]. repeat (rewrite zlen_app || rewrite zlen_cons). pose proof (zlen_nonneg more). lia.
  - rewrite Ht. norm_app. reflexivity.
Qed.

Lemma scan_t_dominates start t p rest :
  t = p ++ rest -> awk_numeral p ->
  (exists c patch, scan_t start t = PSNum start c patch /\ zlen p <= zlen c) \/
  (scan_t start t = PSZero /\ exists sg, sign_str sg /\ p = sg ++ [48]).
Proof.
  intros -> [[sg [m [x [-> [Hsg [Hm Hx]]]]]] | [sg [b [m [x [-> [Hsg [Hb [Hm Hx]]]]]]]]].
  - replace ((sg ++ m ++ x) ++ rest) with (sg ++ m ++ x ++ rest) by (rewrite <- !app_assoc; reflexivity).
    destruct (scan_t_dominates_dec start sg m x rest Hsg Hm Hx) as [[c [patch [rest' [H1 [H2 _]]]]] | [H1 H2]].
    + left. exists c, patch. split; assumption.
    + right. split; [exact H1|]. exists sg. split; [exact Hsg|]. rewrite H2. reflexivity.
  - replace ((sg ++ [48; b] ++ m ++ x) ++ rest) with (sg ++ [48; b] ++ m ++ x ++ rest)
      by (cbn [app]; rewrite <- !app_assoc; cbn [app]; rewrite <- !app_assoc; reflexivity).
    destruct (scan_t_dominates_hex start sg b m x rest Hsg Hb Hm Hx) as [c [patch [rest' [H1 [H2 _]]]]].
    left. exists c, patch. split; assumption.
Qed.

Lemma has_nan_prefix3 a b c r : has_nan_prefix (a :: b :: c :: r) = has_nan_prefix [a; b; c].
Proof. reflexivity. Qed.
Lemma has_inf_prefix3 a b c r : has_inf_prefix (a :: b :: c :: r) = has_inf_prefix [a; b; c].
Proof. reflexivity. Qed.

Lemma scan_hex'_not_other start sg pre r :
  scan_hex' start sg pre r = PSZero \/ exists c patch, scan_hex' start sg pre r = PSNum start c patch.
Proof.
  unfold scan_hex'. destruct (lex_mant is_hex_digit r) as [[[d1 dot] d2] r3].
  destruct (is_nil d1 && is_nil d2); [left; reflexivity|right; eauto].
Qed.

Lemma scan_dec_not_other start sg u :
  scan_dec start sg u = PSZero \/ exists c patch, scan_dec start sg u = PSNum start c patch.
Proof.
  unfold scan_dec. destruct (lex_mant is_digit u) as [[[d1 dot] d2] r3].
  destruct (is_nil d1 && is_nil d2); [left; reflexivity|right; eauto].
Qed.

(* the scanner's verdict against the grammar *)
Definition scan_verdict_ok (t : bytes) (r : pscan) (start : Z) : Prop :=
  match r with
  | PSNum start' c patch =>
      start' = start /\ (exists rest, t = c ++ rest) /\ awk_numeral c /\
      (forall p rest, t = p ++ rest -> awk_numeral p -> zlen p <= zlen c)
  | PSZero =>
      forall p rest, t = p ++ rest -> awk_numeral p -> exists sg, sign_str sg /\ p = sg ++ [48]
  | PSNaN =>
      exists sg a b c r, sign_str sg /\ t = sg ++ a :: b :: c :: r /\ has_nan_prefix [a; b; c] = true
  | PSInf neg =>
      exists sg a b c r, sign_str sg /\ t = sg ++ a :: b :: c :: r /\ has_inf_prefix [a; b; c] = true /\
        neg = match t with h :: _ => h =? 45 | [] => false end
  | PSPanic => False
  end.

Lemma scan_t_longest start t : scan_verdict_ok t (scan_t start t) start.
Proof.
  destruct (scan_t start t) as [|neg| |start' c patch|] eqn:E; cbn [scan_verdict_ok].
  - (* NaN *)
    unfold scan_t in E. destruct (opt_sign t) as [sg u] eqn:Hos.
    destruct (opt_sign_inv _ _ _ Hos) as [Et Hsg].
    destruct ((3 <=? zlen u) && has_nan_prefix u) eqn:Hn.
    + apply andb_true_iff in Hn as [_ Hn]. destruct u as [|a [|b [|c r]]]; try discriminate.
      exists sg, a, b, c, r. split; [exact Hsg|]. split; [exact Et|exact Hn].
    + destruct ((3 <=? zlen u) && has_inf_prefix u); [destruct t; discriminate|].
      destruct (hex_of u).
      * destruct (scan_hex'_not_other start sg (ztake 2 u) (zdrop 2 u)) as [H|[c [p H]]]; rewrite H in E; discriminate.
      * destruct (scan_dec_not_other start sg u) as [H|[c [p H]]]; rewrite H in E; discriminate.
  - (* Inf *)
    unfold scan_t in E. destruct (opt_sign t) as [sg u] eqn:Hos.
    destruct (opt_sign_inv _ _ _ Hos) as [Et Hsg].
    destruct ((3 <=? zlen u) && has_nan_prefix u); [discriminate|].
    destruct ((3 <=? zlen u) && has_inf_prefix u) eqn:Hi.
    + apply andb_true_iff in Hi as [_ Hi]. destruct u as [|a [|b [|c r]]]; try discriminate.
      exists sg, a, b, c, r. split; [exact Hsg|]. split; [exact Et|]. split; [exact Hi|].
      destruct t as [|h t']; [discriminate|]. injection E as <-. reflexivity.
    + destruct (hex_of u).
      * destruct (scan_hex'_not_other start sg (ztake 2 u) (zdrop 2 u)) as [H|[c [p H]]]; rewrite H in E; discriminate.
      * destruct (scan_dec_not_other start sg u) as [H|[c [p H]]]; rewrite H in E; discriminate.
  - (* zero *)
    intros p rest Hp Hnum.
    destruct (scan_t_dominates start t p rest Hp Hnum) as [[c [patch [H _]]] | [_ H]]; [congruence|exact H].
  - (* a number *)
    destruct (scan_t_num_grammar start t start' c patch E) as [Hs [Hpre Hg]].
    split; [exact Hs|]. split; [exact Hpre|]. split; [exact Hg|].
    intros p rest Hp Hnum.
    destruct (scan_t_dominates start t p rest Hp Hnum) as [[c' [patch' [H Hle]]] | [H _]]; [|congruence].
    rewrite E in H. injection H as _ <- _. exact Hle.
  - (* never panics *)
    unfold scan_t in E. destruct (opt_sign t) as [sg u] eqn:Hos.
    destruct ((3 <=? zlen u) && has_nan_prefix u); [discriminate|].
    destruct ((3 <=? zlen u) && has_inf_prefix u) eqn:Hi.
    + destruct t as [|h t']; [|discriminate]. cbn in Hos. injection Hos as <- <-. discriminate.
    + destruct (hex_of u).
      * destruct (scan_hex'_not_other start sg (ztake 2 u) (zdrop 2 u)) as [H|[c [p H]]]; rewrite H in E; discriminate.
      * destruct (scan_dec_not_other start sg u) as [H|[c [p H]]]; rewrite H in E; discriminate.
Qed.

Theorem prefix_is_longest s :
  let ws := fst (span ascii_space s) in
  let t := snd (span ascii_space s) in
  s = ws ++ t /\ forallb ascii_space ws = true /\ stops ascii_space t /\
  scan_verdict_ok t (scan_prefix s) (zlen ws).
Proof.
  cbv zeta. pose proof (span_spec ascii_space s) as [H1 [H2 H3]].
  split; [exact H1|]. split; [exact H2|]. split; [exact H3|].
  rewrite scan_prefix_eq. apply scan_t_longest.
Qed.

Corollary scan_prefix_no_panic s : scan_prefix s <> PSPanic.
Proof.
  pose proof (prefix_is_longest s) as H. cbv zeta in H. destruct H as [_ [_ [_ H]]].
  intro E. rewrite E in H. exact H.
Qed.
