(* C11: lifting a step invariant through p.execute, execActions and executeAll.
   Any reflexive-transitive relation on states that every primitive step respects
   is respected by the whole run of an arbitrary program. *)
From Verif Require Import Lib.Base Model.Input Proofs.Input.

Section Lift.
  Variable U : Type.
  Variable step : U -> st -> req * U.
  Variable enter : blk -> U -> U.
  Variable e : env.
  Variable R : st -> st -> Prop.
  Variable Q : req -> Prop.          (* the requests the program is allowed to make *)
  Hypothesis R_refl : forall s, R s s.
  Hypothesis R_trans : forall a b c, R a b -> R b c -> R a c.
  Hypothesis R_prim : forall r s s', Q r -> prim e r s = Some s' -> R s s'.
  Hypothesis R_exit : forall n s, R s (add_log (EvExit n) (set_status n s)).
  Hypothesis R_next : forall s res s', next_line e s = (res, s') -> res <> NLUnmod -> R s s'.
  Hypothesis R_drop : forall s, R s (drop_file s).
  Hypothesis R_setline : forall l s, R s (set_line l s).
  Hypothesis R_out : forall o s, R s (add_out o s).
  Hypothesis Hprog : forall u s, Q (fst (step u s)).

  Lemma run_lift : forall fuel u s o u' s',
    run U step e fuel u s = ROk o u' s' -> R s s'.
  Proof.
    induction fuel as [|fuel IH]; intros u s o u' s' H; cbn [run] in H; [discriminate|].
    pose proof (Hprog u s) as HQ.
    destruct (step u s) as [r u1]. cbn [fst] in HQ.
    destruct r as [o1| | | | | | | | | | |];
      try (destruct (prim e _ s) as [s1|] eqn:Hp; [|discriminate];
           apply IH in H; eapply R_trans; [eapply R_prim; eassumption|exact H]).
    destruct o1 as [b| | |[n|]|]; injection H as _ _ <-; try apply R_refl. apply R_exit.
  Qed.

  Definition lres_R (s : st) (x : lres U) : Prop :=
    match x with
    | LCont _ s' _ => R s s'
    | LStop _ _ s' => R s s'
    | _ => True
    end.

  Definition fin_R (s : st) (x : fin U) : Prop :=
    match x with
    | FOk _ s' => R s s'
    | FErr _ s' => R s s'
    | _ => True
    end.

  Lemma eval_pat_lift fuel r i f u s :
    match eval_pat U step enter e fuel r i f u s with
    | inl x => match x with LCont _ _ _ => False | _ => lres_R s x end
    | inr (_, _, _, s1) => R s s1
    end.
  Proof.
    unfold eval_pat. destruct (rk r).
    - apply R_refl.
    - destruct (run U step e fuel (enter (BPat i false) u) s) as [| |o u1 s1] eqn:H1; cbn; try exact I.
      apply run_lift in H1. destruct o; cbn; exact H1.
    - destruct f.
      + destruct (run U step e fuel (enter (BPat i true) u) s) as [| |o u1 s1] eqn:H1; cbn; try exact I.
        apply run_lift in H1. destruct o; cbn; exact H1.
      + destruct (run U step e fuel (enter (BPat i false) u) s) as [| |o u1 s1] eqn:H1; cbn; try exact I.
        apply run_lift in H1. destruct o as [b| | | |]; cbn; try exact H1.
        destruct b; [|exact H1].
        destruct (run U step e fuel (enter (BPat i true) u1) s1) as [| |o2 u2 s2] eqn:H2; cbn; try exact I.
        apply run_lift in H2. destruct o2; cbn; eapply R_trans; eassumption.
  Qed.

  Lemma lres_R_trans s s1 x : R s s1 -> lres_R s1 x -> lres_R s x.
  Proof. intros H. destruct x; cbn; try tauto; intros H2; eapply R_trans; eassumption. Qed.

  Lemma exec_rules_lift fuel : forall rules i done fl u s,
    lres_R s (exec_rules U step enter e fuel rules i done fl u s).
  Proof.
    induction rules as [|r rules IH]; intros i done fl u s; cbn [exec_rules].
    - cbn. apply R_refl.
    - destruct fl as [|f fl']. { cbn. apply R_refl. }
      pose proof (eval_pat_lift fuel r i f u s) as HP.
      destruct (eval_pat U step enter e fuel r i f u s) as [x|[[[m f'] u1] s1]].
      + destruct x; cbn in *; tauto.
      + destruct (negb m). { eapply lres_R_trans; [exact HP|apply IH]. }
        destruct (negb (has_body r)).
        { eapply lres_R_trans; [exact HP|]. eapply lres_R_trans; [apply R_out|apply IH]. }
        destruct (run U step e fuel (enter (BBody i) u1) s1) as [| |o u2 s2] eqn:H2; cbn; try exact I.
        apply run_lift in H2.
        destruct o as [b| | |n|].
        * eapply lres_R_trans; [eapply R_trans; eassumption|apply IH].
        * cbn. eapply R_trans; eassumption.
        * cbn. eapply R_trans; [eapply R_trans; eassumption|apply R_drop].
        * cbn. eapply R_trans; eassumption.
        * cbn. eapply R_trans; eassumption.
  Qed.

  Lemma main_loop_lift fuel rules : forall n flags u s,
    lres_R s (main_loop U step enter e fuel n rules flags u s).
  Proof.
    induction n as [|n IH]; intros flags u s; cbn [main_loop]; [exact I|].
    destruct (next_line e s) as [res s1] eqn:HN.
    destruct res as [r| | | |]; cbn; try exact I.
    - assert (H1 : R s s1) by (eapply R_next; [exact HN|discriminate]).
      pose proof (exec_rules_lift fuel rules 0 [] flags u (set_line r s1)) as H2.
      destruct (exec_rules U step enter e fuel rules 0 [] flags u (set_line r s1)) as [| |u' s' fl'|o u' s']; cbn in *; try exact I.
      + eapply lres_R_trans; [|apply IH]. eapply R_trans; [exact H1|]. eapply R_trans; [apply R_setline|exact H2].
      + eapply R_trans; [exact H1|]. eapply R_trans; [apply R_setline|exact H2].
    - eapply R_next; [exact HN|discriminate].
    - eapply R_next; [exact HN|discriminate].
  Qed.

  Lemma exec_all_lift fuel rules has_end u s :
    fin_R s (exec_all U step enter e fuel rules has_end u s).
  Proof.
    unfold exec_all.
    destruct (run U step e fuel (enter BBegin u) s) as [| |o u1 s1] eqn:HB; cbn; try exact I.
    apply run_lift in HB.
    destruct (negb (is_exit o || is_val o)). { cbn. exact HB. }
    destruct ((match rules with [] => true | _ :: _ => false end) && negb has_end). { cbn. exact HB. }
    assert (HM : match (if is_exit o then inr (u1, s1)
                 else match main_loop U step enter e fuel fuel rules (map (fun _ => false) rules) u1 s1 with
                      | LFuel => inl FFuel | LUnmod => inl FUnmod
                      | LCont u2 s2 _ => inr (u2, s2)
                      | LStop o2 u2 s2 => if is_exit o2 then inr (u2, s2) else inl (FErr u2 s2)
                      end) : fin U + (U * st) with
                 | inl x => fin_R s x
                 | inr (_, s2) => R s s2
                 end).
    { destruct (is_exit o). { exact HB. }
      pose proof (main_loop_lift fuel rules fuel (map (fun _ => false) rules) u1 s1) as HL.
      destruct (main_loop U step enter e fuel fuel rules (map (fun _ => false) rules) u1 s1) as [| |u2 s2 fl|o2 u2 s2]; cbn in *; try exact I.
      - eapply R_trans; eassumption.
      - destruct (is_exit o2); cbn; eapply R_trans; eassumption. }
    destruct (if is_exit o then inr (u1, s1)
              else match main_loop U step enter e fuel fuel rules (map (fun _ => false) rules) u1 s1 with
                   | LFuel => inl FFuel | LUnmod => inl FUnmod
                   | LCont u2 s2 _ => inr (u2, s2)
                   | LStop o2 u2 s2 => if is_exit o2 then inr (u2, s2) else inl (FErr u2 s2)
                   end) as [x|[u2 s2]].
    - exact HM.
    - destruct (negb has_end). { cbn. exact HM. }
      destruct (run U step e fuel (enter BEnd u2) s2) as [| |o3 u3 s3] eqn:HE; cbn; try exact I.
      apply run_lift in HE.
      destruct (is_exit o3 || is_val o3); cbn; eapply R_trans; eassumption.
  Qed.
End Lift.
