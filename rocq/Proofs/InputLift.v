(* C11: lifting a step invariant through p.execute, execActions and executeAll.
   Any reflexive-transitive relation on states that every primitive step respects
   is respected by the whole run of an arbitrary program. *)
From Verif Require Import Lib.Base Model.Input Proofs.Input.

Section Lift.
  Variable U : Type.
  Variable step : U -> st -> req * U.
  Variable enter : blk -> U -> U.
  Variable e : env.
  Variable R : st -> st -> Prop.
  Variable Q : req -> Prop.          (* the requests the program is allowed to make *)
  Hypothesis R_refl : forall s, R s s.
  Hypothesis R_trans : forall a b c, R a b -> R b c -> R a c.
  Hypothesis R_prim : forall r s s', Q r -> prim e r s = Some s' -> R s s'.
  Hypothesis R_exit : forall n s, R s (add_log (EvExit n) (set_status n s)).
  Hypothesis R_next : forall s res s', next_line e s = (res, s') -> res <> NLUnmod -> R s s'.
  Hypothesis R_drop : forall s, R s (drop_file s).
  Hypothesis R_setline : forall l s, R s (set_line e l s).
  Hypothesis R_out : forall o s, R s (add_out o s).
  Variable G : U -> Prop.            (* an invariant of the program's own state *)
  Hypothesis Hprog : forall u s, G u -> Q (fst (step u s)) /\ G (snd (step u s)).
  Hypothesis Henter : forall b u, G u -> G (enter b u).

  Lemma run_lift : forall fuel u s o u' s',
    G u -> run U step e fuel u s = ROk o u' s' -> R s s' /\ G u'.
  Proof.
    induction fuel as [|fuel IH]; intros u s o u' s' HG H; cbn [run] in H; [discriminate|].
    destruct (Hprog u s HG) as [HQ HG1].
    destruct (step u s) as [r u1]. cbn [fst snd] in HQ, HG1.
    destruct r as [o1| | | | | | | | | | |];
      try (destruct (prim e _ s) as [s1|] eqn:Hp; [|discriminate];
           apply IH in H; [|exact HG1]; destruct H as [H HG']; split; [|exact HG'];
           eapply R_trans; [eapply R_prim; eassumption|exact H]).
    destruct o1 as [b| | |[n|]|]; injection H as _ <- <-; (split; [|exact HG1]); try apply R_refl. apply R_exit.
  Qed.

  Definition lres_R (s : st) (x : lres U) : Prop :=
    match x with
    | LCont u' s' _ => R s s' /\ G u'
    | LStop _ u' s' => R s s' /\ G u'
    | _ => True
    end.

  Definition fin_R (s : st) (x : fin U) : Prop :=
    match x with
    | FOk u' s' => R s s' /\ G u'
    | FErr u' s' => R s s' /\ G u'
    | _ => True
    end.

  Definition pres_R (s : st) (x : pres U) : Prop :=
    match x with
    | PStop _ u1 s1 => R s s1 /\ G u1
    | PSkip _ u1 s1 => R s s1 /\ G u1
    | PVal _ _ u1 s1 => R s s1 /\ G u1
    | _ => True
    end.

  Lemma pres_R_trans s s1 x : R s s1 -> pres_R s1 x -> pres_R s x.
  Proof. intros H. destruct x; cbn; try tauto; intros [H2 HG]; (split; [eapply R_trans; eassumption|exact HG]). Qed.

  Lemma run_pat_lift fuel b fcur u s k : G u ->
    (forall v u1 s1, G u1 -> pres_R s1 (k v u1 s1)) ->
    pres_R s (run_pat U step enter e fuel b fcur u s k).
  Proof.
    intros HG Hk. unfold run_pat.
    destruct (run U step e fuel (enter b u) s) as [| |o u1 s1] eqn:H1; cbn; try exact I.
    apply run_lift in H1; [|apply Henter; exact HG]. destruct H1 as [H1 HG1].
    destruct o as [v| | |n|]; cbn; try (split; assumption).
    - eapply pres_R_trans; [exact H1|apply Hk; exact HG1].
    - split; [eapply R_trans; [exact H1|apply R_drop]|exact HG1].
  Qed.

  Lemma eval_pat_lift fuel r i f u s : G u -> pres_R s (eval_pat U step enter e fuel r i f u s).
  Proof.
    intros HG. unfold eval_pat.
    assert (Hstop : forall u1 s1, G u1 ->
              pres_R s1 (run_pat U step enter e fuel (BPat i true) true u1 s1 (fun b u2 s2 => PVal true (negb b) u2 s2))).
    { intros u1 s1 HG1. apply run_pat_lift; [exact HG1|]. intros v u2 s2 HG2. cbn. split; [apply R_refl|exact HG2]. }
    destruct (rk r).
    - cbn. split; [apply R_refl|exact HG].
    - apply run_pat_lift; [exact HG|]. intros v u1 s1 HG1. cbn. split; [apply R_refl|exact HG1].
    - destruct f; [apply Hstop; exact HG|].
      apply run_pat_lift; [exact HG|]. intros v u1 s1 HG1.
      destruct v; [apply Hstop; exact HG1|]. cbn. split; [apply R_refl|exact HG1].
  Qed.

  Lemma lres_R_trans s s1 x : R s s1 -> lres_R s1 x -> lres_R s x.
  Proof. intros H. destruct x; cbn; try tauto; intros [H2 HG]; (split; [eapply R_trans; eassumption|exact HG]). Qed.

  Lemma exec_rules_lift fuel : forall rules i done fl u s, G u ->
    lres_R s (exec_rules U step enter e fuel rules i done fl u s).
  Proof.
    induction rules as [|r rules IH]; intros i done fl u s HG; cbn [exec_rules].
    - cbn. split; [apply R_refl|exact HG].
    - destruct fl as [|f fl']. { cbn. split; [apply R_refl|exact HG]. }
      pose proof (eval_pat_lift fuel r i f u s HG) as HP.
      destruct (eval_pat U step enter e fuel r i f u s) as [| |o u1 s1|f' u1 s1|m f' u1 s1]; cbn in *; try exact I; try exact HP.
      + destruct HP as [HP HG1].
        destruct (negb m). { eapply lres_R_trans; [exact HP|apply IH; exact HG1]. }
        destruct (negb (has_body r)).
        { eapply lres_R_trans; [exact HP|]. eapply lres_R_trans; [apply R_out|apply IH; exact HG1]. }
        destruct (run U step e fuel (enter (BBody i) u1) s1) as [| |o u2 s2] eqn:H2; cbn; try exact I.
        apply run_lift in H2; [|apply Henter; exact HG1]. destruct H2 as [H2 HG2].
        destruct o as [b| | |n|].
        * eapply lres_R_trans; [eapply R_trans; eassumption|apply IH; exact HG2].
        * cbn. split; [eapply R_trans; eassumption|exact HG2].
        * cbn. split; [eapply R_trans; [eapply R_trans; eassumption|apply R_drop]|exact HG2].
        * cbn. split; [eapply R_trans; eassumption|exact HG2].
        * cbn. split; [eapply R_trans; eassumption|exact HG2].
  Qed.

  Lemma main_loop_lift fuel rules : forall n flags u s, G u ->
    lres_R s (main_loop U step enter e fuel n rules flags u s).
  Proof.
    induction n as [|n IH]; intros flags u s HG; cbn [main_loop]; [exact I|].
    destruct (next_line e s) as [res s1] eqn:HN.
    destruct res as [r| | | |]; cbn; try exact I.
    - assert (H1 : R s s1) by (eapply R_next; [exact HN|discriminate]).
      pose proof (exec_rules_lift fuel rules 0 [] flags u (set_line e r s1) HG) as H2.
      destruct (exec_rules U step enter e fuel rules 0 [] flags u (set_line e r s1)) as [| |u' s' fl'|o u' s']; cbn in *; try exact I.
      + destruct H2 as [H2 HG2]. eapply lres_R_trans; [|apply IH; exact HG2].
        eapply R_trans; [exact H1|]. eapply R_trans; [apply R_setline|exact H2].
      + destruct H2 as [H2 HG2]. split; [|exact HG2].
        eapply R_trans; [exact H1|]. eapply R_trans; [apply R_setline|exact H2].
    - split; [|exact HG]. eapply R_next; [exact HN|discriminate].
    - split; [|exact HG]. eapply R_next; [exact HN|discriminate].
  Qed.

  Lemma exec_all_lift fuel rules has_end u s : G u ->
    fin_R s (exec_all U step enter e fuel rules has_end u s).
  Proof.
    intros HG. unfold exec_all.
    destruct (run U step e fuel (enter BBegin u) s) as [| |o u1 s1] eqn:HB; cbn; try exact I.
    apply run_lift in HB; [|apply Henter; exact HG]. destruct HB as [HB HG1].
    destruct (negb (is_exit o || is_val o)). { cbn. split; assumption. }
    destruct ((match rules with [] => true | _ :: _ => false end) && negb has_end). { cbn. split; assumption. }
    assert (HM : match (if is_exit o then inr (u1, s1)
                 else match main_loop U step enter e fuel fuel rules (map (fun _ => false) rules) u1 s1 with
                      | LFuel => inl FFuel | LUnmod => inl FUnmod
                      | LCont u2 s2 _ => inr (u2, s2)
                      | LStop o2 u2 s2 => if is_exit o2 then inr (u2, s2) else inl (FErr u2 s2)
                      end) : fin U + (U * st) with
                 | inl x => fin_R s x
                 | inr (u2, s2) => R s s2 /\ G u2
                 end).
    { destruct (is_exit o). { split; assumption. }
      pose proof (main_loop_lift fuel rules fuel (map (fun _ => false) rules) u1 s1 HG1) as HL.
      destruct (main_loop U step enter e fuel fuel rules (map (fun _ => false) rules) u1 s1) as [| |u2 s2 fl|o2 u2 s2]; cbn in *; try exact I.
      - destruct HL as [HL HG2]. split; [eapply R_trans; eassumption|exact HG2].
      - destruct HL as [HL HG2]. destruct (is_exit o2); cbn; (split; [eapply R_trans; eassumption|exact HG2]). }
    destruct (if is_exit o then inr (u1, s1)
              else match main_loop U step enter e fuel fuel rules (map (fun _ => false) rules) u1 s1 with
                   | LFuel => inl FFuel | LUnmod => inl FUnmod
                   | LCont u2 s2 _ => inr (u2, s2)
                   | LStop o2 u2 s2 => if is_exit o2 then inr (u2, s2) else inl (FErr u2 s2)
                   end) as [x|[u2 s2]].
    - exact HM.
    - destruct HM as [HM HG2]. destruct (negb has_end). { cbn. split; assumption. }
      destruct (run U step e fuel (enter BEnd u2) s2) as [| |o3 u3 s3] eqn:HE; cbn; try exact I.
      apply run_lift in HE; [|apply Henter; exact HG2]. destruct HE as [HE HG3].
      destruct (is_exit o3 || is_val o3); cbn; (split; [eapply R_trans; eassumption|exact HG3]).
  Qed.
End Lift.
