(* C10, regex builtins: match / sub / gsub / split obey their defining equations, for EVERY
   regex engine [ff] (= re.doExecute of one compiled regex) that satisfies the hypotheses
   stated in the Section: matches lie inside the searched part of the text, and a match
   that reaches beyond the search position reaches at least past the first character
   there.  Proofs/BuiltinsEngine.v discharges them for the executable engine Lib/Regex. *)
From Verif Require Import Lib.Base Lib.Dyadic Lib.Utf8 Lib.Regex Model.Builtins Model.BuiltinsRegex
  Proofs.BuiltinsBytes Proofs.BuiltinsUtf8.

(* ---- specification vocabulary ------------------------------------------------ *)
(* s[a:b] as a total function *)
Definition sub_str (s : bytes) (a b : Z) : bytes := ztake (b - a) (zdrop a s).

(* the text with the listed (ordered, non-overlapping) matches replaced by g(match),
   starting to copy at offset [last] *)
Fixpoint weave (s : bytes) (g : bytes -> bytes) (ms : list (Z * Z)) (last : Z) : bytes :=
  match ms with
  | [] => zdrop last s
  | (a, b) :: ms' => sub_str s last a ++ g (sub_str s a b) ++ weave s g ms' b
  end.

(* the same with a closure that threads a counter (what ReplaceAllStringFunc does with
   the closure of functions.go sub) *)
Fixpoint weave_st (s : bytes) (f : Z -> bytes -> bytes * Z) (ms : list (Z * Z)) (last count : Z) : bytes * Z :=
  match ms with
  | [] => (zdrop last s, count)
  | (a, b) :: ms' =>
      let rc := f count (sub_str s a b) in
      let out := weave_st s f ms' b (snd rc) in
      (sub_str s last a ++ fst rc ++ fst out, snd out)
  end.

(* ordered, non-overlapping, inside [lo, hi] *)
Fixpoint sorted_in (lo hi : Z) (ms : list (Z * Z)) : Prop :=
  match ms with
  | [] => True
  | (a, b) :: ms' => lo <= a /\ a <= b /\ b <= hi /\ sorted_in b hi ms'
  end.

(* a and b are offsets at which `for range s` stops (or len s), a before b *)
Definition on_rune_boundaries (s : bytes) (a b : Z) : Prop :=
  exists ka kb, 0 <= ka /\ ka <= kb /\ kb <= zlen (runes s) /\
    a = zlen (concat (ztake ka (runes s))) /\ b = zlen (concat (ztake kb (runes s))).

(* the two hypotheses on a regex engine, as named predicates (used to state the theorems
   after the Section is closed) *)
Definition engine_bounds (ff : bytes -> Z -> option (Z * Z)) : Prop :=
  forall s pos a b, 0 <= pos <= zlen s -> ff s pos = Some (a, b) -> pos <= a /\ a <= b /\ b <= zlen s.
Definition engine_step (ff : bytes -> Z -> option (Z * Z)) : Prop :=
  forall s pos a b, 0 <= pos <= zlen s -> ff s pos = Some (a, b) -> b <> pos ->
    pos + snd (decode_rune (zdrop pos s)) <= b.

(* ---- helpers ------------------------------------------------------------------- *)
Lemma slice_sub_str s a b : 0 <= a -> a <= b -> b <= zlen s -> slice s a b = Ok (sub_str s a b).
Proof. intros. unfold sub_str. apply slice_ok; assumption. Qed.

Lemma zdrop_zdrop {A} a b (l : list A) : 0 <= a -> 0 <= b -> zdrop a (zdrop b l) = zdrop (a + b) l.
Proof.
  intros Ha Hb. unfold zdrop. replace (Z.to_nat (a + b)) with (Z.to_nat b + Z.to_nat a)%nat by lia.
  generalize (Z.to_nat a) as n. generalize (Z.to_nat b) as m. intros m. revert l.
  induction m as [|m IH]; intros l n; [reflexivity|].
  destruct l as [|x l]; cbn [skipn Nat.add]; [apply skipn_nil|apply IH].
Qed.

Lemma sub_str_app_drop s lo mid : 0 <= lo -> lo <= mid -> sub_str s lo mid ++ zdrop mid s = zdrop lo s.
Proof.
  intros H0 H1. unfold sub_str. replace mid with ((mid - lo) + lo) at 2 by lia.
  rewrite <- zdrop_zdrop by lia. apply ztake_zdrop.
Qed.

Lemma sub_str_empty s a : sub_str s a a = [].
Proof. unfold sub_str. rewrite Z.sub_diag. reflexivity. Qed.

Lemma float_to_int_of_Z z : - two63 < z < two63 -> float_to_int (FFin z 0) = z.
Proof.
  intros H. rewrite float_to_int_fin. cbn zeta. rewrite ftrunc_spec_nonneg_exp by lia.
  unfold maxint, minint. change (2 ^ 0) with 1. lia.
Qed.

Lemma ztake_add {A} n m (l : list A) : 0 <= n -> 0 <= m -> ztake (n + m) l = ztake n l ++ ztake m (zdrop n l).
Proof.
  intros Hn Hm. unfold ztake, zdrop. rewrite Z2Nat.inj_add by lia.
  generalize (Z.to_nat n) as k. intros k. revert l. induction k as [|k IH]; intros l; [reflexivity|].
  destruct l as [|x l]; cbn [Nat.add firstn skipn app].
  - rewrite firstn_nil. reflexivity.
  - f_equal. apply IH.
Qed.

Lemma decode_width_nil_iff s pos : 0 <= pos <= zlen s ->
  let w := snd (decode_rune (zdrop pos s)) in
  (pos < zlen s -> 1 <= w /\ pos + w <= zlen s) /\ (pos = zlen s -> w = 0).
Proof.
  intros Hp w. split.
  - intros Hlt. assert (zdrop pos s <> []) as Hne.
    { intros Hc. pose proof (zlen_zdrop pos s Hp) as Hz. rewrite Hc, zlen_nil in Hz. lia. }
    pose proof (decode_rune_width _ Hne) as Hw. rewrite zlen_zdrop in Hw by lia. unfold w. lia.
  - intros ->. unfold w. rewrite zdrop_all by lia. reflexivity.
Qed.

Section EngineThms.
  Variable ff : bytes -> Z -> option (Z * Z).

  (* a match found when searching from pos lies between pos and the end of the text *)
  Hypothesis ff_bounds : forall s pos a b,
    0 <= pos <= zlen s -> ff s pos = Some (a, b) -> pos <= a /\ a <= b /\ b <= zlen s.

  (* ---- match ------------------------------------------------------------------- *)
  Theorem match_none chars s : ff s 0 = None -> builtin_match ff chars s = Ok (0, -1).
  Proof. intros H. unfold builtin_match. rewrite H. reflexivity. Qed.

  (* substr(s, RSTART, RLENGTH) is the match, in both modes *)
  Theorem match_substr chars s a b :
    go_len s -> ff s 0 = Some (a, b) -> (chars = true -> on_rune_boundaries s a b) ->
    exists rstart rlength,
      builtin_match ff chars s = Ok (rstart, rlength) /\
      (if chars then substr_len_chars else substr_len_bytes) s (FFin rstart 0) (FFin rlength 0)
        = Ok (sub_str s a b) /\
      slice s a b = Ok (sub_str s a b).
  Proof.
    intros Hlen Hf Hbd. pose proof (zlen_nonneg s) as Hl.
    destruct (ff_bounds s 0 a b ltac:(lia) Hf) as (H0 & H1 & H2).
    unfold go_len, maxint in Hlen. pose proof two63_pos as H63.
    unfold builtin_match. rewrite Hf. destruct chars.
    - destruct (Hbd eq_refl) as (ka & kb & Hka & Hkab & Hkb & Ha & Hb).
      set (R := runes s) in *.
      rewrite (slice_sub_str s 0 a) by lia. rewrite (slice_sub_str s a b) by lia. cbn [rbind].
      assert (Hpre : sub_str s 0 a = concat (ztake ka R)).
      { unfold sub_str. rewrite zdrop_0, Z.sub_0_r, Ha. rewrite <- (runes_concat s) at 1. fold R. apply ztake_concat_chunks. }
      assert (Hda : zdrop a s = concat (zdrop ka R)).
      { rewrite Ha. rewrite <- (runes_concat s) at 1. fold R. apply zdrop_concat_chunks. }
      assert (Hsplit : ztake kb R = ztake ka R ++ ztake (kb - ka) (zdrop ka R)).
      { replace kb with (ka + (kb - ka)) at 1 by lia. apply ztake_add; lia. }
      assert (Hba : b - a = zlen (concat (ztake (kb - ka) (zdrop ka R)))).
      { rewrite Hb, Ha, Hsplit, zlen_concat_app. lia. }
      assert (Hm : sub_str s a b = concat (ztake (kb - ka) (zdrop ka R))).
      { unfold sub_str. rewrite Hda, Hba. apply ztake_concat_chunks. }
      assert (Hrc1 : rune_count (sub_str s 0 a) = ka).
      { rewrite Hpre. unfold rune_count. replace (ztake ka R) with (ztake ka (zdrop 0 R)) by reflexivity.
        unfold R. rewrite runes_ztake_zdrop_chunks. rewrite zdrop_0. apply zlen_ztake. fold R. lia. }
      assert (Hrc2 : rune_count (sub_str s a b) = kb - ka).
      { rewrite Hm. unfold rune_count, R. rewrite runes_ztake_zdrop_chunks. fold R.
        apply zlen_ztake. rewrite zlen_zdrop by lia. lia. }
      rewrite Hrc1, Hrc2. eexists _, _. split; [reflexivity|]. split; [|reflexivity].
      pose proof (rune_count_le s) as Hrl. unfold rune_count in Hrl. fold R in Hrl.
      unfold substr_len_chars. rewrite !float_to_int_of_Z by lia.
      rewrite substr_len_chars_pl_spec. fold R. rewrite Hm.
      replace (Z.max 1 (ka + 1) - 1) with ka by lia. rewrite Z.max_r by lia. reflexivity.
    - eexists _, _. split; [reflexivity|]. split; [|apply slice_sub_str; lia].
      rewrite substr_len_bytes_Z. rewrite !float_to_int_of_Z by lia.
      unfold sub_str. replace (Z.max 1 (a + 1) - 1) with a by lia. rewrite Z.max_r by lia. reflexivity.
  Qed.

  (* on ASCII text RSTART and RLENGTH are the same in both modes *)
  Theorem ascii_match s : is_ascii s = true -> builtin_match ff true s = builtin_match ff false s.
  Proof.
    intros Ha. unfold builtin_match. destruct (ff s 0) as [[a b]|] eqn:Hf; [|reflexivity].
    pose proof (zlen_nonneg s) as Hl.
    destruct (ff_bounds s 0 a b ltac:(lia) Hf) as (H0 & H1 & H2).
    rewrite (slice_sub_str s 0 a) by lia. rewrite (slice_sub_str s a b) by lia. cbn [rbind].
    unfold sub_str. rewrite !rune_count_ascii by (apply is_ascii_ztake, is_ascii_zdrop, Ha).
    rewrite zdrop_0, !zlen_ztake; [rewrite Z.sub_0_r; reflexivity| |lia]. rewrite zlen_zdrop by lia. lia.
  Qed.

  (* ---- FindAllStringIndex: ordered, non-overlapping, inside the text -------------- *)
  Lemma sorted_in_weaken lo lo' hi ms : lo' <= lo -> sorted_in lo hi ms -> sorted_in lo' hi ms.
  Proof. destruct ms as [|[a b] ms]; cbn [sorted_in]; [auto|]. intros; intuition lia. Qed.

  Lemma all_matches_loop_sorted fuel s : forall pos pe,
    0 <= pos -> sorted_in pos (zlen s) (all_matches_loop ff fuel s pos pe).
  Proof.
    induction fuel as [|f IH]; intros pos pe Hp; cbn [all_matches_loop]; [exact I|].
    destruct (pos >? zlen s) eqn:Eg; [exact I|].
    assert (pos <= zlen s) as Hle by (destruct (Z.gtb_spec pos (zlen s)); [discriminate|lia]).
    destruct (ff s pos) as [[a b]|] eqn:Ef; [|exact I].
    destruct (ff_bounds s pos a b ltac:(lia) Ef) as (H1 & H2 & H3).
    set (pos' := if b =? pos
                 then (if snd (decode_rune (zdrop pos s)) >? 0 then pos + snd (decode_rune (zdrop pos s)) else zlen s + 1)
                 else b).
    assert (b <= pos') as Hb.
    { unfold pos'. destruct (b =? pos) eqn:E; [|lia]. apply Z.eqb_eq in E.
      destruct (snd (decode_rune (zdrop pos s)) >? 0) eqn:Ew; [|lia].
      destruct (Z.gtb_spec (snd (decode_rune (zdrop pos s))) 0); [lia|discriminate]. }
    pose proof (IH pos' b ltac:(lia)) as Hrest.
    destruct (negb ((b =? pos) && (a =? pe))).
    - cbn [sorted_in]. repeat split; try lia.
      exact (sorted_in_weaken _ _ _ _ Hb Hrest).
    - apply (sorted_in_weaken pos'); [lia|exact Hrest].
  Qed.

  Theorem all_matches_gen_sorted s : sorted_in 0 (zlen s) (all_matches_gen ff s).
  Proof. apply all_matches_loop_sorted. lia. Qed.

  (* ---- replaceAll visits exactly the matches of allMatches ------------------------- *)
  (* a match that is not the empty match at the search position ends at or after the end
     of the first character at the search position *)
  Hypothesis ff_step : forall s pos a b,
    0 <= pos <= zlen s -> ff s pos = Some (a, b) -> b <> pos ->
    pos + snd (decode_rune (zdrop pos s)) <= b.

  (* the two loops advance to the same next search position *)
  Lemma next_pos_eq s sp a b :
    0 <= sp <= zlen s -> ff s sp = Some (a, b) ->
    let w := snd (decode_rune (zdrop sp s)) in
    let sp_ra := if sp + w >? b then sp + w else if sp + 1 >? b then sp + 1 else b in
    let sp_am := if b =? sp then (if w >? 0 then sp + w else zlen s + 1) else b in
    sp_ra = sp_am /\ sp + 1 <= sp_ra /\ b <= sp_ra /\ sp_ra <= zlen s + 1.
  Proof.
    intros Hsp Hf w sp_ra sp_am.
    destruct (ff_bounds s sp a b Hsp Hf) as (H1 & H2 & H3).
    destruct (decode_width_nil_iff s sp Hsp) as [Hw1 Hw0]. fold w in Hw1, Hw0.
    pose proof (ff_step s sp a b Hsp Hf) as Hst. fold w in Hst.
    unfold sp_ra, sp_am.
    destruct (b =? sp) eqn:Eb; [apply Z.eqb_eq in Eb|apply Z.eqb_neq in Eb].
    - subst b. destruct (Z.eq_dec sp (zlen s)) as [He|Hne].
      + rewrite (Hw0 He). rewrite Z.add_0_r.
        destruct (sp >? sp) eqn:E1; [apply Z.gtb_lt in E1; lia|].
        destruct (sp + 1 >? sp) eqn:E2; [|rewrite Z.gtb_ltb in E2; apply Z.ltb_ge in E2; lia].
        change (0 >? 0) with false. cbv iota. lia.
      + destruct (Hw1 ltac:(lia)) as [Hw Hwl].
        destruct (sp + w >? sp) eqn:E1; [|rewrite Z.gtb_ltb in E1; apply Z.ltb_ge in E1; lia].
        destruct (w >? 0) eqn:E2; [|rewrite Z.gtb_ltb in E2; apply Z.ltb_ge in E2; lia]. lia.
    - specialize (Hst Eb).
      assert (sp < zlen s) as Hlt by lia. destruct (Hw1 Hlt) as [Hw Hwl].
      destruct (sp + w >? b) eqn:E1; [apply Z.gtb_lt in E1; lia|].
      destruct (sp + 1 >? b) eqn:E2; [apply Z.gtb_lt in E2; lia|]. lia.
  Qed.

  (* loop invariant relating (searchPos, lastMatchEnd) of replaceAll to (pos, prevMatchEnd) of allMatches *)
  Definition ra_inv (s : bytes) (sp lme pe : Z) : Prop :=
    0 <= lme /\ lme <= sp /\ lme <= zlen s /\ sp <= zlen s + 1 /\
    ((pe = lme /\ 1 <= sp) \/ (sp = 0 /\ lme = 0 /\ pe = -1)).

  (* ... and replace exactly when allMatches accepts *)
  Lemma accept_eq s sp lme pe a b :
    ra_inv s sp lme pe -> sp <= a -> a <= b ->
    ((b >? lme) || (a =? 0)) = negb ((b =? sp) && (a =? pe)).
  Proof.
    intros (H0 & H1 & H2 & H3 & Hc) Ha Hb.
    destruct (Z.gtb_spec b lme), (Z.eqb_spec a 0), (Z.eqb_spec b sp), (Z.eqb_spec a pe);
      cbn [orb andb negb]; try reflexivity; exfalso; lia.
  Qed.

  Theorem replace_loop_weave s f : forall fuel sp lme pe count,
    ra_inv s sp lme pe -> zlen s + 2 - sp <= Z.of_nat fuel ->
    replace_loop ff fuel s f sp lme count =
    Ok (weave_st s f (all_matches_loop ff fuel s sp pe) lme count).
  Proof.
    induction fuel as [|fu IH]; intros sp lme pe count Hinv Hfuel.
    { destruct Hinv as (H0 & H1 & H2 & H3 & _). lia. }
    pose proof Hinv as (H0 & H1 & H2 & H3 & Hc).
    cbn [replace_loop all_matches_loop].
    destruct (sp >? zlen s) eqn:Eg.
    { rewrite slice_to_end by lia. reflexivity. }
    rewrite Z.gtb_ltb in Eg. apply Z.ltb_ge in Eg.
    destruct (ff s sp) as [[a b]|] eqn:Hf.
    2:{ rewrite slice_to_end by lia. reflexivity. }
    destruct (ff_bounds s sp a b ltac:(lia) Hf) as (B1 & B2 & B3).
    rewrite (slice_sub_str s lme a) by lia. cbn [rbind].
    rewrite (slice_to_end s sp) by lia.
    destruct (next_pos_eq s sp a b ltac:(lia) Hf) as (Hnp & Hn1 & Hn2 & Hn3). cbn zeta in Hnp, Hn1, Hn2, Hn3.
    rewrite (accept_eq s sp lme pe a b Hinv B1 B2).
    set (w := snd (decode_rune (zdrop sp s))) in *.
    set (sp_ra := if sp + w >? b then sp + w else if sp + 1 >? b then sp + 1 else b) in *.
    rewrite <- Hnp.
    assert (Hinv' : ra_inv s sp_ra b b) by (unfold ra_inv; repeat split; try lia; left; split; lia).
    destruct (negb ((b =? sp) && (a =? pe))) eqn:Eacc.
    - rewrite (slice_sub_str s a b) by lia. cbn [rbind fst snd]. fold w. fold sp_ra.
      rewrite (IH sp_ra b b (snd (f count (sub_str s a b))) Hinv' ltac:(lia)). cbn [rbind weave_st]. reflexivity.
    - cbn [rbind fst snd]. fold w. fold sp_ra.
      rewrite (IH sp_ra b b count Hinv' ltac:(lia)). cbn [rbind].
      (* rejected: the empty match at lastMatchEnd *)
      apply negb_false_iff, andb_true_iff in Eacc as [E3 E4]. apply Z.eqb_eq in E3. apply Z.eqb_eq in E4.
      assert (a = lme /\ b = lme) as [-> ->].
      { destruct Hc as [[Hpe _]|(Hs0 & _ & Hpe)]; lia. }
      rewrite sub_str_empty. cbn [app].
      destruct (weave_st s f (all_matches_loop ff fu s sp_ra lme) lme count); reflexivity.
  Qed.

  (* ReplaceAllStringFunc(src, f) = splice f over FindAllStringIndex(src, -1), calls in order *)
  Theorem replace_all_weave s f :
    replace_all ff s f = Ok (weave_st s f (all_matches_gen ff s) 0 0).
  Proof.
    unfold replace_all, all_matches_gen. apply replace_loop_weave.
    - unfold ra_inv. pose proof (zlen_nonneg s). repeat split; lia.
    - unfold zlen. lia.
  Qed.

  (* ---- what the closure of functions.go sub does over a list of matches ------------ *)
  Lemma weave_id s : forall ms last,
    0 <= last -> sorted_in last (zlen s) ms -> weave s (fun m => m) ms last = zdrop last s.
  Proof.
    induction ms as [|[a b] ms IH]; intros last H0 Hs; cbn [weave]; [reflexivity|].
    cbn [sorted_in] in Hs. destruct Hs as (H1 & H2 & H3 & Hs).
    rewrite IH by (try lia; exact Hs).
    rewrite (sub_str_app_drop s a b) by lia. apply sub_str_app_drop; lia.
  Qed.

  Lemma sub_closure_true repl c m : sub_closure true repl c m = (expand_repl repl m, c + 1).
  Proof. reflexivity. Qed.

  Lemma sub_closure_false_done repl c m : 0 < c -> sub_closure false repl c m = (m, c).
  Proof.
    intros H. unfold sub_closure. cbn [negb andb].
    destruct (c >? 0) eqn:E; [reflexivity|rewrite Z.gtb_ltb in E; apply Z.ltb_ge in E; lia].
  Qed.

  Lemma sub_closure_false_first repl m : sub_closure false repl 0 m = (expand_repl repl m, 1).
  Proof. reflexivity. Qed.

  Lemma weave_st_gsub s repl : forall ms last count,
    weave_st s (sub_closure true repl) ms last count =
    (weave s (expand_repl repl) ms last, count + zlen ms).
  Proof.
    induction ms as [|[a b] ms IH]; intros last count; cbn [weave_st weave].
    - rewrite zlen_nil, Z.add_0_r. reflexivity.
    - rewrite !sub_closure_true. cbn [fst snd]. rewrite IH. cbn [fst snd].
      rewrite zlen_cons. f_equal. lia.
  Qed.

  Lemma weave_st_sub_done s repl : forall ms last count,
    0 < count -> 0 <= last -> sorted_in last (zlen s) ms ->
    weave_st s (sub_closure false repl) ms last count = (zdrop last s, count).
  Proof.
    induction ms as [|[a b] ms IH]; intros last count Hc H0 Hs; cbn [weave_st]; [reflexivity|].
    cbn [sorted_in] in Hs. destruct Hs as (H1 & H2 & H3 & Hs).
    rewrite !sub_closure_false_done by lia.
    cbn [fst snd]. rewrite IH by (try lia; exact Hs). cbn [fst snd].
    rewrite (sub_str_app_drop s a b) by lia. rewrite sub_str_app_drop by lia. reflexivity.
  Qed.

  Lemma weave_st_sub s repl ms last :
    0 <= last -> sorted_in last (zlen s) ms ->
    weave_st s (sub_closure false repl) ms last 0 =
    (weave s (expand_repl repl) (firstn 1 ms) last, Z.min 1 (zlen ms)).
  Proof.
    intros H0 Hs. destruct ms as [|[a b] ms]; cbn [weave_st firstn weave]; [reflexivity|].
    cbn [sorted_in] in Hs. destruct Hs as (H1 & H2 & H3 & Hs).
    rewrite !sub_closure_false_first. cbn [fst snd].
    rewrite weave_st_sub_done by (try lia; exact Hs). cbn [fst snd].
    rewrite zlen_cons. pose proof (zlen_nonneg ms). f_equal. lia.
  Qed.

  (* gsub replaces every match that FindAllStringIndex reports and returns their number *)
  Theorem gsub_spec repl s :
    builtin_sub ff true repl s =
    Ok (weave s (expand_repl repl) (all_matches_gen ff s) 0, zlen (all_matches_gen ff s)).
  Proof.
    unfold builtin_sub. rewrite replace_all_weave, weave_st_gsub. reflexivity.
  Qed.

  (* sub performs exactly the first of gsub's replacements *)
  Theorem sub_is_first_of_gsub repl s :
    builtin_sub ff false repl s =
    Ok (weave s (expand_repl repl) (firstn 1 (all_matches_gen ff s)) 0,
        Z.min 1 (zlen (all_matches_gen ff s))).
  Proof.
    unfold builtin_sub. rewrite replace_all_weave, weave_st_sub; [reflexivity|lia|].
    apply all_matches_gen_sorted.
  Qed.

  (* gsub(r, "&", t) leaves t unchanged and returns the number of matches *)
  Theorem gsub_amp_identity s :
    builtin_sub ff true [38] s = Ok (s, zlen (all_matches_gen ff s)).
  Proof.
    rewrite gsub_spec. f_equal. f_equal.
    assert (forall ms last, weave s (expand_repl [38]) ms last = weave s (fun m => m) ms last) as Hw.
    { induction ms as [|[a b] ms IH]; intros last; cbn [weave]; [reflexivity|].
      rewrite IH. cbn [expand_repl]. rewrite app_nil_r. reflexivity. }
    rewrite Hw, weave_id; [apply zdrop_0|lia|apply all_matches_gen_sorted].
  Qed.
End EngineThms.

(* regexp.Split never slices out of range (given ordered matches inside the text) *)
Lemma re_split_loop_ok s : forall ms beg e,
  0 <= beg -> beg <= zlen s -> sorted_in beg (zlen s) ms -> exists l, re_split_loop s ms beg e = Ok l.
Proof.
  induction ms as [|[a b] ms IH]; intros beg e H0 H1 Hs; cbn [re_split_loop].
  - destruct (e =? zlen s); [eexists; reflexivity|]. rewrite slice_to_end by lia. eexists; reflexivity.
  - cbn [sorted_in] in Hs. destruct Hs as (Ha & Hab & Hb & Hs).
    destruct (b =? 0) eqn:E.
    + apply IH; try lia. exact Hs.
    + rewrite slice_ok by lia. cbn [rbind]. destruct (IH b a ltac:(lia) Hb Hs) as [l Hl].
      rewrite Hl. eexists; reflexivity.
Qed.

Theorem re_split_no_panic ff :
  (forall s pos a b, 0 <= pos <= zlen s -> ff s pos = Some (a, b) -> pos <= a /\ a <= b /\ b <= zlen s) ->
  forall e s, exists l, re_split ff e s = Ok l.
Proof.
  intros Hb e s. unfold re_split. destruct (e && is_nil s); [eexists; reflexivity|].
  apply re_split_loop_ok; [lia|apply zlen_nonneg|]. apply all_matches_gen_sorted. exact Hb.
Qed.

(* ---- the replacement string ------------------------------------------------------ *)
(* & is the matched text, \& a literal ampersand, \\ a backslash; every other byte, every
   other backslash pair and a trailing backslash stand for themselves *)
Theorem amp_expansion m r :
  expand_repl (38 :: r) m = m ++ expand_repl r m /\
  expand_repl (92 :: 38 :: r) m = 38 :: expand_repl r m /\
  expand_repl (92 :: 92 :: r) m = 92 :: expand_repl r m /\
  (forall c, c <> 38 -> c <> 92 -> expand_repl (c :: r) m = c :: expand_repl r m) /\
  (forall c, c <> 38 -> c <> 92 -> expand_repl (92 :: c :: r) m = 92 :: c :: expand_repl r m) /\
  expand_repl [92] m = [92] /\
  expand_repl [] m = [].
Proof.
  repeat split; try reflexivity.
  - intros c H1 H2. destruct c as [|p|p]; try reflexivity.
    repeat (destruct p as [p|p|]; try reflexivity); congruence.
  - intros c H1 H2. destruct c as [|p|p]; try reflexivity.
    repeat (destruct p as [p|p|]; try reflexivity); congruence.
Qed.

(* ---- split ------------------------------------------------------------------------ *)
Lemma join_nil l : join [] l = concat l.
Proof.
  induction l as [|a l IH]; [reflexivity|]. destruct l as [|b l].
  - cbn [join concat]. rewrite app_nil_r. reflexivity.
  - change (join [] (a :: b :: l)) with (a ++ [] ++ join [] (b :: l)). rewrite IH. reflexivity.
Qed.

Lemma join_cons sep a l : l <> [] -> join sep (a :: l) = a ++ sep ++ join sep l.
Proof. destruct l; [congruence|reflexivity]. Qed.

Lemma split_walk_nonempty sep : forall s k cur, split_walk sep s k cur <> [].
Proof.
  induction s as [|c s IH]; intros k cur; cbn [split_walk]; [discriminate|].
  destruct k; [|apply IH]. destruct (is_prefix sep (c :: s)); [discriminate|apply IH].
Qed.

Lemma split_walk_skip sep : forall x r cur, split_walk sep (x ++ r) (length x) cur = split_walk sep r O cur.
Proof. induction x as [|c x IH]; intros r cur; [reflexivity|]. cbn [app length split_walk]. apply IH. Qed.

Lemma split_walk_join sep : sep <> [] -> forall n s cur,
  (length s <= n)%nat -> join sep (split_walk sep s O cur) = cur ++ s.
Proof.
  intros Hsep. induction n as [|n IH]; intros s cur Hl.
  - destruct s; [|cbn [length] in Hl; lia]. cbn [split_walk join]. rewrite app_nil_r. reflexivity.
  - destruct s as [|c s]; [cbn [split_walk join]; rewrite app_nil_r; reflexivity|].
    cbn [split_walk]. destruct (is_prefix sep (c :: s)) eqn:E.
    + apply is_prefix_app in E as [r Hr]. destruct sep as [|x0 sep']; [congruence|].
      cbn [app] in Hr. injection Hr as -> ->.
      replace (length (x0 :: sep') - 1)%nat with (length sep') by (cbn [length]; lia). rewrite split_walk_skip.
      rewrite join_cons by apply split_walk_nonempty.
      rewrite IH.
      * reflexivity.
      * cbn [length] in Hl. rewrite app_length in Hl. lia.
    + rewrite IH by (cbn [length] in Hl; lia). rewrite <- app_assoc. reflexivity.
Qed.

(* strings.Split followed by strings.Join with the same separator is the identity, for
   every separator (the empty one explodes into characters) *)
Theorem strings_split_join s sep : join sep (strings_split s sep) = s.
Proof.
  unfold strings_split. destruct sep as [|x sep]; cbn [is_nil].
  - rewrite join_nil. apply runes_concat.
  - rewrite (split_walk_join (x :: sep) ltac:(discriminate) (length s) s [] ltac:(lia)). reflexivity.
Qed.

(* single byte separator: the number of pieces is the number of occurrences + 1, and no
   piece contains the separator *)
Lemma split_single_count c : forall s cur,
  length (split_walk [c] s O cur) = S (count_occ Z.eq_dec s c).
Proof.
  induction s as [|x s IH]; intros cur; [reflexivity|].
  cbn [split_walk is_prefix length Nat.sub count_occ].
  destruct (Z.eqb_spec c x) as [->|Hne]; cbn [andb].
  - destruct (Z.eq_dec x x); [|congruence]. cbn [length]. rewrite IH. reflexivity.
  - destruct (Z.eq_dec x c); [congruence|]. apply IH.
Qed.

Lemma split_single_free c : forall s cur,
  ~ In c cur -> Forall (fun p => ~ In c p) (split_walk [c] s O cur).
Proof.
  induction s as [|x s IH]; intros cur Hc; cbn [split_walk is_prefix length Nat.sub].
  - constructor; [exact Hc|constructor].
  - destruct (Z.eqb_spec c x) as [->|Hne]; cbn [andb].
    + constructor; [exact Hc|]. apply IH. intros [].
    + apply IH. intros Hin. apply in_app_or in Hin as [Hin|[Hin|[]]]; [exact (Hc Hin)|congruence].
Qed.

(* keys "1" .. "n" *)
Fixpoint zseq (i : Z) (n : nat) : list Z :=
  match n with O => [] | S k => i :: zseq (i + 1) k end.

Lemma number_from_spec : forall ps i,
  map fst (number_from i ps) = zseq i (length ps) /\ map snd (number_from i ps) = ps /\
  zlen (number_from i ps) = zlen ps.
Proof.
  induction ps as [|p ps IH]; intros i; cbn [number_from map length zseq fst snd]; [repeat split|].
  destruct (IH (i + 1)) as (H1 & H2 & H3). rewrite H1, H2, !zlen_cons, H3. repeat split.
Qed.

(* split(s, a, sep), sep a single character (at most one, in fact) other than space, s not
   empty: the pieces joined by sep give back s; the array has exactly the keys 1..n and
   n is returned; this regime never consults the regex engine *)
Theorem split_join ff sep s :
  bytes_eqb sep [32] = false -> s <> [] -> rune_count sep <= 1 ->
  exists parts,
    builtin_split ff sep false s = Ok (zlen parts, number_from 1 parts) /\
    join sep parts = s /\
    map fst (number_from 1 parts) = zseq 1 (length parts) /\
    map snd (number_from 1 parts) = parts.
Proof.
  intros Hsp Hne Hrc. unfold builtin_split, split_parts. cbn [negb andb]. rewrite Hsp.
  destruct s as [|c s]; [congruence|]. cbn [is_nil].
  destruct (rune_count sep <=? 1) eqn:E; [|apply Z.leb_gt in E; lia].
  cbn [rbind]. exists (strings_split (c :: s) sep).
  destruct (number_from_spec (strings_split (c :: s) sep) 1) as (H1 & H2 & H3).
  rewrite H3. repeat split; [apply strings_split_join|exact H1|exact H2].
Qed.

(* a single BYTE separator: n = occurrences + 1 and no piece contains it *)
Theorem split_single_byte c s :
  let parts := strings_split s [c] in
  length parts = S (count_occ Z.eq_dec s c) /\ Forall (fun p => ~ In c p) parts.
Proof.
  cbn zeta. unfold strings_split. cbn [is_nil]. split; [apply split_single_count|].
  apply split_single_free. intros [].
Qed.
