(* C17: one native call in a program run through ParseProgram + ExecProgram with the same
   Funcs map: never a panic, rejection of other shapes, the right function, error identity. *)
From Coq Require Import Permutation.
From Verif Require Import Lib.Base Lib.Dyadic Model.Native
  Proofs.NativeIndex Proofs.NativeCheck Proofs.NativeConv Proofs.NativeCall.

(* what Go's type system and reflect guarantee about an entry of the map, nothing more *)
Definition go_typed (f : fval) : Prop :=
  match f with FFunc s b => wf_sig s /\ body_ok s b | _ => True end.

Lemma build_table_ok funcs names :
  (forall n, In n names -> exists s b, lookup n funcs = Some (FFunc s b)) ->
  exists tbl, build_table funcs names = NOk tbl.
Proof.
  induction names as [|y names IH]; intros H; [eexists; reflexivity|].
  cbn [build_table]. destruct (H y (or_introl eq_refl)) as (s & b & ->). cbn [nbind].
  destruct IH as (tl & ->); [intros n Hn; apply H; right; exact Hn|]. cbn [nbind]. eexists; reflexivity.
Qed.

Lemma mem_bytes_in x l : mem_bytes x l = true <-> In x l.
Proof.
  induction l as [|y l IH]; cbn [mem_bytes In]; [split; [discriminate|tauto]|].
  rewrite orb_true_iff, IH, bytes_eqb_eq. split; intros [H|H]; auto.
Qed.

Lemma lookup_some_in_names name funcs f : lookup name funcs = Some f -> In name (map fst funcs).
Proof. intros H. apply lookup_in in H. change name with (fst (name, f)). apply in_map. exact H. Qed.

Section Prims.
  Variable parse_float : bytes -> option fnum.
  Variable parse_prefix : bytes -> fnum.
  Variable fmt_float : fnum -> bytes.

  Notation run := (run parse_float parse_prefix fmt_float).
  Notation call_native := (call_native parse_float parse_prefix fmt_float).
  Notation spec_values := (spec_values parse_float parse_prefix fmt_float).

  (* set-up succeeds exactly when every entry is of the documented shape; then the table is built *)
  Lemma init_ok funcs :
    (forall n f, In (n, f) funcs -> go_typed f) ->
    (exists n e f, init_native_funcs funcs = NOk (inl (n, e)) /\ In (n, f) funcs /\ acceptable n f = false) \/
    (exists tbl, init_native_funcs funcs = NOk (inr tbl) /\
                 build_table funcs (sort_names (map fst funcs)) = NOk tbl /\
                 forall n f, In (n, f) funcs -> acceptable n f = true).
  Proof.
    intros H. unfold init_native_funcs.
    destruct (check_all_ok funcs) as (r & Er & Hr).
    { intros n f Hin. specialize (H n f Hin).
      destruct f as [| |s b]; cbn [go_typed wf_fval] in *; tauto. }
    rewrite Er. cbn [nbind]. destruct r as [[n e]|].
    - left. destruct Hr as (f & Hin & A & _). exists n, e, f. repeat split; assumption.
    - right. destruct (build_table_ok funcs (sort_names (map fst funcs))) as (tbl & Et).
      { intros n Hn. assert (Hn' : In n (map fst funcs)).
        { eapply Permutation_in; [apply Permutation_sym, sort_perm|exact Hn]. }
        apply in_map_iff in Hn' as ([n' f] & <- & Hin). cbn [fst].
        pose proof (Hr n' f Hin) as A. destruct f as [| |s b]; unfold acceptable in A;
          rewrite ?andb_false_r in A; try discriminate.
        (* the first binding of n' in funcs is the one lookup finds; it is a func as well *)
        destruct (lookup n' funcs) as [g|] eqn:L.
        - pose proof (Hr n' g (lookup_in _ _ _ L)) as Ag. destruct g as [| |s' b']; unfold acceptable in Ag;
            rewrite ?andb_false_r in Ag; try discriminate. eexists _, _; reflexivity.
        - exfalso. apply lookup_none in L. apply L. change n' with (fst (n', FFunc s b)). apply in_map. exact Hin. }
      exists tbl. rewrite Et. cbn [nbind]. repeat split; try assumption.
  Qed.

  (* "never a panic": for every map whose entries are what Go's typing allows (nil and
     non-function values included), both iteration orders, every name, every argument list *)
  Theorem run_no_panic funcs_r funcs_i awk name args :
    NoDup (map fst funcs_i) -> Permutation funcs_r funcs_i ->
    (forall n f, In (n, f) funcs_i -> go_typed f) ->
    forall k, run funcs_r funcs_i awk name args <> OPanic k.
  Proof.
    intros ND P Hok k. unfold Native.run.
    destruct (resolve_call_no_panic funcs_r awk name (zlen args)) as [[pe|] ER]; rewrite ER; [discriminate|].
    destruct (init_ok funcs_i Hok) as [(n & e & f & -> & _)|(tbl & -> & Et & Hacc)]; [discriminate|].
    destruct (mem_bytes name awk) eqn:EA; [discriminate|].
    destruct (resolve_call_passes funcs_r awk name (zlen args) EA ER) as (s & b & L & Har).
    destruct (indexes_agree funcs_r funcs_i name tbl ND P Et (lookup_some_in_names _ _ _ L))
      as (_ & s' & b' & L1 & L2 & Hidx).
    rewrite L in L1. injection L1 as <- <-.
    pose proof (lookup_in _ _ _ L2) as Hin. pose proof (Hok _ _ Hin) as (W & B).
    pose proof (Hacc _ _ Hin) as A. unfold acceptable in A. apply andb_true_iff in A as [_ A].
    destruct (valid_sig_no_panic parse_float parse_prefix fmt_float tbl _ s b args Hidx W A B) as (r & -> & _).
    { destruct (variadic s); [left; reflexivity|right; exact Har]. }
    destruct r; discriminate.
  Qed.

  (* the call reaches the function bound to the name (whatever the two iteration orders), with the
     arguments of spec_values; result and error as that function returns them *)
  Theorem run_calls_named_function funcs_r funcs_i awk name args s b :
    NoDup (map fst funcs_i) -> Permutation funcs_r funcs_i ->
    (forall n f, In (n, f) funcs_i -> go_typed f) ->
    (forall n f, In (n, f) funcs_i -> acceptable n f = true) ->
    mem_bytes name awk = false -> lookup name funcs_r = Some (FFunc s b) ->
    (variadic s = true /\ zlen args <= 1000000000 \/ variadic s = false /\ zlen args <= zlen (params s)) ->
    exists r, returns s (b (spec_values s args)) (spec_values s args) r /\
      run funcs_r funcs_i awk name args =
      match r with CValue v recv => OValue v recv | CError id recv => ORunError id recv end.
  Proof.
    intros ND P Hok Hacc EA L Har. unfold Native.run.
    assert (ER : resolve_call funcs_r awk name (zlen args) = NOk None).
    { unfold resolve_call. rewrite EA, L. destruct Har as [[V H]|[V H]]; rewrite V.
      - destruct (1000000000 <? zlen args) eqn:E; [apply Z.ltb_lt in E; lia|reflexivity].
      - destruct (zlen (params s) <? zlen args) eqn:E; [apply Z.ltb_lt in E; lia|reflexivity]. }
    rewrite ER.
    destruct (init_ok funcs_i Hok) as [(n & e & f & _ & Hin & A)|(tbl & -> & Et & _)].
    { rewrite (Hacc n f Hin) in A. discriminate. }
    rewrite EA.
    destruct (indexes_agree funcs_r funcs_i name tbl ND P Et (lookup_some_in_names _ _ _ L))
      as (_ & s' & b' & L1 & L2 & Hidx).
    rewrite L in L1. injection L1 as <- <-.
    pose proof (lookup_in _ _ _ L2) as Hin. pose proof (Hok _ _ Hin) as (W & B).
    pose proof (Hacc _ _ Hin) as A. unfold acceptable in A. apply andb_true_iff in A as [_ A].
    destruct (valid_sig_no_panic parse_float parse_prefix fmt_float tbl _ s b args Hidx W A B) as (r & Er & Hr).
    { destruct Har as [[V _]|[_ H]]; [left; exact V|right; exact H]. }
    exists r. split; [exact Hr|]. rewrite Er. destruct r; reflexivity.
  Qed.

  (* a non-nil error aborts the run with exactly that error *)
  Theorem run_error_identity funcs_r funcs_i awk name args s b o e id :
    NoDup (map fst funcs_i) -> Permutation funcs_r funcs_i ->
    (forall n f, In (n, f) funcs_i -> go_typed f) ->
    (forall n f, In (n, f) funcs_i -> acceptable n f = true) ->
    mem_bytes name awk = false -> lookup name funcs_r = Some (FFunc s b) ->
    (variadic s = true /\ zlen args <= 1000000000 \/ variadic s = false /\ zlen args <= zlen (params s)) ->
    b (spec_values s args) = [o; e] -> gdat e = DErr id ->
    run funcs_r funcs_i awk name args = ORunError id (spec_values s args).
  Proof.
    intros ND P Hok Hacc EA L Har Hb He.
    destruct (run_calls_named_function funcs_r funcs_i awk name args s b ND P Hok Hacc EA L Har) as (r & Hr & ->).
    rewrite Hb in Hr. inversion Hr as [H|o' v H _|o' e' v H Hn _|o' e' id' H Hid]; try discriminate.
    - injection H as <- <-. congruence.
    - injection H as <- <-. rewrite He in Hid. injection Hid as <-. reflexivity.
  Qed.

  (* ... and with a nil error (or no error result) the converted result is the value *)
  Theorem run_value funcs_r funcs_i awk name args s b :
    NoDup (map fst funcs_i) -> Permutation funcs_r funcs_i ->
    (forall n f, In (n, f) funcs_i -> go_typed f) ->
    (forall n f, In (n, f) funcs_i -> acceptable n f = true) ->
    mem_bytes name awk = false -> lookup name funcs_r = Some (FFunc s b) ->
    (variadic s = true /\ zlen args <= 1000000000 \/ variadic s = false /\ zlen args <= zlen (params s)) ->
    (forall o e, b (spec_values s args) = [o; e] -> gdat e = DErrNil) ->
    exists v, run funcs_r funcs_i awk name args = OValue v (spec_values s args) /\
      match b (spec_values s args) with
      | [] => v = VNull
      | o :: _ => from_native o = NOk v
      end.
  Proof.
    intros ND P Hok Hacc EA L Har Hnil.
    destruct (run_calls_named_function funcs_r funcs_i awk name args s b ND P Hok Hacc EA L Har) as (r & Hr & ->).
    inversion Hr as [H|o v H Hv|o e v H Hn Hv|o e id H Hid].
    - exists VNull. rewrite H. split; reflexivity.
    - exists v. rewrite H. split; [reflexivity|exact Hv].
    - exists v. rewrite H. split; [reflexivity|exact Hv].
    - rewrite (Hnil o e H) in Hid. discriminate.
  Qed.

  (* functions of any other shape (nil and non-function values included), or named like a
     keyword: the run ends in a parse error or in a set-up error naming such an entry *)
  Theorem run_rejects_other_shapes funcs_r funcs_i awk name args n0 f0 :
    (forall n f, In (n, f) funcs_i -> go_typed f) ->
    In (n0, f0) funcs_i -> acceptable n0 f0 = false ->
    (exists pe, run funcs_r funcs_i awk name args = OParseError pe) \/
    (exists n e f, run funcs_r funcs_i awk name args = OSetupError n e /\ In (n, f) funcs_i /\ acceptable n f = false).
  Proof.
    intros Hok Hin A. unfold Native.run.
    destruct (resolve_call_no_panic funcs_r awk name (zlen args)) as [[pe|] ER]; rewrite ER.
    - left. exists pe. reflexivity.
    - right. destruct (init_ok funcs_i Hok) as [(n & e & f & -> & Hin' & A')|(tbl & _ & _ & Hacc)].
      + exists n, e, f. repeat split; assumption.
      + rewrite (Hacc n0 f0 Hin) in A. discriminate.
  Qed.

  (* calling a map entry that is not a function: a parse error *)
  Theorem run_not_a_function funcs_r funcs_i awk name args f :
    mem_bytes name awk = false -> lookup name funcs_r = Some f -> (forall s b, f <> FFunc s b) ->
    run funcs_r funcs_i awk name args = OParseError PNotFunc.
  Proof.
    intros EA L H. unfold Native.run.
    rewrite (not_a_function_is_parse_error funcs_r awk name (zlen args) f EA L H). reflexivity.
  Qed.

  (* too many arguments to a non-variadic function: a parse error, before anything runs *)
  Theorem run_too_many_args funcs_r funcs_i awk name args s b :
    mem_bytes name awk = false -> lookup name funcs_r = Some (FFunc s b) ->
    variadic s = false -> zlen (params s) < zlen args ->
    run funcs_r funcs_i awk name args = OParseError PTooMany.
  Proof.
    intros EA L V H. unfold Native.run.
    rewrite (too_many_args_is_parse_error funcs_r awk name s b (zlen args) EA L V H). reflexivity.
  Qed.
End Prims.
