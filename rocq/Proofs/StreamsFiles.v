(* C13 proofs, part 4: files.  At every point of every history the contents
   expected from the log equal what is in the file plus what the one stream
   feeding it still buffers; after closeAll nothing is buffered. *)
From Verif Require Import Lib.Base Model.Streams Proofs.StreamsBase Proofs.StreamsSpec.

Lemma tgt_is_true o t : tgt_is o t = true <-> o = Some t.
Proof.
  unfold tgt_is. destruct o as [x|]; split; intros H; try discriminate.
  - apply Z.eqb_eq in H. subst; auto.
  - injection H as ->. apply Z.eqb_refl.
Qed.
Lemma tgt_is_false o t : tgt_is o t = false <-> o <> Some t.
Proof.
  split; intros H.
  - intros H1. apply tgt_is_true in H1. congruence.
  - destruct (tgt_is o t) eqn:E; auto. apply tgt_is_true in E. contradiction.
Qed.

(* ---- same_files: nothing a file theorem can see has changed ---- *)
Definition same_files (E : env) (s s' : state) : Prop :=
  st_fs s' = st_fs s /\ st_outs s' = st_outs s /\ st_ins s' = st_ins s /\
  (forall fs0 t, expected_file E fs0 (st_log s') t = expected_file E fs0 (st_log s) t).

Lemma sf_refl E s : same_files E s s.
Proof. unfold same_files. auto. Qed.
Lemma sf_trans E s1 s2 s3 : same_files E s1 s2 -> same_files E s2 s3 -> same_files E s1 s3.
Proof.
  intros (A1 & A2 & A3 & A4) (B1 & B2 & B3 & B4). unfold same_files.
  split; [congruence|split; [congruence|split; [congruence|]]]. intros. rewrite B4. auto.
Qed.
Lemma sf_fields E s s' : st_fs s' = st_fs s -> st_outs s' = st_outs s -> st_ins s' = st_ins s -> st_log s' = st_log s ->
  same_files E s s'.
Proof. intros H1 H2 H3 H4. unfold same_files. rewrite H4. auto. Qed.

Lemma sf_touch E s : same_files E s (touch E s).
Proof.
  unfold touch. destruct (negb (is_osfile (e_mode E)) && any_active (st_outs s)); cbn [st_outs set_overlap];
  match goal with |- context [if ?c then set_unmod _ else _] => destruct c end; apply sf_fields; auto.
Qed.

Lemma sf_flush_stdout E s : same_files E s (fst (flush_stdout E s)).
Proof.
  unfold flush_stdout. destruct (e_mode E); cbn [fst]; try apply sf_refl.
  apply (sf_trans _ _ (touch E s)); [apply sf_touch|]. destruct (bw_flush _ _) as [[w k] ok]. cbn [fst]. apply sf_fields; auto.
Qed.

Lemma sf_write_stdout E s ps : same_files E s (fst (write_stdout E s ps)).
Proof.
  unfold write_stdout. apply (sf_trans _ _ (touch E s)); [apply sf_touch|].
  set (s1 := touch E s).
  assert (H : same_files E s1 (add_log s1 (EvWrite WStdout (concat ps)))).
  { unfold same_files. cbn. auto. }
  eapply sf_trans; [exact H|].
  destruct (e_mode E); cbv beta iota.
  - destruct (write_pieces_direct _ _). cbn [fst]. apply sf_fields; auto.
  - destruct (write_pieces_direct _ _). cbn [fst]. apply sf_fields; auto.
  - destruct (write_pieces_buf _ _ _ _) as [[? ?] ?]. cbn [fst]. apply sf_fields; auto.
Qed.

Lemma sf_child_out E s cg data : same_files E s (fst (child_out E s cg data)).
Proof.
  unfold child_out. destruct data as [|b d]; [apply sf_refl|].
  assert (H : same_files E s (add_log s (EvChildOut (b :: d)))) by (unfold same_files; cbn; auto).
  eapply sf_trans; [exact H|].
  destruct (e_mode E); cbv beta iota.
  - destruct (sink_write _ _) as [[? ?] ?]. cbn [fst]. apply sf_fields; auto.
  - destruct cg; cbn [fst]; [apply sf_refl|]. destruct (sink_write _ _) as [[? ?] ?]. cbn [fst]. apply sf_fields; auto.
  - destruct cg; cbn [fst]; [apply sf_fields; auto|]. match goal with |- context [if ?c then set_unmod ?x else ?x] => destruct c end; destruct (bw_write _ _ _ _) as [[? ?] ?]; cbn [fst]; apply sf_fields; auto.
Qed.

Lemma sf_child_eof E s cg : same_files E s (fst (child_eof E s cg)).
Proof. apply sf_refl. Qed.

Lemma sf_if_print_errorf E (b : bool) s : same_files E s (if b then print_errorf E s else s).
Proof. destruct b; [apply sf_flush_stdout|apply sf_refl]. Qed.

Lemma sf_if_unmod E (b : bool) s : same_files E s (if b then set_unmod s else s).
Proof. destruct b; [apply sf_fields; auto|apply sf_refl]. Qed.

(* ---- the invariant ---- *)
Section Files.
Variable E : env.
Variables F P Q : name -> Prop.
Hypothesis AF : alias_free E F P Q.
Variable fs0 : list (name * bytes).

Definition finv (s : state) : Prop := outs_ok F P s /\ file_inv E fs0 s.

Lemma finv_same s s' : same_files E s s' -> finv s -> finv s'.
Proof.
  intros (H1 & H2 & H3 & H4) ((Hk & Hs) & Hf). unfold finv, outs_ok, file_inv. rewrite H1, H2. repeat split; auto.
  intros t. rewrite H4. auto.
Qed.

Definition kind_ok (n : name) (o : ostream) : Prop :=
  match os_kind o with KFile => F n | KCmd => P n end.

Lemma stream_ok_kind fs n o : stream_ok F P fs n o -> kind_ok n o.
Proof. unfold stream_ok, kind_ok. destruct (os_kind o); tauto. Qed.

Lemma cmd_target_sink c t : cmd_target E c = Some t -> c_sink (e_spec E c) = Some t.
Proof. unfold cmd_target. destruct (c_drain (e_spec E c)); [auto|discriminate]. Qed.

Lemma target_unique n1 o1 n2 o2 t : kind_ok n1 o1 -> kind_ok n2 o2 ->
  stream_target E n1 o1 = Some t -> stream_target E n2 o2 = Some t -> n1 = n2.
Proof.
  unfold kind_ok, stream_target. intros K1 K2 T1 T2.
  destruct (os_kind o1), (os_kind o2).
  - congruence.
  - apply cmd_target_sink in T2. injection T1 as ->. exfalso. eapply (af_file _ _ _ _ AF n2 t); eauto. apply (af_PQ _ _ _ _ AF); auto.
  - apply cmd_target_sink in T1. injection T2 as ->. exfalso. eapply (af_file _ _ _ _ AF n1 t); eauto. apply (af_PQ _ _ _ _ AF); auto.
  - apply cmd_target_sink in T1. apply cmd_target_sink in T2. destruct (Z.eq_dec n1 n2) as [|Hne]; auto. exfalso.
    eapply (af_pipe _ _ _ _ AF n1 n2 t); eauto. apply (af_PQ _ _ _ _ AF); auto.
Qed.

(* ---- pend ---- *)
Lemma pend_none outs t : (forall m o, In (m, o) outs -> stream_target E m o <> Some t) -> pend E outs t = [].
Proof.
  induction outs as [|[m o] l IH]; cbn [pend]; auto. intros H.
  destruct (tgt_is _ t) eqn:Et.
  - apply tgt_is_true in Et. exfalso. eapply H; [left; reflexivity|auto].
  - apply IH. intros. apply H. right; auto.
Qed.

Lemma pend_lookup outs n o t : keys_nodup outs ->
  (forall m o2, In (m, o2) outs -> kind_ok m o2) ->
  In (n, o) outs -> stream_target E n o = Some t -> pend E outs t = os_buf o.
Proof.
  unfold keys_nodup. induction outs as [|[m o2] l IH]; cbn [pend map fst]; [intros _ _ []|].
  intros Hnd Hk Hin Ht. inversion Hnd as [|? ? Hnotin Hnd']; subst.
  destruct (tgt_is (stream_target E m o2) t) eqn:Et.
  - apply tgt_is_true in Et.
    assert (m = n).
    { apply (target_unique m o2 n o t); auto. apply Hk. left; auto. }
    subst m.
    destruct Hin as [Hin|Hin]; [injection Hin as ->; auto|].
    exfalso. apply Hnotin. change n with (fst (n, o)). apply in_map; auto.
  - destruct Hin as [Hin|Hin].
    + injection Hin as -> ->. apply tgt_is_false in Et. contradiction.
    + apply IH; auto. intros. apply Hk. right; auto.
Qed.

Lemma pend_aremove_other outs n t : (forall o, In (n, o) outs -> stream_target E n o <> Some t) ->
  pend E (aremove n outs) t = pend E outs t.
Proof.
  induction outs as [|[m o] l IH]; cbn [pend aremove]; auto. intros H.
  destruct (m =? n) eqn:Em.
  - apply Z.eqb_eq in Em. subst m.
    assert (Hf : tgt_is (stream_target E n o) t = false) by (apply tgt_is_false; apply H; left; auto).
    rewrite Hf. apply IH. intros. apply H. right; auto.
  - cbn [pend]. destruct (tgt_is _ t); auto. apply IH. intros. apply H. right; auto.
Qed.

Lemma pend_aremove_target outs n o t : keys_nodup outs ->
  (forall m o2, In (m, o2) outs -> kind_ok m o2) ->
  In (n, o) outs -> stream_target E n o = Some t -> pend E (aremove n outs) t = [].
Proof.
  intros Hnd Hk Hin Ht. apply pend_none. intros m o2 Hin2 Ht2.
  apply In_aremove in Hin2. destruct Hin2 as (Hin2 & Hne). apply Hne.
  eapply target_unique; eauto.
Qed.

Lemma aremove_absent {A} n (l : list (name * A)) : alookup n l = None -> aremove n l = l.
Proof.
  induction l as [|[k v] l IH]; cbn [alookup aremove]; auto.
  destruct (k =? n); [discriminate|]. intros H. rewrite IH; auto.
Qed.

(* no open stream feeds t when t is the sink of a command that has no stream *)
Lemma no_stream_for_sink s c t : outs_ok F P s -> Q c -> alookup c (st_outs s) = None ->
  c_sink (e_spec E c) = Some t -> forall m o, In (m, o) (st_outs s) -> stream_target E m o <> Some t.
Proof.
  intros (Hnd & Hs) Hq Hl Hc m o Hin Ht. pose proof (stream_ok_kind _ _ _ (Hs _ _ Hin)) as Hk.
  unfold kind_ok, stream_target in *. destruct (os_kind o).
  - injection Ht as ->. eapply (af_file _ _ _ _ AF c t); eauto.
  - apply cmd_target_sink in Ht. destruct (Z.eq_dec m c) as [->|Hne].
    + apply In_alookup in Hin; auto. congruence.
    + eapply (af_pipe _ _ _ _ AF m c t); eauto.
Qed.

(* no open stream feeds file n when n has no stream *)
Lemma no_stream_for_file s n : outs_ok F P s -> F n -> alookup n (st_outs s) = None ->
  forall m o, In (m, o) (st_outs s) -> stream_target E m o <> Some n.
Proof.
  intros (Hnd & Hs) Hf Hl m o Hin Ht. pose proof (stream_ok_kind _ _ _ (Hs _ _ Hin)) as Hk.
  unfold kind_ok, stream_target in *. destruct (os_kind o).
  - injection Ht as ->. apply In_alookup in Hin; auto. congruence.
  - apply cmd_target_sink in Ht. eapply (af_file _ _ _ _ AF m n); eauto. apply (af_PQ _ _ _ _ AF); auto.
Qed.

(* ---- deliver ---- *)
Lemma deliver_files s n o data s' o' :
  deliver E s n o data = (s', o') -> stream_ok F P (st_fs s) n o ->
  st_outs s' = st_outs s /\ st_ins s' = st_ins s /\
  (forall t, fs_get (st_fs s') t = fs_get (st_fs s) t ++ (if tgt_is (stream_target E n o) t then data else [])) /\
  (forall t, expected_file E fs0 (st_log s') t = expected_file E fs0 (st_log s) t) /\
  os_kind o' = os_kind o /\ os_buf o' = os_buf o /\ stream_ok F P (st_fs s') n o'.
Proof.
  unfold deliver. destruct data as [|b d].
  - intros H; injection H as <- <-. intros Hok. repeat split; auto. intros t. destruct (tgt_is _ _); rewrite app_nil_r; auto.
  - set (data := b :: d). unfold stream_ok, stream_target. destruct (os_kind o) eqn:Ek.
    + destruct (os_off o) as [off|] eqn:Eo; intros H; injection H as <- <-; intros (Hf & Hoff); cbn [st_outs st_ins st_fs st_log set_fs os_kind os_buf os_off].
      * specialize (Hoff off eq_refl). subst off. repeat split; auto.
        -- intros t. rewrite fs_get_aset. cbn [tgt_is]. destruct (n =? t) eqn:Ent.
           ++ apply Z.eqb_eq in Ent. subst t. apply write_at_end.
           ++ rewrite app_nil_r; auto.
        -- intros off' H. injection H as <-. rewrite fs_get_aset, Z.eqb_refl, write_at_end, app_length. auto.
      * rewrite Ek. repeat split; auto.
        -- intros t. rewrite fs_get_append. cbn [tgt_is]. destruct (n =? t) eqn:Ent.
           ++ apply Z.eqb_eq in Ent. subst t. auto.
           ++ rewrite app_nil_r; auto.
        -- rewrite Eo. intros off' H. discriminate.
    + intros H Hp. unfold cmd_target. destruct (c_drain (e_spec E n)) eqn:Edr; cbv beta iota.
      2:{ injection H as <- <-. cbn [os_kind os_buf tgt_is].
          assert (Hs : forall b : bool, st_outs (if b then s else set_unmod s) = st_outs s /\ st_ins (if b then s else set_unmod s) = st_ins s /\
                        st_fs (if b then s else set_unmod s) = st_fs s /\ st_log (if b then s else set_unmod s) = st_log s) by (intros []; auto).
          destruct (Hs (is_synced E s n)) as (S1 & S2 & S3 & S4). rewrite S1, S2, S3, S4.
          split; [auto|split; [auto|split; [intros t; rewrite app_nil_r; auto|split; [auto|split; [auto|split; auto]]]]]. }
      set (s1 := match c_sink (e_spec E n) with Some t => set_fs s (fs_append (st_fs s) t data) | None => s end) in *.
      assert (H1 : st_outs s1 = st_outs s /\ st_ins s1 = st_ins s /\ st_log s1 = st_log s /\
                   forall t, fs_get (st_fs s1) t = fs_get (st_fs s) t ++ (if tgt_is (c_sink (e_spec E n)) t then data else [])).
      { subst s1. destruct (c_sink (e_spec E n)) as [t0|]; cbn [st_outs st_ins st_log st_fs set_fs tgt_is].
        - repeat split; auto. intros t. rewrite fs_get_append. destruct (t0 =? t) eqn:Et; [apply Z.eqb_eq in Et; subst; auto|rewrite app_nil_r; auto].
        - repeat split; auto. intros t. rewrite app_nil_r; auto. }
      destruct H1 as (A1 & A2 & A3 & A4).
      destruct (c_echo (e_spec E n)).
      * pose proof (sf_child_out E s1 (os_cgfail o) data) as Hsf.
        destruct (child_out E s1 (os_cgfail o) data) as [s2 ok]. cbn [fst] in Hsf. destruct Hsf as (B1 & B2 & B3 & B4).
        injection H as <- <-. cbn [os_kind os_buf]. rewrite B1, B2, B3. repeat split; auto; try congruence; intros t; rewrite B4, A3; auto.
      * injection H as <- <-. rewrite Ek. repeat split; auto. intros t. rewrite A3. auto.
Qed.

(* the state after some bytes [x] were written to stream n and [f] left its buffer *)
Lemma finv_update s n o s' o' x f :
  finv s -> alookup n (st_outs s) = Some o ->
  st_outs s' = st_outs s ->
  (forall t, fs_get (st_fs s') t = fs_get (st_fs s) t ++ (if tgt_is (stream_target E n o) t then f else [])) ->
  (forall t, expected_file E fs0 (st_log s') t =
             expected_file E fs0 (st_log s) t ++ (if tgt_is (stream_target E n o) t then x else [])) ->
  os_kind o' = os_kind o -> os_buf o ++ x = f ++ os_buf o' -> stream_ok F P (st_fs s') n o' ->
  finv (set_outs s' (aset n o' (st_outs s'))).
Proof.
  intros ((Hnd & Hs) & Hf) Hl Ho Hfs Hx Hk Hb Hok.
  pose proof (alookup_In _ _ _ Hl) as Hin.
  assert (Hkall : forall m o2, In (m, o2) (st_outs s) -> kind_ok m o2) by (intros; eapply stream_ok_kind; eauto).
  assert (Hto : stream_target E n o' = stream_target E n o) by (unfold stream_target; rewrite Hk; auto).
  split.
  - split; cbn [st_outs st_fs set_outs]; rewrite Ho.
    + apply keys_nodup_aset; auto.
    + intros m o2 Hin2. apply In_aset in Hin2. destruct Hin2 as [[-> ->]|[Hin2 Hne]]; auto.
      pose proof (Hs _ _ Hin2) as Hok2. unfold stream_ok in *. destruct (os_kind o2) eqn:Ek2; auto.
      destruct Hok2 as (HF & Hoff). split; auto. intros off Ho2. rewrite Hfs.
      assert (Hne2 : tgt_is (stream_target E n o) m = false).
      { apply tgt_is_false. intros Ht. apply Hne. symmetry. eapply (target_unique n o m o2); eauto.
        unfold stream_target. rewrite Ek2. auto. }
      rewrite Hne2, app_nil_r. auto.
  - intros t. cbn [st_outs st_fs st_log set_outs]. rewrite Ho. unfold aset. cbn [pend]. rewrite Hto.
    rewrite Hx, Hfs, Hf. destruct (tgt_is (stream_target E n o) t) eqn:Et.
    + apply tgt_is_true in Et. rewrite (pend_lookup _ n o t); auto.
      rewrite <- !app_assoc. f_equal. auto.
    + rewrite !app_nil_r. f_equal. symmetry. apply pend_aremove_other.
      intros o3 Hin3. apply In_alookup in Hin3; auto. assert (o3 = o) by congruence. subst. apply tgt_is_false; auto.
Qed.

(* the state after stream n was taken out of the table and its buffer [f] delivered *)
Lemma finv_remove s n o s' :
  finv s -> alookup n (st_outs s) = Some o ->
  st_outs s' = aremove n (st_outs s) ->
  (forall t, fs_get (st_fs s') t = fs_get (st_fs s) t ++ (if tgt_is (stream_target E n o) t then os_buf o else [])) ->
  (forall t, expected_file E fs0 (st_log s') t = expected_file E fs0 (st_log s) t) ->
  finv s'.
Proof.
  intros ((Hnd & Hs) & Hf) Hl Ho Hfs Hx.
  pose proof (alookup_In _ _ _ Hl) as Hin.
  assert (Hkall : forall m o2, In (m, o2) (st_outs s) -> kind_ok m o2) by (intros; eapply stream_ok_kind; eauto).
  split.
  - split; rewrite Ho.
    + apply keys_nodup_aremove; auto.
    + intros m o2 Hin2. apply In_aremove in Hin2. destruct Hin2 as [Hin2 Hne].
      pose proof (Hs _ _ Hin2) as Hok2. unfold stream_ok in *. destruct (os_kind o2) eqn:Ek2; auto.
      destruct Hok2 as (HF & Hoff). split; auto. intros off Ho2. rewrite Hfs.
      assert (Hne2 : tgt_is (stream_target E n o) m = false).
      { apply tgt_is_false. intros Ht. apply Hne. symmetry. eapply (target_unique n o m o2); eauto.
        unfold stream_target. rewrite Ek2. auto. }
      rewrite Hne2, app_nil_r. auto.
  - intros t. rewrite Ho, Hx, Hfs, Hf. destruct (tgt_is (stream_target E n o) t) eqn:Et.
    + apply tgt_is_true in Et. rewrite (pend_lookup _ n o t); auto.
      rewrite (pend_aremove_target _ n o t); auto. rewrite app_nil_r. auto.
    + rewrite app_nil_r. f_equal. symmetry. apply pend_aremove_other.
      intros o3 Hin3. apply In_alookup in Hin3; auto. assert (o3 = o) by congruence. subst. apply tgt_is_false; auto.
Qed.

Lemma finv_lookup_ok s n o : finv s -> alookup n (st_outs s) = Some o -> stream_ok F P (st_fs s) n o.
Proof. intros ((_ & Hs) & _) Hl. apply Hs. apply alookup_In; auto. Qed.

Lemma flush_ostream_files s n o s' o' :
  flush_ostream E s n o = (s', o') -> stream_ok F P (st_fs s) n o ->
  st_outs s' = st_outs s /\ st_ins s' = st_ins s /\
  (forall t, fs_get (st_fs s') t = fs_get (st_fs s) t ++ (if tgt_is (stream_target E n o) t then os_buf o else [])) /\
  (forall t, expected_file E fs0 (st_log s') t = expected_file E fs0 (st_log s) t) /\
  os_kind o' = os_kind o /\ os_buf o' = [] /\ stream_ok F P (st_fs s') n o'.
Proof.
  unfold flush_ostream. destruct (deliver E s n o (os_buf o)) as [s1 o1] eqn:Ed. intros H Hok. injection H as <- <-.
  destruct (deliver_files _ _ _ _ _ _ Ed Hok) as (A1 & A2 & A3 & A4 & A5 & A6 & A7).
  cbn [os_kind os_buf]. repeat split; auto; unfold stream_ok in *; cbn [os_kind os_off]; auto.
Qed.

Lemma flush_named_finv s n o : finv s -> alookup n (st_outs s) = Some o ->
  finv (flush_named E s n o) /\ st_ins (flush_named E s n o) = st_ins s /\
  (forall m, amem m (st_outs (flush_named E s n o)) = amem m (st_outs s)) /\
  (forall o2, alookup n (st_outs (flush_named E s n o)) = Some o2 -> os_buf o2 = []) /\
  (forall m o2, m <> n -> alookup m (st_outs (flush_named E s n o)) = Some o2 -> alookup m (st_outs s) = Some o2).
Proof.
  intros Hi Hl. unfold flush_named. destruct (flush_ostream E s n o) as [s1 o1] eqn:Ef.
  destruct (flush_ostream_files _ _ _ _ _ Ef (finv_lookup_ok _ _ _ Hi Hl)) as (A1 & A2 & A3 & A4 & A5 & A6 & A7).
  cbv zeta. set (s2 := set_outs s1 (aset n o1 (st_outs s1))).
  assert (Hsf : same_files E s2 (if os_err o1 then print_errorf E s2 else s2)) by apply sf_if_print_errorf.
  destruct Hsf as (S1 & S2 & S3 & S4).
  assert (Hfin : finv (if os_err o1 then print_errorf E s2 else s2) <-> finv s2).
  { split; apply finv_same; unfold same_files; [split; [symmetry; exact S1|split; [symmetry; exact S2|split; [symmetry; exact S3|intros; symmetry; apply S4]]]|auto]. }
  rewrite S2, S3. subst s2.
  split; [apply Hfin|split; [|split; [|split]]].
  - eapply (finv_update s n o s1 o1 [] (os_buf o)); eauto.
    + intros t. rewrite A4. destruct (tgt_is _ _); rewrite app_nil_r; auto.
    + rewrite A6, !app_nil_r. auto.
  - cbn. auto.
  - intros m. cbn [st_outs set_outs]. rewrite amem_aset, A1. destruct (n =? m) eqn:Em; auto.
    apply Z.eqb_eq in Em. subst. unfold amem. rewrite Hl. auto.
  - cbn [st_outs set_outs]. intros o2. rewrite alookup_aset_same. intros H; injection H as <-. auto.
  - cbn [st_outs set_outs]. intros m o2 Hne. rewrite alookup_aset_other by auto. rewrite A1. auto.
Qed.

Lemma flush_streams_finv ns : forall s, finv s ->
  finv (flush_streams E s ns) /\ st_ins (flush_streams E s ns) = st_ins s /\
  (forall m, amem m (st_outs (flush_streams E s ns)) = amem m (st_outs s)) /\
  (forall m o2, alookup m (st_outs (flush_streams E s ns)) = Some o2 ->
      (In m ns \/ (exists o3, alookup m (st_outs s) = Some o3 /\ os_buf o3 = [])) -> os_buf o2 = []).
Proof.
  induction ns as [|n ns IH]; intros s Hi; cbn [flush_streams].
  - split; [auto|split; [auto|split; [auto|]]]. intros m o2 Hl [[]|(o3 & Hl3 & Hb)]. congruence.
  - destruct (alookup n (st_outs s)) as [o|] eqn:El.
    + destruct (flush_named_finv s n o Hi El) as (B1 & B2 & B3 & B4 & B5).
      destruct (IH _ B1) as (C1 & C2 & C3 & C4). split; [auto|split; [congruence|split]].
      * intros m. rewrite C3. auto.
      * intros m o2 Hl2 Hor. apply (C4 m o2 Hl2).
        destruct (Z.eq_dec m n) as [->|Hne].
        -- right. destruct (alookup n (st_outs (flush_named E s n o))) as [o4|] eqn:E4.
           ++ exists o4. split; auto.
           ++ exfalso. specialize (B3 n). unfold amem in B3. rewrite E4, El in B3. discriminate.
        -- destruct Hor as [[Heq|Hin]|(o3 & Hl3 & Hb)]; [congruence|left; auto|].
           right. destruct (alookup m (st_outs (flush_named E s n o))) as [o4|] eqn:E4.
           ++ exists o4. split; auto. apply B5 in E4; auto. congruence.
           ++ exfalso. specialize (B3 m). unfold amem in B3. rewrite E4, Hl3 in B3. discriminate.
    + destruct (IH _ Hi) as (C1 & C2 & C3 & C4). split; [auto|split; [auto|split; [auto|]]].
      intros m o2 Hl2 Hor. apply (C4 m o2 Hl2). destruct Hor as [[Heq|Hin]|H]; auto.
      subst m. exfalso. specialize (C3 n). unfold amem in C3. rewrite Hl2, El in C3. discriminate.
Qed.

Lemma In_keys_lookup {A} m (l : list (name * A)) : alookup m l <> None -> In m (map fst l).
Proof.
  induction l as [|[k v] l IH]; cbn [alookup map fst]; [congruence|].
  destruct (k =? m) eqn:Ek; [apply Z.eqb_eq in Ek; intros _; left; auto|]. intros H. right; auto.
Qed.

Lemma flush_all_finv s : finv s ->
  finv (fst (flush_all E s)) /\ st_ins (fst (flush_all E s)) = st_ins s /\
  (forall m, amem m (st_outs (fst (flush_all E s))) = amem m (st_outs s)) /\
  (forall m o, alookup m (st_outs (fst (flush_all E s))) = Some o -> os_buf o = []).
Proof.
  intros Hi. unfold flush_all.
  destruct (flush_streams_finv (map fst (st_outs s)) s Hi) as (C1 & C2 & C3 & C4).
  set (s1 := flush_streams E s _) in *.
  assert (Hsf : exists s', fst (let (s', b) := flush_stdout E s1 in if b then (s', negb (any_failed (st_outs s'))) else (print_errorf E s', false)) = s' /\ same_files E s1 s').
  { pose proof (sf_flush_stdout E s1) as H. destruct (flush_stdout E s1) as [s2 [|]]; cbn [fst] in *; eexists; split; eauto.
    eapply sf_trans; eauto. apply sf_flush_stdout. }
  destruct Hsf as (s' & -> & (D1 & D2 & D3 & D4)).
  split; [eapply finv_same; [|exact C1]; unfold same_files; auto|].
  rewrite D2, D3. split; [auto|split; [auto|]].
  intros m o Hl. apply (C4 m o Hl). left. apply In_keys_lookup.
  specialize (C3 m). unfold amem in C3. rewrite Hl in C3. destruct (alookup m (st_outs s)); congruence.
Qed.

(* ---- starting a process ---- *)
Lemma start_proc_finv s c : finv s -> Q c ->
  (forall o, alookup c (st_outs s) = Some o -> os_buf o = []) ->
  finv (fst (start_proc E s c)) /\ st_outs (fst (start_proc E s c)) = st_outs s /\ st_ins (fst (start_proc E s c)) = st_ins s.
Proof.
  intros ((Hnd & Hs) & Hf) Hq Hb. unfold start_proc. cbn [fst].
  destruct (c_sink (e_spec E c)) as [t0|] eqn:Ec; cbn [st_outs st_ins].
  - repeat split; auto.
    + cbn [st_outs st_fs add_log set_fs]. intros m o Hin. pose proof (Hs _ _ Hin) as Hok. unfold stream_ok in *.
      destruct (os_kind o); auto. destruct Hok as (HF & Hoff). split; auto. intros off Ho.
      rewrite fs_get_append. destruct (t0 =? m) eqn:Et; auto. apply Z.eqb_eq in Et. subst.
      exfalso. eapply (af_file _ _ _ _ AF c m); eauto.
    + intros t. cbn [st_outs st_fs st_log add_log set_fs expected_file]. rewrite fs_get_append, Hf.
      destruct (t0 =? t) eqn:Et; auto. apply Z.eqb_eq in Et. subst t0.
      assert (Hp : pend E (st_outs s) t = []).
      { destruct (alookup c (st_outs s)) as [o|] eqn:El.
        - pose proof (alookup_In _ _ _ El) as Hin. pose proof (stream_ok_kind _ _ _ (Hs _ _ Hin)) as Hk.
          destruct (os_kind o) eqn:Ek.
          + (* a file stream named c: its target c is in F, t is not *)
            apply pend_none. intros m o2 Hin2 Ht2. pose proof (stream_ok_kind _ _ _ (Hs _ _ Hin2)) as Hk2.
            unfold kind_ok, stream_target in Hk2, Ht2. destruct (os_kind o2) eqn:Ek2.
            * injection Ht2 as ->. eapply (af_file _ _ _ _ AF c t); eauto.
            * apply cmd_target_sink in Ht2. destruct (Z.eq_dec m c) as [->|Hne].
              -- apply In_alookup in Hin2; auto. assert (o2 = o) by congruence. subst. congruence.
              -- eapply (af_pipe _ _ _ _ AF m c t); eauto.
          + destruct (cmd_target E c) as [t1|] eqn:Ect.
            * assert (t1 = t) by (apply cmd_target_sink in Ect; congruence). subst t1.
              rewrite (pend_lookup _ c o t); auto.
              -- intros; eapply stream_ok_kind; eauto.
              -- unfold stream_target. rewrite Ek. auto.
            * apply pend_none. intros m o2 Hin2 Ht2. pose proof (stream_ok_kind _ _ _ (Hs _ _ Hin2)) as Hk2.
              unfold kind_ok, stream_target in Hk2, Ht2. destruct (os_kind o2) eqn:Ek2.
              -- injection Ht2 as ->. eapply (af_file _ _ _ _ AF c t); eauto.
              -- destruct (Z.eq_dec m c) as [->|Hne]; [congruence|]. apply cmd_target_sink in Ht2.
                 eapply (af_pipe _ _ _ _ AF m c t); eauto.
        - apply pend_none. eapply no_stream_for_sink; eauto. split; auto. }
      rewrite Hp, !app_nil_r. auto.
  - repeat split; auto.
Qed.

(* ---- small frame facts ---- *)
Lemma finv_fields s s' : st_fs s' = st_fs s -> st_outs s' = st_outs s ->
  (forall t, expected_file E fs0 (st_log s') t = expected_file E fs0 (st_log s) t) -> finv s -> finv s'.
Proof.
  intros H1 H2 H3 ((Hk & Hs) & Hf). unfold finv, outs_ok, file_inv. rewrite H1, H2. repeat split; auto.
  intros t. rewrite H3. auto.
Qed.
Lemma finv_set_ins s i : finv s -> finv (set_ins s i).
Proof. apply finv_fields; auto. Qed.
Lemma finv_add_obs s o : finv s -> finv (add_obs s o).
Proof. apply finv_fields; auto. Qed.
Definition file_irrel (e : event) : Prop :=
  match e with
  | EvOpen _ KFile true => False
  | EvWrite WStdout _ => True
  | EvWrite _ _ => False
  | EvChildAppend _ _ => False
  | _ => True
  end.
Lemma finv_add_log s e : file_irrel e -> finv s -> finv (add_log s e).
Proof.
  intros He. apply finv_fields; auto. intros t. cbn [st_log add_log expected_file].
  destruct e as [n [|] [|]|[| |]| | | |]; cbn in He; try contradiction; auto.
Qed.
Lemma finv_if_print_errorf (b : bool) s : finv s -> finv (if b then print_errorf E s else s).
Proof. apply finv_same. apply sf_if_print_errorf. Qed.
Lemma scan_stream_finv s n i : finv s -> finv (scan_stream s n i).
Proof.
  unfold scan_stream. destruct (is_rest i); [apply finv_add_obs|]. destruct (scan_line _ _).
  intros H. repeat apply finv_add_obs. apply finv_set_ins. auto.
Qed.

(* a new stream with an empty buffer, for a name that has none *)
Lemma finv_add s n o : finv s -> alookup n (st_outs s) = None -> os_buf o = [] ->
  stream_ok F P (st_fs s) n o ->
  (forall t, stream_target E n o = Some t -> pend E (st_outs s) t = []) ->
  finv (set_outs s (aset n o (st_outs s))).
Proof.
  intros ((Hnd & Hs) & Hf) Hl Hb Hok Hp. split.
  - split; cbn [st_outs st_fs set_outs].
    + apply keys_nodup_aset; auto.
    + intros m o2 Hin. apply In_aset in Hin. destruct Hin as [[-> ->]|[Hin _]]; auto.
  - intros t. cbn [st_outs st_fs st_log set_outs]. unfold aset. cbn [pend]. rewrite aremove_absent by auto.
    rewrite Hf. destruct (tgt_is (stream_target E n o) t) eqn:Et; auto.
    apply tgt_is_true in Et. rewrite (Hp _ Et), Hb. auto.
Qed.

Lemma finv_add' s n o outs : outs = st_outs s -> finv s -> alookup n (st_outs s) = None -> os_buf o = [] ->
  stream_ok F P (st_fs s) n o ->
  (forall t, stream_target E n o = Some t -> pend E (st_outs s) t = []) ->
  finv (set_outs s (aset n o outs)).
Proof. intros ->. apply finv_add. Qed.

Lemma amem_false_lookup {A} n (l : list (name * A)) : amem n l = false -> alookup n l = None.
Proof. unfold amem. destruct (alookup n l); auto; discriminate. Qed.

Lemma get_output_stream_finv s d s' r : finv s ->
  match d with DRedir RPipe c => P c | DRedir _ n => F n | _ => True end ->
  get_output_stream E s d = (s', r) ->
  finv s' /\ (forall n, r = Some (TStream n) -> alookup n (st_outs s') <> None).
Proof.
  intros Hi Hw. unfold get_output_stream. destruct d as [| | |rd n].
  - intros H; injection H as <- <-. split; auto. discriminate.
  - intros H; injection H as <- <-. split; auto. discriminate.
  - intros H; injection H as <- <-. split; [|discriminate]. eapply finv_same; [apply sf_flush_stdout|auto].
  - destruct (amem n (st_ins s)); [intros H; injection H as <- <-; split; [auto|discriminate]|].
    destruct (amem n (st_outs s)) eqn:Em.
    { intros H; injection H as <- <-. split; auto. intros n0 H0; injection H0 as <-. unfold amem in Em.
      destruct (alookup n (st_outs s)); [discriminate|discriminate]. }
    apply amem_false_lookup in Em.
    pose proof (sf_flush_stdout E s) as Hsf. fold (flush_out_err E s) in Hsf. set (s1 := flush_out_err E s) in *.
    pose proof (finv_same _ _ Hsf Hi) as Hi1. destruct Hsf as (S1 & S2 & S3 & S4).
    assert (Em1 : alookup n (st_outs s1) = None) by (rewrite S2; auto).
    assert (Hlk : forall (s2 : state) o outs, alookup n (st_outs (set_outs s2 (aset n o outs))) <> None)
      by (intros; cbn [st_outs set_outs]; rewrite alookup_aset_same; discriminate).
    destruct rd.
    + (* > *)
      destruct (e_bad E n); [intros H; injection H as <- <-; split; [auto|discriminate]|].
      intros H; injection H as <- <-. split; [|intros n0 H0; injection H0 as <-; apply Hlk].
      set (s2 := add_log (set_fs s1 (aset n [] (st_fs s1))) (EvOpen n KFile true)).
      assert (Hi2 : finv s2).
      { destruct Hi1 as ((Hnd & Hs) & Hf). split.
        - split; cbn [st_outs st_fs s2 add_log set_fs]; auto. intros m o Hin. pose proof (Hs _ _ Hin) as Hok.
          unfold stream_ok in *. destruct (os_kind o); auto. destruct Hok as (HF & Hoff). split; auto. intros off Ho.
          rewrite fs_get_aset. destruct (n =? m) eqn:Enm; auto. apply Z.eqb_eq in Enm. subst m.
          apply In_alookup in Hin; auto. congruence.
        - intros t. cbn [st_outs st_fs st_log s2 add_log set_fs expected_file]. rewrite fs_get_aset.
          destruct (n =? t) eqn:Ent; auto. apply Z.eqb_eq in Ent. subst t.
          rewrite pend_none; auto. eapply no_stream_for_file; eauto. split; auto. }
      apply finv_add'; auto.
      * unfold stream_ok. cbn [os_kind os_off st_fs s2 add_log set_fs]. split; auto.
        intros off H; injection H as <-. rewrite fs_get_aset, Z.eqb_refl. auto.
      * unfold stream_target. cbn [os_kind]. intros t H; injection H as <-.
        apply pend_none. destruct Hi2 as (Hok2 & _). apply (no_stream_for_file s2); auto.
    + (* >> *)
      destruct (e_bad E n); [intros H; injection H as <- <-; split; [auto|discriminate]|].
      intros H; injection H as <- <-. split; [|intros n0 H0; injection H0 as <-; apply Hlk].
      set (s2 := add_log (set_fs s1 (fs_append (st_fs s1) n [])) (EvOpen n KFile false)).
      assert (Hfs2 : forall t, fs_get (st_fs s2) t = fs_get (st_fs s1) t).
      { intros t. cbn [st_fs s2 add_log set_fs]. rewrite fs_get_append. destruct (n =? t) eqn:Ent; auto.
        apply Z.eqb_eq in Ent. subst. apply app_nil_r. }
      assert (Hi2 : finv s2).
      { destruct Hi1 as ((Hnd & Hs) & Hf). split.
        - split; cbn [st_outs s2 add_log set_fs]; auto. intros m o Hin. pose proof (Hs _ _ Hin) as Hok.
          unfold stream_ok in *. destruct (os_kind o); auto. destruct Hok as (HF & Hoff). split; auto. intros off Ho.
          rewrite Hfs2. auto.
        - intros t. rewrite Hfs2. cbn [st_outs st_log s2 add_log set_fs expected_file]. auto. }
      apply finv_add'; auto.
      * unfold stream_ok. cbn [os_kind os_off]. split; auto. discriminate.
      * unfold stream_target. cbn [os_kind]. intros t H; injection H as <-.
        apply pend_none. destruct Hi2 as (Hok2 & _). apply (no_stream_for_file s2); auto.
    + (* | *)
      match goal with |- context [if ?c then set_unmod s1 else s1] => set (s2 := if c then set_unmod s1 else s1) end.
      assert (Hsf2 : same_files E s1 s2) by apply sf_if_unmod.
      pose proof (finv_same _ _ Hsf2 Hi1) as Hi2.
      pose proof (finv_add_log s2 (EvOpen n KCmd false) I Hi2) as Hi3.
      assert (Hq : Q n) by (apply (af_PQ _ _ _ _ AF); auto).
      assert (Em3 : alookup n (st_outs (add_log s2 (EvOpen n KCmd false))) = None).
      { destruct Hsf2 as (_ & T2 & _). cbn [st_outs add_log]. rewrite T2. auto. }
      destruct (start_proc_finv _ n Hi3 Hq) as (Hi4 & O4 & _); [intros o Ho; congruence|].
      destruct (start_proc E _ n) as [s4 cg]. cbn [fst] in *.
      pose proof (sf_child_out E s4 cg (c_stdout (e_spec E n))) as Hsf5.
      destruct (child_out E s4 cg _) as [s5 ok]. cbn [fst] in *.
      pose proof (finv_same _ _ Hsf5 Hi4) as Hi5.
      match goal with |- context [if ?c then set_unmod s5 else s5] => set (s6 := if c then set_unmod s5 else s5) end.
      assert (Hsf6 : same_files E s5 s6) by apply sf_if_unmod.
      pose proof (finv_same _ _ Hsf6 Hi5) as Hi6.
      assert (Em6 : alookup n (st_outs s6) = None).
      { destruct Hsf6 as (_ & T6 & _). destruct Hsf5 as (_ & T5 & _). rewrite T6, T5, O4. auto. }
      intros H; injection H as <- <-. split; [|intros n0 H0; injection H0 as <-; apply Hlk].
      apply finv_add'; auto.
      * unfold stream_target. cbn [os_kind]. intros t Ht.
        apply pend_none. destruct Hi6. eapply no_stream_for_sink; eauto. apply cmd_target_sink; auto.
Qed.

Lemma write_ostream_files s n o p s' o' :
  write_ostream E s n o p = (s', o') -> stream_ok F P (st_fs s) n o ->
  exists f, st_outs s' = st_outs s /\
  (forall t, fs_get (st_fs s') t = fs_get (st_fs s) t ++ (if tgt_is (stream_target E n o) t then f else [])) /\
  (forall t, expected_file E fs0 (st_log s') t = expected_file E fs0 (st_log s) t) /\
  os_kind o' = os_kind o /\ os_buf o ++ p = f ++ os_buf o' /\ stream_ok F P (st_fs s') n o'.
Proof.
  unfold write_ostream. destruct (buf_bytes (e_fcap E) (os_buf o) p) as [f r] eqn:Eb.
  destruct (deliver E s n o f) as [s1 o1] eqn:Ed. intros H Hok. injection H as <- <-.
  destruct (deliver_files _ _ _ _ _ _ Ed Hok) as (A1 & A2 & A3 & A4 & A5 & A6 & A7).
  exists f. cbn [os_kind os_buf]. apply buf_bytes_spec in Eb.
  repeat split; auto; unfold stream_ok in *; cbn [os_kind os_off]; auto.
Qed.

Lemma close_ostream_files s n o s' code err :
  close_ostream E s n o = (s', code, err) -> stream_ok F P (st_fs s) n o ->
  st_outs s' = st_outs s /\
  (forall t, fs_get (st_fs s') t = fs_get (st_fs s) t ++ (if tgt_is (stream_target E n o) t then os_buf o else [])) /\
  (forall t, expected_file E fs0 (st_log s') t = expected_file E fs0 (st_log s) t).
Proof.
  unfold close_ostream. destruct (flush_ostream E s n o) as [s1 o1] eqn:Ef. intros H Hok.
  destruct (flush_ostream_files _ _ _ _ _ Ef Hok) as (A1 & A2 & A3 & A4 & A5 & A6 & A7).
  destruct (os_kind o1).
  - injection H as <- <- <-. auto.
  - pose proof (sf_child_eof E s1 (os_cgfail o1)) as Hsf. destruct (child_eof E s1 _) as [s2 ok]. cbn [fst] in Hsf.
    destruct (wait_result _ _). injection H as <- <- <-. destruct Hsf as (B1 & B2 & B3 & B4).
    rewrite B1, B2. repeat split; auto. intros t. rewrite B4. auto.
Qed.

Lemma finv_add_synced s n : finv s -> finv (add_synced s n).
Proof. apply finv_fields; auto. Qed.

Lemma getline_file_finv s n s' oc : finv s -> getline_file E s n = (s', oc) -> finv s'.
Proof.
  intros Hi0. unfold getline_file. set (s0 := if sink_busy E s n then set_unmod s else s).
  assert (Hi : finv s0) by (subst s0; apply (finv_same _ _ (sf_if_unmod E _ _)); auto). clearbody s0.
  destruct (amem n (st_outs s0)); [intros H; injection H as <- <-; auto|].
  destruct (alookup n (st_ins s0)); [intros H; injection H as <- <-; apply scan_stream_finv; auto|].
  destruct (alookup n (st_fs s0)); intros H; injection H as <- <-.
  - apply scan_stream_finv. apply finv_set_ins. auto.
  - apply finv_add_obs. auto.
Qed.

Lemma sf_write_stdout_rec s rec : same_files E s (fst (write_stdout_rec E s rec)).
Proof.
  unfold write_stdout_rec. destruct (e_mode E) eqn:Em; try apply sf_write_stdout.
  destruct (cap <? scratch_size)%nat; [|apply sf_write_stdout].
  apply (sf_trans _ _ (touch E s)); [apply sf_touch|].
  set (s1 := touch E s).
  assert (H : same_files E s1 (add_log s1 (EvWrite WStdout rec))) by (unfold same_files; cbn; auto).
  eapply sf_trans; [exact H|].
  destruct (write_chunks_buf _ _ _ _) as [[? ?] ?]. cbn [fst]. apply sf_fields; auto.
Qed.

Lemma step_print_finv s d ps wr s' oc : finv s ->
  match d with DRedir RPipe c => P c | DRedir _ n => F n | _ => True end ->
  (forall s1, same_files E s1 (fst (wr s1))) ->
  step_print E s d ps wr = (s', oc) -> finv s'.
Proof.
  intros Hi Hw' Hwr. unfold step_print.
    destruct (get_output_stream E s d) as [s1 r] eqn:Eg.
    destruct (get_output_stream_finv _ _ _ _ Hi Hw' Eg) as (Hi1 & Hopen).
    destruct r as [[|n]|]; [| |intros H; injection H as <- <-; auto].
    + pose proof (Hwr s1) as Hsf. destruct (wr s1) as [s2 [|]]; cbn [fst] in Hsf;
        intros H; injection H as <- <-; eapply finv_same; eauto.
    + destruct (alookup n (st_outs s1)) as [os|] eqn:El; [|intros H; injection H as <- <-; auto].
      set (w := match os_kind os with KFile => WFile n | KCmd => WCmd n end).
      set (s1' := add_log s1 (EvWrite w (concat ps))).
      destruct (write_ostream E s1' n os (concat ps)) as [s2 os'] eqn:Ew.
      pose proof (finv_lookup_ok _ _ _ Hi1 El) as Hok.
      destruct (write_ostream_files _ _ _ _ _ _ Ew Hok) as (f & A1 & A2 & A3 & A4 & A5 & A6).
      intros H; injection H as <- <-.
      apply (finv_update s1 n os s2 os' (concat ps) f); auto.
      intros t. rewrite A3. cbn [st_log s1' add_log expected_file].
      assert (Hwt : wdest_target E w = stream_target E n os).
      { subst w. unfold stream_target. destruct (os_kind os); auto. }
      rewrite Hwt. destruct (tgt_is _ t); [auto|rewrite app_nil_r; auto].
Qed.

Lemma step_finv s o s' oc : finv s -> op_within F P Q o -> step E s o = (s', oc) -> finv s'.
Proof.
  intros Hi Hw. destruct o as [d ps|n|[n|]|c|n|c| |code| |n|d rec]; cbn [step].
  - (* Print *)
    assert (Hw' : match d with DRedir RPipe c => P c | DRedir _ n => F n | _ => True end)
      by (cbn [op_within] in Hw; destruct d as [| | |[| |] n]; auto).
    apply (step_print_finv s d ps _ s' oc Hi Hw'). intros s1. apply sf_write_stdout.
  - (* Close *)
    destruct (alookup n (st_ins s)) as [i|] eqn:Ei.
    + destruct (if is_cmd i then _ else _) as [code err]. intros H; injection H as <- <-.
      apply finv_add_obs. apply finv_if_print_errorf. apply finv_add_log; [exact I|]. apply finv_set_ins. auto.
    + destruct (alookup n (st_outs s)) as [os|] eqn:El; [|intros H; injection H as <- <-; apply finv_add_obs; auto].
      destruct (close_ostream E _ n os) as [[s1 code] err] eqn:Ec.
      pose proof (finv_lookup_ok _ _ _ Hi El) as Hok.
      destruct (close_ostream_files _ _ _ _ _ _ Ec Hok) as (A1 & A2 & A3).
      intros H; injection H as <- <-.
      apply finv_add_obs. apply finv_if_print_errorf. apply finv_add_log; [exact I|].
      apply (finv_remove s n os s1); auto.
  - (* fflush(name) *)
    destruct (alookup n (st_outs s)) as [os|] eqn:El; intros H; injection H as <- <-; apply finv_add_obs.
    + apply flush_named_finv; auto.
    + apply (finv_if_print_errorf true). auto.
  - (* fflush() *)
    destruct (flush_all_finv s Hi) as (Hi1 & _). destruct (flush_all E s) as [s1 ok]. cbn [fst] in Hi1.
    intros H; injection H as <- <-. apply finv_add_obs. auto.
  - (* system *)
    cbn [op_within] in Hw.
    destruct (flush_all_finv s Hi) as (Hi1 & _ & _ & Hb1). destruct (flush_all E s) as [s1 ok]. cbn [fst] in *.
    destruct (start_proc_finv s1 c Hi1 Hw) as (Hi2 & _); [intros o Ho; eapply Hb1; eauto|].
    destruct (start_proc E s1 c) as [s2 cg]. cbn [fst] in Hi2.
    pose proof (sf_child_out E s2 cg (c_stdout (e_spec E c))) as Hsf3. destruct (child_out E s2 cg _) as [s3 ok3]. cbn [fst] in Hsf3.
    pose proof (sf_child_eof E s3 (negb ok3)) as Hsf4. destruct (child_eof E s3 _) as [s4 ok4]. cbn [fst] in Hsf4.
    destruct (wait_result _ _) as [code err]. intros H; injection H as <- <-.
    apply finv_add_obs. apply finv_if_print_errorf. eapply finv_same; [exact Hsf4|]. eapply finv_same; [exact Hsf3|]. auto.
  - (* getline < file *)
    apply getline_file_finv; auto.
  - (* cmd | getline *)
    cbn [op_within] in Hw.
    destruct (amem c (st_outs s)) eqn:Em; [intros H; injection H as <- <-; auto|]. apply amem_false_lookup in Em.
    destruct (alookup c (st_ins s)); [intros H; injection H as <- <-; apply scan_stream_finv; auto|].
    pose proof (sf_flush_stdout E s) as Hsf. fold (flush_out_err E s) in Hsf.
    pose proof (finv_same _ _ Hsf Hi) as Hi1. destruct Hsf as (_ & S2 & _).
    destruct (start_proc_finv _ c Hi1 Hw) as (Hi2 & _); [intros o Ho; rewrite S2 in Ho; congruence|].
    destruct (start_proc E _ c) as [s2 cg]. cbn [fst] in Hi2.
    intros H; injection H as <- <-. apply scan_stream_finv. apply finv_set_ins. auto.
  - intros H; injection H as <- <-. apply finv_add_obs. eapply finv_same; [apply sf_flush_stdout|auto].
  - intros H; injection H as <- <-. auto.
  - intros H; injection H as <- <-. auto.
  - (* wait for a file *)
    destruct (amem n (st_outs s)); [intros H; injection H as <- <-; auto|].
    destruct (negb (amem n (st_ins s)) && negb (amem n (st_fs s))).
    + intros H; injection H as <- <-. apply (finv_same _ _ (sf_if_unmod E true _)); auto.
    + apply getline_file_finv. apply finv_add_synced; auto.
  - (* print in CSV/TSV mode *)
    assert (Hw' : match d with DRedir RPipe c => P c | DRedir _ n => F n | _ => True end)
      by (cbn [op_within] in Hw; destruct d as [| | |[| |] n]; auto).
    apply (step_print_finv s d [rec] _ s' oc Hi Hw'). intros s1. apply sf_write_stdout_rec.
Qed.

Lemma exec_finv ops : forall s s' r, finv s -> Forall (op_within F P Q) ops -> exec E s ops = (s', r) -> finv s'.
Proof.
  induction ops as [|o ops IH]; intros s s' r Hi Hw; cbn [exec].
  - intros H; injection H as <- <-; auto.
  - inversion Hw as [|? ? Hw1 Hw2]; subst.
    destruct (step E s o) as [s1 [| |]] eqn:Es; pose proof (step_finv _ _ _ _ Hi Hw1 Es) as Hi1.
    + apply IH; auto.
    + intros H; injection H as <- <-; auto.
    + intros H; injection H as <- <-; auto.
Qed.

Lemma close_streams_finv ns : forall s, finv s ->
  finv (close_streams E s ns) /\
  (forall m, alookup m (st_outs (close_streams E s ns)) <> None -> alookup m (st_outs s) <> None /\ ~ In m ns).
Proof.
  induction ns as [|n ns IH]; intros s Hi; cbn [close_streams].
  - split; auto.
  - destruct (alookup n (st_outs s)) as [o|] eqn:El.
    + destruct (close_ostream E _ n o) as [[s1 code] err] eqn:Ec.
      pose proof (finv_lookup_ok _ _ _ Hi El) as Hok.
      destruct (close_ostream_files _ _ _ _ _ _ Ec Hok) as (A1 & A2 & A3).
      assert (Hi1 : finv (add_log s1 (EvClose n false code))).
      { apply finv_add_log; [exact I|]. apply (finv_remove s n o s1); auto. }
      destruct (IH _ Hi1) as (B1 & B2). split; auto.
      intros m Hm. destruct (B2 m Hm) as (C1 & C2). cbn [st_outs add_log] in C1. rewrite A1 in C1. cbn [st_outs set_outs] in C1.
      rewrite alookup_aremove in C1. destruct (n =? m) eqn:Enm; [congruence|]. apply Z.eqb_neq in Enm.
      split; auto. intros [H|H]; auto.
    + destruct (IH _ Hi) as (B1 & B2). split; auto.
      intros m Hm. destruct (B2 m Hm) as (C1 & C2). split; auto. intros [H|H]; auto. subst. congruence.
Qed.

Lemma all_none_nil {A} (l : list (name * A)) : (forall m, alookup m l = None) -> l = [].
Proof. destruct l as [|[k v] l]; auto. intros H. specialize (H k). cbn [alookup] in H. rewrite Z.eqb_refl in H. discriminate. Qed.

Lemma close_all_finv s : finv s -> finv (close_all E s) /\ st_outs (close_all E s) = [].
Proof.
  intros Hi. unfold close_all.
  destruct (close_streams_finv (map fst (st_outs (set_ins s []))) _ (finv_set_ins s [] Hi)) as (B1 & B2).
  set (s1 := close_streams E _ _) in *.
  pose proof (sf_flush_stdout E s1) as Hsf. fold (flush_out_err E s1) in Hsf.
  split; [eapply finv_same; eauto|]. destruct Hsf as (_ & S2 & _). rewrite S2.
  apply all_none_nil. intros m. destruct (alookup m (st_outs s1)) eqn:El; auto.
  exfalso. destruct (B2 m) as (C1 & C2); [congruence|]. apply C2. apply In_keys_lookup. auto.
Qed.

Lemma init_finv fs : fs = fs0 -> finv (init_state fs None) /\ forall l, finv (init_state fs l).
Proof.
  intros ->. assert (H : forall l, finv (init_state fs0 l)).
  { intros l. split.
    - split; cbn; [constructor|intros ? ? []].
    - intros t. cbn. rewrite app_nil_r. auto. }
  split; auto.
Qed.

(* delivered_in_order, files: whatever way the run ends and whether or not
   standard output fails, every file holds exactly what the log prescribes *)
Theorem files_delivered limit ops s r :
  Forall (op_within F P Q) ops ->
  run E (init_state fs0 limit) ops = (s, r) ->
  st_outs s = [] /\ forall t, fs_get (st_fs s) t = expected_file E fs0 (st_log s) t.
Proof.
  intros Hw. unfold run. destruct (exec E _ ops) as [s1 r1] eqn:Ee. intros H; injection H as <- <-.
  destruct (init_finv fs0 eq_refl) as (_ & H0).
  pose proof (exec_finv _ _ _ _ (H0 limit) Hw Ee) as Hi1.
  destruct (close_all_finv s1 Hi1) as ((_ & Hf) & Ho). split; auto.
  intros t. rewrite Hf, Ho. cbn [pend]. rewrite app_nil_r. auto.
Qed.
End Files.
