(* C01: simulation, expressions. *)
From Verif Require Import Lib.Base Lib.Dyadic Model.Ast Model.Instr Model.Compiler Model.Prims Model.VM Model.AstSem
  Proofs.CodeAt Proofs.VMLemmas Proofs.Reach Proofs.PrimsOk Proofs.CompLemmas Proofs.SimDefs.

Section SimExpr.
  Variables value St err : Type.
  Variable P : prims value St err.
  Variable FN : list func.
  Hypothesis OK : prims_ok P.
  Hypothesis CI : concat_indep P.      (* guard of F-C01-3, used only for chains of three or more operands *)

  Notation F := (F FN).
  Notation reaches := (reaches P F).
  Notation stops := (stops P F).
  Notation SimExpr := (SimExpr P FN).
  Notation Sim := (Sim P FN).

  (* one simple instruction at the head of the remaining code *)
  Lemma r_simple C p i c stk m stk' m' pe se me :
    code_at C p (i :: c) -> is_control i = false -> exec_simple P i stk m = SOk stk' m' ->
    reaches C (p + isize i) stk' m' pe se me -> reaches C p stk m pe se me.
  Proof.
    intros H Hc He Hr. eapply reaches_trans; [eapply reaches_simple; eassumption|exact Hr].
  Qed.

  Lemma reaches_cast C p s m p' s' m' p'' :
    reaches C p s m p' s' m' -> p' = p'' -> reaches C p s m p'' s' m'.
  Proof. intros H <-. exact H. Qed.


  (* result of an evaluation as seen from the VM: the value lands on top of [base] at [pe] *)
  Definition post (C : code) (p : Z) (s : list value) (m : mstate value St) (pe : Z) (base : list value)
             (r : eres value St err value) : Prop :=
    match r with
    | ENormal v m' => reaches C p s m pe (v :: base) m'
    | EAbort x m' => stops C p s m (VAbort x m')
    | _ => True
    end.

  Lemma post_reaches C p s m p1 s1 m1 pe base r :
    reaches C p s m p1 s1 m1 -> post C p1 s1 m1 pe base r -> post C p s m pe base r.
  Proof.
    intros Hr Hp. destruct r as [v m'|x m'| |]; cbn [post] in *; try exact I.
    - eapply reaches_trans; eassumption.
    - eapply reaches_stops; [eassumption|eassumption|discriminate].
  Qed.

  Lemma post_bind_expr n (SE : SimExpr n) e m C p s rest pe base (K : value -> mstate value St -> eres value St err value) :
    code_at C p (comp_expr e ++ rest) ->
    (forall v m1, code_at C (p + csize (comp_expr e)) rest ->
                  post C (p + csize (comp_expr e)) (v :: s) m1 pe base (K v m1)) ->
    post C p s m pe base (ebind (eval P FN n e m) K).
  Proof.
    intros Hc HK. apply code_at_app in Hc as [Ha Hb].
    pose proof (SE e m C p s Ha) as H.
    destruct (eval P FN n e m) as [v m1|x m1| |]; cbn [ebind]; try exact I.
    - eapply post_reaches; [exact H|]. apply HK. exact Hb.
    - exact H.
  Qed.


  Notation SimExprs := (SimExprs P FN).
  Notation SimArgs := (SimArgs P FN).
  Notation SimIndex := (SimIndex P FN).
  Notation SimLref := (SimLref P FN).
  Notation SimCond := (SimCond P FN).
  Notation SimCat := (SimCat P FN).

  Lemma post_bind_exprs n (SEs : SimExprs n) es m C p s rest pe base (K : list value -> mstate value St -> eres value St err value) :
    code_at C p (comp_exprs es ++ rest) ->
    (forall vs m1, zlen vs = exprs_len es -> code_at C (p + csize (comp_exprs es)) rest ->
                   post C (p + csize (comp_exprs es)) (rev vs ++ s) m1 pe base (K vs m1)) ->
    post C p s m pe base (ebind (eval_exprs P FN n es m) K).
  Proof.
    intros Hc HK. apply code_at_app in Hc as [Ha Hb].
    pose proof (SEs es m C p s Ha) as H.
    destruct (eval_exprs P FN n es m) as [vs m1|x m1| |]; cbn [ebind]; try exact I.
    - destruct H as [H Hl]. eapply post_reaches; [exact H|]. apply HK; assumption.
    - exact H.
  Qed.

  Lemma post_bind_args n (SA : SimArgs n) a m C p s rest pe base (K : list value -> mstate value St -> eres value St err value) :
    code_at C p (comp_args a ++ rest) ->
    (forall vs m1, zlen vs = args_scalars a -> code_at C (p + csize (comp_args a)) rest ->
                   post C (p + csize (comp_args a)) (rev vs ++ s) m1 pe base (K vs m1)) ->
    post C p s m pe base (ebind (eval_args P FN n a m) K).
  Proof.
    intros Hc HK. apply code_at_app in Hc as [Ha Hb].
    pose proof (SA a m C p s Ha) as H.
    destruct (eval_args P FN n a m) as [vs m1|x m1| |]; cbn [ebind]; try exact I.
    - destruct H as [H Hl]. eapply post_reaches; [exact H|]. apply HK; assumption.
    - exact H.
  Qed.

  Lemma post_bind_index n (SI : SimIndex n) es m C p s rest pe base (K : value -> mstate value St -> eres value St err value) :
    code_at C p (comp_index es ++ rest) ->
    (forall key key' m1, keq P key key' -> code_at C (p + csize (comp_index es)) rest ->
                   post C (p + csize (comp_index es)) (key' :: s) m1 pe base (K key m1)) ->
    post C p s m pe base (ebind (eval_index P FN n es m) K).
  Proof.
    intros Hc HK. apply code_at_app in Hc as [Ha Hb].
    pose proof (SI es m C p s Ha) as H.
    destruct (eval_index P FN n es m) as [key m1|x m1| |]; cbn [ebind]; try exact I.
    - destruct H as (key' & Hk & H). eapply post_reaches; [exact H|]. eapply HK; eassumption.
    - exact H.
  Qed.

  Lemma post_bind_lref n (SL : SimLref n) lv m C p s rest pe base (K : lref value -> mstate value St -> eres value St err value) :
    code_at C p (lv_code lv ++ rest) ->
    (forall r r' m1, lv_ref lv r -> ref_eq P r r' -> code_at C (p + csize (lv_code lv)) rest ->
                   post C (p + csize (lv_code lv)) (ref_stack r' s) m1 pe base (K r m1)) ->
    post C p s m pe base (ebind (eval_lref P FN n lv m) K).
  Proof.
    intros Hc HK. apply code_at_app in Hc as [Ha Hb].
    pose proof (SL lv m C p s Ha) as H.
    destruct (eval_lref P FN n lv m) as [r m1|x m1| |]; cbn [ebind]; try exact I.
    - destruct H as (r' & Hlr & Hk & H). eapply post_reaches; [exact H|]. eapply HK; eassumption.
    - exact H.
  Qed.

  (* one simple instruction, then continue *)
  Lemma post_simple C p i c s m s' m' pe base r :
    code_at C p (i :: c) -> is_control i = false -> exec_simple P i s m = SOk s' m' ->
    (code_at C (p + isize i) c -> post C (p + isize i) s' m' pe base r) ->
    post C p s m pe base r.
  Proof.
    intros H Hc He Hk. eapply post_reaches; [eapply reaches_simple; eassumption|].
    apply Hk. eapply code_at_tail. exact H.
  Qed.

  Lemma post_simple_err C p i c s m e m' pe base :
    code_at C p (i :: c) -> is_control i = false -> exec_simple P i s m = SErr e m' ->
    post C p s m pe base (EAbort (XError e) m').
  Proof. intros H Hc He. cbn [post]. eapply stops_simple_err; eassumption. Qed.

  Lemma post_done C p s m v base pe : p = pe -> s = v :: base -> post C p s m pe base (ENormal v m).
  Proof. intros -> ->. cbn [post]. apply reaches_refl. Qed.


  Lemma post_pos C p p' s m pe base r : p' = p -> post C p s m pe base r -> post C p' s m pe base r.
  Proof. intros ->. exact (fun x => x). Qed.

  Lemma post_pos_end C p s m pe pe' base r : pe = pe' -> post C p s m pe base r -> post C p s m pe' base r.
  Proof. intros ->. exact (fun x => x). Qed.

  Lemma post_jump C p off c s m pe base r :
    code_at C p (IJump off :: c) ->
    post C (p + 2 + off) s m pe base r -> post C p s m pe base r.
  Proof.
    intros H Hk. eapply post_reaches; [|exact Hk]. apply reaches_step.
    erewrite step_at by exact H. reflexivity.
  Qed.

  Lemma post_jumpfalse C p off c v s m pe base r :
    code_at C p (IJumpFalse off :: c) ->
    post C (if p_to_bool P v then p + 2 else p + 2 + off) s m pe base r -> post C p (v :: s) m pe base r.
  Proof.
    intros H Hk. eapply post_reaches; [|exact Hk]. apply reaches_step.
    erewrite step_at by exact H. cbn [isize]. destruct (p_to_bool P v); reflexivity.
  Qed.

  Lemma post_jumptrue C p off c v s m pe base r :
    code_at C p (IJumpTrue off :: c) ->
    post C (if p_to_bool P v then p + 2 + off else p + 2) s m pe base r -> post C p (v :: s) m pe base r.
  Proof.
    intros H Hk. eapply post_reaches; [|exact Hk]. apply reaches_step.
    erewrite step_at by exact H. cbn [isize]. destruct (p_to_bool P v); reflexivity.
  Qed.

  Lemma pop_n_rev (l : list value) : forall stk acc, pop_n (length l) (rev l ++ stk) acc = Some (l ++ acc, stk).
  Proof.
    induction l as [|x l IH] using rev_ind; intros stk acc.
    - reflexivity.
    - rewrite rev_app_distr, app_length, Nat.add_comm. cbn [rev app length Nat.add pop_n].
      rewrite IH. rewrite <- app_assoc. reflexivity.
  Qed.

  Lemma pop_n_rev_z (l : list value) n stk : zlen l = n -> pop_n (Z.to_nat n) (rev l ++ stk) [] = Some (l, stk).
  Proof.
    intros <-. unfold zlen. rewrite Nat2Z.id, pop_n_rev, app_nil_r. reflexivity.
  Qed.

  Lemma ebind_ret (r : eres value St err value) : ebind r (fun a m => ENormal a m) = r.
  Proof. destruct r; reflexivity. Qed.

  (* after r has produced its value at p1, the remaining code leads on to pe *)
  Lemma post_then C p s m p1 pe base r :
    post C p s m p1 base r ->
    (forall v m', reaches C p1 (v :: base) m' pe (v :: base) m') ->
    post C p s m pe base r.
  Proof.
    intros H Hk. destruct r as [v m'|x m'| |]; cbn [post] in *; try exact I.
    - eapply reaches_trans; [exact H|apply Hk].
    - exact H.
  Qed.

  Lemma post_bind_cond n (SC : SimCond n) e inv off m C p s rest pe base (K : value -> mstate value St -> eres value St err value) :
    code_at C p (comp_cond e inv off ++ rest) ->
    (forall v m1, code_at C (p + csize (comp_cond e inv off)) rest ->
                  post C (if xorb (p_to_bool P v) inv then p + csize (comp_cond e inv off) + off
                          else p + csize (comp_cond e inv off)) s m1 pe base (K v m1)) ->
    post C p s m pe base (ebind (eval P FN n e m) K).
  Proof.
    intros Hc HK. apply code_at_app in Hc as [Ha Hb].
    pose proof (SC e inv off m C p s Ha) as H.
    destruct (eval P FN n e m) as [v m1|x m1| |]; cbn [ebind]; try exact I.
    - eapply post_reaches; [exact H|]. apply HK. exact Hb.
    - exact H.
  Qed.

  Lemma post_bind_cat n (SCat : SimCat n) e m C p s rest pe base (K : value -> mstate value St -> eres value St err value) :
    code_at C p (comp_cat e ++ rest) ->
    (forall v0 vs m1, zlen (v0 :: vs) = cat_count e -> code_at C (p + csize (comp_cat e)) rest ->
                  post C (p + csize (comp_cat e)) (rev (v0 :: vs) ++ s) m1 pe base
                       (K (fold_left (p_concat P (ms m1)) vs v0) m1)) ->
    post C p s m pe base (ebind (eval P FN n e m) K).
  Proof.
    intros Hc HK. apply code_at_app in Hc as [Ha Hb].
    pose proof (SCat e m C p s Ha) as H.
    destruct (eval P FN n e m) as [v m1|x m1| |]; cbn [ebind]; try exact I.
    - destruct H as (v0 & vs & Hl & -> & H). eapply post_reaches; [exact H|]. apply HK; assumption.
    - exact H.
  Qed.

  (* reading the current value of an evaluated target: lv_get *)
  Lemma post_read lv r r' m C p s rest pe base (K : value -> mstate value St -> eres value St err value) :
    lv_ref lv r -> ref_eq P r r' -> code_at C p (lv_get lv ++ rest) ->
    (forall old m', code_at C (p + csize (lv_get lv)) rest ->
                    post C (p + csize (lv_get lv)) (old :: ref_stack r' s) m' pe base (K old m')) ->
    post C p (ref_stack r' s) m pe base (ebind (lref_read P m r) K).
  Proof.
    intros Hlr Hre Hc HK.
    destruct lv as [sc i|e|sc i idx], r as [sc1 i1|idx1|sc1 i1 k1]; cbn [lv_ref] in Hlr; try contradiction;
      destruct r' as [sc2 i2|idx2|sc2 i2 k2]; cbn [ref_eq] in Hre; try contradiction;
      cbn [lv_get lref_read ref_stack] in *.
    - destruct Hlr as [<- <-]. destruct Hre as [<- <-].
      apply code_at_app in Hc as [Ha Hb]. cbn [csize] in Hb.
      destruct sc; cbn [var_read var_get] in *.
      + destruct (frame_get m i) as [v|] eqn:Ef; cbn [ebind]; [|exact I].
        eapply post_simple; [exact Ha|reflexivity|cbn [exec_simple]; rewrite Ef; reflexivity|intros _].
        eapply post_pos; [|apply HK; exact Hb]. cbn [csize isize]; lia.
      + destruct (p_get_special P (ms m) i) as [s0 v] eqn:Eg; cbn [ebind].
        eapply post_simple; [exact Ha|reflexivity|cbn [exec_simple]; rewrite Eg; reflexivity|intros _].
        eapply post_pos; [|apply HK; exact Hb]. cbn [csize isize]; lia.
      + cbn [ebind].
        eapply post_simple; [exact Ha|reflexivity|reflexivity|intros _].
        eapply post_pos; [|apply HK; exact Hb]. cbn [csize isize]; lia.
    - subst idx2.
      destruct (p_get_field P (ms m) idx1) as [s0 v] eqn:Eg; cbn [ebind].
      apply code_at_app in Hc as [Ha Hb]. cbn [csize isize] in Hb.
      eapply post_simple; [exact Ha|reflexivity|reflexivity|intros Ha2].
      eapply post_simple; [exact Ha2|reflexivity|cbn [exec_simple]; rewrite Eg; reflexivity|intros _].
      eapply post_pos; [|apply HK; exact Hb]. cbn [csize isize]; lia.
    - destruct Hlr as [<- <-]. destruct Hre as (<- & <- & Hk).
      destruct Hk as (Hget & _). rewrite (Hget (ms m) sc i).
      destruct (p_array_get P (ms m) sc i k2) as [s0 v] eqn:Eg; cbn [ebind].
      apply code_at_app in Hc as [Ha Hb]. cbn [csize isize] in Hb.
      eapply post_simple; [exact Ha|reflexivity|reflexivity|intros Ha2].
      eapply post_simple; [exact Ha2|reflexivity|cbn [exec_simple]; rewrite Eg; reflexivity|intros _].
      eapply post_pos; [|apply HK; exact Hb]. cbn [csize isize]; lia.
  Qed.

  Lemma var_set_exec sc i v s m :
    exec_simple P (var_set sc i) (v :: s) m = lift_w s (var_write P m sc i v).
  Proof. destruct sc; reflexivity. Qed.

  Lemma var_set_simple sc i : is_control (var_set sc i) = false.
  Proof. destruct sc; reflexivity. Qed.
  Lemma var_get_simple sc i : is_control (var_get sc i) = false.
  Proof. destruct sc; reflexivity. Qed.
  Lemma var_set_size sc i : isize (var_set sc i) = 2.
  Proof. destruct sc; reflexivity. Qed.
  Lemma var_get_size sc i : isize (var_get sc i) = 2.
  Proof. destruct sc; reflexivity. Qed.

  (* storing into an evaluated target: lv_set, value on top of the target's subscript *)
  Lemma post_write {A} lv r r' (a : A) m v C p s rest pe base (K : A -> mstate value St -> eres value St err value) :
    lv_ref lv r -> ref_eq P r r' -> code_at C p (lv_set lv ++ rest) ->
    (forall m', code_at C (p + csize (lv_set lv)) rest -> post C (p + csize (lv_set lv)) s m' pe base (K a m')) ->
    post C p (ref_stack r' (v :: s)) m pe base (ebind (lref_write P a m r v) K).
  Proof.
    intros Hlr Hre Hc HK.
    destruct lv as [sc i|e|sc i idx], r as [sc1 i1|idx1|sc1 i1 k1]; cbn [lv_ref] in Hlr; try contradiction;
      destruct r' as [sc2 i2|idx2|sc2 i2 k2]; cbn [ref_eq] in Hre; try contradiction;
      cbn [lv_set lref_write ref_stack] in *.
    - destruct Hlr as [<- <-]. destruct Hre as [<- <-].
      apply code_at_app in Hc as [Ha Hb]. cbn [csize] in Hb.
      pose proof (var_set_exec sc i v s m) as He.
      destruct (var_write P m sc i v) as [m'|e0 m'|] eqn:Ew; cbn [of_w ebind lift_w] in *; try exact I.
      + eapply post_simple; [exact Ha|apply var_set_simple|exact He|intros _].
        eapply post_pos; [|apply HK; exact Hb]. cbn [csize]; lia.
      + eapply post_simple_err; [exact Ha|apply var_set_simple|exact He].
    - subst idx2. apply code_at_app in Hc as [Ha Hb]. cbn [csize isize] in Hb.
      destruct (p_set_field P (ms m) idx1 v) as [s0 [u|e0]] eqn:Es; cbn [ebind].
      + eapply post_simple; [exact Ha|reflexivity|cbn [exec_simple]; rewrite Es; reflexivity|intros _].
        eapply post_pos; [|apply HK; exact Hb]. cbn [csize isize]; lia.
      + eapply post_simple_err; [exact Ha|reflexivity|cbn [exec_simple]; rewrite Es; reflexivity].
    - destruct Hlr as [<- <-]. destruct Hre as (<- & <- & Hk).
      destruct Hk as (_ & Hset & _). rewrite (Hset (ms m) sc i). cbn [ebind].
      apply code_at_app in Hc as [Ha Hb]. cbn [csize isize] in Hb.
      eapply post_simple; [exact Ha|reflexivity|reflexivity|intros _].
      eapply post_pos; [|apply HK; exact Hb]. cbn [csize isize]; lia.
  Qed.

  (* assignRoteIndex: [w; keep] above the subscript; stores w and leaves keep *)
  Lemma post_write_rote {A} lv r r' (a : A) m w keep C p s rest pe base (K : A -> mstate value St -> eres value St err value) :
    lv_ref lv r -> ref_eq P r r' -> code_at C p (comp_assign_rote lv ++ rest) ->
    (forall m', code_at C (p + csize (comp_assign_rote lv)) rest ->
                post C (p + csize (comp_assign_rote lv)) (keep :: s) m' pe base (K a m')) ->
    post C p (w :: keep :: ref_stack r' s) m pe base (ebind (lref_write P a m r w) K).
  Proof.
    intros Hlr Hre Hc HK.
    destruct lv as [sc i|e|sc i idx].
    - destruct r as [sc1 i1|idx1|sc1 i1 k1]; cbn [lv_ref] in Hlr; try contradiction.
      destruct r' as [sc2 i2|idx2|sc2 i2 k2]; cbn [ref_eq] in Hre; try contradiction.
      change (w :: keep :: ref_stack (RVar sc2 i2) s) with (ref_stack (RVar sc2 i2) (w :: keep :: s)).
      eapply (post_write (LVar sc i)); [exact Hlr|exact Hre|exact Hc|exact HK].
    - destruct r as [sc1 i1|idx1|sc1 i1 k1]; cbn [lv_ref] in Hlr; try contradiction.
      destruct r' as [sc2 i2|idx2|sc2 i2 k2]; cbn [ref_eq] in Hre; try contradiction.
      cbn [comp_assign_rote ref_stack] in *.
      eapply post_simple; [exact Hc|reflexivity|reflexivity|intros Hc2].
      change (idx2 :: w :: keep :: s) with (ref_stack (RField idx2) (w :: keep :: s)).
      eapply (post_write (LField e) (RField idx1)); [exact I|exact Hre|exact Hc2|].
      intros m' Hr. eapply post_pos; [|apply HK]; cbn [lv_set csize isize] in *.
      + lia.
      + replace (p + (1 + (1 + 0))) with (p + 1 + (1 + 0)) by lia. exact Hr.
    - destruct r as [sc1 i1|idx1|sc1 i1 k1]; cbn [lv_ref] in Hlr; try contradiction.
      destruct r' as [sc2 i2|idx2|sc2 i2 k2]; cbn [ref_eq] in Hre; try contradiction.
      cbn [comp_assign_rote ref_stack] in *.
      eapply post_simple; [exact Hc|reflexivity|reflexivity|intros Hc2].
      change (k2 :: w :: keep :: s) with (ref_stack (RIndex sc2 i2 k2) (w :: keep :: s)).
      eapply (post_write (LIndex sc i idx) (RIndex sc1 i1 k1)); [exact Hlr|exact Hre|exact Hc2|].
      intros m' Hr. eapply post_pos; [|apply HK]; cbn [lv_set csize isize] in *.
      + lia.
      + replace (p + (1 + (2 + 0))) with (p + 1 + (2 + 0)) by lia. exact Hr.
  Qed.

  Ltac pos_eq := unfold comp_expr, comp_cat, comp_index; cbn [lv_get lv_set lv_code comp_assign_rote]; rewrite ?csize_app; cbn [csize]; rewrite ?var_get_size, ?var_set_size; cbn [isize]; lia.
  Ltac err_with E := eapply post_simple_err; [eassumption|reflexivity|cbn [exec_simple]; rewrite ?E; reflexivity].
  Ltac one_with E := eapply post_simple; [eassumption|reflexivity|cbn [exec_simple]; rewrite ?E; reflexivity|intro].
  Ltac done_ := apply post_done; [pos_eq|reflexivity].
  (* execute one simple instruction whose effect is computed by cbn *)
  Ltac one := eapply post_simple; [eassumption|reflexivity|cbn [exec_simple]; reflexivity|intro].

  Lemma repeat_snoc {A} (x : A) k : repeat x k ++ [x] = x :: repeat x k.
  Proof. induction k as [|k IH]; cbn [repeat app]; [reflexivity|]. rewrite IH. reflexivity. Qed.
  Lemma rev_repeat_eq {A} (x : A) k : rev (repeat x k) = repeat x k.
  Proof. induction k as [|k IH]; cbn [repeat rev]; [reflexivity|]. rewrite IH. apply repeat_snoc. Qed.
  Lemma zlen_repeat {A} (x : A) k : zlen (repeat x k) = Z.of_nat k.
  Proof. unfold zlen. rewrite repeat_length. reflexivity. Qed.

  Notation SimStmts := (SimStmts P FN).
  Notation run := (run P F).

  (* a user call whose body runs to completion / returns / aborts *)
  Lemma call_sim n (SS : SimStmts n) C p fi arrs c stk m1 fn padded pe :
    code_at C p (ICallUser fi arrs :: c) ->
    0 <= fi -> nth_error FN (Z.to_nat fi) = Some fn ->
    zlen padded = f_nscalars fn ->
    (Gen.Consts.maxCallDepth <=? depth m1) = false ->
    pe = p + isize (ICallUser fi arrs) ->
    let m2 := {| ms := p_push_arrays P (ms m1) arrs (f_narrays fn); frame := padded; depth := depth m1 + 1 |} in
    post C p (rev padded ++ stk) m1 pe stk
      (match exec_stmts P FN n false (f_body fn) m2 with
       | RNormal m3 => ENormal (p_null P) (restore P m1 m3)
       | RReturn v m3 => ENormal v (restore P m1 m3)
       | RAbort x m3 => EAbort x (restore P m1 m3)
       | RBreak _ | RContinue _ | RWrong => EWrong
       | RFuel => EFuel
       end).
  Proof.
    intros Hc Hfi Hnth Hlen Hdepth Hpe m2.
    set (body := comp_block (f_body fn)).
    assert (Hstep : step P F C p (rev padded ++ stk) m1 =
                    ACall (comp_func fn) m2 m1 (p + isize (ICallUser fi arrs)) (rev padded ++ stk)).
    { erewrite step_at by exact Hc. cbv zeta.
      destruct (fi <? 0) eqn:E; [apply Z.ltb_lt in E; lia|].
      unfold F. rewrite nth_error_map, Hnth. cbn [option_map]. rewrite Hdepth.
      cbn [comp_func cf_nscalars cf_narrays].
      rewrite (pop_n_rev_z padded _ stk Hlen). rewrite ?E. reflexivity. }
    pose proof (SS (f_body fn) LNone m2 body 0 (rev padded ++ stk) (code_at_whole body)) as Hb.
    cbn [inl] in Hb. unfold stmt_post in Hb.
    assert (Hpop : pop_n (Z.to_nat (cf_nscalars (comp_func fn))) (rev padded ++ stk) [] = Some (padded, stk)).
    { cbn [comp_func cf_nscalars]. apply pop_n_rev_z. exact Hlen. }
    destruct (exec_stmts P FN n false (f_body fn) m2) as [m3|m3|m3|v m3|x m3| |]; cbn [post]; try exact I.
    - (* normal completion *)
      intros k r Hr Hf.
      assert (Hd : stops body 0 (rev padded ++ stk) m2 (VDone (rev padded ++ stk) m3)).
      { eapply reaches_stops; [exact Hb|apply stops_end; unfold body, comp_block; lia|discriminate]. }
      destruct Hd as [kb Hkb].
      exists (S (Nat.max kb k)). rewrite run_S, Hstep. cbv zeta. cbn [comp_func cf_body]. fold body.
      rewrite (@run_mono _ _ _ P F _ _ _ _ _ _ Hkb ltac:(discriminate) (Nat.max kb k) (Nat.le_max_l _ _)).
      rewrite Hpop. subst pe. eapply run_mono; [exact Hr|exact Hf|apply Nat.le_max_r].
    - (* return *)
      intros k r Hr Hf. destruct Hb as [kb Hkb].
      exists (S (Nat.max kb k)). rewrite run_S, Hstep. cbv zeta. cbn [comp_func cf_body]. fold body.
      rewrite (@run_mono _ _ _ P F _ _ _ _ _ _ Hkb ltac:(discriminate) (Nat.max kb k) (Nat.le_max_l _ _)).
      rewrite Hpop. subst pe. eapply run_mono; [exact Hr|exact Hf|apply Nat.le_max_r].
    - (* abort *)
      destruct Hb as [kb Hkb]. exists (S kb). rewrite run_S, Hstep. cbv zeta. cbn [comp_func cf_body]. fold body.
      rewrite Hkb. reflexivity.
  Qed.

  Lemma sim_expr_S n : Sim n -> SimExpr (S n).
  Proof.
    intros (SE & SEs & SA & SI & SL & SC & SCat & _ & SS & _).
    intros e m C p stk Hc.
    change (post C p stk m (p + csize (comp_expr e)) stk (eval P FN (S n) e m)).
    destruct e; cbn [eval]; unfold comp_expr in Hc |- *; cbn [comp_g] in Hc |- *.
    - (* ENum *) one. done_.
    - (* EStr *) one. done_.
    - (* ERegex *) one. done_.
    - (* EField *)
      assert (Hgen : code_at C p (comp_g false e ++ [IField]) ->
                post C p stk m (p + csize (comp_g false e ++ [IField])) stk
                  (ebind (eval P FN n e m) (fun idx m1 => let '(s, v) := p_get_field P (ms m1) idx in ENormal v (with_ms m1 s)))).
      { intros Hc'. eapply post_bind_expr; [exact SE|exact Hc'|intros v m1 Hr].
        destruct (p_get_field P (ms m1) v) as [s v0] eqn:Eg. one_with Eg. done_. }
      destruct e; try (apply Hgen; exact Hc).
      destruct (fieldint_of bits) as [k|] eqn:Ef; [|apply Hgen; exact Hc].
      destruct n as [|n']; [exact I|]. cbn [eval ebind].
      rewrite <- (ok_fieldint OK _ _ (ms m) Ef).
      destruct (p_get_field_int P (ms m) k) as [s v0] eqn:Eg. one_with Eg. done_.
    - (* ENamedField *)
      assert (Hgen : code_at C p (comp_g false e ++ [IFieldByName]) ->
                post C p stk m (p + csize (comp_g false e ++ [IFieldByName])) stk
                  (ebind (eval P FN n e m) (fun nm m1 => of_er m1 (p_get_named P (ms m1) nm)))).
      { intros Hc'. eapply post_bind_expr; [exact SE|exact Hc'|intros v m1 Hr].
        destruct (p_get_named P (ms m1) v) as [s [v0|e0]] eqn:Eg; cbn [of_er].
        - one_with Eg. done_.
        - err_with Eg. }
      destruct e; try (apply Hgen; exact Hc).
      destruct n as [|n']; [exact I|]. cbn [eval ebind].
      rewrite <- (ok_named_str OK).
      destruct (p_get_named_str P (ms m) s) as [s0 [v0|e0]] eqn:Eg; cbn [of_er].
      + one_with Eg. done_.
      + err_with Eg.
    - (* EVar *)
      destruct sc; cbn [var_read var_get] in *.
      + destruct (frame_get m i) as [v|] eqn:Ef; [|exact I]. one_with Ef. done_.
      + destruct (p_get_special P (ms m) i) as [s v] eqn:Eg. one_with Eg. done_.
      + one. done_.
    - (* EIndex *)
      eapply post_bind_index; [exact SI|exact Hc|intros key key' m1 Hk Hr].
      destruct Hk as (Hget & _). rewrite (Hget (ms m1) sc i).
      destruct (p_array_get P (ms m1) sc i key') as [s v] eqn:Eg. one_with Eg. done_.
    - (* EIn *)
      eapply post_bind_index; [exact SI|exact Hc|intros key key' m1 Hk Hr].
      destruct Hk as (_ & _ & Hin & _). rewrite (Hin (ms m1) sc i).
      one. done_.
    - (* EBin *)
      eapply post_bind_expr; [exact SE|exact Hc|intros vl m1 Hr].
      eapply post_bind_expr; [exact SE|exact Hr|intros vr m2 Hr2].
      destruct op; cbn [binop_instr] in *.
      + destruct (p_arith P a vl vr) as [v|e0] eqn:Ea; cbn [of_pure_er].
        * one_with Ea. done_.
        * err_with Ea.
      + one. done_.
      + destruct (p_match P (ms m2) vl vr) as [s [b|e0]] eqn:Em; cbn [of_er ebind].
        * one_with Em. done_.
        * err_with Em.
      + destruct (p_match P (ms m2) vl vr) as [s [b|e0]] eqn:Em; cbn [of_er ebind].
        * one_with Em. done_.
        * err_with Em.
    - (* EAnd *)
      eapply post_bind_expr; [exact SE|exact Hc|intros vl m1 Hr].
      one.
      eapply post_jumpfalse; [eassumption|].
      apply code_at_tail in H. cbn [isize] in H.
      destruct (p_to_bool P vl) eqn:Eb.
      + one. eapply post_bind_expr; [exact SE|exact H0|intros vr m2 Hr2]. one. done_.
      + apply code_at_tail in H. apply code_at_app_r in H. cbn [isize] in H.
        eapply post_pos; [|one; [rewrite Eb; done_]]. pos_eq.
    - (* EOr *)
      eapply post_bind_expr; [exact SE|exact Hc|intros vl m1 Hr].
      one.
      eapply post_jumptrue; [eassumption|].
      apply code_at_tail in H. cbn [isize] in H.
      destruct (p_to_bool P vl) eqn:Eb.
      + apply code_at_tail in H. apply code_at_app_r in H. cbn [isize] in H.
        eapply post_pos; [|one; [rewrite Eb; done_]]. pos_eq.
      + one. eapply post_bind_expr; [exact SE|exact H0|intros vr m2 Hr2]. one. done_.
    - (* EConcat *)
      eapply post_bind_cat; [exact SCat|exact Hc|intros v0 vs m1 Hl Hr].
      eapply post_bind_expr; [exact SE|exact Hr|intros vr m2 Hr2].
      destruct (cat_count e1 + 1 =? 2) eqn:E2.
      + apply Z.eqb_eq in E2. destruct vs as [|w vs'].
        * cbn [fold_left rev app]. one. done_.
        * exfalso. rewrite !zlen_cons in Hl. pose proof (zlen_nonneg vs'). lia.
      + apply Z.eqb_neq in E2. destruct vs as [|w vs'].
        * exfalso. rewrite zlen_cons, zlen_nil in Hl. lia.
        * assert (Hpop : pop_n (Z.to_nat (cat_count e1 + 1)) (vr :: rev (v0 :: w :: vs') ++ stk) [] =
                         Some ((v0 :: w :: vs') ++ [vr], stk)).
          { replace (vr :: rev (v0 :: w :: vs') ++ stk) with (rev ((v0 :: w :: vs') ++ [vr]) ++ stk)
              by (rewrite rev_app_distr; reflexivity).
            apply pop_n_rev_z. rewrite zlen_app, Hl. reflexivity. }
          eapply post_simple; [eassumption|reflexivity|cbn [exec_simple]; rewrite Hpop; reflexivity|intro].
          cbn [app]. rewrite (ok_concat_multi OK).
          rewrite fold_left_app. cbn [fold_left].
          assert (Hf : forall l a, fold_left (p_concat P (ms m1)) l a = fold_left (p_concat P (ms m2)) l a).
          { induction l as [|x l IHl]; intros a; cbn [fold_left]; [reflexivity|].
            rewrite (CI (ms m1) (ms m2)). apply IHl. }
          rewrite Hf, ?(CI (ms m1) (ms m2)). done_.
    - (* EUnary *)
      eapply post_bind_expr; [exact SE|exact Hc|intros v m1 Hr].
      destruct op; cbn [unop_instr] in *; one; done_.
    - (* ECond *)
      eapply post_bind_cond with (inv := true); [exact SC|exact Hc|intros vc m1 Hr].
      apply code_at_app in Hr as [Ht Hr]. apply code_at_app in Hr as [Hj Hf].
      destruct (p_to_bool P vc); cbn [xorb].
      + eapply post_then; [exact (SE e2 m1 C _ stk Ht)|].
        intros v m'. eapply reaches_cast; [apply reaches_step; erewrite step_at by exact Hj; reflexivity|].
        unfold comp_cond. pos_eq.
      + eapply post_pos; [|eapply post_pos_end; [|exact (SE e3 m1 C _ stk Hf)]].
        * unfold comp_cond. pos_eq.
        * unfold comp_cond. pos_eq.
    - (* EAssign *)
      rewrite comp_assign_eq in Hc |- *.
      eapply post_bind_expr; [exact SE|exact Hc|intros v m1 Hr].
      one.
      eapply post_bind_lref; [exact SL|exact H|intros r r' m2 Hlr Hre Hr2].
      rewrite <- (app_nil_r (lv_set lv)) in Hr2.
      rewrite <- (ebind_ret (lref_write P v m2 r v)).
      eapply post_write; [exact Hlr|exact Hre|exact Hr2|intros m' _]. done_.
    - (* EAugAssign *)
      destruct lv as [sc i|e1|sc i idx].
      + eapply post_bind_expr; [exact SE|exact Hc|intros rv m1 Hr].
        cbn [eval_lref]. destruct n as [|n']; [exact I|]. cbn [eval_lref ebind].
        change (var_get sc i :: ISwap :: IArith op :: IDupe :: [var_set sc i])
          with (lv_get (LVar sc i) ++ ISwap :: IArith op :: IDupe :: [var_set sc i]) in Hr.
        change (rv :: stk) with (ref_stack (RVar sc i) (rv :: stk)).
        eapply (post_read (LVar sc i) (RVar sc i) (RVar sc i)); [split; reflexivity|split; reflexivity|exact Hr|intros old m' Hr2].
        cbn [ref_stack]. one.
        destruct (p_arith P op old rv) as [nv|e0] eqn:Ea; cbn [of_pure_er ebind].
        * one_with Ea. one.
          change (nv :: nv :: stk) with (ref_stack (RVar sc i) (nv :: nv :: stk)).
          rewrite <- (ebind_ret (lref_write P nv m' (RVar sc i) nv)).
          change [var_set sc i] with (lv_set (LVar sc i) ++ []) in H1.
          eapply (post_write (LVar sc i) (RVar sc i) (RVar sc i)); [split; reflexivity|split; reflexivity|exact H1|intros m'' _]. done_.
        * err_with Ea.
      + rewrite comp_dupe_lv_eq in Hc |- *.
        eapply post_bind_expr; [exact SE|exact Hc|intros rv m1 Hr].
        rewrite <- ?app_assoc in Hr.
        eapply post_bind_lref; [exact SL|exact Hr|intros r r' m2 Hlr Hre Hr2].
        rewrite <- ?app_assoc in Hr2.
        eapply post_read; [exact Hlr|exact Hre|exact Hr2|intros old m' Hr3].
        destruct r' as [? ?|idx'|? ? ?]; destruct r; cbn [lv_ref ref_eq] in Hlr, Hre; try contradiction.
        cbn [ref_stack]. one.
        destruct (p_arith P op old rv) as [nv|e0] eqn:Ea; cbn [of_pure_er ebind].
        * one_with Ea. one.
          change (nv :: nv :: idx' :: stk) with (nv :: nv :: ref_stack (RField idx') stk).
          rewrite <- (ebind_ret (lref_write P nv m' (RField idx) nv)).
          rewrite <- (app_nil_r (comp_assign_rote (LField e1))) in H1.
          eapply (post_write_rote (LField e1) (RField idx) (RField idx')); [exact I|exact Hre|exact H1|intros m'' _]. done_.
        * err_with Ea.
      + rewrite comp_dupe_lv_eq in Hc |- *.
        eapply post_bind_expr; [exact SE|exact Hc|intros rv m1 Hr].
        rewrite <- ?app_assoc in Hr.
        eapply post_bind_lref; [exact SL|exact Hr|intros r r' m2 Hlr Hre Hr2].
        rewrite <- ?app_assoc in Hr2.
        eapply post_read; [exact Hlr|exact Hre|exact Hr2|intros old m' Hr3].
        destruct r' as [? ?|idx'|sc' i' k']; destruct r; cbn [lv_ref ref_eq] in Hlr, Hre; try contradiction.
        cbn [ref_stack]. one.
        destruct (p_arith P op old rv) as [nv|e0] eqn:Ea; cbn [of_pure_er ebind].
        * one_with Ea. one.
          change (nv :: nv :: k' :: stk) with (nv :: nv :: ref_stack (RIndex sc' i' k') stk).
          rewrite <- (ebind_ret (lref_write P nv m' (RIndex sc0 i0 key) nv)).
          rewrite <- (app_nil_r (comp_assign_rote (LIndex sc i idx))) in H1.
          eapply (post_write_rote (LIndex sc i idx) (RIndex sc0 i0 key) (RIndex sc' i' k')); [exact Hlr|exact Hre|exact H1|intros m'' _]. done_.
        * err_with Ea.
    - (* EIncr *)
      rewrite comp_dupe_lv_eq in Hc |- *.
      destruct pre.
      + rewrite <- ?app_assoc in Hc.
        eapply post_bind_lref; [exact SL|exact Hc|intros r r' m1 Hlr Hre Hr].
        eapply post_read; [exact Hlr|exact Hre|exact Hr|intros old m' Hr2].
        one.
        destruct (p_arith P (incr_arith decr) old (p_num P one_bits)) as [nv|e0] eqn:Ea; cbn [of_pure_er ebind].
        * one_with Ea. one.
          rewrite <- (ebind_ret (lref_write P nv m' r nv)).
          rewrite <- (app_nil_r (comp_assign_rote lv)) in H1.
          eapply post_write_rote; [exact Hlr|exact Hre|exact H1|intros m'' _]. done_.
        * err_with Ea.
      + rewrite <- ?app_assoc in Hc.
        eapply post_bind_lref; [exact SL|exact Hc|intros r r' m1 Hlr Hre Hr].
        eapply post_read; [exact Hlr|exact Hre|exact Hr|intros old m' Hr2].
        one. one. one.
        destruct (p_arith P (incr_arith decr) (p_plus P old) (p_num P one_bits)) as [nv|e0] eqn:Ea; cbn [of_pure_er ebind].
        * one_with Ea.
          rewrite <- (ebind_ret (lref_write P (p_plus P old) m' r nv)).
          rewrite <- (app_nil_r (comp_assign_rote lv)) in H2.
          eapply post_write_rote; [exact Hlr|exact Hre|exact H2|intros m'' _]. done_.
        * err_with Ea.
    - (* EGroup *)
      exact (SE e m C p stk Hc).
    - (* ECall *)
      eapply post_bind_exprs; [exact SEs|exact Hc|intros vs m1 Hl Hr].
      destruct (Nat.eqb (length vs) (p_builtin_arity P b)) eqn:Ear; cbn [negb]; [|exact I].
      apply Nat.eqb_eq in Ear.
      assert (Hpop : pop_n (p_builtin_arity P b) (rev vs ++ stk) [] = Some (vs, stk)).
      { rewrite <- Ear, pop_n_rev, app_nil_r. reflexivity. }
      destruct (p_builtin P b (ms m1) vs) as [s0 [rs|e0]] eqn:Eb; cbn [of_er ebind].
      + destruct rs as [|v [|? ?]]; try exact I.
        eapply post_simple; [eassumption|reflexivity|cbn [exec_simple]; rewrite Hpop, Eb; reflexivity|intro]. done_.
      + eapply post_simple_err; [eassumption|reflexivity|cbn [exec_simple]; rewrite Hpop, Eb; reflexivity].
    - (* ELengthArray *) one. done_.
    - (* ESplit *)
      eapply post_bind_expr; [exact SE|exact Hc|intros sv m1 Hr].
      destruct (p_split P (ms m1) sv sc i None) as [s0 [v|e0]] eqn:Es; cbn [of_er].
      + one_with Es. done_.
      + err_with Es.
    - (* ESplitSep *)
      eapply post_bind_expr; [exact SE|exact Hc|intros sv m1 Hr].
      eapply post_bind_expr; [exact SE|exact Hr|intros sepv m2 Hr2].
      destruct (p_split P (ms m2) sv sc i (Some (sepv, isre))) as [s0 [v|e0]] eqn:Es; cbn [of_er].
      + one_with Es. done_.
      + err_with Es.
    - (* ESubVar *)
      destruct (Nat.eqb (p_builtin_arity P (if g then BGsub else BSub)) 3) eqn:Ear; cbn [negb]; [|exact I].
      apply Nat.eqb_eq in Ear.
      eapply post_bind_expr; [exact SE|exact Hc|intros rev_ m1 Hr].
      eapply post_bind_expr; [exact SE|exact Hr|intros replv m2 Hr2].
      change (var_get sc i :: ICallBuiltin (if g then BGsub else BSub) :: [var_set sc i])
        with (lv_get (LVar sc i) ++ ICallBuiltin (if g then BGsub else BSub) :: [var_set sc i]) in Hr2.
      change (replv :: rev_ :: stk) with (ref_stack (RVar sc i) (replv :: rev_ :: stk)).
      eapply (post_read (LVar sc i) (RVar sc i) (RVar sc i)); [split; reflexivity|split; reflexivity|exact Hr2|intros inv m' Hr3].
      cbn [ref_stack].
      assert (Hpop : pop_n (p_builtin_arity P (if g then BGsub else BSub)) (inv :: replv :: rev_ :: stk) [] =
                     Some ([rev_; replv; inv], stk)).
      { rewrite Ear. reflexivity. }
      destruct (p_builtin P (if g then BGsub else BSub) (ms m') [rev_; replv; inv]) as [s0 [rs|e0]] eqn:Eb; cbn [of_er ebind].
      + destruct rs as [|cnt [|out [|? ?]]]; try exact I.
        eapply post_simple; [eassumption|reflexivity|cbn [exec_simple]; rewrite Hpop, Eb; reflexivity|intro].
        cbn [rev app].
        change (out :: cnt :: stk) with (ref_stack (RVar sc i) (out :: cnt :: stk)).
        rewrite <- (ebind_ret (lref_write P cnt (with_ms m' s0) (RVar sc i) out)).
        change [var_set sc i] with (lv_set (LVar sc i) ++ []) in H.
        eapply (post_write (LVar sc i) (RVar sc i) (RVar sc i)); [split; reflexivity|split; reflexivity|exact H|intros m'' _]. done_.
      + eapply post_simple_err; [eassumption|reflexivity|cbn [exec_simple]; rewrite Hpop, Eb; reflexivity].
    - (* ESubLv *)
      destruct (Nat.eqb (p_builtin_arity P (if g then BGsub else BSub)) 3) eqn:Ear; cbn [negb]; [|exact I].
      apply Nat.eqb_eq in Ear.
      destruct lv as [sc i|e3|sc i idx]; [exact I| |].
      + rewrite comp_dupe_lv_eq in Hc |- *. rewrite <- ?app_assoc in Hc.
        eapply post_bind_lref; [exact SL|exact Hc|intros r r' m0 Hlr Hre Hr].
        eapply post_read; [exact Hlr|exact Hre|exact Hr|intros inv m1 Hr1].
        eapply post_bind_expr; [exact SE|exact Hr1|intros rev_ m2 Hr2].
        eapply post_bind_expr; [exact SE|exact Hr2|intros replv m3 Hr3].
        destruct r' as [? ?|idx'|? ? ?]; destruct r as [? ?|idx0|? ? ?]; cbn [lv_ref ref_eq] in Hlr, Hre; try contradiction.
        subst idx'. cbn [ref_stack]. one.
        assert (Hpop : pop_n (p_builtin_arity P (if g then BGsub else BSub)) (inv :: replv :: rev_ :: idx0 :: stk) [] =
                       Some ([rev_; replv; inv], idx0 :: stk)).
        { rewrite Ear. reflexivity. }
        destruct (p_builtin P (if g then BGsub else BSub) (ms m3) [rev_; replv; inv]) as [s0 [rs|e0]] eqn:Eb; cbn [of_er ebind].
        * destruct rs as [|cnt [|out [|? ?]]]; try exact I.
          eapply post_simple; [eassumption|reflexivity|cbn [exec_simple]; rewrite Hpop, Eb; reflexivity|intro].
          cbn [rev app]. one.
          destruct (p_num_pos P cnt) eqn:Epos.
          -- cbn [lref_write].
             destruct (p_set_field P (ms (with_ms m3 s0)) idx0 out) as [s1 [u|e0]] eqn:Es.
             ++ eapply post_simple; [eassumption|reflexivity|cbn [exec_simple]; rewrite Epos, Es; reflexivity|intro]. done_.
             ++ eapply post_simple_err; [eassumption|reflexivity|cbn [exec_simple]; rewrite Epos, Es; reflexivity].
          -- eapply post_simple; [eassumption|reflexivity|cbn [exec_simple]; rewrite Epos; reflexivity|intro]. done_.
        * eapply post_simple_err; [eassumption|reflexivity|cbn [exec_simple]; rewrite Hpop, Eb; reflexivity].
      + rewrite comp_dupe_lv_eq in Hc |- *. rewrite <- ?app_assoc in Hc.
        eapply post_bind_lref; [exact SL|exact Hc|intros r r' m0 Hlr Hre Hr].
        eapply post_read; [exact Hlr|exact Hre|exact Hr|intros inv m1 Hr1].
        eapply post_bind_expr; [exact SE|exact Hr1|intros rev_ m2 Hr2].
        eapply post_bind_expr; [exact SE|exact Hr2|intros replv m3 Hr3].
        destruct r' as [? ?|?|sc' i' k']; destruct r as [? ?|?|scr ir kr]; cbn [lv_ref ref_eq] in Hlr, Hre; try contradiction.
        destruct Hlr as [<- <-]. destruct Hre as (<- & <- & Hk).
        cbn [ref_stack]. one.
        assert (Hpop : pop_n (p_builtin_arity P (if g then BGsub else BSub)) (inv :: replv :: rev_ :: k' :: stk) [] =
                       Some ([rev_; replv; inv], k' :: stk)).
        { rewrite Ear. reflexivity. }
        destruct (p_builtin P (if g then BGsub else BSub) (ms m3) [rev_; replv; inv]) as [s0 [rs|e0]] eqn:Eb; cbn [of_er ebind].
        * destruct rs as [|cnt [|out [|? ?]]]; try exact I.
          eapply post_simple; [eassumption|reflexivity|cbn [exec_simple]; rewrite Hpop, Eb; reflexivity|intro].
          cbn [rev app]. one. cbn [lref_write].
          destruct Hk as (_ & Hset & _). rewrite (Hset (ms (with_ms m3 s0)) sc i).
          one. done_.
        * eapply post_simple_err; [eassumption|reflexivity|cbn [exec_simple]; rewrite Hpop, Eb; reflexivity].
    - (* ESprintf *)
      eapply post_bind_exprs; [exact SEs|exact Hc|intros vs m1 Hl Hr].
      pose proof (pop_n_rev_z vs _ stk Hl) as Hpop.
      destruct (p_sprintf P (ms m1) vs) as [s0 [v|e0]] eqn:Es; cbn [of_er].
      + eapply post_simple; [eassumption|reflexivity|cbn [exec_simple]; rewrite Hpop, Es; reflexivity|intro]. done_.
      + eapply post_simple_err; [eassumption|reflexivity|cbn [exec_simple]; rewrite Hpop, Es; reflexivity].
    - (* EUserCall *)
      eapply post_bind_args; [exact SA|exact Hc|intros vs m1 Hl Hr].
      destruct ((fi <? 0) || (nsc <? zlen vs)) eqn:Echk; [exact I|].
      apply orb_false_iff in Echk as [Efi Ensc]. apply Z.ltb_ge in Efi. apply Z.ltb_ge in Ensc.
      destruct (nth_error FN (Z.to_nat fi)) as [fn|] eqn:Enth; [|exact I].
      destruct (f_nscalars fn =? nsc) eqn:Ensc2; cbn [negb]; [|exact I]. apply Z.eqb_eq in Ensc2.
      assert (Hpad : zlen (pad_nulls P vs nsc) = f_nscalars fn).
      { unfold pad_nulls. rewrite zlen_app, zlen_repeat. pose proof (zlen_nonneg vs). lia. }
      assert (Hstack : exists c', code_at C (p + csize (comp_args a) +
                                 csize (if args_scalars a <? nsc then [INulls (nsc - args_scalars a)] else []))
                                (ICallUser fi (args_arrays a) :: c') /\
                reaches C (p + csize (comp_args a)) (rev vs ++ stk) m1
                        (p + csize (comp_args a) + csize (if args_scalars a <? nsc then [INulls (nsc - args_scalars a)] else []))
                        (rev (pad_nulls P vs nsc) ++ stk) m1).
      { apply code_at_app in Hr as [Hn Hcall]. exists []. split; [exact Hcall|].
        unfold pad_nulls. rewrite rev_app_distr, rev_repeat_eq, <- app_assoc.
        destruct (args_scalars a <? nsc) eqn:El.
        - rewrite Hl. eapply reaches_cast; [eapply reaches_simple; [exact Hn|reflexivity|reflexivity]|].
          cbn [csize isize]. lia.
        - apply Z.ltb_ge in El. replace (nsc - zlen vs) with 0 by lia. cbn [Z.to_nat repeat app].
          eapply reaches_cast; [apply reaches_refl|]. cbn [csize]. lia. }
      destruct Hstack as (c' & Hcall & Hreach).
      eapply post_reaches; [exact Hreach|].
      destruct (Gen.Consts.maxCallDepth <=? depth m1) eqn:Ed.
      + (* call depth exceeded *)
        cbn [post]. apply stops_step. erewrite step_at by exact Hcall. cbv zeta.
        destruct (fi <? 0) eqn:E; [apply Z.ltb_lt in E; lia|].
        unfold F. rewrite nth_error_map, Enth. cbn [option_map]. rewrite Ed, ?E. reflexivity.
      + eapply call_sim; [exact SS|exact Hcall|exact Efi|exact Enth|exact Hpad|exact Ed|].
        rewrite !csize_app. destruct (args_scalars a <? nsc); cbn [csize isize]; lia.
    - (* ENativeCall *)
      eapply post_bind_exprs; [exact SEs|exact Hc|intros vs m1 Hl Hr].
      pose proof (pop_n_rev_z vs _ stk Hl) as Hpop.
      destruct (p_native P (ms m1) fi vs) as [s0 [v|e0]] eqn:Es; cbn [of_er].
      + eapply post_simple; [eassumption|reflexivity|cbn [exec_simple]; rewrite Hpop, Es; reflexivity|intro]. done_.
      + eapply post_simple_err; [eassumption|reflexivity|cbn [exec_simple]; rewrite Hpop, Es; reflexivity].
    - (* EGetline *)
      destruct r; cbn [ebind redir_src] in *.
      + destruct (p_getline P (ms m) RNone None) as [s0 [[ret [line|]]|e0]] eqn:Eg; cbn [of_er ebind].
        * eapply post_simple; [eassumption|reflexivity|cbn [exec_simple do_getline]; rewrite Eg; reflexivity|intro]. done_.
        * eapply post_simple; [eassumption|reflexivity|cbn [exec_simple do_getline]; rewrite Eg; reflexivity|intro]. done_.
        * eapply post_simple_err; [eassumption|reflexivity|cbn [exec_simple do_getline]; rewrite Eg; reflexivity].
      + eapply post_bind_expr; [exact SE|exact Hc|intros sv m1 Hr].
        destruct (p_getline P (ms m1) RPipe (Some sv)) as [s0 [[ret [line|]]|e0]] eqn:Eg; cbn [of_er ebind].
        * eapply post_simple; [eassumption|reflexivity|cbn [exec_simple do_getline]; rewrite Eg; reflexivity|intro]. done_.
        * eapply post_simple; [eassumption|reflexivity|cbn [exec_simple do_getline]; rewrite Eg; reflexivity|intro]. done_.
        * eapply post_simple_err; [eassumption|reflexivity|cbn [exec_simple do_getline]; rewrite Eg; reflexivity].
      + eapply post_bind_expr; [exact SE|exact Hc|intros sv m1 Hr].
        destruct (p_getline P (ms m1) RLess (Some sv)) as [s0 [[ret [line|]]|e0]] eqn:Eg; cbn [of_er ebind].
        * eapply post_simple; [eassumption|reflexivity|cbn [exec_simple do_getline]; rewrite Eg; reflexivity|intro]. done_.
        * eapply post_simple; [eassumption|reflexivity|cbn [exec_simple do_getline]; rewrite Eg; reflexivity|intro]. done_.
        * eapply post_simple_err; [eassumption|reflexivity|cbn [exec_simple do_getline]; rewrite Eg; reflexivity].
      + eapply post_bind_expr; [exact SE|exact Hc|intros sv m1 Hr].
        destruct (p_getline P (ms m1) RGreater (Some sv)) as [s0 [[ret [line|]]|e0]] eqn:Eg; cbn [of_er ebind].
        * eapply post_simple; [eassumption|reflexivity|cbn [exec_simple do_getline]; rewrite Eg; reflexivity|intro]. done_.
        * eapply post_simple; [eassumption|reflexivity|cbn [exec_simple do_getline]; rewrite Eg; reflexivity|intro]. done_.
        * eapply post_simple_err; [eassumption|reflexivity|cbn [exec_simple do_getline]; rewrite Eg; reflexivity].
      + eapply post_bind_expr; [exact SE|exact Hc|intros sv m1 Hr].
        destruct (p_getline P (ms m1) RAppend (Some sv)) as [s0 [[ret [line|]]|e0]] eqn:Eg; cbn [of_er ebind].
        * eapply post_simple; [eassumption|reflexivity|cbn [exec_simple do_getline]; rewrite Eg; reflexivity|intro]. done_.
        * eapply post_simple; [eassumption|reflexivity|cbn [exec_simple do_getline]; rewrite Eg; reflexivity|intro]. done_.
        * eapply post_simple_err; [eassumption|reflexivity|cbn [exec_simple do_getline]; rewrite Eg; reflexivity].
    - (* EGetlineLv *)
      assert (Hcode : code_at C p (lv_code lv ++ (match r with RNone => [] | _ => comp_expr e end) ++
                       [match lv with
                        | LVar sc i => IGetlineVar sc r i
                        | LField _ => IGetlineField r
                        | LIndex sc i _ => IGetlineArray r sc i
                        end])).
      { destruct lv; cbn [lv_code app]; exact Hc. }
      assert (Hpe : p + csize (match lv with
                        | LVar sc i => (match r with RNone => [] | _ => comp_g false e end) ++ [IGetlineVar sc r i]
                        | LField e1 => comp_g false e1 ++ (match r with RNone => [] | _ => comp_g false e end) ++ [IGetlineField r]
                        | LIndex sc i idx => (comp_index_items idx ++ index_multi_tail idx) ++
                                             (match r with RNone => [] | _ => comp_g false e end) ++ [IGetlineArray r sc i]
                        end) =
                    p + csize (lv_code lv) + csize (match r with RNone => [] | _ => comp_expr e end) + 2 +
                    match lv with LVar _ _ => 1 | LField _ => 0 | LIndex _ _ _ => 2 end).
      { destruct lv; cbn [lv_code]; unfold comp_expr, comp_index; rewrite ?csize_app; cbn [csize isize].
        all: destruct r; cbn [csize]; lia. }
      rewrite Hpe. clear Hc Hpe.
      eapply post_bind_lref; [exact SL|exact Hcode|intros ref ref' m0 Hlr Hre Hr].
      (* the source expression, if any *)
      assert (Hsrc : forall (K : value -> mstate value St -> eres value St err value),
                (forall sv m1,
                   post C (p + csize (lv_code lv) + csize (match r with RNone => [] | _ => comp_expr e end))
                        (match r with RNone => ref_stack ref' stk | _ => sv :: ref_stack ref' stk end) m1
                        (p + csize (lv_code lv) + csize (match r with RNone => [] | _ => comp_expr e end) + 2 +
                         match lv with LVar _ _ => 1 | LField _ => 0 | LIndex _ _ _ => 2 end) stk (K sv m1)) ->
                post C (p + csize (lv_code lv)) (ref_stack ref' stk) m0
                     (p + csize (lv_code lv) + csize (match r with RNone => [] | _ => comp_expr e end) + 2 +
                      match lv with LVar _ _ => 1 | LField _ => 0 | LIndex _ _ _ => 2 end) stk
                     (ebind (match r with RNone => ENormal (p_null P) m0 | _ => eval P FN n e m0 end) K)).
      { intros K HK. destruct r.
        - cbn [ebind csize]. eapply post_pos; [|apply HK]. cbn [csize]; lia.
        - eapply post_bind_expr; [exact SE|exact Hr|intros sv m1 _]. apply HK.
        - eapply post_bind_expr; [exact SE|exact Hr|intros sv m1 _]. apply HK.
        - eapply post_bind_expr; [exact SE|exact Hr|intros sv m1 _]. apply HK.
        - eapply post_bind_expr; [exact SE|exact Hr|intros sv m1 _]. apply HK. }
      apply Hsrc. intros sv m1. clear Hsrc.
      apply code_at_app_r in Hr.
      assert (Hdg : do_getline P m1 r (match r with RNone => ref_stack ref' stk | _ => sv :: ref_stack ref' stk end) =
                    Some (ref_stack ref' stk, p_getline P (ms m1) r (redir_src r sv))).
      { destruct r; reflexivity. }
      destruct (p_getline P (ms m1) r (redir_src r sv)) as [s0 [[ret [line|]]|e0]] eqn:Eg; cbn [of_er ebind].
      + (* a line was read: store it *)
        destruct lv as [sc i|e1|sc i idx]; destruct ref as [sc1 i1|idx1|sc1 i1 k1]; cbn [lv_ref] in Hlr; try contradiction;
          destruct ref' as [sc2 i2|idx2|sc2 i2 k2]; cbn [ref_eq] in Hre; try contradiction; cbn [ref_stack lref_write] in *.
        * destruct Hlr as [<- <-]. destruct Hre as [<- <-].
          destruct (var_write P (with_ms m1 s0) sc i line) as [m'|e0 m'|] eqn:Ew; cbn [of_w]; try exact I.
          -- eapply post_simple; [exact Hr|reflexivity|cbn [exec_simple]; rewrite Hdg, Ew; reflexivity|intros _].
             apply post_done; [cbn [isize]; lia|reflexivity].
          -- eapply post_simple_err; [exact Hr|reflexivity|cbn [exec_simple]; rewrite Hdg, Ew; reflexivity].
        * subst idx2.
          destruct (p_set_field P (ms (with_ms m1 s0)) idx1 line) as [s1 [u|e0]] eqn:Es.
          -- eapply post_simple; [exact Hr|reflexivity|cbn [exec_simple]; rewrite Hdg; cbn [ms with_ms] in Es; rewrite Es; reflexivity|intros _].
             apply post_done; [cbn [isize]; lia|reflexivity].
          -- eapply post_simple_err; [exact Hr|reflexivity|cbn [exec_simple]; rewrite Hdg; cbn [ms with_ms] in Es; rewrite Es; reflexivity].
        * destruct Hlr as [<- <-]. destruct Hre as (<- & <- & Hk). destruct Hk as (_ & Hset & _).
          rewrite (Hset (ms (with_ms m1 s0)) sc i).
          eapply post_simple; [exact Hr|reflexivity|cbn [exec_simple]; rewrite Hdg; reflexivity|intros _].
          apply post_done; [cbn [isize]; lia|reflexivity].
      + (* no line *)
        destruct lv as [sc i|e1|sc i idx]; destruct ref as [sc1 i1|idx1|sc1 i1 k1]; cbn [lv_ref] in Hlr; try contradiction;
          destruct ref' as [sc2 i2|idx2|sc2 i2 k2]; cbn [ref_eq] in Hre; try contradiction; cbn [ref_stack] in *.
        * eapply post_simple; [exact Hr|reflexivity|cbn [exec_simple]; rewrite Hdg; reflexivity|intros _].
          apply post_done; [cbn [isize]; lia|reflexivity].
        * eapply post_simple; [exact Hr|reflexivity|cbn [exec_simple]; rewrite Hdg; reflexivity|intros _].
          apply post_done; [cbn [isize]; lia|reflexivity].
        * eapply post_simple; [exact Hr|reflexivity|cbn [exec_simple]; rewrite Hdg; reflexivity|intros _].
          apply post_done; [cbn [isize]; lia|reflexivity].
      + (* error *)
        destruct lv as [sc i|e1|sc i idx]; destruct ref as [sc1 i1|idx1|sc1 i1 k1]; cbn [lv_ref] in Hlr; try contradiction;
          destruct ref' as [sc2 i2|idx2|sc2 i2 k2]; cbn [ref_eq] in Hre; try contradiction; cbn [ref_stack] in *.
        * eapply post_simple_err; [exact Hr|reflexivity|cbn [exec_simple]; rewrite Hdg; reflexivity].
        * eapply post_simple_err; [exact Hr|reflexivity|cbn [exec_simple]; rewrite Hdg; reflexivity].
        * eapply post_simple_err; [exact Hr|reflexivity|cbn [exec_simple]; rewrite Hdg; reflexivity].
  Qed.

End SimExpr.

Arguments post {value St err}.
