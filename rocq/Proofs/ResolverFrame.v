(* C16, run-time half: array parameters the caller does not supply are distinct
   fresh empty arrays; the supplied ones are exactly the caller's. *)
From Verif Require Import Lib.Base Model.ResolverFrame.

Lemma bind_missing_closed {A} (empty : A) n : forall arrays heap,
  bind_missing empty n arrays heap = (arrays ++ seq (length heap) n, heap ++ repeat empty n).
Proof.
  induction n as [|n IH]; intros arrays heap; cbn [bind_missing seq repeat].
  - rewrite !app_nil_r. reflexivity.
  - rewrite IH. rewrite app_length. cbn [length]. rewrite Nat.add_1_r.
    rewrite <- !app_assoc. reflexivity.
Qed.

Section Frame.
Variable A : Type.
Variable empty : A.
Variables (args : list nat) (num_arrays : nat) (heap : list A).
Hypothesis Hargs : (length args <= num_arrays)%nat.

Let m := (num_arrays - length args)%nat.

Lemma call_arrays_closed :
  call_arrays empty args num_arrays heap = (args ++ seq (length heap) m, heap ++ repeat empty m).
Proof. apply bind_missing_closed. Qed.

(* one slot per array parameter; the first ones are the caller's, unchanged *)
Theorem frame_shape :
  let (arr, heap') := call_arrays empty args num_arrays heap in
  length arr = num_arrays /\ firstn (length args) arr = args /\
  (forall i, (i < length heap)%nat -> nth_error heap' i = nth_error heap i).
Proof.
  rewrite call_arrays_closed. split; [|split].
  - rewrite app_length, seq_length. unfold m. lia.
  - rewrite firstn_app, Nat.sub_diag, firstn_all. cbn [firstn]. apply app_nil_r.
  - intros i Hi. apply nth_error_app1. exact Hi.
Qed.

(* the parameters the caller did not supply: pairwise distinct slots, none of
   them an existing array (so none aliases an argument, a global or a local of
   any active call), each holding an empty array *)
Theorem missing_arrays_fresh :
  let (arr, heap') := call_arrays empty args num_arrays heap in
  let fresh := skipn (length args) arr in
  length fresh = m /\ NoDup fresh /\
  (forall s, In s fresh -> (length heap <= s)%nat /\ nth_error heap' s = Some empty) /\
  (forall i j si sj, nth_error fresh i = Some si -> nth_error fresh j = Some sj -> i <> j -> si <> sj).
Proof.
  rewrite call_arrays_closed. cbv zeta.
  assert (Hf : skipn (length args) (args ++ seq (length heap) m) = seq (length heap) m).
  { rewrite skipn_app, Nat.sub_diag, skipn_all. reflexivity. }
  rewrite Hf. split; [apply seq_length|]. split; [apply seq_NoDup|]. split.
  - intros s Hs. apply in_seq in Hs. split; [lia|].
    rewrite nth_error_app2 by lia. apply nth_error_repeat. lia.
  - intros i j si sj Hi Hj Hij E. subst sj.
    pose proof (seq_NoDup m (length heap)) as Hnd.
    rewrite NoDup_nth_error in Hnd. apply Hij. apply Hnd; [|congruence].
    apply nth_error_Some. congruence.
Qed.

End Frame.
