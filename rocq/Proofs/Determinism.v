(* C19: parsing is deterministic - what is true of it, for every program and
   every pair of map iteration orders - and the two things that are not. *)
From Verif Require Import Lib.Base Model.Resolver Model.Determinism Proofs.Resolver Proofs.ResolverSound
  Proofs.ResolverExact Proofs.ResolverOrder Proofs.ResolverFlat Proofs.ResolverNoPanic Proofs.ResolverTopo
  Proofs.ResolverBound Proofs.ResolverMain Proofs.DeterminismSort Proofs.DeterminismDom Proofs.DeterminismPerm.
From Coq Require Import Permutation.
Open Scope Z_scope.

(* ---------- accepted runs agree ------------------------------------------------------- *)

Lemma resolve_cut_ok_order cut pi P F :
  perm_oracle pi -> resolve_cut cut pi P = ROk F ->
  exists order, covers P order /\ resolve_order cut order P = ROk F /\ NoDup (fnames P).
Proof.
  intros Hpi H. destruct (resolve_cut_order cut pi P _ H ltac:(discriminate)) as [[order [Ho Hr]]|[f Hf]]; [|discriminate].
  exists order. split; [eapply ordered_funcs_covers; eassumption|]. split; [exact Hr|].
  eapply resolve_order_nodup; [exact Hr | intros f; discriminate].
Qed.

(* TYPES AND INDEXES: no guard is needed - two accepted runs of the resolver on
   the same program answer every LookupVar alike *)
Theorem accepted_deterministic cut pi pi' P F F' :
  perm_oracle pi -> perm_oracle pi' -> names_ok P ->
  resolve_cut cut pi P = ROk F -> resolve_cut cut pi' P = ROk F' -> final_equiv F F'.
Proof.
  intros Hpi Hpi' Hne H H'.
  destruct (resolve_cut_ok_order cut pi P F Hpi H) as [order [Hcov [Hr Hnd]]].
  destruct (resolve_cut_ok_order cut pi' P F' Hpi' H') as [order' [Hcov' [Hr' _]]].
  exact (accepted_final_equiv P Hnd Hne cut cut order order' F F' Hcov Hcov' Hr Hr').
Qed.

(* an accepted program meets C16's precondition, so C16's theorems apply to it *)
Theorem accepted_wf0 cut pi P F :
  perm_oracle pi -> names_ok P -> resolve_cut cut pi P = ROk F -> wf0 P = true.
Proof.
  intros Hpi Hne H. destruct (resolve_cut_ok_order cut pi P F Hpi H) as [order [Hcov [Hr Hnd]]].
  apply wf_wf0. exact (accepted_wf P Hnd Hne cut order F Hcov Hr).
Qed.

(* VERDICT (partial: the guard excludes the 100-pass cut-off) *)
Theorem verdict_deterministic_partial cut pi pi' P :
  perm_oracle pi -> perm_oracle pi' -> names_ok P ->
  resolve_cut cut pi P <> RErr ETooManyIter -> resolve_cut cut pi' P <> RErr ETooManyIter ->
  ((exists F, resolve_cut cut pi P = ROk F) <-> (exists F', resolve_cut cut pi' P = ROk F')).
Proof.
  intros Hpi Hpi' Hne Hc Hc'. split.
  - intros [F HF]. pose proof (accepted_wf0 cut pi P F Hpi Hne HF) as Hwf.
    destruct (main_map_order_irrelevant cut pi pi' P Hpi Hpi' Hwf Hc Hc') as [Hiff _]. apply Hiff. eauto.
  - intros [F HF]. pose proof (accepted_wf0 cut pi' P F Hpi' Hne HF) as Hwf.
    destruct (main_map_order_irrelevant cut pi' pi P Hpi' Hpi Hwf Hc' Hc) as [Hiff _]. apply Hiff. eauto.
Qed.

(* ---------- what the compiler reads ------------------------------------------------------ *)

Theorem lookup_deterministic F F' :
  final_equiv F F' -> forall fn v, lookup_final F fn v = lookup_final F' fn v.
Proof.
  intros [Ht [Hg Hl]] fn v. unfold lookup_final. rewrite Hg, Hl, !Ht. reflexivity.
Qed.

(* anything computed from the syntax tree through LookupVar/LookupFunc - as the
   compiler is, Model/Compiler.v being a function of the tree annotated with
   these answers - is the same for the two results *)
Theorem compiled_deterministic {A} (compile : (name -> name -> option (scope * ty * Z)) -> A) F F' :
  (forall l l', (forall fn v, l fn v = l' fn v) -> compile l = compile l') ->
  final_equiv F F' -> compile (lookup_final F) = compile (lookup_final F').
Proof. intros Hext He. apply Hext. apply lookup_deterministic. exact He. Qed.

(* ---------- the error -------------------------------------------------------------------- *)

Lemma rerr_eqb_eq a b : rerr_eqb a b = true -> a = b.
Proof.
  destruct a, b; cbn [rerr_eqb]; intros H; try discriminate; try reflexivity;
    repeat (apply andb_true_iff in H; let H2 := fresh "H" in destruct H as [H H2]);
    repeat match goal with
           | X : neqb _ _ = true |- _ => apply neqb_eq in X
           | X : ty_eqb _ _ = true |- _ => apply ty_eqb_eq in X
           end; congruence.
Qed.

Lemma one_error_same cut P e e' :
  one_error cut P = true ->
  In (RErr e) (order_outcomes cut P) -> In (RErr e') (order_outcomes cut P) -> e = e'.
Proof.
  unfold one_error. intros H He He'.
  assert (Hf : forall x, In (RErr x) (order_outcomes cut P) ->
               In (RErr x) (filter (fun r => negb (is_ok r)) (order_outcomes cut P))).
  { intros x Hx. apply filter_In. split; [exact Hx | reflexivity]. }
  apply Hf in He, He'.
  destruct (filter (fun r => negb (is_ok r)) (order_outcomes cut P)) as [|r0 rs]; [destruct He|].
  rewrite forallb_forall in H.
  assert (G : forall x, In (RErr x) (r0 :: rs) -> err_of r0 = Some x).
  { intros x [->|Hx]; [reflexivity|]. specialize (H _ Hx). cbn [err_of] in H.
    destruct (err_of r0) as [a|]; [|discriminate]. apply rerr_eqb_eq in H. congruence. }
  apply G in He, He'. congruence.
Qed.

(* ERROR (partial: guard = "the error set is a singleton", a computable check
   over the orders of the functions; it holds in particular when the program
   has at most one function) *)
Theorem error_deterministic_partial cut pi pi' P e e' :
  perm_oracle pi -> perm_oracle pi' -> names_ok P -> one_error cut P = true ->
  resolve_cut cut pi P = RErr e -> resolve_cut cut pi' P = RErr e' -> e = e'.
Proof.
  intros Hpi Hpi' Hne H1 He He'.
  pose proof (outcome_enumerated cut pi P Hpi Hne) as Hi. rewrite He in Hi.
  pose proof (outcome_enumerated cut pi' P Hpi' Hne) as Hi'. rewrite He' in Hi'.
  eapply one_error_same; eassumption.
Qed.

(* at most one function: there is one order, the whole result is determined *)
Theorem single_function_deterministic cut pi pi' P :
  perm_oracle pi -> perm_oracle pi' -> names_ok P -> (length (p_funcs P) <= 1)%nat ->
  resolve_cut cut pi P = resolve_cut cut pi' P.
Proof.
  intros Hpi Hpi' Hne Hl.
  pose proof (outcome_enumerated cut pi P Hpi Hne) as Hi.
  pose proof (outcome_enumerated cut pi' P Hpi' Hne) as Hi'.
  unfold order_outcomes, fnames in Hi, Hi'.
  destruct (p_funcs P) as [|fd [|fd2 r]]; cbn [map perms flat_map insert_all app In length] in *; try lia.
  - destruct Hi as [Hi|[]]. destruct Hi' as [Hi'|[]]. congruence.
  - destruct Hi as [Hi|[]]. destruct Hi' as [Hi'|[]]. congruence.
Qed.

(* THE WHOLE RESULT (partial: both guards) *)
Theorem parse_deterministic_partial cut pi pi' P :
  perm_oracle pi -> perm_oracle pi' -> names_ok P ->
  resolve_cut cut pi P <> RErr ETooManyIter -> resolve_cut cut pi' P <> RErr ETooManyIter ->
  one_error cut P = true ->
  same_result (resolve_cut cut pi P) (resolve_cut cut pi' P).
Proof.
  intros Hpi Hpi' Hne Hc Hc' H1.
  pose proof (verdict_deterministic_partial cut pi pi' P Hpi Hpi' Hne Hc Hc') as Hv.
  pose proof (resolve_cut_no_panic cut pi P) as Hp. pose proof (resolve_cut_no_panic cut pi' P) as Hp'.
  pose proof (resolve_cut_no_fuel cut pi P Hpi) as Hf. pose proof (resolve_cut_no_fuel cut pi' P Hpi') as Hf'.
  destruct (resolve_cut cut pi P) as [F|e| |] eqn:E; destruct (resolve_cut cut pi' P) as [F'|e'| |] eqn:E';
    try congruence; cbn [same_result].
  - eapply accepted_deterministic; [exact Hpi | exact Hpi' | exact Hne | exact E | exact E'].
  - destruct Hv as [Hv _]. destruct (Hv ltac:(eauto)) as [F' HF']. discriminate.
  - destruct Hv as [_ Hv]. destruct (Hv ltac:(eauto)) as [F HF]. discriminate.
  - eapply error_deterministic_partial; [exact Hpi | exact Hpi' | exact Hne | exact H1 | exact E | exact E'].
Qed.

(* ---------- oracles that start with a chosen key ---------------------------------------- *)

Lemma remove_first_perm x l : In x l -> Permutation (x :: remove_first x l) l.
Proof.
  induction l as [|y r IH]; intros H; [destruct H|]. cbn [remove_first].
  destruct (neqb y x) eqn:E.
  - apply neqb_eq in E. subst. apply Permutation_refl.
  - destruct H as [H|H]; [apply neqb_neq in E; congruence|].
    eapply Permutation_trans; [apply perm_swap | apply perm_skip; apply IH; exact H].
Qed.

Lemma front_oracle_perm x : perm_oracle (front_oracle x).
Proof.
  intros k l. unfold front_oracle. destruct (mem x l) eqn:E; [|apply Permutation_refl].
  apply remove_first_perm. apply mem_In. exact E.
Qed.

(* ---------- the function names kept for the disassembler ---------------------------------- *)

Lemma name_shown_fold P i order : forall acc,
  let r := fold_left (fun acc n => if shown_hit P i n then Some n else acc) order acc in
  ((forall n, In n order -> shown_hit P i n = false) /\ r = acc) \/
  (exists n, In n order /\ shown_hit P i n = true /\ r = Some n).
Proof.
  induction order as [|x l IH]; intros acc; cbn [fold_left].
  - left. split; [intros n []|reflexivity].
  - destruct (IH (if shown_hit P i x then Some x else acc)) as [[Hnone Hr]|[n [Hin [Hh Hr]]]].
    + destruct (shown_hit P i x) eqn:E.
      * right. exists x. split; [left; reflexivity|]. split; [exact E | exact Hr].
      * left. split; [|exact Hr]. intros n [<-|Hn]; [exact E | apply Hnone; exact Hn].
    + right. exists n. split; [right; exact Hin|]. split; [exact Hh | exact Hr].
Qed.

(* DISASSEMBLY NAMES (partial: guard = no two functions of the map share index i;
   finding F-C19-3 is the case of a Go function and an AWK function with the same index) *)
Theorem name_shown_deterministic_partial P order order' i :
  Permutation order order' ->
  (forall n n', In n order -> In n' order -> shown_hit P i n = true -> shown_hit P i n' = true -> n = n') ->
  name_shown P order i = name_shown P order' i.
Proof.
  intros Hp Hu. unfold name_shown.
  destruct (name_shown_fold P i order None) as [[Hn Hr]|[n [Hin [Hh Hr]]]];
  destruct (name_shown_fold P i order' None) as [[Hn' Hr']|[n' [Hin' [Hh' Hr']]]]; cbv zeta in *.
  - congruence.
  - exfalso. assert (Hi : In n' order) by (eapply Permutation_in; [apply Permutation_sym; exact Hp | exact Hin']).
    rewrite (Hn n' Hi) in Hh'. discriminate.
  - exfalso. assert (Hi : In n order') by (eapply Permutation_in; [exact Hp | exact Hin]).
    rewrite (Hn' n Hi) in Hh. discriminate.
  - assert (Hi : In n' order) by (eapply Permutation_in; [apply Permutation_sym; exact Hp | exact Hin']).
    rewrite Hr, Hr'. f_equal. apply Hu; assumption.
Qed.
