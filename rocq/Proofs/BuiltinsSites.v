(* C10, table theorem: every regex that goawk uses for matching has leftmost-longest
   semantics switched on, on every path from its compilation to its first use.

   The facts (Gen/RegexSites.v) are re-extracted from the repository source on every check;
   the classification below is hand-written and committed.  A new compile site, a site whose
   .Longest() call disappears, or a site where the compiled regex can be returned / stored /
   used before .Longest() (for instance `if cacheFull { return re, nil }` placed before
   re.Longest() in interp.compileRegex) changes the table and breaks the theorem. *)
From Coq Require Import String List ZArith Bool.
From Verif Require Import Gen.RegexSites.
Import ListNotations.
Open Scope string_scope.

Inductive site_class : Type :=
| Matching          (* the regex is executed against AWK data *)
| ValidationOnly    (* compiled only to report a syntax error; result discarded *)
| InternalFixed.    (* fixed pattern of the interpreter itself, not an AWK regex *)

(* key: package, enclosing function, argument text *)
Definition classification : list (string * string * string * site_class) := [
  (* FS = multi-character regex *)
  ("interp", "setSpecial", "compiler.AddRegexFlags(fieldSep)", Matching);
  (* RS: one byte / one multi-byte character (quoted), or a regex *)
  ("interp", "setSpecial", "sep", Matching);
  ("interp", "setSpecial", "compiler.AddRegexFlags(recordSep)", Matching);
  (* dynamic regexes: match, split, sub, gsub, ~ with a string operand; regex cache *)
  ("interp", "compileRegex", "compiler.AddRegexFlags(regex)", Matching);
  (* regex literals, compiled once per program *)
  ("internal/compiler", "regexIndex", "AddRegexFlags(r)", Matching);
  (* parser: syntax check of a regex literal *)
  ("parser", "nextRegex", "compiler.AddRegexFlags(regex)", ValidationOnly);
  (* name=value command-line assignments: anchored, no alternation, greedy = longest *)
  ("interp", "(package variable)", "`(?s)^([_a-zA-Z][_a-zA-Z0-9]*)=(.*)`", InternalFixed)
].

Definition key_eqb (k : string * string * string) (s : re_site) : bool :=
  let '(p, f, a) := k in
  String.eqb p (rs_pkg s) && String.eqb f (rs_func s) && String.eqb a (rs_arg s).

Fixpoint classify (cl : list (string * string * string * site_class)) (s : re_site) : option site_class :=
  match cl with
  | [] => None
  | (k, c) :: rest => if key_eqb k s then Some c else classify rest s
  end.

Definition is_nil {A} (l : list A) : bool := match l with [] => true | _ => false end.

(* "longest on all paths": Longest() is called, nothing can use the regex before that call,
   and control cannot leave the block with the call still pending *)
Definition longest_on_all_paths (s : re_site) : bool :=
  rs_longest s && is_nil (rs_early_uses s) && rs_fall_longest s &&
  match rs_target s with TLocal _ | TField _ => true | _ => false end &&
  (String.eqb (rs_call s) "Compile" || String.eqb (rs_call s) "MustCompile").

Definition site_ok (s : re_site) : bool :=
  match classify classification s with
  | Some Matching => longest_on_all_paths s
  | Some ValidationOnly => match rs_target s with TDiscard => true | _ => false end
  | Some InternalFixed => match rs_target s with TPkgVar _ => true | _ => false end
  | None => false
  end.

(* every entry of the classification still corresponds to a site (the extraction lost nothing) *)
Definition classification_used : bool :=
  forallb (fun kc => existsb (key_eqb (fst kc)) regex_sites) classification.

Lemma all_sites_ok : forallb site_ok regex_sites = true.
Proof. vm_compute. reflexivity. Qed.

Theorem longest_everywhere_sites :
  (forall s, In s regex_sites -> site_ok s = true) /\
  (forall s, In s regex_sites -> classify classification s = Some Matching ->
     rs_longest s = true /\ rs_early_uses s = [] /\ rs_fall_longest s = true) /\
  classification_used = true /\
  length regex_sites = 8%nat.
Proof.
  split; [|split; [|split]].
  - apply forallb_forall. exact all_sites_ok.
  - intros s Hin Hc.
    pose proof (proj1 (forallb_forall site_ok regex_sites) all_sites_ok s Hin) as Hok.
    unfold site_ok in Hok. rewrite Hc in Hok. unfold longest_on_all_paths in Hok.
    repeat (apply andb_true_iff in Hok as [Hok ?]).
    repeat split; try assumption.
    destruct (rs_early_uses s); [reflexivity|discriminate].
  - vm_compute. reflexivity.
  - vm_compute. reflexivity.
Qed.
