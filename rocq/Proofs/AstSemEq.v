(* C01: unfolding equations of the fuel-indexed evaluator (all by reflexivity). *)
From Verif Require Import Lib.Base Model.Ast Model.Instr Model.Compiler Model.Prims Model.VM Model.AstSem.

Section AstSemEq.
  Variables value St err : Type.
  Variable P : prims value St err.
  Variable FN : list func.
  Notation mstate := (mstate value St).

  Lemma eval_exprs_nil n m : eval_exprs P FN (S n) Enil m = ENormal [] m.
  Proof. reflexivity. Qed.
  Lemma eval_exprs_cons n e es m :
    eval_exprs P FN (S n) (Econs e es) m =
    ebind (eval P FN n e m) (fun v m1 => ebind (eval_exprs P FN n es m1) (fun vs m2 => ENormal (v :: vs) m2)).
  Proof. reflexivity. Qed.

  Lemma eval_index_S n es m :
    eval_index P FN (S n) es m =
    ebind (eval_exprs P FN n es m) (fun vs m1 =>
      match vs with
      | [] => EWrong
      | [v] => ENormal v m1
      | _ => ENormal (p_index_multi P (ms m1) vs) m1
      end).
  Proof. reflexivity. Qed.

  Lemma eval_lref_var n sc i m : eval_lref P FN (S n) (LVar sc i) m = ENormal (RVar sc i) m.
  Proof. reflexivity. Qed.
  Lemma eval_lref_field n e m :
    eval_lref P FN (S n) (LField e) m = ebind (eval P FN n e m) (fun idx m1 => ENormal (RField idx) m1).
  Proof. reflexivity. Qed.
  Lemma eval_lref_index n sc i idx m :
    eval_lref P FN (S n) (LIndex sc i idx) m = ebind (eval_index P FN n idx m) (fun key m1 => ENormal (RIndex sc i key) m1).
  Proof. reflexivity. Qed.

  Lemma eval_args_nil n m : eval_args P FN (S n) Anil m = ENormal [] m.
  Proof. reflexivity. Qed.
  Lemma eval_args_s n e a m :
    eval_args P FN (S n) (AconsS e a) m =
    ebind (eval P FN n e m) (fun v m1 => ebind (eval_args P FN n a m1) (fun vs m2 => ENormal (v :: vs) m2)).
  Proof. reflexivity. Qed.
  Lemma eval_args_a n sc i a m : eval_args P FN (S n) (AconsA sc i a) m = eval_args P FN n a m.
  Proof. reflexivity. Qed.

  Lemma exec_stmts_nil n l m : exec_stmts P FN (S n) l Snil m = RNormal m.
  Proof. reflexivity. Qed.
  Lemma exec_stmts_cons n l s ss m :
    exec_stmts P FN (S n) l (Scons s ss) m =
    match exec P FN n l s m with
    | RNormal m1 => exec_stmts P FN n l ss m1
    | other => other
    end.
  Proof. reflexivity. Qed.

  Definition test_cond (n : nat) (c : oexpr) (m : mstate) : eres value St err bool :=
    match c with
    | OEnone => ENormal true m
    | OEsome e => ebind (eval P FN n e m) (fun v m1 => ENormal (p_to_bool P v) m1)
    end.

  Definition exec_ostmt (n : nat) (o : ostmt) (m : mstate) : xres value St err :=
    match o with OSnone => RNormal m | OSsome s1 => exec P FN n false s1 m end.

  Lemma exec_loop_S n c post body m :
    exec_loop P FN (S n) c post body m =
    sbind (test_cond n c m) (fun go m1 =>
      if negb go then RNormal m1 else
      match exec_stmts P FN n true body m1 with
      | RNormal m2 | RContinue m2 =>
          match exec_ostmt n post m2 with
          | RNormal m3 => exec_loop P FN n c post body m3
          | RBreak _ | RContinue _ => RWrong
          | other => other
          end
      | RBreak m2 => RNormal m2
      | other => other
      end).
  Proof. destruct c, post; reflexivity. Qed.

  Lemma eval_assign n lv r m :
    eval P FN (S n) (EAssign lv r) m =
    ebind (eval P FN n r m) (fun v m1 => ebind (eval_lref P FN n lv m1) (fun ref m2 => lref_write P v m2 ref v)).
  Proof. reflexivity. Qed.
  Lemma eval_augassign n lv op r m :
    eval P FN (S n) (EAugAssign lv op r) m =
    ebind (eval P FN n r m) (fun rv m1 =>
    ebind (eval_lref P FN n lv m1) (fun ref m2 =>
    ebind (lref_read P m2 ref) (fun old m3 =>
    ebind (of_pure_er m3 (p_arith P op old rv)) (fun nv m4 => lref_write P nv m4 ref nv)))).
  Proof. reflexivity. Qed.
  Lemma eval_incr n lv decr pre m :
    eval P FN (S n) (EIncr lv decr pre) m =
    ebind (eval_lref P FN n lv m) (fun ref m1 =>
    ebind (lref_read P m1 ref) (fun old m2 =>
      if pre then
        ebind (of_pure_er m2 (p_arith P (incr_arith decr) old (p_num P one_bits))) (fun nv m3 => lref_write P nv m3 ref nv)
      else
        ebind (of_pure_er m2 (p_arith P (incr_arith decr) (p_plus P old) (p_num P one_bits)))
              (fun nv m3 => lref_write P (p_plus P old) m3 ref nv))).
  Proof. reflexivity. Qed.

  Lemma exec_loop_no_brk n : forall c post body m,
    match exec_loop P FN n c post body m with
    | RBreak _ | RContinue _ => False
    | _ => True
    end.
  Proof.
    induction n as [|n IH]; intros c post body m; [exact I|].
    rewrite exec_loop_S.
    destruct (test_cond n c m) as [go m1|x m1| |]; cbn [sbind]; try exact I.
    destruct (negb go); [exact I|].
    destruct (exec_stmts P FN n true body m1) as [m2|m2|m2|v m2|x m2| |]; try exact I.
    - destruct (exec_ostmt n post m2); try exact I. apply IH.
    - destruct (exec_ostmt n post m2); try exact I. apply IH.
  Qed.

  (* statements *)
  Lemma exec_expr n l e m : exec P FN (S n) l (SExpr e) m = sbind (eval P FN n e m) (fun _ m1 => RNormal m1).
  Proof. reflexivity. Qed.
  Lemma exec_print n l (pf : bool) r dest args m :
    exec P FN (S n) l (if pf then SPrintf r dest args else SPrint r dest args) m =
    sbind (match r with RNone => ENormal (p_null P) m | _ => eval P FN n dest m end) (fun dv m1 =>
    sbind (eval_exprs P FN n args m1) (fun vs m2 =>
    sbind (of_er m2 (p_print P pf (ms m2) r (redir_src r dv) vs)) (fun _ m3 => RNormal m3))).
  Proof. destruct pf; reflexivity. Qed.
  Lemma exec_if n l c body els m :
    exec P FN (S n) l (SIf c body els) m =
    sbind (eval P FN n c m) (fun vc m1 =>
      if p_to_bool P vc then exec_stmts P FN n l body m1 else exec_stmts P FN n l els m1).
  Proof. reflexivity. Qed.
  Lemma exec_for n l pre c post body m :
    exec P FN (S n) l (SFor pre c post body) m =
    match exec_ostmt n pre m with
    | RNormal m1 => exec_loop P FN n c post body m1
    | RBreak _ | RContinue _ => RWrong
    | other => other
    end.
  Proof. destruct pre; reflexivity. Qed.
  Lemma exec_while n l c body m :
    exec P FN (S n) l (SWhile c body) m = exec_loop P FN n (OEsome c) OSnone body m.
  Proof. reflexivity. Qed.
  Lemma exec_dowhile n l body c m :
    exec P FN (S n) l (SDoWhile body c) m =
    match exec_stmts P FN n true body m with
    | RNormal m1 | RContinue m1 =>
        sbind (eval P FN n c m1) (fun vc m2 =>
          if p_to_bool P vc then exec P FN n l (SDoWhile body c) m2 else RNormal m2)
    | RBreak m1 => RNormal m1
    | other => other
    end.
  Proof. reflexivity. Qed.

  Fixpoint forin_ast (n : nat) (vsc : scope) (vi : Z) (body : stmts) (ks : list value) (m : mstate) : xres value St err :=
    match ks with
    | [] => RNormal m
    | k :: ks' =>
        match var_write P m vsc vi k with
        | WStuck => RWrong
        | WErr e m1 => RAbort (XError e) m1
        | WOk m1 =>
            match exec_stmts P FN n true body m1 with
            | RNormal m2 | RContinue m2 => forin_ast n vsc vi body ks' m2
            | RBreak m2 => RNormal m2
            | other => other
            end
        end
    end.

  Lemma forin_ast_no_brk n vsc vi body ks : forall m,
    match forin_ast n vsc vi body ks m with
    | RBreak _ | RContinue _ => False
    | _ => True
    end.
  Proof.
    induction ks as [|k ks IH]; intros m; cbn [forin_ast]; [exact I|].
    destruct (var_write P m vsc vi k) as [m1|e m1|]; try exact I.
    destruct (exec_stmts P FN n true body m1); try exact I; apply IH.
  Qed.

  Lemma exec_forin n l vsc vi asc ai body m :
    exec P FN (S n) l (SForIn vsc vi asc ai body) m =
    forin_ast n vsc vi body (p_array_keys P (ms m) asc ai) m.
  Proof.
    set (L := fix loop (ks : list value) (m : mstate) : xres value St err :=
           match ks with
           | [] => RNormal m
           | k :: ks' =>
               match var_write P m vsc vi k with
               | WStuck => RWrong
               | WErr e m1 => RAbort (XError e) m1
               | WOk m1 =>
                   match exec_stmts P FN n true body m1 with
                   | RNormal m2 | RContinue m2 => loop ks' m2
                   | RBreak m2 => RNormal m2
                   | other => other
                   end
               end
           end).
    change (exec P FN (S n) l (SForIn vsc vi asc ai body) m) with (L (p_array_keys P (ms m) asc ai) m).
    generalize (p_array_keys P (ms m) asc ai). intros ks. revert m.
    induction ks as [|k ks IH]; intros m; cbn [forin_ast]; [reflexivity|].
    unfold L at 1; fold L.
    destruct (var_write P m vsc vi k) as [m1|e m1|]; try reflexivity.
    destruct (exec_stmts P FN n true body m1); try reflexivity; apply IH.
  Qed.

  Lemma exec_break n l m : exec P FN (S n) l SBreak m = if l then RBreak m else RWrong.
  Proof. reflexivity. Qed.
  Lemma exec_continue n l m : exec P FN (S n) l SContinue m = if l then RContinue m else RWrong.
  Proof. reflexivity. Qed.
  Lemma exec_next n l m : exec P FN (S n) l SNext m = RAbort XNext m.
  Proof. reflexivity. Qed.
  Lemma exec_nextfile n l m : exec P FN (S n) l SNextfile m = RAbort XNextfile m.
  Proof. reflexivity. Qed.
  Lemma exec_exit n l oe m :
    exec P FN (S n) l (SExit oe) m =
    match oe with
    | OEnone => RAbort XExit m
    | OEsome e => sbind (eval P FN n e m) (fun v m1 => RAbort XExit (with_ms m1 (p_set_exit P (ms m1) v)))
    end.
  Proof. reflexivity. Qed.
  Lemma exec_return n l oe m :
    exec P FN (S n) l (SReturn oe) m =
    match oe with
    | OEnone => RReturn (p_null P) m
    | OEsome e => sbind (eval P FN n e m) (fun v m1 => RReturn v m1)
    end.
  Proof. reflexivity. Qed.
  Lemma exec_delete n l sc i idx m :
    exec P FN (S n) l (SDelete sc i idx) m =
    sbind (eval_index P FN n idx m) (fun key m1 => RNormal (with_ms m1 (p_array_del P (ms m1) sc i key))).
  Proof. reflexivity. Qed.
  Lemma exec_deleteall n l sc i m :
    exec P FN (S n) l (SDeleteAll sc i) m = RNormal (with_ms m (p_array_clear P (ms m) sc i)).
  Proof. reflexivity. Qed.
  Lemma exec_block n l body m : exec P FN (S n) l (SBlock body) m = exec_stmts P FN n l body m.
  Proof. reflexivity. Qed.

End AstSemEq.

Arguments test_cond {value St err}.
Arguments exec_ostmt {value St err}.
Arguments forin_ast {value St err}.
