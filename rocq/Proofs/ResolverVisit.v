(* C16: no occurrence is skipped.  Every variable use that occurs anywhere in an
   event tree (however deeply nested in call arguments) is a step of the layout
   the visitor runs, and every such step contributes its constraint. *)
From Verif Require Import Lib.Base Model.Resolver Proofs.Resolver Proofs.ResolverSound Proofs.ResolverFlat.

(* all direct uses (variable, demanded type) occurring in an event *)
Fixpoint uses_of (e : event) : list (name * ty) :=
  match e with
  | Use v t => [(v, t)]
  | Call f args =>
      (fix go (l : list arg) : list (name * ty) :=
         match l with
         | [] => []
         | ArgVar _ :: r => go r
         | ArgExpr es :: r =>
             (fix fe (es : list event) : list (name * ty) :=
                match es with [] => [] | e' :: es' => uses_of e' ++ fe es' end) es ++ go r
         end) args
  end.

Fixpoint uses_of_args (l : list arg) : list (name * ty) :=
  match l with
  | [] => []
  | ArgVar _ :: r => uses_of_args r
  | ArgExpr es :: r => flat_map uses_of es ++ uses_of_args r
  end.

Lemma uses_of_call f args : uses_of (Call f args) = uses_of_args args.
Proof.
  cbn [uses_of]. induction args as [|a r IH]; [reflexivity|].
  destruct a as [v|es]; cbn [uses_of_args]; rewrite <- IH; reflexivity.
Qed.

Definition visited (e : event) : Prop := forall v t, In (v, t) (uses_of e) -> In (SUse v t) (flat_event e).

Lemma visited_events es : Forall visited es -> forall v t, In (v, t) (flat_map uses_of es) -> In (SUse v t) (flat_events es).
Proof.
  unfold flat_events. induction es as [|e es IH]; intros Hall v t H; cbn [flat_map] in *; [destruct H|].
  inversion Hall as [|x y H1 H2]; subst. apply in_app_or in H. apply in_or_app.
  destruct H as [H|H]; [left; apply H1; exact H | right; apply IH; assumption].
Qed.

Lemma visited_args f l : Forall (arg_all visited) l ->
  forall i v t, In (v, t) (uses_of_args l) -> In (SUse v t) (flat_args f i l).
Proof.
  induction l as [|a r IH]; intros Hall i v t H; cbn [uses_of_args] in H; [destruct H|].
  inversion Hall as [|x y H1 H2]; subst. destruct a as [w|es]; cbn [flat_args].
  - right. apply IH; assumption.
  - right. apply in_app_or in H. apply in_or_app.
    destruct H as [H|H]; [left; apply visited_events; assumption | right; apply IH; assumption].
Qed.

(* every use in the tree is a step *)
Theorem all_uses_visited e : visited e.
Proof.
  induction e as [v t|f args IH] using event_ind'; intros w u H.
  - cbn [uses_of flat_event] in *. destruct H as [H|[]]. injection H as -> ->. left; reflexivity.
  - rewrite uses_of_call in H. rewrite flat_event_call. right. apply visited_args; assumption.
Qed.

(* ... and every step of a function body or of the top level yields its constraint *)
Theorem use_in_body_constrains P fd e v t :
  In fd (p_funcs P) -> In e (f_body fd) -> In (v, t) (uses_of e) ->
  In (CIs (scope_key P (f_name fd) v) t) (constraints P).
Proof.
  intros Hfd He Hu. pose proof (body_steps_in P fd Hfd) as Hall. rewrite Forall_forall in Hall.
  apply (Hall (SUse v t)); [|left; reflexivity].
  unfold flat_events. apply in_flat_map. exists e. split; [exact He | apply all_uses_visited; exact Hu].
Qed.

Theorem use_in_main_constrains P e v t :
  In e (p_main P) -> In (v, t) (uses_of e) -> In (CIs (scope_key P [] v) t) (constraints P).
Proof.
  intros He Hu. pose proof (main_steps_in P) as Hall. rewrite Forall_forall in Hall.
  apply (Hall (SUse v t)); [|left; reflexivity].
  unfold flat_events. apply in_flat_map. exists e. split; [exact He | apply all_uses_visited; exact Hu].
Qed.
