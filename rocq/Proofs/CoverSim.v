(* C18 proofs, part 3: the simulation.  A run of a tree with counter statements and a run of
   the same tree with the counter statements erased proceed in lock step: same user-visible
   state, same ghost trace, same outcome; and an invariant between the __COVER array of the
   first run and the trace is maintained, provided
     - a counter statement establishes the "pending" form of the invariant (Hc),
     - the begin event of the statement it guards restores the invariant (Hh),
     - the begin event of any other statement preserves it (Hp).
   Instantiated in CoverMain.v with the trivial invariant (transparency), with
   "__COVER[i] = number of begin events at the start of block i" (count mode) and with
   "__COVER[i] = 1 iff that number is positive" (set mode). *)
From Verif Require Import Lib.Base Model.Cover Proofs.CoverBase Proofs.CoverStruct.

Lemma Forall2_nth {A B} (R : A -> B -> Prop) la lb : Forall2 R la lb ->
  forall n, match nth_error la n, nth_error lb n with
            | Some a, Some b => R a b
            | None, None => True
            | _, _ => False
            end.
Proof.
  induction 1 as [|a b ta tb Hab _ IH]; intros [|n]; cbn; auto. apply IH.
Qed.

Section Sim.
Variables (E U K V I XA XB : Type).
Variable ev_start : E -> U -> estep U K V.
Variable ev_resume : K -> U -> V -> estep U K V.
Variable truthy : V -> bool.
Variable nil_v : V.
Variable forin_init : E -> U -> I.
Variable forin_next : E -> I -> U -> option (I * U).
Variable bumpA : cmode -> Z -> XA -> XA.
Variable bumpB : cmode -> Z -> XB -> XB.
Variable mode : cmode.
Variable funcsA funcsB : list (list (cstmt E)).

Variable J : XA -> list pos -> Prop.
Variable JP : Z -> XA -> list pos -> Prop.
Variable okp : option Z -> pos -> Prop.
Hypothesis Hc : forall i x tr, J x tr -> JP i (bumpA mode i x) tr.
Hypothesis Hh : forall i p x tr, JP i x tr -> okp (Some i) p -> J x (p :: tr).
Hypothesis Hp : forall p x tr, J x tr -> okp None p -> J x (p :: tr).

Notation stA := (st U XA).
Notation stB := (st U XB).
Notation out := (outcome V).

Definition RstP (prev : option Z) (q : stA) (qb : stB) : Prop :=
  s_u _ _ q = s_u _ _ qb /\ s_tr _ _ q = s_tr _ _ qb
  /\ match prev with None => J (s_x _ _ q) (s_tr _ _ q) | Some i => JP i (s_x _ _ q) (s_tr _ _ q) end.
Definition Rst := RstP None.

(* outcomes agree; states are related unless the fuel ran out *)
Definition rrel (r : stA * out) (rb : stB * out) : Prop :=
  snd r = snd rb /\ (snd r <> OFuel V -> Rst (fst r) (fst rb)).
Definition vrel (r : stA * vres V) (rb : stB * vres V) : Prop :=
  snd r = snd rb /\ (snd r <> VOut V (OFuel V) -> Rst (fst r) (fst rb)).

(* well-marked trees: structure + every (tag, start) pair is acceptable *)
Definition okt (x : option Z * pos) : Prop := okp (fst x) (snd x).
Definition wm_list (prev : option Z) (l : list (cstmt E)) : Prop :=
  sok_list mode (sok mode) prev l /\ Forall okt (tagged_list tagged_in prev l).
Definition wm_stmt (s : cstmt E) : Prop := sok mode s /\ Forall okt (tagged_in s).

Lemma wm_nil prev : wm_list prev [] -> prev = None.
Proof. intros [H _]. exact H. Qed.

Lemma wm_cover prev m i t : wm_list prev (SCover m i :: t) -> prev = None /\ m = mode /\ wm_list (Some i) t.
Proof. intros [(H1 & H2 & H3) H4]. split; [exact H1|]. split; [exact H2|]. split; assumption. Qed.

Lemma wm_plain prev (s : cstmt E) t : plain s -> wm_list prev (s :: t) ->
  okp prev (start_of s) /\ wm_stmt s /\ wm_list None t.
Proof.
  intros Hs [H1 H2]. apply (sok_list_plain mode) in H1; [|exact Hs]. destruct H1 as [H1 H3].
  rewrite tagged_list_plain in H2 by exact Hs.
  inversion H2 as [|? ? Hx Hrest]; subst. apply Forall_app in Hrest as [Hin Ht].
  split; [exact Hx|]. split; split; assumption.
Qed.

Lemma wm_some_nonempty i l : wm_list (Some i) l -> exists s t, l = s :: t /\ plain s.
Proof.
  intros [H _]. destruct l as [|s t]; [discriminate H|]. exists s, t. split; [reflexivity|].
  destruct s; try reflexivity. destruct H as [H _]. discriminate H.
Qed.

Hypothesis Hfun : Forall2 (fun la lb => erase_stmts la = lb /\ wm_list None la) funcsA funcsB.

Notation execA := (exec E U K V I XA ev_start ev_resume truthy nil_v forin_init forin_next bumpA funcsA).
Notation execB := (exec E U K V I XB ev_start ev_resume truthy nil_v forin_init forin_next bumpB funcsB).

Section Rec.
Variable recA : cstmt E -> stA -> stA * out.
Variable recB : cstmt E -> stB -> stB * out.
Hypothesis Hrec : forall s q qb, plain s -> wm_stmt s -> Rst q qb -> rrel (recA s q) (recB (erase s) qb).
Hypothesis HrecC : forall m i q,
  recA (SCover m i) q = (mkst _ _ (s_u _ _ q) (bumpA m i (s_x _ _ q)) (s_tr _ _ q), ONormal V)
  \/ (snd (recA (SCover m i) q) = OFuel V /\ forall s qb, snd (recB s qb) = OFuel V).

Notation listA := (exec_list E U V XA recA).
Notation listB := (exec_list E U V XB recB).

Lemma rrel_same q qb o : (o <> OFuel V -> Rst q qb) -> rrel (q, o) (qb, o).
Proof. intros H. split; [reflexivity|exact H]. Qed.

Lemma list_sim l : forall prev q qb, wm_list prev l -> RstP prev q qb ->
  rrel (listA l q) (listB (erase_stmts l) qb).
Proof.
  induction l as [|s t IH]; intros prev q qb Hwm HR.
  - apply wm_nil in Hwm. subst prev. cbn. apply rrel_same. intros _. exact HR.
  - destruct (is_cover s) eqn:Hcov.
    + destruct s; try discriminate Hcov. apply wm_cover in Hwm as (-> & -> & Hwm).
      cbn [exec_list mark]. change (erase_stmts (SCover mode i :: t)) with (erase_stmts t).
      destruct (HrecC mode i q) as [Hn | [Hf Hall]].
      * rewrite Hn. apply (IH (Some i)); [exact Hwm|].
        destruct HR as (H1 & H2 & H3). split; [exact H1|]. split; [exact H2|]. cbn. apply Hc. exact H3.
      * destruct (wm_some_nonempty _ _ Hwm) as (s2 & t2 & -> & Hp2).
        destruct (recA (SCover mode i) q) as [q1 o1]. cbn in Hf. subst o1.
        unfold erase_stmts. rewrite erase_list_plain_cons by exact Hp2. cbn [exec_list].
        pose proof (Hall (erase s2) (mark E U XB (erase s2) qb)) as HB.
        destruct (recB (erase s2) (mark E U XB (erase s2) qb)) as [qb1 ob1]. cbn in HB. subst ob1.
        split; [reflexivity|]. intros Hne. exfalso. apply Hne. reflexivity.
    + destruct (wm_plain prev s t Hcov Hwm) as (Hok & Hws & Hwt).
      destruct (erase_plain s Hcov) as [Hpe Hse].
      unfold erase_stmts. rewrite erase_list_plain_cons by exact Hcov. cbn [exec_list].
      assert (HR1 : Rst (mark E U XA s q) (mark E U XB (erase s) qb)).
      { destruct HR as (H1 & H2 & H3).
        assert (Hm : forall X (qq : st U X) (ss : cstmt E), plain ss ->
                  mark E U X ss qq = mkst _ _ (s_u _ _ qq) (s_x _ _ qq) (start_of ss :: s_tr _ _ qq)).
        { intros X qq ss Hss. destruct ss; try reflexivity. discriminate Hss. }
        rewrite (Hm XA q s Hcov), (Hm XB qb (erase s) Hpe), Hse. split; [exact H1|]. split; [cbn; rewrite H2; reflexivity|].
        cbn. destruct prev as [i|]; [eapply Hh; eassumption|apply Hp; assumption]. }
      pose proof (Hrec s _ _ Hcov Hws HR1) as Hs.
      destruct (recA s (mark E U XA s q)) as [q1 o1], (recB (erase s) (mark E U XB (erase s) qb)) as [qb1 ob1].
      destruct Hs as [Ho Hs]. cbn in Ho, Hs. subst ob1.
      destruct o1; try (apply rrel_same; exact Hs).
      apply (IH None); [exact Hwt|]. apply Hs. discriminate.
Qed.

Lemma call_sim f q qb : Rst q qb ->
  rrel (call_fn E U V XA funcsA recA f q) (call_fn E U V XB funcsB recB f qb).
Proof.
  intros HR. unfold call_fn.
  assert (Hn : match nth_error funcsA f, nth_error funcsB f with
               | Some la, Some lb => erase_stmts la = lb /\ wm_list None la
               | None, None => True
               | _, _ => False end).
  { exact (Forall2_nth _ _ _ Hfun f). }
  destruct (nth_error funcsA f) as [la|], (nth_error funcsB f) as [lb|]; try contradiction.
  - destruct Hn as [<- Hw]. apply (list_sim la None); assumption.
  - apply rrel_same. intros _. exact HR.
Qed.

Notation driveA := (drive E U K V XA ev_resume nil_v funcsA recA).
Notation driveB := (drive E U K V XB ev_resume nil_v funcsB recB).

Lemma vrel_same q qb (r : vres V) : (r <> VOut V (OFuel V) -> Rst q qb) -> vrel (q, r) (qb, r).
Proof. intros H. split; [reflexivity|exact H]. Qed.

Lemma drive_sim m : forall stp x xb tr, J x tr -> vrel (driveA m stp x tr) (driveB m stp xb tr).
Proof.
  induction m as [|m IH]; intros stp x xb tr HJ.
  - destruct stp as [u [v|a]|f u k]; cbn [drive]; apply vrel_same; intros _; repeat split; exact HJ.
  - destruct stp as [u [v|a]|f u k]; cbn [drive]; try (apply vrel_same; intros _; repeat split; exact HJ).
    assert (HR : Rst (mkst U XA u x tr) (mkst U XB u xb tr)) by (repeat split; exact HJ).
    pose proof (call_sim f _ _ HR) as Hcall.
    destruct (call_fn E U V XA funcsA recA f (mkst U XA u x tr)) as [q1 o1],
             (call_fn E U V XB funcsB recB f (mkst U XB u xb tr)) as [qb1 ob1].
    destruct Hcall as [Ho Hs]. cbn in Ho, Hs. subst ob1.
    destruct o1; try (apply vrel_same; intros _; apply Hs; discriminate).
    + destruct (Hs ltac:(discriminate)) as (H1 & H2 & H3). rewrite H1, H2 in *. apply IH. exact H3.
    + destruct (Hs ltac:(discriminate)) as (H1 & H2 & H3). rewrite H1, H2 in *. apply IH. exact H3.
    + apply vrel_same. intros Hne. exfalso. apply Hne. reflexivity.
Qed.

Variable fuel : nat.
Notation evalA := (eval E U K V XA ev_start ev_resume nil_v funcsA recA fuel).
Notation evalB := (eval E U K V XB ev_start ev_resume nil_v funcsB recB fuel).

Lemma eval_sim e q qb : Rst q qb -> vrel (evalA e q) (evalB e qb).
Proof.
  intros (H1 & H2 & H3). unfold eval. rewrite <- H1, <- H2. apply drive_sim. exact H3.
Qed.

(* case analysis on a pair of related evaluations *)
Lemma vrel_inv r rb : vrel r rb ->
  (exists q qb v, r = (q, VVal V v) /\ rb = (qb, VVal V v) /\ Rst q qb)
  \/ (exists q qb o, r = (q, VOut V o) /\ rb = (qb, VOut V o) /\ (o <> OFuel V -> Rst q qb)).
Proof.
  destruct r as [q [v|o]], rb as [qb rb']; intros [Ho Hs]; cbn in Ho, Hs; subst rb'.
  - left. exists q, qb, v. split; [reflexivity|]. split; [reflexivity|]. apply Hs; discriminate.
  - right. exists q, qb, o. split; [reflexivity|]. split; [reflexivity|]. intros Hne. apply Hs. congruence.
Qed.

Lemma rrel_inv r rb : rrel r rb -> exists q qb o, r = (q, o) /\ rb = (qb, o) /\ (o <> OFuel V -> Rst q qb).
Proof.
  destruct r as [q o], rb as [qb ob]; intros [Ho Hs]; cbn in Ho, Hs; subst ob.
  exists q, qb, o. split; [reflexivity|]. split; [reflexivity|exact Hs].
Qed.

Ltac vcase H :=
  let q1 := fresh "q" in let qb1 := fresh "qb" in let v := fresh "v" in let o := fresh "o" in
  let Ea := fresh "Ea" in let Eb := fresh "Eb" in let HR := fresh "HR" in
  destruct (vrel_inv _ _ H) as [(q1 & qb1 & v & Ea & Eb & HR) | (q1 & qb1 & o & Ea & Eb & HR)];
  rewrite Ea, Eb; clear Ea Eb.
Ltac rcase H :=
  let q1 := fresh "q" in let qb1 := fresh "qb" in let o := fresh "o" in
  let Ea := fresh "Ea" in let Eb := fresh "Eb" in let HR := fresh "HR" in
  destruct (rrel_inv _ _ H) as (q1 & qb1 & o & Ea & Eb & HR); rewrite Ea, Eb; clear Ea Eb.

Lemma eval_opt_sim e q qb : Rst q qb ->
  vrel (eval_opt E U K V XA ev_start ev_resume nil_v funcsA recA fuel e q)
       (eval_opt E U K V XB ev_start ev_resume nil_v funcsB recB fuel e qb).
Proof.
  intros HR. destruct e as [e|]; cbn [eval_opt]; [apply eval_sim; exact HR|].
  apply vrel_same. intros _. exact HR.
Qed.

Section Bodies.
(* loops over a pair of related bodies *)
Variables (body : list (cstmt E)).
Hypothesis Hbody : wm_list None body.

Lemma body_sim q qb : Rst q qb -> rrel (listA body q) (listB (erase_stmts body) qb).
Proof. intros HR. apply (list_sim body None); assumption. Qed.

Lemma while_sim c m : forall q qb, Rst q qb ->
  rrel (while_loop E U K V XA ev_start ev_resume truthy nil_v funcsA recA fuel m c body q)
       (while_loop E U K V XB ev_start ev_resume truthy nil_v funcsB recB fuel m c (erase_stmts body) qb).
Proof.
  induction m as [|m IH]; intros q qb HR; cbn [while_loop].
  - apply rrel_same. intros _. exact HR.
  - pose proof (eval_sim c q qb HR) as He. vcase He; [|apply rrel_same; exact HR0].
    destruct (truthy v); [|apply rrel_same; intros _; exact HR0].
    pose proof (body_sim _ _ HR0) as Hb. rcase Hb.
    destruct o; try (apply rrel_same; exact HR1); try (apply IH; apply HR1; discriminate).
    apply rrel_same. intros _. apply HR1. discriminate.
Qed.

Lemma do_sim c m : forall q qb, Rst q qb ->
  rrel (do_loop E U K V XA ev_start ev_resume truthy nil_v funcsA recA fuel m c body q)
       (do_loop E U K V XB ev_start ev_resume truthy nil_v funcsB recB fuel m c (erase_stmts body) qb).
Proof.
  induction m as [|m IH]; intros q qb HR; cbn [do_loop].
  - apply rrel_same. intros _. exact HR.
  - pose proof (body_sim _ _ HR) as Hb. rcase Hb.
    assert (Hgo : Rst q0 qb0 ->
      rrel match evalA c q0 with
           | (q2, VOut _ o) => (q2, o)
           | (q2, VVal _ v) => if truthy v then do_loop E U K V XA ev_start ev_resume truthy nil_v funcsA recA fuel m c body q2 else (q2, ONormal V)
           end
           match evalB c qb0 with
           | (q2, VOut _ o) => (q2, o)
           | (q2, VVal _ v) => if truthy v then do_loop E U K V XB ev_start ev_resume truthy nil_v funcsB recB fuel m c (erase_stmts body) q2 else (q2, ONormal V)
           end).
    { intros HR1. pose proof (eval_sim c _ _ HR1) as He. vcase He; [|apply rrel_same; exact HR2].
      destruct (truthy v); [apply IH; exact HR2|apply rrel_same; intros _; exact HR2]. }
    destruct o; try (apply rrel_same; exact HR0); try (apply Hgo; apply HR0; discriminate).
    apply rrel_same. intros _. apply HR0. discriminate.
Qed.

Definition brel (r : stA * (bool + out)) (rb : stB * (bool + out)) : Prop :=
  snd r = snd rb /\ (snd r <> inr (OFuel V) -> Rst (fst r) (fst rb)).

Lemma brel_inv r rb : brel r rb ->
  (exists q qb b, r = (q, inl b) /\ rb = (qb, inl b) /\ Rst q qb)
  \/ (exists q qb o, r = (q, inr o) /\ rb = (qb, inr o) /\ (o <> OFuel V -> Rst q qb)).
Proof.
  destruct r as [q [b|o]], rb as [qb rb']; intros [Ho Hs]; cbn in Ho, Hs; subst rb'.
  - left. exists q, qb, b. split; [reflexivity|]. split; [reflexivity|]. apply Hs; discriminate.
  - right. exists q, qb, o. split; [reflexivity|]. split; [reflexivity|]. intros Hne. apply Hs. congruence.
Qed.

Ltac bcase H :=
  let q1 := fresh "q" in let qb1 := fresh "qb" in let b := fresh "b" in let o := fresh "o" in
  let Ea := fresh "Ea" in let Eb := fresh "Eb" in let HR := fresh "HR" in
  destruct (brel_inv _ _ H) as [(q1 & qb1 & b & Ea & Eb & HR) | (q1 & qb1 & o & Ea & Eb & HR)];
  rewrite Ea, Eb; clear Ea Eb.

Lemma eval_cond_sim c q qb : Rst q qb ->
  brel (eval_cond E U K V XA ev_start ev_resume truthy nil_v funcsA recA fuel c q)
       (eval_cond E U K V XB ev_start ev_resume truthy nil_v funcsB recB fuel c qb).
Proof.
  intros HR. destruct c as [c|]; cbn [eval_cond].
  - pose proof (eval_sim c q qb HR) as He. vcase He; split; cbn; try reflexivity.
    + intros _. exact HR0.
    + intros Hne. apply HR0. congruence.
  - split; [reflexivity|]. intros _. exact HR.
Qed.

Lemma for_sim c post m : forall q qb, Rst q qb ->
  rrel (for_loop E U K V XA ev_start ev_resume truthy nil_v funcsA recA fuel m c post body q)
       (for_loop E U K V XB ev_start ev_resume truthy nil_v funcsB recB fuel m c post (erase_stmts body) qb).
Proof.
  induction m as [|m IH]; intros q qb HR; cbn [for_loop].
  - apply rrel_same. intros _. exact HR.
  - pose proof (eval_cond_sim c q qb HR) as Hcnd. bcase Hcnd; [|apply rrel_same; exact HR0].
    destruct b; [|apply rrel_same; intros _; exact HR0].
    pose proof (body_sim _ _ HR0) as Hb. rcase Hb.
    assert (Hgo : Rst q1 qb1 ->
      rrel match eval_opt E U K V XA ev_start ev_resume nil_v funcsA recA fuel post q1 with
           | (q3, VVal _ _) => for_loop E U K V XA ev_start ev_resume truthy nil_v funcsA recA fuel m c post body q3
           | (q3, VOut _ o) => (q3, o)
           end
           match eval_opt E U K V XB ev_start ev_resume nil_v funcsB recB fuel post qb1 with
           | (q3, VVal _ _) => for_loop E U K V XB ev_start ev_resume truthy nil_v funcsB recB fuel m c post (erase_stmts body) q3
           | (q3, VOut _ o) => (q3, o)
           end).
    { intros HR2. pose proof (eval_opt_sim post _ _ HR2) as He. vcase He; [apply IH; exact HR3|apply rrel_same; exact HR3]. }
    destruct o; try (apply rrel_same; exact HR1); try (apply Hgo; apply HR1; discriminate).
    apply rrel_same. intros _. apply HR1. discriminate.
Qed.

Lemma forin_sim h m : forall it q qb, Rst q qb ->
  rrel (forin_loop E U V I XA forin_next recA m h it body q)
       (forin_loop E U V I XB forin_next recB m h it (erase_stmts body) qb).
Proof.
  induction m as [|m IH]; intros it q qb HR; cbn [forin_loop].
  - apply rrel_same. intros _. exact HR.
  - destruct HR as (H1 & H2 & H3). rewrite <- H1.
    destruct (forin_next h it (s_u U XA q)) as [[it' u']|]; [|apply rrel_same; intros _; repeat split; assumption].
    assert (HR1 : Rst (mkst U XA u' (s_x U XA q) (s_tr U XA q)) (mkst U XB u' (s_x U XB qb) (s_tr U XB qb))).
    { split; [reflexivity|]. split; [exact H2|exact H3]. }
    pose proof (body_sim _ _ HR1) as Hb. rcase Hb.
    destruct o; try (apply rrel_same; exact HR); try (apply IH; apply HR; discriminate).
    apply rrel_same. intros _. apply HR. discriminate.
Qed.

End Bodies.

Lemma wm_if c st bs en body els : wm_stmt (SIf c st bs en body els) -> wm_list None body /\ wm_list None els.
Proof.
  intros [[H1 H2] H3]. cbn [tagged_in] in H3. apply Forall_app in H3 as [H3 H4].
  split; split; assumption.
Qed.

Lemma exec_simple_sim k e q qb : Rst q qb ->
  rrel (exec_simple E U K V XA ev_start ev_resume nil_v funcsA recA fuel k e q)
       (exec_simple E U K V XB ev_start ev_resume nil_v funcsB recB fuel k e qb).
Proof.
  intros HR. pose proof (eval_sim e q qb HR) as He.
  destruct k; cbn [exec_simple]; try (apply rrel_same; intros _; exact HR);
    (vcase He; apply rrel_same; [intros _; exact HR0|exact HR0]).
Qed.

Lemma exec_body_sim s q qb : plain s -> wm_stmt s -> Rst q qb ->
  rrel (exec_body E U K V I XA ev_start ev_resume truthy nil_v forin_init forin_next bumpA funcsA recA fuel s q)
       (exec_body E U K V I XB ev_start ev_resume truthy nil_v forin_init forin_next bumpB funcsB recB fuel (erase s) qb).
Proof.
  intros Hpl Hwm HR. destruct s; try discriminate Hpl; cbn [erase exec_body].
  - apply exec_simple_sim. exact HR.
  - destruct (wm_if _ _ _ _ _ _ Hwm) as [Hb He].
    pose proof (eval_sim c q qb HR) as Hc'. vcase Hc'; [|apply rrel_same; exact HR0].
    destruct (truthy v); [apply (list_sim body None)|apply (list_sim els None)]; assumption.
  - pose proof (eval_opt_sim pre q qb HR) as Hc'. vcase Hc'; [|apply rrel_same; exact HR0].
    apply for_sim; [exact Hwm|exact HR0].
  - destruct HR as (H1 & H2 & H3). rewrite <- H1. apply forin_sim; [exact Hwm|]. repeat split; assumption.
  - apply while_sim; [exact Hwm|exact HR].
  - apply do_sim; [exact Hwm|exact HR].
  - apply (list_sim body None); [exact Hwm|exact HR].
Qed.

End Rec.

Ltac rcase H :=
  let q1 := fresh "q" in let qb1 := fresh "qb" in let o := fresh "o" in
  let Ea := fresh "Ea" in let Eb := fresh "Eb" in let HR := fresh "HR" in
  destruct (rrel_inv _ _ H) as (q1 & qb1 & o & Ea & Eb & HR); rewrite Ea, Eb; clear Ea Eb.

(* ---- statements, for every fuel ---- *)
Theorem exec_sim n : forall s q qb, plain s -> wm_stmt s -> Rst q qb ->
  rrel (execA n s q) (execB n (erase s) qb).
Proof.
  induction n as [|n IH]; intros s q qb Hpl Hwm HR.
  - split; [reflexivity|]. intros Hne. exfalso. apply Hne. reflexivity.
  - cbn [exec]. apply exec_body_sim; try assumption.
    intros m i q0. destruct n as [|n'].
    + right. split; reflexivity.
    + left. reflexivity.
Qed.

Lemma exec_cover_cases n : forall m i q,
  execA n (SCover m i) q = (mkst _ _ (s_u _ _ q) (bumpA m i (s_x _ _ q)) (s_tr _ _ q), ONormal V)
  \/ (snd (execA n (SCover m i) q) = OFuel V /\ forall s qb, snd (execB n s qb) = OFuel V).
Proof.
  intros m i q. destruct n as [|n']; [right; split; reflexivity|left; reflexivity].
Qed.

Theorem exec_list_sim n l q qb : wm_list None l -> Rst q qb ->
  rrel (exec_list E U V XA (execA n) l q) (exec_list E U V XB (execB n) (erase_stmts l) qb).
Proof.
  intros Hwm HR. apply (list_sim (execA n) (execB n) (exec_sim n) (exec_cover_cases n) l None); assumption.
Qed.

(* ---- the program driver ---- *)
Variable next_record : U -> nrec U V.
Variable print_record : U -> U * option V.
Variable skip_file : U -> U.

Definition lrel (la lb : list (cstmt E)) : Prop := erase_stmts la = lb /\ wm_list None la.
Definition body_prel (ba bb : option (list (cstmt E))) : Prop :=
  match ba, bb with
  | None, None => True
  | Some la, Some lb => lrel la lb /\ action_prints (Some la) = false /\ action_prints (Some lb) = false
  | _, _ => False
  end.
Definition arel (a b : action E) : Prop := a_pat a = a_pat b /\ body_prel (a_body a) (a_body b).
Record prel (A P : program E) : Prop := mk_prel {
  pr_begin : Forall2 lrel (p_begin A) (p_begin P);
  pr_actions : Forall2 arel (p_actions A) (p_actions P);
  pr_end : Forall2 lrel (p_end A) (p_end P);
  pr_end_empty : end_is_empty (p_end A) = end_is_empty (p_end P) }.

Section Driver.
Variable n : nat.
Notation run_listsA := (run_lists E U K V I XA ev_start ev_resume truthy nil_v forin_init forin_next bumpA funcsA n).
Notation run_listsB := (run_lists E U K V I XB ev_start ev_resume truthy nil_v forin_init forin_next bumpB funcsB n).

Lemma run_lists_sim la lb : Forall2 lrel la lb -> forall q qb, Rst q qb -> rrel (run_listsA la q) (run_listsB lb qb).
Proof.
  induction 1 as [|a b ta tb [Hab Hw] _ IH]; intros q qb HR; cbn [run_lists].
  - apply rrel_same. intros _. exact HR.
  - subst b. pose proof (exec_list_sim n a q qb Hw HR) as Hl. rcase Hl.
    destruct o; try (apply rrel_same; exact HR0). apply IH. apply HR0. discriminate.
Qed.

Notation eval_boolA := (eval_bool E U K V I XA ev_start ev_resume truthy nil_v forin_init forin_next bumpA funcsA n).
Notation eval_boolB := (eval_bool E U K V I XB ev_start ev_resume truthy nil_v forin_init forin_next bumpB funcsB n).

Lemma eval_bool_sim p q qb : Rst q qb -> brel (eval_boolA p q) (eval_boolB p qb).
Proof.
  intros HR. unfold eval_bool.
  pose proof (eval_sim (execA n) (execB n) (exec_sim n) (exec_cover_cases n) n p q qb HR) as He.
  destruct (vrel_inv _ _ He) as [(q1 & qb1 & v & Ea & Eb & HR1) | (q1 & qb1 & o & Ea & Eb & HR1)]; rewrite Ea, Eb.
  - split; [reflexivity|]. intros _. exact HR1.
  - split; [reflexivity|]. cbn. intros Hne. apply HR1. congruence.
Qed.

Notation match_actionA := (match_action E U K V I XA ev_start ev_resume truthy nil_v forin_init forin_next bumpA funcsA n).
Notation match_actionB := (match_action E U K V I XB ev_start ev_resume truthy nil_v forin_init forin_next bumpB funcsB n).

Lemma match_action_sim a b flag q qb : a_pat a = a_pat b -> Rst q qb ->
  snd (match_actionA a flag q) = snd (match_actionB b flag qb)
  /\ brel (fst (match_actionA a flag q)) (fst (match_actionB b flag qb)).
Proof.
  intros Hpat HR. unfold match_action. rewrite <- Hpat.
  destruct (a_pat a) as [|p1 [|p2 rest]].
  - cbn. split; [reflexivity|]. split; [reflexivity|]. intros _. exact HR.
  - cbn [fst snd]. split; [reflexivity|]. apply eval_bool_sim. exact HR.
  - assert (H1 : brel (if flag then (q, inl true) else eval_boolA p1 q) (if flag then (qb, inl true) else eval_boolB p1 qb)).
    { destruct flag; [split; [reflexivity|intros _; exact HR]|apply eval_bool_sim; exact HR]. }
    destruct (brel_inv _ _ H1) as [(q1 & qb1 & b1 & Ea & Eb & HR1) | (q1 & qb1 & o & Ea & Eb & HR1)]; rewrite Ea, Eb.
    + destruct b1.
      * pose proof (eval_bool_sim p2 q1 qb1 HR1) as H2.
        destruct (brel_inv _ _ H2) as [(q2 & qb2 & b2 & Ea2 & Eb2 & HR2) | (q2 & qb2 & o & Ea2 & Eb2 & HR2)]; rewrite Ea2, Eb2; cbn.
        -- split; [reflexivity|]. split; [reflexivity|]. intros _. exact HR2.
        -- split; [reflexivity|]. split; [reflexivity|]. cbn. intros Hne. apply HR2. congruence.
      * cbn. split; [reflexivity|]. split; [reflexivity|]. intros _. exact HR1.
    + cbn. split; [reflexivity|]. split; [reflexivity|]. cbn. intros Hne. apply HR1. congruence.
Qed.

Notation run_actionsA := (run_actions E U K V I XA ev_start ev_resume truthy nil_v forin_init forin_next bumpA funcsA print_record skip_file n).
Notation run_actionsB := (run_actions E U K V I XB ev_start ev_resume truthy nil_v forin_init forin_next bumpB funcsB print_record skip_file n).

Definition arrel (r : stA * list bool * out) (rb : stB * list bool * out) : Prop :=
  snd (fst r) = snd (fst rb) /\ snd r = snd rb /\ (snd r <> OFuel V -> Rst (fst (fst r)) (fst (fst rb))).

Lemma print_q_sim q qb : Rst q qb -> rrel (print_q U V XA print_record q) (print_q U V XB print_record qb).
Proof.
  intros (H1 & H2 & H3). unfold print_q. rewrite <- H1.
  destruct (print_record (s_u U XA q)) as [u' [v|]]; apply rrel_same; intros _; (split; [reflexivity|]; split; [exact H2|exact H3]).
Qed.

Lemma run_actions_sim la lb : Forall2 arel la lb -> forall inrs q qb, Rst q qb ->
  arrel (run_actionsA la inrs q) (run_actionsB lb inrs qb).
Proof.
  induction 1 as [|a b ta tb [Hpat Hbody] _ IH]; intros inrs q qb HR; cbn [run_actions].
  - split; [reflexivity|]. split; [reflexivity|]. intros _. exact HR.
  - set (flag := match inrs with b0 :: _ => b0 | [] => false end).
    set (inrs' := match inrs with _ :: r => r | [] => [] end).
    destruct (match_action_sim a b flag q qb Hpat HR) as [Hfl Hm].
    destruct (match_actionA a flag q) as [ra fa], (match_actionB b flag qb) as [rb fb]. cbn [fst snd] in Hfl, Hm. subst fb.
    destruct (brel_inv _ _ Hm) as [(q1 & qb1 & b1 & Ea & Eb & HR1) | (q1 & qb1 & o & Ea & Eb & HR1)]; rewrite Ea, Eb.
    + destruct b1.
      * assert (Hr : rrel
          match a_body a with
          | Some body => if action_prints (a_body a) then print_q U V XA print_record q1
                         else exec_list E U V XA (execA n) body q1
          | None => print_q U V XA print_record q1 end
          match a_body b with
          | Some body => if action_prints (a_body b) then print_q U V XB print_record qb1
                         else exec_list E U V XB (execB n) body qb1
          | None => print_q U V XB print_record qb1 end).
        { unfold body_prel in Hbody. destruct (a_body a) as [ba|], (a_body b) as [bb|]; try contradiction.
          - destruct Hbody as ([He Hw] & Hpa & Hpb). rewrite Hpa, Hpb. subst bb. apply exec_list_sim; assumption.
          - apply print_q_sim. exact HR1. }
        destruct (rrel_inv _ _ Hr) as (q2 & qb2 & o & Ea2 & Eb2 & HR2). rewrite Ea2, Eb2. clear Ea2 Eb2.
        destruct o as [| | |v|ab| |]; try (split; [reflexivity|]; split; [reflexivity|]; cbn; intros Hne; apply HR2; congruence).
        -- specialize (IH inrs' q2 qb2 (HR2 ltac:(discriminate))).
           destruct (run_actionsA ta inrs' q2) as [[q3 r3] o3], (run_actionsB tb inrs' qb2) as [[qb3 rb3] ob3].
           destruct IH as (I1 & I2 & I3). cbn in I1, I2, I3. subst rb3 ob3.
           split; [reflexivity|]. split; [reflexivity|]. exact I3.
        -- destruct ab; try (split; [reflexivity|]; split; [reflexivity|]; cbn; intros Hne; apply HR2; congruence).
           split; [reflexivity|]. split; [reflexivity|]. cbn. intros _.
              destruct (HR2 ltac:(discriminate)) as (H1 & H2 & H3). split; [cbn; rewrite H1; reflexivity|]. split; assumption.
      * specialize (IH inrs' q1 qb1 HR1).
        destruct (run_actionsA ta inrs' q1) as [[q3 r3] o3], (run_actionsB tb inrs' qb1) as [[qb3 rb3] ob3].
        destruct IH as (I1 & I2 & I3). cbn in I1, I2, I3. subst rb3 ob3.
        split; [reflexivity|]. split; [reflexivity|]. exact I3.
    + split; [reflexivity|]. split; [reflexivity|]. exact HR1.
Qed.

Notation run_recordsA := (run_records E U K V I XA ev_start ev_resume truthy nil_v forin_init forin_next bumpA funcsA next_record print_record skip_file n).
Notation run_recordsB := (run_records E U K V I XB ev_start ev_resume truthy nil_v forin_init forin_next bumpB funcsB next_record print_record skip_file n).

Lemma run_records_sim la lb : Forall2 arel la lb -> forall m inrs q qb, Rst q qb ->
  rrel (run_recordsA m la inrs q) (run_recordsB m lb inrs qb).
Proof.
  intros Hacts. induction m as [|m IH]; intros inrs q qb HR; cbn [run_records].
  - apply rrel_same. intros _. exact HR.
  - destruct HR as (H1 & H2 & H3). rewrite <- H1.
    destruct (next_record (s_u U XA q)) as [u|u|u v];
      try (apply rrel_same; intros _; split; [reflexivity|]; split; [exact H2|exact H3]).
    assert (HR1 : Rst (mkst U XA u (s_x U XA q) (s_tr U XA q)) (mkst U XB u (s_x U XB qb) (s_tr U XB qb))).
    { split; [reflexivity|]. split; [exact H2|exact H3]. }
    pose proof (run_actions_sim la lb Hacts inrs _ _ HR1) as Hr.
    destruct (run_actionsA la inrs (mkst U XA u (s_x U XA q) (s_tr U XA q))) as [[q1 r1] o1],
             (run_actionsB lb inrs (mkst U XB u (s_x U XB qb) (s_tr U XB qb))) as [[qb1 rb1] ob1].
    destruct Hr as (I1 & I2 & I3). cbn in I1, I2, I3. subst rb1 ob1.
    destruct o1; try (apply rrel_same; exact I3). apply IH. apply I3. discriminate.
Qed.

Notation run_endA := (run_end E U K V I XA ev_start ev_resume truthy nil_v forin_init forin_next bumpA funcsA n).
Notation run_endB := (run_end E U K V I XB ev_start ev_resume truthy nil_v forin_init forin_next bumpB funcsB n).
Notation run_mainA := (run_main E U K V I XA ev_start ev_resume truthy nil_v forin_init forin_next bumpA funcsA next_record print_record skip_file n).
Notation run_mainB := (run_main E U K V I XB ev_start ev_resume truthy nil_v forin_init forin_next bumpB funcsB next_record print_record skip_file n).
Notation after_beginA := (after_begin E U K V I XA ev_start ev_resume truthy nil_v forin_init forin_next bumpA funcsA next_record print_record skip_file n).
Notation after_beginB := (after_begin E U K V I XB ev_start ev_resume truthy nil_v forin_init forin_next bumpB funcsB next_record print_record skip_file n).

Lemma run_end_sim A P q qb : prel A P -> Rst q qb -> rrel (run_endA A q) (run_endB P qb).
Proof.
  intros [Hb Ha He Hee] HR. unfold run_end.
  pose proof (run_lists_sim _ _ He q qb HR) as Hl. rcase Hl.
  destruct o as [| | |v|ab| |]; try (apply rrel_same; exact HR0).
  destruct ab; try (apply rrel_same; exact HR0). apply rrel_same. intros _. apply HR0. discriminate.
Qed.

Lemma run_main_sim A P q qb : prel A P -> Rst q qb -> rrel (run_mainA A q) (run_mainB P qb).
Proof.
  intros [Hb Ha He Hee] HR. unfold run_main.
  assert (Hlen : map (fun _ : action E => false) (p_actions A) = map (fun _ : action E => false) (p_actions P)).
  { clear -Ha. induction Ha; cbn; congruence. }
  rewrite Hlen.
  pose proof (run_records_sim _ _ Ha n (map (fun _ => false) (p_actions P)) q qb HR) as Hr. rcase Hr.
  destruct o as [| | |v|ab| |]; try (apply rrel_same; exact HR0).
  destruct ab; try (apply rrel_same; exact HR0). apply rrel_same. intros _. apply HR0. discriminate.
Qed.

Lemma after_begin_sim A P q qb exited : prel A P -> Rst q qb ->
  rrel (after_beginA A q exited) (after_beginB P qb exited).
Proof.
  intros HP HR. unfold after_begin.
  assert (Hrest : rrel
    match (if exited then (q, ONormal V) else run_mainA A q) with
    | (q2, ONormal _) => run_endA A q2 | r => r end
    match (if exited then (qb, ONormal V) else run_mainB P qb) with
    | (q2, ONormal _) => run_endB P q2 | r => r end).
  { assert (Hmid : rrel (if exited then (q, ONormal V) else run_mainA A q) (if exited then (qb, ONormal V) else run_mainB P qb)).
    { destruct exited; [apply rrel_same; intros _; exact HR|apply run_main_sim; assumption]. }
    rcase Hmid. destruct o; try (apply rrel_same; exact HR0). apply run_end_sim; [exact HP|]. apply HR0. discriminate. }
  destruct HP as [Hb Ha He Hee]. rewrite <- Hee.
  assert (Hnil : p_actions A = [] <-> p_actions P = []).
  { clear -Ha. split; intros H; rewrite H in Ha; inversion Ha; reflexivity. }
  destruct (p_actions A) as [|a1 ta]; destruct (p_actions P) as [|b1 tb];
    try (destruct Hnil as [Hn1 Hn2]; first [discriminate (Hn1 eq_refl) | discriminate (Hn2 eq_refl)]).
  - destruct (end_is_empty (p_end A)); [apply rrel_same; intros _; exact HR|exact Hrest].
  - exact Hrest.
Qed.

Theorem exec_prog_sim A P q qb : prel A P -> Rst q qb ->
  rrel (exec_prog E U K V I XA ev_start ev_resume truthy nil_v forin_init forin_next bumpA funcsA next_record print_record skip_file n A q)
       (exec_prog E U K V I XB ev_start ev_resume truthy nil_v forin_init forin_next bumpB funcsB next_record print_record skip_file n P qb).
Proof.
  intros HP HR. unfold exec_prog.
  pose proof (run_lists_sim _ _ (pr_begin _ _ HP) q qb HR) as Hl. rcase Hl.
  destruct o as [| | |v|ab| |]; try (apply rrel_same; exact HR0).
  - apply after_begin_sim; [exact HP|]. apply HR0. discriminate.
  - destruct ab; try (apply rrel_same; exact HR0). apply after_begin_sim; [exact HP|]. apply HR0. discriminate.
Qed.

End Driver.
End Sim.
