(* C03 proofs, part 3: scan(), scanRegex(), the scan loop. *)
From Verif Require Import Lib.Base Lib.Utf8 Model.Lexer Proofs.LexerPos Proofs.LexerScan.
From Coq Require Import ZifyBool.
Open Scope Z_scope.

Section Tokens.
Variable src : bytes.
Notation P := (pos_of_offset src).
Notation len := (zlen src).
Notation W := (W src).
Notation Norm := (Norm src).
Notation Inv := (Inv src).
Notation NormInv := (NormInv src).

(* what is claimed about one reported token: a token other than ILLEGAL is reported at the
   line/column of the offset where it starts; ILLEGAL at the line/column of some offset 0..len *)
Definition tok_ok (t : token) : Prop :=
  (tkind t <> T_ILLEGAL -> tpos t = P (tstart t) /\ 0 <= tstart t <= len) /\
  (tkind t = T_ILLEGAL -> exists k, 0 <= k <= len /\ tpos t = P k).

Definition scan_post (l0 : lexer) (r : token * lexer) : Prop :=
  Inv (snd r) /\ tok_ok (fst r) /\
  (is_final (fst r) = false -> NormInv (snd r) /\ offset l0 < offset (snd r)) /\
  (tkind (fst r) = T_DIV ->
     lpos (snd r) = col_add (tpos (fst r)) 1 /\ offset (snd r) = tstart (fst r) + 2) /\
  (tkind (fst r) = T_DIV_ASSIGN ->
     lpos (snd r) = col_add (tpos (fst r)) 2 /\ offset (snd r) = tstart (fst r) + 3).

Lemma choice_spec l0 l c one two :
  NormInv l -> Rel l0 l -> c <> 0 ->
  okr (fun tl => NormInv (snd tl) /\ Rel l0 (snd tl) /\ offset l <= offset (snd tl) /\
                 ((fst tl = one /\ snd tl = l) \/
                  (fst tl = two /\ ch l = c /\ offset (snd tl) = offset l + 1 /\ lpos (snd tl) = npos l)))
      (choice src l c one two).
Proof.
  intros Hn Hr Hc. unfold choice. destruct (ch l =? c) eqn:E.
  - eapply okr_bind; [apply (nextN src l0 l Hn Hr); lia|].
    intros l' (Hn' & Hr' & Ho' & Hl' & _). apply okr_ret. cbn [fst snd].
    splits; try assumption; try lia. right. splits; try reflexivity; try assumption; lia.
  - apply okr_ret. cbn [fst snd]. splits; try assumption; try lia. left; split; reflexivity.
Qed.

Definition sym_post (c : Z) (l0 l : lexer) (r : Z * bytes * lexer) : Prop :=
  let '(t, v, l') := r in
  NormInv l' /\ Rel l0 l' /\ offset l <= offset l' /\
  t <> T_EOF /\
  (t = T_DIV \/ t = T_DIV_ASSIGN -> c = 47) /\
  (c = 47 -> (t = T_DIV /\ l' = l) \/
             (t = T_DIV_ASSIGN /\ ch l = 61 /\ offset l' = offset l + 1 /\ lpos l' = npos l)).

Ltac peel := lazymatch goal with
  | |- okr _ (if ?b then _ else _) => let E := fresh "E" in destruct b eqn:E; peel
  | |- _ => idtac end.

(* a goal "T_A = T_B -> _" or "T_A <> T_B" between distinct token numbers *)
Ltac tkneq :=
  let H := fresh in
  intro H; exfalso; vm_compute in H; discriminate H.

Ltac sym_leaf Hn Hr :=
  apply okr_ret; unfold sym_post; splits;
  [ exact Hn | exact Hr | lia | tkneq | (let H := fresh in intros [H|H]; exfalso; vm_compute in H; discriminate H) | intro; exfalso; lia ].

Lemma scan_symbol_spec c l0 l :
  NormInv l -> Rel l0 l -> okr (sym_post c l0 l) (scan_symbol src c l).
Proof.
  intros Hn Hr. unfold scan_symbol. cbv zeta. peel.
  all: try (sym_leaf Hn Hr).
  (* one more character consumed by next *)
  all: try (eapply okr_bind; [apply (nextN src l0 l Hn Hr); lia|];
            let l1 := fresh "l1" in let Hn1 := fresh "Hn1" in let Hr1 := fresh "Hr1" in
            intros l1 (Hn1 & Hr1 & ? & ? & _); cbn [lbind]; sym_leaf Hn1 Hr1).
  (* choice, not '/' *)
  all: try (eapply okr_bind; [apply (choice_spec l0 l _ _ _ Hn Hr); lia|];
            let t := fresh "t" in let l1 := fresh "l1" in let Hn1 := fresh "Hn1" in let Hr1 := fresh "Hr1" in
            intros (t, l1) (Hn1 & Hr1 & ? & [(? & ?)|(? & ? & ? & ?)]); cbn [fst snd] in *; subst t;
            sym_leaf Hn1 Hr1).
  - (* "**" then choice *)
    eapply okr_bind; [apply (nextN src l0 l Hn Hr); lia|].
    intros l1 (Hn1 & Hr1 & Ho1 & _).
    eapply okr_bind; [apply (choice_spec l0 l1 _ _ _ Hn1 Hr1); lia|].
    intros (t, l2) (Hn2 & Hr2 & Ho2 & [(? & ?)|(? & ? & ? & ?)]); cbn [fst snd] in *; subst t;
      sym_leaf Hn2 Hr2.
  - (* '/' : DIV or DIV_ASSIGN *)
    eapply okr_bind; [apply (choice_spec l0 l _ _ _ Hn Hr); lia|].
    intros (t, l1) (Hn1 & Hr1 & Ho1 & Hc). cbn [fst snd] in *.
    apply okr_ret. unfold sym_post. splits; try assumption.
    + destruct Hc as [(-> & _)|(-> & _)]; tkneq.
    + intros _. lia.
    + intros _. destruct Hc as [(-> & ->)|(-> & ? & ? & ?)]; [left|right]; splits; auto.
Qed.

(* ---- keyword tokens are never ILLEGAL's siblings EOF / DIV / DIV_ASSIGN ---------------- *)
Lemma keyword_lookup_in tbl name :
  keyword_lookup tbl name = T_ILLEGAL \/ In (keyword_lookup tbl name) (map snd tbl).
Proof.
  induction tbl as [|(k, t) tbl IH]; cbn [keyword_lookup map snd].
  - left; reflexivity.
  - destruct (bytes_eqb k name); [right; left; reflexivity|].
    destruct IH as [IH|IH]; [left; assumption|right; right; assumption].
Qed.

Definition plain_kind (t : Z) : bool :=
  negb (t =? T_EOF) && negb (t =? T_DIV) && negb (t =? T_DIV_ASSIGN).

Lemma keyword_token_plain name : keyword_token name <> T_ILLEGAL -> plain_kind (keyword_token name) = true.
Proof.
  intros Hne. unfold keyword_token in *.
  destruct (keyword_lookup_in keywords name) as [H|H]; [contradiction|].
  assert (Hall : forallb plain_kind (map snd keywords) = true) by (vm_compute; reflexivity).
  rewrite forallb_forall in Hall. apply Hall; assumption.
Qed.

(* ---- building the post-condition of scan() --------------------------------------------- *)
Lemma post_illegal l0 l msg :
  Inv l -> scan_post l0 (tok_at l T_ILLEGAL msg l).
Proof.
  intros Hi. unfold scan_post, tok_at. cbn [fst snd tkind tpos tstart].
  splits; try assumption.
  - unfold tok_ok. cbn [tkind tpos tstart]. split.
    + intros Hne; exfalso; apply Hne; reflexivity.
    + intros _. apply (Inv_lpos_exists src l Hi).
  - unfold is_final. cbn [tkind]. intros H; vm_compute in H; discriminate H.
  - intros H; vm_compute in H; discriminate H.
  - intros H; vm_compute in H; discriminate H.
Qed.

Lemma tok_at_ok lc kind val l' : NormInv lc -> tok_ok (fst (tok_at lc kind val l')).
Proof.
  intros Hni. unfold tok_ok, tok_at. cbn [fst tkind tpos tstart].
  destruct (NormInv_norm _ _ Hni) as (_ & Hl & _).
  pose proof (LexerPos.NormInv_bounds _ _ Hni) as Hb'.
  replace (Z.max 0 (offset lc - 1)) with (offset lc - 1) by lia.
  split.
  - intros _. split; [assumption|lia].
  - intros _. exists (offset lc - 1). split; [lia|assumption].
Qed.

Lemma post_eof l0 l : NormInv l -> scan_post l0 (tok_at l T_EOF [] l).
Proof.
  intros Hn. unfold scan_post. splits.
  - apply NormInv_Inv; exact Hn.
  - apply tok_at_ok; assumption.
  - intros H; vm_compute in H; discriminate H.
  - intros H; vm_compute in H; discriminate H.
  - intros H; vm_compute in H; discriminate H.
Qed.

Lemma post_tok lc l0 l' kind val :
  NormInv lc -> Rel l0 lc -> NormInv l' -> offset lc < offset l' ->
  kind <> T_DIV -> kind <> T_DIV_ASSIGN ->
  scan_post l0 (tok_at lc kind val l').
Proof.
  intros Hn Ho Hn' Ho' Hk1 Hk2. unfold Rel in Ho. unfold scan_post. splits.
  - apply NormInv_Inv; exact Hn'.
  - apply tok_at_ok; assumption.
  - intros _. split; [exact Hn'|cbn [snd tok_at]; lia].
  - intros H. cbn [fst tok_at tkind] in H. contradiction.
  - intros H. cbn [fst tok_at tkind] in H. contradiction.
Qed.

(* after a plain byte the next position is one column further *)
Lemma norm_npos_plain l : NormInv l -> ch l <> 0 -> plain (ch l) -> npos l = col_add (lpos l) 1.
Proof.
  intros Hn Hnz Hpl. destruct (NormInv_norm _ _ Hn) as (_ & Hl & Hnp).
  destruct (W_ch_nonzero src l (NormInv_W _ _ Hn) Hnz) as (_ & Hi).
  pose proof (pos_of_offset_step _ _ _ Hi) as Hs.
  replace (offset l - 1 + 1) with (offset l) in Hs by lia.
  rewrite Hnp, Hs, (adv_plain _ _ Hpl), Hl. reflexivity.
Qed.

Lemma plain_kind_neq t : plain_kind t = true -> t <> T_EOF /\ t <> T_DIV /\ t <> T_DIV_ASSIGN.
Proof. unfold plain_kind. lia. Qed.

Lemma slice_ok {A} (s : list A) lo hi : 0 <= lo <= hi -> hi <= zlen s -> exists r, slice s lo hi = Ok r.
Proof.
  intros H1 H2. unfold slice. replace ((0 <=? lo) && (lo <=? hi) && (hi <=? zlen s)) with true by lia. eauto.
Qed.

Lemma slice_len {A} (s : list A) lo hi r : slice s lo hi = Ok r -> zlen r = hi - lo.
Proof.
  unfold slice. destruct ((0 <=? lo) && (lo <=? hi) && (hi <=? zlen s)) eqn:E; [|discriminate].
  intros H; injection H as <-. rewrite zlen_ztake; [reflexivity|]. rewrite zlen_zdrop; lia.
Qed.

Lemma NormInv_bounds l : NormInv l -> 1 <= offset l <= len + 1.
Proof. apply LexerPos.NormInv_bounds. Qed.

Lemma is_name_start_nz c : is_name_start c = true -> c <> 0.
Proof. unfold is_name_start. lia. Qed.

Lemma name_char_nz c : is_name_start c || is_digit c = true -> c <> 0.
Proof. unfold is_name_start, is_digit. lia. Qed.

Lemma comment_char_nz c : negb (c =? 10) && negb (c =? 0) = true -> c <> 0.
Proof. lia. Qed.

Lemma scan_spec fuel l0 :
  NormInv l0 -> len + 2 - offset l0 <= Z.of_nat fuel -> okr (scan_post l0) (scan src fuel l0).
Proof.
  intros Hn0 Hf. unfold scan. cbv zeta.
  pose proof (NormInv_set_had src false l0 Hn0) as Hna.
  assert (Hra : Rel l0 (set_had_space false l0)) by exact (Rel_refl l0).
  eapply okr_bind; [apply (skip_ws_spec src fuel l0 _ Hna Hra); exact Hf|].
  intros [l|l] (Hn & Hr); cbn [ws_state] in *.
  { apply okr_ret. apply post_illegal. apply NormInv_Inv; assumption. }
  (* comment *)
  eapply okr_bind with (Q1 := fun l' => NormInv l' /\ Rel l0 l').
  { destruct (ch l =? 35) eqn:E35.
    - eapply okr_bind; [apply (nextN src l0 l Hn Hr); lia|].
      intros l1 (Hn1 & Hr1 & Ho1 & _). pose proof Hr1 as Hle1. unfold Rel in Hle1.
      eapply okr_weaken; [apply (skip_while_spec src _ comment_char_nz fuel l0 l1 Hn1 Hr1); lia|].
      intros l2 (? & ? & _). split; assumption.
    - apply okr_ret. split; assumption. }
  clear l Hn Hr. intros l (Hn & Hr). pose proof Hr as Hle. unfold Rel in Hle.
  destruct (ch l =? 0) eqn:E0.
  { apply okr_ret. apply post_eof; assumption. }
  assert (Hnz : ch l <> 0) by lia.
  pose proof (NormInv_bounds _ Hn) as Hbl.
  eapply okr_bind; [apply (nextN src l0 l Hn Hr Hnz)|].
  intros l1 (Hn1 & Hr1 & Ho1 & Hl1 & _). pose proof Hr1 as Hle1. unfold Rel in Hle1.
  destruct (is_name_start (ch l)) eqn:Ens.
  { (* names and keywords *)
    eapply okr_bind; [apply (skip_while_spec src _ name_char_nz fuel l0 l1 Hn1 Hr1); lia|].
    intros l2 (Hn2 & Hr2 & Ho2 & _). pose proof (NormInv_bounds _ Hn2) as Hb2.
    destruct (slice_ok src (offset l1 - 2) (offset l2 - 1)) as (name & Es); [lia|lia|].
    rewrite Es. cbn [of_res lbind].
    destruct (keyword_token name =? T_ILLEGAL) eqn:Ek.
    - apply okr_ret. apply post_tok; try assumption; try lia; tkneq.
    - apply okr_ret.
      assert (Hk : keyword_token name <> T_ILLEGAL) by lia.
      pose proof (plain_kind_neq _ (keyword_token_plain name Hk)) as (_ & ? & ?).
      apply post_tok; try assumption; lia. }
  destruct (is_digit (ch l) || (ch l =? 46)) eqn:Enum.
  { (* numbers *)
    eapply okr_bind with (Q1 := fun gl => NormInv (snd gl) /\ Rel l0 (snd gl) /\ offset l1 <= offset (snd gl)).
    { destruct (negb (ch l =? 46)).
      - eapply okr_bind; [apply (skip_while_spec src _ is_digit_nz fuel l0 l1 Hn1 Hr1); lia|].
        intros l2 (Hn2 & Hr2 & Ho2 & _).
        eapply okr_bind with (Q1 := fun l3 => NormInv l3 /\ Rel l0 l3 /\ offset l1 <= offset l3).
        { destruct (ch l2 =? 46) eqn:Edot.
          - eapply okr_weaken; [apply (nextN src l0 l2 Hn2 Hr2); lia|].
            intros l3 (? & ? & ? & _). splits; try assumption; lia.
          - apply okr_ret. splits; try assumption; lia. }
        intros l3 (? & ? & ?). apply okr_ret. cbn [snd]. splits; assumption.
      - apply okr_ret. cbn [snd]. splits; try assumption; lia. }
    intros (got0, l2) (Hn2 & Hr2 & Ho2). cbn [snd] in *. pose proof Hr2 as Hle2. unfold Rel in Hle2.
    eapply okr_bind; [apply (skip_digits_spec src fuel got0 l0 l2 Hn2 Hr2); lia|].
    intros (got, l3) (Hn3 & Hr3 & Ho3 & _). cbn [fst snd] in *. pose proof Hr3 as Hle3. unfold Rel in Hle3.
    destruct (negb got).
    { apply okr_ret. apply post_illegal. apply NormInv_Inv; assumption. }
    eapply okr_bind with (Q1 := fun l4 => NormInv l4 /\ offset l3 <= offset l4).
    { destruct ((ch l3 =? 101) || (ch l3 =? 69)) eqn:Ee.
      - apply (scan_exponent_spec src fuel l3 Hn3); lia.
      - apply okr_ret. split; [assumption|lia]. }
    intros l4 (Hn4 & Ho4). pose proof (NormInv_bounds _ Hn4) as Hb4.
    destruct (slice_ok src (offset l1 - 2) (offset l4 - 1)) as (v & Es); [lia|lia|].
    rewrite Es. cbn [of_res lbind].
    apply okr_ret. apply post_tok; try assumption; try lia; tkneq. }
  destruct ((ch l =? 34) || (ch l =? 39)) eqn:Estr.
  { (* strings *)
    eapply okr_bind; [apply (parse_string_spec src fuel (ch l) [] l1 l1 (NormInv_Inv _ _ Hn1) (Rel_refl l1)); lia|].
    intros [msg l2|chars l2] (Hi2 & Hle12); cbn [str_state] in *; unfold Rel in Hle12.
    { apply okr_ret. apply post_illegal; assumption. }
    destruct (negb (ch l2 =? ch l)) eqn:Eend.
    { apply okr_ret. apply post_illegal; assumption. }
    assert (Hnz2 : ch l2 <> 0) by lia.
    pose proof (Inv_nonzero_NormInv src l2 Hi2 Hnz2) as Hn2.
    assert (Hr2 : Rel l0 l2) by (unfold Rel; lia).
    eapply okr_bind; [apply (nextN src l0 l2 Hn2 Hr2 Hnz2)|].
    intros l3 (Hn3 & Hr3 & Ho3 & _).
    apply okr_ret. apply post_tok; try assumption; try lia; tkneq. }
  destruct (ch l =? 38) eqn:Eamp.
  { (* '&' *)
    eapply okr_bind; [apply (choice_spec l0 l1 38 T_ILLEGAL T_AND Hn1 Hr1); lia|].
    intros (t, l2) (Hn2 & Hr2 & Ho2 & Hc). cbn [fst snd] in *.
    destruct Hc as [(-> & ->)|(-> & _)].
    - replace (T_ILLEGAL =? T_ILLEGAL) with true by reflexivity.
      apply okr_ret. apply post_illegal. apply NormInv_Inv; assumption.
    - replace (T_AND =? T_ILLEGAL) with false by reflexivity.
      apply okr_ret. apply post_tok; try assumption; try lia; tkneq. }
  (* all other characters *)
  eapply okr_bind; [apply (scan_symbol_spec (ch l) l0 l1 Hn1 Hr1)|].
  intros ((t, v), l2) (Hn2 & Hr2 & Ho2 & Hne & Hd1 & Hd2).
  apply okr_ret. unfold scan_post. cbn [fst snd tok_at tkind tpos tstart].
  splits.
  - apply NormInv_Inv; exact Hn2.
  - apply (tok_at_ok l t v l2); assumption.
  - intros _. split; [exact Hn2|lia].
  - replace (Z.max 0 (offset l - 1)) with (offset l - 1) by lia.
    intros Ht. specialize (Hd2 (Hd1 (or_introl Ht))).
    destruct Hd2 as [(_ & ->)|(Ht' & _)]; [|rewrite Ht in Ht'; vm_compute in Ht'; discriminate Ht'].
    rewrite Hl1, (norm_npos_plain l Hn Hnz) by (rewrite (Hd1 (or_introl Ht)); unfold plain; lia).
    split; [reflexivity|lia].
  - replace (Z.max 0 (offset l - 1)) with (offset l - 1) by lia.
    intros Ht. specialize (Hd2 (Hd1 (or_intror Ht))).
    destruct Hd2 as [(Ht' & _)|(_ & Hc61 & Ho & Hl2)]; [rewrite Ht in Ht'; vm_compute in Ht'; discriminate Ht'|].
    rewrite Hl2, (norm_npos_plain l1 Hn1) by (try (unfold plain); lia).
    rewrite Hl1, (norm_npos_plain l Hn Hnz) by (rewrite (Hd1 (or_intror Ht)); unfold plain; lia).
    rewrite col_add_add. split; [reflexivity|lia].
Qed.

(* ---- Scan(): scan() + lastTok ------------------------------------------------------------ *)
Lemma Scan_spec fuel l0 :
  NormInv l0 -> len + 2 - offset l0 <= Z.of_nat fuel ->
  okr (fun r => scan_post l0 r /\ lastTok (snd r) = tkind (fst r)) (Scan src fuel l0).
Proof.
  intros Hn Hf. unfold Scan.
  eapply okr_bind; [apply (scan_spec fuel l0 Hn Hf)|].
  intros (t, l') Hp. apply okr_ret. cbn [fst snd]. split; [exact Hp|reflexivity].
Qed.

(* ---- scanRegex() --------------------------------------------------------------------------- *)
(* the lexer state right after a DIV (back = 1) or DIV_ASSIGN (back = 2) token that started
   at offset s *)
Definition regex_pre (l0 : lexer) (back : Z) : Prop :=
  exists s, 0 <= s /\ lpos l0 = col_add (P s) back /\ offset l0 = s + 1 + back.

Definition regex_post (l0 : lexer) (r : token * lexer) : Prop :=
  Inv (snd r) /\ tok_ok (fst r) /\
  (is_final (fst r) = false -> NormInv (snd r) /\ offset l0 < offset (snd r)).

Lemma scan_regex_spec fuel l0 :
  NormInv l0 ->
  (lastTok l0 = T_DIV /\ regex_pre l0 1) \/ (lastTok l0 = T_DIV_ASSIGN /\ regex_pre l0 2) ->
  len + 2 - offset l0 <= Z.of_nat fuel ->
  okr (regex_post l0) (scan_regex src fuel l0).
Proof.
  intros Hn Hlast Hf. unfold scan_regex.
  assert (Hback : exists back, (back = 1 \/ back = 2) /\ regex_pre l0 back /\
            (if lastTok l0 =? T_DIV then LOk 1 else if lastTok l0 =? T_DIV_ASSIGN then LOk 2 else LPanic) = LOk back).
  { destruct Hlast as [(-> & Hp)|(-> & Hp)]; [exists 1|exists 2]; splits; auto. }
  destruct Hback as (back & Hb12 & Hpre & ->). cbn [lbind].
  pose proof (NormInv_bounds _ Hn) as Hb0.
  eapply okr_bind; [apply (regex_loop_spec src fuel _ l0 l0 (NormInv_Inv _ _ Hn) (Rel_refl l0)); exact Hf|].
  intros [msg l|chars l] (Hi & Hr & Hc); cbn [rx_state] in *; unfold Rel in Hr.
  - apply okr_ret. destruct (post_illegal l0 l msg Hi) as (H1 & H2 & H3 & _).
    unfold regex_post. splits; assumption.
  - assert (Hnz : ch l <> 0) by lia.
    pose proof (Inv_nonzero_NormInv src l Hi Hnz) as Hnl.
    eapply okr_bind; [apply (nextN src l0 l Hnl Hr Hnz)|].
    intros l' (Hn' & Hr' & Ho' & _). apply okr_ret.
    unfold regex_post. cbn [fst snd tkind]. splits.
    + apply NormInv_Inv; exact Hn'.
    + unfold tok_ok. cbn [tkind tpos tstart].
      destruct Hpre as (s & Hs0 & Hl & Ho).
      assert (Epos : col_add (lpos l0) (- back) = P s).
      { rewrite Hl, col_add_add. replace (back + - back) with 0 by lia. apply col_add_0. }
      split.
      * intros _. rewrite Epos. replace (offset l0 - 1 - back) with s by lia. split; [reflexivity|lia].
      * intros H; vm_compute in H; discriminate H.
    + intros _. split; [exact Hn'|lia].
Qed.

Lemma ScanRegex_spec fuel l0 :
  NormInv l0 ->
  (lastTok l0 = T_DIV /\ regex_pre l0 1) \/ (lastTok l0 = T_DIV_ASSIGN /\ regex_pre l0 2) ->
  len + 2 - offset l0 <= Z.of_nat fuel ->
  okr (regex_post l0) (ScanRegex src fuel l0).
Proof.
  intros Hn Hl Hf. unfold ScanRegex.
  eapply okr_bind; [apply (scan_regex_spec fuel l0 Hn Hl Hf)|].
  intros (t, l') Hp. apply okr_ret. exact Hp.
Qed.

(* ---- the client loop ------------------------------------------------------------------------ *)
Definition all_ok (os : list obs) : Prop := Forall (fun o => tok_ok (otok o)) os.
Definition ends_final (os : list obs) : Prop :=
  exists pre o, os = pre ++ [o] /\ is_final (otok o) = true /\
                Forall (fun o' => is_final (otok o') = false) pre.

Lemma lex_fuel_enough l : NormInv l -> len + 2 - offset l <= Z.of_nat (lex_fuel src).
Proof.
  intros Hn. pose proof (NormInv_bounds _ Hn). unfold lex_fuel, zlen. lia.
Qed.

Lemma scan_loop_spec :
  forall fuel ds l, NormInv l -> len + 2 - offset l <= Z.of_nat fuel ->
  okr (fun os => all_ok os /\ ends_final os) (scan_loop src (lex_fuel src) fuel ds l).
Proof.
  induction fuel as [|f IH]; intros ds l Hn Hf.
  - exfalso. pose proof (NormInv_bounds _ Hn). lia.
  - cbn [scan_loop].
    eapply okr_bind; [apply (Scan_spec _ l Hn (lex_fuel_enough l Hn))|].
    intros (t, l1) ((Hi1 & Hok & Hnf & Hdiv & Hdiva) & Hlast). cbn [fst snd] in *.
    destruct (is_final t) eqn:Efin.
    { apply okr_ret. split.
      - constructor; [exact Hok|constructor].
      - exists [], (observe t l1). splits; [reflexivity|exact Efin|constructor]. }
    destruct (Hnf eq_refl) as (Hn1 & Ho1).
    set (want := match ds with d :: _ => is_div t && d | [] => false end).
    destruct want eqn:Ewant.
    + (* the client asks for a regex *)
      assert (Hd : is_div t = true) by (subst want; destruct ds; [discriminate|]; lia).
      assert (Hpre : (lastTok l1 = T_DIV /\ regex_pre l1 1) \/ (lastTok l1 = T_DIV_ASSIGN /\ regex_pre l1 2)).
      { assert (Hstart : tkind t <> T_ILLEGAL -> tpos t = P (tstart t) /\ 0 <= tstart t).
        { intros Hk. destruct Hok as (Hp & _). destruct (Hp Hk) as (? & ? & _). split; assumption. }
        unfold is_div in Hd. destruct (tkind t =? T_DIV) eqn:Ed.
        - left. assert (Ek : tkind t = T_DIV) by lia. split; [congruence|].
          destruct (Hdiv Ek) as (Hl & Ho).
          destruct Hstart as (Hp & Hs); [rewrite Ek; tkneq|].
          exists (tstart t). splits; [assumption|congruence|lia].
        - right. assert (Ek : tkind t = T_DIV_ASSIGN) by lia. split; [congruence|].
          destruct (Hdiva Ek) as (Hl & Ho).
          destruct Hstart as (Hp & Hs); [rewrite Ek; tkneq|].
          exists (tstart t). splits; [assumption|congruence|lia]. }
      eapply okr_bind; [apply (ScanRegex_spec _ l1 Hn1 Hpre (lex_fuel_enough l1 Hn1))|].
      intros (r, l2) (Hi2 & Hok2 & Hnf2). cbn [fst snd] in *.
      destruct (is_final r) eqn:Efin2.
      { apply okr_ret. split.
        - constructor; [exact Hok|constructor; [exact Hok2|constructor]].
        - exists [observe t l1], (observe r l2). splits; [reflexivity|exact Efin2|].
          constructor; [exact Efin|constructor]. }
      destruct (Hnf2 eq_refl) as (Hn2 & Ho2).
      eapply okr_bind; [apply (IH _ l2 Hn2); lia|].
      intros rest (Hall & (pre & o & -> & Hfo & Hpre')). apply okr_ret. split.
      * constructor; [exact Hok|constructor; [exact Hok2|exact Hall]].
      * exists (observe t l1 :: observe r l2 :: pre), o. splits; [reflexivity|exact Hfo|].
        constructor; [exact Efin|constructor; [exact Efin2|exact Hpre']].
    + eapply okr_bind; [apply (IH _ l1 Hn1); lia|].
      intros rest (Hall & (pre & o & -> & Hfo & Hpre')). apply okr_ret. split.
      * constructor; [exact Hok|exact Hall].
      * exists (observe t l1 :: pre), o. splits; [reflexivity|exact Hfo|].
        constructor; [exact Efin|exact Hpre'].
Qed.

End Tokens.
